package server

// C23 — the session state machine refines the RFC 4271 FSM model.
// Engine E6+E4: models/BGPFSM.tla is model-checked by TLC (driver) and its
// labelled state graph dumped; here the real FSM is explored (BFS over event
// histories, same explorer as C07) and EVERY implementation transition — taken
// from the FSM's own state-change log, with the connection/attachment status
// sampled when it happens — must be an edge of the model's graph.

import (
	"bufio"
	"fmt"
	"os"
	"regexp"
	"strings"
	"testing"

	"github.com/bio-routing/bio-rd/zzverif/vh"
	"github.com/bio-routing/bio-rd/zzverif/vsched"
)

type zvAbs struct {
	St   string
	Conn string
	Att  bool
}

type zvModel struct {
	nodes map[string]struct {
		abs zvAbs
		act string
	}
	// edges[pre][act] = set of post states
	edges  map[zvAbs]map[string]map[zvAbs]bool
	nNodes int
	nEdges int
}

var (
	zvNodeRe = regexp.MustCompile(`^(-?\d+) \[label="((?:[^"\\]|\\.)*)"`)
	zvEdgeRe = regexp.MustCompile(`^(-?\d+) -> (-?\d+) \[label="`)
	zvVarRe  = regexp.MustCompile(`(st|conn|att|act|pst|upd) = (\\"([a-zA-Z]+)\\"|TRUE|FALSE|\d+)`)
)

func zvLoadModel(path string) (*zvModel, error) {
	f, err := os.Open(path)
	if err != nil {
		return nil, err
	}
	defer f.Close()
	m := &zvModel{nodes: map[string]struct {
		abs zvAbs
		act string
	}{}, edges: map[zvAbs]map[string]map[zvAbs]bool{}}
	type edge struct{ a, b string }
	var edges []edge
	sc := bufio.NewScanner(f)
	sc.Buffer(make([]byte, 1<<20), 1<<24)
	for sc.Scan() {
		l := sc.Text()
		if e := zvEdgeRe.FindStringSubmatch(l); e != nil {
			edges = append(edges, edge{e[1], e[2]})
			continue
		}
		if n := zvNodeRe.FindStringSubmatch(l); n != nil {
			var a zvAbs
			act := ""
			for _, v := range zvVarRe.FindAllStringSubmatch(n[2], -1) {
				val := v[3]
				switch v[1] {
				case "st":
					a.St = val
				case "conn":
					a.Conn = val
				case "att":
					a.Att = v[2] == "TRUE"
				case "act":
					act = val
				}
			}
			if a.St == "" || a.Conn == "" {
				return nil, fmt.Errorf("cannot parse model node: %.200s", l)
			}
			m.nodes[n[1]] = struct {
				abs zvAbs
				act string
			}{a, act}
		}
	}
	for _, e := range edges {
		a, ok1 := m.nodes[e.a]
		b, ok2 := m.nodes[e.b]
		if !ok1 || !ok2 {
			return nil, fmt.Errorf("edge refers to unknown node")
		}
		if m.edges[a.abs] == nil {
			m.edges[a.abs] = map[string]map[zvAbs]bool{}
		}
		if m.edges[a.abs][b.act] == nil {
			m.edges[a.abs][b.act] = map[zvAbs]bool{}
		}
		m.edges[a.abs][b.act][b.abs] = true
	}
	m.nNodes, m.nEdges = len(m.nodes), len(edges)
	if m.nNodes < 10 || m.nEdges < 10 {
		return nil, fmt.Errorf("model graph implausibly small (%d nodes, %d edges)", m.nNodes, m.nEdges)
	}
	return m, nil
}

// zvReasonToAct maps the implementation's transition reason to the model's event label
// ("" = unknown wording: any event of the model may justify the transition).
func zvReasonToAct(reason string) string {
	switch {
	case strings.HasPrefix(reason, "Received ManualStart"), strings.HasPrefix(reason, "Received AutomaticStart"):
		return "Start"
	case reason == "Manual stop event":
		return "ManualStop"
	case reason == "Automatic stop event":
		return "AutomaticStop"
	case reason == "Cease":
		return "Cease"
	case reason == "TCP connection succeeded", reason == "Sent OPEN message":
		return "TcpConnected"
	case strings.HasPrefix(reason, "Unable to set socket options"), strings.HasPrefix(reason, "Unable to send open"), strings.HasPrefix(reason, "Sending OPEN message failed"):
		return "TcpConnectedSendFails"
	case reason == "Connect retry timer expired":
		return "ConnectRetryExpires"
	case reason == "Holdtimer expired":
		return "HoldTimerExpires"
	case strings.HasPrefix(reason, "Failed to decode BGP message"):
		return "RecvMalformed"
	case reason == "FSM Error":
		return "RecvUnexpected"
	case strings.HasPrefix(reason, "Bad BGP Identifier"), strings.HasPrefix(reason, "Bad Peer AS"), strings.HasPrefix(reason, "role misatch"), strings.HasPrefix(reason, "role mismatch"):
		return "RecvOpenBad"
	case reason == "Received OPEN message":
		return "RecvOpenOk"
	case reason == "TCP connection failure":
		return "TcpFails"
	case reason == "Received NOTIFICATION":
		return "RecvNotification"
	case reason == "Received KEEPALIVE":
		return "RecvKeepalive"
	case strings.HasPrefix(reason, "Failed to send keepalive"):
		return "KeepaliveSendFails"
	}
	return ""
}

type zvC23Case struct {
	Cfg  string   `json:"config"`
	Hist []string `json:"history"`
}

var zvC23Seen = map[string]bool{}

func zvC23Check(r *vh.Run, m *zvModel, cfg zvSessCfg, hist []string, t zvSessTrace) bool {
	c := zvC23Case{cfg.Name, hist}
	last := "init"
	if len(hist) > 0 {
		last = hist[len(hist)-1]
	}
	if t.Status != vsched.Completed {
		r.Violation(vh.Sig("clause", "run-"+t.Status.String(), "config", cfg.Name, "event", last), c, "execution %s: %.500s %s", t.Status, t.Crash, t.Blocked)
		return false
	}
	ok := true
	// 1. every FSM transition is an edge of the model graph
	for _, tr := range t.Trans {
		if tr.Event != last {
			continue // checked when the shorter history was visited
		}
		pre := zvAbs{tr.Old, tr.PreConn, tr.PreAtt}
		post := zvAbs{tr.New, tr.Conn, tr.Att}
		if tr.New == stateNameEstablished {
			post.Att = true // attachment follows the transition; checked at the quiescent point below
		}
		act := zvReasonToAct(tr.Reason)
		key := fmt.Sprint(pre, act, post)
		r.Traces(1)
		if !zvC23Seen[key] {
			zvC23Seen[key] = true
			r.Count("distinct_impl_transitions", 1)
			r.Outcome(key)
		}
		found := false
		if byAct, okp := m.edges[pre]; okp {
			if act != "" {
				found = byAct[act][post]
			} else {
				for _, posts := range byAct {
					found = found || posts[post]
				}
			}
		}
		if !found {
			ok = false
			r.Violation(vh.Sig("clause", "not-a-model-transition", "from", tr.Old, "to", tr.New, "event", act, "conn_after", tr.Conn, "attached_after", fmt.Sprint(post.Att)), c,
				"implementation transition %s --[%s / %q]--> %s with connection %s->%s, attached %v->%v is not a behaviour of the RFC 4271 model", tr.Old, act, tr.Reason, tr.New, tr.PreConn, tr.Conn, tr.PreAtt, post.Att)
		}
	}
	// 2. at the quiescent point: routes attached exactly while Established
	o := t.Obs[len(t.Obs)-1]
	if o.Attached != (o.State == stateNameEstablished) {
		ok = false
		r.Violation(vh.Sig("clause", "attached-iff-established", "state", o.State, "attached", fmt.Sprint(o.Attached), "event", last), c, "after %s the session is %s but attached=%v", last, o.State, o.Attached)
	}
	if (o.State == stateNameEstablished) != (len(o.RibIn) > 0 || o.RibClients >= 2 || o.Attached) && o.State != stateNameEstablished {
		// covered by C07's finer oracle
	}
	// 3. UPDATEs are only processed in Established
	if len(t.Obs) > 1 {
		prev := t.Obs[len(t.Obs)-2]
		if o.UpdatesChangedRibIn > prev.UpdatesChangedRibIn {
			r.Count("updates_processed", 1)
			if prev.State != stateNameEstablished {
				ok = false
				r.Violation(vh.Sig("clause", "update-outside-established", "state", prev.State), c, "an UPDATE received in state %s changed the Adj-RIB-In", prev.State)
			}
		}
	}
	return ok
}

func TestVerifC23(t *testing.T) {
	r := vh.Start(t, "C23")
	defer r.Finish()
	m, err := zvLoadModel(os.Getenv("VERIF_MODEL_DOT"))
	if err != nil {
		r.Fatalf("cannot load the TLC state graph: %v", err)
	}
	depth := 5
	if r.Thorough() {
		depth = 7
	}
	r.Rule(fmt.Sprintf("TLC checks models/BGPFSM.tla (invariants on all %d model states, %d edges) and dumps its labelled graph; the real FSM is explored by BFS over all event histories up to depth %d from two roots per "+
		"session configuration, and every implementation state change (from the FSM's state-change log, with connection/attachment sampled at that moment) is checked to be an edge of the model graph", m.nNodes, m.nEdges, depth))
	r.Require("distinct_impl_transitions", "updates_processed")
	r.Extra("model_states", m.nNodes)
	r.Extra("model_edges", m.nEdges)
	r.Extra("depth", depth)
	cfgs := zvSessCfgs()
	if r.IsReplay() {
		var c zvC23Case
		r.ReplayCase(&c)
		for _, cfg := range cfgs {
			if cfg.Name == c.Cfg {
				for n := 1; n <= len(c.Hist); n++ {
					tr := zvSessReplay(cfg, c.Hist[:n], false)
					zvC23Check(r, m, cfg, c.Hist[:n], tr)
					fmt.Printf("after %v: transitions %+v\n", c.Hist[:n], tr.Trans)
				}
			}
		}
		r.Count("distinct_impl_transitions", 1)
		r.Count("updates_processed", 1)
		return
	}
	roots := [][]string{nil, {evT15, evOpen, evKA, evUpd1}}
	idx := 0
	for _, cfg := range cfgs {
		cfg := cfg
		for _, root := range roots {
			root := root
			rt := zvSessReplay(cfg, root, false)
			// the root history itself is validated step by step
			if s, _ := r.Shard(); s == 0 {
				for n := 1; n <= len(root); n++ {
					zvC23Check(r, m, cfg, root[:n], zvSessReplay(cfg, root[:n], false))
				}
			}
			for _, e1 := range rt.Enabled {
				idx++
				if !r.Mine(idx) {
					continue
				}
				e1 := e1
				b := vh.BFS[string]{R: r, MaxDepth: depth - 1, Label: fmt.Sprintf("%s/root%d/%s", cfg.Name, len(root), e1), Step: func(h []string) (string, []string, bool) {
					hist := append(append(append([]string{}, root...), e1), h...)
					tr := zvSessReplay(cfg, hist, false)
					ok := zvC23Check(r, m, cfg, hist, tr)
					r.Eval(1)
					return tr.Canon, tr.Enabled, ok && tr.Status == vsched.Completed
				}}
				b.Explore()
			}
		}
		r.Nontrivial(1)
	}
}
