// Command check is the driver of the /verif machinery.
//
//	check <ID> [--tier quick|thorough] [--replay file] [--repo dir] [--shards n] [--keep]
//	check --warm            pre-build the harness binaries (fills the Go build cache)
//	check --list            list the configured checks
//
// For one property it: generates the overlay (virtual helper packages, harness
// files injected into the repo package, repo test files masked, optionally
// scheduler-instrumented copies of the listed packages), builds the harness test
// binary from the repo's CURRENT working tree, runs it in N shard processes,
// merges the shard reports, re-executes every reported violation from its
// recorded case, matches signatures against /verif/known_findings.json, writes
// /verif/evidence/<ID>.json and prints VIOLATION / KNOWN-FINDING lines.
//
// Exit status: 0 property held on everything explored (known findings aside),
// 1 violation, 2 harness / build / infrastructure error (never a violation).
package main

import (
	"bytes"
	"encoding/json"
	"errors"
	"fmt"
	"os"
	"os/exec"
	"path/filepath"
	"sort"
	"strconv"
	"strings"
	"sync"
	"syscall"
	"time"

	"verif/internal/instr"
)

type Check struct {
	ID         string            `json:"id"`
	Pkg        string            `json:"pkg"`   // repo-relative package directory the harness is injected into
	Run        string            `json:"run"`   // test function
	Files      []string          `json:"files"` // harness files (relative to /verif/harness/<pkg>/)
	Level      string            `json:"level"`
	Engine     string            `json:"engine"`
	Technique  string            `json:"technique"`
	Shards     int               `json:"shards"`
	Instrument []string          `json:"instrument"` // repo package dirs to rewrite onto the virtual runtime
	InstrOpts  map[string]any    `json:"instr_opts"`
	Race       bool              `json:"race"`
	KeepTests  bool              `json:"keep_repo_tests"` // do not mask the repo's own _test.go files
	BudgetQ    int               `json:"budget_quick_s"`
	BudgetT    int               `json:"budget_thorough_s"`
	Confirm    bool              `json:"confirm_by_replay"`
	Assume     []string          `json:"assumptions"`
	MemMB      int               `json:"mem_mb"`     // ulimit -v per shard (0 = default 8192)
	ExtraDirs  map[string]string `json:"extra_dirs"` // additional harness dir -> repo pkg dir injections
	Env        []string          `json:"env"`
	Model      *struct {
		Spec string `json:"spec"` // TLA+ module (relative to /verif)
		Cfg  string `json:"cfg"`
	} `json:"model"`
}

// runTLC model-checks the TLA+ spec with TLC and dumps its labelled state graph;
// the harness validates every implementation transition against that graph.
func runTLC(c *Check, work string) (string, string, error) {
	dir := filepath.Join(work, "tlc")
	os.MkdirAll(dir, 0o755)
	spec := filepath.Base(c.Model.Spec)
	for _, f := range []string{c.Model.Spec, c.Model.Cfg} {
		b, err := os.ReadFile(filepath.Join(verifRoot, f))
		if err != nil {
			return "", "", err
		}
		os.WriteFile(filepath.Join(dir, filepath.Base(f)), b, 0o644)
	}
	dot := filepath.Join(dir, "graph.dot")
	cmd := exec.Command("tlc", "-workers", "4", "-dump", "dot,actionlabels", dot, "-config", filepath.Base(c.Model.Cfg), spec)
	cmd.Dir = dir
	var out bytes.Buffer
	cmd.Stdout, cmd.Stderr = &out, &out
	err := cmd.Run()
	o := out.String()
	if err != nil || !strings.Contains(o, "Model checking completed. No error has been found.") {
		return "", o, fmt.Errorf("TLC did not verify the model: %v\n%s", err, tail(o, 3000))
	}
	summary := ""
	for _, l := range strings.Split(o, "\n") {
		if strings.Contains(l, "distinct states found") {
			summary = strings.TrimSpace(l)
		}
	}
	return dot, summary, nil
}

type Finding struct {
	Property string            `json:"property"`
	Status   string            `json:"status"` // "finding" | "fixed"
	Match    map[string]string `json:"match"`
	What     string            `json:"what"`
	Commit   string            `json:"commit,omitempty"`
}

type Violation struct {
	Sig    map[string]string `json:"sig"`
	Desc   string            `json:"desc"`
	Replay json.RawMessage   `json:"replay"`
	Count  int               `json:"count"`
}

type Report struct {
	Property    string           `json:"property"`
	Shard       int              `json:"shard"`
	Evaluations int64            `json:"evaluations"`
	Nontrivial  int64            `json:"distinct_nontrivial"`
	States      int64            `json:"states"`
	Transitions int64            `json:"transitions"`
	Traces      int64            `json:"traces_validated_against_impl"`
	Outcomes    int64            `json:"distinct_outcomes"`
	Rule        string           `json:"rule"`
	Samples     []any            `json:"samples"`
	Exhaustive  bool             `json:"exhaustive"`
	Caps        []string         `json:"caps"`
	Counters    map[string]int64 `json:"counters"`
	Required    []string         `json:"required_counters"`
	Violations  []Violation      `json:"violations"`
	NViolations int64            `json:"n_violations"`
	Extra       map[string]any   `json:"extra"`
	HarnessErr  string           `json:"harness_error"`
	WallS       float64          `json:"wall_s"`
}

var (
	verifRoot = "/verif"
	repoRoot  = "/repo"
)

func die(code int, format string, a ...any) {
	fmt.Fprintf(os.Stderr, "check: "+format+"\n", a...)
	os.Exit(code)
}

func goEnv() []string {
	env := os.Environ()
	set := func(k, v string) {
		for i, e := range env {
			if strings.HasPrefix(e, k+"=") {
				env[i] = k + "=" + v
				return
			}
		}
		env = append(env, k+"="+v)
	}
	set("GOFLAGS", "-mod=mod")
	set("GOPROXY", "off")
	set("GOSUMDB", "off")
	set("GOTOOLCHAIN", "local")
	set("GOWORK", "off")
	return env
}

func loadChecks() []Check {
	files, _ := filepath.Glob(filepath.Join(verifRoot, "checks.d", "*.json"))
	sort.Strings(files)
	var cs []Check
	for _, f := range files {
		b, err := os.ReadFile(f)
		if err != nil {
			die(2, "%v", err)
		}
		var c Check
		if err := json.Unmarshal(b, &c); err != nil {
			die(2, "%s: %v", f, err)
		}
		cs = append(cs, c)
	}
	return cs
}

func loadFindings() []Finding {
	files, _ := filepath.Glob(filepath.Join(verifRoot, "known_findings.d", "*.json"))
	sort.Strings(files)
	files = append([]string{filepath.Join(verifRoot, "known_findings.json")}, files...)
	var all []Finding
	for _, f := range files {
		b, err := os.ReadFile(f)
		if err != nil {
			continue
		}
		var w struct {
			Findings []Finding `json:"findings"`
		}
		if err := json.Unmarshal(b, &w); err != nil {
			die(2, "%s: %v", f, err)
		}
		all = append(all, w.Findings...)
	}
	return all
}

// buildOverlay writes overlay.json into work and returns its path.
func buildOverlay(c *Check, work string) (string, error) {
	repl := map[string]string{}
	// 1. virtual helper packages: /verif/engine/<name>/*.go -> <repo>/zzverif/<name>/
	engDirs, _ := os.ReadDir(filepath.Join(verifRoot, "engine"))
	for _, d := range engDirs {
		if !d.IsDir() {
			continue
		}
		files, _ := filepath.Glob(filepath.Join(verifRoot, "engine", d.Name(), "*.go"))
		for _, f := range files {
			repl[filepath.Join(repoRoot, "zzverif", d.Name(), filepath.Base(f))] = f
		}
	}
	// 2. instrumented copies
	if len(c.Instrument) > 0 {
		out := filepath.Join(work, "instr")
		m, err := instr.Rewrite(repoRoot, c.Instrument, out, c.InstrOpts)
		if err != nil {
			return "", fmt.Errorf("instrumenter: %w", err)
		}
		for k, v := range m {
			repl[k] = v
		}
	}
	// 3. harness files, repo tests masked
	inject := map[string]string{filepath.Join(verifRoot, "harness", c.Pkg): c.Pkg}
	for hd, pd := range c.ExtraDirs {
		inject[filepath.Join(verifRoot, "harness", hd)] = pd
	}
	maskDirs := map[string]bool{c.Pkg: true}
	for _, p := range c.Instrument {
		maskDirs[p] = true
	}
	if !c.KeepTests {
		for p := range maskDirs {
			tests, _ := filepath.Glob(filepath.Join(repoRoot, p, "*_test.go"))
			for _, t := range tests {
				repl[t] = ""
			}
		}
	}
	for hdir, pdir := range inject {
		var files []string
		if hdir == filepath.Join(verifRoot, "harness", c.Pkg) && len(c.Files) > 0 {
			for _, f := range c.Files {
				g, _ := filepath.Glob(filepath.Join(hdir, f))
				if len(g) == 0 {
					return "", fmt.Errorf("harness file %s not found in %s", f, hdir)
				}
				files = append(files, g...)
			}
		} else {
			files, _ = filepath.Glob(filepath.Join(hdir, "*.go"))
		}
		for _, f := range files {
			repl[filepath.Join(repoRoot, pdir, filepath.Base(f))] = f
		}
	}
	b, _ := json.MarshalIndent(map[string]any{"Replace": repl}, "", " ")
	p := filepath.Join(work, "overlay.json")
	return p, os.WriteFile(p, b, 0o644)
}

func buildHarness(c *Check, work string) (string, error) {
	ov, err := buildOverlay(c, work)
	if err != nil {
		return "", err
	}
	bin := filepath.Join(work, "harness.test")
	args := []string{"test", "-c", "-overlay", ov, "-vet=off", "-tags", "verif", "-o", bin}
	if c.Race {
		args = append(args, "-race")
	}
	if os.Getenv("VERIF_COVER") != "" {
		// coverage survey (tools/coverage.sh): which statements of the repository the check's enumeration reaches
		args = append(args, "-cover", "-coverpkg=github.com/bio-routing/bio-rd/...")
	}
	args = append(args, "./"+c.Pkg)
	cmd := exec.Command("go", args...)
	cmd.Dir = repoRoot
	cmd.Env = goEnv()
	var out bytes.Buffer
	cmd.Stdout, cmd.Stderr = &out, &out
	if err := cmd.Run(); err != nil {
		return "", fmt.Errorf("build failed: %v\n%s", err, out.String())
	}
	return bin, nil
}

type shardResult struct {
	rep    *Report
	err    error
	output string
}

func runShard(c *Check, bin, work, tier string, shard, n int, replay string, budget int, seed string) shardResult {
	out := filepath.Join(work, fmt.Sprintf("rep-%d-%d.json", shard, time.Now().UnixNano()))
	hard := time.Duration(budget*2+120) * time.Second
	mem := c.MemMB
	if mem == 0 {
		mem = 8192
	}
	if c.Race {
		mem = 0 // the race runtime reserves huge virtual ranges
	}
	sh := fmt.Sprintf("exec %q -test.run '^%s$' -test.timeout %ds -test.count 1", bin, c.Run, int(hard.Seconds())+60)
	if d := os.Getenv("VERIF_COVER"); d != "" && replay == "" {
		sh += fmt.Sprintf(" -test.coverprofile %q", filepath.Join(d, fmt.Sprintf("%s.%d.cov", c.ID, shard)))
	}
	if mem > 0 {
		sh = fmt.Sprintf("ulimit -v %d; ", mem*1024) + sh
	}
	cmd := exec.Command("/bin/sh", "-c", sh)
	cmd.Dir = filepath.Join(repoRoot, c.Pkg)
	env := append(os.Environ(),
		"VERIF_OUT="+out, "VERIF_TIER="+tier, "VERIF_SHARD="+strconv.Itoa(shard), "VERIF_NSHARDS="+strconv.Itoa(n),
		"VERIF_BUDGET_S="+strconv.Itoa(budget), "VERIF_SEED="+seed, "GOMAXPROCS=2", "VERIF_ROOT="+verifRoot, "VERIF_REPO="+repoRoot)
	if len(c.Instrument) > 0 {
		env = append(env, "GOMAXPROCS=1") // cooperative scheduler: hand-offs on one P are cheapest
	}
	if c.Race {
		env = append(env, "GORACE=halt_on_error=0 log_path="+filepath.Join(work, fmt.Sprintf("race-%d", shard)))
	}
	env = append(env, c.Env...)
	if replay != "" {
		env = append(env, "VERIF_REPLAY="+replay)
	}
	cmd.Env = env
	cmd.SysProcAttr = &syscall.SysProcAttr{Setpgid: true}
	var buf bytes.Buffer
	cmd.Stdout, cmd.Stderr = &buf, &buf
	if err := cmd.Start(); err != nil {
		return shardResult{err: err}
	}
	done := make(chan error, 1)
	go func() { done <- cmd.Wait() }()
	var werr error
	select {
	case werr = <-done:
	case <-time.After(hard):
		syscall.Kill(-cmd.Process.Pid, syscall.SIGKILL)
		<-done
		werr = fmt.Errorf("shard %d exceeded the hard watchdog of %v", shard, hard)
	}
	lim := 6000
	if replay != "" {
		lim = 400000
	}
	res := shardResult{output: tail(buf.String(), lim)}
	b, rerr := os.ReadFile(out)
	if rerr != nil {
		res.err = fmt.Errorf("shard %d wrote no report (%v); process: %v", shard, rerr, werr)
		return res
	}
	var rep Report
	if err := json.Unmarshal(b, &rep); err != nil {
		res.err = fmt.Errorf("shard %d: bad report: %v", shard, err)
		return res
	}
	os.Remove(out)
	res.rep = &rep
	if rep.HarnessErr != "" {
		res.err = fmt.Errorf("shard %d: harness error: %s", shard, rep.HarnessErr)
	} else if werr != nil && !c.Race {
		// (in race builds the testing package fails the test whenever the detector reported something: the harness
		// has turned those reports into violations already)
		res.err = fmt.Errorf("shard %d: process failed after writing its report: %v", shard, werr)
	}
	return res
}

func tail(s string, n int) string {
	if len(s) > n {
		return "…" + s[len(s)-n:]
	}
	return s
}

func matches(f Finding, id string, sig map[string]string) bool {
	if f.Property != id || len(f.Match) == 0 {
		return false
	}
	for k, v := range f.Match {
		if sig[k] != v {
			return false
		}
	}
	return true
}

func sigString(sig map[string]string) string {
	ks := make([]string, 0, len(sig))
	for k := range sig {
		ks = append(ks, k)
	}
	sort.Strings(ks)
	var parts []string
	for _, k := range ks {
		parts = append(parts, k+"="+sig[k])
	}
	return strings.Join(parts, " ")
}

func main() {
	args := os.Args[1:]
	tier := os.Getenv("VERIF_TIER")
	replay := ""
	keep := false
	shardsOverride := 0
	var ids []string
	warm, list := false, false
	for i := 0; i < len(args); i++ {
		a := args[i]
		next := func() string {
			i++
			if i >= len(args) {
				die(2, "missing value for %s", a)
			}
			return args[i]
		}
		switch a {
		case "--tier":
			tier = next()
		case "--replay":
			replay = next()
			if abs, err := filepath.Abs(replay); err == nil {
				replay = abs
			}
		case "--repo":
			repoRoot = next()
		case "--verif":
			verifRoot = next()
		case "--shards":
			shardsOverride, _ = strconv.Atoi(next())
		case "--keep":
			keep = true
		case "--warm":
			warm = true
		case "--list":
			list = true
		case "quick", "thorough":
			tier = a
		default:
			ids = append(ids, a)
		}
	}
	if v := os.Getenv("VERIF_REPO_ROOT"); v != "" {
		repoRoot = v
	}
	if tier == "" {
		tier = "quick"
	}
	if tier != "quick" && tier != "thorough" {
		die(2, "bad tier %q", tier)
	}
	checks := loadChecks()
	if list {
		for _, c := range checks {
			fmt.Printf("%s\t%s\t%s\t%s\n", c.ID, c.Pkg, c.Run, c.Level)
		}
		return
	}
	if warm {
		// only the integrated checks (enabled.txt); a failing warm-up build never fails setup
		en := map[string]bool{}
		if b, err := os.ReadFile(filepath.Join(verifRoot, "enabled.txt")); err == nil {
			for _, id := range strings.Fields(string(b)) {
				en[id] = true
			}
		}
		var sel []Check
		for _, c := range checks {
			if len(en) == 0 || en[c.ID] {
				sel = append(sel, c)
			}
		}
		doWarm(sel)
		os.Exit(0)
	}
	if len(ids) != 1 {
		die(2, "usage: check <ID> [--tier quick|thorough] [--replay file] [--repo dir]")
	}
	var c *Check
	for i := range checks {
		if checks[i].ID == ids[0] {
			c = &checks[i]
		}
	}
	if c == nil {
		die(2, "unknown check %s", ids[0])
	}
	os.Exit(runCheck(c, tier, replay, keep, shardsOverride))
}

func workDir(id string) string {
	base := os.Getenv("VERIF_WORK")
	if base == "" {
		base = "/var/tmp"
	}
	d := filepath.Join(base, fmt.Sprintf("verif-%s-%d", id, os.Getpid()))
	os.MkdirAll(d, 0o755)
	return d
}

func doWarm(checks []Check) int {
	// Build each distinct (pkg, instrument, race) harness once so that the Go
	// build cache is hot. Failures are reported but do not fail setup.
	seen := map[string]bool{}
	var mu sync.Mutex
	rc := 0
	sem := make(chan struct{}, 4)
	var wg sync.WaitGroup
	for i := range checks {
		c := &checks[i]
		key := fmt.Sprintf("%s|%v|%v", c.Pkg, c.Instrument, c.Race)
		if seen[key] {
			continue
		}
		seen[key] = true
		wg.Add(1)
		go func() {
			defer wg.Done()
			sem <- struct{}{}
			defer func() { <-sem }()
			w := workDir("warm-" + c.ID)
			defer os.RemoveAll(w)
			t0 := time.Now()
			_, err := buildHarness(c, w)
			mu.Lock()
			if err != nil {
				fmt.Printf("warm %s: FAILED: %v\n", c.ID, err)
				rc = 1
			} else {
				fmt.Printf("warm %s (%s): ok %.1fs\n", c.ID, c.Pkg, time.Since(t0).Seconds())
			}
			mu.Unlock()
		}()
	}
	wg.Wait()
	return rc
}

func runCheck(c *Check, tier, replay string, keep bool, shardsOverride int) int {
	t0 := time.Now()
	seed := os.Getenv("VERIF_SEED")
	if _, err := strconv.Atoi(seed); err != nil {
		seed = "0"
	}
	seedN, _ := strconv.Atoi(seed)
	work := workDir(c.ID)
	if !keep {
		defer os.RemoveAll(work)
	}
	evidencePath := filepath.Join(verifRoot, "evidence", c.ID+".json")
	if replay == "" && (repoRoot == "/repo" || os.Getenv("VERIF_WRITE_EVIDENCE") != "") {
		os.Remove(evidencePath)
	}
	bin, err := buildHarness(c, work)
	if err != nil {
		fmt.Fprintf(os.Stderr, "HARNESS-ERROR property=%s: %v\n", c.ID, err)
		return 2
	}
	buildS := time.Since(t0).Seconds()
	tlcSummary := ""
	if c.Model != nil {
		dot, sum, err := runTLC(c, work)
		if err != nil {
			fmt.Fprintf(os.Stderr, "HARNESS-ERROR property=%s: %v\n", c.ID, err)
			return 2
		}
		tlcSummary = sum
		c.Env = append(c.Env, "VERIF_MODEL_DOT="+dot)
	}
	budget := c.BudgetQ
	if budget == 0 {
		budget = 240
	}
	if tier == "thorough" {
		budget = c.BudgetT
		if budget == 0 {
			budget = 1800
		}
	}
	if v := os.Getenv("VERIF_BUDGET_S"); v != "" {
		if n, err := strconv.Atoi(v); err == nil && n > 0 {
			budget = n
		}
	}

	if replay != "" {
		res := runShard(c, bin, work, tier, 0, 1, replay, budget, seed)
		fmt.Print(res.output)
		if res.err != nil {
			fmt.Fprintf(os.Stderr, "HARNESS-ERROR property=%s: %v\n", c.ID, res.err)
			return 2
		}
		for _, v := range res.rep.Violations {
			fmt.Printf("REPLAY-VIOLATION property=%s %s\n  %s\n", c.ID, sigString(v.Sig), v.Desc)
		}
		if len(res.rep.Violations) > 0 {
			return 1
		}
		fmt.Printf("REPLAY-OK property=%s (the recorded case does not violate the property on this tree)\n", c.ID)
		return 0
	}

	n := c.Shards
	if n == 0 {
		n = 1
	}
	if shardsOverride > 0 {
		n = shardsOverride
	}
	results := make([]shardResult, n)
	var wg sync.WaitGroup
	for i := 0; i < n; i++ {
		wg.Add(1)
		go func(i int) {
			defer wg.Done()
			results[i] = runShard(c, bin, work, tier, i, n, "", budget, seed)
		}(i)
	}
	wg.Wait()
	if os.Getenv("VERIF_VERBOSE") != "" {
		for i, r := range results {
			fmt.Printf("--- shard %d output ---\n%s\n", i, r.output)
		}
	}

	merged := Report{Exhaustive: true, Counters: map[string]int64{}, Extra: map[string]any{}}
	var errs []string
	var viol []Violation
	for _, r := range results {
		if r.err != nil {
			errs = append(errs, r.err.Error()+"\n"+r.output)
		}
		if r.rep == nil {
			continue
		}
		p := r.rep
		merged.Evaluations += p.Evaluations
		merged.Nontrivial += p.Nontrivial
		merged.States += p.States
		merged.Transitions += p.Transitions
		merged.Traces += p.Traces
		merged.Outcomes += p.Outcomes
		merged.NViolations += p.NViolations
		if p.Rule != "" {
			merged.Rule = p.Rule
		}
		if len(merged.Samples) < 4 {
			merged.Samples = append(merged.Samples, p.Samples...)
		}
		merged.Exhaustive = merged.Exhaustive && p.Exhaustive
		for _, cp := range p.Caps {
			found := false
			for _, x := range merged.Caps {
				found = found || x == cp
			}
			if !found {
				merged.Caps = append(merged.Caps, cp)
			}
		}
		for k, v := range p.Counters {
			merged.Counters[k] += v
		}
		for _, rq := range p.Required {
			found := false
			for _, x := range merged.Required {
				found = found || x == rq
			}
			if !found {
				merged.Required = append(merged.Required, rq)
			}
		}
		for k, v := range p.Extra {
			if old, ok := merged.Extra[k]; ok {
				of, ok1 := old.(float64)
				nf, ok2 := v.(float64)
				if ok1 && ok2 {
					if nf > of {
						merged.Extra[k] = nf
					}
					continue
				}
			}
			merged.Extra[k] = v
		}
		viol = append(viol, p.Violations...)
	}
	if len(errs) > 0 {
		fmt.Fprintf(os.Stderr, "HARNESS-ERROR property=%s:\n%s\n", c.ID, strings.Join(errs, "\n"))
		return 2
	}
	fmt.Printf("merged: evaluations=%d states=%d transitions=%d outcomes=%d violations=%d counters=%v caps=%v\n", merged.Evaluations, merged.States, merged.Transitions, merged.Outcomes, merged.NViolations, merged.Counters, merged.Caps)
	for _, rq := range merged.Required {
		if merged.Counters[rq] == 0 {
			if len(viol) > 0 {
				// a run that was cut short by what it found: the violations speak for themselves (each is confirmed by replay below)
				fmt.Printf("note: coverage counter %q is zero in a run that found violations\n", rq)
				continue
			}
			fmt.Fprintf(os.Stderr, "HARNESS-ERROR property=%s: vacuous run, coverage counter %q is zero\n", c.ID, rq)
			return 2
		}
	}

	// de-duplicate violations by signature across shards (keep the smallest replay)
	bySig := map[string]*Violation{}
	var order []string
	for i := range viol {
		k := sigString(viol[i].Sig)
		if old, ok := bySig[k]; ok {
			old.Count += viol[i].Count
			if len(viol[i].Replay) < len(old.Replay) {
				old.Replay, old.Desc = viol[i].Replay, viol[i].Desc
			}
			continue
		}
		v := viol[i]
		bySig[k] = &v
		order = append(order, k)
	}
	sort.Strings(order)

	findings := loadFindings()
	type knownHit struct {
		f Finding
		n int
	}
	known := map[int]*knownHit{}
	var fresh []*Violation
	for _, k := range order {
		v := bySig[k]
		hit := -1
		for i, f := range findings {
			if f.Status == "finding" && matches(f, c.ID, v.Sig) {
				hit = i
				break
			}
		}
		if hit >= 0 {
			if known[hit] == nil {
				known[hit] = &knownHit{f: findings[hit]}
			}
			known[hit].n += v.Count
		} else {
			fresh = append(fresh, v)
		}
	}

	// confirm fresh violations by replaying the recorded case (same binary)
	rc := 0
	replDir := filepath.Join(verifRoot, "replays", c.ID)
	if repoRoot != "/repo" {
		// runs against scratch worktrees (seeded changes, mutants) may overlap in time: keep their artefacts apart
		replDir = filepath.Join(replDir, fmt.Sprintf("wt-%d", os.Getpid()))
	}
	var confirmed []*Violation
	if len(fresh) > 0 {
		os.MkdirAll(replDir, 0o755)
	}
	maxReport := 12
	for i, v := range fresh {
		if i >= maxReport {
			break
		}
		path := filepath.Join(replDir, fmt.Sprintf("%s-%d.json", tier, i))
		b, _ := json.MarshalIndent(map[string]any{"property": c.ID, "sig": v.Sig, "desc": v.Desc, "replay": v.Replay, "count": v.Count}, "", " ")
		os.WriteFile(path, b, 0o644)
		if c.Confirm {
			okAll := true
			for k := 0; k < 3; k++ {
				res := runShard(c, bin, work, tier, 0, 1, path, budget, seed)
				same := false
				if res.rep != nil {
					for _, rv := range res.rep.Violations {
						if sigString(rv.Sig) == sigString(v.Sig) {
							same = true
						}
					}
				}
				if !same {
					okAll = false
					fmt.Fprintf(os.Stderr, "HARNESS-ERROR property=%s: violation %s did not reproduce from %s (%v)\n%s\n", c.ID, sigString(v.Sig), path, res.err, res.output)
					break
				}
			}
			if !okAll {
				return 2
			}
		}
		confirmed = append(confirmed, v)
		fmt.Printf("VIOLATION property=%s replay=%s\n  signature: %s (x%d)\n  %s\n", c.ID, path, sigString(v.Sig), v.Count, v.Desc)
		rc = 1
	}
	if len(fresh) > maxReport {
		fmt.Printf("  … and %d more distinct violation signatures:\n", len(fresh)-maxReport)
		for _, v := range fresh[maxReport:] {
			fmt.Printf("    %s (x%d): %.200s\n", sigString(v.Sig), v.Count, v.Desc)
		}
	}
	var knownIdx []int
	for i := range known {
		knownIdx = append(knownIdx, i)
	}
	sort.Ints(knownIdx)
	var knownList []string
	for _, i := range knownIdx {
		h := known[i]
		fmt.Printf("KNOWN-FINDING: property=%s %s (observed %d times; match %s)\n", c.ID, h.f.What, h.n, sigString(h.f.Match))
		knownList = append(knownList, h.f.What)
	}

	// evidence
	cov := map[string]any{
		"evaluations":         merged.Evaluations,
		"distinct_nontrivial": merged.Nontrivial,
		"rule":                merged.Rule,
		"samples":             merged.Samples,
		"exhaustive":          merged.Exhaustive,
		"caps_hit":            merged.Caps,
		"distinct_outcomes":   merged.Outcomes,
		"counters":            merged.Counters,
		"shards":              n,
		"build_s":             buildS,
		"known_findings_seen": knownList,
		"violation_cases":     merged.NViolations,
	}
	if c.Level == "model_checking" {
		cov["states"] = merged.States
		cov["transitions"] = merged.Transitions
		cov["traces_validated_against_impl"] = merged.Traces
	}
	if tlcSummary != "" {
		cov["tlc"] = tlcSummary
	}
	for k, v := range merged.Extra {
		if _, clash := cov[k]; !clash {
			cov[k] = v
		}
	}
	if merged.Samples == nil {
		cov["samples"] = []any{}
	}
	ev := map[string]any{
		"property_id": c.ID,
		"tier":        tier,
		"seed":        seedN,
		"level":       c.Level,
		"coverage":    cov,
		"assumptions": c.Assume,
		"wall_s":      time.Since(t0).Seconds(),
		"violations":  len(confirmed),
		"technique":   c.Technique,
		"repo_root":   repoRoot,
	}
	os.MkdirAll(filepath.Dir(evidencePath), 0o755)
	b, _ := json.MarshalIndent(ev, "", " ")
	if repoRoot == "/repo" || os.Getenv("VERIF_WRITE_EVIDENCE") != "" {
		if err := os.WriteFile(evidencePath, b, 0o644); err != nil {
			fmt.Fprintf(os.Stderr, "HARNESS-ERROR cannot write evidence: %v\n", err)
			return 2
		}
	}
	ex := "exhaustive"
	if !merged.Exhaustive {
		ex = "CAPPED(" + strings.Join(merged.Caps, "; ") + ")"
	}
	fmt.Printf("check %s tier=%s: evaluations=%d nontrivial=%d states=%d transitions=%d outcomes=%d %s violations=%d known=%d wall=%.1fs (build %.1fs)\n",
		c.ID, tier, merged.Evaluations, merged.Nontrivial, merged.States, merged.Transitions, merged.Outcomes, ex, len(confirmed), len(knownList), time.Since(t0).Seconds(), buildS)
	return rc
}

var _ = errors.New
