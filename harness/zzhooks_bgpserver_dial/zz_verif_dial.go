package server

// Injected by the C36 check (extra_dirs) into protocols/bgp/server as a NON-test
// file, because the C36 harness lives in package main of cmd/bio-rd and the
// instrumented fsm.go calls zvDial instead of tcp.Dial.
//
// It provides
//   - zvDial: the dial seam; the harness installs ZvDialHook (default: refused),
//   - ZvSnapshot: a pointer-free dump of the effective settings of every peer of
//     a BGP server (the only place where C36 reads private state).

import (
	"encoding/hex"
	"errors"
	"fmt"
	"net"
	"sort"
	"time"

	"github.com/bio-routing/bio-rd/protocols/bgp/packet"
	"github.com/bio-routing/bio-rd/routingtable"
	"github.com/bio-routing/bio-rd/routingtable/filter"
)

// ZvDialHook is called for every outgoing connection attempt of an FSM.
var ZvDialHook func(laddr, raddr *net.TCPAddr, ttl uint8, md5 string, noRoute bool, bindDev string) (net.Conn, error)

func zvDial(laddr, raddr *net.TCPAddr, ttl uint8, md5 string, noRoute bool, bindDev string) (net.Conn, error) {
	if ZvDialHook != nil {
		return ZvDialHook(laddr, raddr, ttl, md5, noRoute, bindDev)
	}
	return nil, errors.New("connection refused")
}

// ZvFamily is the effective per-address-family state of a peer or of one FSM.
type ZvFamily struct {
	RIB         string
	Import      filter.Chain
	Export      filter.Chain
	AddPathRecv bool
	AddPathSend routingtable.ClientOptions
}

// ZvFSM is one FSM of a peer.
type ZvFSM struct {
	State string
	IPv4  *ZvFamily
	IPv6  *ZvFamily
}

// ZvStored is the PeerConfig the server hands out through GetPeerConfig.
type ZvStored struct {
	Scalars map[string]string
	IPv4    *ZvFamily
	IPv6    *ZvFamily
}

// ZvPeer is the effective state of one peer.
type ZvPeer struct {
	VRF     string
	Addr    string
	Scalars map[string]string // setting name -> rendered effective value
	Caps    string            // optOpenParams, rendered
	Open    string            // the OPEN message a session of this peer would send (hex)
	IPv4    *ZvFamily
	IPv6    *ZvFamily
	FSMs    []ZvFSM
	Stored  ZvStored
}

func zvPeerFamily(f *peerAddressFamily) *ZvFamily {
	if f == nil {
		return nil
	}
	name := "nil"
	if f.rib != nil {
		name = f.rib.Name()
	}
	return &ZvFamily{RIB: name, Import: f.importFilterChain, Export: f.exportFilterChain, AddPathRecv: f.addPathReceive, AddPathSend: f.addPathSend}
}

func zvFSMFamily(f *fsmAddressFamily) *ZvFamily {
	if f == nil {
		return nil
	}
	name := "nil"
	if f.rib != nil {
		name = f.rib.Name()
	}
	return &ZvFamily{RIB: name, Import: f.importFilterChain, Export: f.exportFilterChain}
}

func zvCfgFamily(f *AddressFamilyConfig) *ZvFamily {
	if f == nil {
		return nil
	}
	return &ZvFamily{Import: f.ImportFilterChain, Export: f.ExportFilterChain, AddPathRecv: f.AddPathRecv, AddPathSend: f.AddPathSend}
}

func zvIP(ip interface{ String() string }, isNil bool) string {
	if isNil {
		return "nil"
	}
	return ip.String()
}

// ZvSnapshot dumps all peers of s, sorted by (VRF name, address).
func ZvSnapshot(s BGPServer) []ZvPeer {
	b, ok := s.(*bgpServer)
	if !ok {
		return nil
	}
	var out []ZvPeer
	for _, p := range b.peers.list() {
		zp := ZvPeer{VRF: p.vrf.Name(), Addr: p.addr.String(), Scalars: map[string]string{}}
		sc := zp.Scalars
		sc["peer-as"] = fmt.Sprint(p.peerASN)
		sc["local-as"] = fmt.Sprint(p.localASN)
		sc["ttl"] = fmt.Sprint(p.ttl)
		sc["passive"] = fmt.Sprint(p.passive)
		sc["hold-time"] = p.holdTime.String()
		sc["keepalive"] = p.keepaliveTime.String()
		sc["reconnect-interval"] = p.reconnectInterval.String()
		sc["router-id"] = fmt.Sprint(p.routerID)
		sc["cluster-id"] = fmt.Sprint(p.clusterID)
		sc["route-reflector-client"] = fmt.Sprint(p.routeReflectorClient)
		sc["route-server-client"] = fmt.Sprint(p.routeServerClient)
		sc["multiprotocol-ipv4"] = fmt.Sprint(p.ipv4MultiProtocolAdvertised)
		sc["next-hop-extended"] = fmt.Sprint(p.nextHopExtendedAdvertised)
		sc["peer-role"] = fmt.Sprintf("%v/%v/%d", p.peerRoleEnabled, p.peerRoleStrictMode, p.peerRoleLocal)
		sc["local-address"] = zvIP(p.localAddr, p.localAddr == nil)
		sc["authentication-key"] = p.config.AuthenticationKey // what the dialler uses
		sc["family-ipv4"] = fmt.Sprint(p.ipv4 != nil)
		sc["family-ipv6"] = fmt.Sprint(p.ipv6 != nil)
		zp.Caps = fmt.Sprintf("%+v", p.optOpenParams)
		open := &packet.BGPOpen{Version: BGPVersion, ASN: (&FSM{peer: p}).local16BitASN(), HoldTime: uint16(p.holdTime / time.Second), BGPIdentifier: p.routerID, OptParams: p.optOpenParams}
		zp.Open = hex.EncodeToString(packet.SerializeOpenMsg(open))
		zp.IPv4, zp.IPv6 = zvPeerFamily(p.ipv4), zvPeerFamily(p.ipv6)
		// read without fsmsMu: the harness calls this at quiescent points of a cooperative scheduler
		for _, f := range p.fsms {
			zp.FSMs = append(zp.FSMs, ZvFSM{State: stateName(f.state), IPv4: zvFSMFamily(f.ipv4Unicast), IPv6: zvFSMFamily(f.ipv6Unicast)})
		}
		if c := b.GetPeerConfig(p.vrf, p.addr); c != nil {
			st := map[string]string{}
			st["peer-as"] = fmt.Sprint(c.PeerAS)
			st["local-as"] = fmt.Sprint(c.LocalAS)
			st["ttl"] = fmt.Sprint(c.TTL)
			st["passive"] = fmt.Sprint(c.Passive)
			st["hold-time"] = c.HoldTime.String()
			st["keepalive"] = c.KeepAlive.String()
			st["reconnect-interval"] = c.ReconnectInterval.String()
			st["router-id"] = fmt.Sprint(c.RouterID)
			st["cluster-id"] = fmt.Sprint(c.RouteReflectorClusterID)
			st["route-reflector-client"] = fmt.Sprint(c.RouteReflectorClient)
			st["route-server-client"] = fmt.Sprint(c.RouteServerClient)
			st["multiprotocol-ipv4"] = fmt.Sprint(c.AdvertiseIPv4MultiProtocol)
			st["peer-role"] = fmt.Sprintf("%d/%v", c.PeerRole, c.PeerRoleStrictMode)
			st["local-address"] = zvIP(c.LocalAddress, c.LocalAddress == nil)
			st["authentication-key"] = c.AuthenticationKey
			st["admin-enabled"] = fmt.Sprint(c.AdminEnabled)
			st["vrf"] = c.VRF.Name()
			st["family-ipv4"] = fmt.Sprint(c.IPv4 != nil)
			st["family-ipv6"] = fmt.Sprint(c.IPv6 != nil)
			if c.IPv4 != nil {
				st["next-hop-extended"] = fmt.Sprint(c.IPv4.NextHopExtended)
			}
			zp.Stored = ZvStored{Scalars: st, IPv4: zvCfgFamily(c.IPv4), IPv6: zvCfgFamily(c.IPv6)}
		}
		out = append(out, zp)
	}
	sort.Slice(out, func(i, j int) bool {
		if out[i].VRF != out[j].VRF {
			return out[i].VRF < out[j].VRF
		}
		return out[i].Addr < out[j].Addr
	})
	return out
}
