package server

// C32 — the IS-IS LSDB follows the ISO 10589 update process.
//
// Explicit-state BFS (engine E4) over event histories. Every history is
// replayed on a fresh real Server (three active point-to-point circuits: eth0
// and eth1 each with an Up neighbour, eth2 without neighbour; one passive
// circuit) inside one controlled execution (bound 0). The virtual clock never
// moves during a history: the periodic routines of the LSDB (aging, LSP/PSNP/
// CSNP transmission) are played by the harness calling the very functions the
// ticker routines call, one call per event, so that the alphabet is clean;
// the own-LSP updater goroutine, the receivers and everything else are the real
// goroutines, run to quiescence after each event.
//
// Alphabet (51 events):
//   lsp:<circuit>:<A|own>:<seq>:<lifetime>   A: seq 1..3; own: seq relative to the
//                                           sequence number after set-up {-1,+0,+2} (own sub-alphabet also +5); lifetime {2,1200}
//   csnp:<circuit>:<A entry>:<B entry>       entries subset of {A:1,A:2,A:3} (at most one) x {B:1}, full range
//   psnp:<circuit>:<seq>                     one entry A:seq
//   tick | own-update | send-lsp | send-psnp | send-csnp
//
// Reference: ISO 10589 7.3.15-7.3.17 restricted to the statement, written
// below as plain maps (zvC32Ref). Where the statement leaves a case open the
// reference accepts what the implementation did and continues from there
// ("adopt"); those cases are listed in `assumptions`.

import (
	"fmt"
	"sort"
	"strconv"
	"strings"
	"testing"
	"time"

	"github.com/bio-routing/bio-rd/protocols/isis/packet"
	"github.com/bio-routing/bio-rd/protocols/isis/types"
	"github.com/bio-routing/bio-rd/zzverif/vh"
	"github.com/bio-routing/bio-rd/zzverif/vsched"
)

var (
	zvC32SysA     = types.SystemID{0xaa, 0xaa, 0xaa, 0xaa, 0xaa, 0xaa}
	zvC32SysB     = types.SystemID{0xbb, 0xbb, 0xbb, 0xbb, 0xbb, 0xbb}
	zvC32Circuits = []string{"eth0", "eth1"} // circuits with a neighbour
)

func zvC32LSPID(name string) packet.LSPID {
	switch name {
	case "A":
		return packet.LSPID{SystemID: zvC32SysA}
	case "B":
		return packet.LSPID{SystemID: zvC32SysB}
	}
	return packet.LSPID{SystemID: zvIsisLocalSys}
}

func zvC32Name(id packet.LSPID) string {
	switch id {
	case zvC32LSPID("A"):
		return "A"
	case zvC32LSPID("B"):
		return "B"
	case zvC32LSPID("own"):
		return "own"
	}
	return "other:" + id.String()
}

func zvC32Alphabet(universe string) []string {
	var a []string
	for _, c := range zvC32Circuits {
		if universe != "own" {
			for seq := 1; seq <= 3; seq++ {
				lifes := []int{2, 1200}
				if universe == "A" && seq >= 2 {
					lifes = append(lifes, 0) // a copy whose lifetime has run out already (a purge): stored like any newer copy, gone after the next ticks
				}
				for _, life := range lifes {
					a = append(a, fmt.Sprintf("lsp:%s:A:%d:%d", c, seq, life))
				}
			}
		}
		if universe != "A" {
			rels := []string{"-1", "+0", "+2"}
			if universe == "own" {
				rels = append(rels, "+5") // two different newer copies: they can arrive in descending order before the re-origination
			}
			for _, rel := range rels {
				for _, life := range []int{2, 1200} {
					a = append(a, fmt.Sprintf("lsp:%s:own:%s:%d", c, rel, life))
				}
			}
		}
		for _, ae := range []string{"-", "1", "2", "3"} {
			for _, be := range []string{"-", "1"} {
				if universe == "own" && (ae != "-" || be != "-") {
					continue
				}
				a = append(a, fmt.Sprintf("csnp:%s:%s:%s", c, ae, be))
			}
		}
		if universe != "own" {
			for seq := 1; seq <= 3; seq++ {
				a = append(a, fmt.Sprintf("psnp:%s:%d", c, seq))
			}
		}
	}
	return append(a, "tick", "own-update", "send-lsp", "send-psnp", "send-csnp")
}

// ---------------------------------------------------------------------------
// observation of the real LSDB

type zvC32Entry struct {
	Seq  uint32
	Life int
	SRM  map[string]bool
	SSN  map[string]bool
	Ours bool // originated by this server (carries our hostname TLV)
}

func (w *zvIsisWorld) lsdbObs() map[string]*zvC32Entry {
	m := map[string]*zvC32Entry{}
	for _, e := range w.srv.GetLSDB() {
		l := e.GetLSPDU()
		x := &zvC32Entry{Seq: l.SequenceNumber, Life: int(l.RemainingLifetime), SRM: map[string]bool{}, SSN: map[string]bool{}}
		for _, n := range e.srmFlags {
			x.SRM[n] = true
		}
		for _, n := range e.ssnFlags {
			x.SSN[n] = true
		}
		for _, t := range l.TLVs {
			if t.Type() == packet.DynamicHostNameTLVType {
				x.Ours = true
			}
		}
		m[zvC32Name(l.LSPID)] = x
	}
	return m
}

func zvSet(m map[string]bool) string {
	var l []string
	for _, c := range zvC32Circuits {
		if m[c] {
			l = append(l, c)
		}
	}
	return "{" + strings.Join(l, ",") + "}"
}

// ---------------------------------------------------------------------------
// reference model

type zvC32RefEntry struct {
	seq  uint32 // 0 = placeholder created from a CSNP entry
	life int    // remaining lifetime according to the reference (received lifetime minus ticks)
	srm  map[string]bool
	ssn  map[string]bool
}

type zvC32Ref struct {
	db          map[string]*zvC32RefEntry // "A", "B", "own"; absent = not stored
	ownOpen     bool                      // a newer foreign copy of the own LSP was received and the own LSP has not been re-originated yet: its database entry is not judged
	ownReceived uint32                    // highest sequence number of a received copy of the own LSP that has not been overtaken yet
	lastOrig    uint32                    // sequence number of the own LSP as last originated
}

func zvOthers(c string) []string {
	var o []string
	for _, x := range zvC32Circuits {
		if x != c {
			o = append(o, x)
		}
	}
	return o
}

// zvC32Step advances the reference by one event and returns the case label
// (used in signatures) and whether the event originates/sends something the
// oracle has to look at. own0 is the own sequence number after set-up.
func (r *zvC32Ref) step(ev string, own0 uint32) (label string) {
	p := strings.Split(ev, ":")
	switch p[0] {
	case "lsp":
		c, name := p[1], p[2]
		var seq uint32
		if name == "own" {
			k, _ := strconv.Atoi(p[3])
			seq = uint32(int(own0) + k)
		} else {
			k, _ := strconv.Atoi(p[3])
			seq = uint32(k)
		}
		life, _ := strconv.Atoi(p[4])
		e := r.db[name]
		if name == "own" {
			if seq > r.ownReceived {
				r.ownReceived = seq
			}
			if r.ownOpen {
				return "lsp-own-while-open"
			}
			if e == nil || seq > e.seq {
				// ISO 7.3.16.1: not stored, the own LSP is re-originated with a higher number; the code
				// under test may store it: not judged until the next origination
				r.ownOpen = true
				return "lsp-own-newer"
			}
		}
		switch {
		case e == nil || seq > e.seq:
			n := &zvC32RefEntry{seq: seq, life: life, srm: map[string]bool{}, ssn: map[string]bool{c: true}}
			for _, o := range zvOthers(c) {
				n.srm[o] = true
			}
			r.db[name] = n
			return "lsp-newer"
		case seq == e.seq:
			delete(e.srm, c)
			e.ssn[c] = true
			return "lsp-same"
		default:
			e.srm[c] = true
			delete(e.ssn, c)
			return "lsp-older"
		}
	case "csnp":
		c := p[1]
		listed := map[string]bool{}
		label = "csnp"
		for _, en := range []struct{ name, seq string }{{"A", p[2]}, {"B", p[3]}} {
			if en.seq == "-" {
				continue
			}
			k, _ := strconv.Atoi(en.seq)
			seq := uint32(k)
			listed[en.name] = true
			e := r.db[en.name]
			switch {
			case e == nil:
				r.db[en.name] = &zvC32RefEntry{seq: 0, life: 1200, srm: map[string]bool{}, ssn: map[string]bool{c: true}}
			case e.seq == seq:
				delete(e.srm, c)
			case e.seq > seq:
				e.srm[c] = true
				delete(e.ssn, c)
			default:
				e.ssn[c] = true
				delete(e.srm, c)
			}
		}
		for name, e := range r.db {
			if listed[name] || e.seq == 0 || e.life <= 0 || (name == "own" && r.ownOpen) {
				continue // (ISO 10589 7.3.15.2 b: an LSP with zero sequence number or zero remaining lifetime is not flooded back)
			}
			e.srm[c] = true
		}
		return label
	case "psnp":
		c := p[1]
		k, _ := strconv.Atoi(p[2])
		seq := uint32(k)
		e := r.db["A"]
		switch {
		case e == nil:
			return "psnp-unknown"
		case e.seq == seq:
			delete(e.srm, c)
			return "psnp-equal"
		case e.seq > seq:
			return "psnp-older"
		default:
			return "psnp-newer"
		}
	case "tick":
		for _, e := range r.db {
			e.life--
		}
		return "tick"
	case "own-update":
		return "own-update"
	case "send-psnp":
		for _, e := range r.db {
			e.ssn = map[string]bool{}
		}
		return "send-psnp"
	}
	return p[0]
}

// ---------------------------------------------------------------------------

type zvC32Case struct {
	Universe string   `json:"universe"`
	Hist     []string `json:"history"`
}

type zvC32Viol struct {
	sig  map[string]string
	desc string
}

type zvC32Result struct {
	Canon                       string
	Labels                      []string // case label of every event
	Viols                       []zvC32Viol
	Status                      vsched.Status
	Diag                        string
	Own0                        uint32
	SentLSP, SentPSNP, SentCSNP int
	OrigAfterReceived           bool // an origination happened while a received own copy was outstanding
	AgedOut                     bool // the last event (a tick) removed LSP A
}

var zvC32LSPTLVs = []packet.TLV{packet.NewAreaAddressesTLV([]types.AreaID{zvIsisArea})}

func zvC32LSPFrame(id packet.LSPID, seq uint32, life int) []byte {
	l := &packet.LSPDU{RemainingLifetime: uint16(life), LSPID: id, SequenceNumber: seq, TLVs: zvC32LSPTLVs}
	l.UpdateLength()
	l.SetChecksum()
	return zvFrameBytes(packet.L2_LS_PDU_TYPE, l)
}

func zvC32SNPEntries(list ...[2]any) []*packet.LSPEntry {
	var es []*packet.LSPEntry
	for _, x := range list {
		es = append(es, &packet.LSPEntry{RemainingLifetime: 1200, LSPID: zvC32LSPID(x[0].(string)), SequenceNumber: x[1].(uint32), LSPChecksum: 0x1234})
	}
	return es
}

func zvC32CSNPFrame(n zvNbr, es []*packet.LSPEntry) []byte {
	c := &packet.CSNP{SourceID: types.SourceID{SystemID: n.Sys}, EndLSPID: packet.LSPID{SystemID: types.SystemID{0xff, 0xff, 0xff, 0xff, 0xff, 0xff}, PseudonodeID: 0xff, LSPNumber: 0xff}}
	c.PDULength = packet.CSNPMinLen
	if len(es) > 0 {
		c.TLVs = []packet.TLV{packet.NewLSPEntriesTLV(es)}
		c.PDULength += 2 + uint16(len(es))*packet.LSPEntryLen
	}
	return zvFrameBytes(packet.L2_CSNP_TYPE, c)
}

func zvC32PSNPFrame(n zvNbr, es []*packet.LSPEntry) []byte {
	p := &packet.PSNP{SourceID: types.SourceID{SystemID: n.Sys}, TLVs: []packet.TLV{packet.NewLSPEntriesTLV(es)}}
	p.PDULength = packet.PSNPMinLen + 2 + uint16(len(es))*packet.LSPEntryLen
	return zvFrameBytes(packet.L2_PSNP_TYPE, p)
}

func zvC32Nbr(circuit string) zvNbr {
	if circuit == "eth1" {
		return zvNbr2
	}
	return zvNbr1
}

// zvC32World builds the fixture: all links up, N1 and N2 Up, LSDB settled.
func zvC32World() *zvIsisWorld {
	w := zvIsisNew(false, zvIfEth0, zvIfEth1, zvIfEth2, zvIfLo)
	w.linksUp("eth0", "eth1", "eth2", "lo0")
	w.bringUp(zvNbr1, 60)
	w.bringUp(zvNbr2, 60)
	vsched.Settle()
	for _, n := range []string{"eth0", "eth1", "eth2"} {
		w.eth(n).take()
	}
	return w
}

// zvC32Replay runs one history; the oracle is evaluated after the LAST event only.
func zvC32Replay(hist []string, trace bool) (res zvC32Result) {
	viol := func(sig map[string]string, f string, a ...any) {
		res.Viols = append(res.Viols, zvC32Viol{sig, fmt.Sprintf(f, a...)})
	}
	x := zvExec(vsched.Config{MaxSteps: 400000, Trace: trace, Sites: trace}, func() {
		w := zvC32World()
		l := w.srv.lsdbL2
		// the reference adopts the state the set-up produced (the set-up is not part of the model)
		ref := &zvC32Ref{db: map[string]*zvC32RefEntry{}}
		o0 := w.lsdbObs()
		own := o0["own"]
		if own == nil || !own.Ours || len(o0) != 1 {
			panic(fmt.Sprintf("zv: unexpected LSDB after set-up: %v", o0))
		}
		res.Own0 = own.Seq
		ref.lastOrig = own.Seq
		ref.db["own"] = &zvC32RefEntry{seq: own.Seq, life: own.Life, srm: map[string]bool{}, ssn: map[string]bool{}}
		for _, c := range zvC32Circuits {
			if own.SRM[c] {
				ref.db["own"].srm[c] = true
			}
			if own.SSN[c] {
				ref.db["own"].ssn[c] = true
			}
		}
		if zvSet(own.SRM) != "{eth0,eth1}" {
			panic(fmt.Sprintf("zv: set-up: own LSP has SRM %s", zvSet(own.SRM)))
		}
		for i, ev := range hist {
			last := i == len(hist)-1
			before := map[string]*zvC32RefEntry{}
			for k, e := range ref.db {
				c := *e
				c.srm, c.ssn = map[string]bool{}, map[string]bool{}
				for x := range e.srm {
					c.srm[x] = true
				}
				for x := range e.ssn {
					c.ssn[x] = true
				}
				before[k] = &c
			}
			openBefore := ref.ownOpen
			label := ref.step(ev, res.Own0)
			res.Labels = append(res.Labels, label)
			// ---- apply the event to the real server
			p := strings.Split(ev, ":")
			switch p[0] {
			case "lsp":
				k, _ := strconv.Atoi(p[3])
				seq := uint32(k)
				if p[2] == "own" {
					seq = uint32(int(res.Own0) + k)
				}
				life, _ := strconv.Atoi(p[4])
				w.recv(zvC32Nbr(p[1]), zvC32LSPFrame(zvC32LSPID(p[2]), seq, life))
			case "csnp":
				var es [][2]any
				if p[2] != "-" {
					k, _ := strconv.Atoi(p[2])
					es = append(es, [2]any{"A", uint32(k)})
				}
				if p[3] != "-" {
					k, _ := strconv.Atoi(p[3])
					es = append(es, [2]any{"B", uint32(k)})
				}
				w.recv(zvC32Nbr(p[1]), zvC32CSNPFrame(zvC32Nbr(p[1]), zvC32SNPEntries(es...)))
			case "psnp":
				k, _ := strconv.Atoi(p[2])
				w.recv(zvC32Nbr(p[1]), zvC32PSNPFrame(zvC32Nbr(p[1]), zvC32SNPEntries([2]any{"A", uint32(k)})))
			case "tick":
				l.decrementRemainingLifetimes()
			case "own-update":
				w.srv.updateL2LSP()
			case "send-lsp":
				l.sendLSPDUs()
			case "send-psnp":
				l.sendPSNPss()
			case "send-csnp":
				l.sendCSNPss()
			}
			vsched.Settle()
			obs := w.lsdbObs()
			// ---- own LSP: origination detection and the overtaking clause
			if o := obs["own"]; o != nil && o.Ours && o.Seq != ref.lastOrig {
				if ref.ownReceived > ref.lastOrig && last {
					res.OrigAfterReceived = true // a copy newer than the own LSP was outstanding
				}
				if o.Seq <= ref.ownReceived && last {
					viol(vh.Sig("clause", "own-lsp-not-overtaking"),
						"own LSP originated with sequence number %d although a copy with sequence number %d had been received from the network (sequence number after set-up %d)", o.Seq, ref.ownReceived, res.Own0)
				}
				ref.lastOrig = o.Seq
				ref.ownOpen = false
				n := &zvC32RefEntry{seq: o.Seq, life: o.Life, srm: map[string]bool{}, ssn: map[string]bool{}}
				for _, c := range zvC32Circuits {
					n.srm[c] = true
				}
				ref.db["own"] = n
				if label == "lsp-own-newer" || label == "lsp-own-while-open" {
					label = "lsp-own-newer-reoriginated"
				}
			} else if p[0] == "own-update" && last {
				viol(vh.Sig("clause", "own-update-no-origination"), "an LSP update request did not produce a new own LSP (own entry: %+v)", obs["own"])
			}
			if last && p[0] == "tick" && before["A"] != nil && obs["A"] == nil {
				res.AgedOut = true
			}
			// ---- database and flags = reference
			for name := range obs {
				if strings.HasPrefix(name, "other:") && last {
					viol(vh.Sig("clause", "unexpected-lsp"), "LSDB contains %s which nobody sent", name)
				}
			}
			for _, name := range []string{"A", "B", "own"} {
				want, got := ref.db[name], obs[name]
				if name == "own" && ref.ownOpen {
					continue
				}
				rel := label
				// cases the statement leaves open: adopt the implementation's entry
				adoptAll := name == "A" && (label == "psnp-unknown" || label == "psnp-newer")
				if adoptAll {
					if got == nil {
						delete(ref.db, name)
					} else {
						ref.db[name] = &zvC32RefEntry{seq: got.Seq, life: got.Life, srm: zvCopySet(got.SRM), ssn: zvCopySet(got.SSN)}
					}
					continue
				}
				if want != nil && got != nil && want.life <= -2 && last {
					viol(vh.Sig("clause", "lsdb-content", "case", rel, "lsp", zvKind(name), "what", "not-aged-out"),
						"after %q the LSDB still holds %s seq %d with remaining lifetime %d although its lifetime ran out %d ticks ago", ev, name, got.Seq, got.Life, -want.life)
				}
				if want == nil {
					if got != nil && last {
						viol(vh.Sig("clause", "lsdb-content", "case", rel, "lsp", zvKind(name), "what", "stored-unexpectedly"),
							"after %q the LSDB holds %s seq %d, the reference holds nothing", ev, name, got.Seq)
					}
					if got != nil {
						ref.db[name] = &zvC32RefEntry{seq: got.Seq, life: got.Life, srm: zvCopySet(got.SRM), ssn: zvCopySet(got.SSN)}
					}
					continue
				}
				if got == nil {
					// aged out: demanded to stay only while lifetime - ticks >= 2
					if want.life >= 2 && last {
						viol(vh.Sig("clause", "lsdb-content", "case", rel, "lsp", zvKind(name), "what", "missing"),
							"after %q the LSDB does not hold %s (reference: seq %d, remaining lifetime %d)", ev, name, want.seq, want.life)
					}
					delete(ref.db, name)
					continue
				}
				if got.Seq != want.seq {
					if last {
						viol(vh.Sig("clause", "lsdb-content", "case", rel, "lsp", zvKind(name), "what", "sequence-number"),
							"after %q the LSDB holds %s with sequence number %d, the reference %d", ev, name, got.Seq, want.seq)
					}
					want.seq = got.Seq
				}
				// flags on the circuits with a neighbour
				for _, c := range zvC32Circuits {
					role := "other-circuit"
					if len(p) > 1 && p[1] == c {
						role = "receiving-circuit"
					}
					// PSNP entry older than the stored copy: SRM must not be cleared (it stays or gets set), SSN is open
					if name == "A" && label == "psnp-older" && p[1] == c {
						if before["A"].srm[c] && !got.SRM[c] && last {
							viol(vh.Sig("clause", "flags", "case", rel, "flag", "SRM", "circuit", role, "lsp", zvKind(name)),
								"after %q (PSNP entry A:%s older than the stored A:%d) SRM(%s) was cleared: the neighbour still lacks the newer LSP", ev, p[2], want.seq, c)
						}
						zvSetFlag(want.srm, c, got.SRM[c])
						zvSetFlag(want.ssn, c, got.SSN[c])
						continue
					}
					if got.SRM[c] != want.srm[c] {
						if last {
							viol(vh.Sig("clause", "flags", "case", rel, "flag", "SRM", "circuit", role, "lsp", zvKind(name)),
								"after %q SRM(%s) of %s is %v, the reference says %v (SRM %s / reference %s)", ev, c, name, got.SRM[c], want.srm[c], zvSet(got.SRM), zvSet(want.srm))
						}
						zvSetFlag(want.srm, c, got.SRM[c])
					}
					if got.SSN[c] != want.ssn[c] {
						if last {
							viol(vh.Sig("clause", "flags", "case", rel, "flag", "SSN", "circuit", role, "lsp", zvKind(name)),
								"after %q SSN(%s) of %s is %v, the reference says %v (SSN %s / reference %s)", ev, c, name, got.SSN[c], want.ssn[c], zvSet(got.SSN), zvSet(want.ssn))
						}
						zvSetFlag(want.ssn, c, got.SSN[c])
					}
				}
			}
			// ---- what a send round emits = what the flags demand (flags as before the round)
			sent := map[string][]zvSent{}
			for _, n := range []string{"eth0", "eth1", "eth2"} {
				sent[n] = w.sent(n)
			}
			for _, s := range sent["eth2"] {
				if last {
					viol(vh.Sig("clause", "sent-on-circuit-without-neighbour", "pdu", fmt.Sprint(s.Type)), "after %q a PDU of type %d was sent on eth2, which has no neighbour", ev, s.Type)
				}
			}
			if last && (p[0] == "send-lsp" || p[0] == "send-psnp" || p[0] == "send-csnp") {
				var got, want []string
				for _, c := range zvC32Circuits {
					for _, s := range sent[c] {
						if s.Err != "" {
							viol(vh.Sig("clause", "sent-undecodable", "round", p[0]), "after %q an undecodable PDU was sent on %s: %s", ev, c, s.Err)
							continue
						}
						switch b := s.Pkt.Body.(type) {
						case *packet.LSPDU:
							res.SentLSP++
							if zvC32Name(b.LSPID) == "own" && openBefore {
								continue
							}
							got = append(got, fmt.Sprintf("LSP %s %s:%d", c, zvC32Name(b.LSPID), b.SequenceNumber))
						case *packet.PSNP:
							res.SentPSNP++
							for _, e := range b.GetLSPEntries() {
								if zvC32Name(e.LSPID) == "own" && openBefore {
									continue
								}
								got = append(got, fmt.Sprintf("PSNP %s %s:%d", c, zvC32Name(e.LSPID), e.SequenceNumber))
							}
						case *packet.CSNP:
							res.SentCSNP++
						}
					}
				}
				for name, e := range before {
					if name == "own" && openBefore {
						continue
					}
					for _, c := range zvC32Circuits {
						if p[0] == "send-lsp" && e.srm[c] {
							want = append(want, fmt.Sprintf("LSP %s %s:%d", c, name, e.seq))
						}
						if p[0] == "send-psnp" && e.ssn[c] {
							want = append(want, fmt.Sprintf("PSNP %s %s:%d", c, name, e.seq))
						}
					}
				}
				sort.Strings(got)
				sort.Strings(want)
				if p[0] != "send-csnp" && fmt.Sprint(got) != fmt.Sprint(want) {
					viol(vh.Sig("clause", "send-round", "round", p[0]), "%s emitted %v, the flags before the round demand %v", p[0], got, want)
				}
			}
		}
		// ---- canonical state: the real database and flags, lifetimes classed, own sequence number relative, plus the reference's memory
		obs := w.lsdbObs()
		var parts []string
		for _, name := range []string{"A", "B", "own"} {
			e := obs[name]
			if e == nil {
				parts = append(parts, name+":-")
				continue
			}
			seq := fmt.Sprint(e.Seq)
			if name == "own" {
				seq = fmt.Sprintf("own0%+d", zvClamp(int(e.Seq)-int(res.Own0), -1, 3))
			}
			life := "long"
			if e.Life < 100 {
				life = fmt.Sprint(e.Life)
			}
			parts = append(parts, fmt.Sprintf("%s:%s life=%s srm=%s ssn=%s ours=%v", name, seq, life, zvSet(e.SRM), zvSet(e.SSN), e.Ours))
		}
		rcv := 0
		if ref.ownReceived != 0 {
			rcv = zvClamp(int(ref.ownReceived)-int(res.Own0), -1, 3) + 10
		}
		parts = append(parts, fmt.Sprintf("open=%v rcv=%d orig=own0%+d ctr=own0%+d", ref.ownOpen, rcv, zvClamp(int(ref.lastOrig)-int(res.Own0), -1, 3), zvClamp(int(w.srv.sequenceNumberL2)-int(res.Own0), -1, 3)))
		res.Canon = strings.Join(parts, " | ")
	})
	if trace {
		for _, l := range x.Log {
			fmt.Println("   ", l)
		}
	}
	res.Status, res.Diag = x.Status, x.Crash+x.Blocked
	return res
}

func zvKind(name string) string {
	if name == "own" {
		return "own"
	}
	return "foreign"
}

func zvCopySet(m map[string]bool) map[string]bool {
	n := map[string]bool{}
	for _, c := range zvC32Circuits {
		if m[c] {
			n[c] = true
		}
	}
	return n
}

func zvSetFlag(m map[string]bool, c string, v bool) {
	if v {
		m[c] = true
	} else {
		delete(m, c)
	}
}

// zvC32Aging is the bounded-liveness run: 2 x 1800 virtual seconds of linear
// aging with all real ticker routines running; the own LSP must be stored with
// a positive remaining lifetime at every second.
func zvC32Aging(root []string, secs int) (refreshes int, v *zvC32Viol, st vsched.Status, diag string) {
	x := zvExec(vsched.Config{MaxSteps: 50000000}, func() {
		w := zvC32World()
		own0 := w.ownLSP().SequenceNumber
		for _, ev := range root {
			p := strings.Split(ev, ":")
			k, _ := strconv.Atoi(p[3])
			life, _ := strconv.Atoi(p[4])
			w.recv(zvC32Nbr(p[1]), zvC32LSPFrame(zvC32LSPID(p[2]), uint32(int(own0)+k), life))
		}
		lastSeq := uint32(0)
		for t := 1; t <= secs; t++ {
			vsched.Advance(time.Second)
			o := w.ownLSP()
			if o == nil || o.RemainingLifetime == 0 {
				v = &zvC32Viol{vh.Sig("clause", "own-lsp-expired"), fmt.Sprintf("after %d s of aging the own LSP is %v (root %v)", t, o, root)}
				return
			}
			if o.SequenceNumber != lastSeq {
				if lastSeq != 0 {
					refreshes++
				}
				lastSeq = o.SequenceNumber
			}
		}
	})
	return refreshes, v, x.Status, x.Crash + x.Blocked
}

var zvC32Required = []string{"lsp-newer", "lsp-same", "lsp-older", "lsp-own-newer", "csnp", "psnp-equal", "psnp-older", "tick", "own-update", "send-lsp", "send-psnp", "send-csnp",
	"lsps_sent", "psnps_sent", "csnps_sent", "origination_after_received_copy", "aging_refreshes", "aged_out"}

func TestVerifC32(t *testing.T) {
	r := vh.Start(t, "C32")
	defer r.Finish()
	dFull, dA, dOwn := 3, 3, 4
	if r.Thorough() {
		dFull, dA, dOwn = 4, 5, 6
	}
	full := zvC32Alphabet("full")
	r.Rule(fmt.Sprintf("explicit-state BFS over histories of received LSPs/CSNPs/PSNPs (LSP IDs A, B, own; sequence numbers 1..3 resp. own-1/own/own+2 (own sub-alphabet also own+5); lifetimes 2/1200, in the foreign-LSP sub-alphabet also 0) on two circuits, aging ticks, own-LSP updates and LSP/PSNP/CSNP send rounds: "+
		"full alphabet (%d events) to depth %d, sub-alphabets 'A' (%d events, foreign LSP only) to depth %d and 'own' (%d events, own LSP only) to depth %d; each history replayed on a fresh real Server (bound 0) in lock-step with the ISO 10589 reference; "+
		"plus a 3600 s linear aging run from 2 roots; plus every schedule (<= 2 preemptions, thorough 3) of the receiver goroutines and the own-LSP updater for two (three) copies of the own LSP queued at once; non-trivial = distinct canonical states", len(full), dFull, len(zvC32Alphabet("A")), dA, len(zvC32Alphabet("own")), dOwn))
	r.Require(zvC32Required...)
	r.Extra("depth_full", dFull)
	r.Extra("depth_sub_A", dA)
	r.Extra("depth_sub_own", dOwn)

	report := func(uni string, hist []string, res zvC32Result) {
		c := zvC32Case{uni, hist}
		if res.Status != vsched.Completed {
			msg, where := zvCrashSite(res.Diag)
			r.Violation(vh.Sig("clause", "run-"+res.Status.String(), "panic", msg, "where", where), c, "%v: execution %s: %.1500s", hist, res.Status, res.Diag)
			return
		}
		for _, v := range res.Viols {
			r.Violation(v.sig, c, "%v: %s", hist, v.desc)
		}
	}
	if r.IsReplay() {
		var cc zvC32ConcCase
		r.ReplayCase(&cc)
		if cc.Conc {
			zvC32ConcRun(r, cc, append([]int{}, cc.Schedule...))
			for _, k := range zvC32Required {
				r.Count(k, 1)
			}
			return
		}
		var c zvC32Case
		r.ReplayCase(&c)
		if c.Universe == "aging" {
			_, v, st, diag := zvC32Aging(c.Hist, 3600)
			if st != vsched.Completed {
				r.Violation(vh.Sig("clause", "run-"+st.String(), "phase", "aging"), c, "aging run: %s %.1000s", st, diag)
			} else if v != nil {
				r.Violation(v.sig, c, "%s", v.desc)
			}
		} else {
			res := zvC32Replay(c.Hist, true)
			report(c.Universe, c.Hist, res)
			fmt.Printf("replay %v: labels %v canon %s\n", c.Hist, res.Labels, res.Canon)
		}
		for _, k := range zvC32Required {
			r.Count(k, 1)
		}
		return
	}

	step := func(uni string, prefix []string) func(h []string) (string, []string, bool) {
		en := zvC32Alphabet(uni)
		return func(h []string) (string, []string, bool) {
			hist := append(append([]string{}, prefix...), h...)
			res := zvC32Replay(hist, false)
			r.Eval(1)
			report(uni, hist, res)
			if res.Status != vsched.Completed {
				return "crashed:" + strings.Join(hist, "|"), nil, false
			}
			if len(res.Labels) > 0 {
				r.Count(res.Labels[len(res.Labels)-1], 1)
			}
			r.Count("lsps_sent", res.SentLSP)
			r.Count("psnps_sent", res.SentPSNP)
			r.Count("csnps_sent", res.SentCSNP)
			if res.OrigAfterReceived {
				r.Count("origination_after_received_copy", 1)
			}
			if res.AgedOut {
				r.Count("aged_out", 1)
			}
			r.Outcome(res.Canon)
			return res.Canon, en, true
		}
	}
	// determinism self-check, then directed histories: one known history per coverage counter, evaluated like any
	// other (so that a run cut short by its time budget is capped, not vacuous)
	{
		h := []string{"lsp:eth0:A:2:2", "csnp:eth1:1:1", "send-psnp", "tick", "lsp:eth1:own:+2:1200", "own-update"}
		if a, b := zvC32Replay(h, false), zvC32Replay(h, false); a.Canon != b.Canon || fmt.Sprint(a.Labels, a.Viols) != fmt.Sprint(b.Labels, b.Viols) {
			r.Fatalf("replaying the same history twice gave different results:\n%+v\n%+v", a, b)
		}
	}
	directed := [][]string{
		{"lsp:eth0:A:2:1200", "lsp:eth1:A:2:1200", "lsp:eth1:A:1:1200", "send-lsp"}, // newer, same, older
		{"lsp:eth0:A:2:1200", "psnp:eth1:1", "psnp:eth1:2"},                         // PSNP older, equal
		{"csnp:eth0:1:1", "send-psnp", "send-csnp"},
		{"lsp:eth0:A:1:2", "tick", "tick"},     // aged out
		{"lsp:eth0:own:+2:1200", "own-update"}, // own LSP overtakes
		{"lsp:eth0:A:3:1200", "send-lsp", "send-psnp"},
	}
	idx := 0
	for _, h := range directed {
		for n := 1; n <= len(h); n++ {
			idx++
			if r.Mine(idx) {
				step("full", h[:n])(nil)
			}
		}
	}
	for _, u := range []struct {
		uni   string
		depth int
	}{{"full", dFull}, {"A", dA}, {"own", dOwn}} {
		for _, e1 := range zvC32Alphabet(u.uni) {
			idx++
			if !r.Mine(idx) {
				continue
			}
			b := vh.BFS[string]{R: r, MaxDepth: u.depth - 1, Label: u.uni + "/" + e1, Step: step(u.uni, []string{e1})}
			s, _, _ := b.Explore()
			r.Nontrivial(s)
		}
	}
	// bounded liveness: linear aging
	for i, root := range [][]string{nil, {"lsp:eth0:own:+2:2"}} {
		idx++
		if !r.Mine(idx) {
			continue
		}
		n, v, st, diag := zvC32Aging(root, 3600)
		r.Eval(1)
		c := zvC32Case{"aging", root}
		if st != vsched.Completed {
			r.Violation(vh.Sig("clause", "run-"+st.String(), "phase", "aging"), c, "aging run %d: %s %.1000s", i, st, diag)
		} else if v != nil {
			r.Violation(v.sig, c, "%s", v.desc)
		}
		r.Count("aging_refreshes", n)
	}
	zvC32Concurrent(r, idx)
}
