// Package vh is the harness-side helper of the /verif machinery. It is mounted
// by the overlay at github.com/bio-routing/bio-rd/zzverif/vh and used by the
// zz_verif_*_test.go files injected into the repo's packages.
//
// A harness enumerates a finite space, evaluates its oracle on every element and
// reports: counts, samples, coverage counters and violations (each with a
// structured signature and a replay artefact). The driver (/verif/cmd/check)
// merges the per-shard reports, matches signatures with known_findings.json and
// writes the evidence file.
package vh

import (
	"encoding/json"
	"fmt"
	"os"
	"sort"
	"strconv"
	"strings"
	"sync"
	"testing"
	"time"
)

// Violation is one oracle failure.
type Violation struct {
	Sig    map[string]string `json:"sig"`    // structured signature (matched against known findings)
	Desc   string            `json:"desc"`   // human readable: observed vs expected
	Replay any               `json:"replay"` // the case (input / history / schedule) that fails
	Count  int               `json:"count"`  // how many cases with this signature were seen in this shard
}

// Report is what one shard writes to $VERIF_OUT.
type Report struct {
	Property    string           `json:"property"`
	Shard       int              `json:"shard"`
	NShards     int              `json:"nshards"`
	Tier        string           `json:"tier"`
	Evaluations int64            `json:"evaluations"`
	Nontrivial  int64            `json:"distinct_nontrivial"`
	States      int64            `json:"states"`
	Transitions int64            `json:"transitions"`
	Traces      int64            `json:"traces_validated_against_impl"`
	Outcomes    int64            `json:"distinct_outcomes"`
	Rule        string           `json:"rule"`
	Samples     []any            `json:"samples"`
	Exhaustive  bool             `json:"exhaustive"`
	Caps        []string         `json:"caps"`
	Counters    map[string]int64 `json:"counters"`
	Required    []string         `json:"required_counters"`
	Violations  []Violation      `json:"violations"`
	NViolations int64            `json:"n_violations"`
	Extra       map[string]any   `json:"extra"`
	HarnessErr  string           `json:"harness_error"`
	WallS       float64          `json:"wall_s"`
	outcomes    map[string]struct{}
	visited     map[string]struct{}
	sigIndex    map[string]int
}

// Run is the handle a harness works with.
type Run struct {
	mu       sync.Mutex
	t        *testing.T
	rep      Report
	start    time.Time
	replay   json.RawMessage
	deadline time.Time
	finished bool
}

func envInt(name string, def int) int {
	if v := os.Getenv(name); v != "" {
		if n, err := strconv.Atoi(v); err == nil {
			return n
		}
	}
	return def
}

// Start begins a harness run for property id. The test is skipped when the
// driver's environment is absent (so the files are inert under a plain go test).
func Start(t *testing.T, id string) *Run {
	if os.Getenv("VERIF_OUT") == "" {
		t.Skip("verif harness: not run by the driver (VERIF_OUT unset)")
	}
	r := &Run{t: t, start: time.Now()}
	r.rep.Property = id
	r.rep.Tier = os.Getenv("VERIF_TIER")
	if r.rep.Tier == "" {
		r.rep.Tier = "quick"
	}
	r.rep.Shard = envInt("VERIF_SHARD", 0)
	r.rep.NShards = envInt("VERIF_NSHARDS", 1)
	r.rep.Exhaustive = true
	r.rep.Counters = map[string]int64{}
	r.rep.Extra = map[string]any{}
	r.rep.outcomes = map[string]struct{}{}
	r.rep.visited = map[string]struct{}{}
	r.rep.sigIndex = map[string]int{}
	if p := os.Getenv("VERIF_REPLAY"); p != "" {
		b, err := os.ReadFile(p)
		if err != nil {
			r.Fatalf("cannot read replay file: %v", err)
		}
		var w struct {
			Replay json.RawMessage `json:"replay"`
		}
		if err := json.Unmarshal(b, &w); err != nil || len(w.Replay) == 0 {
			r.Fatalf("bad replay file %s: %v", p, err)
		}
		r.replay = w.Replay
	}
	if s := envInt("VERIF_BUDGET_S", 0); s > 0 {
		r.deadline = r.start.Add(time.Duration(s) * time.Second)
	}
	return r
}

// Thorough reports whether the thorough tier was requested.
func (r *Run) Thorough() bool { return r.rep.Tier == "thorough" }

// Tier returns "quick" or "thorough".
func (r *Run) Tier() string { return r.rep.Tier }

// Seed returns VERIF_SEED (only ever used to permute visiting order).
func (r *Run) Seed() int { return envInt("VERIF_SEED", 0) }

// Shard returns this process's shard index and the number of shards.
func (r *Run) Shard() (int, int) { return r.rep.Shard, r.rep.NShards }

// Mine tells whether work item idx belongs to this shard.
func (r *Run) Mine(idx int) bool {
	if r.replay != nil {
		return true
	}
	return idx%r.rep.NShards == r.rep.Shard
}

// IsReplay tells whether the driver asked for the replay of one recorded case.
func (r *Run) IsReplay() bool { return r.replay != nil }

// ReplayCase unmarshals the recorded case into v.
func (r *Run) ReplayCase(v any) {
	if err := json.Unmarshal(r.replay, v); err != nil {
		r.Fatalf("cannot decode replay case: %v", err)
	}
}

// OutOfBudget is true once the soft time budget given by the driver has been
// used up. Harnesses poll it between work units, call Cap() and stop; a capped
// run is reported with exhaustive=false and never as a violation.
func (r *Run) OutOfBudget() bool {
	return !r.deadline.IsZero() && time.Now().After(r.deadline)
}

func (r *Run) Eval(n int)        { r.mu.Lock(); r.rep.Evaluations += int64(n); r.mu.Unlock() }
func (r *Run) Nontrivial(n int)  { r.mu.Lock(); r.rep.Nontrivial += int64(n); r.mu.Unlock() }
func (r *Run) States(n int)      { r.mu.Lock(); r.rep.States += int64(n); r.mu.Unlock() }
func (r *Run) Transitions(n int) { r.mu.Lock(); r.rep.Transitions += int64(n); r.mu.Unlock() }
func (r *Run) Traces(n int)      { r.mu.Lock(); r.rep.Traces += int64(n); r.mu.Unlock() }
func (r *Run) Rule(s string)     { r.rep.Rule = s }
func (r *Run) Extra(k string, v any) {
	r.mu.Lock()
	r.rep.Extra[k] = v
	r.mu.Unlock()
}

// Count bumps a named coverage counter.
func (r *Run) Count(name string, n int) {
	r.mu.Lock()
	r.rep.Counters[name] += int64(n)
	r.mu.Unlock()
}

// Require declares counters that must be non-zero in the merged report,
// otherwise the run is vacuous and the driver reports a harness error.
func (r *Run) Require(names ...string) {
	r.rep.Required = append(r.rep.Required, names...)
}

// Visit records one observed state of a harness that enumerates histories without a BFS: the number of
// distinct keys is added to the states count when the run finishes (per shard; shards explore different histories).
func (r *Run) Visit(key string) {
	r.mu.Lock()
	if len(r.rep.visited) < 1<<22 {
		r.rep.visited[key] = struct{}{}
	}
	r.mu.Unlock()
}

// Outcome records one observed outcome; the number of distinct outcomes is
// reported (one outcome from many executions means nothing collided).
func (r *Run) Outcome(key string) {
	r.mu.Lock()
	if len(r.rep.outcomes) < 1<<20 {
		r.rep.outcomes[key] = struct{}{}
	}
	r.mu.Unlock()
}

// Sample keeps a few of the actual cases for the evidence file.
func (r *Run) Sample(v any) {
	r.mu.Lock()
	if len(r.rep.Samples) < 3 {
		r.rep.Samples = append(r.rep.Samples, v)
	}
	r.mu.Unlock()
}

// Cap records that some bound stopped the enumeration early.
func (r *Run) Cap(what string) {
	r.mu.Lock()
	r.rep.Exhaustive = false
	for _, c := range r.rep.Caps {
		if c == what {
			r.mu.Unlock()
			return
		}
	}
	r.rep.Caps = append(r.rep.Caps, what)
	r.mu.Unlock()
}

func sigKey(sig map[string]string) string {
	ks := make([]string, 0, len(sig))
	for k := range sig {
		ks = append(ks, k)
	}
	sort.Strings(ks)
	var b strings.Builder
	for _, k := range ks {
		fmt.Fprintf(&b, "%s=%s;", k, sig[k])
	}
	return b.String()
}

// Violation records an oracle failure. Only the first case per signature is
// kept (BFS / ordered enumeration makes it the shortest); the rest are counted.
func (r *Run) Violation(sig map[string]string, replay any, format string, a ...any) {
	r.mu.Lock()
	defer r.mu.Unlock()
	r.rep.NViolations++
	k := sigKey(sig)
	if i, ok := r.rep.sigIndex[k]; ok {
		r.rep.Violations[i].Count++
		return
	}
	if len(r.rep.Violations) >= 200 {
		return
	}
	r.rep.sigIndex[k] = len(r.rep.Violations)
	r.rep.Violations = append(r.rep.Violations, Violation{Sig: sig, Desc: fmt.Sprintf(format, a...), Replay: replay, Count: 1})
}

// NViolations returns the number of violations recorded so far.
func (r *Run) NViolations() int64 {
	r.mu.Lock()
	defer r.mu.Unlock()
	return r.rep.NViolations
}

// Fatalf reports a harness error (never a violation) and stops the test.
func (r *Run) Fatalf(format string, a ...any) {
	r.rep.HarnessErr = fmt.Sprintf(format, a...)
	r.write()
	r.t.Fatalf("HARNESS-ERROR: %s", r.rep.HarnessErr)
}

// Finish writes the shard report.
func (r *Run) Finish() {
	r.write()
}

func (r *Run) write() {
	r.mu.Lock()
	defer r.mu.Unlock()
	if r.finished {
		return
	}
	r.finished = true
	r.rep.Outcomes = int64(len(r.rep.outcomes))
	r.rep.States += int64(len(r.rep.visited))
	r.rep.WallS = time.Since(r.start).Seconds()
	b, err := json.Marshal(&r.rep)
	if err != nil {
		r.t.Fatalf("HARNESS-ERROR: cannot marshal report: %v", err)
	}
	if err := os.WriteFile(os.Getenv("VERIF_OUT"), b, 0o644); err != nil {
		r.t.Fatalf("HARNESS-ERROR: cannot write report: %v", err)
	}
}

// Sig is a convenience constructor: Sig("clause","x","k","v").
func Sig(kv ...string) map[string]string {
	m := map[string]string{}
	for i := 0; i+1 < len(kv); i += 2 {
		m[kv[i]] = kv[i+1]
	}
	return m
}

// Try runs f and converts a panic into (true, description).
func Try(f func()) (panicked bool, what string) {
	defer func() {
		if e := recover(); e != nil {
			panicked = true
			what = fmt.Sprint(e)
		}
	}()
	f()
	return
}
