package server

// C07 — leaving Established withdraws everything the session contributed.

import (
	"fmt"
	"strings"
	"testing"

	"github.com/bio-routing/bio-rd/zzverif/vh"
	"github.com/bio-routing/bio-rd/zzverif/vsched"
)

type zvC07Case struct {
	Cfg  string   `json:"config"`
	Hist []string `json:"history"`
}

func zvC07Check(r *vh.Run, cfg zvSessCfg, hist []string, t zvSessTrace) bool {
	c := zvC07Case{cfg.Name, hist}
	last := "init"
	if len(hist) > 0 {
		last = hist[len(hist)-1]
	}
	if t.Status != vsched.Completed {
		r.Violation(vh.Sig("clause", "run-"+t.Status.String(), "config", cfg.Name, "event", last), c, "execution %s: %.500s %s", t.Status, t.Crash, t.Blocked)
		return false
	}
	o := t.Obs[len(t.Obs)-1]
	var prev zvObs
	if len(t.Obs) > 1 {
		prev = t.Obs[len(t.Obs)-2]
	}
	ok := true
	v := func(clause string, f string, a ...any) {
		ok = false
		r.Violation(vh.Sig("clause", clause, "config", cfg.Name, "left_by", zvLeftBy(t, hist)), c, f, a...)
	}
	bClients := uint64(0)
	if o.BState == stateNameEstablished {
		bClients = 1
		// ... and nothing but what it contributed: the other session's contributions stay
		if cfg.BRRClient && !o.ContribCID {
			v("other-sessions-cluster-contribution-removed", "the other session (a route reflector client, Established) contributes the cluster ID, but it no longer counts as contributing (this session is %s)", o.State)
		}
	}
	if o.State != stateNameEstablished {
		r.Count("not_established_states", 1)
		if prev.State == stateNameEstablished {
			r.Count("left_established", 1)
			r.Count("left_by:"+last, 1)
		}
		if len(o.LocFromA) > 0 {
			v("locrib-not-withdrawn", "session is %s but the Loc-RIB still holds %v learned over it", o.State, o.LocFromA)
		}
		if o.RibClients != bClients {
			v("adjribout-still-registered", "session is %s but the Loc-RIB has %d clients (expected %d): its Adj-RIB-Out still receives updates", o.State, o.RibClients, bClients)
		}
		if o.ContribAS {
			v("asn-contribution", "session is %s but its local ASN still counts as contributing", o.State)
		}
		if cfg.A.RRClient && o.ContribCID {
			v("cluster-contribution", "session is %s but its cluster ID still counts as contributing", o.State)
		}
		if last == evBUpd && o.WritesAfterClose > prev.WritesAfterClose {
			v("write-after-close", "a Loc-RIB change was written to the closed connection of a session in state %s", o.State)
		}
	} else {
		r.Count("established_states", 1)
		if prev.State != stateNameEstablished && len(t.Obs) > 1 {
			r.Count("established_entered", 1)
			if len(hist) > 2 && strings.Contains(strings.Join(hist[:len(hist)-1], " "), evKA) {
				r.Count("re_established", 1)
			}
			if len(o.RibIn) != 0 {
				v("ribin-not-empty", "newly established session starts with Adj-RIB-In %v", o.RibIn)
			}
		}
		if !o.ContribAS {
			v("asn-contribution-missing", "established session does not contribute its ASN")
		}
		want := []string{}
		for _, p := range o.LocOther {
			want = append(want, "1:"+p+"#0")
		}
		// (a connection whose writes fail cannot carry the re-advertisement: not demanded)
		if !o.WriteFail && fmt.Sprint(append([]string{}, o.View...)) != fmt.Sprint(want) {
			v("readvertise", "peer's view on the current connection is %v, the Loc-RIB's exportable routes are %v", o.View, want)
		}
		if o.ViewErr != "" {
			v("malformed-output", "bio-rd wrote a malformed message: %s", o.ViewErr)
		}
	}
	return ok
}

// zvLeftBy names the event by which Established was left most recently (or "-").
func zvLeftBy(t zvSessTrace, hist []string) string {
	for i := len(t.Obs) - 1; i >= 1; i-- {
		if t.Obs[i].State != stateNameEstablished && t.Obs[i-1].State == stateNameEstablished {
			return hist[i-1]
		}
	}
	return "-"
}

func TestVerifC07(t *testing.T) {
	r := vh.Start(t, "C07")
	defer r.Finish()
	depth := 5
	if r.Thorough() {
		depth = 7
	}
	r.Rule(fmt.Sprintf("BFS over all event histories (alphabet of %d session events: clock steps, received OPEN/KEEPALIVE/UPDATE/NOTIFICATION/malformed, write failure, manual stop, disposal, dial failure, foreign Loc-RIB change) "+
		"up to depth %d from two roots (initial state; established session holding a learned route) per session configuration, each history replayed on a fresh real bgpServer under the virtual runtime (bound 0); oracle in every state; "+
		"plus every schedule (deviation bound 2, thorough 3) of {NOTIFICATION, malformed message} arriving while the import policy is replaced by {reject-all, set-localpref, accept-all}", len(zvSessAlphabet), depth))
	r.Require("left_established", "established_entered", "re_established", "conc_left_established")
	r.Extra("depth", depth)
	cfgs := zvSessCfgs()
	if r.IsReplay() {
		var cc zvC07ConcCase
		r.ReplayCase(&cc)
		if cc.NewChain != "" {
			for _, cfg := range cfgs {
				if cfg.Name == cc.Cfg {
					zvC07ConcRun(r, cfg, cc, append([]int{}, cc.Schedule...))
				}
			}
			r.Count("left_established", 1)
			r.Count("established_entered", 1)
			r.Count("re_established", 1)
			r.Count("conc_left_established", 1)
			return
		}
		var c zvC07Case
		r.ReplayCase(&c)
		for _, cfg := range cfgs {
			if cfg.Name == c.Cfg {
				for n := 1; n <= len(c.Hist); n++ {
					tr := zvSessReplay(cfg, c.Hist[:n], n == len(c.Hist))
					zvC07Check(r, cfg, c.Hist[:n], tr)
					fmt.Printf("after %v: %+v\n", c.Hist[:n], tr.Obs[len(tr.Obs)-1])
				}
			}
		}
		r.Count("left_established", 1)
		r.Count("established_entered", 1)
		r.Count("re_established", 1)
		r.Count("conc_left_established", 1)
		return
	}
	// BFS roots: the initial state and (start from non-initial states too) an established session that has learned a route
	roots := [][]string{nil, {evT15, evOpen, evKA, evUpd1}}
	idx := 0
	for _, cfg := range cfgs {
		cfg := cfg
		for _, root := range roots {
			root := root
			rt := zvSessReplay(cfg, root, false)
			if len(root) > 0 && rt.Obs[len(rt.Obs)-1].State != stateNameEstablished {
				r.Fatalf("root history %v does not reach Established (%s)", root, rt.Obs[len(rt.Obs)-1].State)
			}
			for _, e1 := range rt.Enabled {
				idx++
				if !r.Mine(idx) {
					continue
				}
				e1 := e1
				b := vh.BFS[string]{R: r, MaxDepth: depth - 1, Label: fmt.Sprintf("%s/root%d/%s", cfg.Name, len(root), e1), Step: func(h []string) (string, []string, bool) {
					hist := append(append(append([]string{}, root...), e1), h...)
					tr := zvSessReplay(cfg, hist, false)
					ok := zvC07Check(r, cfg, hist, tr)
					r.Eval(1)
					return tr.Canon, tr.Enabled, ok && tr.Status == vsched.Completed
				}}
				b.Explore()
			}
		}
		r.Nontrivial(1)
	}
	zvC07Concurrent(r, idx)
}
