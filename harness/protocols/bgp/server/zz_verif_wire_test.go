package server

// Independent BGP wire builder and parser used by the session-level harnesses.
// Nothing here calls the repo's packet package: inputs sent by the modelled
// remote speaker are built byte by byte, and what bio-rd writes is parsed by
// this reference parser (RFC 4271 / 4760 / 7911 / 6793 formats).

import (
	"encoding/binary"
	"fmt"
	"sort"
	"strings"
)

func zvwHeader(typ byte, body []byte) []byte {
	b := make([]byte, 19, 19+len(body))
	for i := 0; i < 16; i++ {
		b[i] = 0xff
	}
	binary.BigEndian.PutUint16(b[16:], uint16(19+len(body)))
	b[18] = typ
	return append(b, body...)
}

func zvwKeepalive() []byte { return zvwHeader(4, nil) }

func zvwNotification(code, sub byte) []byte { return zvwHeader(3, []byte{code, sub}) }

// zvwCap is one capability (code, value).
type zvwCap struct {
	Code byte
	Val  []byte
}

func zvwCapMP(afi uint16, safi byte) zvwCap {
	return zvwCap{1, []byte{byte(afi >> 8), byte(afi), 0, safi}}
}
func zvwCapASN4(asn uint32) zvwCap {
	v := make([]byte, 4)
	binary.BigEndian.PutUint32(v, asn)
	return zvwCap{65, v}
}
func zvwCapAddPath(afi uint16, safi, sr byte) zvwCap {
	return zvwCap{69, []byte{byte(afi >> 8), byte(afi), safi, sr}}
}
func zvwCapRole(role byte) zvwCap { return zvwCap{9, []byte{role}} }

type zvwOpen struct {
	Version byte
	AS      uint16
	Hold    uint16
	ID      uint32
	Caps    []zvwCap
	// RawParams, if set, replaces the optional parameters
	RawParams []byte
	// Pack: "" = all capabilities in one Capabilities optional parameter; "split" = one parameter per capability
	// (RFC 5492 allows both); "split-rev" = one per capability, in reverse order
	Pack string
}

func (o zvwOpen) bytes() []byte {
	body := []byte{o.Version, byte(o.AS >> 8), byte(o.AS), byte(o.Hold >> 8), byte(o.Hold), byte(o.ID >> 24), byte(o.ID >> 16), byte(o.ID >> 8), byte(o.ID)}
	params := o.RawParams
	if params == nil && len(o.Caps) > 0 && o.Pack != "" {
		cs := append([]zvwCap{}, o.Caps...)
		if o.Pack == "split-rev" {
			for i, j := 0, len(cs)-1; i < j; i, j = i+1, j-1 {
				cs[i], cs[j] = cs[j], cs[i]
			}
		}
		for _, c := range cs {
			params = append(params, 2, byte(2+len(c.Val)), c.Code, byte(len(c.Val)))
			params = append(params, c.Val...)
		}
	}
	if params == nil && len(o.Caps) > 0 {
		var caps []byte
		for _, c := range o.Caps {
			caps = append(caps, c.Code, byte(len(c.Val)))
			caps = append(caps, c.Val...)
		}
		params = append([]byte{2, byte(len(caps))}, caps...)
	}
	body = append(body, byte(len(params)))
	body = append(body, params...)
	return zvwHeader(1, body)
}

// zvwPrefix is an NLRI entry.
type zvwPrefix struct {
	PathID uint32 // used when addPath
	Len    byte
	Addr   []byte // full address bytes (4 or 16); truncated to the needed octets
}

func zvwNLRI(ps []zvwPrefix, addPath bool) []byte {
	var b []byte
	for _, p := range ps {
		if addPath {
			b = append(b, byte(p.PathID>>24), byte(p.PathID>>16), byte(p.PathID>>8), byte(p.PathID))
		}
		b = append(b, p.Len)
		n := (int(p.Len) + 7) / 8
		if n > len(p.Addr) {
			n = len(p.Addr)
		}
		b = append(b, p.Addr[:n]...)
	}
	return b
}

// zvwAttr is a raw path attribute.
type zvwAttr struct {
	Flags byte
	Type  byte
	Val   []byte
}

func (a zvwAttr) bytes() []byte {
	if len(a.Val) > 255 || a.Flags&0x10 != 0 {
		return append([]byte{a.Flags | 0x10, a.Type, byte(len(a.Val) >> 8), byte(len(a.Val))}, a.Val...)
	}
	return append([]byte{a.Flags, a.Type, byte(len(a.Val))}, a.Val...)
}

func zvwOrigin(o byte) zvwAttr { return zvwAttr{0x40, 1, []byte{o}} }
func zvwASPath(asn4 bool, asns ...uint32) zvwAttr {
	if len(asns) == 0 {
		return zvwAttr{0x40, 2, nil}
	}
	v := []byte{2, byte(len(asns))}
	for _, a := range asns {
		if asn4 {
			v = append(v, byte(a>>24), byte(a>>16), byte(a>>8), byte(a))
		} else {
			v = append(v, byte(a>>8), byte(a))
		}
	}
	return zvwAttr{0x40, 2, v}
}
func zvwNextHop(a, b, c, d byte) zvwAttr { return zvwAttr{0x40, 3, []byte{a, b, c, d}} }
func zvwU32Attr(flags, typ byte, v uint32) zvwAttr {
	return zvwAttr{flags, typ, []byte{byte(v >> 24), byte(v >> 16), byte(v >> 8), byte(v)}}
}
func zvwMED(v uint32) zvwAttr       { return zvwU32Attr(0x80, 4, v) }
func zvwLocalPref(v uint32) zvwAttr { return zvwU32Attr(0x40, 5, v) }
func zvwMPReach(afi uint16, safi byte, nh []byte, nlri []byte) zvwAttr {
	v := []byte{byte(afi >> 8), byte(afi), safi, byte(len(nh))}
	v = append(v, nh...)
	v = append(v, 0)
	v = append(v, nlri...)
	return zvwAttr{0x80, 14, v}
}
func zvwMPUnreach(afi uint16, safi byte, nlri []byte) zvwAttr {
	return zvwAttr{0x80, 15, append([]byte{byte(afi >> 8), byte(afi), safi}, nlri...)}
}

func zvwUpdate(withdrawn []byte, attrs []zvwAttr, nlri []byte) []byte {
	var ab []byte
	for _, a := range attrs {
		ab = append(ab, a.bytes()...)
	}
	body := []byte{byte(len(withdrawn) >> 8), byte(len(withdrawn))}
	body = append(body, withdrawn...)
	body = append(body, byte(len(ab)>>8), byte(len(ab)))
	body = append(body, ab...)
	body = append(body, nlri...)
	return zvwHeader(2, body)
}

// ---------------------------------------------------------------------------
// reference parser for what bio-rd writes

type zvMsg struct {
	Type   byte
	Len    int
	Raw    []byte
	// NOTIFICATION
	Code, Sub byte
	// OPEN
	Open *zvwOpen
	// UPDATE
	Withdrawn []zvRoute
	Announced []zvRoute
	Attrs     map[byte][]byte // type -> value bytes (flags in AttrFlags)
	AttrFlags map[byte]byte
	EOR       bool
	Err       string
}

type zvRoute struct {
	AFI    uint16
	PathID uint32
	Prefix string // "bits/len" canonical textual form "a.b.c.d/len" or hex for v6
}

func (r zvRoute) key() string { return fmt.Sprintf("%d:%s#%d", r.AFI, r.Prefix, r.PathID) }

func zvParseNLRI(b []byte, afi uint16, addPath bool) ([]zvRoute, error) {
	var out []zvRoute
	max := 32
	if afi == 2 {
		max = 128
	}
	for len(b) > 0 {
		var r zvRoute
		r.AFI = afi
		if addPath {
			if len(b) < 4 {
				return out, fmt.Errorf("truncated path id")
			}
			r.PathID = binary.BigEndian.Uint32(b)
			b = b[4:]
		}
		if len(b) < 1 {
			return out, fmt.Errorf("truncated nlri")
		}
		l := int(b[0])
		n := (l + 7) / 8
		if l > max || len(b) < 1+n {
			return out, fmt.Errorf("bad nlri length %d", l)
		}
		addr := make([]byte, max/8)
		copy(addr, b[1:1+n])
		if afi == 1 {
			r.Prefix = fmt.Sprintf("%d.%d.%d.%d/%d", addr[0], addr[1], addr[2], addr[3], l)
		} else {
			r.Prefix = fmt.Sprintf("%x/%d", addr, l)
		}
		out = append(out, r)
		b = b[1+n:]
	}
	return out, nil
}

// zvParseStream splits a byte stream into messages and parses each.
func zvParseStream(b []byte, addPath4, addPath6 bool) []zvMsg {
	var out []zvMsg
	for len(b) > 0 {
		m := zvMsg{}
		if len(b) < 19 {
			m.Err = "short header"
			m.Raw = b
			out = append(out, m)
			break
		}
		l := int(binary.BigEndian.Uint16(b[16:]))
		m.Type = b[18]
		m.Len = l
		for i := 0; i < 16; i++ {
			if b[i] != 0xff {
				m.Err = "bad marker"
			}
		}
		if l < 19 || l > len(b) {
			m.Err = fmt.Sprintf("bad length %d (have %d)", l, len(b))
			m.Raw = b
			out = append(out, m)
			break
		}
		if l > 4096 {
			m.Err = fmt.Sprintf("message of %d bytes exceeds 4096", l)
		}
		m.Raw = b[:l]
		body := b[19:l]
		switch m.Type {
		case 1:
			if len(body) >= 10 {
				m.Open = &zvwOpen{Version: body[0], AS: binary.BigEndian.Uint16(body[1:]), Hold: binary.BigEndian.Uint16(body[3:]), ID: binary.BigEndian.Uint32(body[5:])}
			} else {
				m.Err = "short open"
			}
		case 3:
			if len(body) >= 2 {
				m.Code, m.Sub = body[0], body[1]
			} else {
				m.Err = "short notification"
			}
		case 2:
			zvParseUpdate(&m, body, addPath4, addPath6)
		case 4:
			if len(body) != 0 {
				m.Err = "keepalive with body"
			}
		default:
			m.Err = "unknown type"
		}
		out = append(out, m)
		b = b[l:]
	}
	return out
}

func zvParseUpdate(m *zvMsg, body []byte, addPath4, addPath6 bool) {
	m.Attrs, m.AttrFlags = map[byte][]byte{}, map[byte]byte{}
	if len(body) < 4 {
		m.Err = "short update"
		return
	}
	wl := int(binary.BigEndian.Uint16(body))
	if 2+wl+2 > len(body) {
		m.Err = "withdrawn length overruns"
		return
	}
	w, err := zvParseNLRI(body[2:2+wl], 1, addPath4)
	if err != nil {
		m.Err = "withdrawn: " + err.Error()
		return
	}
	m.Withdrawn = w
	al := int(binary.BigEndian.Uint16(body[2+wl:]))
	if 2+wl+2+al > len(body) {
		m.Err = "attribute length overruns"
		return
	}
	ab := body[4+wl : 4+wl+al]
	for len(ab) > 0 {
		if len(ab) < 3 {
			m.Err = "truncated attribute header"
			return
		}
		flags, typ := ab[0], ab[1]
		var l, h int
		if flags&0x10 != 0 {
			if len(ab) < 4 {
				m.Err = "truncated attribute header"
				return
			}
			l, h = int(binary.BigEndian.Uint16(ab[2:])), 4
		} else {
			l, h = int(ab[2]), 3
		}
		if h+l > len(ab) {
			m.Err = fmt.Sprintf("attribute %d length %d overruns", typ, l)
			return
		}
		if _, dup := m.Attrs[typ]; dup {
			m.Err = fmt.Sprintf("duplicate attribute %d", typ)
			return
		}
		m.Attrs[typ] = ab[h : h+l]
		m.AttrFlags[typ] = flags
		ab = ab[h+l:]
	}
	n, err := zvParseNLRI(body[4+wl+al:], 1, addPath4)
	if err != nil {
		m.Err = "nlri: " + err.Error()
		return
	}
	m.Announced = n
	if v, ok := m.Attrs[14]; ok {
		if len(v) < 5 {
			m.Err = "short mp_reach"
			return
		}
		afi := binary.BigEndian.Uint16(v)
		nhl := int(v[3])
		if 4+nhl+1 > len(v) {
			m.Err = "mp_reach next hop overruns"
			return
		}
		ap := addPath6
		if afi == 1 {
			ap = addPath4
		}
		rs, err := zvParseNLRI(v[4+nhl+1:], afi, ap)
		if err != nil {
			m.Err = "mp_reach: " + err.Error()
			return
		}
		m.Announced = append(m.Announced, rs...)
	}
	if v, ok := m.Attrs[15]; ok {
		if len(v) < 3 {
			m.Err = "short mp_unreach"
			return
		}
		afi := binary.BigEndian.Uint16(v)
		ap := addPath6
		if afi == 1 {
			ap = addPath4
		}
		rs, err := zvParseNLRI(v[3:], afi, ap)
		if err != nil {
			m.Err = "mp_unreach: " + err.Error()
			return
		}
		m.Withdrawn = append(m.Withdrawn, rs...)
		if len(v) == 3 && len(m.Attrs) == 1 {
			m.EOR = true
		}
	}
	if len(body) == 4 && wl == 0 && al == 0 {
		m.EOR = true
	}
}

// zvAttrDigest renders the attributes relevant for comparing "the same path".
func (m *zvMsg) attrDigest() string {
	var ks []int
	for k := range m.Attrs {
		if k == 14 || k == 15 {
			continue
		}
		ks = append(ks, int(k))
	}
	sort.Ints(ks)
	var sb strings.Builder
	for _, k := range ks {
		fmt.Fprintf(&sb, "%d=%x;", k, m.Attrs[byte(k)])
	}
	if v, ok := m.Attrs[14]; ok && len(v) >= 4 {
		nhl := int(v[3])
		if 4+nhl <= len(v) {
			fmt.Fprintf(&sb, "mpnh=%x;", v[4:4+nhl])
		}
	}
	return sb.String()
}

func sortSlice(idx []int, less func(a, b int) bool) {
	sort.Slice(idx, func(i, j int) bool { return less(idx[i], idx[j]) })
}
