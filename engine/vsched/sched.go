// Package vsched is the virtual runtime of the /verif machinery (engine E2): a
// cooperative, CHESS-style scheduler. Exactly one managed goroutine ("thread")
// runs at a time; it runs until its next visible operation, where it parks and
// the controller (running on the goroutine that called Exec) decides who goes
// next. Instrumented repo packages reach it through the shims vsync, vtime,
// vcontext and the rewritten channel/select/go statements.
//
// A schedule is the list of choice indices taken at the choice points of one
// execution; it is the replay artefact. Options at a choice point are in
// canonical order: the thread that ran last first (if still enabled), then the
// other enabled threads by ascending id (a select with several ready cases
// contributes one option per ready case), then the environment's timer action.
// Option 0 is "no deviation".
package vsched

import (
	"fmt"
	"runtime"
	"sort"
	"strings"
	"time"
)

type opKind int

const (
	opStart opKind = iota
	opYield
	opLock
	opRLock
	opWLockAnnounce
	opWLockAcquire
	opSend
	opRecv
	opSelect
	opClose
	opWait
	opSleep
	opSettle
	opJoin
	opIO
)

var opNames = [...]string{"start", "yield", "Lock", "RLock", "Lock(announce)", "Lock(acquire)", "send", "recv", "select", "close", "Wait", "Sleep", "settle", "join", "io"}

// Op is a visible operation a thread is parked at.
type Op struct {
	kind    opKind
	desc    string
	site    string
	obj     OpObj       // shim object deciding enabledness / applying the effect (no closures: closures cannot be //go:norace)
	fn      func() bool // harness-supplied enabledness (harness code synchronises its own state)
	applyFn func()
	joinOn  []*thread
	timer   *vtimer
	// select
	cases      []SelCase
	hasDefault bool
	selected   int
	resolved   bool // completed by a rendezvous partner; only needs to be scheduled
}

// OpObj is implemented by shim objects (mutexes, wait groups, ...).
type OpObj interface {
	OpEnabled(kind int) bool
	OpApply(kind int)
}

type thread struct {
	id       int
	name     string
	wake     chan struct{}
	pending  *Op
	done     bool
	crashed  bool
	finished bool // returned normally (not unwound by teardown or a panic)
}

// Status of one execution.
type Status int

const (
	Completed Status = iota
	Deadlock         // main thread not finished and nothing is enabled
	Crash            // a panic escaped from code under test in a managed goroutine
	Horizon          // step horizon hit
	Diverged         // replayed prefix did not fit (harness error)
)

//go:norace
func (s Status) String() string {
	return [...]string{"completed", "deadlock", "crash", "horizon", "diverged"}[s]
}

// Point is one recorded choice point.
type Point struct {
	N      int   // number of options
	Costs  []int // deviation cost of each option
	Chosen int
	Fprint string // fingerprint of the options (thread/op kinds), for divergence detection
}

// Execution is the record of one run.
type Execution struct {
	Status     Status
	Points     []Point
	Choices    []int
	Steps      int
	Crash      string
	Blocked    string   // description of blocked threads at the end (deadlock diagnosis)
	BlockedIn  []string // sorted distinct functions in which non-main threads are blocked
	Log        []string
	DivergeMsg string
}

// Config of one execution.
type Config struct {
	Prefix       []int         // choices to replay; afterwards option 0
	MaxSteps     int           // step horizon (default 20000)
	AutoTimers   bool          // offer "fire next awaited timer" as an environment action
	Horizon      time.Duration // AutoTimers only fire deadlines <= start+Horizon
	Trace        bool          // record a human readable log
	Sites        bool          // record call sites of operations (slower)
	Fingerprints []string      // expected fingerprints for the prefix (optional)
	// StrictDeviations: every option other than option 0 costs one deviation, also the "free" choice of which
	// thread continues when the running one blocks. Used for scenarios with many background goroutines, where
	// the number of free context switches alone makes preemption bounding explode.
	StrictDeviations bool
}

type sched struct {
	cfg      Config
	threads  []*thread
	cur      *thread
	last     *thread
	ctl      chan struct{}
	aborting bool
	exec     *Execution
	now      time.Time
	start    time.Time
	timers   []*vtimer
	timerSeq int
	// (no Go maps in the scheduler's own state: the runtime's map functions are race-instrumented regardless of //go:norace)
	chanKeys []uintptr
	chanVals []*chanState
	keyList  []any
	steps    int
	quiet    bool // choice points are not recorded/explored (deterministic set-up phases take option 0)
}

// S is the current execution (nil outside Exec).
var cur *sched

type abortSentinel struct{}

// Active reports whether a controlled execution is in progress.
//
//go:norace
func Active() bool { return cur != nil }

var epoch = time.Date(2030, 1, 1, 0, 0, 0, 0, time.UTC)

// Exec runs body as the main thread of a fresh controlled execution.
//
//go:norace
func Exec(cfg Config, body func()) *Execution {
	if cur != nil {
		panic("vsched: nested Exec")
	}
	if cfg.MaxSteps == 0 {
		cfg.MaxSteps = 20000
	}
	s := &sched{cfg: cfg, ctl: make(chan struct{}), exec: &Execution{}, now: epoch, start: epoch}
	cur = s
	defer clearCur()
	s.spawn("main", body)
	s.loop()
	s.teardown()
	// everything this execution's goroutines did happens-before whatever the next execution does (global caches
	// survive executions; without this edge the race detector would pair accesses of different executions)
	for _, t := range s.threads {
		raceAcquireExit(t)
	}
	s.exec.Steps = s.steps
	return s.exec
}

//go:norace
func clearCur() { cur = nil }

//go:norace
func (s *sched) spawn(name string, f func()) *thread {
	t := &thread{id: len(s.threads), name: name, wake: make(chan struct{})}
	t.pending = &Op{kind: opStart, desc: "start"}
	s.threads = append(s.threads, t)
	go s.threadMain(t, f)
	return t
}

//go:norace
func (s *sched) threadMain(t *thread, f func()) {
	raceDisable()
	<-t.wake
	raceEnable()
	defer s.threadExit(t)
	if s.aborting {
		return
	}
	f()
	t.finished = true
}

// threadExit is the deferred epilogue of every managed goroutine.
//
//go:norace
func (s *sched) threadExit(t *thread) {
	if e := recover(); e != nil {
		if _, ok := e.(abortSentinel); !ok && !s.aborting {
			t.crashed = true
			buf := make([]byte, 8192)
			buf = buf[:runtime.Stack(buf, false)]
			s.exec.Crash = fmt.Sprintf("panic in thread %d (%s): %v\n%s", t.id, t.name, e, buf)
		}
	}
	raceReleaseExit(t)
	t.done = true
	t.pending = nil
	raceDisable()
	s.ctl <- struct{}{}
	raceEnable()
}

// do parks the calling (current) thread at op and returns once it was granted.
//
//go:norace
func (s *sched) do(op *Op) {
	if s.aborting {
		panic(abortSentinel{})
	}
	t := s.cur
	if s.cfg.Sites {
		op.site = callSite()
	}
	t.pending = op
	raceDisable()
	s.ctl <- struct{}{}
	<-t.wake
	raceEnable()
	if s.aborting {
		panic(abortSentinel{})
	}
}

//go:norace
func callSite() string {
	pcs := make([]uintptr, 12)
	n := runtime.Callers(3, pcs)
	fr := runtime.CallersFrames(pcs[:n])
	for {
		f, more := fr.Next()
		if !strings.Contains(f.File, "/zzverif/") && !strings.Contains(f.File, "/verif/engine/") {
			file := f.File
			if i := strings.LastIndex(file, "/"); i >= 0 {
				if j := strings.LastIndex(file[:i], "/"); j >= 0 {
					file = file[j+1:]
				}
			}
			fn := f.Function
			if i := strings.LastIndex(fn, "/"); i >= 0 {
				fn = fn[i+1:]
			}
			return fmt.Sprintf("%s:%d %s", file, f.Line, fn)
		}
		if !more {
			return "?"
		}
	}
}

type option struct {
	t    *thread
	sel  int  // select case index (or -1)
	env  bool // environment timer action
	cost int
}

//go:norace
func (s *sched) opEnabled(op *Op) bool {
	switch op.kind {
	case opSend, opRecv:
		return op.cases[0].ready()
	case opJoin:
		for _, t := range op.joinOn {
			if !t.done {
				return false
			}
		}
		return true
	case opSleep:
		return op.timer.fired
	}
	if op.obj != nil {
		return op.obj.OpEnabled(int(op.kind))
	}
	if op.fn != nil {
		return op.fn()
	}
	return true
}

//go:norace
func (s *sched) opApply(op *Op) {
	switch op.kind {
	case opSend, opRecv:
		op.cases[0].fire()
		return
	}
	if op.obj != nil {
		op.obj.OpApply(int(op.kind))
	}
	if op.applyFn != nil {
		op.applyFn()
	}
}

//go:norace
func (s *sched) addOptions(opts []option, t *thread) []option {
	op := t.pending
	if op == nil || t.done {
		return opts
	}
	if op.resolved {
		return append(opts, option{t: t, sel: -3})
	}
	if op.kind == opSelect {
		n := 0
		for i := range op.cases {
			if op.cases[i].ready() {
				opts = append(opts, option{t: t, sel: i})
				n++
			}
		}
		if n == 0 && op.hasDefault {
			opts = append(opts, option{t: t, sel: -1})
		}
		return opts
	}
	if s.opEnabled(op) {
		opts = append(opts, option{t: t, sel: -2})
	}
	return opts
}

//go:norace
func (s *sched) options() []option {
	var opts []option
	// settle/join ops are evaluated last: they depend on the others being disabled
	var late []*thread
	first := s.last
	if first != nil && first.pending != nil && (first.pending.kind == opSettle) {
		first = nil
	}
	if first != nil {
		opts = s.addOptions(opts, first)
	}
	lastEnabled := len(opts) > 0
	for _, t := range s.threads {
		if t == first {
			continue
		}
		if t.pending != nil && t.pending.kind == opSettle {
			late = append(late, t)
			continue
		}
		opts = s.addOptions(opts, t)
	}
	if s.cfg.AutoTimers {
		if _, ok := s.nextAwaitedTimer(); ok {
			opts = append(opts, option{env: true})
		}
	}
	if len(opts) == 0 || (len(opts) == 1 && opts[0].env) {
		// nothing but the environment can move: threads waiting for quiescence may go on
		var o2 []option
		for _, t := range late {
			o2 = append(o2, option{t: t, sel: -2})
		}
		opts = append(o2, opts...)
		lastEnabled = false
	}
	// costs: switching away from a still-enabled running thread is a preemption;
	// a non-first ready select case of the same thread is a deviation too.
	for i := range opts {
		o := &opts[i]
		switch {
		case i == 0:
			o.cost = 0
		case lastEnabled:
			o.cost = 1
		default:
			// free switch, but choosing a later ready case of the same select as an earlier option costs
			if !o.env && i > 0 && opts[i-1].t == o.t {
				o.cost = 1
			}
			if s.cfg.StrictDeviations {
				o.cost = 1
			}
		}
	}
	return opts
}

//go:norace
func (s *sched) fingerprint(opts []option) string {
	var b strings.Builder
	for _, o := range opts {
		if o.env {
			b.WriteString("env;")
			continue
		}
		fmt.Fprintf(&b, "%d:%s:%d;", o.t.id, opNames[o.t.pending.kind], o.sel)
	}
	return b.String()
}

//go:norace
func (s *sched) loop() {
	main := s.threads[0]
	for {
		if main.done {
			if s.exec.Crash != "" {
				s.exec.Status = Crash
			} else {
				s.exec.Status = Completed
			}
			return
		}
		if s.exec.Crash != "" {
			s.exec.Status = Crash
			return
		}
		if s.steps >= s.cfg.MaxSteps {
			s.exec.Status = Horizon
			s.exec.Blocked = s.describe()
			return
		}
		opts := s.options()
		if len(opts) == 0 {
			s.exec.Status = Deadlock
			s.exec.Blocked = s.describe()
			return
		}
		choice := 0
		idx := len(s.exec.Points)
		fp := s.fingerprint(opts)
		if len(opts) > 1 && !s.quiet {
			if idx < len(s.cfg.Prefix) {
				choice = s.cfg.Prefix[idx]
				if choice < 0 || choice >= len(opts) {
					s.exec.Status = Diverged
					s.exec.DivergeMsg = fmt.Sprintf("choice point %d: recorded choice %d but only %d options (%s)", idx, choice, len(opts), fp)
					return
				}
				if idx < len(s.cfg.Fingerprints) && s.cfg.Fingerprints[idx] != fp {
					s.exec.Status = Diverged
					s.exec.DivergeMsg = fmt.Sprintf("choice point %d: options %q differ from the recorded %q", idx, fp, s.cfg.Fingerprints[idx])
					return
				}
			}
			costs := make([]int, len(opts))
			for i := range opts {
				costs[i] = opts[i].cost
			}
			s.exec.Points = append(s.exec.Points, Point{N: len(opts), Costs: costs, Chosen: choice, Fprint: fp})
			s.exec.Choices = append(s.exec.Choices, choice)
		}
		o := opts[choice]
		s.steps++
		if o.env {
			s.fireNext()
			if s.cfg.Trace {
				s.exec.Log = append(s.exec.Log, fmt.Sprintf("env: advance clock to +%v", s.now.Sub(s.start)))
			}
			continue
		}
		t := o.t
		op := t.pending
		if op.resolved {
			// nothing to apply
		} else if op.kind == opSelect {
			op.selected = o.sel
			if o.sel >= 0 {
				op.cases[o.sel].fire()
			}
		} else {
			s.opApply(op)
		}
		if s.cfg.Trace {
			d := op.desc
			if op.kind == opSelect {
				d = fmt.Sprintf("select -> case %d", o.sel)
			}
			s.exec.Log = append(s.exec.Log, fmt.Sprintf("T%d(%s) %s %s", t.id, t.name, d, op.site))
		}
		t.pending = nil
		s.cur, s.last = t, t
		raceDisable()
		t.wake <- struct{}{}
		<-s.ctl
		raceEnable()
		s.cur = nil
	}
}

//go:norace
func (s *sched) describe() string {
	var b strings.Builder
	var fns []string
	for _, t := range s.threads {
		if t.done {
			continue
		}
		if t.pending != nil && t.id != 0 {
			if i := strings.Index(t.pending.site, " "); i >= 0 {
				f := opNames[t.pending.kind] + "@" + t.pending.site[i+1:]
				dup := false
				for _, x := range fns {
					dup = dup || x == f
				}
				if !dup {
					fns = append(fns, f)
				}
			}
		}
		d := "running"
		if t.pending != nil {
			d = "blocked at " + t.pending.desc
			if t.pending.site != "" {
				d += " (" + t.pending.site + ")"
			}
		}
		fmt.Fprintf(&b, "T%d(%s): %s; ", t.id, t.name, d)
	}
	sort.Strings(fns)
	s.exec.BlockedIn = fns
	return b.String()
}

// teardown makes every leftover goroutine unwind and exit.
//
//go:norace
func (s *sched) teardown() {
	s.aborting = true
	for _, t := range s.threads {
		if t.done {
			continue
		}
		s.cur = t
		raceDisable()
		t.wake <- struct{}{}
		<-s.ctl
		raceEnable()
	}
	s.cur = nil
}

// ---------------------------------------------------------------------------
// API for shims and harnesses

//go:norace
func must() *sched {
	if cur == nil {
		panic("vsched: blocking operation outside a controlled execution")
	}
	return cur
}

// Do parks the current thread at a visible operation. Outside a controlled
// execution the operation is applied at once (it must be enabled).
//
//go:norace
func DoObj(kind int, desc string, obj OpObj) {
	if cur == nil {
		if obj != nil {
			if !obj.OpEnabled(kind) {
				panic("vsched: operation would block outside a controlled execution: " + desc)
			}
			obj.OpApply(kind)
		}
		return
	}
	if cur.aborting {
		panic(abortSentinel{})
	}
	cur.do(&Op{kind: opKind(kind), desc: desc, obj: obj})
}

// Do is the closure flavour for harness code (fake connections etc.): enabled is evaluated by the controller and
// apply runs when the operation is granted; whatever they touch must be synchronised by the harness itself when the
// race detector is on.
//
//go:norace
func Do(kind int, desc string, enabled func() bool, apply func()) {
	if cur == nil {
		if !enabled() {
			panic("vsched: operation would block outside a controlled execution: " + desc)
		}
		if apply != nil {
			apply()
		}
		return
	}
	if cur.aborting {
		panic(abortSentinel{})
	}
	cur.do(&Op{kind: opKind(kind), desc: desc, fn: enabled, applyFn: apply})
}

// DoFn is Do for harness code: enabled is evaluated by the controller, so whatever it reads must be synchronised
// by the harness itself (e.g. a real mutex inside the fake connection) when the race detector is on.
//
//go:norace
func DoFn(kind int, desc string, enabled func() bool) {
	if cur == nil {
		if !enabled() {
			panic("vsched: operation would block outside a controlled execution: " + desc)
		}
		return
	}
	if cur.aborting {
		panic(abortSentinel{})
	}
	cur.do(&Op{kind: opKind(kind), desc: desc, fn: enabled})
}

// Operation kinds usable by shims.
const (
	KLock          = int(opLock)
	KRLock         = int(opRLock)
	KWLockAnnounce = int(opWLockAnnounce)
	KWLockAcquire  = int(opWLockAcquire)
	KWait          = int(opWait)
	KIO            = int(opIO)
	KYield         = int(opYield)
)

// Aborting is true while leftover goroutines are being unwound; shim release
// operations (Unlock, Done) must then be silent no-ops.
//
//go:norace
func Aborting() bool { return cur != nil && cur.aborting }

// Yield is an explicit scheduling point.
//
//go:norace
func Yield() {
	if cur == nil {
		return
	}
	cur.do(&Op{kind: opYield, desc: "yield"})
}

// Handle identifies a spawned thread.
type Handle struct{ t *thread }

// Done tells whether the thread's function has returned.
//
//go:norace
func (h Handle) Done() bool { return h.t.finished }

// Go starts f as a managed thread. Outside a controlled execution it is a plain goroutine.
//
//go:norace
func Go(f func()) Handle {
	return GoNamed("go", f)
}

// GoNamed is Go with a thread name for diagnostics.
//
//go:norace
func GoNamed(name string, f func()) Handle {
	if cur == nil {
		go f()
		return Handle{&thread{done: false}}
	}
	if cur.aborting {
		panic(abortSentinel{})
	}
	s := cur
	t := s.spawn(name, f)
	return Handle{t}
}

// Settle blocks the calling thread until no other thread can make progress
// (timers excluded).
//
//go:norace
func Settle() {
	s := must()
	s.do(&Op{kind: opSettle, desc: "settle"})
}

// Join blocks until all given threads have finished. If they cannot finish it
// blocks forever (a deadlock the controller will report).
//
//go:norace
func Join(hs ...Handle) {
	s := must()
	op := &Op{kind: opJoin, desc: "join"}
	for _, h := range hs {
		op.joinOn = append(op.joinOn, h.t)
	}
	s.do(op)
	for _, h := range hs {
		raceAcquireExit(h.t)
	}
}

// SetExploring switches the recording of choice points on or off. A harness
// turns it off while it builds its fixture (the default option is taken at
// every point, which is deterministic) and on for the scenario proper, so that
// the schedule space explored is that of the scenario only.
//
//go:norace
func SetExploring(on bool) {
	if cur != nil {
		cur.quiet = !on
	}
}

// Describe lists what every unfinished thread is blocked at.
//
//go:norace
func Describe() string {
	if cur == nil {
		return ""
	}
	return cur.describe()
}

// ThreadInfo describes one unfinished managed goroutine (see Threads).
type ThreadInfo struct {
	ID      int
	Name    string
	Blocked string // description of the operation it is parked at ("" = running)
	Site    string // call site of that operation (needs Config.Sites)
}

// Threads lists the managed goroutines that have not finished, in creation order (leak oracles:
// compare the IDs with a snapshot taken earlier).
//
//go:norace
func Threads() []ThreadInfo {
	if cur == nil {
		return nil
	}
	var out []ThreadInfo
	for _, t := range cur.threads {
		if t.done {
			continue
		}
		ti := ThreadInfo{ID: t.id, Name: t.name}
		if t.pending != nil {
			ti.Blocked, ti.Site = t.pending.desc, t.pending.site
		}
		out = append(out, ti)
	}
	return out
}

// Logf appends to the execution log when tracing.
//
//go:norace
func Logf(format string, a ...any) {
	if cur != nil && cur.cfg.Trace {
		cur.exec.Log = append(cur.exec.Log, fmt.Sprintf(format, a...))
	}
}

// ---------------------------------------------------------------------------
// deterministic identity for map keys

// KeyID gives k a deterministic small integer (first-touch order within the execution).
//
//go:norace
func KeyID(k any) int {
	if cur == nil {
		return 0
	}
	for i, x := range cur.keyList {
		if x == k {
			return i + 1
		}
	}
	cur.keyList = append(cur.keyList, k)
	return len(cur.keyList)
}

// SortedKeys returns the keys of m in a canonical order: natural order for
// ints/strings, first-touch order (KeyID) for everything else. The result is a
// legal Go map iteration order.
//
//go:norace
func SortedKeys[K comparable, V any](m map[K]V) []K {
	keys := make([]K, 0, len(m))
	for k := range m {
		keys = append(keys, k)
	}
	if len(keys) < 2 {
		return keys
	}
	switch any(keys[0]).(type) {
	case string, int, int8, int16, int32, int64, uint, uint8, uint16, uint32, uint64:
		for i := 1; i < len(keys); i++ {
			for j := i; j > 0 && lessBasic(any(keys[j]), any(keys[j-1])); j-- {
				keys[j], keys[j-1] = keys[j-1], keys[j]
			}
		}
		return keys
	}
	// keys without identity yet get ids in a value-derived order (best effort), then first-touch order decides
	strs := make([]string, len(keys))
	for i := range keys {
		strs[i] = fmt.Sprintf("%v", keys[i])
	}
	for i := 1; i < len(keys); i++ {
		for j := i; j > 0 && strs[j] < strs[j-1]; j-- {
			keys[j], keys[j-1] = keys[j-1], keys[j]
			strs[j], strs[j-1] = strs[j-1], strs[j]
		}
	}
	if cur == nil {
		return keys
	}
	ids := make([]int, len(keys))
	for i := range keys {
		ids[i] = KeyID(keys[i])
	}
	for i := 1; i < len(keys); i++ {
		for j := i; j > 0 && ids[j] < ids[j-1]; j-- {
			keys[j], keys[j-1] = keys[j-1], keys[j]
			ids[j], ids[j-1] = ids[j-1], ids[j]
		}
	}
	return keys
}

//go:norace
func lessBasic(a, b any) bool {
	switch x := a.(type) {
	case string:
		return x < b.(string)
	case int:
		return x < b.(int)
	case int8:
		return x < b.(int8)
	case int16:
		return x < b.(int16)
	case int32:
		return x < b.(int32)
	case int64:
		return x < b.(int64)
	case uint:
		return x < b.(uint)
	case uint8:
		return x < b.(uint8)
	case uint16:
		return x < b.(uint16)
	case uint32:
		return x < b.(uint32)
	case uint64:
		return x < b.(uint64)
	}
	return false
}

// Touch gives a map key its identity at insertion time.
//
//go:norace
func Touch[K comparable](k K) K {
	switch any(k).(type) {
	case string, int, int8, int16, int32, int64, uint, uint8, uint16, uint32, uint64:
	default:
		KeyID(k)
	}
	return k
}
