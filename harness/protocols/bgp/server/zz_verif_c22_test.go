package server

// C22 — OPEN negotiation admits only valid sessions and negotiates correctly.
// Engine E5 under E2: bounded-exhaustive cross product of (peer OPEN) x (local
// configuration); each case runs the real FSM from OpenSent on an in-memory
// connection under the virtual runtime and is compared with a reference
// negotiation function written from RFC 4271/6793/6286/7911/9234.

import (
	"fmt"
	"testing"
	"time"

	"github.com/bio-routing/bio-rd/zzverif/vh"
	"github.com/bio-routing/bio-rd/zzverif/vsched"
)

type zvC22Local struct {
	IBGP      bool  `json:"ibgp"`
	BigAS     bool  `json:"peer_as_4octet"` // configured peer AS does not fit 16 bits
	HoldS     int   `json:"hold_s"`
	APRecv    bool  `json:"addpath_recv"`
	APSend    bool  `json:"addpath_send"`
	Role      uint8 `json:"role_cfg"` // PeerConfigRole*
	Strict    bool  `json:"role_strict"`
	IPv6      bool  `json:"ipv6_configured,omitempty"`      // the session also carries IPv6 unicast (advertised with the multiprotocol capability)
	MPv4      bool  `json:"ipv4_multiprotocol,omitempty"` // IPv4 unicast is advertised with the multiprotocol capability too
}

type zvC22Remote struct {
	Version byte   `json:"version"`
	AS2     string `json:"as2"`  // cfg | other | trans
	Cap4    string `json:"cap4"` // absent | cfg | other
	ID      string `json:"id"`   // zero | ours | other
	Hold    uint16 `json:"hold"`
	AP      byte   `json:"addpath_sr"` // 0 none, 1 receive, 2 send, 3 both (IPv4 unicast)
	Roles   []byte `json:"roles"`      // role capability values sent (RFC numbering)
	Pack    string `json:"capability_packaging,omitempty"` // "" one Capabilities parameter | split | split-rev (one parameter per capability)
	MP      byte   `json:"multiprotocol_caps,omitempty"`  // bit 0: IPv4 unicast, bit 1: IPv6 unicast multiprotocol capability sent
}

type zvC22Case struct {
	L zvC22Local  `json:"local"`
	R zvC22Remote `json:"remote"`
	// PriorRole >= 0: an earlier session of the same peer was established with this role capability and torn down
	// (start from a non-initial state: per-session negotiation state must not leak into the next session)
	PriorRole int `json:"prior_session_role"`
	// PriorCaps: an earlier session of the same peer was established with an OPEN advertising the 4-octet AS capability,
	// add-path in both directions and the multiprotocol capabilities, and torn down: what was negotiated then must not
	// be in force in the session this case's OPEN negotiates
	PriorCaps bool `json:"prior_session_all_capabilities,omitempty"`
}

const zvBigAS = 4200000009

func (c zvC22Case) cfgPeerAS() uint32 {
	switch {
	case c.L.IBGP:
		return zvLocalAS
	case c.L.BigAS:
		return zvBigAS
	}
	return zvRemoteAS
}

func (c zvC22Case) open() zvwOpen {
	cfg := c.cfgPeerAS()
	o := zvwOpen{Version: c.R.Version, Hold: c.R.Hold}
	switch c.R.AS2 {
	case "cfg":
		o.AS = uint16(cfg) // only used when cfg fits
	case "other":
		o.AS = 64999
	case "trans":
		o.AS = 23456
	}
	switch c.R.Cap4 {
	case "cfg":
		o.Caps = append(o.Caps, zvwCapASN4(cfg))
	case "other":
		o.Caps = append(o.Caps, zvwCapASN4(64998))
	}
	switch c.R.ID {
	case "zero":
		o.ID = 0
	case "ours":
		o.ID = zvRouterID
	default:
		o.ID = 0x09090909
	}
	if c.R.AP != 0 {
		o.Caps = append(o.Caps, zvwCapAddPath(1, 1, c.R.AP))
	}
	if c.R.MP&1 != 0 {
		o.Caps = append(o.Caps, zvwCapMP(1, 1))
	}
	if c.R.MP&2 != 0 {
		o.Caps = append(o.Caps, zvwCapMP(2, 1))
	}
	for _, r := range c.R.Roles {
		o.Caps = append(o.Caps, zvwCapRole(r))
	}
	o.Pack = c.R.Pack
	return o
}

// zvC22Ref is the reference negotiation: (admitted, excluded-from-oracle).
func zvC22Ref(c zvC22Case) (admit bool, demanded bool, why string) {
	cfg := c.cfgPeerAS()
	o := c.open()
	capAS, hasCap := uint32(0), false
	switch c.R.Cap4 {
	case "cfg":
		capAS, hasCap = cfg, true
	case "other":
		capAS, hasCap = 64998, true
	}
	if hasCap && o.AS != 23456 && capAS != uint32(o.AS) {
		return false, false, "2-octet field and 4-octet capability disagree without AS_TRANS: no winner defined"
	}
	if c.R.Version != 4 {
		return false, true, "version"
	}
	eff := uint32(o.AS)
	if o.AS == 23456 && hasCap {
		eff = capAS
	}
	if eff != cfg {
		return false, true, "peer AS"
	}
	if o.ID == 0 {
		return false, true, "identifier zero"
	}
	if c.L.IBGP && o.ID == zvRouterID {
		return false, true, "identifier equals ours on iBGP"
	}
	if c.R.Hold == 1 || c.R.Hold == 2 {
		return false, true, "hold time"
	}
	if !c.L.IBGP && c.L.Role != PeerConfigRoleOff {
		// RFC 9234 numbering: 0 provider, 1 RS, 2 RS-client, 3 customer, 4 peer
		local := map[uint8]byte{PeerConfigRoleProvider: 0, PeerConfigRoleRS: 1, PeerConfigRoleRSClient: 2, PeerConfigRoleCustomer: 3, PeerConfigRolePeer: 4}[c.L.Role]
		distinct := map[byte]bool{}
		for _, r := range c.R.Roles {
			distinct[r] = true
		}
		if len(distinct) > 1 {
			return false, true, "multiple different roles"
		}
		if len(distinct) == 0 {
			if c.L.Strict {
				return false, true, "strict mode without role"
			}
		} else {
			remote := c.R.Roles[0]
			okPair := (local == 0 && remote == 3) || (local == 3 && remote == 0) || (local == 1 && remote == 2) || (local == 2 && remote == 1) || (local == 4 && remote == 4)
			if !okPair {
				return false, true, "role pair"
			}
		}
	}
	return true, true, ""
}

func zvC22Locals(thorough bool) []zvC22Local {
	var ls []zvC22Local
	roles := []struct {
		r uint8
		s bool
	}{{PeerConfigRoleOff, false}, {PeerConfigRoleProvider, false}, {PeerConfigRoleCustomer, true}, {PeerConfigRolePeer, false}, {PeerConfigRoleRS, true}, {PeerConfigRoleRSClient, false}}
	for _, ibgp := range []bool{false, true} {
		for _, big := range []bool{false, true} {
			if ibgp && big {
				continue
			}
			for _, hold := range []int{3, 90} {
				for ap := 0; ap < 4; ap++ {
					for ri, ro := range roles {
						if !thorough {
							// quick: a covering subset of the local configurations
							if (ap == 1 || ap == 2) && ri > 1 {
								continue
							}
							if hold == 90 && ri > 2 {
								continue
							}
						}
						ls = append(ls, zvC22Local{IBGP: ibgp, BigAS: big, HoldS: hold, APRecv: ap&1 != 0, APSend: ap&2 != 0, Role: ro.r, Strict: ro.s})
					}
				}
			}
		}
	}
	// the multiprotocol capability: IPv6 configured or not, IPv4 multiprotocol advertised or not (plain background)
	for _, ibgp := range []bool{false, true} {
		for m := 1; m < 4; m++ {
			ls = append(ls, zvC22Local{IBGP: ibgp, HoldS: 90, Role: PeerConfigRoleOff, IPv6: m&2 != 0, MPv4: m&1 != 0})
		}
	}
	return ls
}

func zvC22Remotes(l zvC22Local, thorough bool) []zvC22Remote {
	var rs []zvC22Remote
	as2s := []string{"cfg", "other", "trans"}
	if l.BigAS {
		as2s = []string{"other", "trans"}
	}
	holds := []uint16{0, 1, 2, 3, 4, 90, 65535}
	roleSets := [][]byte{nil, {0}, {1}, {2}, {3}, {4}, {0, 3}, {4, 4}}
	// three role capabilities, one of them different, in every position (plain background only)
	var roleTriples [][]byte
	for r := byte(0); r < 5; r++ {
		x := (r + 1) % 5
		roleTriples = append(roleTriples, []byte{x, r, r}, []byte{r, x, r}, []byte{r, r, x}, []byte{r, r, r})
	}
	if l.Role == PeerConfigRoleOff || l.IBGP {
		roleSets = [][]byte{nil, {3}}
		roleTriples = nil
	}
	if l.IPv6 || l.MPv4 {
		// the multiprotocol dimension: every combination of the two capabilities x 4-octet capability x packaging
		for _, cap4 := range []string{"absent", "cfg"} {
			for mp := byte(0); mp < 4; mp++ {
				for _, pk := range []string{"", "split"} {
					rs = append(rs, zvC22Remote{Version: 4, AS2: as2s[0], Cap4: cap4, ID: "other", Hold: 90, MP: mp, Pack: pk})
				}
			}
		}
		return rs
	}
	for _, ver := range []byte{4, 3} {
		for _, as2 := range as2s {
			for _, cap4 := range []string{"absent", "cfg", "other"} {
				for _, id := range []string{"zero", "ours", "other"} {
					for _, h := range holds {
						for ap := byte(0); ap < 4; ap++ {
							for _, roles := range roleSets {
								if !thorough {
									// quick: version 3 and the extreme hold times only with the plain background
									if ver == 3 && (ap != 0 || len(roles) != 0 || h != 90) {
										continue
									}
									if (h == 4 || h == 65535) && (ap != 0 || len(roles) != 0) {
										continue
									}
								}
								rs = append(rs, zvC22Remote{Version: ver, AS2: as2, Cap4: cap4, ID: id, Hold: h, AP: ap, Roles: roles})
								if ver == 4 && id == "other" && h == 90 && ap == 0 && len(roles) == 0 {
									for _, tr := range roleTriples {
										rs = append(rs, zvC22Remote{Version: ver, AS2: as2, Cap4: cap4, ID: id, Hold: h, AP: ap, Roles: tr})
									}
								}
								// the same capabilities spread over several Capabilities optional parameters (RFC 5492)
								if ver == 4 && id == "other" && (h == 90 || h == 3) && (len(roles) > 0 || ap != 0) && (cap4 != "absent" || len(roles) > 1 || (len(roles) > 0 && ap != 0)) {
									for _, pk := range []string{"split", "split-rev"} {
										rs = append(rs, zvC22Remote{Version: ver, AS2: as2, Cap4: cap4, ID: id, Hold: h, AP: ap, Roles: roles, Pack: pk})
									}
								}
							}
						}
					}
				}
			}
		}
	}
	return rs
}

type zvC22Result struct {
	State     string
	Notif     string
	NotifCode byte
	Closed    bool
	Hold      time.Duration
	APRX      bool
	APTX      bool
	ASN4      bool
	MP4, MP6  bool // multiprotocol encoding enabled for IPv4 / IPv6 unicast
	Status    vsched.Status
	Crash     string
}

func zvC22Run(c zvC22Case) zvC22Result {
	var res zvC22Result
	x := vsched.Exec(vsched.Config{MaxSteps: 50000}, func() {
		w := zvNewWorld()
		o := zvPeerOpts{Addr: 9, IBGP: c.L.IBGP, Hold: time.Duration(c.L.HoldS) * time.Second, AddPathRX: c.L.APRecv, Role: c.L.Role, RoleStrict: c.L.Strict, IPv6: c.L.IPv6, MPv4: c.L.MPv4}
		if c.L.APSend {
			o.AddPathTX = 2
		}
		pc := w.peerConfig(o)
		pc.PeerAS = c.cfgPeerAS()
		if err := w.srv.AddPeer(pc); err != nil {
			panic(err)
		}
		p := w.srv.peers.get(w.vrf, zvPeerIP(o))
		conn := w.activeConnect()
		if conn == nil {
			panic("no connection dialled")
		}
		if c.PriorRole >= 0 || c.PriorCaps {
			first := c
			first.R = zvC22Remote{Version: 4, AS2: "cfg", Cap4: "cfg", ID: "other", Hold: 90}
			if c.PriorRole >= 0 {
				first.R.Roles = []byte{byte(c.PriorRole)}
			}
			if c.PriorCaps {
				first.R.AP, first.R.MP = 3, 3
			}
			if c.L.BigAS {
				first.R.AS2 = "trans"
			}
			conn.deliver(first.open().bytes())
			vsched.Settle()
			conn.deliver(zvwKeepalive())
			vsched.Settle()
			if zvFSMState(p.fsms[0]) != stateNameEstablished {
				res.State = "prior-session-not-established"
				return
			}
			conn.deliver(zvwNotification(6, 4))
			vsched.Settle()
			conn = w.activeConnect()
			if conn == nil {
				panic("no second connection dialled")
			}
		}
		conn.take()
		conn.deliver(c.open().bytes())
		vsched.Settle()
		if !conn.closed {
			conn.deliver(zvwKeepalive())
			vsched.Settle()
		}
		f := p.fsms[0]
		res.State = zvFSMState(f)
		res.Closed = conn.closed
		for _, m := range zvParseStream(conn.take(), false, false) {
			if m.Type == 3 {
				res.Notif = fmt.Sprintf("%d/%d", m.Code, m.Sub)
				res.NotifCode = m.Code
			}
		}
		res.Hold = f.holdTime
		opt := f.decodeOptions()
		res.APRX = opt.AddPathIPv4Unicast
		res.ASN4 = opt.Use32BitASN
		if f.ipv4Unicast != nil {
			res.APTX = !f.ipv4Unicast.addPathTX.BestOnly
			res.MP4 = f.ipv4Unicast.multiProtocol
		}
		if f.ipv6Unicast != nil {
			res.MP6 = f.ipv6Unicast.multiProtocol
		}
	})
	res.Status, res.Crash = x.Status, x.Crash
	return res
}

func zvC22Check(r *vh.Run, c zvC22Case) {
	admit, demanded, why := zvC22Ref(c)
	r.Eval(1)
	if !demanded {
		r.Count("not_demanded", 1)
		return
	}
	res := zvC22Run(c)
	kind := "ebgp"
	if c.L.IBGP {
		kind = "ibgp"
	}
	if c.PriorRole >= 0 {
		kind += "-after-earlier-session"
		if res.State == "prior-session-not-established" {
			r.Count("prior_not_established", 1)
			return
		}
		r.Count("second_session_cases", 1)
	}
	if res.Status != vsched.Completed {
		r.Violation(vh.Sig("clause", "run-"+res.Status.String(), "why", why), c, "execution %s: %.400s", res.Status, res.Crash)
		return
	}
	r.Outcome(fmt.Sprint(res.State, res.Notif, res.Closed, res.Hold, res.APRX, res.APTX, res.ASN4))
	if !admit {
		r.Count("ref_rejects", 1)
		r.Count("ref_rejects:"+why, 1)
		if res.State == stateNameEstablished {
			r.Violation(vh.Sig("clause", "admitted-invalid", "why", why, "kind", kind), c, "session reached Established although the OPEN must be refused (%s)", why)
			return
		}
		if res.NotifCode != 2 {
			r.Violation(vh.Sig("clause", "no-open-error-notification", "why", why, "kind", kind, "got", res.Notif), c, "OPEN refused (%s) but the NOTIFICATION written was %q (want error code 2)", why, res.Notif)
		}
		if !res.Closed {
			r.Violation(vh.Sig("clause", "connection-left-open", "why", why, "kind", kind), c, "OPEN refused (%s) but the connection was not closed", why)
		}
		return
	}
	r.Count("ref_admits", 1)
	if res.State != stateNameEstablished {
		r.Count("valid_not_admitted", 1) // not demanded by the statement
		return
	}
	r.Count("established", 1)
	r.Nontrivial(1)
	wantHold := time.Duration(c.L.HoldS) * time.Second
	if rh := time.Duration(c.R.Hold) * time.Second; rh < wantHold {
		wantHold = rh
	}
	if res.Hold != wantHold {
		r.Violation(vh.Sig("clause", "hold-time", "kind", kind), c, "negotiated hold time %v, the smaller of both offers is %v", res.Hold, wantHold)
	}
	peerSends, peerRecvs := c.R.AP&2 != 0, c.R.AP&1 != 0
	if res.APRX && !(c.L.APRecv && peerSends) {
		r.Violation(vh.Sig("clause", "addpath-rx", "kind", kind), c, "add-path receive enabled although not both sides advertised it (local recv=%v, peer send=%v)", c.L.APRecv, peerSends)
	}
	if res.APTX && !(c.L.APSend && peerRecvs) {
		r.Violation(vh.Sig("clause", "addpath-tx", "kind", kind), c, "add-path send enabled although not both sides advertised it (local send=%v, peer recv=%v)", c.L.APSend, peerRecvs)
	}
	if res.ASN4 && c.R.Cap4 == "absent" {
		r.Violation(vh.Sig("clause", "asn4", "kind", kind), c, "4-octet AS encoding enabled although the peer did not advertise it")
	}
	if res.MP4 && !(c.L.MPv4 && c.R.MP&1 != 0) {
		r.Violation(vh.Sig("clause", "multiprotocol", "family", "ipv4", "kind", kind), c, "multiprotocol encoding of IPv4 unicast enabled although not both sides advertised it (local %v, peer %v)", c.L.MPv4, c.R.MP&1 != 0)
	}
	if res.MP6 && !(c.L.IPv6 && c.R.MP&2 != 0) {
		r.Violation(vh.Sig("clause", "multiprotocol", "family", "ipv6", "kind", kind), c, "multiprotocol encoding of IPv6 unicast enabled although not both sides advertised it (local %v, peer %v)", c.L.IPv6, c.R.MP&2 != 0)
	}
	if res.MP4 {
		r.Count("mp4_on", 1)
	}
	if res.MP6 {
		r.Count("mp6_on", 1)
	}
	if res.APRX {
		r.Count("addpath_rx_on", 1)
	}
	if res.APTX {
		r.Count("addpath_tx_on", 1)
	}
	if res.ASN4 {
		r.Count("asn4_on", 1)
	}
}

func TestVerifC22(t *testing.T) {
	r := vh.Start(t, "C22")
	defer r.Finish()
	r.Rule("cross product of the peer's OPEN (version x 2-octet AS {configured, other, AS_TRANS} x 4-octet capability {absent, configured, other} x identifier {0, ours, other} x hold time {0,1,2,3,4,90,65535} " +
		"x add-path {none,recv,send,both} x multiprotocol capabilities {none, IPv4, IPv6, both} (against local configurations with IPv6 / IPv4-multiprotocol) x role capabilities (none, one, two, three with one of them different in every position) x capability packaging {one Capabilities parameter, one parameter per capability in either order}) with local configurations (iBGP/eBGP, 2-/4-octet peer AS, hold 3/90, add-path recv/send, role/strict); every case runs the real FSM from OpenSent under the virtual runtime; " +
		"every admitted OPEN of the role-less local configurations also as the second session of a peer whose first session negotiated all capabilities; non-trivial = cases in which the session was established and the negotiated values were compared")
	r.Require("mp4_on", "mp6_on", "second_session_cases", "ref_rejects", "established", "addpath_rx_on", "addpath_tx_on", "asn4_on", "ref_rejects:hold time", "ref_rejects:peer AS", "ref_rejects:role pair")
	if r.IsReplay() {
		var c zvC22Case
		r.ReplayCase(&c)
		zvC22Check(r, c)
		fmt.Printf("result: %+v\n", zvC22Run(c))
		for _, k := range []string{"mp4_on", "mp6_on", "second_session_cases", "ref_rejects", "established", "addpath_rx_on", "addpath_tx_on", "asn4_on", "ref_rejects:hold time", "ref_rejects:peer AS", "ref_rejects:role pair"} {
			r.Count(k, 1)
		}
		return
	}
	idx := 0
	for _, l := range zvC22Locals(r.Thorough()) {
		for _, rem := range zvC22Remotes(l, r.Thorough()) {
			idx++
			if !r.Mine(idx) {
				continue
			}
			if idx%64 == 0 && r.OutOfBudget() {
				r.Cap("time budget")
				return
			}
			c := zvC22Case{L: l, R: rem, PriorRole: -1}
			zvC22Check(r, c)
			if idx == 1000 {
				r.Sample(c)
			}
		}
	}
	// second sessions of a peer whose first session negotiated every capability: each admitted OPEN of locals without
	// roles (roles have their own second-session cases below), negotiated again from that non-initial state
	for _, l := range zvC22Locals(r.Thorough()) {
		if l.Role != PeerConfigRoleOff {
			continue
		}
		for _, rem := range zvC22Remotes(l, r.Thorough()) {
			idx++
			if !r.Mine(idx) {
				continue
			}
			c := zvC22Case{L: l, R: rem, PriorRole: -1, PriorCaps: true}
			if admit, demanded, _ := zvC22Ref(c); !admit || !demanded {
				continue
			}
			if idx%64 == 0 && r.OutOfBudget() {
				r.Cap("time budget")
				return
			}
			r.Count("second_session_after_full_capabilities", 1)
			zvC22Check(r, c)
		}
	}
	// second sessions of a peer whose first session negotiated a role
	compat := map[uint8]byte{PeerConfigRoleProvider: 3, PeerConfigRoleCustomer: 0, PeerConfigRoleRS: 2, PeerConfigRoleRSClient: 1, PeerConfigRolePeer: 4}
	for _, l := range zvC22Locals(true) {
		if l.IBGP || l.Role == PeerConfigRoleOff || l.APRecv || l.APSend || l.HoldS != 90 {
			continue
		}
		for _, roles := range [][]byte{nil, {compat[l.Role]}, {(compat[l.Role] + 1) % 5}} {
			idx++
			if !r.Mine(idx) {
				continue
			}
			rem := zvC22Remote{Version: 4, AS2: "cfg", Cap4: "cfg", ID: "other", Hold: 90, Roles: roles}
			if l.BigAS {
				rem.AS2 = "trans"
			}
			zvC22Check(r, zvC22Case{L: l, R: rem, PriorRole: int(compat[l.Role])})
		}
	}
}
