#!/bin/sh
# tools/seedcheck.sh <seed-out-dir> <name> <ID>[,<ID>...]
# Confirms a seeded property-breaking change independently (applies to a scratch worktree of /repo HEAD, build, repo
# tests green, demo fails with / passes without the change), runs the given checks against it and files everything
# under /verif/seeded/<name>/.
set -u
SRC="$1"; NAME="$2"; IDS="$3"
export GOFLAGS=-mod=mod GOPROXY=off GOSUMDB=off GOTOOLCHAIN=local GOWORK=off
WT="/var/tmp/seedwt-$$"
OUT="/verif/seeded/$NAME"
git -C /repo worktree add -q --detach "$WT" HEAD || exit 2
trap 'git -C /repo worktree remove --force "$WT" >/dev/null 2>&1; rm -rf "$WT"' EXIT
PKG=$(python3 -c "import json;print(json.load(open('$SRC/meta.json'))['demo_package'])")
DEMO=$(ls "$SRC"/*_test.go | head -1)
res() { echo "$1"; RESULT="$RESULT$1; "; }
RESULT=""
# demo without the change
cp "$DEMO" "$WT/$PKG/zz_seed_demo_test.go"
if (cd "$WT" && timeout 600 go test -vet=off -count=1 -run 'Seed|seed|Demo|demo' "./$PKG" >/tmp/seed.$$ 2>&1); then res "demo passes without change: yes"; else res "demo passes without change: NO"; tail -5 /tmp/seed.$$; fi
if ! git -C "$WT" apply "$SRC/patch.diff"; then echo "PATCH DOES NOT APPLY"; exit 3; fi
if ! (cd "$WT" && go build ./... 2>&1 | tail -3); then echo "DOES NOT BUILD"; exit 3; fi
if (cd "$WT" && timeout 600 go test -vet=off -count=1 -run 'Seed|seed|Demo|demo' "./$PKG" >/tmp/seed.$$ 2>&1); then res "demo fails with change: NO"; else res "demo fails with change: yes"; fi
rm -f "$WT/$PKG/zz_seed_demo_test.go"
if (cd "$WT" && timeout 1500 go test -vet=off -count=1 -timeout 400s ./... >/tmp/seedt.$$ 2>&1); then res "repo tests pass with change: yes"; else
  F=$(grep -E '^(FAIL|--- FAIL)' /tmp/seedt.$$ | head -5 | tr '\n' ' '); res "repo tests pass with change: NO ($F)"; fi
DET=""
for ID in $(echo "$IDS" | tr ',' ' '); do
  O=$(/verif/run "$ID" quick --repo "$WT" 2>&1); c=$?
  if [ $c -eq 1 ]; then D="DETECTED by $ID quick: $(echo "$O" | grep -A1 '^VIOLATION' | sed -n 2p | cut -c1-200)";
  elif [ $c -eq 0 ]; then
    O=$(/verif/run "$ID" thorough --repo "$WT" 2>&1); c=$?
    if [ $c -eq 1 ]; then D="DETECTED by $ID thorough only: $(echo "$O" | grep -A1 '^VIOLATION' | sed -n 2p | cut -c1-200)"; elif [ $c -eq 0 ]; then D="MISSED by $ID (quick and thorough)"; else D="ERROR $ID thorough exit $c"; fi
  else D="ERROR $ID exit $c: $(echo "$O" | tail -3 | tr '\n' ' ' | cut -c1-300)"; fi
  echo "$D"; DET="$DET$D | "
done
mkdir -p "$OUT"
cp "$SRC/patch.diff" "$OUT/patch.diff"; cp "$DEMO" "$OUT/$(basename "$DEMO").txt"
python3 - "$SRC/meta.json" "$OUT/meta.json" "$RESULT" "$DET" "$IDS" <<'PY'
import json,sys
m=json.load(open(sys.argv[1]))
m['confirmed_by_integrator']=sys.argv[3]
m['checks_run']=sys.argv[5]
m['detection']=sys.argv[4]
m['how_confirmed']='tools/seedcheck.sh: scratch worktree of /repo HEAD; demo test run without and with patch.diff; go build ./...; full repo test suite with the patch; then /verif/run <ID> quick (and thorough if quick is silent) --repo <worktree>'
json.dump(m,open(sys.argv[2],'w'),indent=1)
PY
echo "filed under $OUT"
