#!/usr/bin/env python3
"""Generate /verif/MANIFEST.json from checks.json (+ not_applicable.json)."""
import json, os
root = os.path.dirname(os.path.dirname(os.path.abspath(__file__)))
import glob
enabled = set(open(os.path.join(root, 'enabled.txt')).read().split())
checks = [c for c in (json.load(open(f)) for f in sorted(glob.glob(os.path.join(root, 'checks.d', '*.json')))) if c['id'] in enabled]
props = [json.loads(l) for l in open(os.path.join(root, 'properties.jsonl'))]
na_reasons = {}
p = os.path.join(root, 'not_applicable.json')
if os.path.exists(p):
    na_reasons = json.load(open(p))
claimed = {c['id'] for c in checks}
m = {
 "version": 1,
 "setup_cmd": "cd /verif && export GOFLAGS=-mod=mod GOPROXY=off GOSUMDB=off GOTOOLCHAIN=local GOWORK=off && mkdir -p bin && go build -o bin/check ./cmd/check && bin/check --warm",
 "hooks": {
  "guard": "verif",
  "enable": "no source hooks in /repo: instrumentation and harness files are injected at check time with `go test -tags verif -overlay <generated overlay.json>` built from /repo's current working tree (see DESIGN.md section 2)",
  "baseline_off_cmd": "cd /repo && GOFLAGS=-mod=mod GOPROXY=off GOSUMDB=off GOTOOLCHAIN=local go test -json -vet=off -count=1 -timeout 25m ./...",
  "source_commits": [],
  "add_only": True
 },
 "engines": [
  {"name": "driver", "path": "cmd/check", "serves_properties": sorted(claimed), "kind_free_text": "overlay generation, harness build from the current /repo tree, sharded execution, violation replay, known-findings matching, evidence"},
  {"name": "vh", "path": "engine/vh", "serves_properties": sorted(claimed), "kind_free_text": "harness-side helpers: reports, explicit-state BFS over event histories (E4), counters"},
 ],
 "checks": [],
 "not_applicable": [],
 "notes": "All checks: `./run <ID> quick|thorough`. Exit 0 held / 1 VIOLATION / 2 harness error. known_findings.json lists recorded defects and fix commits."
}
for c in checks:
    m["checks"].append({
     "property_id": c["id"],
     "quick_cmd": "./run %s quick" % c["id"],
     "thorough_cmd": "./run %s thorough" % c["id"],
     "evidence_file": "evidence/%s.json" % c["id"],
     "replay_cmd_template": "./run %s --replay {path}" % c["id"],
     "engine": c.get("engine", ""),
     "level_claimed": {"category": c["level"], "text": c.get("level_text", c.get("technique", "")), "design_ref": "DESIGN.md section 5, " + c["id"]},
     "level_note": c.get("level_note", "; ".join(c.get("assumptions", [])) or "see DESIGN.md"),
     "technique": c.get("technique", ""),
    })
for pr in props:
    if pr["id"] not in claimed:
        m["not_applicable"].append({"property_id": pr["id"], "reason": na_reasons.get(pr["id"], "not claimed yet: the check for this property has not been built/validated at this commit (work in progress, see DESIGN.md section 5 for the planned model-checking design)")})
json.dump(m, open(os.path.join(root, 'MANIFEST.json'), 'w'), indent=1)
print("checks:", len(m["checks"]), "not_applicable:", len(m["not_applicable"]))
