#!/usr/bin/env python3
"""Print a markdown table of /verif/seeded/*: which property each seeded change breaks and which checks caught it."""
import json,glob,os,re
rows=[]
for d in sorted(glob.glob('/verif/seeded/*/')):
    try: m=json.load(open(d+'meta.json'))
    except Exception as e: continue
    name=os.path.basename(d.rstrip('/'))
    det=m.get('detection','')
    short=[]
    for part in det.split(' | '):
        part=part.strip()
        if not part: continue
        mm=re.match(r'(DETECTED by (\S+) (quick|thorough only)|MISSED by (\S+)|ERROR (\S+))',part)
        if mm: short.append(mm.group(0).replace('DETECTED by ','').replace(' only',''))
    summ=str(m.get('summary',''))
    summ=summ.replace('|','/').replace('\n',' ')
    if len(summ)>230: summ=summ[:227]+'...'
    rows.append((name,str(m.get('property',''))[:4],summ,', '.join(short), m.get('strengthened','')))
print('| seeded change | property | what it does | caught by | check strengthened first? |')
print('|---|---|---|---|---|')
for r in rows: print('| `%s` | %s | %s | %s | %s |'%r)

# --update: rewrite the table between the markers in DESIGN.md
import sys
if '--update' in sys.argv:
    import io
    lines=['| seeded change | property | what it does | caught by | check strengthened first? |','|---|---|---|---|---|']+['| `%s` | %s | %s | %s | %s |'%r for r in rows]
    d=open('/verif/DESIGN.md').read()
    a=d.index('<!-- SEEDTABLE-BEGIN -->')+len('<!-- SEEDTABLE-BEGIN -->'); b=d.index('<!-- SEEDTABLE-END -->')
    open('/verif/DESIGN.md','w').write(d[:a]+'\n'+'\n'.join(lines)+'\n'+d[b:])
