// Package vsync replaces "sync" in instrumented packages: Mutex, RWMutex and
// WaitGroup become visible to the virtual runtime (vsched). Zero values are
// usable, like the originals.
package vsync

import (
	"fmt"
	"sync"

	"github.com/bio-routing/bio-rd/zzverif/vsched"
)

type (
	Once   = sync.Once
	Pool   = sync.Pool
	Map    = sync.Map
	Locker = sync.Locker
	Cond   = sync.Cond
)

// Mutex is a scheduler-visible mutual exclusion lock.
type Mutex struct {
	held bool
	hb   hbMutex
}

//go:norace
func (m *Mutex) Lock() {
	if !vsched.Active() { // plain sequential use (fixtures, sequential harnesses): no scheduler, no description strings
		if m.held {
			panic("vsync: Mutex.Lock would block outside a controlled execution")
		}
		m.held = true
		m.hb.acquire()
		return
	}
	vsched.DoObj(vsched.KLock, fmt.Sprintf("Mutex.Lock(%p)", m), m)
	m.hb.acquire()
}

// OpEnabled / OpApply let the scheduler evaluate and grant the pending Lock.
//
//go:norace
func (m *Mutex) OpEnabled(int) bool { return !m.held }

//go:norace
func (m *Mutex) OpApply(int) { m.held = true }

//go:norace
func (m *Mutex) TryLock() bool {
	vsched.Yield()
	if m.held {
		return false
	}
	m.held = true
	m.hb.acquire()
	return true
}

//go:norace
func (m *Mutex) Unlock() {
	if vsched.Aborting() {
		return
	}
	if !m.held {
		panic("sync: unlock of unlocked mutex")
	}
	m.hb.release()
	m.held = false
}

// RWMutex models Go's writer preference: Lock is two visible operations —
// announce (from then on new RLocks are refused) and acquire.
type RWMutex struct {
	writer   bool
	readers  int
	waitingW int
	hb       hbRWMutex
}

//go:norace
func (m *RWMutex) Lock() {
	if !vsched.Active() {
		if m.writer || m.readers > 0 {
			panic("vsync: RWMutex.Lock would block outside a controlled execution")
		}
		m.writer = true
		m.hb.lock()
		return
	}
	vsched.DoObj(vsched.KWLockAnnounce, fmt.Sprintf("RWMutex.Lock(%p) announce", m), m)
	vsched.DoObj(vsched.KWLockAcquire, fmt.Sprintf("RWMutex.Lock(%p)", m), m)
	m.hb.lock()
}

//go:norace
func (m *RWMutex) OpEnabled(kind int) bool {
	switch kind {
	case vsched.KWLockAcquire:
		return !m.writer && m.readers == 0
	case vsched.KRLock:
		return !m.writer && m.waitingW == 0
	}
	return true
}

//go:norace
func (m *RWMutex) OpApply(kind int) {
	switch kind {
	case vsched.KWLockAnnounce:
		m.waitingW++
	case vsched.KWLockAcquire:
		m.writer = true
		m.waitingW--
	case vsched.KRLock:
		m.readers++
	}
}

//go:norace
func (m *RWMutex) Unlock() {
	if vsched.Aborting() {
		return
	}
	if !m.writer {
		panic("sync: Unlock of unlocked RWMutex")
	}
	m.hb.unlock()
	m.writer = false
}

//go:norace
func (m *RWMutex) RLock() {
	if !vsched.Active() {
		if m.writer {
			panic("vsync: RWMutex.RLock would block outside a controlled execution")
		}
		m.readers++
		m.hb.rlock()
		return
	}
	vsched.DoObj(vsched.KRLock, fmt.Sprintf("RWMutex.RLock(%p)", m), m)
	m.hb.rlock()
}

//go:norace
func (m *RWMutex) RUnlock() {
	if vsched.Aborting() {
		return
	}
	if m.readers <= 0 {
		panic("sync: RUnlock of unlocked RWMutex")
	}
	m.hb.runlock()
	m.readers--
}

//go:norace
func (m *RWMutex) TryLock() bool {
	vsched.Yield()
	if m.writer || m.readers > 0 {
		return false
	}
	m.writer = true
	m.hb.lock()
	return true
}

//go:norace
func (m *RWMutex) TryRLock() bool {
	vsched.Yield()
	if m.writer || m.waitingW > 0 {
		return false
	}
	m.readers++
	m.hb.rlock()
	return true
}

// RLocker returns a Locker whose Lock/Unlock call RLock/RUnlock.
//
//go:norace
func (m *RWMutex) RLocker() sync.Locker { return (*rlocker)(m) }

type rlocker RWMutex

//go:norace
func (r *rlocker) Lock() { (*RWMutex)(r).RLock() }

//go:norace
func (r *rlocker) Unlock() { (*RWMutex)(r).RUnlock() }

// WaitGroup is a scheduler-visible wait group.
type WaitGroup struct {
	n  int
	hb hbWaitGroup
}

//go:norace
func (w *WaitGroup) Add(d int) {
	if vsched.Aborting() {
		return
	}
	w.n += d
	if w.n < 0 {
		panic("sync: negative WaitGroup counter")
	}
	w.hb.add(d)
}

//go:norace
func (w *WaitGroup) Done() { w.Add(-1) }

//go:norace
func (w *WaitGroup) Wait() {
	vsched.DoObj(vsched.KWait, fmt.Sprintf("WaitGroup.Wait(%p)", w), w)
	w.hb.wait()
}

//go:norace
func (w *WaitGroup) OpEnabled(int) bool { return w.n == 0 }

//go:norace
func (w *WaitGroup) OpApply(int) {}
