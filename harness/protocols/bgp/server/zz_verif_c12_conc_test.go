package server

// C12, concurrent part — an export policy is replaced WHILE the Loc-RIB changes
// (engine E3): one thread calls AdjRIBOut.ReplaceFilterChain, another performs
// Loc-RIB route changes; every schedule up to a preemption bound on the real
// tables under the virtual runtime. Differential oracle at the final quiescent
// point (no hand-written expectation): the Adj-RIB-Out equals a fresh
// Adj-RIB-Out created with the new policy and registered on the final Loc-RIB,
// and the client of the Adj-RIB-Out (the update sender's position) holds
// exactly the Adj-RIB-Out.

import (
	"fmt"
	"sort"
	"strings"

	bnet "github.com/bio-routing/bio-rd/net"
	"github.com/bio-routing/bio-rd/route"
	"github.com/bio-routing/bio-rd/routingtable"
	"github.com/bio-routing/bio-rd/routingtable/adjRIBOut"
	"github.com/bio-routing/bio-rd/routingtable/filter"
	"github.com/bio-routing/bio-rd/routingtable/filter/actions"
	"github.com/bio-routing/bio-rd/routingtable/locRIB"
	"github.com/bio-routing/bio-rd/zzverif/vh"
	"github.com/bio-routing/bio-rd/zzverif/vsched"
	"github.com/bio-routing/bio-rd/zzverif/vsync"
)

type zvC12ConcCase struct {
	Conc     bool   `json:"concurrent_part"`
	Session  string `json:"session"` // ibgp | ebgp | ibgp-addpath
	Old      string `json:"old_policy"`
	New      string `json:"new_policy"`
	Changes  string `json:"route_changes"`
	Schedule []int  `json:"schedule"`
	Bound    int    `json:"preemption_bound"`
}

func zvC12cChain(name string) filter.Chain {
	one := func(n string, as ...actions.Action) filter.Chain {
		return filter.Chain{filter.NewFilter(n, []*filter.Term{filter.NewTerm(n, nil, append(as, actions.NewAcceptAction()))})}
	}
	switch name {
	case "accept":
		return filter.NewAcceptAllFilterChain()
	case "reject":
		return filter.NewDrainFilterChain()
	case "med5":
		return one("MED5", actions.NewSetMEDAction(5))
	case "reject-p1":
		return filter.Chain{filter.NewFilter("REJECT_P1", []*filter.Term{
			filter.NewTerm("p1", []*filter.TermCondition{filter.NewTermConditionWithRouteFilters(filter.NewRouteFilter(zvC12cPfx(1), filter.NewExactMatcher()))}, []actions.Action{actions.NewRejectAction()}),
			filter.NewTerm("rest", nil, []actions.Action{actions.NewAcceptAction()}),
		})}
	}
	panic("chain " + name)
}

func zvC12cSessionAttrs(ibgp, addPathTX bool) routingtable.SessionAttrs {
	sa := routingtable.SessionAttrs{
		RouterID: 1, PeerIP: bnet.IPv4FromOctets(10, 0, 0, 9).Ptr(), LocalIP: bnet.IPv4FromOctets(10, 0, 0, 1).Ptr(),
		Type: route.BGPPathType, IBGP: ibgp, LocalASN: 65000, PeerASN: 65009, AddPathTX: addPathTX, DefaultLocalPreference: 100,
	}
	if ibgp {
		sa.PeerASN = 65000
	}
	return sa
}

func zvC12cPfx(i int) *bnet.Prefix {
	return bnet.NewPfx(bnet.IPv4FromOctets(10, uint8(i), 0, 0), 16).Ptr()
}

func zvC12cPath(src uint8, lp uint32) *route.Path {
	p := &route.Path{Type: route.BGPPathType, BGPPath: route.NewBGPPath()}
	p.BGPPath.BGPPathA.Source = bnet.IPv4FromOctets(10, 9, 0, src).Ptr()
	p.BGPPath.BGPPathA.NextHop = bnet.IPv4FromOctets(10, 9, 0, src).Ptr()
	p.BGPPath.BGPPathA.EBGP = true
	p.BGPPath.BGPPathA.LocalPref = lp
	p.BGPPath.BGPPathA.BGPIdentifier = uint32(src)
	p.BGPPath.Prepend(64000+uint32(src), 1)
	return p
}

// zvC12cClient records what the Adj-RIB-Out announces (set per prefix; serialises its calls like the update sender).
type zvC12cClient struct {
	mu   vsync.Mutex
	have map[string]bool
}

func (c *zvC12cClient) key(pfx *bnet.Prefix, p *route.Path) string {
	return pfx.String() + " " + zvPathDigest(p) + fmt.Sprintf(" id=%d", p.BGPPath.PathIdentifier)
}
func (c *zvC12cClient) AddPath(pfx *bnet.Prefix, p *route.Path) error {
	c.mu.Lock()
	defer c.mu.Unlock()
	// (a session without add-path replaces implicitly)
	for k := range c.have {
		if strings.HasPrefix(k, pfx.String()+" ") && strings.HasSuffix(k, " id=0") && p.BGPPath.PathIdentifier == 0 {
			delete(c.have, k)
		}
	}
	c.have[c.key(pfx, p)] = true
	return nil
}
func (c *zvC12cClient) AddPathInitialDump(pfx *bnet.Prefix, p *route.Path) error { return c.AddPath(pfx, p) }
func (c *zvC12cClient) RemovePath(pfx *bnet.Prefix, p *route.Path) bool {
	c.mu.Lock()
	defer c.mu.Unlock()
	delete(c.have, c.key(pfx, p))
	return true
}
func (c *zvC12cClient) ReplacePath(*bnet.Prefix, *route.Path, *route.Path) {}
func (c *zvC12cClient) RefreshRoute(*bnet.Prefix, []*route.Path)           {}
func (c *zvC12cClient) EndOfRIB()                                          {}
func (c *zvC12cClient) Dispose()                                           {}

func zvC12cDump(a *adjRIBOut.AdjRIBOut, withID bool) []string {
	var ks []string
	for _, r := range a.Dump() {
		for _, p := range r.Paths() {
			k := r.Prefix().String() + " " + zvPathDigest(p)
			if withID {
				k += fmt.Sprintf(" id=%d", p.BGPPath.PathIdentifier)
			}
			ks = append(ks, k)
		}
	}
	sort.Strings(ks)
	return ks
}

func zvC12ConcRun(r *vh.Run, c zvC12ConcCase, only []int) {
	var got, want, client []string
	body := func() {
		route.ZZVerifResetBGPPathACache()
		vsched.SetExploring(false)
		sa := zvC12cSessionAttrs(strings.HasPrefix(c.Session, "ibgp"), c.Session == "ibgp-addpath")
		opts := routingtable.ClientOptions{BestOnly: true}
		if c.Session == "ibgp-addpath" {
			opts = routingtable.ClientOptions{MaxPaths: 2}
		}
		rib := locRIB.New("inet.0")
		aro := adjRIBOut.New(rib, sa, zvC12cChain(c.Old))
		cl := &zvC12cClient{have: map[string]bool{}}
		aro.Register(cl)
		rib.AddPath(zvC12cPfx(1), zvC12cPath(2, 100))
		rib.AddPath(zvC12cPfx(2), zvC12cPath(2, 100))
		rib.RegisterWithOptions(aro, opts)
		vsched.SetExploring(true)
		h1 := vsched.GoNamed("policy-replace", func() { aro.ReplaceFilterChain(zvC12cChain(c.New)) })
		h2 := vsched.GoNamed("route-changes", func() {
			switch c.Changes {
			case "better-p1,withdraw-p2":
				rib.AddPath(zvC12cPfx(1), zvC12cPath(3, 200))
				rib.RemovePath(zvC12cPfx(2), zvC12cPath(2, 100))
			case "new-p3,withdraw-p1":
				rib.AddPath(zvC12cPfx(3), zvC12cPath(3, 100))
				rib.RemovePath(zvC12cPfx(1), zvC12cPath(2, 100))
			case "second-p1,new-p3":
				rib.AddPath(zvC12cPfx(1), zvC12cPath(3, 100))
				rib.AddPath(zvC12cPfx(3), zvC12cPath(4, 100))
			}
		})
		vsched.Join(h1, h2)
		vsched.SetExploring(false)
		fresh := adjRIBOut.New(rib, sa, zvC12cChain(c.New))
		fresh.Register(&zvC12cClient{have: map[string]bool{}})
		rib.RegisterWithOptions(fresh, opts)
		got, want = zvC12cDump(aro, false), zvC12cDump(fresh, false)
		client = nil
		for k := range cl.have {
			client = append(client, k)
		}
		sort.Strings(client)
	}
	check := func(x *vsched.Execution) {
		r.Eval(1)
		r.Count("conc_executions", 1)
		cc := c
		cc.Schedule = x.Choices
		if x.Status != vsched.Completed {
			r.Violation(vh.Sig("clause", "conc-run-"+x.Status.String(), "blocked_in", strings.Join(x.BlockedIn, "|")), cc, "export policy %s -> %s racing with %s: execution %s %s %.300s", c.Old, c.New, c.Changes, x.Status, x.Blocked, x.Crash)
			return
		}
		r.Outcome(fmt.Sprint("conc", c.Session, c.Old, c.New, c.Changes, got))
		if len(want) > 0 {
			r.Count("conc_nonempty_result", 1)
		}
		if fmt.Sprint(got) != fmt.Sprint(want) {
			r.Violation(vh.Sig("clause", "export-replace", "mode", "concurrent-route-change", "session", c.Session, "where", "adjribout"), cc,
				"export policy %s -> %s while the Loc-RIB changed (%s): the Adj-RIB-Out holds %v, an Adj-RIB-Out set up with the new policy on the final Loc-RIB holds %v", c.Old, c.New, c.Changes, got, want)
			return
		}
		var own []string
		own = append(own, got...)
		var cl []string
		for _, k := range client {
			cl = append(cl, k[:strings.LastIndex(k, " id=")])
		}
		sort.Strings(cl)
		if fmt.Sprint(cl) != fmt.Sprint(own) {
			r.Violation(vh.Sig("clause", "export-replace", "mode", "concurrent-route-change", "session", c.Session, "where", "client"), cc,
				"export policy %s -> %s while the Loc-RIB changed (%s): the Adj-RIB-Out's client was told %v, the Adj-RIB-Out holds %v", c.Old, c.New, c.Changes, cl, own)
		}
	}
	cfg := vsched.Config{MaxSteps: 200000}
	if only != nil {
		cfg.Trace, cfg.Sites = true, true
		x := vsched.Replay(cfg, only, body)
		for _, l := range x.Log {
			fmt.Println("   ", l)
		}
		check(x)
		return
	}
	e := &vsched.Explorer{Bound: c.Bound, Body: body, Check: check, Stop: r.OutOfBudget, Cfg: cfg}
	e.Run()
	if e.Err != nil {
		r.Fatalf("concurrent scenario %+v: %v", c, e.Err)
	}
	if e.Capped {
		r.Cap("time budget (concurrent part)")
	}
	r.States(e.Executions)
	r.Transitions(e.Executions)
}

func zvC12Concurrent(r *vh.Run, idx int) {
	bound := 2
	if r.Thorough() {
		bound = 3
	}
	for _, sess := range []string{"ibgp", "ebgp", "ibgp-addpath"} {
		for _, pol := range [][2]string{{"accept", "reject"}, {"reject", "accept"}, {"accept", "med5"}, {"med5", "reject-p1"}, {"reject-p1", "accept"}} {
			for _, ch := range []string{"better-p1,withdraw-p2", "new-p3,withdraw-p1", "second-p1,new-p3"} {
				idx++
				if !r.Mine(idx) {
					continue
				}
				zvC12ConcRun(r, zvC12ConcCase{Conc: true, Session: sess, Old: pol[0], New: pol[1], Changes: ch, Bound: bound}, nil)
			}
		}
	}
}
