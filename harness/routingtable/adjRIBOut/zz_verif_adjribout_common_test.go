package adjRIBOut

// Helpers shared by the C08 / C11 / C13 harnesses: a pointer-free rendering of
// every attribute of a route.Path and a recording RouteTableClient.

import (
	"fmt"
	"os"
	"runtime/debug"
	"sort"
	"strings"

	bnet "github.com/bio-routing/bio-rd/net"
	"github.com/bio-routing/bio-rd/route"
)

// zvoView is a deep, pointer-free copy of a path (every attribute, incl. AS_PATH
// segments, communities, cluster list, unknown attributes). All fields are
// comparable, so two views can be compared with ==.
type zvoView struct {
	Nil        bool
	Type       uint8
	Redist     uint8
	Hidden     uint8
	Static     string // "-" = no StaticPath
	BGP        bool   // BGPPath present
	BGPA       bool   // BGPPathA present
	NextHop    string
	Source     string
	LocalPref  uint32
	MED        uint32
	BGPID      uint32
	Originator uint32
	Aggregator string
	EBGP       bool
	Atomic     bool
	Origin     uint8
	OTC        uint32
	ASPath     string
	ASFlat     string // AS_PATH without empty segments ("" = empty path)
	ASPathLen  uint16
	Cluster    string
	Comms      string
	LComms     string
	Unknown    string
	PathID     uint32
	PostPolicy bool
}

func zvoIP(ip *bnet.IP) string {
	if ip == nil {
		return "nil"
	}
	return ip.String()
}

func zvoU32s(xs []uint32) string {
	s := make([]string, len(xs))
	for i, x := range xs {
		s[i] = fmt.Sprint(x)
	}
	return "[" + strings.Join(s, " ") + "]"
}

func zvoViewOf(p *route.Path) zvoView {
	v := zvoView{Static: "-", ASPath: "nil", Cluster: "nil", Comms: "nil", LComms: "nil", Aggregator: "nil", NextHop: "nil", Source: "nil"}
	if p == nil {
		v.Nil = true
		return v
	}
	v.Type, v.Redist, v.Hidden = p.Type, p.RedistributedFrom, p.HiddenReason
	if p.StaticPath != nil {
		v.Static = "nh=" + zvoIP(p.StaticPath.NextHop)
	}
	b := p.BGPPath
	if b == nil {
		return v
	}
	v.BGP = true
	if a := b.BGPPathA; a != nil {
		v.BGPA = true
		v.NextHop, v.Source = zvoIP(a.NextHop), zvoIP(a.Source)
		v.LocalPref, v.MED, v.BGPID, v.Originator = a.LocalPref, a.MED, a.BGPIdentifier, a.OriginatorID
		if a.Aggregator != nil {
			v.Aggregator = fmt.Sprintf("%d/%d", a.Aggregator.ASN, a.Aggregator.Address)
		}
		v.EBGP, v.Atomic, v.Origin, v.OTC = a.EBGP, a.AtomicAggregate, a.Origin, a.OnlyToCustomer
	}
	if b.ASPath != nil {
		var sb, fl strings.Builder
		for _, seg := range *b.ASPath {
			fmt.Fprintf(&sb, "t%d%s", seg.Type, zvoU32s(seg.ASNs))
			if len(seg.ASNs) > 0 {
				fmt.Fprintf(&fl, "t%d%s", seg.Type, zvoU32s(seg.ASNs))
			}
		}
		v.ASPath, v.ASFlat = "{"+sb.String()+"}", fl.String()
	}
	v.ASPathLen = b.ASPathLen
	if b.ClusterList != nil {
		v.Cluster = zvoU32s(*b.ClusterList)
	}
	if b.Communities != nil {
		v.Comms = zvoU32s(*b.Communities)
	}
	if b.LargeCommunities != nil {
		var sb strings.Builder
		for _, l := range *b.LargeCommunities {
			fmt.Fprintf(&sb, "(%d:%d:%d)", l.GlobalAdministrator, l.DataPart1, l.DataPart2)
		}
		v.LComms = "[" + sb.String() + "]"
	}
	{
		var sb strings.Builder
		for _, u := range b.UnknownAttributes {
			fmt.Fprintf(&sb, "(o%v t%v p%v c%d v%x)", u.Optional, u.Transitive, u.Partial, u.TypeCode, u.Value)
		}
		v.Unknown = "[" + sb.String() + "]"
	}
	v.PathID, v.PostPolicy = b.PathIdentifier, b.BMPPostPolicy
	return v
}

func (v zvoView) String() string {
	type plain zvoView // no String method: %+v prints the fields
	return fmt.Sprintf("%+v", plain(v))
}

// zvoNoID returns the view with the add-path identifier blanked.
func (v zvoView) zvoNoID() zvoView { v.PathID = 0; return v }

// zvoTableSnap renders a table dump (sorted by prefix; the paths of one prefix in
// stored order, or sorted when sorted=true) as one string.
func zvoTableSnap(rs []*route.Route, sortPaths bool) string {
	lines := make([]string, 0, len(rs))
	for _, r := range rs {
		var ps []string
		for _, p := range r.Paths() {
			ps = append(ps, zvoViewOf(p).String())
		}
		if sortPaths {
			sort.Strings(ps)
		}
		lines = append(lines, r.Prefix().String()+" => "+strings.Join(ps, " | "))
	}
	sort.Strings(lines)
	return strings.Join(lines, "\n")
}

// zvoCall is one call a recording client received.
type zvoCall struct {
	Op  string // add | rm
	Pfx string
	V   zvoView
}

// zvoRec is a RouteTableClient that records what it is told.
type zvoRec struct {
	calls []zvoCall
}

func (c *zvoRec) AddPath(pfx *bnet.Prefix, p *route.Path) error {
	c.calls = append(c.calls, zvoCall{"add", pfx.String(), zvoViewOf(p)})
	return nil
}
func (c *zvoRec) AddPathInitialDump(pfx *bnet.Prefix, p *route.Path) error { return c.AddPath(pfx, p) }
func (c *zvoRec) RemovePath(pfx *bnet.Prefix, p *route.Path) bool {
	c.calls = append(c.calls, zvoCall{"rm", pfx.String(), zvoViewOf(p)})
	return true
}
func (c *zvoRec) ReplacePath(pfx *bnet.Prefix, o *route.Path, n *route.Path) {
	c.calls = append(c.calls, zvoCall{"rm", pfx.String(), zvoViewOf(o)}, zvoCall{"add", pfx.String(), zvoViewOf(n)})
}
func (c *zvoRec) RefreshRoute(*bnet.Prefix, []*route.Path) {}
func (c *zvoRec) EndOfRIB()                                {}
func (c *zvoRec) Dispose()                                 {}

func (c *zvoRec) take() []zvoCall {
	x := c.calls
	c.calls = nil
	return x
}

func zvoSortedKeys[V any](m map[string]V) []string {
	ks := make([]string, 0, len(m))
	for k := range m {
		ks = append(ks, k)
	}
	sort.Strings(ks)
	return ks
}

// zvoFresh is called at the start of every replayed history: see the hook's comment.
func zvoFresh() { route.ZZVerifResetBGPPathACache() }

// zvoTune: GOGC=200 measured fastest for these allocation-heavy explorations.
func zvoTune() {
	if os.Getenv("GOGC") == "" {
		debug.SetGCPercent(200)
	}
}
