package locRIB

// C03 — best-path tie-breaking follows RFC 4271 9.1.2.2 and RFC 4456 section 9.
//
// Engine E5. The reference comparator zvSelRef (zz_verif_c02c03_dom_test.go)
// is written from the RFC text. Enumerated:
//
//  1. every ordered pair (a,b) of the 6144-path BGP domain D: whenever the
//     reference separates a and b, sign(a.Select(b)) must be the reference's;
//  2. every ordered pair of D (quick: of the half with next hop .1) on the
//     real LocRIB (AddPath a, then b): BestPath must be the reference's winner;
//  3. every 3-subset of a tie-prone sub-domain x every insertion order on the
//     real LocRIB: BestPath must be a reference-maximal candidate.
//
// Where the reference does not separate two paths nothing is demanded.

import (
	"fmt"
	"testing"
	"time"

	"github.com/bio-routing/bio-rd/route"
	"github.com/bio-routing/bio-rd/zzverif/vh"
)

type zvC03Case struct {
	Kind  string    `json:"kind"` // select | locrib
	Paths []zvSelPD `json:"paths"`
	Order []int     `json:"insertion_order,omitempty"`
}

var zvC03Steps = []string{"local_pref", "as_path", "origin", "med", "ebgp", "identifier", "cluster_list", "peer_address"}

// features of a pair that distinguish root causes at the late steps
func zvC03Feat(step string, a, b zvSelPD) (string, string) {
	switch step {
	case "identifier":
		if a.Orig != 0 || b.Orig != 0 {
			return "originator_id", "involved"
		}
		return "originator_id", "none"
	case "cluster_list":
		if a.CL < 0 || b.CL < 0 {
			return "cluster_list_absent", "true"
		}
		return "cluster_list_absent", "false"
	}
	return "", ""
}

func zvC03Got(got, want int) string {
	switch {
	case got == 0:
		return "tie"
	case got == -want:
		return "reversed"
	}
	return "ok"
}

// zvC03SelectPair: clause 1 on fresh objects (slow path and replay).
func zvC03SelectPair(r *vh.Run, a, b zvSelPD) bool {
	want, step := zvSelRef(a, b)
	if want == 0 {
		return false
	}
	c := zvC03Case{Kind: "select", Paths: []zvSelPD{a, b}}
	pa, pb := a.path(), b.path()
	var v int8
	if pan, what := vh.Try(func() { v = pa.Select(pb) }); pan {
		r.Violation(vh.Sig("clause", "select_panic", "step", step), c, "a.Select(b) panicked: %s; a=%s b=%s", what, a, b)
		return true
	}
	got := zvSelSign(v)
	if got == want {
		return false
	}
	sig := vh.Sig("clause", "select_direction", "step", step, "got", zvC03Got(got, want))
	if k, val := zvC03Feat(step, a, b); k != "" {
		sig[k] = val
	}
	r.Violation(sig, c, "a.Select(b)=%d, the RFC decision process says %d at step %s: a=%s b=%s", v, want, step, a, b)
	return true
}

// zvC03LocRIB inserts the candidates in the given order into a fresh LocRIB and
// demands that BestPath is a reference-maximal candidate.
func zvC03LocRIB(r *vh.Run, ds []zvSelPD, ps []*route.Path, order []int) bool {
	// reference-maximal candidate: not beaten by any other
	best := 0
	for i := 1; i < len(ds); i++ {
		if s, _ := zvSelRef(ds[i], ds[best]); s > 0 {
			best = i
		}
	}
	wantKey := ds[best].refKey()
	c := zvC03Case{Kind: "locrib", Paths: ds, Order: order}
	var gotKey string
	if pan, what := vh.Try(func() {
		rib := New("zvC03")
		for _, x := range order {
			rib.AddPath(zvSelPfx, ps[x])
		}
		gotKey = zvC03KeyOf(rib.Get(zvSelPfx).BestPath())
	}); pan {
		r.Violation(vh.Sig("clause", "locrib_panic"), c, "LocRIB panicked inserting %v in order %v: %s", ds, order, what)
		return true
	}
	if gotKey == wantKey {
		return false
	}
	// which candidate did the LocRIB pick, and at which step does the reference prefer its own winner over it?
	step, feat, fval := "unknown", "", ""
	for i := range ds {
		if ds[i].refKey() == gotKey {
			_, step = zvSelRef(ds[best], ds[i])
			feat, fval = zvC03Feat(step, ds[best], ds[i])
		}
	}
	sig := vh.Sig("clause", "locrib_best", "step", step)
	if feat != "" {
		sig[feat] = fval
	}
	r.Violation(sig, c, "LocRIB BestPath after inserting in order %v is %s, the RFC decision process selects %s (deciding step %s); candidates %v", order, gotKey, wantKey, step, ds)
	return true
}

// reference key read back from a returned path (public fields only)
func zvC03KeyOf(p *route.Path) string {
	if p == nil || p.Type != route.BGPPathType || p.BGPPath == nil || p.BGPPath.BGPPathA == nil {
		return "not-a-bgp-path"
	}
	bp, a := p.BGPPath, p.BGPPath.BGPPathA
	id := a.BGPIdentifier
	if a.OriginatorID != 0 {
		id = a.OriginatorID
	}
	cl := 0
	if bp.ClusterList != nil {
		cl = len(*bp.ClusterList)
	}
	src := a.Source.Bytes()
	return fmt.Sprintf("B/%d/%d/%d/%d/%v/%d/%d/%d", a.LocalPref, bp.ASPathLen, a.Origin, a.MED, a.EBGP, id, cl, src[len(src)-1])
}

type zvC03Throttle map[string]int

func (t zvC03Throttle) ok(k string) bool { t[k]++; return t[k] <= 8 }

var zvC03Required = []string{"step_local_pref", "step_as_path", "step_origin", "step_med", "step_ebgp", "step_identifier", "step_cluster_list", "step_peer_address",
	"identifier_decided_by_originator_id", "cluster_list_absent_vs_nonempty", "med_decides_between_different_neighbour_as", "reference_silent_pairs", "locrib_pairs_decided_after_ebgp_step", "locrib_triples_decided_after_ebgp_step"}

func zvC03Late(step string) bool {
	return step == "identifier" || step == "cluster_list" || step == "peer_address"
}

func TestVerifC03(t *testing.T) {
	r := vh.Start(t, "C03")
	defer r.Finish()
	zvSelQuiet()
	r.Rule("every ordered pair (a,b) of D = LOCAL_PREF{100,200} x AS_PATH len{1,2} x neighbour AS{65000,65100} x ORIGIN{0,1} x MED{0,10} x eBGP{f,t} x BGP-ID{1,2} x ORIGINATOR_ID{absent,1,3} x CLUSTER_LIST{absent,empty,1,2 entries} " +
		"x peer{.1,.2} x next hop{.1,.2} (6144 paths): a.Select(b) against the RFC reference comparator; LocRIB.AddPath(a), AddPath(b) -> BestPath for every ordered pair of D (thorough) / of the 3072 paths with next hop .1 (quick); " +
		"every 3-subset of the tie-prone sub-domain x 6 insertion orders on the LocRIB; evaluations = Select pairs + LocRIB histories; non-trivial = those on which the reference separates the candidates")
	r.Require(zvC03Required...)
	if r.IsReplay() {
		var c zvC03Case
		r.ReplayCase(&c)
		switch c.Kind {
		case "select":
			zvC03SelectPair(r, c.Paths[0], c.Paths[1])
		case "locrib":
			zvC03LocRIB(r, c.Paths, zvSelBuildAll(c.Paths), c.Order)
		default:
			r.Fatalf("unknown replay kind %q", c.Kind)
		}
		for _, k := range zvC03Required {
			r.Count(k, 1)
		}
		return
	}
	ds := zvSelFull.enumerate()
	ps := zvSelBuildAll(ds)
	ps2 := zvSelBuildAll(ds) // second object set: a pair (a,a') of equal attributes uses two objects
	n := len(ds)
	th := zvC03Throttle{}
	cnt := map[string]int64{}
	var evals, nontriv, notItemised int64
	t0, c0 := time.Now(), zvSelCPU()
	order2 := []int{0, 1}
	thorough := r.Thorough()
	lastStep, lastKey := "", ""
	for i := 0; i < n; i++ {
		if !r.Mine(i) {
			continue
		}
		if r.OutOfBudget() {
			r.Cap("time budget: pair enumeration not finished")
			break
		}
		a := ds[i]
		for j := 0; j < n; j++ {
			b := ds[j]
			want, step := zvSelRef(a, b)
			evals++
			if want == 0 {
				cnt["reference_silent_pairs"]++
				continue
			}
			nontriv++
			if step != lastStep {
				lastStep, lastKey = step, "step_"+step
			}
			cnt[lastKey]++
			if step == "identifier" && (a.ID < b.ID) != (a.effID() < b.effID()) {
				cnt["identifier_decided_by_originator_id"]++
			}
			if step == "cluster_list" && (a.CL < 0 || b.CL < 0) {
				cnt["cluster_list_absent_vs_nonempty"]++
			}
			if step == "med" && a.NAS != b.NAS {
				cnt["med_decides_between_different_neighbour_as"]++
			}
			// clause 1: Select
			var got int
			var pan bool
			if pan, _ = vh.Try(func() { got = zvSelSign(ps[i].Select(ps2[j])) }); pan || got != want {
				k, v := zvC03Feat(step, a, b)
				if th.ok(fmt.Sprint("select|", step, pan, got == 0, k, v)) {
					if !zvC03SelectPair(r, a, b) {
						r.Fatalf("fast and direct evaluation disagree for the pair %s / %s", a, b)
					}
				} else {
					notItemised++
				}
			}
			// clause 2: LocRIB, a first then b (the pair (b,a) supplies the other order);
			// quick tier: only the half of D with next hop .1
			if !thorough && (a.NH != 1 || b.NH != 1) {
				continue
			}
			evals++
			nontriv++
			if zvC03Late(step) {
				cnt["locrib_pairs_decided_after_ebgp_step"]++
			}
			pair := []zvSelPD{a, b}
			pp := []*route.Path{ps[i], ps2[j]}
			rib := New("zvC03")
			var best *route.Path
			if pan, _ = vh.Try(func() {
				rib.AddPath(zvSelPfx, pp[0])
				rib.AddPath(zvSelPfx, pp[1])
				best = rib.Get(zvSelPfx).BestPath()
			}); pan || (want > 0 && best != pp[0]) || (want < 0 && best != pp[1]) {
				// slow path decides (compares by attributes, not by pointer)
				if zvC03LocRIBWouldFail(pair, pp, order2) {
					k, v := zvC03Feat(step, a, b)
					if th.ok(fmt.Sprint("locrib2|", step, pan, k, v)) {
						zvC03LocRIB(r, pair, pp, order2)
					} else {
						notItemised++
					}
				}
			}
		}
	}
	r.Extra("pairs_max_shard_s", time.Since(t0).Seconds())
	r.Extra("pairs_max_shard_cpu_s", zvSelCPU()-c0)
	// clause 3: 3-subsets of the tie-prone sub-domain
	t0, c0 = time.Now(), zvSelCPU()
	s3 := zvSelDomSpec{LP: []int{100}, ASLen: []int{1}, Origin: []int{0}, MED: []int{0, 10}, EBGP: []bool{false},
		ID: []uint32{1, 2}, Orig: []uint32{0, 1, 3}, CL: []int{-1, 0, 1, 2}, Peer: []uint8{1, 2}, NH: []uint8{1}}
	if r.Thorough() {
		s3.LP = []int{100, 200}
		s3.EBGP = []bool{false, true}
	}
	d3 := s3.enumerate()
	p3 := zvSelBuildAll(d3)
	r.Extra("locrib_triple_domain", len(d3))
	idx := 0
outer:
	for i := 0; i < len(d3); i++ {
		for j := i + 1; j < len(d3); j++ {
			idx++
			if !r.Mine(idx) {
				continue
			}
			if r.OutOfBudget() {
				r.Cap("time budget: LocRIB 3-subset enumeration not finished")
				break outer
			}
			for k := j + 1; k < len(d3); k++ {
				tri := []zvSelPD{d3[i], d3[j], d3[k]}
				tp := []*route.Path{p3[i], p3[j], p3[k]}
				// is the reference winner decided at a late step against the runner-up?
				separated, late := false, false
				for x := 0; x < 3; x++ {
					for y := x + 1; y < 3; y++ {
						if s, st := zvSelRef(tri[x], tri[y]); s != 0 {
							separated = true
							late = late || zvC03Late(st)
						}
					}
				}
				for _, o := range zvC03Perm3 {
					evals++
					if separated {
						nontriv++
					}
					if late {
						cnt["locrib_triples_decided_after_ebgp_step"]++
					}
					if zvC03LocRIBWouldFail(tri, tp, o) {
						zvC03LocRIB(r, tri, tp, o) // itemised by signature; cheap enough on the sub-domain
					}
				}
			}
		}
	}
	r.Extra("triples_max_shard_s", time.Since(t0).Seconds())
	r.Extra("triples_max_shard_cpu_s", zvSelCPU()-c0)
	r.Eval(int(evals))
	r.Nontrivial(int(nontriv))
	for k, v := range cnt {
		r.Count(k, int(v))
	}
	if notItemised > 0 {
		r.Count("violating_cases_counted_but_not_itemised", int(notItemised))
	}
	r.Sample(zvC03Case{Kind: "select", Paths: []zvSelPD{ds[3], ds[40]}})
	r.Sample(zvC03Case{Kind: "locrib", Paths: []zvSelPD{d3[0], d3[9], d3[20]}, Order: []int{2, 0, 1}})
}

var zvC03Perm3 = [][]int{{0, 1, 2}, {0, 2, 1}, {1, 0, 2}, {1, 2, 0}, {2, 0, 1}, {2, 1, 0}}

// zvC03LocRIBWouldFail runs the LocRIB clause without reporting.
func zvC03LocRIBWouldFail(ds []zvSelPD, ps []*route.Path, order []int) bool {
	best := 0
	for i := 1; i < len(ds); i++ {
		if s, _ := zvSelRef(ds[i], ds[best]); s > 0 {
			best = i
		}
	}
	var gotKey string
	if pan, _ := vh.Try(func() {
		rib := New("zvC03")
		for _, x := range order {
			rib.AddPath(zvSelPfx, ps[x])
		}
		gotKey = zvC03KeyOf(rib.Get(zvSelPfx).BestPath())
	}); pan {
		return true
	}
	return gotKey != ds[best].refKey()
}
