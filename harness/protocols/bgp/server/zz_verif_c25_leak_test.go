package server

// C25, leak part — "no combination leaves a goroutine blocked forever": a peer is
// brought to some session state, the session is ended in every way the alphabet
// offers, the peer is disposed, and five minutes of virtual time pass. Every
// goroutine created since the peer was added must have finished by then: the
// peer is gone, nothing can ever wake a goroutine that still waits for it.
// Sequential histories on the real bgpServer under the virtual runtime (E4/E2,
// bound 0).

import (
	"fmt"
	"sort"
	"strings"
	"time"

	"github.com/bio-routing/bio-rd/zzverif/vh"
	"github.com/bio-routing/bio-rd/zzverif/vsched"
)

type zvC25LeakCase struct {
	Leak bool     `json:"leak_part"`
	Hist []string `json:"history"`
}

// evPeerEOF: the remote end closes the connection.
const evPeerEOF = "conn-eof"

func zvC25LeakRun(hist []string, trace bool) (leaked []string, x *vsched.Execution) {
	x = vsched.Exec(vsched.Config{MaxSteps: 400000, Sites: true, Trace: trace}, func() {
		var base int
		zvSessBeforeA = func() {
			for _, t := range vsched.Threads() {
				if t.ID > base {
					base = t.ID
				}
			}
		}
		defer func() { zvSessBeforeA = nil }()
		s := zvSessStart(zvSessCfg{Name: "c25-leak", A: zvPeerOpts{Addr: 9, Hold: 3 * time.Second}})
		for _, e := range hist {
			if e == evPeerEOF {
				if s.cA == nil {
					continue
				}
				s.cA.mu.Lock()
				s.cA.eof = true
				s.cA.mu.Unlock()
				vsched.Settle()
				vsched.Advance(10 * time.Millisecond)
				continue
			}
			switch e {
			case evOpen, evOpenBad, evKA, evUpd1, evUpd2, evNotif, evNotif1, evNotifVer, evNotifBad, evGarbage, evWFail:
				if s.cA == nil || s.cA.isClosed() {
					continue // nothing to receive on (e.g. all dial attempts were refused)
				}
			}
			s.apply(e)
		}
		if !s.disposed {
			s.apply(evDispose)
		}
		vsched.Advance(300 * time.Second)
		for _, t := range vsched.Threads() {
			if t.ID <= base || t.ID == 0 {
				continue
			}
			fn := t.Site
			if i := strings.Index(fn, " "); i >= 0 {
				fn = fn[i+1:]
			}
			leaked = append(leaked, fmt.Sprintf("%s blocked at %s in %s", t.Name, zvStripAddr(t.Blocked), fn))
		}
	})
	sort.Strings(leaked)
	return
}

// zvStripAddr removes addresses from an operation description (they differ between runs).
func zvStripAddr(s string) string {
	var b strings.Builder
	for i := 0; i < len(s); i++ {
		if s[i] == '@' || (s[i] == '0' && i+1 < len(s) && s[i+1] == 'x') {
			for i < len(s) && s[i] != ' ' && s[i] != ')' {
				i++
			}
			i--
			continue
		}
		b.WriteByte(s[i])
	}
	return b.String()
}

func zvC25LeakHistories(thorough bool) [][]string {
	reach := [][]string{
		nil,                             // never dialled
		{evT15},                         // OpenSent
		{evT15, evT1, evT1},             // OpenSent, polled twice
		{evT15, evOpen},                 // OpenConfirm
		{evT15, evOpen, evKA},           // Established, no routes
		{evT15, evOpen, evKA, evUpd1},   // Established with a route
		{evDialFail, evT15, evT15},      // connect attempts that fail
	}
	ends := [][]string{nil, {evNotif}, {evNotif1}, {evNotifVer}, {evNotifBad}, {evGarbage}, {evT4}, {evStop}, {evWFail, evT1, evT1}, {evPeerEOF}, {evUpd2, evNotif}}
	if thorough {
		ends = append(ends, []string{evNotif, evT15, evOpen, evKA}, []string{evT4, evT15, evOpen}, []string{evStop, evT15}, []string{evPeerEOF, evT15, evOpen, evKA, evNotif})
	}
	var out [][]string
	for _, r := range reach {
		for _, e := range ends {
			if len(r) == 0 && len(e) > 0 && e[0] != evStop && e[0] != evT4 {
				continue // nothing to receive on without a connection
			}
			if len(r) > 0 && r[0] == evDialFail && len(e) > 0 && e[0] != evStop && e[0] != evT4 {
				continue
			}
			out = append(out, append(append([]string{}, r...), e...))
		}
	}
	return out
}

func zvC25Leaks(r *vh.Run) {
	for i, h := range zvC25LeakHistories(r.Thorough()) {
		if !r.Mine(i) {
			continue
		}
		if r.OutOfBudget() {
			r.Cap("time budget (leak part)")
			return
		}
		leaked, x := zvC25LeakRun(h, false)
		r.Eval(1)
		r.Count("leak_histories", 1)
		r.States(1)
		r.Transitions(len(h) + 1)
		c := zvC25LeakCase{true, h}
		if x.Status != vsched.Completed {
			r.Violation(vh.Sig("clause", "leak-run-"+x.Status.String(), "blocked_in", strings.Join(x.BlockedIn, "|")), c, "history %v then dispose: execution %s %s %.300s", h, x.Status, x.Blocked, x.Crash)
			continue
		}
		r.Outcome(fmt.Sprint("leak", len(leaked)))
		seen := map[string]bool{}
		for _, l := range leaked {
			// one violation per distinct blocking site
			k := l[strings.Index(l, "blocked at"):]
			if seen[k] {
				continue
			}
			seen[k] = true
			r.Violation(vh.Sig("clause", "goroutine-leak", "where", k), c, "history %v, then the peer is disposed and 300 s pass: goroutine still %s (nothing can wake it any more); all leaked: %v", h, l, leaked)
		}
	}
}
