// Package vtime replaces "time" in instrumented packages: the clock, timers,
// tickers and Sleep belong to the virtual runtime; everything else is the real
// package.
package vtime

import (
	"time"

	"github.com/bio-routing/bio-rd/zzverif/vsched"
)

type (
	Duration = time.Duration
	Time     = time.Time
	Month    = time.Month
	Weekday  = time.Weekday
	Location = time.Location
)

const (
	Nanosecond  = time.Nanosecond
	Microsecond = time.Microsecond
	Millisecond = time.Millisecond
	Second      = time.Second
	Minute      = time.Minute
	Hour        = time.Hour
	RFC3339     = time.RFC3339
	RFC1123     = time.RFC1123
)

var (
	UTC   = time.UTC
	Local = time.Local
)

//go:norace
func Unix(sec, nsec int64) Time { return time.Unix(sec, nsec) }

//go:norace
func UnixMilli(ms int64) Time { return time.UnixMilli(ms) }

//go:norace
func ParseDuration(s string) (Duration, error) { return time.ParseDuration(s) }

//go:norace
func Parse(layout, value string) (Time, error) { return time.Parse(layout, value) }

//go:norace
func Date(y int, m Month, d, h, mi, s, ns int, l *Location) Time {
	return time.Date(y, m, d, h, mi, s, ns, l)
}

// Now is the virtual clock inside a controlled execution.
//
//go:norace
func Now() Time { return vsched.Now() }

//go:norace
func Since(t Time) Duration { return Now().Sub(t) }

//go:norace
func Until(t Time) Duration { return t.Sub(Now()) }

// Timer mirrors time.Timer.
type Timer struct {
	C <-chan Time
	h vsched.Timer
	r *time.Timer
}

//go:norace
func NewTimer(d Duration) *Timer {
	if !vsched.Active() {
		r := time.NewTimer(d)
		return &Timer{C: r.C, r: r}
	}
	h, c := vsched.NewTimer(d, 0)
	return &Timer{C: c, h: h}
}

//go:norace
func (t *Timer) Stop() bool {
	if t.r != nil {
		return t.r.Stop()
	}
	return t.h.Stop()
}

//go:norace
func (t *Timer) Reset(d Duration) bool {
	if t.r != nil {
		return t.r.Reset(d)
	}
	return t.h.Reset(d)
}

//go:norace
func After(d Duration) <-chan Time { return NewTimer(d).C }

//go:norace
func AfterFunc(d Duration, f func()) *Timer {
	if !vsched.Active() {
		r := time.AfterFunc(d, f)
		return &Timer{r: r}
	}
	return &Timer{h: vsched.AfterFunc(d, f)}
}

// Ticker mirrors time.Ticker.
type Ticker struct {
	C <-chan Time
	h vsched.Timer
	r *time.Ticker
}

//go:norace
func NewTicker(d Duration) *Ticker {
	if !vsched.Active() {
		r := time.NewTicker(d)
		return &Ticker{C: r.C, r: r}
	}
	h, c := vsched.NewTimer(d, d)
	return &Ticker{C: c, h: h}
}

//go:norace
func (t *Ticker) Stop() {
	if t.r != nil {
		t.r.Stop()
		return
	}
	t.h.Stop()
}

//go:norace
func (t *Ticker) Reset(d Duration) {
	if t.r != nil {
		t.r.Reset(d)
		return
	}
	t.h.Reset(d)
}

//go:norace
func Tick(d Duration) <-chan Time { return NewTicker(d).C }

//go:norace
func Sleep(d Duration) {
	if !vsched.Active() {
		time.Sleep(d)
		return
	}
	vsched.Sleep(d)
}
