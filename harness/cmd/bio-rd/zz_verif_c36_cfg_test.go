package main

// C36 — the bounded configuration grammar (DESIGN "### C36"): 1–2 groups × 0–2
// neighbours out of 3 addresses; every session-affecting setting at group level
// (inherited) and at neighbour level (overriding); structural changes; a policy
// definition that changes under an unchanged name. A configuration is a small
// Go value rendered to YAML text; the YAML goes through the daemon's real loader
// (config.GetConfig), so group→neighbour inheritance is the code under test's.

import (
	"fmt"
	"sort"
	"strings"
)

type zvC36Fam struct {
	AddPath string // "", "recv", "send2", "both"
	NHExt   bool
}

// zvC36Set holds the settings that may be written at group or at neighbour level
// (zero value = not written).
type zvC36Set struct {
	PeerAS, LocalAS uint32
	Hold            uint16
	TTL             uint8
	Passive, RR, RS int // 0 absent, 1 true, 2 false
	ClusterID       string
	RI              string
	LocalAddr       string
	Auth            string
	IPv4, IPv6      *zvC36Fam
	Import, Export  []string
	MPv4            bool // neighbour level only
}

type zvC36Neigh struct {
	Addr string
	S    zvC36Set
}

type zvC36Group struct {
	Name string
	S    zvC36Set
	N    []zvC36Neigh
}

type zvC36Cfg struct {
	Name   string
	NoBGP  bool   // the whole protocols section is absent
	Policy string // variant of the definition of policy "A"
	G      []zvC36Group
}

const (
	zvC36N1 = "10.0.0.2"
	zvC36N2 = "10.0.0.3"
	zvC36N3 = "2001:db8::3"
)

func zvC36Tri(b *strings.Builder, ind, key string, v int) {
	if v == 1 {
		fmt.Fprintf(b, "%s%s: true\n", ind, key)
	} else if v == 2 {
		fmt.Fprintf(b, "%s%s: false\n", ind, key)
	}
}

func zvC36FamYAML(b *strings.Builder, ind, key string, f *zvC36Fam) {
	if f == nil {
		return
	}
	if f.AddPath == "" && !f.NHExt {
		fmt.Fprintf(b, "%s%s: {}\n", ind, key)
		return
	}
	fmt.Fprintf(b, "%s%s:\n", ind, key)
	if f.NHExt {
		fmt.Fprintf(b, "%s  next_hop_extended: true\n", ind)
	}
	if f.AddPath != "" {
		fmt.Fprintf(b, "%s  add_path:\n", ind)
		if f.AddPath == "recv" || f.AddPath == "both" {
			fmt.Fprintf(b, "%s    receive: true\n", ind)
		}
		if f.AddPath == "send2" || f.AddPath == "both" {
			fmt.Fprintf(b, "%s    send:\n%s      multipath: true\n%s      path_count: 2\n", ind, ind, ind)
		}
	}
}

func zvC36List(l []string) string {
	q := make([]string, len(l))
	for i, s := range l {
		q[i] = fmt.Sprintf("%q", s)
	}
	return "[" + strings.Join(q, ", ") + "]"
}

func (s zvC36Set) yaml(b *strings.Builder, ind string, neigh bool) {
	if s.LocalAddr != "" {
		fmt.Fprintf(b, "%slocal_address: %s\n", ind, s.LocalAddr)
	}
	if s.PeerAS != 0 {
		fmt.Fprintf(b, "%speer_as: %d\n", ind, s.PeerAS)
	}
	if s.LocalAS != 0 {
		fmt.Fprintf(b, "%slocal_as: %d\n", ind, s.LocalAS)
	}
	if s.Hold != 0 {
		fmt.Fprintf(b, "%shold_time: %d\n", ind, s.Hold)
	}
	if s.TTL != 0 {
		fmt.Fprintf(b, "%sttl: %d\n", ind, s.TTL)
	}
	zvC36Tri(b, ind, "passive", s.Passive)
	zvC36Tri(b, ind, "route_reflector_client", s.RR)
	zvC36Tri(b, ind, "route_server_client", s.RS)
	if s.ClusterID != "" {
		fmt.Fprintf(b, "%scluster_id: %s\n", ind, s.ClusterID)
	}
	if s.RI != "" {
		fmt.Fprintf(b, "%srouting_instance: %s\n", ind, s.RI)
	}
	if s.Auth != "" {
		fmt.Fprintf(b, "%sauthentication_key: %q\n", ind, s.Auth)
	}
	if len(s.Import) > 0 {
		fmt.Fprintf(b, "%simport: %s\n", ind, zvC36List(s.Import))
	}
	if len(s.Export) > 0 {
		fmt.Fprintf(b, "%sexport: %s\n", ind, zvC36List(s.Export))
	}
	zvC36FamYAML(b, ind, "ipv4", s.IPv4)
	zvC36FamYAML(b, ind, "ipv6", s.IPv6)
	if neigh && s.MPv4 {
		fmt.Fprintf(b, "%sadvertise_ipv4_multiprotocol: true\n", ind)
	}
}

// zvC36PolicyA renders the definition of policy "A" in the given variant.
func zvC36PolicyA(variant string) string {
	matcher, then := "orlonger", "            local_pref: 200\n"
	switch variant {
	case "", "lp200":
	case "lp300": // "A with LOCAL_PREF changed"
		then = "            local_pref: 300\n"
	case "exact":
		matcher = "exact"
	case "med":
		then += "            med: 50\n"
	case "prepend":
		then += "            as_path_prepend:\n              asn: 64999\n              count: 2\n"
	case "nexthop":
		then += "            next_hop:\n              address: \"192.0.2.99\"\n"
	default:
		panic("unknown policy variant " + variant)
	}
	return "    - name: \"A\"\n      terms:\n        - name: \"t1\"\n          from:\n            route_filters:\n              - prefix: \"10.0.0.0/8\"\n                matcher: \"" + matcher + "\"\n          then:\n" + then + "            accept: true\n        - name: \"t2\"\n          then:\n            reject: true\n"
}

const zvC36PolicyB = `    - name: "B"
      terms:
        - name: "t1"
          from:
            route_filters:
              - prefix: "192.0.2.0/24"
                matcher: "exact"
          then:
            med: 77
            accept: true
        - name: "t2"
          from:
            route_filters:
              - prefix: "2001:db8::/32"
                matcher: "orlonger"
          then:
            accept: true
        - name: "t3"
          then:
            reject: true
`

// YAML renders the configuration file.
func (c zvC36Cfg) YAML() string {
	var b strings.Builder
	b.WriteString("routing_options:\n  autonomous_system: 64512\n  router_id: 192.0.2.1\n")
	b.WriteString("policy_options:\n  policy_statements:\n")
	b.WriteString(zvC36PolicyA(c.Policy))
	b.WriteString(zvC36PolicyB)
	if c.NoBGP {
		return b.String()
	}
	b.WriteString("protocols:\n  bgp:\n")
	if len(c.G) == 0 {
		b.WriteString("    groups: []\n")
		return b.String()
	}
	b.WriteString("    groups:\n")
	for _, g := range c.G {
		fmt.Fprintf(&b, "      - name: %q\n", g.Name)
		g.S.yaml(&b, "        ", false)
		if len(g.N) == 0 {
			b.WriteString("        neighbors: []\n")
			continue
		}
		b.WriteString("        neighbors:\n")
		for _, n := range g.N {
			fmt.Fprintf(&b, "          - peer_address: %q\n", n.Addr)
			n.S.yaml(&b, "            ", true)
		}
	}
	return b.String()
}

// ---------------------------------------------------------------------------
// the structured set of configurations

func zvC36Base() zvC36Cfg {
	return zvC36Cfg{Name: "base", G: []zvC36Group{{Name: "G1", S: zvC36Set{LocalAddr: "10.0.0.1", PeerAS: 65001},
		N: []zvC36Neigh{{Addr: zvC36N1}, {Addr: zvC36N2}}}}}
}

func (c zvC36Cfg) clone() zvC36Cfg {
	d := c
	d.G = make([]zvC36Group, len(c.G))
	for i, g := range c.G {
		d.G[i] = g
		d.G[i].N = append([]zvC36Neigh(nil), g.N...)
	}
	return d
}

// zvC36Delta is one named modification of a settings block.
type zvC36Delta struct {
	Name      string
	F         func(s *zvC36Set)
	NeighOnly bool
	Core      bool // part of the quick core at group level
	CoreN     bool // part of the quick core at neighbour level
}

func zvC36Deltas() []zvC36Delta {
	return []zvC36Delta{
		{Name: "peer_as=64512", F: func(s *zvC36Set) { s.PeerAS = 64512 }, Core: true},
		{Name: "local_as=65010", F: func(s *zvC36Set) { s.LocalAS = 65010 }, Core: true},
		{Name: "hold_time=30", F: func(s *zvC36Set) { s.Hold = 30 }, Core: true},
		{Name: "ttl=5", F: func(s *zvC36Set) { s.TTL = 5 }, Core: true, CoreN: true},
		// 1 is also what an external session without a ttl sends, but then the socket is set not to route as well
		{Name: "ttl=1", F: func(s *zvC36Set) { s.TTL = 1 }, Core: true},
		{Name: "passive=true", F: func(s *zvC36Set) { s.Passive = 1 }, Core: true},
		{Name: "passive=false", F: func(s *zvC36Set) { s.Passive = 2 }},
		{Name: "rr_client=true", F: func(s *zvC36Set) { s.RR = 1 }, Core: true},
		{Name: "rs_client=true", F: func(s *zvC36Set) { s.RS = 1 }, Core: true},
		{Name: "cluster_id=1.1.1.1", F: func(s *zvC36Set) { s.ClusterID = "1.1.1.1" }, Core: true},
		{Name: "rr_client+cluster_id", F: func(s *zvC36Set) { s.RR = 1; s.ClusterID = "2.2.2.2" }},
		{Name: "routing_instance=vrf1", F: func(s *zvC36Set) { s.RI = "vrf1" }, Core: true, CoreN: true},
		{Name: "routing_instance=main", F: func(s *zvC36Set) { s.RI = "main" }},
		{Name: "local_address=10.0.0.9", F: func(s *zvC36Set) { s.LocalAddr = "10.0.0.9" }, CoreN: true},
		{Name: "authentication_key", F: func(s *zvC36Set) { s.Auth = "s3cret" }, Core: true},
		{Name: "ipv6-family", F: func(s *zvC36Set) { s.IPv6 = &zvC36Fam{} }, Core: true},
		{Name: "ipv4-addpath-recv", F: func(s *zvC36Set) { s.IPv4 = &zvC36Fam{AddPath: "recv"} }, Core: true},
		{Name: "ipv4-addpath-send2", F: func(s *zvC36Set) { s.IPv4 = &zvC36Fam{AddPath: "send2"} }, Core: true},
		{Name: "ipv4-addpath-both", F: func(s *zvC36Set) { s.IPv4 = &zvC36Fam{AddPath: "both"} }},
		{Name: "ipv6-addpath-recv", F: func(s *zvC36Set) { s.IPv6 = &zvC36Fam{AddPath: "recv"} }, Core: true},
		// two families with different settings, and a policy-only change on top (reloaded in place)
		{Name: "ipv6-addpath-recv+import=A", F: func(s *zvC36Set) { s.IPv6 = &zvC36Fam{AddPath: "recv"}; s.Import = []string{"A"} }, Core: true},
		{Name: "next_hop_extended", F: func(s *zvC36Set) { s.IPv4 = &zvC36Fam{NHExt: true} }, Core: true},
		{Name: "multiprotocol_ipv4", F: func(s *zvC36Set) { s.MPv4 = true }, NeighOnly: true, CoreN: true},
		{Name: "import=A", F: func(s *zvC36Set) { s.Import = []string{"A"} }, Core: true, CoreN: true},
		{Name: "import=B", F: func(s *zvC36Set) { s.Import = []string{"B"} }, Core: true},
		{Name: "import=A,B", F: func(s *zvC36Set) { s.Import = []string{"A", "B"} }},
		{Name: "export=A", F: func(s *zvC36Set) { s.Export = []string{"A"} }, Core: true},
		{Name: "export=B", F: func(s *zvC36Set) { s.Export = []string{"B"} }, CoreN: true},
		{Name: "import=A+export=B", F: func(s *zvC36Set) { s.Import = []string{"A"}; s.Export = []string{"B"} }},
		// policy changes on a session with both families (in-place replacement has to reach both)
		{Name: "ipv6-family+import=A", F: func(s *zvC36Set) { s.IPv6 = &zvC36Fam{}; s.Import = []string{"A"} }, Core: true},
		{Name: "ipv6-family+export=B", F: func(s *zvC36Set) { s.IPv6 = &zvC36Fam{}; s.Export = []string{"B"} }, Core: true},
	}
}

// zvC36Structs are the structural variants of the base configuration.
func zvC36Structs() []zvC36Cfg {
	var l []zvC36Cfg
	add := func(name string, core bool, f func(c *zvC36Cfg)) {
		c := zvC36Base().clone()
		f(&c)
		c.Name = name
		if core {
			c.Name = "*" + name // marks membership of the quick core
		}
		l = append(l, c)
	}
	g2 := func(neigh ...zvC36Neigh) zvC36Group {
		return zvC36Group{Name: "G2", S: zvC36Set{LocalAddr: "10.0.0.1", PeerAS: 65002, Hold: 30, Import: []string{"B"}}, N: neigh}
	}
	add("no-n1", true, func(c *zvC36Cfg) { c.G[0].N = c.G[0].N[1:] })
	add("no-n2", false, func(c *zvC36Cfg) { c.G[0].N = c.G[0].N[:1] })
	add("no-neighbors", true, func(c *zvC36Cfg) { c.G[0].N = nil })
	add("no-groups", false, func(c *zvC36Cfg) { c.G = nil })
	add("no-bgp-section", true, func(c *zvC36Cfg) { c.NoBGP = true })
	add("plus-n3-v6", true, func(c *zvC36Cfg) {
		c.G[0].N = append(c.G[0].N, zvC36Neigh{Addr: zvC36N3, S: zvC36Set{LocalAddr: "2001:db8::1"}})
	})
	add("n1-moved-to-g2", true, func(c *zvC36Cfg) { c.G[0].N = c.G[0].N[1:]; c.G = append(c.G, g2(zvC36Neigh{Addr: zvC36N1})) })
	add("n1-moved-to-g2-first", false, func(c *zvC36Cfg) {
		c.G[0].N = c.G[0].N[1:]
		c.G = []zvC36Group{g2(zvC36Neigh{Addr: zvC36N1}), c.G[0]}
	})
	add("g2-with-n3", false, func(c *zvC36Cfg) { c.G = append(c.G, g2(zvC36Neigh{Addr: zvC36N3, S: zvC36Set{LocalAddr: "2001:db8::1"}})) })
	add("n1-also-in-vrf1", true, func(c *zvC36Cfg) {
		g := g2(zvC36Neigh{Addr: zvC36N1})
		g.S.RI = "vrf1"
		c.G = append(c.G, g)
	})
	add("neighbors-swapped", false, func(c *zvC36Cfg) { c.G[0].N[0], c.G[0].N[1] = c.G[0].N[1], c.G[0].N[0] })
	add("only-n2-passive-in-vrf1", false, func(c *zvC36Cfg) {
		c.G[0].N = c.G[0].N[1:]
		c.G[0].S.RI = "vrf1"
		c.G[0].S.Passive = 1
	})
	return l
}

// zvC36Universe returns the configurations of a tier, the indices of the core
// and the indices of the (smaller) triple set. Order and content are deterministic.
func zvC36Universe(thorough bool) (all []zvC36Cfg, core []int, tripleSet []int) {
	seen := map[string]bool{}
	isCore := map[int]bool{}
	add := func(c zvC36Cfg, core bool) {
		if strings.HasPrefix(c.Name, "*") {
			c.Name = c.Name[1:]
			core = true
		}
		y := c.YAML()
		if seen[y] {
			return
		}
		seen[y] = true
		if core {
			isCore[len(all)] = true
		}
		all = append(all, c)
	}
	add(zvC36Base(), true)
	deltas := zvC36Deltas()
	// every single-setting change, inherited from the group and on neighbour 1
	for _, d := range deltas {
		if !d.NeighOnly && (thorough || d.Core) {
			c := zvC36Base().clone()
			d.F(&c.G[0].S)
			c.Name = "group:" + d.Name
			add(c, d.Core)
		}
		if thorough || d.CoreN {
			c := zvC36Base().clone()
			d.F(&c.G[0].N[0].S)
			c.Name = "n1:" + d.Name
			add(c, d.CoreN)
		}
	}
	// the definition of policy A changes while the neighbours keep referring to "A"
	variants := []string{"lp300"}
	if thorough {
		variants = []string{"lp300", "exact", "med", "prepend", "nexthop"}
	}
	for _, v := range variants {
		for _, dir := range []string{"import", "export"} {
			if dir == "export" && !thorough {
				continue
			}
			c := zvC36Base().clone()
			if dir == "import" {
				c.G[0].S.Import = []string{"A"}
			} else {
				c.G[0].S.Export = []string{"A"}
			}
			c.Policy = v
			c.Name = "group:" + dir + "=A/policyA=" + v
			add(c, v == "lp300" && dir == "import")
		}
	}
	for _, c := range zvC36Structs() {
		add(c, false)
	}
	if thorough {
		// a neighbour-level value overriding a different group-level value
		type ov struct {
			name string
			g, n func(s *zvC36Set)
		}
		for _, o := range []ov{
			{"ttl", func(s *zvC36Set) { s.TTL = 5 }, func(s *zvC36Set) { s.TTL = 7 }},
			{"hold_time", func(s *zvC36Set) { s.Hold = 30 }, func(s *zvC36Set) { s.Hold = 60 }},
			{"passive", func(s *zvC36Set) { s.Passive = 1 }, func(s *zvC36Set) { s.Passive = 2 }},
			{"rr_client", func(s *zvC36Set) { s.RR = 1 }, func(s *zvC36Set) { s.RR = 2 }},
			{"rs_client", func(s *zvC36Set) { s.RS = 1 }, func(s *zvC36Set) { s.RS = 2 }},
			{"cluster_id", func(s *zvC36Set) { s.ClusterID = "1.1.1.1" }, func(s *zvC36Set) { s.ClusterID = "3.3.3.3" }},
			{"peer_as", func(s *zvC36Set) { s.PeerAS = 65001 }, func(s *zvC36Set) { s.PeerAS = 64512 }},
			{"local_as", func(s *zvC36Set) { s.LocalAS = 65010 }, func(s *zvC36Set) { s.LocalAS = 65011 }},
			{"import", func(s *zvC36Set) { s.Import = []string{"A"} }, func(s *zvC36Set) { s.Import = []string{"B"} }},
			{"export", func(s *zvC36Set) { s.Export = []string{"A"} }, func(s *zvC36Set) { s.Export = []string{"B"} }},
			{"ipv4", func(s *zvC36Set) { s.IPv4 = &zvC36Fam{AddPath: "recv"} }, func(s *zvC36Set) { s.IPv4 = &zvC36Fam{AddPath: "send2"} }},
			{"ipv6", func(s *zvC36Set) { s.IPv6 = &zvC36Fam{AddPath: "recv"} }, func(s *zvC36Set) { s.IPv6 = &zvC36Fam{} }},
			{"routing_instance", func(s *zvC36Set) { s.RI = "vrf1" }, func(s *zvC36Set) { s.RI = "main" }},
			{"authentication_key", func(s *zvC36Set) { s.Auth = "s3cret" }, func(s *zvC36Set) { s.Auth = "other" }},
		} {
			c := zvC36Base().clone()
			o.g(&c.G[0].S)
			o.n(&c.G[0].N[0].S)
			c.Name = "group+n1-override:" + o.name
			add(c, false)
		}
		// pairs of structural changes: every structural variant combined with a
		// setting change at group level and with one on the surviving/first neighbour
		structs := zvC36Structs()
		pick := []string{"ttl=5", "peer_as=64512", "passive=true", "routing_instance=vrf1", "ipv6-family", "ipv4-addpath-recv", "import=A", "authentication_key"}
		for _, sc := range structs {
			if sc.NoBGP || len(sc.G) == 0 {
				continue
			}
			for _, d := range deltas {
				use := false
				for _, p := range pick {
					use = use || p == d.Name
				}
				if !use {
					continue
				}
				c := sc.clone()
				d.F(&c.G[0].S)
				c.Name = strings.TrimPrefix(sc.Name, "*") + "+group:" + d.Name
				add(c, false)
				if len(sc.G[len(sc.G)-1].N) > 0 && (d.Name == "ttl=5" || d.Name == "import=A" || d.Name == "routing_instance=vrf1") {
					c := sc.clone()
					g := &c.G[len(c.G)-1]
					d.F(&g.N[len(g.N)-1].S)
					c.Name = strings.TrimPrefix(sc.Name, "*") + "+lastneighbor:" + d.Name
					add(c, false)
				}
			}
		}
	}
	for i := range all {
		if isCore[i] {
			core = append(core, i)
		}
	}
	sort.Ints(core)
	// triples: a sub-core in the quick tier, the whole core in the thorough tier
	if thorough {
		tripleSet = core
	} else {
		want := map[string]bool{"base": true, "group:ttl=5": true, "group:peer_as=64512": true, "group:passive=true": true, "group:import=A": true,
			"group:import=B": true, "group:import=A/policyA=lp300": true, "group:ipv4-addpath-recv": true, "n1:routing_instance=vrf1": true,
			"no-n1": true, "no-bgp-section": true, "n1-moved-to-g2": true}
		for _, i := range core {
			if want[all[i].Name] {
				tripleSet = append(tripleSet, i)
			}
		}
	}
	return
}
