package server

// C07, concurrent part — the session leaves Established WHILE its import policy
// is being replaced (engine E3): one thread delivers the event that ends the
// session (the FSM goroutine tears the session down), another one calls
// bgpServer.ReplaceImportFilterChain; every schedule up to a deviation bound on
// the real server under the virtual runtime; the C07 oracle is evaluated at the
// final quiescent point.

import (
	"fmt"

	"github.com/bio-routing/bio-rd/routingtable/filter"
	"github.com/bio-routing/bio-rd/zzverif/vh"
	"github.com/bio-routing/bio-rd/zzverif/vsched"
)

type zvC07ConcCase struct {
	Cfg      string `json:"config"`
	LeftBy   string `json:"left_by"`
	NewChain string `json:"new_import_policy"`
	Schedule []int  `json:"schedule"`
	Bound    int    `json:"deviation_bound"`
}

func zvC07Chains() map[string]filter.Chain {
	return map[string]filter.Chain{
		"reject-all":        filter.NewDrainFilterChain(),
		"accept-all":        filter.NewAcceptAllFilterChain(),
		"set-localpref-300": zvChainSetLocalPref(300),
	}
}

var zvC07ChainNames = []string{"reject-all", "set-localpref-300", "accept-all"}

func zvC07ConcRun(r *vh.Run, cfg zvSessCfg, c zvC07ConcCase, only []int) {
	var o zvObs
	body := func() {
		vsched.SetExploring(false)
		s := zvSessStart(cfg)
		for _, e := range []string{evT15, evOpen, evKA, evUpd1, evUpd2} {
			s.apply(e)
		}
		if zvFSMState(s.fA) != stateNameEstablished {
			panic("fixture: session not established")
		}
		chain := zvC07Chains()[c.NewChain]
		ip := zvPeerIP(cfg.A)
		vsched.SetExploring(true)
		vsched.GoNamed("session-ends", func() {
			switch c.LeftBy {
			case evNotif:
				s.cA.deliver(zvwNotification(6, 4))
			case evGarbage:
				s.cA.deliver([]byte{1, 2, 3, 4, 5, 6, 7, 8, 9, 10, 11, 12, 13, 14, 15, 16, 0, 19, 4})
			}
		})
		vsched.GoNamed("policy-replace", func() { s.w.srv.ReplaceImportFilterChain(s.w.vrf, ip, chain) })
		vsched.Settle()
		vsched.SetExploring(false)
		o = s.observe()
	}
	check := func(x *vsched.Execution) {
		r.Eval(1)
		r.Count("conc_executions", 1)
		cc := c
		cc.Schedule = x.Choices
		if x.Status != vsched.Completed {
			r.Violation(vh.Sig("clause", "conc-run-"+x.Status.String(), "config", cfg.Name), cc, "teardown || policy replacement: execution %s %s %.300s", x.Status, x.Blocked, x.Crash)
			return
		}
		r.Outcome(fmt.Sprint("conc", cfg.Name, c.LeftBy, c.NewChain, o.State, o.LocFromA, o.RibClients))
		if o.State == stateNameEstablished {
			r.Violation(vh.Sig("clause", "conc-still-established", "config", cfg.Name), cc, "fixture: session still established after %s", c.LeftBy)
			return
		}
		r.Count("conc_left_established", 1)
		bClients := uint64(0)
		if o.BState == stateNameEstablished {
			bClients = 1
		}
		if len(o.LocFromA) > 0 {
			r.Violation(vh.Sig("clause", "locrib-not-withdrawn", "config", cfg.Name, "mode", "concurrent-policy-replace", "new", c.NewChain), cc,
				"session left Established (%s) while its import policy was replaced by %s: the Loc-RIB still holds %v learned over it", c.LeftBy, c.NewChain, o.LocFromA)
		}
		if o.RibClients != bClients {
			r.Violation(vh.Sig("clause", "adjribout-still-registered", "config", cfg.Name, "mode", "concurrent-policy-replace"), cc, "session is %s but the Loc-RIB has %d clients (expected %d)", o.State, o.RibClients, bClients)
		}
		if o.ContribAS {
			r.Violation(vh.Sig("clause", "asn-contribution", "config", cfg.Name, "mode", "concurrent-policy-replace"), cc, "session is %s but its local ASN still counts as contributing", o.State)
		}
	}
	vcfg := vsched.Config{StrictDeviations: true, MaxSteps: 200000}
	if only != nil {
		vcfg.Trace, vcfg.Sites = true, true
		x := vsched.Replay(vcfg, only, body)
		for _, l := range x.Log {
			fmt.Println("   ", l)
		}
		check(x)
		return
	}
	e := &vsched.Explorer{Bound: c.Bound, Body: body, Check: check, Stop: r.OutOfBudget, Cfg: vcfg}
	e.Run()
	if e.Err != nil {
		r.Fatalf("concurrent scenario %+v: %v", c, e.Err)
	}
	if e.Capped {
		r.Cap("time budget (concurrent part)")
	}
	r.States(e.Executions)
	r.Transitions(e.Executions)
}

// zvC07Concurrent enumerates (configuration x way of leaving Established x new import policy); idx continues the sharding of the sequential part.
func zvC07Concurrent(r *vh.Run, idx int) {
	bound := 2
	if r.Thorough() {
		bound = 3
	}
	for _, cfg := range zvSessCfgs() {
		if cfg.Name != "ebgp-active" && cfg.Name != "ebgp-import-sets-localpref" {
			continue
		}
		for _, by := range []string{evNotif, evGarbage} {
			for _, ch := range zvC07ChainNames {
				idx++
				if !r.Mine(idx) {
					continue
				}
				zvC07ConcRun(r, cfg, zvC07ConcCase{Cfg: cfg.Name, LeftBy: by, NewChain: ch, Bound: bound}, nil)
			}
		}
	}
}
