// Package vclock replaces "github.com/benbjohnson/clock" in instrumented
// packages (the IS-IS server keeps a package-level clock.Clock and creates all
// its tickers through it). Inside a controlled execution the clock, tickers,
// timers and Sleep belong to the virtual runtime (vsched), exactly like the
// vtime shim does for package "time"; outside of one it is the real time
// package. Only the part of the benbjohnson API that is meaningful on a
// scheduler-owned clock is provided; the context helpers (WithDeadline,
// WithTimeout) and the Mock type are deliberately absent, so that a future use
// of them in an instrumented package fails to compile instead of silently
// running on the wall clock.
package vclock

import (
	"time"

	"github.com/bio-routing/bio-rd/zzverif/vsched"
)

// Duration is re-exported like the original package does.
type Duration = time.Duration

// Clock is the subset of clock.Clock offered on the virtual clock.
type Clock interface {
	After(d time.Duration) <-chan time.Time
	AfterFunc(d time.Duration, f func()) *Timer
	Now() time.Time
	Since(t time.Time) time.Duration
	Until(t time.Time) time.Duration
	Sleep(d time.Duration)
	Tick(d time.Duration) <-chan time.Time
	Ticker(d time.Duration) *Ticker
	Timer(d time.Duration) *Timer
}

// New returns the clock: virtual inside vsched.Exec, real otherwise (decided per call).
func New() Clock { return &vclock{} }

type vclock struct{}

func (c *vclock) Now() time.Time { return vsched.Now() }

func (c *vclock) Since(t time.Time) time.Duration { return vsched.Now().Sub(t) }

func (c *vclock) Until(t time.Time) time.Duration { return t.Sub(vsched.Now()) }

func (c *vclock) Sleep(d time.Duration) {
	if !vsched.Active() {
		time.Sleep(d)
		return
	}
	vsched.Sleep(d)
}

func (c *vclock) After(d time.Duration) <-chan time.Time { return c.Timer(d).C }

func (c *vclock) Tick(d time.Duration) <-chan time.Time { return c.Ticker(d).C }

func (c *vclock) AfterFunc(d time.Duration, f func()) *Timer {
	if !vsched.Active() {
		return &Timer{r: time.AfterFunc(d, f)}
	}
	return &Timer{h: vsched.AfterFunc(d, f)}
}

func (c *vclock) Timer(d time.Duration) *Timer {
	if !vsched.Active() {
		r := time.NewTimer(d)
		return &Timer{C: r.C, r: r}
	}
	h, ch := vsched.NewTimer(d, 0)
	return &Timer{C: ch, h: h}
}

func (c *vclock) Ticker(d time.Duration) *Ticker {
	if d <= 0 {
		// same contract as time.NewTicker, which the real clock wraps
		panic("non-positive interval for NewTicker")
	}
	if !vsched.Active() {
		r := time.NewTicker(d)
		return &Ticker{C: r.C, r: r}
	}
	h, ch := vsched.NewTimer(d, d)
	return &Ticker{C: ch, h: h}
}

// Timer mirrors clock.Timer.
type Timer struct {
	C <-chan time.Time
	h vsched.Timer
	r *time.Timer
}

func (t *Timer) Stop() bool {
	if t.r != nil {
		return t.r.Stop()
	}
	return t.h.Stop()
}

func (t *Timer) Reset(d time.Duration) bool {
	if t.r != nil {
		return t.r.Reset(d)
	}
	return t.h.Reset(d)
}

// Ticker mirrors clock.Ticker.
type Ticker struct {
	C <-chan time.Time
	h vsched.Timer
	r *time.Ticker
}

func (t *Ticker) Stop() {
	if t.r != nil {
		t.r.Stop()
		return
	}
	t.h.Stop()
}

func (t *Ticker) Reset(d time.Duration) {
	if t.r != nil {
		t.r.Reset(d)
		return
	}
	// vsched.Timer.Reset re-arms the next deadline; the period of a virtual
	// ticker is fixed at creation, which is all the instrumented code needs.
	t.h.Reset(d)
}
