package server

// Shared helpers of the BMP checks C27 and C28: a hand-written BMP/BGP message
// builder that records where every length/count field sits (the repo's own
// serializers are deliberately not used: the byte streams are the *input* of
// the code under test and must not depend on it), an in-memory net.Conn, a
// discard logger and a recording route table client.

import (
	"encoding/binary"
	"fmt"
	"io"
	"net"
	"runtime"
	"sort"
	"strings"
	"time"

	bnet "github.com/bio-routing/bio-rd/net"
	"github.com/bio-routing/bio-rd/route"
	biolog "github.com/bio-routing/bio-rd/util/log"
)

// ---------------------------------------------------------------------------
// byte builder with a field map
// ---------------------------------------------------------------------------

// zvBmpField describes one length or count field of a built stream.
type zvBmpField struct {
	Name string `json:"name"` // e.g. "bmp.len", "tlv.len", "stats.count", "open.optlen"
	Msg  int    `json:"msg"`  // index of the BMP message the field belongs to
	Off  int    `json:"off"`  // offset in the stream
	W    int    `json:"w"`    // width in bytes
	True uint64 `json:"true"` // the correct value
}

// zvBmpMark is the start of one BMP message inside a stream.
type zvBmpMark struct {
	Off  int
	Type uint8
}

type zvBmpBuf struct {
	B      []byte
	Fields []zvBmpField
	Marks  []zvBmpMark
}

func (z *zvBmpBuf) u8(v uint8)    { z.B = append(z.B, v) }
func (z *zvBmpBuf) u16(v uint16)  { z.B = binary.BigEndian.AppendUint16(z.B, v) }
func (z *zvBmpBuf) u32(v uint32)  { z.B = binary.BigEndian.AppendUint32(z.B, v) }
func (z *zvBmpBuf) u64(v uint64)  { z.B = binary.BigEndian.AppendUint64(z.B, v) }
func (z *zvBmpBuf) raw(b ...byte) { z.B = append(z.B, b...) }

// lenField reserves w bytes for a length/count field and returns its index.
func (z *zvBmpBuf) lenField(name string, w int) int {
	z.Fields = append(z.Fields, zvBmpField{Name: name, Msg: len(z.Marks) - 1, Off: len(z.B), W: w})
	for i := 0; i < w; i++ {
		z.B = append(z.B, 0)
	}
	return len(z.Fields) - 1
}

// setLen writes the true value of a reserved field.
func (z *zvBmpBuf) setLen(idx int, v uint64) {
	f := &z.Fields[idx]
	f.True = v
	zvBmpPut(z.B, f.Off, f.W, v)
}

func zvBmpPut(b []byte, off, w int, v uint64) {
	for i := 0; i < w; i++ {
		b[off+w-1-i] = byte(v >> (8 * uint(i)))
	}
}

// ---------------------------------------------------------------------------
// BMP messages
// ---------------------------------------------------------------------------

const (
	zvBmpFlagV = 0x80
	zvBmpFlagL = 0x40
	zvBmpFlagA = 0x20
)

// zvBmpPeer is the content of a per-peer header.
type zvBmpPeer struct {
	RD    uint64
	Addr  [16]byte
	V6    bool
	Post  bool // L flag: post-policy
	AS2   bool // A flag: legacy 2-byte AS_PATH
	AS    uint32
	BGPID uint32
	TS    uint32
}

func zvBmpAddr4(a, b, c, d byte) [16]byte {
	var x [16]byte
	x[12], x[13], x[14], x[15] = a, b, c, d
	return x
}

func zvBmpAddr6(last byte) [16]byte {
	return [16]byte{0x20, 0x01, 0x0d, 0xb8, 0, 0, 0, 0, 0, 0, 0, 0, 0, 0, 0, last}
}

// begin starts a BMP message and returns the index of its length field.
func (z *zvBmpBuf) begin(typ uint8) int {
	z.Marks = append(z.Marks, zvBmpMark{Off: len(z.B), Type: typ})
	z.u8(3)
	l := z.lenField("bmp.len", 4)
	z.u8(typ)
	return l
}

func (z *zvBmpBuf) end(l int) {
	z.setLen(l, uint64(len(z.B)-z.Marks[len(z.Marks)-1].Off))
}

func (z *zvBmpBuf) perPeer(p zvBmpPeer) {
	typ := uint8(0)
	if p.RD != 0 {
		typ = 1
	}
	z.u8(typ)
	fl := uint8(0)
	if p.V6 {
		fl |= zvBmpFlagV
	}
	if p.Post {
		fl |= zvBmpFlagL
	}
	if p.AS2 {
		fl |= zvBmpFlagA
	}
	z.u8(fl)
	z.u64(p.RD)
	z.raw(p.Addr[:]...)
	z.u32(p.AS)
	z.u32(p.BGPID)
	z.u32(p.TS)
	z.u32(0)
}

type zvBmpTLV struct {
	Type uint16
	Val  []byte
}

func (z *zvBmpBuf) tlvs(name string, ts []zvBmpTLV) {
	for _, t := range ts {
		z.u16(t.Type)
		l := z.lenField(name, 2)
		z.raw(t.Val...)
		z.setLen(l, uint64(len(t.Val)))
	}
}

func (z *zvBmpBuf) initiation(ts ...zvBmpTLV) {
	l := z.begin(4)
	z.tlvs("tlv.len", ts)
	z.end(l)
}

func (z *zvBmpBuf) termination(ts ...zvBmpTLV) {
	l := z.begin(5)
	z.tlvs("tlv.len", ts)
	z.end(l)
}

func (z *zvBmpBuf) stats(p zvBmpPeer, ts ...zvBmpTLV) {
	l := z.begin(1)
	z.perPeer(p)
	c := z.lenField("stats.count", 4)
	z.setLen(c, uint64(len(ts)))
	z.tlvs("stat.len", ts)
	z.end(l)
}

func (z *zvBmpBuf) peerDown(p zvBmpPeer, reason uint8, data func()) {
	l := z.begin(2)
	z.perPeer(p)
	z.u8(reason)
	if data != nil {
		data()
	}
	z.end(l)
}

func (z *zvBmpBuf) routeMon(p zvBmpPeer, bgp func()) {
	l := z.begin(0)
	z.perPeer(p)
	bgp()
	z.end(l)
}

func (z *zvBmpBuf) routeMirror(p zvBmpPeer, ts ...zvBmpTLV) {
	l := z.begin(6)
	z.perPeer(p)
	z.tlvs("tlv.len", ts)
	z.end(l)
}

// ---------------------------------------------------------------------------
// BGP messages
// ---------------------------------------------------------------------------

// bgp writes marker, length and type, runs body and patches the length.
func (z *zvBmpBuf) bgp(typ uint8, body func()) {
	start := len(z.B)
	for i := 0; i < 16; i++ {
		z.u8(0xff)
	}
	l := z.lenField("bgp.len", 2)
	z.u8(typ)
	if body != nil {
		body()
	}
	z.setLen(l, uint64(len(z.B)-start))
}

type zvBmpCap struct {
	Code uint8
	Val  []byte
}

type zvBmpOpen struct {
	ASN2  uint16
	Hold  uint16
	ID    uint32
	Caps  []zvBmpCap
	Split bool // every capability in an optional parameter of its own
}

func zvBmpCapMP(afi uint16, safi uint8) zvBmpCap {
	return zvBmpCap{1, []byte{byte(afi >> 8), byte(afi), 0, safi}}
}
func zvBmpCapASN4(asn uint32) zvBmpCap {
	return zvBmpCap{65, binary.BigEndian.AppendUint32(nil, asn)}
}

// zvBmpCapAddPath: one tuple per family, sr = 1 receive, 2 send, 3 both.
func zvBmpCapAddPath(sr uint8, afis ...uint16) zvBmpCap {
	var v []byte
	for _, a := range afis {
		v = append(v, byte(a>>8), byte(a), 1, sr)
	}
	return zvBmpCap{69, v}
}

func (z *zvBmpBuf) open(o zvBmpOpen) {
	z.bgp(1, func() {
		z.u8(4)
		z.u16(o.ASN2)
		z.u16(o.Hold)
		z.u32(o.ID)
		ol := z.lenField("open.optlen", 1)
		start := len(z.B)
		emit := func(caps []zvBmpCap) {
			if len(caps) == 0 {
				return
			}
			z.u8(2)
			pl := z.lenField("open.paramlen", 1)
			ps := len(z.B)
			for _, c := range caps {
				z.u8(c.Code)
				cl := z.lenField("open.caplen", 1)
				z.raw(c.Val...)
				z.setLen(cl, uint64(len(c.Val)))
			}
			z.setLen(pl, uint64(len(z.B)-ps))
		}
		if o.Split {
			for _, c := range o.Caps {
				emit([]zvBmpCap{c})
			}
		} else {
			emit(o.Caps)
		}
		z.setLen(ol, uint64(len(z.B)-start))
	})
}

func (z *zvBmpBuf) peerUp(p zvBmpPeer, local [16]byte, sent, recv zvBmpOpen, info []byte) {
	l := z.begin(3)
	z.perPeer(p)
	z.raw(local[:]...)
	z.u16(179)
	z.u16(40000)
	z.open(sent)
	z.open(recv)
	z.raw(info...)
	z.end(l)
}

// zvBmpNLRI is one prefix of an UPDATE.
type zvBmpNLRI struct {
	ID   uint32 // path identifier (only written when the update uses add-path)
	Len  uint8
	Addr []byte // ceil(Len/8) bytes
	V6   bool
}

func (n zvBmpNLRI) String() string {
	full := make([]byte, 16)
	copy(full, n.Addr)
	if !n.V6 {
		return fmt.Sprintf("%d.%d.%d.%d/%d", full[0], full[1], full[2], full[3], n.Len)
	}
	return fmt.Sprintf("%s/%d", net.IP(full).String(), n.Len)
}

// zvBmpUpdate describes a BGP UPDATE.
type zvBmpUpdate struct {
	AddPath   bool
	AS4       bool
	Withdraw4 []zvBmpNLRI
	ASPath    []uint32 // one AS_SEQUENCE; nil = no path attributes at all
	NextHop4  []byte
	Rich      bool // add MED, LOCAL_PREF, ATOMIC_AGGREGATE, AGGREGATOR, communities, ... (C27 seeds)
	Reach6    []zvBmpNLRI
	NextHop6  []byte
	Unreach6  []zvBmpNLRI
	NLRI4     []zvBmpNLRI
}

func (z *zvBmpBuf) nlris(addPath bool, ns []zvBmpNLRI) {
	for _, n := range ns {
		if addPath {
			z.u32(n.ID)
		}
		z.lenFieldSet("nlri.pfxlen", 1, uint64(n.Len))
		z.raw(n.Addr...)
	}
}

func (z *zvBmpBuf) lenFieldSet(name string, w int, v uint64) {
	i := z.lenField(name, w)
	z.setLen(i, v)
}

func (z *zvBmpBuf) attr(flags, code uint8, body func()) {
	z.u8(flags)
	z.u8(code)
	w := 1
	if flags&0x10 != 0 {
		w = 2
	}
	l := z.lenField("attr.len", w)
	s := len(z.B)
	body()
	z.setLen(l, uint64(len(z.B)-s))
}

func (z *zvBmpBuf) update(u zvBmpUpdate) {
	z.bgp(2, func() {
		wl := z.lenField("upd.withdrawnlen", 2)
		s := len(z.B)
		z.nlris(u.AddPath, u.Withdraw4)
		z.setLen(wl, uint64(len(z.B)-s))
		al := z.lenField("upd.attrlen", 2)
		s = len(z.B)
		if u.ASPath != nil {
			z.attr(0x40, 1, func() { z.u8(0) })
			z.attr(0x40, 2, func() {
				z.u8(2)
				z.lenFieldSet("aspath.count", 1, uint64(len(u.ASPath)))
				for _, a := range u.ASPath {
					if u.AS4 {
						z.u32(a)
					} else {
						z.u16(uint16(a))
					}
				}
			})
			if u.NextHop4 != nil {
				z.attr(0x40, 3, func() { z.raw(u.NextHop4...) })
			}
			if u.Rich {
				z.attr(0x80, 4, func() { z.u32(10) })
				z.attr(0x40, 5, func() { z.u32(200) })
				z.attr(0x40, 6, func() {})
				z.attr(0xc0, 7, func() { z.u16(64999); z.raw(192, 0, 2, 9) })
				z.attr(0xc0, 8, func() { z.u32(0xfde80001); z.u32(0xfde80002) })
				z.attr(0x80, 9, func() { z.u32(0x0a0a0a0a) })
				z.attr(0x80, 10, func() { z.u32(0x0b0b0b0b) })
				z.attr(0xd0, 32, func() { z.u32(64999); z.u32(1); z.u32(2) })
				z.attr(0xc0, 99, func() { z.raw(1, 2, 3) })
			}
		}
		if len(u.Reach6) > 0 {
			z.attr(0x90, 14, func() {
				z.u16(2)
				z.u8(1)
				z.lenFieldSet("mpreach.nhlen", 1, uint64(len(u.NextHop6)))
				z.raw(u.NextHop6...)
				z.u8(0)
				z.nlris(u.AddPath, u.Reach6)
			})
		}
		if len(u.Unreach6) > 0 {
			z.attr(0x90, 15, func() {
				z.u16(2)
				z.u8(1)
				z.nlris(u.AddPath, u.Unreach6)
			})
		}
		z.setLen(al, uint64(len(z.B)-s))
		z.nlris(u.AddPath, u.NLRI4)
	})
}

// ---------------------------------------------------------------------------
// in-memory connection
// ---------------------------------------------------------------------------

// zvBmpWedge is thrown by the connection when the code keeps reading long
// after the end of the stream was reported.
type zvBmpWedge struct{}

type zvBmpConn struct {
	data     []byte
	pos      int
	closed   bool
	bounds   []int            // stream offsets of message starts (after the first) and the end
	nextB    int              // next entry of bounds to fire
	onBound  func(k int) bool // called before the read at bounds[k]; false = report EOF now
	cut      bool
	endReads int
	written  int
	closes   int
}

func zvBmpNewConn(data []byte) *zvBmpConn { return &zvBmpConn{data: data} }

func (c *zvBmpConn) Read(p []byte) (int, error) {
	if len(p) == 0 {
		return 0, nil
	}
	if c.onBound != nil && !c.cut {
		for c.nextB < len(c.bounds) && c.bounds[c.nextB] <= c.pos {
			k := c.nextB
			c.nextB++
			if !c.onBound(k) {
				c.cut = true
				break
			}
		}
	}
	if c.closed {
		return 0, net.ErrClosed
	}
	if c.cut || c.pos >= len(c.data) {
		c.endReads++
		if c.endReads > 64 {
			panic(zvBmpWedge{})
		}
		return 0, io.EOF
	}
	n := copy(p, c.data[c.pos:])
	c.pos += n
	return n, nil
}

func (c *zvBmpConn) Write(p []byte) (int, error) {
	if c.closed {
		return 0, net.ErrClosed
	}
	c.written += len(p)
	return len(p), nil
}
func (c *zvBmpConn) Close() error                     { c.closed = true; c.closes++; return nil }
func (c *zvBmpConn) LocalAddr() net.Addr              { return &net.TCPAddr{IP: net.IP{192, 0, 2, 1}, Port: 11019} }
func (c *zvBmpConn) RemoteAddr() net.Addr             { return &net.TCPAddr{IP: net.IP{192, 0, 2, 2}, Port: 40001} }
func (c *zvBmpConn) SetDeadline(time.Time) error      { return nil }
func (c *zvBmpConn) SetReadDeadline(time.Time) error  { return nil }
func (c *zvBmpConn) SetWriteDeadline(time.Time) error { return nil }

// ---------------------------------------------------------------------------
// discard logger
// ---------------------------------------------------------------------------

type zvBmpNopLog struct{}

func (zvBmpNopLog) Errorf(string, ...interface{})                     {}
func (zvBmpNopLog) Infof(string, ...interface{})                      {}
func (zvBmpNopLog) Debugf(string, ...interface{})                     {}
func (zvBmpNopLog) Error(string)                                      {}
func (zvBmpNopLog) Info(string)                                       {}
func (zvBmpNopLog) Debug(string)                                      {}
func (l zvBmpNopLog) WithFields(biolog.Fields) biolog.LoggerInterface { return l }
func (l zvBmpNopLog) WithError(error) biolog.LoggerInterface          { return l }

func zvBmpQuiet() { biolog.SetLogger(zvBmpNopLog{}) }

// ---------------------------------------------------------------------------
// constructing the receiver side
// ---------------------------------------------------------------------------

var zvBmpRouterIP = net.IP{192, 0, 2, 2}

// zvBmpNewRouter builds a receiver with one passive, statically configured
// router through the public constructor path (no goroutine is started for a
// passive router).
func zvBmpNewRouter(cfg BMPReceiverConfig) (*BMPReceiver, *Router, error) {
	b := NewBMPReceiver(cfg)
	if err := b.AddRouter(zvBmpRouterIP, 11019, true, false); err != nil {
		return nil, nil, err
	}
	ri := b.GetRouter(zvBmpRouterIP.String())
	r, ok := ri.(*Router)
	if !ok || r == nil {
		return nil, nil, fmt.Errorf("GetRouter(%s) returned %T", zvBmpRouterIP, ri)
	}
	return b, r, nil
}

// zvBmpServe serves one connection synchronously (the receiver's own
// per-connection entry point, which wraps Router.serve).
func zvBmpServe(b *BMPReceiver, r *Router, c net.Conn) error {
	return b.handleConnection(c, r, true, false)
}

// ---------------------------------------------------------------------------
// panic attribution
// ---------------------------------------------------------------------------

type zvBmpPanic struct {
	Text  string `json:"text"`
	Kind  string `json:"kind"`
	Site  string `json:"site"` // innermost function of the repo on the panicking stack
	Via   string `json:"via"`  // the BMP message handler it was reached through
	Wedge bool   `json:"wedge,omitempty"`
}

// zvBmpCatch runs f; a panic is converted into a description whose Site/Via
// are function names (stable across inputs).
func zvBmpCatch(f func()) (p *zvBmpPanic) {
	defer func() {
		e := recover()
		if e == nil {
			return
		}
		p = &zvBmpPanic{Text: fmt.Sprint(e)}
		if _, ok := e.(zvBmpWedge); ok {
			p.Wedge = true
			p.Text = "the connection handler kept calling Read after the stream had ended"
		}
		p.Kind = zvBmpPanicKind(p.Text)
		pcs := make([]uintptr, 64)
		n := runtime.Callers(2, pcs)
		fr := runtime.CallersFrames(pcs[:n])
		const mod = "github.com/bio-routing/bio-rd/"
		for {
			f, more := fr.Next()
			fn := f.Function
			if strings.HasPrefix(fn, mod) && !strings.Contains(fn, ".zv") && !strings.Contains(fn, "*zv") && !strings.Contains(fn, ".TestVerif") && !strings.Contains(fn, ".TestZv") && !strings.Contains(fn, "/zzverif/") {
				short := strings.TrimPrefix(fn, mod)
				if p.Site == "" {
					p.Site = short
				}
				if p.Via == "" && (strings.Contains(short, "(*Router).process") || strings.HasSuffix(short, ".recvBMPMsg") || strings.Contains(short, "bmp/packet.Decode")) && !strings.HasSuffix(short, ".processMsg") {
					p.Via = short[strings.LastIndex(short, ".")+1:]
				}
			}
			if !more {
				break
			}
		}
	}()
	f()
	return nil
}

func zvBmpPanicKind(s string) string {
	switch {
	case strings.Contains(s, "nil pointer dereference"):
		return "nil_deref"
	case strings.Contains(s, "slice bounds out of range"):
		return "slice_bounds"
	case strings.Contains(s, "index out of range"):
		return "index_range"
	case strings.Contains(s, "makeslice"):
		return "makeslice"
	case strings.Contains(s, "interface conversion"):
		return "type_assertion"
	case strings.Contains(s, "kept calling Read"):
		return "spin"
	}
	return "other"
}

// ---------------------------------------------------------------------------
// recording table client (observer)
// ---------------------------------------------------------------------------

// zvBmpPathKey identifies a path the way the C28 reference does: who announced
// it, for which prefix, with which path identifier and policy flavour.
func zvBmpPathKey(pfx *bnet.Prefix, p *route.Path) string {
	if p == nil || p.BGPPath == nil || p.BGPPath.BGPPathA == nil {
		return fmt.Sprintf("?|%s", pfx.String())
	}
	src := "?"
	if p.BGPPath.BGPPathA.Source != nil {
		src = p.BGPPath.BGPPathA.Source.String()
	}
	fl := "pre"
	if p.BGPPath.BMPPostPolicy {
		fl = "post"
	}
	return fmt.Sprintf("%s|%s|%d|%s", src, pfx.String(), p.BGPPath.PathIdentifier, fl)
}

type zvBmpObserver struct {
	have     map[string]int
	disposed bool
	eor      int
	events   int
}

func zvBmpNewObserver() *zvBmpObserver { return &zvBmpObserver{have: map[string]int{}} }

func (o *zvBmpObserver) AddPath(pfx *bnet.Prefix, p *route.Path) error {
	o.events++
	o.have[zvBmpPathKey(pfx, p)]++
	return nil
}
func (o *zvBmpObserver) AddPathInitialDump(pfx *bnet.Prefix, p *route.Path) error {
	return o.AddPath(pfx, p)
}
func (o *zvBmpObserver) EndOfRIB() { o.eor++ }
func (o *zvBmpObserver) RemovePath(pfx *bnet.Prefix, p *route.Path) bool {
	o.events++
	k := zvBmpPathKey(pfx, p)
	if o.have[k] > 0 {
		o.have[k]--
		if o.have[k] == 0 {
			delete(o.have, k)
		}
	}
	return true
}
func (o *zvBmpObserver) ReplacePath(pfx *bnet.Prefix, old *route.Path, nw *route.Path) {
	o.RemovePath(pfx, old)
	o.AddPath(pfx, nw)
}
func (o *zvBmpObserver) RefreshRoute(*bnet.Prefix, []*route.Path) {}
func (o *zvBmpObserver) Dispose()                                 { o.disposed = true }

func (o *zvBmpObserver) keys() []string {
	ks := make([]string, 0, len(o.have))
	for k, n := range o.have {
		for i := 0; i < n; i++ {
			ks = append(ks, k)
		}
	}
	sort.Strings(ks)
	return ks
}
