//go:build !race

package vsched

//go:norace
func raceDisable() {}

//go:norace
func raceEnable() {}

//go:norace
func raceReleaseChan(*chanState) {}

//go:norace
func raceAcquireChan(*chanState) {}

//go:norace
func raceReleaseExit(*thread) {}

//go:norace
func raceAcquireExit(*thread) {}

// RaceMode reports whether the binary was built with the race detector.
const RaceMode = false
