package server

// C12 — replacing a policy converges to the new policy's result.
//
// Differential check on the real bgpServer (engine E4 under E2, deviation bound
// 0): for every tuple (old, new[, newer]) of a finite policy language, every
// route set and every history shape ("variant"), world 1 runs the history with
// the session configured with `old` and replaces the policy through
// BGPServer.ReplaceImportFilterChain / ReplaceExportFilterChain; the reference
// world runs the *same* history with the final policy configured from the start
// and without any replacement call. Loc-RIB, the session's Adj-RIB-Out and the
// peer's view (replayed from the UPDATEs captured on the connection) must be
// equal. There is no hand-written expectation: both sides are the real code.

import (
	"fmt"
	"sort"
	"strings"
	"testing"
	"time"

	bnet "github.com/bio-routing/bio-rd/net"
	"github.com/bio-routing/bio-rd/route"
	"github.com/bio-routing/bio-rd/routingtable/filter"
	"github.com/bio-routing/bio-rd/routingtable/filter/actions"
	"github.com/bio-routing/bio-rd/zzverif/vh"
	"github.com/bio-routing/bio-rd/zzverif/vsched"
)

// ---------------------------------------------------------------------------
// policy language

type zvC12Term struct {
	Cond string
	Acts []string
}

// zvC12Chain is the specification of one chain: filters × terms.
type zvC12Chain struct {
	Name    string
	Filters [][]zvC12Term
}

func zvC12Name(fs [][]zvC12Term) string {
	var f []string
	for _, ts := range fs {
		var t []string
		for _, x := range ts {
			t = append(t, x.Cond+": "+strings.Join(x.Acts, ","))
		}
		f = append(f, strings.Join(t, " ; "))
	}
	return strings.Join(f, " | ")
}

func zvC12Mk(fs ...[]zvC12Term) zvC12Chain { return zvC12Chain{Name: zvC12Name(fs), Filters: fs} }
func zvC12F(ts ...zvC12Term) []zvC12Term   { return ts }
func zvC12T(cond string, acts ...string) zvC12Term {
	return zvC12Term{Cond: cond, Acts: acts}
}

var (
	zvC12P1 = bnet.NewPfx(bnet.IPv4FromOctets(192, 0, 2, 0), 24).Dedup()
	zvC12P2 = bnet.NewPfx(bnet.IPv4FromOctets(198, 51, 100, 0), 24).Dedup()
)

func zvC12Cond(c string) []*filter.TermCondition {
	rf := func(p *bnet.Prefix, m filter.PrefixMatcher) []*filter.TermCondition {
		return []*filter.TermCondition{filter.NewTermConditionWithRouteFilters(filter.NewRouteFilter(p, m))}
	}
	switch c {
	case "any":
		return []*filter.TermCondition{}
	case "rf-exact-P1":
		return rf(zvC12P1, filter.NewExactMatcher())
	case "rf-exact-P2":
		return rf(zvC12P2, filter.NewExactMatcher())
	case "rf-orlonger-P1":
		return rf(zvC12P1, filter.NewOrLongerMatcher())
	case "rf-longer-P1":
		return rf(zvC12P1, filter.NewLongerMatcher())
	case "rf-range24-24-P1":
		return rf(zvC12P1, filter.NewInRangeMatcher(24, 24))
	case "rf-range24-25-P1":
		return rf(zvC12P1, filter.NewInRangeMatcher(24, 25))
	case "rf-range25-25-P1":
		return rf(zvC12P1, filter.NewInRangeMatcher(25, 25))
	case "pl-P1":
		return []*filter.TermCondition{filter.NewTermConditionWithPrefixLists(filter.NewPrefixList(zvC12P1))}
	case "pl-P2":
		return []*filter.TermCondition{filter.NewTermConditionWithPrefixLists(filter.NewPrefixList(zvC12P2))}
	case "rf-exact-P1,P2": // one condition with two route filters
		return []*filter.TermCondition{filter.NewTermConditionWithRouteFilters(filter.NewRouteFilter(zvC12P1, filter.NewExactMatcher()), filter.NewRouteFilter(zvC12P2, filter.NewExactMatcher()))}
	case "rf-exact-P1|pl-P2": // two conditions (any of them matches)
		return []*filter.TermCondition{filter.NewTermConditionWithRouteFilters(filter.NewRouteFilter(zvC12P1, filter.NewExactMatcher())),
			filter.NewTermConditionWithPrefixLists(filter.NewPrefixList(zvC12P2))}
	case "rf-exact-P1&pl-P1": // one condition with a route filter and a prefix list (both must match)
		return []*filter.TermCondition{filter.NewTermCondition([]*filter.PrefixList{filter.NewPrefixList(zvC12P1)}, []*filter.RouteFilter{filter.NewRouteFilter(zvC12P1, filter.NewOrLongerMatcher())})}
	}
	panic("zvC12: unknown condition " + c)
}

func zvC12Act(a string) actions.Action {
	switch a {
	case "accept":
		return actions.NewAcceptAction()
	case "reject":
		return actions.NewRejectAction()
	case "lp100":
		return actions.NewSetLocalPrefAction(100)
	case "lp200":
		return actions.NewSetLocalPrefAction(200)
	case "med0":
		return actions.NewSetMEDAction(0)
	case "med5":
		return actions.NewSetMEDAction(5)
	case "nh1":
		return actions.NewSetNextHopAction(bnet.IPv4FromOctets(10, 9, 9, 1).Dedup())
	case "nh2":
		return actions.NewSetNextHopAction(bnet.IPv4FromOctets(10, 9, 9, 2).Dedup())
	case "pre1":
		return actions.NewASPathPrependAction(65100, 1)
	case "pre2":
		return actions.NewASPathPrependAction(65100, 2)
	case "preB1":
		return actions.NewASPathPrependAction(65200, 1)
	}
	panic("zvC12: unknown action " + a)
}

// build constructs a fresh filter.Chain object from the specification (every call a new object graph).
func (c zvC12Chain) build() filter.Chain {
	var ch filter.Chain
	for i, ts := range c.Filters {
		var terms []*filter.Term
		for j, t := range ts {
			var acts []actions.Action
			for _, a := range t.Acts {
				acts = append(acts, zvC12Act(a))
			}
			terms = append(terms, filter.NewTerm(fmt.Sprintf("t%d", j), zvC12Cond(t.Cond), acts))
		}
		ch = append(ch, filter.NewFilter(fmt.Sprintf("f%d", i), terms))
	}
	return ch
}

// zvC12Core: chains on which triples, the extra session configurations and the extra history shapes are enumerated.
func zvC12Core() []zvC12Chain {
	return []zvC12Chain{
		zvC12Mk(zvC12F(zvC12T("any", "accept"))),
		zvC12Mk(zvC12F(zvC12T("any", "reject"))),
		zvC12Mk(zvC12F(zvC12T("any", "lp100", "accept"))),
		zvC12Mk(zvC12F(zvC12T("any", "lp200", "accept"))),
		zvC12Mk(zvC12F(zvC12T("any", "pre1", "accept"))),
		zvC12Mk(zvC12F(zvC12T("any", "preB1", "accept"))),
		zvC12Mk(zvC12F(zvC12T("rf-exact-P1", "reject"))),
		zvC12Mk(zvC12F(zvC12T("rf-orlonger-P1", "reject"))),
	}
}

// zvC12Lang returns the policy language: for every construct there are two chains that differ only in it.
func zvC12Lang(thorough bool) []zvC12Chain {
	l := zvC12Core()
	l = append(l,
		zvC12Mk(zvC12F(zvC12T("any", "med0", "accept"))),
		zvC12Mk(zvC12F(zvC12T("any", "med5", "accept"))),
		zvC12Mk(zvC12F(zvC12T("any", "nh1", "accept"))),
		zvC12Mk(zvC12F(zvC12T("any", "nh2", "accept"))),
		zvC12Mk(zvC12F(zvC12T("any", "pre2", "accept"))),
		zvC12Mk(zvC12F(zvC12T("rf-longer-P1", "reject"))),
		zvC12Mk(zvC12F(zvC12T("rf-range24-24-P1", "reject"))),
		zvC12Mk(zvC12F(zvC12T("rf-range24-25-P1", "reject"))),
		zvC12Mk(zvC12F(zvC12T("rf-range25-25-P1", "reject"))),
		zvC12Mk(zvC12F(zvC12T("rf-exact-P2", "reject"))),
		zvC12Mk(zvC12F(zvC12T("pl-P1", "reject"))),
		zvC12Mk(zvC12F(zvC12T("pl-P2", "reject"))),
		zvC12Mk(zvC12F(zvC12T("rf-exact-P1", "lp200", "accept"), zvC12T("any", "reject"))),
		zvC12Mk(zvC12F(zvC12T("rf-exact-P1", "lp200", "accept"))),
		zvC12Mk(zvC12F(zvC12T("rf-exact-P1", "lp200")), zvC12F(zvC12T("any", "med5", "accept"))),
		zvC12Mk(zvC12F(zvC12T("rf-exact-P1", "lp200"))),
	)
	if thorough {
		seen := map[string]bool{}
		for _, c := range l {
			seen[c.Name] = true
		}
		conds := []string{"any", "rf-exact-P1", "rf-orlonger-P1", "rf-longer-P1", "rf-range24-25-P1", "pl-P1", "pl-P2", "rf-exact-P2"}
		acts := [][]string{{"reject"}, {"lp200", "accept"}, {"med5", "accept"}, {"pre1", "accept"}, {"nh1", "accept"}, {"lp100", "med5"}}
		for _, c := range conds {
			for _, a := range acts {
				x := zvC12Mk(zvC12F(zvC12T(c, a...)))
				if !seen[x.Name] {
					seen[x.Name] = true
					l = append(l, x)
				}
			}
		}
		// two-term / two-filter shapes
		for _, x := range []zvC12Chain{
			zvC12Mk(zvC12F(zvC12T("rf-orlonger-P1", "pre1", "accept"), zvC12T("any", "reject"))),
			zvC12Mk(zvC12F(zvC12T("rf-orlonger-P1", "preB1", "accept"), zvC12T("any", "reject"))),
			zvC12Mk(zvC12F(zvC12T("pl-P2", "reject"), zvC12T("any", "nh2", "accept"))),
			zvC12Mk(zvC12F(zvC12T("pl-P2", "reject")), zvC12F(zvC12T("any", "nh2", "accept"))),
			zvC12Mk(zvC12F(zvC12T("rf-longer-P1", "med5")), zvC12F(zvC12T("rf-orlonger-P1", "lp200", "accept"), zvC12T("any", "reject"))),
			zvC12Mk(zvC12F(zvC12T("rf-longer-P1", "med5")), zvC12F(zvC12T("rf-orlonger-P1", "lp100", "accept"), zvC12T("any", "reject"))),
			zvC12Mk(zvC12F(zvC12T("rf-exact-P1,P2", "reject"))),
			zvC12Mk(zvC12F(zvC12T("rf-exact-P1|pl-P2", "reject"))),
			zvC12Mk(zvC12F(zvC12T("rf-exact-P1&pl-P1", "reject"))),
		} {
			if !seen[x.Name] {
				seen[x.Name] = true
				l = append(l, x)
			}
		}
	}
	return l
}

func zvC12CondKind(c string) string {
	switch {
	case c == "any":
		return "any"
	case strings.ContainsAny(c, ",|&"):
		return "compound"
	case strings.HasPrefix(c, "rf-"):
		return "rf"
	case strings.HasPrefix(c, "pl-"):
		return "pl"
	}
	return c
}

func zvC12ActKind(a string) string {
	switch a {
	case "lp100", "lp200":
		return "local-pref"
	case "med0", "med5":
		return "med"
	case "nh1", "nh2":
		return "next-hop"
	case "pre1", "pre2", "preB1":
		return "prepend"
	}
	return a
}

// zvC12DiffersIn names the construct in which two chain specifications differ ("none" if identical,
// "several" if in more than one place).
func zvC12DiffersIn(a, b zvC12Chain) string {
	if a.Name == b.Name {
		return "none"
	}
	if len(a.Filters) != len(b.Filters) {
		return "filter-count"
	}
	var diffs []string
	for i := range a.Filters {
		if len(a.Filters[i]) != len(b.Filters[i]) {
			return "term-count"
		}
		for j := range a.Filters[i] {
			ta, tb := a.Filters[i][j], b.Filters[i][j]
			if ta.Cond != tb.Cond {
				ka, kb := zvC12CondKind(ta.Cond), zvC12CondKind(tb.Cond)
				switch {
				case ka != kb:
					diffs = append(diffs, "condition-kind")
				case ka == "compound":
					diffs = append(diffs, "condition-kind")
				case ka == "pl":
					diffs = append(diffs, "prefix-list-entries")
				case strings.HasSuffix(ta.Cond, "-P1") != strings.HasSuffix(tb.Cond, "-P1"):
					diffs = append(diffs, "route-filter-pattern")
				case strings.HasPrefix(ta.Cond, "rf-range") && strings.HasPrefix(tb.Cond, "rf-range"):
					diffs = append(diffs, "range-bounds")
				default:
					diffs = append(diffs, "route-filter-matcher")
				}
			}
			if len(ta.Acts) != len(tb.Acts) {
				diffs = append(diffs, "action-count")
				continue
			}
			for k := range ta.Acts {
				if ta.Acts[k] == tb.Acts[k] {
					continue
				}
				ka, kb := zvC12ActKind(ta.Acts[k]), zvC12ActKind(tb.Acts[k])
				switch {
				case ka != kb:
					diffs = append(diffs, "action-kind")
				case ka == "prepend" && (ta.Acts[k] == "preB1") != (tb.Acts[k] == "preB1") && (ta.Acts[k] == "pre2" || tb.Acts[k] == "pre2"):
					diffs = append(diffs, "prepend-asn-and-count")
				case ka == "prepend" && (ta.Acts[k] == "preB1") != (tb.Acts[k] == "preB1"):
					diffs = append(diffs, "prepend-asn")
				case ka == "prepend":
					diffs = append(diffs, "prepend-count")
				default:
					diffs = append(diffs, ka+"-value")
				}
			}
		}
	}
	if len(diffs) == 1 {
		return diffs[0]
	}
	return "several"
}

// constructs that must each be covered by a pair of chains differing only there, with an observable effect
var zvC12Constructs = []string{"local-pref-value", "med-value", "next-hop-value", "prepend-count", "prepend-asn", "route-filter-matcher",
	"range-bounds", "route-filter-pattern", "prefix-list-entries", "action-kind", "action-count", "term-count", "filter-count", "condition-kind"}

// ---------------------------------------------------------------------------
// world

type zvC12Cfg struct {
	Name  string
	A     zvPeerOpts
	Sides []string
}

func zvC12Cfgs() []zvC12Cfg {
	return []zvC12Cfg{
		{Name: "ebgp-active", A: zvPeerOpts{Addr: 9}, Sides: []string{"import", "export"}},
		{Name: "ebgp-passive", A: zvPeerOpts{Addr: 9, Passive: true}, Sides: []string{"import", "export"}},
		{Name: "ibgp-rrclient-active", A: zvPeerOpts{Addr: 9, IBGP: true, RRClient: true}, Sides: []string{"import", "export"}},
		// add-path towards the peer; export side only (on the import side the session's own paths would meet
		// AdjRIBOut's handling of own paths under add-path, which is C08's subject)
		{Name: "ebgp-addpath-tx", A: zvPeerOpts{Addr: 9, AddPathTX: 2}, Sides: []string{"export"}},
		// two address families share the one chain; import side only (session B, which feeds the export side, is IPv4 only)
		{Name: "ebgp-ipv6", A: zvPeerOpts{Addr: 9, IPv6: true}, Sides: []string{"import"}},
	}
}

// the three routes of the route sets: P1, a more specific of P1 (an IPv6 route in the IPv6 configuration), P2
type zvC12Route struct {
	P  zvwPrefix
	V6 bool
}

func (x *zvC12W) routes() []zvC12Route {
	if x.cfg.A.IPv6 {
		return []zvC12Route{{P: zvR1}, {P: zvwPrefix{Len: 32, Addr: []byte{0x20, 1, 0xd, 0xb8, 0, 0, 0, 0, 0, 0, 0, 0, 0, 0, 0, 0}}, V6: true}, {P: zvR2}}
	}
	return []zvC12Route{{P: zvR1}, {P: zvwPrefix{Len: 25, Addr: []byte{192, 0, 2, 128}}}, {P: zvR2}}
}

const (
	zvC12Live        = "live"         // established with old, routes, replace
	zvC12DownFirst   = "down-first"   // replace before the session is established for the first time, then establish, routes
	zvC12Bounce      = "bounce"       // established with old, routes, replace, session goes down and is re-established, routes
	zvC12DownBetween = "down-between" // established with old, routes, session goes down, replace while down, re-established, routes
	zvC12LiveEmpty   = "live-empty"   // established with old while the Loc-RIB holds no route at all, replace, then routes
)

var zvC12Phases = []string{"after-replace", "after-reannounce", "after-withdraw"}

type zvC12W struct {
	cfg     zvC12Cfg
	side    string
	w       *zvWorld
	oA, oB  zvPeerOpts
	pA      *peer
	cA, cB  *zvConn
	view    map[string]string
	viewErr string
}

func zvC12Start(cfg zvC12Cfg, side string, initial filter.Chain, emptyRIB bool) *zvC12W {
	route.ZZVerifResetBGPPathACache()
	x := &zvC12W{cfg: cfg, side: side, view: map[string]string{}}
	x.w = zvNewWorld()
	// session B: passive iBGP session with its own local AS, hold time 0 (never expires), contributes Loc-RIB routes
	x.oB = zvPeerOpts{Addr: 8, IBGP: true, Passive: true}
	cb := x.w.peerConfig(x.oB)
	cb.LocalAS, cb.PeerAS = zvLocalASB, zvLocalASB
	if err := x.w.srv.AddPeer(cb); err != nil {
		panic(err)
	}
	x.w.srv.Start()
	vsched.Settle()
	x.cB = x.w.incoming(x.oB)
	ob := zvwOpen{Version: 4, AS: zvLocalASB, Hold: 0, ID: 0x08080808, Caps: []zvwCap{zvwCapASN4(zvLocalASB)}}
	x.cB.deliver(ob.bytes())
	vsched.Settle()
	x.cB.deliver(zvwKeepalive())
	vsched.Settle()
	if !emptyRIB {
		x.feedB(zvRB, true)
	}
	if side == "import" && !emptyRIB {
		// B also has a path for P1, so that A's import policy decides the best path for P1 and with it A's Adj-RIB-Out
		x.feedB(zvR1, true)
	}
	// session A
	x.oA = cfg.A
	if side == "import" {
		x.oA.Import = initial
	} else {
		x.oA.Export = initial
	}
	x.pA = x.w.addPeer(x.oA)
	vsched.Settle()
	return x
}

func (x *zvC12W) feedB(p zvwPrefix, announce bool) {
	if announce {
		x.cB.deliver(zvwUpdate(nil, []zvwAttr{zvwOrigin(0), zvwASPath(true), zvwNextHop(10, 0, 0, 8), zvwLocalPref(100)}, zvwNLRI([]zvwPrefix{p}, false)))
	} else {
		x.cB.deliver(zvwUpdate(zvwNLRI([]zvwPrefix{p}, false), nil, nil))
	}
	vsched.Settle()
}

func (x *zvC12W) feedA(rt zvC12Route, announce bool) {
	p := rt.P
	if rt.V6 {
		nh := make([]byte, 16)
		nh[0], nh[1], nh[15] = 0x20, 0x01, 9
		if announce {
			x.cA.deliver(zvwUpdate(nil, []zvwAttr{zvwOrigin(0), zvwASPath(true, zvRemoteAS), zvwMPReach(2, 1, nh, zvwNLRI([]zvwPrefix{p}, false))}, nil))
		} else {
			x.cA.deliver(zvwUpdate(nil, []zvwAttr{zvwMPUnreach(2, 1, zvwNLRI([]zvwPrefix{p}, false))}, nil))
		}
		vsched.Settle()
		return
	}
	if !announce {
		x.cA.deliver(zvwUpdate(zvwNLRI([]zvwPrefix{p}, false), nil, nil))
	} else if x.cfg.A.IBGP {
		x.cA.deliver(zvwUpdate(nil, []zvwAttr{zvwOrigin(0), zvwASPath(true), zvwNextHop(10, 0, 0, 9), zvwLocalPref(100)}, zvwNLRI([]zvwPrefix{p}, false)))
	} else {
		x.cA.deliver(zvwUpdate(nil, []zvwAttr{zvwOrigin(0), zvwASPath(true, zvRemoteAS), zvwNextHop(10, 0, 0, 9)}, zvwNLRI([]zvwPrefix{p}, false)))
	}
	vsched.Settle()
}

// feed announces / withdraws the routes of the set: on the import side session A's peer sends them, on the export side B's.
func (x *zvC12W) feed(mask int, announce bool) {
	for i, rt := range x.routes() {
		if mask&(1<<i) == 0 {
			continue
		}
		if x.side == "import" {
			x.feedA(rt, announce)
		} else {
			x.feedB(rt.P, announce)
		}
	}
	x.flush()
}

func (x *zvC12W) flush() {
	vsched.Settle()
	vsched.Advance(10 * time.Millisecond) // update senders' aggregation tick
	x.absorb()
}

// estFSM returns A's established FSM with attached RIBs (nil if none).
func (x *zvC12W) estFSM() *FSM {
	for _, f := range x.pA.fsms {
		if zvFSMState(f) == stateNameEstablished && f.ipv4Unicast != nil && f.ipv4Unicast.adjRIBOut != nil {
			return f
		}
	}
	return nil
}

func (x *zvC12W) establishA() bool {
	if x.cfg.A.Passive {
		x.cA = x.w.incoming(x.cfg.A)
	} else {
		x.cA = x.w.activeConnect()
	}
	if x.cA == nil || x.cA.closed {
		return false
	}
	x.view, x.viewErr = map[string]string{}, ""
	x.w.establish(x.cA, x.cfg.A, 0x09090909)
	x.flush()
	return x.estFSM() != nil
}

// downA: A's peer closes the session with a NOTIFICATION (Cease).
func (x *zvC12W) downA() bool {
	x.cA.deliver(zvwNotification(6, 4))
	x.flush()
	return x.estFSM() == nil
}

func (x *zvC12W) replace(c filter.Chain) error {
	var err error
	if x.side == "import" {
		err = x.w.srv.ReplaceImportFilterChain(x.w.vrf, zvPeerIP(x.cfg.A), c)
	} else {
		err = x.w.srv.ReplaceExportFilterChain(x.w.vrf, zvPeerIP(x.cfg.A), c)
	}
	x.flush()
	return err
}

// absorb replays what A's peer received on the current connection.
func (x *zvC12W) absorb() {
	if x.cA == nil {
		return
	}
	ap := x.cfg.A.AddPathTX > 0
	for _, m := range zvParseStream(x.cA.take(), ap, ap) {
		if m.Err != "" {
			x.viewErr = m.Err
			continue
		}
		if m.Type != 2 {
			continue
		}
		for _, r := range m.Withdrawn {
			delete(x.view, r.key())
		}
		for _, r := range m.Announced {
			x.view[r.key()] = m.attrDigest()
		}
	}
}

// zvC12Obs is the pointer-free observation of one world at a quiescent point: table -> key -> digest.
type zvC12Obs struct {
	Est bool
	Tab [3]map[string]string // locrib, adjribout, peer-view
	Err string
}

var zvC12Tabs = [3]string{"locrib", "adjribout", "peer-view"}

func zvC12Digest(p *route.Path) string {
	d := zvPathDigest(p)
	if p != nil && p.BGPPath != nil {
		d += fmt.Sprintf(" aslen=%d", p.BGPPath.ASPathLen)
		if p.BGPPath.BGPPathA != nil {
			d += fmt.Sprintf(" ebgp=%v", p.BGPPath.BGPPathA.EBGP)
		}
		if p.BGPPath.LargeCommunities != nil {
			d += fmt.Sprintf(" lcomm=%v", *p.BGPPath.LargeCommunities)
		}
	}
	return d
}

// zvC12Ranked stores the digests of one prefix under keys "prefix #i" in sorted order (path identifiers are
// arbitrary labels and are not compared).
func zvC12Ranked(m map[string]string, pfx string, ds []string) {
	sort.Strings(ds)
	for i, d := range ds {
		m[fmt.Sprintf("%s #%d", pfx, i)] = d
	}
}

func (x *zvC12W) observe() zvC12Obs {
	var o zvC12Obs
	for i := range o.Tab {
		o.Tab[i] = map[string]string{}
	}
	locRoutes := x.w.rib4.Dump()
	if x.cfg.A.IPv6 {
		locRoutes = append(locRoutes, x.w.rib6.Dump()...)
	}
	for _, r := range locRoutes {
		var order []string
		for _, p := range r.Paths() {
			src := "?"
			if p.BGPPath != nil && p.BGPPath.BGPPathA != nil && p.BGPPath.BGPPathA.Source != nil {
				src = p.BGPPath.BGPPathA.Source.String()
			}
			k := r.Prefix().String() + " from " + src
			for o.Tab[0][k] != "" {
				k += "'"
			}
			o.Tab[0][k] = zvC12Digest(p)
			order = append(order, src)
		}
		if len(order) > 1 {
			o.Tab[0][r.Prefix().String()+" preference order"] = strings.Join(order, " > ")
		}
	}
	if f := x.estFSM(); f != nil {
		o.Est = true
		outRoutes := f.ipv4Unicast.adjRIBOut.Dump()
		if f.ipv6Unicast != nil && f.ipv6Unicast.adjRIBOut != nil {
			outRoutes = append(outRoutes, f.ipv6Unicast.adjRIBOut.Dump()...)
		}
		for _, r := range outRoutes {
			var ds []string
			for _, p := range r.Paths() {
				ds = append(ds, zvC12Digest(p))
			}
			zvC12Ranked(o.Tab[1], r.Prefix().String(), ds)
		}
	}
	byPfx := map[string][]string{}
	for k, d := range x.view {
		pfx := k
		if i := strings.IndexByte(k, '#'); i >= 0 {
			pfx = k[:i]
		}
		byPfx[pfx] = append(byPfx[pfx], d)
	}
	for pfx, ds := range byPfx {
		zvC12Ranked(o.Tab[2], pfx, ds)
	}
	o.Err = x.viewErr
	return o
}

func (o zvC12Obs) String() string {
	var sb strings.Builder
	for i, t := range o.Tab {
		ks := make([]string, 0, len(t))
		for k := range t {
			ks = append(ks, k)
		}
		sort.Strings(ks)
		fmt.Fprintf(&sb, "[%s]", zvC12Tabs[i])
		for _, k := range ks {
			fmt.Fprintf(&sb, " {%s: %s}", k, t[k])
		}
	}
	fmt.Fprintf(&sb, " est=%v err=%q", o.Est, o.Err)
	return sb.String()
}

// zvC12Diff returns the first difference between world 1 and the reference: table, kind, key, text.
func zvC12Diff(got, want zvC12Obs) (tab, kind, text string, differs bool) {
	if got.Est != want.Est {
		return "session", "not-established", fmt.Sprintf("session established: %v, reference: %v", got.Est, want.Est), true
	}
	for i := range got.Tab {
		ks := map[string]bool{}
		for k := range got.Tab[i] {
			ks[k] = true
		}
		for k := range want.Tab[i] {
			ks[k] = true
		}
		keys := make([]string, 0, len(ks))
		for k := range ks {
			keys = append(keys, k)
		}
		sort.Strings(keys)
		// presence differences first, then attributes, then the preference order
		for pass := 0; pass < 3; pass++ {
			for _, k := range keys {
				g, gok := got.Tab[i][k]
				w, wok := want.Tab[i][k]
				isOrder := strings.HasSuffix(k, " preference order")
				switch {
				case pass == 0 && !isOrder && gok && !wok:
					return zvC12Tabs[i], "stale", fmt.Sprintf("%s holds {%s: %s}, the session built with the new policy does not", zvC12Tabs[i], k, g), true
				case pass == 0 && !isOrder && !gok && wok:
					return zvC12Tabs[i], "missing", fmt.Sprintf("%s lacks {%s: %s}, which the session built with the new policy has", zvC12Tabs[i], k, w), true
				case pass == 1 && !isOrder && gok && wok && g != w:
					return zvC12Tabs[i], "attrs", fmt.Sprintf("%s has {%s: %s}, the session built with the new policy has {%s}", zvC12Tabs[i], k, g, w), true
				case pass == 2 && isOrder && g != w:
					return zvC12Tabs[i], "order", fmt.Sprintf("%s: %s is %q, with the session built with the new policy %q", zvC12Tabs[i], k, g, w), true
				}
			}
		}
	}
	if got.Err != want.Err {
		return "peer-view", "malformed-output", fmt.Sprintf("output stream error %q vs %q", got.Err, want.Err), true
	}
	return "", "", "", false
}

// ---------------------------------------------------------------------------
// one case

type zvC12Case struct {
	Side    string `json:"side"`
	Config  string `json:"config"`
	Variant string `json:"variant"`
	Old     string `json:"old"`
	New     string `json:"new"`
	Newer   string `json:"newer,omitempty"`
	Subset  int    `json:"route_set_mask"`
}

type zvC12Res struct {
	Status  vsched.Status
	Crash   string
	Blocked string
	Problem string       // the scripted history could not be carried out (session did not come up ...)
	Pre     zvC12Obs     // just before the (first) replacement, live variant only
	Obs     [3]zvC12Obs  // per phase
	Done    int          // phases observed
}

// zvC12Run executes one history. chains = the policies in order of use: chains[0] is configured when the peer is
// added, the others are installed by replacement calls. The reference world is the same history with a single chain.
func zvC12Run(cfg zvC12Cfg, side, variant string, chains []zvC12Chain, mask int) zvC12Res {
	var res zvC12Res
	e := vsched.Exec(vsched.Config{MaxSteps: 200000}, func() {
		x := zvC12Start(cfg, side, chains[0].build(), variant == zvC12LiveEmpty)
		replaceAll := func() bool {
			for _, c := range chains[1:] {
				if err := x.replace(c.build()); err != nil {
					res.Problem = "replace: " + err.Error()
					return false
				}
			}
			return true
		}
		up := func() bool {
			if !x.establishA() {
				res.Problem = "session A did not reach Established"
				return false
			}
			return true
		}
		switch variant {
		case zvC12Live:
			if !up() {
				return
			}
			x.feed(mask, true)
			res.Pre = x.observe()
			if !replaceAll() {
				return
			}
		case zvC12LiveEmpty:
			if !up() {
				return
			}
			res.Pre = x.observe()
			if !replaceAll() {
				return
			}
		case zvC12DownFirst:
			if !replaceAll() || !up() {
				return
			}
			x.feed(mask, true)
		case zvC12Bounce, zvC12DownBetween:
			if !up() {
				return
			}
			x.feed(mask, true)
			if variant == zvC12Bounce && !replaceAll() {
				return
			}
			if !x.downA() {
				res.Problem = "session A did not leave Established"
				return
			}
			if variant == zvC12DownBetween && !replaceAll() {
				return
			}
			if !up() {
				return
			}
			if side == "import" {
				x.feed(mask, true) // A's routes went away with the session; B's are still there
			}
		default:
			panic("zvC12: unknown variant " + variant)
		}
		res.Obs[0] = x.observe()
		res.Done = 1
		x.feed(7, true)
		res.Obs[1] = x.observe()
		res.Done = 2
		x.feed(7, false)
		res.Obs[2] = x.observe()
		res.Done = 3
	})
	res.Status, res.Crash, res.Blocked = e.Status, e.Crash, e.Blocked
	return res
}

type zvC12Ctx struct {
	r    *vh.Run
	lang map[string]zvC12Chain
	cfgs map[string]zvC12Cfg
	refs map[string]zvC12Res
}

func (cx *zvC12Ctx) ref(cfg zvC12Cfg, side, variant string, final zvC12Chain, mask int) zvC12Res {
	k := fmt.Sprintf("%s|%s|%s|%s|%d", cfg.Name, side, variant, final.Name, mask)
	if v, ok := cx.refs[k]; ok {
		return v
	}
	v := zvC12Run(cfg, side, variant, []zvC12Chain{final}, mask)
	cx.refs[k] = v
	return v
}

// check runs one case and its reference and evaluates the oracle; it returns false if the case violates the
// property. Coverage counters are computed from the enumeration and from the reference worlds only, never from
// the verdict. With silent set nothing is counted or reported (used to find out whether a simpler case fails).
func (cx *zvC12Ctx) check(c zvC12Case, verbose, silent bool) bool {
	r := cx.r
	cfg := cx.cfgs[c.Config]
	chains := []zvC12Chain{cx.lang[c.Old], cx.lang[c.New]}
	if c.Newer != "" {
		chains = append(chains, cx.lang[c.Newer])
	}
	final := chains[len(chains)-1]
	// the construct in which the policies of the (last) replacement differ
	differs := zvC12DiffersIn(chains[len(chains)-2], final)
	clause := c.Side + "-replace"
	sig := func(kind, where, phase string) map[string]string {
		return vh.Sig("clause", clause, "kind", kind, "where", where, "differs_in", differs, "variant", c.Variant, "config", c.Config, "phase", phase,
			"replacements", fmt.Sprint(len(chains)-1))
	}
	violation := func(sg map[string]string, f string, a ...any) {
		if !silent {
			r.Violation(sg, c, f, a...)
		}
	}
	want := cx.ref(cfg, c.Side, c.Variant, final, c.Subset)
	if want.Status != vsched.Completed || want.Problem != "" || want.Done != 3 {
		// the reference history itself (no replacement involved) does not run: not this property's business
		if !silent {
			r.Count("reference_unusable", 1)
		}
		if verbose {
			fmt.Printf("reference unusable: %s %s %s %s\n", want.Status, want.Problem, want.Crash, want.Blocked)
		}
		return true
	}
	if !silent {
		r.Eval(1)
		// does the new policy treat some route differently from the old one? (two reference worlds compared)
		if c.Newer == "" {
			oldRef := cx.ref(cfg, c.Side, c.Variant, chains[0], c.Subset)
			if oldRef.Status == vsched.Completed && oldRef.Done == 3 {
				eff := false
				for ph := 0; ph < 3; ph++ {
					if _, _, _, d := zvC12Diff(oldRef.Obs[ph], want.Obs[ph]); d {
						eff = true
						if ph == 0 {
							r.Count("replacement_must_change_tables_"+c.Side, 1)
						}
					}
				}
				if eff {
					r.Nontrivial(1)
					r.Count("policies_treat_routes_differently", 1)
					r.Count("effective:"+differs, 1)
				} else if differs != "none" {
					r.Count("policies_differ_without_effect_on_this_route_set", 1)
				}
			}
			r.Count("differs_in:"+differs, 1)
		}
	}
	got := zvC12Run(cfg, c.Side, c.Variant, chains, c.Subset)
	if !silent {
		r.Transitions(len(chains) - 1)
		r.Traces(1)
	}
	if verbose {
		fmt.Printf("case %+v differs_in=%s\n", c, differs)
		fmt.Printf("  status=%s problem=%q crash=%.300s blocked=%.300s\n", got.Status, got.Problem, got.Crash, got.Blocked)
		if c.Variant == zvC12Live {
			fmt.Printf("  before replacement: %s\n", got.Pre)
		}
		for ph := 0; ph < got.Done; ph++ {
			fmt.Printf("  %s:\n    world 1:   %s\n    reference: %s\n", zvC12Phases[ph], got.Obs[ph], want.Obs[ph])
		}
	}
	if got.Status != vsched.Completed {
		violation(sig("run-"+got.Status.String(), "execution", "-"), "history with policy replacement ends in %s (the same history with the new policy from the start completes): %.400s %.400s", got.Status, got.Crash, got.Blocked)
		return false
	}
	if got.Problem != "" {
		violation(sig("history-stuck", "session", "-"), "%s (the same history with the new policy from the start runs through)", got.Problem)
		return false
	}
	for ph := 0; ph < 3; ph++ {
		if !silent {
			r.Count("phase_compared:"+zvC12Phases[ph], 1)
			r.Outcome(got.Obs[ph].String())
			r.Visit(got.Obs[ph].String()) // states = distinct observed table states; transitions = history steps run (a replacement or a phase of session events)
			r.Transitions(1)
		}
		if tab, kind, text, d := zvC12Diff(got.Obs[ph], want.Obs[ph]); d {
			violation(sig(kind, tab, zvC12Phases[ph]), "%s side, %s, %s, old policy [%s] -> new [%s]%s, route set %03b, %s: %s",
				c.Side, c.Config, c.Variant, c.Old, c.New, zvC12NewerText(c), c.Subset, zvC12Phases[ph], text)
			return false // later phases are consequences
		}
	}
	return true
}

func zvC12Main(cfgs []zvC12Cfg) zvC12Cfg { return cfgs[0] }

func zvC12NewerText(c zvC12Case) string {
	if c.Newer == "" {
		return ""
	}
	return " -> [" + c.Newer + "]"
}

func TestVerifC12(t *testing.T) {
	r := vh.Start(t, "C12")
	defer r.Finish()
	thorough := r.Thorough()
	lang := zvC12Lang(thorough)
	core := zvC12Core()
	cx := &zvC12Ctx{r: r, lang: map[string]zvC12Chain{}, cfgs: map[string]zvC12Cfg{}, refs: map[string]zvC12Res{}}
	for _, c := range zvC12Lang(true) {
		cx.lang[c.Name] = c
	}
	cfgs := zvC12Cfgs()
	for _, c := range cfgs {
		cx.cfgs[c.Name] = c
	}
	required := []string{"conc_executions", "conc_nonempty_result", "import_cases", "export_cases", "triples", "same_policy_pairs", "policies_treat_routes_differently",
		"replacement_must_change_tables_import", "replacement_must_change_tables_export",
		"variant:" + zvC12Live, "variant:" + zvC12DownFirst, "variant:" + zvC12Bounce, "variant:" + zvC12DownBetween, "variant:" + zvC12LiveEmpty}
	for _, c := range cfgs {
		required = append(required, "config:"+c.Name)
	}
	for _, d := range zvC12Constructs {
		required = append(required, "effective:"+d)
	}
	r.Require(required...)
	r.Rule(fmt.Sprintf("policy language of %d chains (core %d); all ordered pairs (old,new) x all 8 subsets of 3 routes x {import, export} on an eBGP session in the 'live' history "+
		"(establish with old, routes, replace) and, on one (quick) / all (thorough) route sets, the histories down-first / bounce / down-between / live-empty (replacement while the Loc-RIB holds no route at all); core pairs x %d further session configurations x 5 histories; "+
		"all ordered triples of the core; every history run on the real bgpServer under the controlled scheduler (bound 0) and compared in 3 phases (after replacement, after re-announcing all routes, "+
		"after withdrawing them) with the same history run with the final policy configured from the start; a case whose policy pair already fails in the plain 'live' history on the eBGP session is "+
		"not run again in the other histories/configurations/triples (counted as skipped_consequence); non-trivial = the two policies treat some route of the set differently (their reference worlds differ); "+
		"plus every schedule (<= 2 preemptions, thorough 3) of AdjRIBOut.ReplaceFilterChain racing with Loc-RIB route changes (3 session kinds x 5 policy pairs x 3 change sets), compared with a fresh Adj-RIB-Out under the new policy",
		len(lang), len(core), len(cfgs)-1))
	r.Extra("language_size", len(lang))

	if r.IsReplay() {
		var cc zvC12ConcCase
		r.ReplayCase(&cc)
		if cc.Conc {
			zvC12ConcRun(r, cc, append([]int{}, cc.Schedule...))
			for _, n := range required {
				r.Count(n, 1)
			}
			return
		}
		var c zvC12Case
		r.ReplayCase(&c)
		if _, ok := cx.cfgs[c.Config]; !ok {
			r.Fatalf("replay: unknown config %q", c.Config)
		}
		for _, n := range []string{c.Old, c.New} {
			if _, ok := cx.lang[n]; !ok {
				r.Fatalf("replay: unknown chain %q", n)
			}
		}
		if _, ok := cx.lang[c.Newer]; c.Newer != "" && !ok {
			r.Fatalf("replay: unknown chain %q", c.Newer)
		}
		cx.check(c, true, false)
		for _, n := range required {
			r.Count(n, 1)
		}
		return
	}

	// replay determinism is asserted, not assumed: the same history twice must give the same observations
	for _, side := range zvC12Main(cfgs).Sides {
		a := zvC12Run(cfgs[0], side, zvC12Bounce, []zvC12Chain{core[3], core[4]}, 7)
		b := zvC12Run(cfgs[0], side, zvC12Bounce, []zvC12Chain{core[3], core[4]}, 7)
		for ph := 0; ph < 3; ph++ {
			if a.Status != b.Status || a.Done != b.Done || a.Obs[ph].String() != b.Obs[ph].String() {
				r.Fatalf("the same history run twice differs (%s side, phase %d): %s / %s  vs  %s / %s", side, ph, a.Status, a.Obs[ph], b.Status, b.Obs[ph])
			}
		}
	}

	allSubsets := []int{0, 1, 2, 3, 4, 5, 6, 7}
	fewSubsets := []int{7}
	if thorough {
		fewSubsets = allSubsets
	}
	main := cfgs[0]
	variants := []string{zvC12Live, zvC12DownFirst, zvC12Bounce, zvC12DownBetween, zvC12LiveEmpty}
	isCore := map[string]bool{}
	for _, c := range core {
		isCore[c.Name] = true
	}
	capped := false
	budget := func() bool {
		if !capped && r.OutOfBudget() {
			r.Cap("time budget")
			capped = true
		}
		return !capped
	}
	// enumerate counts the case (coverage of the enumeration must not depend on verdicts) and runs it unless it is
	// the consequence of a failure already reported
	enumerate := func(c zvC12Case, skip bool) bool {
		r.Count(c.Side+"_cases", 1)
		r.Count("variant:"+c.Variant, 1)
		r.Count("config:"+c.Config, 1)
		if c.Newer != "" {
			r.Count("triples", 1)
		} else if c.Old == c.New {
			r.Count("same_policy_pairs", 1)
		}
		if skip {
			r.Count("skipped_consequence", 1)
			return true
		}
		if c.Newer != "" || c.Variant != zvC12Live {
			r.Sample(c) // (the evidence keeps the first few)
		}
		return cx.check(c, false, false)
	}
	idx := 0
	// work item = (side, final chain): the shard that owns it computes the reference worlds of that chain once
	for _, side := range main.Sides {
		for _, nw := range lang {
			idx++
			if !r.Mine(idx) {
				continue
			}
			// 1. base: eBGP session, live history, every old policy, every route set
			baseFail := map[string]bool{}
			for _, old := range lang {
				for _, m := range allSubsets {
					if !budget() {
						break
					}
					if !enumerate(zvC12Case{Side: side, Config: main.Name, Variant: zvC12Live, Old: old.Name, New: nw.Name, Subset: m}, false) {
						baseFail[old.Name] = true
					}
				}
			}
			// 2. the other histories
			for _, v := range variants[1:] {
				for _, old := range lang {
					for _, m := range fewSubsets {
						if !budget() {
							break
						}
						if v == zvC12LiveEmpty && m != fewSubsets[0] {
							continue // no route set before the replacement in this history
						}
						enumerate(zvC12Case{Side: side, Config: main.Name, Variant: v, Old: old.Name, New: nw.Name, Subset: m}, baseFail[old.Name])
					}
				}
			}
			if isCore[nw.Name] {
				// 3. the other session configurations, core pairs
				for _, cfg := range cfgs[1:] {
					sideOK := false
					for _, sd := range cfg.Sides {
						sideOK = sideOK || sd == side
					}
					if !sideOK {
						continue
					}
					for _, v := range variants {
						for _, old := range core {
							for _, m := range fewSubsets {
								if !budget() {
									break
								}
								if v == zvC12LiveEmpty && m != fewSubsets[0] {
									continue
								}
								enumerate(zvC12Case{Side: side, Config: cfg.Name, Variant: v, Old: old.Name, New: nw.Name, Subset: m}, baseFail[old.Name])
							}
						}
					}
				}
				// 4. two replacements in a row: all ordered triples of the core ending in this chain (repetitions included:
				// A->B->A returns to the original policy); not run if one of the two single replacements already fails
				firstFails := map[string]bool{}
				for _, old := range core {
					for _, mid := range core {
						for _, m := range fewSubsets {
							if !budget() {
								break
							}
							k := fmt.Sprintf("%s|%s|%d", old.Name, mid.Name, m)
							if _, ok := firstFails[k]; !ok && !baseFail[mid.Name] {
								firstFails[k] = !cx.check(zvC12Case{Side: side, Config: main.Name, Variant: zvC12Live, Old: old.Name, New: mid.Name, Subset: m}, false, true)
							}
							enumerate(zvC12Case{Side: side, Config: main.Name, Variant: zvC12Live, Old: old.Name, New: mid.Name, Newer: nw.Name, Subset: m}, baseFail[mid.Name] || firstFails[k])
						}
					}
				}
			}
			cx.refs = map[string]zvC12Res{} // the reference worlds of this item are not needed again
		}
	}
	zvC12Concurrent(r, idx)
}
