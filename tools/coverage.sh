#!/bin/sh
# tools/coverage.sh <ID> [tier] [budget_s] — coverage survey (not a check): materialises the check's overlay (rewritten
# sources, harness, helper packages) in a scratch copy of /repo, builds the harness there with statement coverage
# (go's cover tool does not read overlays) and runs it as one shard. Lists the blocks of the property's anchored
# files that the enumeration never reached: candidates for the alphabet. Output: /var/tmp/cov/<ID>.uncovered.txt
set -u
ID="$1"; TIER="${2:-quick}"; BUD="${3:-240}"
export GOFLAGS=-mod=mod GOPROXY=off GOSUMDB=off GOTOOLCHAIN=local GOWORK=off
D=/var/tmp/cov; mkdir -p $D; rm -rf $D/work-$ID $D/tree-$ID $D/$ID.cov
cd /verif
VERIF_WORK=$D/work-$ID VERIF_BUDGET_S=5 ./run $ID $TIER --keep > $D/$ID.log 2>&1
OV=$(ls $D/work-$ID/verif-*/overlay.json | head -1)
rsync -a --exclude .git /repo/ $D/tree-$ID/
python3 - "$OV" "$D/tree-$ID" <<'PY'
import json,sys,os,shutil
ov=json.load(open(sys.argv[1]))['Replace']; tree=sys.argv[2]
for dst,src in ov.items():
    assert dst.startswith('/repo/')
    t=os.path.join(tree,dst[len('/repo/'):])
    if src=='':
        if os.path.exists(t): os.remove(t)
        continue
    os.makedirs(os.path.dirname(t),exist_ok=True); shutil.copy(src,t)
PY
PKG=$(python3 -c "import json;print(json.load(open('/verif/checks.d/$ID.json'))['pkg'])")
RUN=$(python3 -c "import json;print(json.load(open('/verif/checks.d/$ID.json'))['run'])")
COVPKG=github.com/bio-routing/bio-rd/protocols/...,github.com/bio-routing/bio-rd/routingtable/...,github.com/bio-routing/bio-rd/route/...,github.com/bio-routing/bio-rd/net/...,github.com/bio-routing/bio-rd/util/...,github.com/bio-routing/bio-rd/cmd/...
(cd $D/tree-$ID && go test -c -vet=off -tags verif -cover -coverpkg=$COVPKG -o $D/tree-$ID/harness.test ./$PKG) >> $D/$ID.log 2>&1 || { echo "build failed, see $D/$ID.log"; tail -5 $D/$ID.log; exit 2; }
(cd $D/tree-$ID/$PKG && VERIF_OUT=$D/$ID.rep.json VERIF_TIER=$TIER VERIF_SHARD=0 VERIF_NSHARDS=1 VERIF_BUDGET_S=$BUD VERIF_SEED=1 GOMAXPROCS=1 VERIF_ROOT=/verif VERIF_REPO=$D/tree-$ID timeout $((BUD*2+120)) $D/tree-$ID/harness.test -test.run "^$RUN\$" -test.timeout $((BUD*2+100))s -test.coverprofile $D/$ID.cov) >> $D/$ID.log 2>&1
python3 - "$ID" <<'PY'
import sys,glob,json,re,os,collections
ID=sys.argv[1]; D='/var/tmp/cov'
prop=[json.loads(l) for l in open('/verif/properties.jsonl') if json.loads(l)['id']==ID][0]
anch=set(prop['anchors']['files'])
cov=collections.defaultdict(int); stm={}
for l in open(f'{D}/{ID}.cov'):
    m=re.match(r'(.*):(\d+)\.(\d+),(\d+)\.(\d+) (\d+) (\d+)',l)
    if not m: continue
    k=(m.group(1),int(m.group(2)),int(m.group(3)),int(m.group(4)),int(m.group(5)))
    stm[k]=int(m.group(6)); cov[k]+=int(m.group(7))
out=open(f'{D}/{ID}.uncovered.txt','w')
pref='github.com/bio-routing/bio-rd/'
tot=unc=0
byfile=collections.defaultdict(list)
for k,c in cov.items():
    rel=k[0][len(pref):] if k[0].startswith(pref) else k[0]
    if rel not in anch: continue
    tot+=stm[k]
    if c==0:
        unc+=stm[k]; byfile[rel].append(k)
for rel,ks in sorted(byfile.items()):
    src=f'{D}/tree-{ID}/{rel}'
    lines=open(src).read().split('\n')
    out.write(f'=== {rel}\n')
    for k in sorted(ks,key=lambda x:x[1]):
        text=' | '.join(x.strip() for x in lines[k[1]-1:min(k[3],k[1]+3)])
        out.write(f'  {k[1]}-{k[3]}: {text[:220]}\n')
out.write(f'\nanchored files: {tot} statements, {unc} never executed\n')
print(f'{ID}: {tot} statements in the anchored files, {unc} never executed -> {D}/{ID}.uncovered.txt')
PY
rm -rf $D/tree-$ID $D/work-$ID
