package adjRIBOut

// C13 — tables are isolated: exporting a route never alters stored routes.
// Engine E4: explicit-state BFS over histories of route changes (through a real
// Adj-RIB-In), export-policy replacements, refreshes and (un)registrations of two
// sessions (eBGP and route-reflector client) on a real Loc-RIB.
//
// Oracle 1 (before/after): around every export-side operation of session S the deep
// snapshots of the Loc-RIB, the Adj-RIB-In and the other session's Adj-RIB-Out are
// identical.
// Oracle 2 (differential, no hand-written expectation): the same history runs on
// three more pipelines - without sessions, with only the eBGP session, with only the
// RR-client session. After every operation Loc-RIB and Adj-RIB-In equal those of
// the pipeline without sessions, and each session's Adj-RIB-Out equals the one of
// the pipeline in which it is alone.

import (
	"fmt"
	"reflect"
	"sort"
	"strings"
	"testing"

	bnet "github.com/bio-routing/bio-rd/net"
	"github.com/bio-routing/bio-rd/protocols/bgp/types"
	"github.com/bio-routing/bio-rd/route"
	"github.com/bio-routing/bio-rd/routingtable"
	"github.com/bio-routing/bio-rd/routingtable/adjRIBIn"
	"github.com/bio-routing/bio-rd/routingtable/filter"
	"github.com/bio-routing/bio-rd/routingtable/filter/actions"
	"github.com/bio-routing/bio-rd/routingtable/locRIB"
	"github.com/bio-routing/bio-rd/routingtable/vrf"
	"github.com/bio-routing/bio-rd/zzverif/vh"
)

type zvC13Uni struct {
	Source string `json:"adj_rib_in_peer"` // ibgp | ebgp
	Chains string `json:"policy_set"`      // rewrite | filter
	NPfx   int    `json:"prefixes"`
	NVar   int    `json:"path_variants"`
	// Sessions: "" = session 0 plain eBGP, session 1 route-reflector client; "roles" = session 0 eBGP route server client,
	// session 1 eBGP customer, both with RFC 9234 roles negotiated (the export adds OTC)
	Sessions string `json:"sessions,omitempty"`
	// Import: "" = the Adj-RIB-In accepts everything unchanged; "prepend" = its import policy prepends to the AS path, so
	// that the paths the Loc-RIB stores have been through BGPPath.Prepend once already (slices with history)
	Import string `json:"import_policy,omitempty"`
}

type zvC13Op struct {
	Kind string `json:"op"`      // route_add | route_remove | policy | register | unregister
	S    int    `json:"session"` // 0 = eBGP session, 1 = RR-client session
	P    int    `json:"pfx"`
	X    int    `json:"arg"` // route_add: path variant; policy: chain index (the current one = refresh)
}

type zvC13Case struct {
	U    zvC13Uni  `json:"universe"`
	Hist []zvC13Op `json:"history"`
}

var zvC13Pfxs = []*bnet.Prefix{
	bnet.NewPfx(bnet.IPv4FromOctets(10, 0, 0, 0), 8).Ptr(),
	bnet.NewPfx(bnet.IPv4FromOctets(10, 128, 0, 0), 9).Ptr(),
	bnet.NewPfx(bnet.IPv4FromOctets(172, 16, 0, 0), 12).Ptr(),
}

var zvC13SessName = [2]string{"ebgp", "rr"}

func zvC13SessNameOf(u zvC13Uni, s int) string {
	if u.Sessions == "roles" {
		return [2]string{"rsclient-with-roles", "customer-with-roles"}[s]
	}
	return zvC13SessName[s]
}

func zvC13SessionAttrs(u zvC13Uni, s int) routingtable.SessionAttrs {
	sa := routingtable.SessionAttrs{
		RouterID: 0x0a000001, Type: route.BGPPathType, LocalASN: 65000, ClusterID: 0x09090909,
		LocalIP: bnet.IPv4FromOctets(10, 0, 0, 1).Ptr(),
	}
	if u.Sessions == "roles" {
		sa.PeerRoleEnabled, sa.PeerRoleAdvByPeer = true, true
		if s == 0 {
			sa.PeerIP, sa.PeerASN, sa.RouteServerClient = bnet.IPv4FromOctets(10, 0, 1, 2).Ptr(), 65009, true
			sa.PeerRoleLocal, sa.PeerRoleRemote = 1, 2 // RS, RS client
		} else {
			sa.PeerIP, sa.PeerASN = bnet.IPv4FromOctets(10, 0, 2, 2).Ptr(), 65010
			sa.PeerRoleLocal, sa.PeerRoleRemote = 0, 3 // provider, customer
		}
		return sa
	}
	if s == 0 {
		sa.PeerIP, sa.PeerASN = bnet.IPv4FromOctets(10, 0, 1, 2).Ptr(), 65009
	} else {
		sa.PeerIP, sa.PeerASN, sa.IBGP, sa.RouteReflectorClient = bnet.IPv4FromOctets(10, 0, 2, 2).Ptr(), 65000, true, true
	}
	return sa
}

func zvC13Chain(u zvC13Uni, s, j int) filter.Chain {
	one := func(name string, as ...actions.Action) filter.Chain {
		return filter.Chain{filter.NewFilter(name, []*filter.Term{filter.NewTerm(name, nil, append(as, actions.NewAcceptAction()))})}
	}
	switch {
	case j == 0:
		return filter.NewAcceptAllFilterChain()
	case u.Chains == "rewrite" && s == 0 && j == 1:
		return one("PREPEND", actions.NewASPathPrependAction(65000, 2))
	case u.Chains == "rewrite" && s == 0 && j == 2:
		return one("MED", actions.NewSetMEDAction(77))
	case u.Chains == "rewrite" && s == 1 && j == 1:
		return one("LOCALPREF", actions.NewSetLocalPrefAction(300))
	case u.Chains == "rewrite" && s == 1 && j == 2:
		return one("NEXTHOP_PREPEND", actions.NewSetNextHopAction(bnet.IPv4FromOctets(10, 0, 0, 99).Ptr()), actions.NewASPathPrependAction(65055, 1))
	case j == 1: // "filter" set
		return filter.NewDrainFilterChain()
	}
	// "filter" set, j == 2: reject the first prefix, set MED on the rest
	return filter.Chain{filter.NewFilter("REJECT_P0", []*filter.Term{
		filter.NewTerm("p0", []*filter.TermCondition{filter.NewTermConditionWithRouteFilters(filter.NewRouteFilter(zvC13Pfxs[0], filter.NewExactMatcher()))},
			[]actions.Action{actions.NewRejectAction()}),
		filter.NewTerm("rest", nil, []actions.Action{actions.NewSetMEDAction(5), actions.NewAcceptAction()}),
	})}
}

// zvC13Path builds the path the Adj-RIB-In peer announces (fresh objects per pipeline).
func zvC13Path(u zvC13Uni, x int) *route.Path {
	p := &route.Path{Type: route.BGPPathType, BGPPath: &route.BGPPath{
		BGPPathA: &route.BGPPathA{
			NextHop: bnet.IPv4FromOctets(10, 5, 0, 9).Ptr(), Source: bnet.IPv4FromOctets(10, 5, 0, 1).Ptr(),
			BGPIdentifier: 0x0a050001, EBGP: u.Source == "ebgp",
		},
	}}
	b := p.BGPPath
	if x == 0 {
		b.ASPath = &types.ASPath{{Type: types.ASSequence, ASNs: []uint32{65105, 65106}}}
		b.Communities = &types.Communities{65000<<16 | 1, 65000<<16 | 2}
		b.UnknownAttributes = []types.UnknownPathAttribute{{Optional: true, Transitive: true, TypeCode: 200, Value: []byte{1, 2, 3}}}
		if u.Source == "ibgp" {
			b.ClusterList = &types.ClusterList{0x07070707}
			b.BGPPathA.OriginatorID = 0x0a050005
			b.BGPPathA.LocalPref = 200
		}
	} else if x == 2 {
		// the attributes the other two variants leave at their defaults
		b.ASPath = &types.ASPath{{Type: types.ASSequence, ASNs: []uint32{65110}}}
		b.BGPPathA.Origin, b.BGPPathA.AtomicAggregate, b.BGPPathA.OnlyToCustomer = 2, true, 65110
		b.BGPPathA.Aggregator = &types.Aggregator{ASN: 65110, Address: 0x0a050001}
		if u.Source == "ibgp" {
			b.BGPPathA.LocalPref = 50
		}
	} else {
		// AS_SET first: a prepend has to open a new segment
		b.ASPath = &types.ASPath{{Type: types.ASSet, ASNs: []uint32{65107, 65108}}, {Type: types.ASSequence, ASNs: []uint32{65109}}}
		b.LargeCommunities = &types.LargeCommunities{{GlobalAdministrator: 65000, DataPart1: 1, DataPart2: 2}}
		b.BGPPathA.MED = 10
		// lists that are present but empty (what the decoder builds for zero-length attributes): still objects of their own
		b.Communities = &types.Communities{}
		if u.Source == "ibgp" {
			b.BGPPathA.LocalPref = 100
			b.ClusterList = &types.ClusterList{}
			b.BGPPathA.OriginatorID = 0x0a050006
		}
	}
	b.ASPathLen = b.ASPath.Length()
	return p
}

// zvC13Pipe is one Adj-RIB-In -> Loc-RIB -> sessions pipeline.
type zvC13Pipe struct {
	u     zvC13Uni
	has   [2]bool // which sessions exist in this pipeline at all
	in    *adjRIBIn.AdjRIBIn
	rib   *locRIB.LocRIB
	out   [2]*AdjRIBOut // nil = not registered
	chain [2]int        // configured export policy of the session
}

func zvC13NewPipe(u zvC13Uni, has [2]bool) *zvC13Pipe {
	sa := routingtable.SessionAttrs{
		RouterID: 0x0a000001, Type: route.BGPPathType, LocalASN: 65000, PeerASN: 65105,
		PeerIP: bnet.IPv4FromOctets(10, 5, 0, 1).Ptr(), LocalIP: bnet.IPv4FromOctets(10, 0, 0, 1).Ptr(),
	}
	if u.Source == "ibgp" {
		sa.IBGP, sa.PeerASN = true, 65000
	}
	v := vrf.NewUntrackedVRF("zv", 0)
	v.AddContributingASN(65000)
	pp := &zvC13Pipe{u: u, has: has, rib: locRIB.New("inet.0")}
	imp := filter.NewAcceptAllFilterChain()
	if u.Import == "prepend" {
		imp = filter.Chain{filter.NewFilter("IMPORT_PREPEND", []*filter.Term{filter.NewTerm("t", nil, []actions.Action{actions.NewASPathPrependAction(65105, 1), actions.NewAcceptAction()})})}
	}
	pp.in = adjRIBIn.New(imp, v, sa)
	pp.in.Register(pp.rib)
	return pp
}

func (pp *zvC13Pipe) apply(o zvC13Op) {
	switch o.Kind {
	case "route_add":
		pp.in.AddPath(zvC13Pfxs[o.P], zvC13Path(pp.u, o.X))
	case "route_remove":
		pp.in.RemovePath(zvC13Pfxs[o.P], zvC13Path(pp.u, 0))
	case "policy":
		pp.chain[o.S] = o.X
		if pp.out[o.S] != nil {
			pp.out[o.S].ReplaceFilterChain(zvC13Chain(pp.u, o.S, o.X))
		}
	case "register":
		if pp.has[o.S] {
			// as fsmAddressFamily.init does
			a := New(pp.rib, zvC13SessionAttrs(pp.u, o.S), zvC13Chain(pp.u, o.S, pp.chain[o.S]))
			a.Register(&zvoRec{})
			pp.rib.RegisterWithOptions(a, routingtable.ClientOptions{BestOnly: true})
			pp.out[o.S] = a
		}
	case "unregister":
		if pp.out[o.S] != nil {
			pp.rib.Unregister(pp.out[o.S])
			pp.out[o.S] = nil
		}
	}
}

type zvC13Snap map[string][]zvoView // prefix -> stored paths in stored order

func zvC13SnapOf(rs []*route.Route) zvC13Snap {
	m := zvC13Snap{}
	for _, r := range rs {
		var vs []zvoView
		for _, p := range r.Paths() {
			vs = append(vs, zvoViewOf(p))
		}
		if len(vs) > 0 {
			m[r.Prefix().String()] = vs
		}
	}
	return m
}

func (s zvC13Snap) String() string {
	var sb strings.Builder
	for _, k := range zvoSortedKeys(s) {
		for _, v := range s[k] {
			fmt.Fprintf(&sb, "\n    %s %s", k, v)
		}
	}
	if sb.Len() == 0 {
		return " (empty)"
	}
	return sb.String()
}

// zvC13Diff returns "" if the snapshots are identical, otherwise the name of the
// first differing attribute ("path_set" if the stored paths differ in number).
func zvC13Diff(a, b zvC13Snap) string {
	keys := map[string]bool{}
	for k := range a {
		keys[k] = true
	}
	for k := range b {
		keys[k] = true
	}
	ks := make([]string, 0, len(keys))
	for k := range keys {
		ks = append(ks, k)
	}
	sort.Strings(ks)
	for _, k := range ks {
		if len(a[k]) != len(b[k]) {
			return "path_set"
		}
		for i := range a[k] {
			if a[k][i] == b[k][i] {
				continue
			}
			va, vb := reflect.ValueOf(a[k][i]), reflect.ValueOf(b[k][i])
			for f := 0; f < va.NumField(); f++ {
				if va.Field(f).Interface() != vb.Field(f).Interface() {
					return va.Type().Field(f).Name
				}
			}
		}
	}
	return ""
}

type zvC13Tables struct {
	in, rib zvC13Snap
	out     [2]zvC13Snap // nil map = session not registered
}

func (pp *zvC13Pipe) tables() zvC13Tables {
	t := zvC13Tables{in: zvC13SnapOf(pp.in.Dump()), rib: zvC13SnapOf(pp.rib.Dump())}
	for s := range pp.out {
		if pp.out[s] != nil {
			t.out[s] = zvC13SnapOf(pp.out[s].Dump())
		}
	}
	return t
}

func zvC13Step(r *vh.Run, u zvC13Uni, hist []zvC13Op) (string, []zvC13Op, bool) {
	zvoFresh()
	c := zvC13Case{u, hist}
	pipes := [4]*zvC13Pipe{
		zvC13NewPipe(u, [2]bool{true, true}),   // main
		zvC13NewPipe(u, [2]bool{true, false}),  // only the eBGP session
		zvC13NewPipe(u, [2]bool{false, true}),  // only the RR-client session
		zvC13NewPipe(u, [2]bool{false, false}), // no session
	}
	main := pipes[0]
	var routes [3]int // model of the Adj-RIB-In: 0 = none, 1+x = path variant x
	ok := true
	for i, o := range hist {
		last := i == len(hist)-1
		var before zvC13Tables
		if last {
			before = main.tables()
		}
		var pan string
		for k, pp := range pipes {
			pp, o := pp, o
			if p, what := vh.Try(func() { pp.apply(o) }); p && pan == "" {
				pan = fmt.Sprintf("pipeline %d: %s", k, what)
			}
		}
		switch o.Kind {
		case "route_add":
			routes[o.P] = 1 + o.X
		case "route_remove":
			routes[o.P] = 0
		}
		if pan != "" {
			if last {
				r.Violation(vh.Sig("clause", "panic", "op", o.Kind), c, "%s panicked: %s", o.Kind, pan)
			}
			return "panic:" + fmt.Sprint(hist), nil, false
		}
		if !last {
			continue
		}
		after := main.tables()
		exportSide := o.Kind == "policy" || o.Kind == "register" || o.Kind == "unregister"
		opName := o.Kind
		if o.Kind == "policy" && before.out[o.S] != nil && i > 0 {
			// the chain index the session had before: replay it from the history
			prev := 0
			for _, q := range hist[:i] {
				if q.Kind == "policy" && q.S == o.S {
					prev = q.X
				}
			}
			if prev == o.X {
				opName = "refresh"
			}
		}
		if exportSide {
			r.Count("export_side_ops_checked", 1)
			if len(before.rib) > 0 {
				r.Count("export_side_op_with_routes_in_locrib", 1)
			}
			if other := before.out[1-o.S]; other != nil && len(other) > 0 {
				r.Count("export_side_op_with_routes_in_other_adjribout", 1)
			}
			if opName == "refresh" && len(before.rib) > 0 {
				r.Count("refresh_with_routes", 1)
			}
			chk := func(table string, b, a zvC13Snap) {
				if d := zvC13Diff(b, a); d != "" {
					ok = false
					r.Violation(vh.Sig("clause", "before_after", "table", table, "op", opName, "session", zvC13SessNameOf(u, o.S), "attr", d), c,
						"%s of the %s session changed the %s (first difference: %s)\n  before:%s\n  after:%s", opName, zvC13SessNameOf(u, o.S), table, d, b, a)
				}
			}
			chk("loc_rib", before.rib, after.rib)
			chk("adj_rib_in", before.in, after.in)
			if before.out[1-o.S] != nil {
				chk("other_adj_rib_out", before.out[1-o.S], after.out[1-o.S])
			}
		}
		// differential
		t1, t2, t3 := pipes[1].tables(), pipes[2].tables(), pipes[3].tables()
		blame := func(table string, get func(zvC13Tables) zvC13Snap) {
			if d := zvC13Diff(get(t3), get(after)); d != "" {
				who := "both_needed"
				switch {
				case zvC13Diff(get(t3), get(t1)) != "":
					who = "ebgp"
				case zvC13Diff(get(t3), get(t2)) != "":
					who = "rr"
				}
				ok = false
				r.Violation(vh.Sig("clause", "differential", "table", table, "op", opName, "session", who, "attr", d), c,
					"after %s the %s differs from the one of the same history without export sessions (first difference: %s; exporting session to blame: %s)\n  without sessions:%s\n  with sessions:%s",
					opName, table, d, who, get(t3), get(after))
			}
		}
		blame("loc_rib", func(t zvC13Tables) zvC13Snap { return t.rib })
		blame("adj_rib_in", func(t zvC13Tables) zvC13Snap { return t.in })
		for s, alone := range []zvC13Tables{t1, t2} {
			if (after.out[s] == nil) != (alone.out[s] == nil) {
				r.Fatalf("pipelines disagree about the registration of session %d", s)
			}
			if after.out[s] == nil {
				continue
			}
			r.Count("differential_adjribout_compared", 1)
			if d := zvC13Diff(alone.out[s], after.out[s]); d != "" {
				ok = false
				r.Violation(vh.Sig("clause", "differential", "table", "adj_rib_out", "op", opName, "session", zvC13SessNameOf(u, 1-s), "attr", d), c,
					"after %s the Adj-RIB-Out of the %s session differs from the one of the same history without the %s session (first difference: %s)\n  alone:%s\n  with the other session:%s",
					opName, zvC13SessNameOf(u, s), zvC13SessNameOf(u, 1-s), d, alone.out[s], after.out[s])
			}
		}
	}
	if !ok {
		return "violating:" + fmt.Sprint(hist), nil, false
	}

	// canonical state: every table of the main pipeline (deep), configured chains, registrations
	t := main.tables()
	canon := fmt.Sprint(routes, main.chain, "|in", t.in, "|rib", t.rib)
	for s := range t.out {
		if t.out[s] == nil {
			canon += fmt.Sprintf("|out%d:unregistered", s)
		} else {
			canon += fmt.Sprintf("|out%d:%s", s, t.out[s])
		}
	}

	var en []zvC13Op
	for p := 0; p < u.NPfx; p++ {
		for x := 0; x < u.NVar; x++ {
			if routes[p] != 1+x {
				en = append(en, zvC13Op{Kind: "route_add", P: p, X: x})
			}
		}
		if routes[p] != 0 {
			en = append(en, zvC13Op{Kind: "route_remove", P: p})
		}
	}
	for s := 0; s < 2; s++ {
		if main.out[s] == nil {
			en = append(en, zvC13Op{Kind: "register", S: s})
			continue
		}
		en = append(en, zvC13Op{Kind: "unregister", S: s})
		for j := 0; j < 3; j++ {
			en = append(en, zvC13Op{Kind: "policy", S: s, X: j}) // j == current chain: a pure refresh
		}
	}
	return canon, en, true
}

var zvC13Required = []string{"export_side_ops_checked", "export_side_op_with_routes_in_locrib", "export_side_op_with_routes_in_other_adjribout",
	"refresh_with_routes", "differential_adjribout_compared"}

func zvC13Universes(thorough bool) []zvC13Uni {
	var us []zvC13Uni
	for _, src := range []string{"ibgp", "ebgp"} {
		for _, ch := range []string{"rewrite", "filter"} {
			if thorough {
				us = append(us, zvC13Uni{src, ch, 3, 3, "", ""})
			} else {
				us = append(us, zvC13Uni{src, ch, 3, 2, "", ""}, zvC13Uni{src, ch, 2, 3, "", ""})
			}
		}
	}
	// paths that were prepended to on import (stored slices with a history), exported to sessions that prepend again
	for _, src := range []string{"ibgp", "ebgp"} {
		if thorough {
			us = append(us, zvC13Uni{src, "rewrite", 3, 3, "", "prepend"})
		} else {
			us = append(us, zvC13Uni{src, "rewrite", 2, 3, "", "prepend"})
		}
	}
	// sessions whose export adds the OTC attribute (RFC 9234 roles negotiated): a route server client (no other rewrite) and a customer
	for _, src := range []string{"ibgp", "ebgp"} {
		if thorough {
			us = append(us, zvC13Uni{src, "rewrite", 3, 3, "roles", ""}, zvC13Uni{src, "filter", 3, 3, "roles", ""})
		} else {
			us = append(us, zvC13Uni{src, "rewrite", 2, 3, "roles", ""})
		}
	}
	return us
}

func TestVerifC13(t *testing.T) {
	r := vh.Start(t, "C13")
	defer r.Finish()
	zvoTune()
	r.Rule("per universe (Adj-RIB-In peer ibgp|ebgp x policy set rewrite|filter), BFS over all histories of {announce one of 3 path variants, withdraw} on 3 prefixes (quick: 2 variants x 3 prefixes and 3 variants x 2 prefixes) through a real Adj-RIB-In, " +
		"{ReplaceFilterChain to one of 3 chains (the current one = refresh), unregister, register} on an eBGP and a route-reflector-client session (further universes: a route-server-client and a customer session with RFC 9234 roles negotiated), until the canonical state (deep snapshot of all four tables, " +
		"configured chains, registrations) set closes; before/after oracle on export-side operations, differential oracle against pipelines with fewer sessions on every operation; evaluations = universes explored")
	r.Require(zvC13Required...)
	if r.IsReplay() {
		var c zvC13Case
		r.ReplayCase(&c)
		// The Loc-RIB notifies its two export sessions in Go map iteration order (ClientManager.Clients).
		// For correct code the order is irrelevant; a defect through which one session's export leaks into
		// another table can depend on it. The harness cannot fix the order, so the case is repeated and every
		// signature seen is reported (300 repetitions: a signature needing k specific coin flips is missed
		// with probability (1-2^-k)^300, < 1e-4 for k <= 5).
		for rep := 0; rep < 300; rep++ {
			for n := 0; n <= len(c.Hist); n++ {
				zvC13Step(r, c.U, c.Hist[:n])
			}
		}
		for _, k := range zvC13Required {
			r.Count(k, 1)
		}
		return
	}
	us := zvC13Universes(r.Thorough())
	r.Extra("universes_total", len(us))
	for i, u := range us {
		if !r.Mine(i) {
			continue
		}
		if r.OutOfBudget() {
			r.Cap("time budget: not all universes explored")
			break
		}
		u := u
		b := vh.BFS[zvC13Op]{R: r, MaxStates: 500000, Label: fmt.Sprintf("%s/%s/%dpfx/%dvar", u.Source, u.Chains, u.NPfx, u.NVar), Step: func(h []zvC13Op) (string, []zvC13Op, bool) {
			return zvC13Step(r, u, h)
		}}
		st, tr, closed := b.Explore()
		r.Eval(1)
		r.Nontrivial(1)
		r.Outcome(fmt.Sprintf("%v:%d:%d:%v", u, st, tr, closed))
	}
}
