package server

// Session explorer shared by C07 (withdraw everything on leaving Established)
// and C23 (refinement of the RFC 4271 FSM model): explicit-state BFS over event
// histories of one BGP session A (plus a second, always-established session B
// that provides Loc-RIB routes and lets us observe isolation). Every history is
// replayed on a fresh world inside one controlled execution (deviation bound 0,
// so the run is a deterministic function of the history).

import (
	"fmt"
	"sort"
	"strings"
	"time"

	"github.com/bio-routing/bio-rd/protocols/bgp/packet"
	"github.com/bio-routing/bio-rd/route"
	"github.com/bio-routing/bio-rd/routingtable/filter"
	"github.com/bio-routing/bio-rd/routingtable/filter/actions"
	"github.com/bio-routing/bio-rd/zzverif/vsched"
)

type zvSessCfg struct {
	Name string     `json:"name"`
	A    zvPeerOpts `json:"-"`
	// BRRClient: the other session (B, established throughout) is a route reflector client: it contributes the cluster ID
	BRRClient bool `json:"-"`
}

func zvSessCfgs() []zvSessCfg {
	return []zvSessCfg{
		{Name: "ebgp-active", A: zvPeerOpts{Addr: 9, Hold: 3 * time.Second}},
		{Name: "ibgp-rrclient-active", A: zvPeerOpts{Addr: 9, Hold: 3 * time.Second, IBGP: true, RRClient: true}},
		{Name: "ebgp-ipv6-addpath", A: zvPeerOpts{Addr: 9, Hold: 3 * time.Second, IPv6: true, AddPathRX: true}},
		// an import policy that rewrites an attribute path equality looks at: what is withdrawn on teardown must be the rewritten path
		{Name: "ebgp-import-sets-localpref", A: zvPeerOpts{Addr: 9, Hold: 3 * time.Second, Import: zvChainSetLocalPref(200)}},
		// hold time 6 s: the keepalive interval (2 s) is longer than the Established state's 1 s poll, so the hold timer
		// check really runs (with 3 s the keepalive timer and the poll are due at the same instants, the default schedule
		// always serves the keepalive timer and the poll is re-armed: the expiry path would never be taken)
		{Name: "ebgp-hold-6s", A: zvPeerOpts{Addr: 9, Hold: 6 * time.Second}},
		// the other session is a route reflector client and contributes the cluster ID; this one is not and contributes none
		// (a group's cluster_id reaches all its neighbours: both carry the same one)
		{Name: "ebgp-next-to-rrclient", A: zvPeerOpts{Addr: 9, Hold: 3 * time.Second, ClusterID: zvRouterID}, BRRClient: true},
	}
}

func zvChainSetLocalPref(lp uint32) filter.Chain {
	return filter.Chain{filter.NewFilter("set-lp", []*filter.Term{filter.NewTerm("t", nil, []actions.Action{actions.NewSetLocalPrefAction(lp), actions.NewAcceptAction()})})}
}

// events
const (
	evT15      = "clock+15s"      // reconnect interval / connect retry
	evT1       = "clock+1s"       // poll tick: keepalive timer, hold-timer check
	evT4       = "clock+4s"       // silence longer than the hold time
	evOpen     = "recv-open"      // valid OPEN
	evOpenBad  = "recv-open-badas"
	evKA       = "recv-keepalive"
	evUpd1     = "recv-update-r1"
	evUpd2     = "recv-update-r2"
	evNotif    = "recv-notification"
	evNotif1   = "recv-notification-code1" // error code 1: the value the FSM's NOTIFICATION handlers single out
	evNotifVer = "recv-notification-version" // OPEN Message Error / Unsupported Version Number: the case RFC 4271 8.2.2 singles out
	evNotifBad = "recv-notification-undecodable" // a NOTIFICATION the decoder rejects (unknown error code): a decode failure that is not a BGP error of the peer's message
	evGarbage  = "recv-malformed"
	evWFail    = "conn-write-fails" // the next writes on the current connection fail
	evStop     = "manual-stop"
	evDispose  = "dispose-peer"
	evDialFail = "dial-fails"       // the next dial attempts are refused
	evBUpd     = "other-session-announces"
)

var zvSessAlphabet = []string{evT15, evT1, evT4, evOpen, evOpenBad, evKA, evUpd1, evUpd2, evNotif, evNotif1, evNotifVer, evNotifBad, evGarbage, evWFail, evStop, evDispose, evDialFail, evBUpd}

// zvObs is what is observed after an event (everything at a quiescent point).
type zvObs struct {
	State      string   // FSM state name of session A
	NFSM       int      // number of FSMs of peer A
	Attached   bool     // fsm.ribsInitialized
	Conn       string   // none | open | closed
	RibIn      []string // A's Adj-RIB-In (nil when not attached)
	LocFromA   []string // Loc-RIB paths whose source is A
	LocOther   []string // Loc-RIB paths from B
	RibClients uint64   // clients of the IPv4 Loc-RIB
	ContribAS  bool
	ContribCID bool
	View       []string // replay of the UPDATEs A's peer received on the current connection
	ViewErr    string
	WritesAfterClose int
	NotifSent  string   // last NOTIFICATION written on the current connection "code/sub"
	BState     string
	BRibIn     int
	Disposed   bool
	Pending    int      // admin calls (stop/dispose) still blocked
	SinceKA    int      // seconds since last keepalive/update (bucketed), -1 if n/a
	DialFail   bool
	WriteFail  bool
	UpdatesChangedRibIn int
}

type zvSess struct {
	cfg   zvSessCfg
	w     *zvWorld
	pA    *peer
	fA    *FSM
	cA    *zvConn // current connection of A (latest dialled)
	cB    *zvConn
	pB    *peer
	view  map[string]string // (prefix#pathid) -> attr digest, replayed from cA's output
	viewConn *zvConn
	viewErr string
	notif string
	admin []vsched.Handle
	disposed bool
	bAnnounced bool
	updChanged int
	oB zvPeerOpts
	curEvent string
	trans []zvFSMTrans // fine-grained FSM transitions of session A, from the FSM's own state-change log
}

// zvFSMTrans is one state change of session A with the abstract observation sampled when it was logged.
type zvFSMTrans struct {
	Old, New, Reason string
	Conn             string // status of fsm.con when the transition was logged
	Att              bool   // routes attached (for transitions into Established: sampled at the next quiescent point)
	PreConn          string
	PreAtt           bool
	Event            string // harness event during which it happened
}

func (s *zvSess) connStatus() string {
	if s.fA == nil || s.fA.con == nil {
		return "none"
	}
	if c, ok := s.fA.con.(*zvConn); ok {
		if c.closed {
			return "closed"
		}
		return "open"
	}
	return "open"
}

var (
	zvR1  = zvwPrefix{Len: 24, Addr: []byte{192, 0, 2, 0}}
	zvR2  = zvwPrefix{Len: 24, Addr: []byte{198, 51, 100, 0}}
	zvRB  = zvwPrefix{Len: 24, Addr: []byte{203, 0, 113, 0}}
	zvRB2 = zvwPrefix{Len: 24, Addr: []byte{203, 0, 114, 0}}
)

const (
	zvLocalASA = 65000
	zvLocalASB = 65001
)

// zvSessBeforeA, if set, is called after the world and session B are up and before peer A is added (leak oracles).
var zvSessBeforeA func()

func zvSessStart(cfg zvSessCfg) *zvSess {
	s := &zvSess{cfg: cfg, view: map[string]string{}}
	s.w = zvNewWorld()
	// session B: passive iBGP session with its own local AS (so that A's ASN contribution is observable), hold time 0
	s.oB = zvPeerOpts{Addr: 8, IBGP: true, Passive: true, RRClient: cfg.BRRClient}
	cb := s.w.peerConfig(s.oB)
	cb.LocalAS, cb.PeerAS = zvLocalASB, zvLocalASB
	if err := s.w.srv.AddPeer(cb); err != nil {
		panic(err)
	}
	s.pB = s.w.srv.peers.get(s.w.vrf, zvPeerIP(s.oB))
	s.w.srv.Start()
	vsched.Settle()
	s.cB = s.w.incoming(s.oB)
	ob := zvwOpen{Version: 4, AS: zvLocalASB, Hold: 0, ID: 0x08080808, Caps: []zvwCap{zvwCapASN4(zvLocalASB)}}
	s.cB.deliver(ob.bytes())
	vsched.Settle()
	s.cB.deliver(zvwKeepalive())
	vsched.Settle()
	s.cB.deliver(zvwUpdate(nil, []zvwAttr{zvwOrigin(0), zvwASPath(true), zvwNextHop(10, 0, 0, 8), zvwLocalPref(100)}, zvwNLRI([]zvwPrefix{zvRB}, false)))
	vsched.Settle()
	// session A
	if zvSessBeforeA != nil {
		zvSessBeforeA()
	}
	s.pA = s.w.addPeer(cfg.A)
	s.fA = s.pA.fsms[0]
	peerA := zvPeerIP(cfg.A).String()
	preConn, preAtt := "none", false
	s.w.onFSMLog = func(peer, oldS, newS, reason string) {
		if peer != peerA {
			return
		}
		t := zvFSMTrans{Old: oldS, New: newS, Reason: reason, Conn: s.connStatus(), Att: s.fA.ribsInitialized, PreConn: preConn, PreAtt: preAtt, Event: s.curEvent}
		s.trans = append(s.trans, t)
		preConn, preAtt = t.Conn, t.Att
		if newS == stateNameEstablished {
			preAtt = true // attachment happens right after the transition is logged; verified at the quiescent point
		}
	}
	vsched.Settle()
	return s
}

func (s *zvSess) remoteAS() uint32 {
	if s.cfg.A.IBGP {
		return zvLocalAS
	}
	return zvRemoteAS
}

func (s *zvSess) updateFor(p zvwPrefix) []byte {
	attrs := []zvwAttr{zvwOrigin(0)}
	if s.cfg.A.IBGP {
		attrs = append(attrs, zvwASPath(true), zvwNextHop(10, 0, 0, 9), zvwLocalPref(100))
	} else {
		attrs = append(attrs, zvwASPath(true, zvRemoteAS), zvwNextHop(10, 0, 0, 9))
	}
	p.PathID = 7
	return zvwUpdate(nil, attrs, zvwNLRI([]zvwPrefix{p}, s.cfg.A.AddPathRX))
}

func (s *zvSess) enabled() []string {
	var en []string
	connOpen := s.cA != nil && !s.cA.isClosed()
	for _, e := range zvSessAlphabet {
		switch e {
		case evOpen, evOpenBad, evKA, evUpd1, evUpd2, evNotif, evNotif1, evNotifVer, evNotifBad, evGarbage:
			if !connOpen {
				continue
			}
		case evWFail:
			if !connOpen || s.cA.writeErr != nil {
				continue
			}
		case evDialFail:
			if s.w.dialFail {
				continue
			}
		case evDispose:
			if s.disposed {
				continue
			}
		case evBUpd:
			if s.bAnnounced {
				continue
			}
		}
		en = append(en, e)
	}
	return en
}

func (s *zvSess) apply(e string) {
	s.curEvent = e
	ribInBefore := s.ribInDigest()
	switch e {
	case evT15:
		vsched.Advance(15 * time.Second)
	case evT1:
		vsched.Advance(time.Second)
	case evT4:
		vsched.Advance(4 * time.Second)
	case evOpen:
		s.cA.deliver(zvRemoteOpen(s.cfg.A, 0x09090909).bytes())
	case evOpenBad:
		o := zvRemoteOpen(s.cfg.A, 0x09090909)
		o.AS = 64999
		o.Caps = []zvwCap{zvwCapASN4(64999)}
		s.cA.deliver(o.bytes())
	case evKA:
		s.cA.deliver(zvwKeepalive())
	case evUpd1:
		s.cA.deliver(s.updateFor(zvR1))
	case evUpd2:
		s.cA.deliver(s.updateFor(zvR2))
	case evNotif:
		s.cA.deliver(zvwNotification(6, 4))
	case evNotif1:
		s.cA.deliver(zvwNotification(1, 2))
	case evNotifVer:
		s.cA.deliver(zvwNotification(2, 1))
	case evNotifBad:
		s.cA.deliver(zvwNotification(7, 0))
	case evGarbage:
		b := zvwKeepalive()
		b[3] = 0 // corrupt the marker
		s.cA.deliver(b)
	case evWFail:
		s.cA.writeErr = fmt.Errorf("broken pipe")
	case evStop:
		p := s.pA
		s.admin = append(s.admin, vsched.GoNamed("manual-stop", func() { p.stop() }))
	case evDispose:
		s.disposed = true
		w := s.w
		s.admin = append(s.admin, vsched.GoNamed("dispose", func() { w.srv.DisposePeer(w.vrf, zvPeerIP(s.cfg.A)) }))
	case evDialFail:
		s.w.dialFail = true
	case evBUpd:
		s.bAnnounced = true
		s.cB.deliver(zvwUpdate(nil, []zvwAttr{zvwOrigin(0), zvwASPath(true), zvwNextHop(10, 0, 0, 8), zvwLocalPref(100)}, zvwNLRI([]zvwPrefix{zvRB2}, false)))
	}
	vsched.Settle()
	vsched.Advance(10 * time.Millisecond) // let the update senders' aggregation tick pass
	// track A's current connection
	conns := s.w.connsSnapshot()
	for i := len(conns) - 1; i >= 0; i-- {
		if conns[i].name == "dial" {
			if s.cA != conns[i] {
				s.cA = conns[i]
			}
			break
		}
	}
	if (e == evUpd1 || e == evUpd2) && s.ribInDigest() != ribInBefore {
		s.updChanged++
	}
	s.absorbOutput()
}

func (s *zvSess) ribInDigest() string {
	if s.fA == nil || s.fA.ipv4Unicast == nil || s.fA.ipv4Unicast.adjRIBIn == nil {
		return "-"
	}
	var l []string
	for _, r := range s.fA.ipv4Unicast.adjRIBIn.Dump() {
		for _, p := range r.Paths() {
			l = append(l, fmt.Sprintf("%s#%d", r.Prefix().String(), p.BGPPath.PathIdentifier))
		}
	}
	sort.Strings(l)
	return strings.Join(l, ",")
}

// absorbOutput replays what A's peer received on the current connection.
func (s *zvSess) absorbOutput() {
	if s.cA == nil {
		return
	}
	if s.viewConn != s.cA {
		s.viewConn = s.cA
		s.view = map[string]string{}
		s.viewErr = ""
		s.notif = ""
	}
	ap := s.cfg.A.AddPathTX > 0
	for _, m := range zvParseStream(s.cA.take(), ap, ap) {
		if m.Err != "" {
			s.viewErr = m.Err
			continue
		}
		switch m.Type {
		case 3:
			s.notif = fmt.Sprintf("%d/%d", m.Code, m.Sub)
		case 2:
			for _, r := range m.Withdrawn {
				delete(s.view, r.key())
			}
			for _, r := range m.Announced {
				s.view[r.key()] = m.attrDigest()
			}
		}
	}
}

func (s *zvSess) observe() zvObs {
	o := zvObs{State: zvFSMState(s.fA), NFSM: len(s.pA.fsms), Attached: s.fA.ribsInitialized, Conn: "none", SinceKA: -1, Disposed: s.disposed}
	if s.cA != nil {
		o.Conn = "open"
		if s.cA.closed {
			o.Conn = "closed"
		}
		o.WritesAfterClose = s.cA.writesAfterClose
		o.WriteFail = s.cA.writeErr != nil
	}
	if d := s.ribInDigest(); d != "-" && d != "" {
		o.RibIn = strings.Split(d, ",")
	}
	srcA := zvPeerIP(s.cfg.A)
	for _, r := range s.w.rib4.Dump() {
		for _, p := range r.Paths() {
			if p.BGPPath != nil && p.BGPPath.BGPPathA != nil && p.BGPPath.BGPPathA.Source != nil && *p.BGPPath.BGPPathA.Source == *srcA {
				o.LocFromA = append(o.LocFromA, r.Prefix().String())
			} else {
				o.LocOther = append(o.LocOther, r.Prefix().String())
			}
		}
	}
	sort.Strings(o.LocFromA)
	sort.Strings(o.LocOther)
	o.RibClients = s.w.rib4.ClientCount()
	o.ContribAS = s.w.vrf.IsContributingASN(zvLocalASA)
	o.ContribCID = s.w.vrf.IsContributingClusterID(zvRouterID)
	for k := range s.view {
		o.View = append(o.View, k)
	}
	sort.Strings(o.View)
	o.ViewErr = s.viewErr
	o.NotifSent = s.notif
	o.BState = zvFSMState(s.pB.fsms[len(s.pB.fsms)-1])
	if f := s.pB.fsms[len(s.pB.fsms)-1]; f.ipv4Unicast != nil && f.ipv4Unicast.adjRIBIn != nil {
		o.BRibIn = len(f.ipv4Unicast.adjRIBIn.Dump())
	}
	for _, h := range s.admin {
		if !h.Done() {
			o.Pending++
		}
	}
	if s.fA.holdTime != 0 && !s.fA.lastUpdateOrKeepalive.IsZero() {
		d := int(vsched.Now().Sub(s.fA.lastUpdateOrKeepalive) / time.Second)
		if d > 5 {
			d = 5
		}
		o.SinceKA = d
	}
	o.DialFail = s.w.dialFail
	o.UpdatesChangedRibIn = s.updChanged
	return o
}

// canon is the BFS state key: everything that can influence the future.
func (o zvObs) canon(s *zvSess) string {
	upd := o.UpdatesChangedRibIn
	if upd > 2 {
		upd = 2
	}
	timers := ""
	if s.fA.connectRetryTimer != nil {
		timers += "crt;"
	}
	if s.fA.keepaliveTimer != nil {
		timers += "kat;"
	}
	return fmt.Sprintf("%s|%d|%v|%s|%v|%v|%v|%d|%v|%v|%v|%s|%d|%v|%d|%d|%v|%v|%v|%s|in=%d", o.State, o.NFSM, o.Attached, o.Conn, o.RibIn, o.LocFromA, o.LocOther, o.RibClients, o.ContribAS, o.ContribCID,
		o.View, o.BState, o.BRibIn, o.Disposed, o.Pending, o.SinceKA, o.DialFail, o.WriteFail, s.bAnnounced, timers, pendingIn(s.cA))
}

func pendingIn(c *zvConn) int {
	if c == nil {
		return 0
	}
	return len(c.in)
}

// zvSessTrace is the result of replaying one history.
type zvSessTrace struct {
	Trans   []zvFSMTrans
	Obs     []zvObs // Obs[0] initial, Obs[i] after event i
	Enabled []string
	Canon   string
	Status  vsched.Status
	Crash   string
	Blocked string
}

func zvSessReplay(cfg zvSessCfg, hist []string, trace bool) zvSessTrace {
	var t zvSessTrace
	x := vsched.Exec(vsched.Config{Trace: trace, Sites: trace, MaxSteps: 200000}, func() {
		s := zvSessStart(cfg)
		t.Obs = append(t.Obs, s.observe())
		for _, e := range hist {
			s.apply(e)
			t.Obs = append(t.Obs, s.observe())
		}
		t.Enabled = s.enabled()
		t.Trans = s.trans
		t.Canon = t.Obs[len(t.Obs)-1].canon(s)
	})
	t.Status, t.Crash, t.Blocked = x.Status, x.Crash, x.Blocked
	if trace {
		for _, l := range x.Log {
			fmt.Println("   ", l)
		}
	}
	return t
}

var _ = packet.MinLen

type routeRoute = route.Route

// zvPathDigest renders the attributes of a stored path (pointer-free).
func zvPathDigest(p *route.Path) string {
	if p == nil || p.BGPPath == nil {
		return "nil"
	}
	b := p.BGPPath
	var sb strings.Builder
	if b.BGPPathA != nil {
		nh := "nil"
		if b.BGPPathA.NextHop != nil {
			nh = b.BGPPathA.NextHop.String()
		}
		fmt.Fprintf(&sb, "nh=%s lp=%d med=%d origin=%d orig=%d atomic=%v ", nh, b.BGPPathA.LocalPref, b.BGPPathA.MED, b.BGPPathA.Origin, b.BGPPathA.OriginatorID, b.BGPPathA.AtomicAggregate)
		if b.BGPPathA.Aggregator != nil {
			fmt.Fprintf(&sb, "aggr=%v ", *b.BGPPathA.Aggregator)
		}
	} else {
		sb.WriteString("noattrs ")
	}
	if b.ASPath != nil {
		fmt.Fprintf(&sb, "aspath=%s ", b.ASPath.String())
	}
	if b.Communities != nil {
		fmt.Fprintf(&sb, "comm=%v ", *b.Communities)
	}
	if b.ClusterList != nil {
		fmt.Fprintf(&sb, "cl=%v ", *b.ClusterList)
	}
	fmt.Fprintf(&sb, "hidden=%d", p.HiddenReason)
	return sb.String()
}
