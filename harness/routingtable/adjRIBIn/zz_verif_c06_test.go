package adjRIBIn

// C06 — Ineligible paths never reach the Loc-RIB (nor any other consumer).
// Engine E4, same machinery as C05 (zz_verif_c05c06_common_test.go). One BFS per
// (session kind, add-path RX, ineligibility family): the alphabet mixes an
// eligible announcement with the family's ineligible ones (and eligible
// look-alikes), ReplaceFilterChain between accept-all / reject-all / rewrite in
// every order, late Register/Unregister of the Loc-RIB and of a second,
// recording consumer, Withdraw and Flush.
// Oracle on every call and state: nothing the reference classifies ineligible is
// in the Loc-RIB or is handed to a consumer (AddPath / AddPathInitialDump /
// ReplacePath); every eligible stored announcement the current policy accepts is
// present (rewritten by the current policy) at every registered consumer.

import (
	"fmt"
	"testing"

	"github.com/bio-routing/bio-rd/protocols/bgp/packet"
	"github.com/bio-routing/bio-rd/zzverif/vh"
)

type zvC06Family struct {
	name  string
	vars  func(ibgp bool, lead []uint32) []zvVar
	kinds []bool // IBGP values the family is explored for
}

func zvSeq(lead []uint32, more ...uint32) []zvSeg {
	return []zvSeg{{false, append(append([]uint32{}, lead...), more...)}}
}

func zvC06Families() []zvC06Family {
	both := []bool{true, false}
	return []zvC06Family{
		{"as_loop", func(ibgp bool, lead []uint32) []zvVar {
			return []zvVar{
				{Name: "local-AS-in-sequence", ID: 11, LP: 100, Segs: zvSeq(lead, 65010, zvLocalASN), NH: 1},
				{Name: "other-local-AS-in-set", ID: 12, LP: 100, Segs: append(zvSeq(lead, 65010), zvSeg{true, []uint32{65040, zvSecondASN}}), NH: 1},
				{Name: "former-local-AS (eligible)", ID: 13, LP: 100, Segs: zvSeq(lead, 65010, zvGoneASN), NH: 1},
			}
		}, both},
		{"originator_id", func(ibgp bool, lead []uint32) []zvVar {
			return []zvVar{
				{Name: "originator=router-id", ID: 21, LP: 100, Segs: zvSeq(lead, 65010), NH: 1, Originator: zvRouterID},
				{Name: "originator=other (eligible)", ID: 22, LP: 100, Segs: zvSeq(lead, 65010), NH: 1, Originator: zvOtherRID},
			}
		}, both},
		{"cluster_loop", func(ibgp bool, lead []uint32) []zvVar {
			return []zvVar{
				{Name: "local-cluster-id-in-list", ID: 31, LP: 100, Segs: zvSeq(lead, 65010), NH: 1, Originator: zvOtherRID, Clusters: []uint32{zvOtherCID, zvClusterID}},
				{Name: "foreign+former-cluster-ids (eligible)", ID: 32, LP: 100, Segs: zvSeq(lead, 65010), NH: 1, Originator: zvOtherRID, Clusters: []uint32{zvOtherCID, zvGoneCID}},
			}
		}, both},
		{"empty_as_path", func(ibgp bool, lead []uint32) []zvVar {
			// ineligible on eBGP, perfectly normal on iBGP
			return []zvVar{
				{Name: "no-AS_PATH", ID: 41, LP: 100, NilASPath: true, NH: 1},
				{Name: "zero-length-AS_PATH", ID: 42, LP: 100, Segs: nil, NH: 2},
			}
		}, both},
	}
}

func zvC06Configs(thorough bool) []*zvCfg {
	var out []*zvCfg
	mk := func(ap, ibgp bool, fam string, vars []zvVar) *zvCfg {
		c := &zvCfg{AddPath: ap, IBGP: ibgp, Policy: "accept", Chains: []string{"accept", "rejectall", "lp200"},
			Recorder: true, LateLoc: true, Family: fam}
		lead := []uint32{}
		if !ibgp {
			lead = []uint32{zvEBGPPeerAS}
		}
		lp := uint32(0)
		if ibgp {
			lp = 100
		}
		c.Vars = append([]zvVar{{Name: "eligible", ID: 1, LP: lp, Segs: zvSeq(lead, 65010), NH: 1}}, vars...)
		if !ibgp {
			for i := range c.Vars {
				c.Vars[i].LP = 0
			}
		}
		if thorough {
			c.Chains = append(c.Chains, "nexthop") // a second rewriting policy: rewrite <-> rewrite replacements
		}
		if ap {
			c.IDs = []uint32{1, 2}
			c.NPfx = 1
			if thorough {
				c.NPfx = 2
			}
		} else {
			c.IDs = []uint32{0}
			c.NPfx = 2
		}
		c.Name = fmt.Sprintf("family=%s addpath=%v ibgp=%v prefixes=%d policies=%d", fam, ap, ibgp, c.NPfx, len(c.Chains))
		return c
	}
	for _, ap := range []bool{false, true} {
		for _, f := range zvC06Families() {
			for _, ibgp := range f.kinds {
				lead := []uint32{}
				if !ibgp {
					lead = []uint32{zvEBGPPeerAS}
				}
				out = append(out, mk(ap, ibgp, f.name, f.vars(ibgp, lead)))
			}
		}
		// RFC 9234: every (local role, remote role) pair the OPEN check admits, eBGP
		pairs := [][2]uint8{
			{packet.PeerRoleRoleProvider, packet.PeerRoleRoleCustomer},
			{packet.PeerRoleRoleCustomer, packet.PeerRoleRoleProvider},
			{packet.PeerRoleRoleRS, packet.PeerRoleRoleRSClient},
			{packet.PeerRoleRoleRSClient, packet.PeerRoleRoleRS},
			{packet.PeerRoleRolePeer, packet.PeerRoleRolePeer},
		}
		otcVars := []zvVar{
			{Name: "OTC=peer-AS", ID: 51, Segs: zvSeq([]uint32{zvEBGPPeerAS}, 65010), NH: 1, OTC: zvEBGPPeerAS},
			{Name: "OTC=other-AS", ID: 52, Segs: zvSeq([]uint32{zvEBGPPeerAS}, 65010), NH: 1, OTC: 64999},
		}
		for _, pr := range pairs {
			c := mk(ap, false, fmt.Sprintf("otc local=%s remote=%s", packet.PeerRoleName(pr[0]), packet.PeerRoleName(pr[1])), otcVars)
			c.RolesOn, c.RoleLoc, c.RoleRem = true, pr[0], pr[1]
			out = append(out, c)
		}
		out = append(out, mk(ap, false, "otc roles-not-configured", otcVars)) // no role -> no OTC processing, everything eligible
	}
	return out
}

var zvC06Required = []string{
	"ineligible_stored_as_loop", "ineligible_stored_originator_id", "ineligible_stored_cluster_loop", "ineligible_stored_otc", "ineligible_stored_empty_as_path",
	"late_register_with_ineligible_stored", "late_client_register_with_ineligible_stored", "policy_replaced_with_ineligible_stored",
	"policy_replaced_with_eligible_stored", "eligible_delivered_next_to_ineligible", "client_calls_checked", "locrib_contribution_nonempty_checked",
	"locrib_contribution_rewritten_checked", "late_register_with_stored", "foreign_untouched_checked",
}

func TestVerifC06(t *testing.T) {
	r := vh.Start(t, "C06")
	defer r.Finish()
	r.Rule("per (ineligibility family as_loop | originator_id | cluster_loop | empty_as_path x iBGP/eBGP, and OTC for each admissible role pair + roles off on eBGP) x add-path RX off/on: " +
		"BFS over all histories of Announce(pfx, eligible | family's ineligible variants | eligible look-alikes, pathID) / Withdraw / Flush / ReplaceFilterChain(accept-all | reject-all | set LOCAL_PREF 200 | thorough: + set next hop; any order) / " +
		"Register+Unregister of the Loc-RIB (initially unregistered) and of a recording client, to closure of the canonical state; oracle after every transition and on every call the recording client receives; " +
		"plus every schedule (<= 3 preemptions, thorough 4) of an ineligible announcement replacing an eligible path while a second client registers; evaluations = explorations, non-trivial = explorations run to closure")
	r.Require(zvC06Required...)
	all := append(zvC06Configs(false), zvC06Configs(true)...)
	if r.IsReplay() {
		var cc zvC06ConcCase
		r.ReplayCase(&cc)
		if cc.Conc {
			zvC06ConcRun(r, cc, append([]int{}, cc.Schedule...))
			for _, k := range zvC06Required {
				r.Count(k, 1)
			}
			return
		}
		zvReplay(r, all)
		for _, k := range zvC06Required {
			r.Count(k, 1)
		}
		return
	}
	cfgs := zvC06Configs(r.Thorough())
	r.Extra("explorations_total", len(cfgs))
	// the add-path explorations are the expensive ones: deal them out first
	order := make([]int, 0, len(cfgs))
	for i, c := range cfgs {
		if c.AddPath {
			order = append(order, i)
		}
	}
	for i, c := range cfgs {
		if !c.AddPath {
			order = append(order, i)
		}
	}
	for k, i := range order {
		if !r.Mine(k) {
			continue
		}
		if r.OutOfBudget() {
			r.Cap("time budget: not all explorations run")
			break
		}
		zvExplore(r, cfgs[i], 0)
	}
	zvC06Concurrent(r, len(order))
}
