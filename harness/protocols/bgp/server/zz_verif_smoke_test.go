package server

import (
	"time"
	"fmt"
	"testing"

	"github.com/bio-routing/bio-rd/zzverif/vh"
	"github.com/bio-routing/bio-rd/zzverif/vsched"
)

func TestVerifSmoke(t *testing.T) {
	r := vh.Start(t, "SMOKE")
	defer r.Finish()
	x := vsched.Exec(vsched.Config{Trace: true, Sites: true}, func() {
		w := zvNewWorld()
		o := zvPeerOpts{Addr: 9}
		p := w.addPeer(o)
		c := w.activeConnect()
		fmt.Println("after connect: state", zvFSMState(p.fsms[0]), "conn", c != nil)
		if c == nil {
			return
		}
		msgs := zvParseStream(c.take(), false, false)
		fmt.Printf("bio-rd sent %d msgs, first type %d\n", len(msgs), msgs[0].Type)
		w.establish(c, o, 0x09090909)
		fmt.Println("after handshake: state", zvFSMState(p.fsms[0]))
		upd := zvwUpdate(nil, []zvwAttr{zvwOrigin(0), zvwASPath(true, zvRemoteAS), zvwNextHop(10, 0, 0, 9)}, zvwNLRI([]zvwPrefix{{Len: 24, Addr: []byte{192, 0, 2, 0}}}, false))
		c.deliver(upd)
		vsched.Settle()
		fmt.Println("locRIB routes:", w.rib4.Count(), "ribin:", len(p.fsms[0].ipv4Unicast.adjRIBIn.Dump()))
		c.deliver(zvwNotification(6, 2))
		vsched.Settle()
		fmt.Println("after notification: state", zvFSMState(p.fsms[0]), "locRIB routes:", w.rib4.Count(), "closed", c.closed)
	})
	fmt.Println("status", x.Status, "steps", x.Steps, x.Crash, x.Blocked)
	if len(x.Log) > 0 {
		for _, l := range x.Log[len(x.Log)-10:] {
			fmt.Println("  ", l)
		}
	}
	r.Eval(1)
}

func TestVerifSessTiming(t *testing.T) {
	r := vh.Start(t, "SMOKE")
	defer r.Finish()
	r.Eval(1)
	cfg := zvSessCfgs()[0]
	for _, h := range [][]string{nil, {evT15}, {evT15, evOpen, evKA}, {evT15, evOpen, evKA, evT4}, {evT15, evT15, evT15, evT15}} {
		t0 := time.Now()
		var steps int
		x := vsched.Exec(vsched.Config{MaxSteps: 200000}, func() {
			s := zvSessStart(cfg)
			for _, e := range h {
				s.apply(e)
			}
			o := s.observe()
			fmt.Printf("%v -> %s view=%v other=%v clients=%d\n", h, o.State, o.View, o.LocOther, o.RibClients)
		})
		steps = x.Steps
		fmt.Println("  steps", steps, "wall", time.Since(t0), x.Status)
	}
}
