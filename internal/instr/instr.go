// Package instr rewrites repo packages onto the virtual runtime (engine E1).
package instr

import "fmt"

// Rewrite instruments the given repo package directories and returns overlay
// replacements (original path -> rewritten copy).
func Rewrite(repoRoot string, pkgs []string, outDir string, opts map[string]any) (map[string]string, error) {
	return nil, fmt.Errorf("not implemented yet")
}
