package packet

// C17 — every BGP message bio-rd emits is well-formed and round-trips.
// Engine E5: an explicitly enumerated grid of routes (AS path shapes, attribute
// sizes around the 255 / 4096 byte limits, session options) is turned into
// UPDATEs through the calls the update sender uses (packet.PathAttributes,
// (*PathAttribute).Copy, BGPUpdate.SerializeUpdate, route.BGPPath.Prepend); OPENs
// for every capability set newPeer can build, NOTIFICATIONs for every
// (code, subcode) and the KEEPALIVE come from the Serialize* functions. Every
// emitted message is checked by an independent RFC decoder (zz_verif_c17_rfc_test.go)
// and by packet.Decode under the matching options against the content expected
// from the case parameters. A refusal to serialize is counted, not judged.

import (
	"bytes"
	"encoding/hex"
	"fmt"
	"runtime/debug"
	"strings"
	"testing"

	bnet "github.com/bio-routing/bio-rd/net"
	"github.com/bio-routing/bio-rd/protocols/bgp/types"
	"github.com/bio-routing/bio-rd/route"
	"github.com/bio-routing/bio-rd/zzverif/vh"
)

type zvC17Open struct {
	V4       bool   `json:"ipv4"`
	V4APRecv bool   `json:"ipv4_addpath_recv"`
	V4APSend bool   `json:"ipv4_addpath_send"`
	V4ExtNH  bool   `json:"ipv4_nexthop_extended"`
	V4MP     bool   `json:"advertise_ipv4_mp"`
	V6       bool   `json:"ipv6"`
	V6APRecv bool   `json:"ipv6_addpath_recv"`
	V6APSend bool   `json:"ipv6_addpath_send"`
	Role     int    `json:"peer_role"` // -1 = off
	LocalAS  uint32 `json:"local_as"`
	Hold     uint16 `json:"hold_time"`
	RouterID uint32 `json:"router_id"`
}

type zvC17Case struct {
	Kind string `json:"kind"` // update | withdraw | open | notification | keepalive
	// update
	ASNs    int    `json:"as_path_asns"`
	Layout  string `json:"as_path_layout,omitempty"`
	Prepend int    `json:"prepend"`
	Comm    int    `json:"communities"`
	Large   int    `json:"large_communities"`
	Cluster int    `json:"cluster_list"`
	Unknown []int  `json:"unknown_attr_sizes"`
	UnkPart bool   `json:"unknown_attr_partial"`
	Scalars int    `json:"scalars"`          // bit0 MED, bit1 ATOMIC_AGGREGATE, bit2 AGGREGATOR, bit3 iBGP session, bit4 route reflector client session
	Family  string `json:"family,omitempty"` // v4 | v6mp | v4mp-nh6 | v4mp-nh4
	AddPath bool   `json:"add_path"`
	ASN4    bool   `json:"asn4"`
	NPfx    int    `json:"prefixes"`
	PfxLen  int    `json:"withdraw_prefix_len"`
	// open / notification
	Open *zvC17Open `json:"open,omitempty"`
	Code int        `json:"code"`
	Sub  int        `json:"subcode"`
}

const (
	zvC17MED = 1 << iota
	zvC17Atomic
	zvC17Aggr
	zvC17IBGP
	zvC17RR
)

const zvC17PathID = 0x01020304

func zvC17ASN(i int, asn4 bool) uint32 {
	if asn4 {
		return 4200000000 + uint32(i)
	}
	return 1000 + uint32(i)
}

// zvC17Segments builds the in-memory AS path for a layout; "legal" layouts only
// contain what can arrive from the wire (1..255 ASNs per segment).
func zvC17Segments(n int, layout string, asn4 bool) ([]zvC17Seg, bool) {
	asns := make([]uint32, n)
	for i := range asns {
		asns[i] = zvC17ASN(i, asn4)
	}
	chunks := func(a []uint32, t uint8) []zvC17Seg {
		var out []zvC17Seg
		for len(a) > 0 {
			k := len(a)
			if k > 255 {
				k = 255
			}
			out = append(out, zvC17Seg{t, append([]uint32(nil), a[:k]...)})
			a = a[k:]
		}
		return out
	}
	switch layout {
	case "none": // zero segments
		return nil, n == 0
	case "empty-segment": // what route.NewBGPPath() creates
		return []zvC17Seg{{2, []uint32{}}}, n == 0
	case "legal": // sequences of at most 255
		return chunks(asns, 2), n > 0
	case "legal-set-first":
		if n < 3 {
			return nil, false
		}
		return append([]zvC17Seg{{1, append([]uint32(nil), asns[:2]...)}}, chunks(asns[2:], 2)...), true
	case "legal-set-last":
		if n < 3 {
			return nil, false
		}
		return append(chunks(asns[:n-2], 2), zvC17Seg{1, append([]uint32(nil), asns[n-2:]...)}), true
	case "one": // one sequence, however long (reachable through the API / Prepend)
		return []zvC17Seg{{2, asns}}, n > 255
	case "two":
		return []zvC17Seg{{2, asns[:n/2]}, {1, asns[n/2:]}}, n >= 512
	case "three":
		return []zvC17Seg{{2, asns[:n/3]}, {1, asns[n/3 : 2*n/3]}, {2, asns[2*n/3:]}}, n >= 600
	}
	return nil, false
}

func zvC17Prefixes(fam string, n int) []*bnet.Prefix {
	var out []*bnet.Prefix
	if fam == "v6mp" {
		lens := []uint8{48, 64, 32, 128, 127, 0, 1, 56, 65, 33}
		for i := 0; i < n; i++ {
			l := lens[i%len(lens)]
			idx := uint64(i/len(lens) + 1)
			var hi, lo uint64
			switch {
			case l == 0:
			case l <= 64:
				hi = idx << (64 - uint(l)) // overflow only drops high bits, never creates host bits
			default:
				hi, lo = 0x20010db8<<32, idx<<(128-uint(l))
			}
			out = append(out, bnet.NewPfx(bnet.IPv6(hi, lo), l).Ptr())
		}
		return out
	}
	lens := []uint8{24, 16, 8, 32, 31, 0, 1, 17, 25, 9}
	for i := 0; i < n; i++ {
		l := lens[i%len(lens)]
		v := uint32(0)
		if l > 0 {
			v = uint32(i/len(lens)+1) << (32 - uint(l))
		}
		out = append(out, bnet.NewPfx(bnet.IPv4(v), l).Ptr())
	}
	return out
}

func zvC17PfxModel(p *bnet.Prefix, id uint32, addPath bool) zvC17Pfx {
	// plain arithmetic on the prefix' own bytes; no packet code involved
	b := p.Addr().Bytes()
	n := (int(p.Len()) + 7) / 8
	m := zvC17Pfx{Len: int(p.Len()), Addr: hex.EncodeToString(b[:n])}
	if addPath {
		m.ID = id
	}
	return m
}

type zvC17Built struct {
	msgs    [][]byte
	expect  []*zvC17Expect
	refused int
	cause   string // AS path shape class (signature feature)
}

// zvC17BuildUpdate does what adjRIBOut + UpdateSender do with a path: optional
// Prepend, PathAttributes, (multiprotocol: copy without next hop + MP_REACH_NLRI),
// SerializeUpdate.
func zvC17BuildUpdate(c *zvC17Case) (res zvC17Built, panicked bool, what string) {
	segs, ok := zvC17Segments(c.ASNs, c.Layout, c.ASN4)
	if !ok {
		return res, false, ""
	}
	ibgp, rr := c.Scalars&zvC17IBGP != 0, c.Scalars&zvC17RR != 0
	nh4 := bnet.IPv4FromOctets(192, 0, 2, 1)
	nh6 := bnet.IPv6FromBlocks(0x2001, 0xdb8, 0, 0, 0, 0, 0, 1)
	e := &zvC17Expect{ASN4: c.ASN4, AddPath: c.AddPath, Origin: 2, AFI: 1}
	nh := nh4
	switch c.Family {
	case "v4":
	case "v6mp":
		e.MP, e.AFI, nh = true, 2, nh6
	case "v4mp-nh6":
		e.MP, nh = true, nh6
	case "v4mp-nh4":
		e.MP = true
	}
	e.NextHop = nh.Bytes()
	asp := make(types.ASPath, len(segs))
	for i, s := range segs {
		asp[i] = types.ASPathSegment{Type: s.Type, ASNs: append([]uint32{}, s.ASNs...)}
	}
	bp := &route.BGPPath{
		BGPPathA:       &route.BGPPathA{NextHop: nh.Ptr(), Source: nh4.Ptr(), Origin: 2, LocalPref: 200},
		ASPath:         &asp,
		PathIdentifier: zvC17PathID,
	}
	if c.Scalars&zvC17MED != 0 {
		bp.BGPPathA.MED, e.MED = 77, 77
	}
	if c.Scalars&zvC17Atomic != 0 {
		bp.BGPPathA.AtomicAggregate, e.Atomic = true, true
	}
	if c.Scalars&zvC17Aggr != 0 {
		bp.BGPPathA.Aggregator = &types.Aggregator{ASN: 64999, Address: 0x0a0b0c0d}
		e.Aggr = &[2]uint32{64999, 0x0a0b0c0d}
	}
	if ibgp {
		e.HasLP, e.LocalPref = true, 200
	}
	if rr {
		bp.BGPPathA.OriginatorID = 0x0a000009
		e.HasOrig, e.OrigID = true, 0x0a000009
		cl := make(types.ClusterList, c.Cluster)
		for i := range cl {
			cl[i] = 0x0a640000 + uint32(i)
			e.Cluster = append(e.Cluster, cl[i])
		}
		bp.ClusterList = &cl
	}
	if c.Comm > 0 {
		cs := make(types.Communities, c.Comm)
		for i := range cs {
			cs[i] = 0xfde80000 + uint32(i)
			e.Comm = append(e.Comm, cs[i])
		}
		bp.Communities = &cs
	}
	if c.Large > 0 {
		ls := make(types.LargeCommunities, c.Large)
		for i := range ls {
			ls[i] = types.LargeCommunity{GlobalAdministrator: 4200000000, DataPart1: uint32(i), DataPart2: 9}
			e.Large = append(e.Large, [3]uint32{4200000000, uint32(i), 9})
		}
		bp.LargeCommunities = &ls
	}
	for i, sz := range c.Unknown {
		v := make([]byte, sz)
		for j := range v {
			v[j] = byte(j*13 + i + 1)
		}
		bp.UnknownAttributes = append(bp.UnknownAttributes, types.UnknownPathAttribute{Optional: true, Transitive: true, Partial: c.UnkPart, TypeCode: uint8(200 + i), Value: v})
		e.Unknown = append(e.Unknown, zvC17Unk{Type: uint8(200 + i), Optional: true, Partial: c.UnkPart, Value: v})
	}
	p := &route.Path{Type: route.BGPPathType, BGPPath: bp}
	pfxs := zvC17Prefixes(c.Family, c.NPfx)
	for _, x := range pfxs {
		e.NLRI = append(e.NLRI, zvC17PfxModel(x, zvC17PathID, c.AddPath))
	}
	// expected AS path: k copies of the local AS in front, as sequence elements
	model := segs
	if c.Prepend > 0 {
		pre := make([]uint32, c.Prepend)
		for i := range pre {
			pre[i] = zvC17ASN(5000, c.ASN4)
		}
		model = append([]zvC17Seg{{2, pre}}, segs...)
	}
	e.ASPath = zvC17Canon(model)
	res.cause = "regular"
	for _, s := range segs {
		if len(s.ASNs) == 0 {
			res.cause = "empty_segment"
		}
		if len(s.ASNs) > 255 {
			res.cause = "oversize_segment_in_path"
		}
	}

	opt := &EncodeOptions{Use32BitASN: c.ASN4, UseAddPath: c.AddPath}
	panicked, what = vh.Try(func() {
		if c.Prepend > 0 {
			bp.Prepend(zvC17ASN(5000, c.ASN4), uint16(c.Prepend))
			if res.cause == "regular" {
				for _, s := range *bp.ASPath {
					if len(s.ASNs) > 255 {
						res.cause = "prepend_past_255"
					}
				}
			}
		}
		pa, err := PathAttributes(p, ibgp, rr)
		if err != nil {
			res.refused++
			return
		}
		var u *BGPUpdate
		if !e.MP {
			u = &BGPUpdate{PathAttributes: pa, SAFI: SAFIUnicast}
			for _, x := range pfxs {
				u.NLRI = &NLRI{PathIdentifier: bp.PathIdentifier, Prefix: x, Next: u.NLRI}
			}
		} else {
			// UpdateSender.copyAttributesWithoutNextHop + bgpUpdateMultiProtocol
			var attrs, last *PathAttribute
			var nextHop *bnet.IP
			for cur := pa; cur != nil; cur = cur.Next {
				if cur.TypeCode == NextHopAttr {
					nextHop = cur.Value.(*bnet.IP)
					continue
				}
				cp := cur.Copy()
				if last == nil {
					attrs = cp
				} else {
					last.Next = cp
				}
				last = cp
			}
			var first, prev *NLRI
			for _, x := range pfxs {
				n := &NLRI{Prefix: x, PathIdentifier: bp.PathIdentifier}
				if first == nil {
					first = n
				} else {
					prev.Next = n
				}
				prev = n
			}
			reach := &PathAttribute{TypeCode: MultiProtocolReachNLRIAttr, Value: MultiProtocolReachNLRI{AFI: e.AFI, SAFI: SAFIUnicast, NextHop: nextHop, NLRI: first}}
			reach.Next = attrs
			u = &BGPUpdate{PathAttributes: reach, SAFI: SAFIUnicast}
		}
		b, err := u.SerializeUpdate(opt)
		if err != nil {
			res.refused++
			return
		}
		res.msgs = append(res.msgs, b)
		res.expect = append(res.expect, e)
	})
	return res, panicked, what
}

// zvC17BuildWithdraw: UpdateSender.withdrawPrefixIPv4 / withdrawPrefixMultiProtocol.
func zvC17BuildWithdraw(c *zvC17Case) (res zvC17Built, panicked bool, what string) {
	e := &zvC17Expect{ASN4: c.ASN4, AddPath: c.AddPath, AFI: 1, Withdraw: true}
	var pfx *bnet.Prefix
	if c.Family == "v6mp" {
		e.MP, e.AFI = true, 2
		hi, lo := uint64(0), uint64(0)
		if c.PfxLen > 0 && c.PfxLen <= 64 {
			hi = uint64(1) << (64 - uint(c.PfxLen))
		} else if c.PfxLen > 64 {
			hi, lo = 0x20010db800000000, uint64(1)<<(128-uint(c.PfxLen))
		}
		pfx = bnet.NewPfx(bnet.IPv6(hi, lo), uint8(c.PfxLen)).Ptr()
	} else {
		e.MP = c.Family != "v4"
		v := uint32(0)
		if c.PfxLen > 0 {
			v = uint32(1) << (32 - uint(c.PfxLen))
		}
		pfx = bnet.NewPfx(bnet.IPv4(v), uint8(c.PfxLen)).Ptr()
	}
	e.Withdrawn = []zvC17Pfx{zvC17PfxModel(pfx, zvC17PathID, c.AddPath)}
	res.cause = "regular"
	panicked, what = vh.Try(func() {
		var u *BGPUpdate
		if !e.MP {
			u = &BGPUpdate{SAFI: SAFIUnicast, WithdrawnRoutes: &NLRI{PathIdentifier: zvC17PathID, Prefix: pfx}}
		} else {
			u = &BGPUpdate{PathAttributes: &PathAttribute{TypeCode: MultiProtocolUnreachNLRIAttr,
				Value: MultiProtocolUnreachNLRI{AFI: e.AFI, SAFI: SAFIUnicast, NLRI: &NLRI{PathIdentifier: zvC17PathID, Prefix: pfx}}}}
		}
		b, err := u.SerializeUpdate(&EncodeOptions{Use32BitASN: c.ASN4, UseAddPath: c.AddPath})
		if err != nil {
			res.refused++
			return
		}
		res.msgs = append(res.msgs, b)
		res.expect = append(res.expect, e)
	})
	return res, panicked, what
}

func zvC17NLRIList(n *NLRI, addPath bool) []zvC17Pfx {
	var out []zvC17Pfx
	for ; n != nil; n = n.Next {
		if n.Prefix == nil {
			out = append(out, zvC17Pfx{Len: -1})
			continue
		}
		out = append(out, zvC17PfxModel(n.Prefix, n.PathIdentifier, addPath))
	}
	return out
}

// zvC17CheckUpdateRepo decodes with packet.Decode under the matching options
// and compares what it returns with the expected content.
func zvC17CheckUpdateRepo(msg []byte, e *zvC17Expect) zvC17Verdict {
	opt := &DecodeOptions{AddPathIPv4Unicast: e.AddPath && e.AFI == 1, AddPathIPv6Unicast: e.AddPath && e.AFI == 2, Use32BitASN: e.ASN4,
		ExtendedNextHop: e.MP && e.AFI == 1 && len(e.NextHop) == 16}
	var m *BGPMessage
	var err error
	if p, what := vh.Try(func() { m, err = Decode(bytes.NewBuffer(msg), opt) }); p {
		return zvC17Verdict{"panic", "decode", what}
	}
	if err != nil {
		return zvC17Verdict{"decode_error", "update", err.Error()}
	}
	u, ok := m.Body.(*BGPUpdate)
	if !ok || u == nil || m.Header == nil || int(m.Header.Length) != len(msg) || m.Header.Type != UpdateMsg {
		return zvC17Verdict{"mismatch", "header", fmt.Sprintf("decoded header %+v / body %T", m.Header, m.Body)}
	}
	mis := func(attr, f string, a ...any) zvC17Verdict {
		return zvC17Verdict{"mismatch", attr, fmt.Sprintf(f, a...)}
	}
	seen := map[uint8]bool{}
	unk := map[uint8]zvC17Unk{}
	for _, x := range e.Unknown {
		unk[x.Type] = x
	}
	var reach, unreach []zvC17Pfx
	for pa := u.PathAttributes; pa != nil; pa = pa.Next {
		name := zvC17AttrName(pa.TypeCode)
		if seen[pa.TypeCode] {
			return mis(name, "attribute %d decoded twice", pa.TypeCode)
		}
		seen[pa.TypeCode] = true
		switch pa.TypeCode {
		case OriginAttr:
			if v, ok := pa.Value.(uint8); !ok || v != e.Origin {
				return mis(name, "origin %v, want %d", pa.Value, e.Origin)
			}
		case ASPathAttr:
			v, ok := pa.Value.(*types.ASPath)
			if !ok || v == nil {
				return mis(name, "value %T", pa.Value)
			}
			var got []zvC17Seg
			for _, s := range *v {
				got = append(got, zvC17Seg{s.Type, s.ASNs})
			}
			if got = zvC17Canon(got); !zvC17SegsEqual(got, e.ASPath) {
				return mis(name, "AS path %s, want %s", zvC17SegsString(got), zvC17SegsString(e.ASPath))
			}
		case NextHopAttr:
			v, ok := pa.Value.(*bnet.IP)
			if !ok || v == nil || e.MP || hex.EncodeToString(v.Bytes()) != hex.EncodeToString(e.NextHop) {
				return mis(name, "next hop %v, want %x (mp=%v)", pa.Value, e.NextHop, e.MP)
			}
		case MEDAttr:
			if v, ok := pa.Value.(uint32); !ok || v != e.MED {
				return mis(name, "MED %v, want %d", pa.Value, e.MED)
			}
		case LocalPrefAttr:
			if v, ok := pa.Value.(uint32); !ok || !e.HasLP || v != e.LocalPref {
				return mis(name, "LOCAL_PREF %v, expected present=%v value=%d", pa.Value, e.HasLP, e.LocalPref)
			}
		case AtomicAggrAttr:
			if !e.Atomic {
				return mis(name, "unexpected ATOMIC_AGGREGATE")
			}
		case AggregatorAttr:
			v, ok := pa.Value.(types.Aggregator)
			if !ok || e.Aggr == nil || uint32(v.ASN) != e.Aggr[0] || v.Address != e.Aggr[1] {
				return mis(name, "aggregator %+v, want %v", pa.Value, e.Aggr)
			}
		case CommunitiesAttr:
			v, ok := pa.Value.(*types.Communities)
			if !ok || v == nil || !zvC17U32sEqual([]uint32(*v), e.Comm) {
				return mis(name, "communities differ (want %d)", len(e.Comm))
			}
		case OriginatorIDAttr:
			if v, ok := pa.Value.(uint32); !ok || !e.HasOrig || v != e.OrigID {
				return mis(name, "ORIGINATOR_ID %v, expected present=%v value=%#x", pa.Value, e.HasOrig, e.OrigID)
			}
		case ClusterListAttr:
			v, ok := pa.Value.(*types.ClusterList)
			if !ok || v == nil || !e.HasOrig || !zvC17U32sEqual([]uint32(*v), e.Cluster) {
				return mis(name, "cluster list differs (want %d entries)", len(e.Cluster))
			}
		case LargeCommunitiesAttr:
			v, ok := pa.Value.(*types.LargeCommunities)
			if !ok || v == nil {
				return mis(name, "value %T", pa.Value)
			}
			var got [][3]uint32
			for _, l := range *v {
				got = append(got, [3]uint32{l.GlobalAdministrator, l.DataPart1, l.DataPart2})
			}
			if fmt.Sprint(got) != fmt.Sprint(e.Large) {
				return mis(name, "large communities differ (got %d, want %d)", len(got), len(e.Large))
			}
		case MultiProtocolReachNLRIAttr:
			v, ok := pa.Value.(MultiProtocolReachNLRI)
			if !ok || !e.MP || v.AFI != e.AFI || v.SAFI != SAFIUnicast || v.NextHop == nil || hex.EncodeToString(v.NextHop.Bytes()) != hex.EncodeToString(e.NextHop) {
				return mis(name, "MP_REACH_NLRI %+v, want afi=%d next hop %x", pa.Value, e.AFI, e.NextHop)
			}
			reach = zvC17NLRIList(v.NLRI, e.AddPath)
		case MultiProtocolUnreachNLRIAttr:
			v, ok := pa.Value.(MultiProtocolUnreachNLRI)
			if !ok || !e.MP || v.AFI != e.AFI || v.SAFI != SAFIUnicast {
				return mis(name, "MP_UNREACH_NLRI %+v, want afi=%d", pa.Value, e.AFI)
			}
			unreach = zvC17NLRIList(v.NLRI, e.AddPath)
		default:
			x, known := unk[pa.TypeCode]
			v, ok := pa.Value.([]byte)
			if !known || !ok {
				return mis(name, "unexpected attribute type %d (%T)", pa.TypeCode, pa.Value)
			}
			if hex.EncodeToString(v) != hex.EncodeToString(x.Value) {
				return zvC17Verdict{"mismatch", name, fmt.Sprintf("value: attribute type %d decoded with %d bytes, the path holds %d", pa.TypeCode, len(v), len(x.Value))}
			}
			if !pa.Transitive || pa.Optional != x.Optional || pa.Partial != x.Partial {
				return zvC17Verdict{"mismatch", name, fmt.Sprintf("flags: attribute type %d decoded optional=%v transitive=%v partial=%v, the path holds optional=%v transitive=true partial=%v", pa.TypeCode, pa.Optional, pa.Transitive, pa.Partial, x.Optional, x.Partial)}
			}
		}
	}
	wd := zvC17NLRIList(u.WithdrawnRoutes, e.AddPath && e.AFI == 1)
	nl := zvC17NLRIList(u.NLRI, e.AddPath && e.AFI == 1)
	if e.Withdraw {
		got := wd
		if e.MP {
			got = unreach
		}
		if !zvC17PfxsEqual(got, e.Withdrawn) || len(nl) != 0 || len(reach) != 0 {
			return mis("withdrawn_routes", "withdrawn %v (announced %d), want %v", got, len(nl)+len(reach), e.Withdrawn)
		}
		return zvC17Verdict{}
	}
	need := map[uint8]bool{1: true, 2: true, 3: !e.MP, 14: e.MP, 4: e.MED != 0, 5: e.HasLP, 6: e.Atomic, 7: e.Aggr != nil, 8: len(e.Comm) > 0, 9: e.HasOrig, 10: e.HasOrig && len(e.Cluster) > 0, 32: len(e.Large) > 0}
	for _, x := range e.Unknown {
		need[x.Type] = true
	}
	for t := 0; t < 256; t++ {
		if need[uint8(t)] && !seen[uint8(t)] {
			return mis(zvC17AttrName(uint8(t)), "attribute type %d was not decoded", t)
		}
	}
	got := nl
	if e.MP {
		got = reach
	}
	if !zvC17PfxsEqual(got, e.NLRI) || len(wd) != 0 || len(unreach) != 0 || (e.MP && len(nl) != 0) {
		return mis("nlri", "%d NLRI decoded, want %d (or prefixes / path identifiers differ)", len(got), len(e.NLRI))
	}
	return zvC17Verdict{}
}

func zvC17Norm(s string) string {
	s = zvC17Digits(s)
	if len(s) > 90 {
		s = s[:90]
	}
	return s
}

func zvC17Digits(s string) string {
	var b strings.Builder
	prev := false
	for i := 0; i < len(s); i++ {
		if s[i] >= '0' && s[i] <= '9' {
			if !prev {
				b.WriteByte('N')
			}
			prev = true
			continue
		}
		prev = false
		b.WriteByte(s[i])
	}
	return b.String()
}

// zvC17Report turns the two verdicts into at most one violation per decoder.
func zvC17Report(r *vh.Run, c *zvC17Case, kind, cause string, msg []byte, rfc, repo zvC17Verdict) {
	field := func(v zvC17Verdict) string {
		if v.Attr == "unknown" {
			if strings.HasPrefix(v.Detail, "flags:") {
				return "flags"
			}
			return "value"
		}
		return ""
	}
	head := hex.EncodeToString(msg)
	if len(head) > 120 {
		head = head[:120] + "…"
	}
	if rfc.bad() {
		sig := vh.Sig("clause", rfc.Kind, "msg", kind, "attr", rfc.Attr, "decoder", "rfc")
		if rfc.Attr == "as_path" {
			sig["as_path_shape"] = cause
		}
		if f := field(rfc); f != "" {
			sig["field"] = f
		}
		if rfc.Attr == "aggregator" {
			sig["asn4"] = fmt.Sprint(c.ASN4)
		}
		repoS := "packet.Decode accepts it with the expected content"
		if repo.bad() {
			repoS = fmt.Sprintf("packet.Decode: %s at %s: %s", repo.Kind, repo.Attr, repo.Detail)
		}
		r.Violation(sig, c, "emitted %s (%d bytes, %s) is %s for an RFC decoder at %s: %s; %s", kind, len(msg), head, rfc.Kind, rfc.Attr, rfc.Detail, repoS)
		return
	}
	if repo.bad() {
		sig := vh.Sig("clause", repo.Kind, "msg", kind, "attr", repo.Attr, "decoder", "repo")
		if repo.Attr == "as_path" {
			sig["as_path_shape"] = cause
		}
		if f := field(repo); f != "" {
			sig["field"] = f
		}
		if repo.Kind == "decode_error" || repo.Kind == "panic" {
			sig["what"] = zvC17Norm(repo.Detail)
		}
		r.Violation(sig, c, "emitted %s (%d bytes, %s) is valid for the RFC decoder and carries the expected content, but packet.Decode with the matching options: %s at %s: %s", kind, len(msg), head, repo.Kind, repo.Attr, repo.Detail)
	}
}

func zvC17Update(r *vh.Run, c *zvC17Case) {
	var b zvC17Built
	var p bool
	var what string
	if c.Kind == "withdraw" {
		b, p, what = zvC17BuildWithdraw(c)
	} else {
		b, p, what = zvC17BuildUpdate(c)
	}
	r.Eval(1)
	if p {
		r.Violation(vh.Sig("clause", "serialize_panic", "msg", c.Kind, "what", zvC17Norm(what)), c, "serializing panicked: %s", what)
		return
	}
	r.Count("refused_to_serialize", b.refused)
	for i, msg := range b.msgs {
		e := b.expect[i]
		r.Count("messages_checked", 1)
		r.Count("messages_"+c.Kind, 1)
		if len(msg) > 3000 {
			r.Count("messages_over_3000_bytes", 1)
		}
		rfc := zvC17CheckUpdateRFC(msg, e)
		repo := zvC17CheckUpdateRepo(msg, e)
		if !rfc.bad() && !repo.bad() {
			r.Count("roundtrip_ok", 1)
			if len(e.ASPath) > 0 {
				n := 0
				for _, s := range e.ASPath {
					n += len(s.ASNs)
				}
				if n > 255 {
					r.Count("ok_as_path_over_255_asns", 1)
				}
			}
			if len(e.Comm) > 63 || len(e.Large) > 21 {
				r.Count("ok_extended_length_communities", 1)
			}
			if e.AddPath {
				r.Count("ok_add_path", 1)
			}
			if e.MP {
				r.Count("ok_multiprotocol", 1)
			}
			r.Nontrivial(1)
		}
		r.Outcome(fmt.Sprintf("%s|%s|%s|%s|%s", c.Kind, rfc.Kind, rfc.Attr, repo.Kind, repo.Attr))
		zvC17Report(r, c, c.Kind, b.cause, msg, rfc, repo)
	}
}

// --- OPEN -------------------------------------------------------------------

// zvC17OpenCaps mirrors protocols/bgp/server.newPeer: the capability list and its order.
func zvC17OpenCaps(o *zvC17Open) (Capabilities, []zvC17Cap) {
	var caps Capabilities
	var want []zvC17Cap
	ap := func(on, recv, send bool, afi uint16) {
		if !on {
			return
		}
		v := uint8(0)
		if recv {
			v += AddPathReceive
		}
		if send {
			v += AddPathSend
		}
		if v == 0 {
			return
		}
		caps = append(caps, Capability{Code: AddPathCapabilityCode, Value: AddPathCapability{{AFI: afi, SAFI: SAFIUnicast, SendReceive: v}}})
		want = append(want, zvC17Cap{69, fmt.Sprintf("%04x01%02x", afi, v)})
	}
	mp := func(afi uint16) {
		caps = append(caps, Capability{Code: MultiProtocolCapabilityCode, Value: MultiProtocolCapability{AFI: afi, SAFI: SAFIUnicast}})
		want = append(want, zvC17Cap{1, fmt.Sprintf("%04x0001", afi)})
	}
	ap(o.V4, o.V4APRecv, o.V4APSend, AFIIPv4)
	ap(o.V6, o.V6APRecv, o.V6APSend, AFIIPv6)
	caps = append(caps, Capability{Code: ASN4CapabilityCode, Value: ASN4Capability{ASN4: o.LocalAS}})
	want = append(want, zvC17Cap{65, fmt.Sprintf("%08x", o.LocalAS)})
	if o.V4 {
		if o.V4ExtNH {
			caps = append(caps, Capability{Code: ExtendedNextHopEncodingCapabilityCode, Value: ExtendedNextHopCapability{{AFI: AFIIPv4, SAFI: SAFIUnicast, NextHopAFI: AFIIPv6}}})
			want = append(want, zvC17Cap{5, "000100010002"})
			mp(AFIIPv4)
		}
		if o.V4MP {
			mp(AFIIPv4)
		}
	}
	if o.V6 {
		mp(AFIIPv6)
	}
	if o.Role >= 0 {
		caps = append(caps, Capability{Code: PeerRoleCapabilityCode, Value: PeerRoleCapability{PeerRole: uint8(o.Role)}})
		want = append(want, zvC17Cap{9, fmt.Sprintf("%02x", o.Role)})
	}
	return caps, want
}

func zvC17RepoCap(c Capability) (zvC17Cap, bool) {
	switch v := c.Value.(type) {
	case MultiProtocolCapability:
		return zvC17Cap{c.Code, fmt.Sprintf("%04x00%02x", v.AFI, v.SAFI)}, true
	case AddPathCapability:
		s := ""
		for _, t := range v {
			s += fmt.Sprintf("%04x%02x%02x", t.AFI, t.SAFI, t.SendReceive)
		}
		return zvC17Cap{c.Code, s}, true
	case ASN4Capability:
		return zvC17Cap{c.Code, fmt.Sprintf("%08x", v.ASN4)}, true
	case PeerRoleCapability:
		return zvC17Cap{c.Code, fmt.Sprintf("%02x", v.PeerRole)}, true
	case ExtendedNextHopCapability:
		s := ""
		for _, t := range v {
			s += fmt.Sprintf("%04x%04x%04x", t.AFI, t.SAFI, t.NextHopAFI)
		}
		return zvC17Cap{c.Code, s}, true
	}
	return zvC17Cap{}, false
}

func zvC17OpenCase(r *vh.Run, c *zvC17Case) {
	o := c.Open
	caps, want := zvC17OpenCaps(o)
	as16 := uint16(o.LocalAS)
	if o.LocalAS > 65535 {
		as16 = ASTransASN
	}
	var msg []byte
	r.Eval(1)
	if p, what := vh.Try(func() {
		msg = SerializeOpenMsg(&BGPOpen{Version: 4, ASN: as16, HoldTime: o.Hold, BGPIdentifier: o.RouterID, OptParams: []OptParam{{Type: CapabilitiesParamType, Value: caps}}})
	}); p {
		r.Violation(vh.Sig("clause", "serialize_panic", "msg", "open", "what", zvC17Norm(what)), c, "SerializeOpenMsg panicked: %s", what)
		return
	}
	r.Count("messages_checked", 1)
	r.Count("messages_open", 1)
	var rfc, repo zvC17Verdict
	got, v := zvC17ParseOpenRFC(msg)
	rfc = v
	if !rfc.bad() {
		switch {
		case got.Version != 4 || got.AS != as16 || got.Hold != o.Hold || got.ID != o.RouterID:
			rfc = zvC17Verdict{"mismatch", "open", fmt.Sprintf("fixed fields %+v", *got)}
		case !zvC17CapsEqual(got.Caps, want):
			rfc = zvC17Verdict{"mismatch", "capability", fmt.Sprintf("capabilities %v, want %v", got.Caps, want)}
		}
	}
	var m *BGPMessage
	var err error
	if p, what := vh.Try(func() { m, err = Decode(bytes.NewBuffer(msg), &DecodeOptions{}) }); p {
		repo = zvC17Verdict{"panic", "decode", what}
	} else if err != nil {
		repo = zvC17Verdict{"decode_error", "open", err.Error()}
	} else if b, ok := m.Body.(*BGPOpen); !ok || b == nil || m.Header == nil || int(m.Header.Length) != len(msg) {
		repo = zvC17Verdict{"mismatch", "header", fmt.Sprintf("%+v %T", m.Header, m.Body)}
	} else {
		var gc []zvC17Cap
		okAll := true
		for _, p := range b.OptParams {
			cs, ok := p.Value.(Capabilities)
			if !ok || p.Type != CapabilitiesParamType {
				okAll = false
				continue
			}
			for _, x := range cs {
				y, ok := zvC17RepoCap(x)
				okAll = okAll && ok
				gc = append(gc, y)
			}
		}
		switch {
		case b.Version != 4 || b.ASN != as16 || b.HoldTime != o.Hold || b.BGPIdentifier != o.RouterID:
			repo = zvC17Verdict{"mismatch", "open", fmt.Sprintf("fixed fields %+v", *b)}
		case !okAll || !zvC17CapsEqual(gc, want):
			repo = zvC17Verdict{"mismatch", "capability", fmt.Sprintf("capabilities %v, want %v", gc, want)}
		}
	}
	if !rfc.bad() && !repo.bad() {
		r.Count("roundtrip_ok", 1)
		r.Count("ok_open", 1)
		r.Nontrivial(1)
	}
	r.Outcome(fmt.Sprintf("open|%s|%s|%s|%s", rfc.Kind, rfc.Attr, repo.Kind, repo.Attr))
	zvC17Report(r, c, "open", "", msg, rfc, repo)
}

// zvC17Defined: the (code, subcode) pairs for which packet/bgp.go has constants,
// i.e. the NOTIFICATIONs bio-rd itself can name. Only these are demanded to
// pass packet.Decode; the RFC decoder is applied to all 65536 pairs.
func zvC17Defined(code, sub int) bool {
	switch code {
	case MessageHeaderError:
		return sub >= ConnectionNotSync && sub <= BadMessageType
	case OpenMessageError:
		return sub == UnsupportedVersionNumber || sub == BadPeerAS || sub == BadBGPIdentifier || sub == UnsupportedOptionalParameter || sub == UnacceptableHoldTime || sub == RoleMismatchError
	case UpdateMessageError:
		return sub >= MalformedAttributeList && sub <= MalformedASPath && sub != DeprecatedUpdateMsgError7
	case HoldTimeExpired, FiniteStateMachineError:
		return sub == 0
	case Cease:
		return sub >= 0 && sub <= OutOfResources
	}
	return false
}

func zvC17Notification(r *vh.Run, c *zvC17Case) {
	var msg []byte
	r.Eval(1)
	if p, what := vh.Try(func() {
		msg = SerializeNotificationMsg(&BGPNotification{ErrorCode: uint8(c.Code), ErrorSubcode: uint8(c.Sub)})
	}); p {
		r.Violation(vh.Sig("clause", "serialize_panic", "msg", "notification"), c, "SerializeNotificationMsg panicked: %s", what)
		return
	}
	r.Count("messages_checked", 1)
	r.Count("messages_notification", 1)
	var rfc, repo zvC17Verdict
	body, v := zvC17Header(msg, 3)
	rfc = v
	if !rfc.bad() && (len(body) != 2 || int(body[0]) != c.Code || int(body[1]) != c.Sub) {
		rfc = zvC17Verdict{"mismatch", "notification", fmt.Sprintf("body %x, want %02x%02x", body, c.Code, c.Sub)}
	}
	if zvC17Defined(c.Code, c.Sub) {
		r.Count("notification_defined_pairs", 1)
		var m *BGPMessage
		var err error
		if p, what := vh.Try(func() { m, err = Decode(bytes.NewBuffer(msg), &DecodeOptions{}) }); p {
			repo = zvC17Verdict{"panic", "decode", what}
		} else if err != nil {
			repo = zvC17Verdict{"decode_error", "notification", err.Error()}
		} else if n, ok := m.Body.(*BGPNotification); !ok || n == nil || int(n.ErrorCode) != c.Code || int(n.ErrorSubcode) != c.Sub {
			repo = zvC17Verdict{"mismatch", "notification", fmt.Sprintf("decoded %+v", m.Body)}
		}
	}
	if !rfc.bad() && !repo.bad() {
		r.Count("roundtrip_ok", 1)
		r.Nontrivial(1)
	}
	r.Outcome(fmt.Sprintf("notification|%s|%s|%s", rfc.Kind, repo.Kind, repo.Attr))
	if repo.bad() && !rfc.bad() {
		// one defect per rejected pair class: keep code/subcode in the signature
		sig := vh.Sig("clause", repo.Kind, "msg", "notification", "decoder", "repo", "code", fmt.Sprint(c.Code), "subcode", fmt.Sprint(c.Sub))
		r.Violation(sig, c, "NOTIFICATION (%d,%d) as serialized (%x) is valid, but packet.Decode: %s: %s", c.Code, c.Sub, msg, repo.Kind, repo.Detail)
		return
	}
	zvC17Report(r, c, "notification", "", msg, rfc, repo)
}

func zvC17Keepalive(r *vh.Run, c *zvC17Case) {
	r.Eval(1)
	msg := SerializeKeepaliveMsg()
	r.Count("messages_checked", 1)
	r.Count("messages_keepalive", 1)
	var repo zvC17Verdict
	body, rfc := zvC17Header(msg, 4)
	if !rfc.bad() && len(body) != 0 {
		rfc = zvC17Verdict{"malformed", "keepalive", "KEEPALIVE with a body"}
	}
	m, err := Decode(bytes.NewBuffer(msg), &DecodeOptions{})
	if err != nil {
		repo = zvC17Verdict{"decode_error", "keepalive", err.Error()}
	} else if m.Header == nil || m.Header.Type != KeepaliveMsg || m.Header.Length != 19 {
		repo = zvC17Verdict{"mismatch", "header", fmt.Sprintf("%+v", m.Header)}
	}
	if !rfc.bad() && !repo.bad() {
		r.Count("roundtrip_ok", 1)
		r.Nontrivial(1)
	}
	zvC17Report(r, c, "keepalive", "", msg, rfc, repo)
}

func zvC17One(r *vh.Run, c *zvC17Case) {
	switch c.Kind {
	case "update", "withdraw":
		zvC17Update(r, c)
	case "open":
		zvC17OpenCase(r, c)
	case "notification":
		zvC17Notification(r, c)
	case "keepalive":
		zvC17Keepalive(r, c)
	default:
		r.Fatalf("unknown case kind %q", c.Kind)
	}
}

// --- enumeration --------------------------------------------------------------

type zvC17Dim struct {
	name          string
	reduced, full []int // indices into the dimension's value table
}

var zvC17Required = []string{"messages_checked", "roundtrip_ok", "messages_update", "messages_withdraw", "messages_open", "messages_notification", "messages_keepalive",
	"refused_to_serialize", "messages_over_3000_bytes", "ok_as_path_over_255_asns", "ok_extended_length_communities", "ok_add_path", "ok_multiprotocol", "ok_open", "notification_defined_pairs"}

func TestVerifC17(t *testing.T) {
	r := vh.Start(t, "C17")
	defer r.Finish()
	r.Rule("UPDATE grid: AS path (ASN count x layout legal|set-first|set-last|one|two|three|none|empty-segment x Prepend k) x communities x large communities x " +
		"(scalar attributes, iBGP, RR client + CLUSTER_LIST length) x unknown transitive attributes (sizes, partial flag) x prefixes per message x {IPv4 classic, IPv6 MP, IPv4 MP with IPv6 / IPv4 next hop} x add-path x 2/4-octet ASN; " +
		"quick: cross product of the reduced value lists; thorough: additionally every value of each dimension's full list against the reduced lists of all other dimensions. " +
		"Withdrawals: every prefix length x family x add-path. OPEN: every capability set newPeer can build x local AS x hold time. NOTIFICATION: all 65536 (code,subcode). KEEPALIVE. " +
		"evaluation = one serialization attempt; non-trivial = a message was emitted and passed both decoders")
	r.Require(zvC17Required...)
	// tiny live heap, lots of short-lived buffers: collect less often
	defer debug.SetGCPercent(debug.SetGCPercent(800))
	if r.IsReplay() {
		var c zvC17Case
		r.ReplayCase(&c)
		zvC17One(r, &c)
		for _, k := range zvC17Required {
			r.Count(k, 1)
		}
		return
	}

	asNs := []int{0, 1, 2, 254, 255, 256, 257, 510, 511, 512, 600, 1000}
	layouts := []string{"legal", "legal-set-first", "legal-set-last", "one", "two", "three", "none", "empty-segment"}
	prepends := []int{0, 1, 2, 255}
	comms := []int{0, 1, 63, 64, 65, 255, 256, 900}
	larges := []int{0, 1, 21, 22, 85, 300}
	// (scalars, cluster list length)
	type sc struct{ scalars, cluster int }
	scs := []sc{{0, 0}, {zvC17MED | zvC17Atomic | zvC17Aggr | zvC17IBGP | zvC17RR, 64}, {zvC17IBGP | zvC17RR, 63}, {zvC17IBGP | zvC17RR, 0},
		{zvC17IBGP, 0}, {zvC17MED | zvC17Aggr, 0}, {zvC17IBGP | zvC17RR, 1}, {zvC17IBGP | zvC17RR, 65}, {zvC17IBGP | zvC17RR | zvC17Atomic, 100}}
	type un struct {
		sizes []int
		part  bool
	}
	var unks []un
	for _, s := range [][]int{nil, {255}, {256}, {3000}, {200, 200}, {0}, {1}, {254}, {257}, {1000}, {255, 256}} {
		unks = append(unks, un{s, false})
		if s != nil {
			unks = append(unks, un{s, true})
		}
	}
	npfxs := []int{1, 40, 5, 300, 1200}
	dims := []zvC17Dim{
		{"asns", []int{0, 1, 4, 5, 7, 11}, nil},
		{"layout", []int{0, 1, 2, 3, 4, 5, 6, 7}, nil},
		{"prepend", []int{0, 1}, nil},
		{"comm", []int{0, 3, 7}, nil},
		{"large", []int{0, 5}, nil},
		{"scalars", []int{0, 1, 2, 3}, nil},
		{"unknown", []int{0, 1, 2, 3, 4, 5, 6, 7, 8}, nil},
		{"npfx", []int{0, 1}, nil},
	}
	sizes := []int{len(asNs), len(layouts), len(prepends), len(comms), len(larges), len(scs), len(unks), len(npfxs)}
	for i := range dims {
		for v := 0; v < sizes[i]; v++ {
			dims[i].full = append(dims[i].full, v)
		}
	}
	families := []string{"v4", "v6mp", "v4mp-nh6", "v4mp-nh4"}

	block := 0
	capped := false
	runTuple := func(tu []int) {
		block++
		if capped || !r.Mine(block) {
			return
		}
		if r.OutOfBudget() {
			r.Cap("time budget: not all grid blocks serialized")
			capped = true
			return
		}
		for _, fam := range families {
			for _, ap := range []bool{false, true} {
				for _, asn4 := range []bool{false, true} {
					c := &zvC17Case{Kind: "update", ASNs: asNs[tu[0]], Layout: layouts[tu[1]], Prepend: prepends[tu[2]], Comm: comms[tu[3]], Large: larges[tu[4]],
						Scalars: scs[tu[5]].scalars, Cluster: scs[tu[5]].cluster, Unknown: unks[tu[6]].sizes, UnkPart: unks[tu[6]].part, NPfx: npfxs[tu[7]],
						Family: fam, AddPath: ap, ASN4: asn4}
					zvC17Update(r, c)
					if block == 17 && fam == "v6mp" && ap && asn4 {
						r.Sample(c)
					}
				}
			}
		}
	}
	inReduced := func(d int, v int) bool {
		for _, x := range dims[d].reduced {
			if x == v {
				return true
			}
		}
		return false
	}
	var rec func(d, focus int, tu []int)
	rec = func(d, focus int, tu []int) {
		if d == len(dims) {
			// skip impossible AS path shapes without consuming a block number
			if _, ok := zvC17Segments(asNs[tu[0]], layouts[tu[1]], false); !ok {
				return
			}
			runTuple(tu)
			return
		}
		vals := dims[d].reduced
		if d == focus {
			vals = nil
			for _, v := range dims[d].full {
				if !inReduced(d, v) {
					vals = append(vals, v)
				}
			}
		}
		for _, v := range vals {
			tu[d] = v
			rec(d+1, focus, tu)
		}
	}
	rec(0, -1, make([]int, len(dims)))
	if r.Thorough() {
		for f := range dims {
			rec(0, f, make([]int, len(dims)))
		}
	}
	r.Extra("update_grid_blocks", block)

	// withdrawals
	for _, fam := range families {
		max := 32
		if fam == "v6mp" {
			max = 128
		}
		for l := 0; l <= max; l++ {
			block++
			if !r.Mine(block) {
				continue
			}
			for _, ap := range []bool{false, true} {
				for _, asn4 := range []bool{false, true} {
					zvC17Update(r, &zvC17Case{Kind: "withdraw", Family: fam, PfxLen: l, AddPath: ap, ASN4: asn4})
				}
			}
		}
	}

	// OPEN
	for bits := 0; bits < 256; bits++ {
		block++
		if !r.Mine(block) {
			continue
		}
		for role := -1; role <= 5; role++ {
			for _, as := range []uint32{1, 65535, 65536, 4294967295} {
				for _, hold := range []uint16{0, 3, 90, 65535} {
					o := &zvC17Open{V4: bits&1 != 0, V4APRecv: bits&2 != 0, V4APSend: bits&4 != 0, V4ExtNH: bits&8 != 0, V4MP: bits&16 != 0,
						V6: bits&32 != 0, V6APRecv: bits&64 != 0, V6APSend: bits&128 != 0, Role: role, LocalAS: as, Hold: hold, RouterID: 0x0a000001}
					if (!o.V4 && (o.V4APRecv || o.V4APSend || o.V4ExtNH || o.V4MP)) || (!o.V6 && (o.V6APRecv || o.V6APSend)) {
						continue
					}
					zvC17OpenCase(r, &zvC17Case{Kind: "open", Open: o})
				}
			}
		}
	}

	// NOTIFICATION, KEEPALIVE
	for code := 0; code < 256; code++ {
		block++
		if !r.Mine(block) {
			continue
		}
		for sub := 0; sub < 256; sub++ {
			zvC17Notification(r, &zvC17Case{Kind: "notification", Code: code, Sub: sub})
		}
	}
	block++
	if r.Mine(block) {
		zvC17Keepalive(r, &zvC17Case{Kind: "keepalive"})
	}
}
