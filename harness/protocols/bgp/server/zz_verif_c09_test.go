package server

// C09 — export eligibility and attribute rewriting follow the BGP RFCs.
// Engine E5: the full cross product (path attributes x communities x source x
// target session kind x peer-role state) is enumerated; every case builds a
// fresh world (real server, peer, FSM with a capture connection, real
// AdjRIBOut feeding the real UpdateSender), exports one path with
// AdjRIBOut.AddPath, lets the sender flush and parses what was written with
// the independent reference parser. The oracle is a plain reference of the
// clauses of the property statement.

import (
	"encoding/binary"
	"fmt"
	"testing"
	"time"

	bnet "github.com/bio-routing/bio-rd/net"
	"github.com/bio-routing/bio-rd/protocols/bgp/types"
	"github.com/bio-routing/bio-rd/route"
	"github.com/bio-routing/bio-rd/routingtable"
	"github.com/bio-routing/bio-rd/routingtable/adjRIBOut"
	"github.com/bio-routing/bio-rd/routingtable/filter"
	"github.com/bio-routing/bio-rd/zzverif/vh"
	"github.com/bio-routing/bio-rd/zzverif/vsched"
)

const (
	zvC09ClusterID = 0x0a0b0c0d
	zvC09OtherOTC  = 65123
	zvC09NoExport  = 0xFFFFFF01
	zvC09NoAdv     = 0xFFFFFF02
	zvC09OrdComm   = 65000<<16 | 77
)

// RFC 9234 role values (wire) and the admissible pairs; index 0 = roles off
var zvC09RolePairs = []struct {
	Name      string
	LocalCfg  uint8 // PeerConfig enum
	RemoteRFC uint8 // what the peer's capability carries
}{
	{"off", PeerConfigRoleOff, 0},
	{"we-provider/peer-customer", PeerConfigRoleProvider, 3},
	{"we-customer/peer-provider", PeerConfigRoleCustomer, 0},
	{"we-rs/peer-rsclient", PeerConfigRoleRS, 2},
	{"we-rsclient/peer-rs", PeerConfigRoleRSClient, 1},
	{"we-peer/peer-peer", PeerConfigRolePeer, 4},
}

var zvC09Targets = []string{"ebgp", "ebgp-rsclient", "ibgp", "ibgp-rrclient"}
var zvC09Sources = []string{"this-peer", "other-ibgp", "other-ebgp", "static"}
var zvC09Comms = [][]uint32{nil, {zvC09NoExport}, {zvC09NoAdv}, {zvC09OrdComm}, {zvC09OrdComm, zvC09NoExport}, {zvC09OrdComm, zvC09NoAdv}, {zvC09NoExport, zvC09NoAdv}}

type zvC09Case struct {
	ASPath int    `json:"as_path"` // 0 empty, 1 [65001], 2 AS_SET {65001,65002} first, then [65003]
	LP     uint32 `json:"local_pref"`
	Orig   uint32 `json:"originator_id"`
	CL     bool   `json:"cluster_list"` // [9]
	OTC    int    `json:"otc"`          // 0 absent, 1 local AS, 2 other AS
	Comm   int    `json:"communities"`
	Src    int    `json:"source"`
	Tgt    int    `json:"target"`
	Role   int    `json:"role_pair"`
	Adv    bool   `json:"role_advertised_by_peer"`
	Strict bool   `json:"role_strict"`
	V6     bool   `json:"ipv6"`
	Tick   bool   `json:"flush_by_ticker"`
	AP     bool   `json:"addpath_tx"`
	// the route was received with an OTC attribute (type 35). bio-rd's codec does not know the attribute, the session layer keeps it as an
	// unknown optional transitive attribute (partial bit set) and the OnlyToCustomer field stays 0
	OTCRcvd bool `json:"otc_as_received_attribute_35"`
	// Refresh: the route does not reach the session by AddPath but through a replacement of its export policy
	// (reject-all -> accept-all) while the route is in the Loc-RIB: the second way into an Adj-RIB-Out (RefreshRoute)
	Refresh bool `json:"via_export_policy_replacement,omitempty"`
}

func (c zvC09Case) String() string {
	return fmt.Sprintf("aspath=%d lp=%d orig=%d cl=%v otc=%d comm=%x src=%s tgt=%s role=%s adv=%v strict=%v v6=%v tick=%v addpath=%v otc-received-as-attribute-35=%v", c.ASPath, c.LP, c.Orig, c.CL, c.OTC, zvC09Comms[c.Comm],
		zvC09Sources[c.Src], zvC09Targets[c.Tgt], zvC09RolePairs[c.Role].Name, c.Adv, c.Strict, c.V6, c.Tick, c.AP, c.OTCRcvd)
}

type zvC09Seg struct {
	Type byte
	ASNs []uint32
}

func zvC09SegsString(s []zvC09Seg) string {
	out := ""
	for _, x := range s {
		if x.Type == 1 {
			out += fmt.Sprintf("{%v}", x.ASNs)
		} else {
			out += fmt.Sprintf("(%v)", x.ASNs)
		}
	}
	if out == "" {
		return "<empty>"
	}
	return out
}

func (c zvC09Case) inASPath() []zvC09Seg {
	if c.Src == 3 {
		return nil
	}
	switch c.ASPath {
	case 1:
		return []zvC09Seg{{2, []uint32{65001}}}
	case 2:
		return []zvC09Seg{{1, []uint32{65001, 65002}}, {2, []uint32{65003}}}
	}
	return nil
}

func (c zvC09Case) addr(last byte) *bnet.IP {
	if c.V6 {
		return bnet.IPv6FromBlocks(0x2001, 0xdb8, 0, 0, 0, 0, 0, uint16(last)).Dedup()
	}
	return bnet.IPv4FromOctets(10, 0, 0, last).Dedup()
}

func (c zvC09Case) prefix() *bnet.Prefix {
	if c.V6 {
		return bnet.NewPfx(bnet.IPv6FromBlocks(0x2001, 0xdb8, 0xaa, 0, 0, 0, 0, 0), 48).Dedup()
	}
	return bnet.NewPfx(bnet.IPv4FromOctets(192, 0, 2, 0), 24).Dedup()
}

func (c zvC09Case) prefixKey() string {
	if c.V6 {
		return "2:20010db800aa00000000000000000000/48"
	}
	return "1:192.0.2.0/24"
}

// the path as the Loc-RIB would hand it to the Adj-RIB-Out
func (c zvC09Case) path() *route.Path {
	if c.Src == 3 {
		return &route.Path{Type: route.StaticPathType, StaticPath: &route.StaticPath{NextHop: c.addr(77)}}
	}
	p := &route.Path{Type: route.BGPPathType, BGPPath: route.NewBGPPath()}
	a := p.BGPPath.BGPPathA
	src := []byte{9, 20, 30}[c.Src]
	a.Source = c.addr(src)
	a.NextHop = c.addr(src)
	a.BGPIdentifier = uint32(src)
	switch c.Src {
	case 0:
		a.EBGP = c.Tgt < 2 // the very peer of the session
	case 1:
		a.EBGP = false
	case 2:
		a.EBGP = true
	}
	a.LocalPref = c.LP
	a.OriginatorID = c.Orig
	switch c.OTC {
	case 1:
		a.OnlyToCustomer = zvLocalAS
	case 2:
		a.OnlyToCustomer = zvC09OtherOTC
	}
	var ap types.ASPath
	for _, s := range c.inASPath() {
		ap = append(ap, types.ASPathSegment{Type: s.Type, ASNs: append([]uint32{}, s.ASNs...)})
	}
	if ap == nil {
		ap = types.ASPath{}
	}
	p.BGPPath.ASPath = &ap
	p.BGPPath.ASPathLen = ap.Length()
	if c.CL {
		p.BGPPath.ClusterList = &types.ClusterList{9}
	}
	if cs := zvC09Comms[c.Comm]; cs != nil {
		cc := types.Communities(append([]uint32{}, cs...))
		p.BGPPath.Communities = &cc
	}
	if c.OTCRcvd {
		p.BGPPath.UnknownAttributes = []types.UnknownPathAttribute{{Optional: true, Transitive: true, Partial: true, TypeCode: 35, Value: []byte{0, 0, 0xfe, 0x63}}}
	}
	return p
}

// ---------------------------------------------------------------------------
// reference: what the property statement says about the case

type zvC09Ref struct {
	Never    string // name of the "never" clause that forbids the advertisement ("" = none)
	Open     bool   // eligibility left open (role configured locally, not advertised by the peer, OTC involved)
	Prepend  bool   // local ASN prepended, next hop = local address
	NoTouch  bool   // AS path must be the one of the route
	KeepNH   bool   // next hop of the route kept (route server client)
	RR       bool   // ORIGINATOR_ID + CLUSTER_LIST starting with the cluster id
	OTCAdd   bool   // OTC must be present on the exported route
	OTCOpen  bool   // OTC addition left open
	LPOnWire bool
}

func (c zvC09Case) hasComm(x uint32) bool {
	if c.Src == 3 {
		return false
	}
	for _, v := range zvC09Comms[c.Comm] {
		if v == x {
			return true
		}
	}
	return false
}

func (c zvC09Case) otcIn() uint32 {
	if c.Src == 3 {
		return 0
	}
	if c.OTCRcvd {
		return zvC09OtherOTC
	}
	return []uint32{0, zvLocalAS, zvC09OtherOTC}[c.OTC]
}

func zvC09Reference(c zvC09Case) zvC09Ref {
	var ref zvC09Ref
	ebgp := c.Tgt < 2
	rolesOn := c.Role != 0 && ebgp
	remote := zvC09RolePairs[c.Role].RemoteRFC
	upstream := remote == 0 || remote == 1 || remote == 4   // provider, RS, peer
	downstream := remote == 3 || remote == 2 || remote == 4 // customer, RS client, peer
	switch {
	case c.hasComm(zvC09NoAdv):
		ref.Never = "no-advertise"
	case c.hasComm(zvC09NoExport) && ebgp:
		ref.Never = "no-export-to-ebgp"
	case c.Src == 0:
		ref.Never = "back-to-source"
	case c.Src == 1 && c.Tgt == 2:
		ref.Never = "ibgp-to-nonclient-ibgp"
	case rolesOn && c.Adv && upstream && c.otcIn() != 0:
		ref.Never = "otc-to-provider-peer-rs"
	case rolesOn && !c.Adv && upstream && c.otcIn() != 0:
		ref.Open = true
	}
	ref.Prepend = c.Tgt == 0
	ref.NoTouch = c.Tgt != 0
	ref.KeepNH = c.Tgt == 1 && c.Src != 3
	ref.RR = c.Tgt == 3 && c.Src == 1
	if rolesOn && downstream && !c.OTCRcvd {
		if c.Adv {
			ref.OTCAdd = true
		} else {
			ref.OTCOpen = true
		}
	}
	ref.LPOnWire = !ebgp
	return ref
}

// ---------------------------------------------------------------------------
// observation

type zvC09Obs struct {
	Status     vsched.Status
	Crash      string
	Stored     int // number of paths in the Adj-RIB-Out
	SASPath    []zvC09Seg
	SNextHop   string
	SLP        uint32
	SMED       uint32
	SOrig      uint32
	SCL        []uint32
	SOTC       uint32
	SComms     []uint32
	WireErr    string
	Announce   int // UPDATEs announcing the prefix
	Other      int // announcements/withdrawals of anything else
	Withdrawn  int
	WAttrs     map[byte][]byte
	WNextHop   string
	WASPath    []zvC09Seg
	WASPathErr string
}

func zvC09ParseASPath(b []byte) ([]zvC09Seg, string) {
	var out []zvC09Seg
	for len(b) > 0 {
		if len(b) < 2 {
			return out, "truncated segment header"
		}
		t, n := b[0], int(b[1])
		if t != 1 && t != 2 {
			return out, fmt.Sprintf("segment type %d", t)
		}
		if len(b) < 2+4*n {
			return out, "truncated segment"
		}
		s := zvC09Seg{Type: t}
		for i := 0; i < n; i++ {
			s.ASNs = append(s.ASNs, binary.BigEndian.Uint32(b[2+4*i:]))
		}
		out = append(out, s)
		b = b[2+4*n:]
	}
	return out, ""
}

func zvC09SegsEqual(a, b []zvC09Seg) bool {
	if len(a) != len(b) {
		return false
	}
	for i := range a {
		if a[i].Type != b[i].Type || len(a[i].ASNs) != len(b[i].ASNs) {
			return false
		}
		for j := range a[i].ASNs {
			if a[i].ASNs[j] != b[i].ASNs[j] {
				return false
			}
		}
	}
	return true
}

func zvC09U32s(b []byte) []uint32 {
	var out []uint32
	for i := 0; i+4 <= len(b); i += 4 {
		out = append(out, binary.BigEndian.Uint32(b[i:]))
	}
	return out
}

func zvC09U32sEqual(a, b []uint32) bool {
	if len(a) != len(b) {
		return false
	}
	for i := range a {
		if a[i] != b[i] {
			return false
		}
	}
	return true
}

func zvC09Run(c zvC09Case) zvC09Obs {
	var o zvC09Obs
	x := vsched.Exec(vsched.Config{}, func() {
		w := zvNewWorld()
		po := zvPeerOpts{Addr: 9, Passive: true, IBGP: c.Tgt >= 2, RSClient: c.Tgt == 1, RRClient: c.Tgt == 3,
			Role: zvC09RolePairs[c.Role].LocalCfg, RoleStrict: c.Strict, IPv6: c.V6}
		pc := w.peerConfig(po)
		pc.RouteReflectorClusterID = zvC09ClusterID
		pc.LocalAddress = c.addr(1)
		pc.PeerAddress = c.addr(9)
		if err := w.srv.AddPeer(pc); err != nil {
			panic(err)
		}
		p := w.srv.peers.get(w.vrf, pc.PeerAddress)
		if c.Role != 0 && c.Adv {
			// what OPEN processing records when the peer's role capability was accepted
			p.peerRoleAdvByPeer = true
			p.peerRoleRemote = zvC09RolePairs[c.Role].RemoteRFC
		}
		fsm := newFSM(p)
		conn := w.newConn(nil, "capture")
		fsm.con = conn
		fsm.supports4OctetASN = true
		f := fsm.ipv4Unicast
		if c.V6 {
			f = fsm.ipv6Unicast
			f.multiProtocol = true
		}
		if c.AP {
			f.addPathTX = routingtable.ClientOptions{MaxPaths: 4}
		}
		chain := filter.NewAcceptAllFilterChain()
		if c.Refresh {
			chain = filter.NewDrainFilterChain()
		}
		aro := adjRIBOut.New(f.rib, f.getSessionAttrs(), chain)
		f.adjRIBOut = aro
		f.updateSender = newUpdateSender(f)
		f.updateSender.Start(5 * time.Millisecond)
		aro.Register(f.updateSender)

		if c.Refresh {
			f.rib.RegisterWithOptions(aro, f.addPathTX)
			f.rib.AddPath(c.prefix(), c.path())
			aro.ReplaceFilterChain(filter.NewAcceptAllFilterChain())
		} else {
			aro.AddPath(c.prefix(), c.path())
		}
		if c.Tick {
			vsched.Advance(20 * time.Millisecond)
		} else {
			aro.EndOfRIB()
		}

		for _, rt := range aro.Dump() {
			for _, sp := range rt.Paths() {
				o.Stored++
				if sp.BGPPath == nil || sp.BGPPath.BGPPathA == nil {
					continue
				}
				b := sp.BGPPath
				o.SASPath = nil
				if b.ASPath != nil {
					for _, s := range *b.ASPath {
						if len(s.ASNs) == 0 {
							continue // an empty segment (NewBGPPath's initial sequence) carries no information and is not encoded
						}
						o.SASPath = append(o.SASPath, zvC09Seg{s.Type, append([]uint32{}, s.ASNs...)})
					}
				}
				if b.BGPPathA.NextHop != nil {
					o.SNextHop = fmt.Sprintf("%x", b.BGPPathA.NextHop.Bytes())
				}
				o.SLP, o.SMED, o.SOrig, o.SOTC = b.BGPPathA.LocalPref, b.BGPPathA.MED, b.BGPPathA.OriginatorID, b.BGPPathA.OnlyToCustomer
				if b.ClusterList != nil {
					o.SCL = append([]uint32{}, *b.ClusterList...)
				}
				if b.Communities != nil {
					o.SComms = append([]uint32{}, *b.Communities...)
				}
			}
		}
		for _, m := range zvParseStream(conn.out, c.AP, c.AP) {
			if m.Err != "" && o.WireErr == "" {
				o.WireErr = m.Err
			}
			if m.Type != 2 {
				o.Other++
				continue
			}
			o.Withdrawn += len(m.Withdrawn)
			for _, a := range m.Announced {
				if fmt.Sprintf("%d:%s", a.AFI, a.Prefix) != c.prefixKey() {
					o.Other++
					continue
				}
				o.Announce++
				o.WAttrs = m.Attrs
				if v, ok := m.Attrs[3]; ok {
					o.WNextHop = fmt.Sprintf("%x", v)
				}
				if v, ok := m.Attrs[14]; ok && len(v) >= 4 && 4+int(v[3]) <= len(v) {
					o.WNextHop = fmt.Sprintf("%x", v[4:4+int(v[3])])
				}
				if v, ok := m.Attrs[2]; ok {
					o.WASPath, o.WASPathErr = zvC09ParseASPath(v)
				} else {
					o.WASPathErr = "AS_PATH attribute missing"
				}
			}
		}
	})
	o.Status, o.Crash = x.Status, x.Crash
	return o
}

// ---------------------------------------------------------------------------
// oracle

func zvC09Check(r *vh.Run, c zvC09Case) {
	ref := zvC09Reference(c)
	tgt := zvC09Targets[c.Tgt]
	src := zvC09Sources[c.Src]
	fam := "ipv4"
	if c.V6 {
		fam = "ipv6"
	}
	// coverage of the reference's clauses (independent of what the code does)
	r.Eval(1)
	switch {
	case ref.Never != "":
		r.Count("ref:never:"+ref.Never, 1)
		if c.OTCRcvd {
			r.Count("ref:never:otc-received-as-attribute-35", 1)
		}
		r.Nontrivial(1)
	case ref.Open:
		r.Count("ref:eligibility-open", 1)
	default:
		r.Count("ref:must-export", 1)
		if ref.Prepend {
			r.Count("demand:prepend+nexthop-self", 1)
		}
		if ref.KeepNH {
			r.Count("demand:rs-client-untouched", 1)
		}
		if ref.RR {
			r.Count("demand:rr-attributes", 1)
		}
		if ref.OTCAdd {
			r.Count("demand:otc-present", 1)
			if c.otcIn() == 0 {
				r.Count("demand:otc-added", 1)
			}
		}
		if ref.OTCOpen {
			r.Count("open:otc-add-role-not-advertised", 1)
		}
		if ref.LPOnWire {
			r.Count("demand:local-pref-on-wire", 1)
		} else {
			r.Count("demand:no-local-pref-on-wire", 1)
		}
		if ref.Prepend || ref.RR || ref.OTCAdd {
			r.Nontrivial(1)
		}
	}

	o := zvC09Run(c)
	viol := func(clause string, extra []string, format string, a ...any) {
		kv := append([]string{"clause", clause, "target", tgt, "family", fam}, extra...)
		r.Violation(vh.Sig(kv...), c, "case {%s}: "+format, append([]any{c.String()}, a...)...)
	}
	if o.Status != vsched.Completed {
		viol("run-"+o.Status.String(), []string{"source", src}, "execution %s: %.400s", o.Status, o.Crash)
		return
	}
	r.Outcome(fmt.Sprint(tgt, src, c.Role, c.Adv, ref.Never, o.Stored, o.Announce, zvC09SegsString(o.SASPath), o.SNextHop == o.WNextHop, o.SOrig != 0, len(o.SCL), o.SOTC, o.WAttrs[5] != nil))
	if o.WireErr != "" {
		viol("malformed-output", []string{"source", src}, "malformed message written: %s", o.WireErr)
		return
	}
	if o.Other > 1 || o.Withdrawn > 0 { // at most the End-of-RIB marker
		viol("unexpected-output", nil, "unexpected messages written (other=%d withdrawn=%d)", o.Other, o.Withdrawn)
		return
	}
	exported := o.Stored > 0 || o.Announce > 0
	if ref.Never != "" {
		if exported {
			where := "adj-rib-out"
			if o.Announce > 0 {
				where = "wire"
			}
			extra := []string{"where", where}
			if c.OTCRcvd {
				extra = append(extra, "otc_as", "unknown-attribute-35")
				if _, on := o.WAttrs[35]; !on && o.Announce > 0 {
					extra = append(extra, "attribute_35_on_wire", "false")
				}
			}
			viol("never:"+ref.Never, extra, "route must never be advertised (%s) but Adj-RIB-Out holds %d path(s) and %d UPDATE(s) announce it", ref.Never, o.Stored, o.Announce)
		}
		return
	}
	if o.Stored > 1 || o.Announce > 1 {
		viol("duplicate-export", nil, "one path exported, Adj-RIB-Out holds %d and %d UPDATEs announce it", o.Stored, o.Announce)
		return
	}
	if (o.Stored == 1) != (o.Announce == 1) {
		viol("adj-rib-out-vs-wire", []string{"source", src}, "Adj-RIB-Out holds %d path(s) but %d UPDATE(s) announce the prefix", o.Stored, o.Announce)
		return
	}
	if ref.Open {
		if !exported {
			r.Count("open:not-exported", 1)
			return
		}
		r.Count("open:exported", 1)
	} else if !exported {
		viol("eligible-not-exported", []string{"source", src}, "no clause forbids the advertisement but the route was not exported")
		return
	}

	// --- rewriting, on the stored entry and on the wire ---
	if o.WASPathErr != "" {
		viol("wire-as-path", nil, "AS_PATH on the wire: %s", o.WASPathErr)
		return
	}
	in := c.inASPath()
	want := in
	if ref.Prepend {
		if len(in) > 0 && in[0].Type == 2 {
			want = append([]zvC09Seg{{2, append([]uint32{zvLocalAS}, in[0].ASNs...)}}, in[1:]...)
		} else {
			want = append([]zvC09Seg{{2, []uint32{zvLocalAS}}}, in...)
		}
	}
	clause := "as-path-untouched"
	if ref.Prepend {
		clause = "local-as-prepended"
	}
	if !zvC09SegsEqual(o.SASPath, want) {
		viol(clause, []string{"where", "adj-rib-out"}, "stored AS path %s, want %s", zvC09SegsString(o.SASPath), zvC09SegsString(want))
	}
	if !zvC09SegsEqual(o.WASPath, want) {
		viol(clause, []string{"where", "wire"}, "AS_PATH on the wire %s, want %s", zvC09SegsString(o.WASPath), zvC09SegsString(want))
	}
	local := fmt.Sprintf("%x", c.addr(1).Bytes())
	if ref.Prepend {
		if o.SNextHop != local {
			viol("next-hop-self", []string{"where", "adj-rib-out"}, "stored next hop %s, want the local address %s", o.SNextHop, local)
		}
		if o.WNextHop != local {
			viol("next-hop-self", []string{"where", "wire"}, "next hop on the wire %s, want the local address %s", o.WNextHop, local)
		}
	}
	if ref.KeepNH {
		orig := fmt.Sprintf("%x", c.path().BGPPath.BGPPathA.NextHop.Bytes())
		if o.SNextHop != orig {
			viol("rs-client-next-hop-kept", []string{"where", "adj-rib-out"}, "stored next hop %s, the route's next hop is %s", o.SNextHop, orig)
		}
		if o.WNextHop != orig {
			viol("rs-client-next-hop-kept", []string{"where", "wire"}, "next hop on the wire %s, the route's next hop is %s", o.WNextHop, orig)
		}
	}
	if o.SNextHop != o.WNextHop {
		viol("stored-vs-wire", []string{"attr", "next-hop"}, "stored next hop %s, on the wire %s", o.SNextHop, o.WNextHop)
	}
	if ref.RR {
		if o.SOrig == 0 || (c.Orig != 0 && o.SOrig != c.Orig) {
			viol("rr-originator-id", []string{"where", "adj-rib-out"}, "stored ORIGINATOR_ID %d (route had %d)", o.SOrig, c.Orig)
		}
		wv, ok := o.WAttrs[9]
		if !ok || len(wv) != 4 || binary.BigEndian.Uint32(wv) == 0 || (c.Orig != 0 && binary.BigEndian.Uint32(wv) != c.Orig) {
			viol("rr-originator-id", []string{"where", "wire"}, "ORIGINATOR_ID on the wire %x present=%v (route had %d)", wv, ok, c.Orig)
		}
		wantCL := []uint32{zvC09ClusterID}
		if c.CL {
			wantCL = append(wantCL, 9)
		}
		if !zvC09U32sEqual(o.SCL, wantCL) {
			viol("rr-cluster-list", []string{"where", "adj-rib-out"}, "stored CLUSTER_LIST %x, want %x", o.SCL, wantCL)
		}
		wc, ok := o.WAttrs[10]
		if !ok || len(wc)%4 != 0 || !zvC09U32sEqual(zvC09U32s(wc), wantCL) {
			viol("rr-cluster-list", []string{"where", "wire"}, "CLUSTER_LIST on the wire %x present=%v, want %x", wc, ok, wantCL)
		}
	}
	if wv, ok := o.WAttrs[9]; ok && (len(wv) != 4 || binary.BigEndian.Uint32(wv) != o.SOrig) {
		viol("stored-vs-wire", []string{"attr", "originator-id"}, "stored ORIGINATOR_ID %d, on the wire %x", o.SOrig, wv)
	}
	if wc, ok := o.WAttrs[10]; ok && (len(wc)%4 != 0 || !zvC09U32sEqual(zvC09U32s(wc), o.SCL)) {
		viol("stored-vs-wire", []string{"attr", "cluster-list"}, "stored CLUSTER_LIST %x, on the wire %x", o.SCL, wc)
	}
	if ref.OTCAdd {
		if o.SOTC == 0 {
			viol("otc-added", nil, "exported towards %s without OTC (route had OTC %d)", zvC09RolePairs[c.Role].Name, c.otcIn())
		} else if c.otcIn() == 0 && o.SOTC != zvLocalAS {
			viol("otc-added-value", nil, "OTC added with value %d, want the local AS %d", o.SOTC, zvLocalAS)
		}
	}
	_, lpOnWire := o.WAttrs[5]
	if lpOnWire != ref.LPOnWire {
		viol("local-pref-only-ibgp", nil, "LOCAL_PREF on the wire: %v, session is iBGP: %v", lpOnWire, ref.LPOnWire)
	}
	if lpOnWire {
		if v := o.WAttrs[5]; len(v) != 4 || binary.BigEndian.Uint32(v) != o.SLP {
			viol("stored-vs-wire", []string{"attr", "local-pref"}, "stored LOCAL_PREF %d, on the wire %x", o.SLP, v)
		}
	}
	if v, ok := o.WAttrs[4]; ok && (len(v) != 4 || binary.BigEndian.Uint32(v) != o.SMED) {
		viol("stored-vs-wire", []string{"attr", "med"}, "stored MED %d, on the wire %x", o.SMED, v)
	}
	if wc := zvC09U32s(o.WAttrs[8]); !zvC09U32sEqual(wc, o.SComms) {
		viol("stored-vs-wire", []string{"attr", "communities"}, "stored communities %x, on the wire %x", o.SComms, wc)
	}
}

var zvC09Required = []string{
	"ref:never:no-advertise", "ref:never:no-export-to-ebgp", "ref:never:back-to-source", "ref:never:ibgp-to-nonclient-ibgp", "ref:never:otc-to-provider-peer-rs",
	"ref:never:otc-received-as-attribute-35", "ref:must-export", "ref:eligibility-open", "demand:prepend+nexthop-self", "demand:rs-client-untouched", "demand:rr-attributes", "demand:otc-present", "demand:otc-added",
	"demand:local-pref-on-wire", "demand:no-local-pref-on-wire",
}

func zvC09RoleStates() [][3]int { // pair index, advertised, strict
	out := [][3]int{{0, 0, 0}}
	for i := 1; i < len(zvC09RolePairs); i++ {
		out = append(out, [3]int{i, 0, 0}, [3]int{i, 1, 0}, [3]int{i, 1, 1})
	}
	return out
}

func zvC09Enumerate(thorough bool, visit func(idx int, c zvC09Case) bool) {
	idx := 0
	orig, stopped := visit, false
	visit = func(i int, c zvC09Case) bool {
		if !stopped && !orig(i, c) {
			stopped = true
		}
		return !stopped
	}
	defer func() {
		// routes received with an OTC attribute (kept as unknown attribute 35): x family x target x role state x BGP source
		for _, v6 := range []bool{false, true} {
			for tgt := range zvC09Targets {
				for _, rs := range zvC09RoleStates() {
					for src := 1; src <= 2; src++ {
						for _, tick := range []bool{false, true} {
							idx++
							if !visit(idx, zvC09Case{ASPath: 1, Src: src, Tgt: tgt, Role: rs[0], Adv: rs[1] == 1, Strict: rs[2] == 1, V6: v6, Tick: tick, OTCRcvd: true}) {
								return
							}
						}
					}
				}
			}
		}
	}()
	aps := []bool{false}
	if thorough {
		aps = []bool{false, true}
	}
	for _, fa := range [][2]bool{{false, false}, {true, false}, {false, true}, {true, true}}[:2*len(aps)] {
		v6, ap := fa[0], fa[1]
		for tgt := range zvC09Targets {
			for _, rs := range zvC09RoleStates() {
				for src := range zvC09Sources {
					for asp := 0; asp < 3; asp++ {
						for _, lp := range []uint32{0, 200} {
							for _, orig := range []uint32{0, 7} {
								for _, cl := range []bool{false, true} {
									for otc := 0; otc < 3; otc++ {
										for comm := range zvC09Comms {
											if src == 3 && (asp+int(lp)+int(orig)+otc+comm != 0 || cl) {
												continue // a static route has no BGP attributes
											}
											idx++
											c := zvC09Case{ASPath: asp, LP: lp, Orig: orig, CL: cl, OTC: otc, Comm: comm, Src: src, Tgt: tgt, Role: rs[0], Adv: rs[1] == 1, Strict: rs[2] == 1, V6: v6, AP: ap}
											// both flush paths of the sender: the aggregation ticker and the synchronous End-of-RIB flush
											c.Tick = thorough || idx%2 == 0
											if !visit(idx, c) {
												return
											}
											if !c.Tick {
												// the same route arriving through an export policy replacement
												idx++
												c.Refresh = true
												if !visit(idx, c) {
													return
												}
												c.Refresh = false
											}
											if thorough {
												idx++
												c.Tick = false
												if !visit(idx, c) {
													return
												}
											}
										}
									}
								}
							}
						}
					}
				}
			}
		}
	}
}

func TestVerifC09(t *testing.T) {
	r := vh.Start(t, "C09")
	defer r.Finish()
	r.Rule("(every second case, thorough every case, also with the route reaching the session through an export policy replacement instead of AddPath) full cross product AS_PATH {empty,[65001],AS_SET first} x LOCAL_PREF {0,200} x ORIGINATOR_ID {0,7} x CLUSTER_LIST {absent,[9]} x OTC {absent, local AS, other AS} x communities {none, NO_EXPORT, NO_ADVERTISE, ordinary, " +
		"ordinary+NO_EXPORT, ordinary+NO_ADVERTISE, NO_EXPORT+NO_ADVERTISE} x source {this peer, other iBGP peer, other eBGP peer, static (no BGP attributes)} x target {eBGP, eBGP RS client, iBGP, iBGP RR client} x role state {off, 5 admissible " +
		"(local,remote) pairs x {not advertised by the peer, advertised, advertised+strict}} x {IPv4, IPv6 multiprotocol} x flush {ticker, End-of-RIB: alternating; thorough: both, x add-path TX {off,on}}; plus routes received with an OTC attribute (kept by the session layer as unknown attribute 35) x family x target x role state x {iBGP, eBGP source}; each case: fresh world, AdjRIBOut.AddPath, real UpdateSender, reference parser; " +
		"non-trivial = cases in which a never-clause applies or a rewrite (prepend/next-hop-self, RR attributes, OTC) is demanded")
	r.Require(zvC09Required...)
	if r.IsReplay() {
		var c zvC09Case
		r.ReplayCase(&c)
		zvC09Check(r, c)
		fmt.Printf("case: %s\nreference: %+v\nobservation: %+v\n", c, zvC09Reference(c), zvC09Run(c))
		for _, k := range zvC09Required {
			r.Count(k, 1)
		}
		return
	}
	zvC09Enumerate(r.Thorough(), func(idx int, c zvC09Case) bool {
		if !r.Mine(idx) {
			return true
		}
		if idx%256 < 16 && r.OutOfBudget() {
			r.Cap("time budget")
			return false
		}
		zvC09Check(r, c)
		if idx%20011 == 0 {
			r.Sample(c)
		}
		return true
	})
}
