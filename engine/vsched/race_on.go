//go:build race

package vsched

import (
	"runtime"
	"unsafe"
)

// In race builds the scheduler's hand-offs are hidden from the detector
// (RaceDisable/RaceEnable around the channel operations, and every function of
// the virtual runtime is //go:norace), so that they create no happens-before
// edges; the program's own synchronisation is re-created explicitly: model
// mutexes perform a real lock (vsync), modelled channel operations and thread
// exit/join release/acquire on the object's address.

//go:norace
func raceDisable() { runtime.RaceDisable() }

//go:norace
func raceEnable() { runtime.RaceEnable() }

//go:norace
func raceReleaseChan(cs *chanState) {
	if cs != nil {
		runtime.RaceReleaseMerge(unsafe.Pointer(cs))
	}
}

//go:norace
func raceAcquireChan(cs *chanState) {
	if cs != nil {
		runtime.RaceAcquire(unsafe.Pointer(cs))
	}
}

//go:norace
func raceReleaseExit(t *thread) { runtime.RaceReleaseMerge(unsafe.Pointer(t)) }

//go:norace
func raceAcquireExit(t *thread) { runtime.RaceAcquire(unsafe.Pointer(t)) }

// RaceMode reports whether the binary was built with the race detector.
const RaceMode = true
