package server

// C25 — table operations and session control never deadlock.
// Engine E3: every interleaving (up to a preemption bound) of small
// multi-goroutine scenarios on the real tables, run under the virtual runtime.
// Oracle: every execution completes (no thread blocked forever) and a follow-up
// operation on each table completes.

import (
	"fmt"
	"sort"
	"strings"
	"time"
	"testing"

	bnet "github.com/bio-routing/bio-rd/net"
	"github.com/bio-routing/bio-rd/route"
	"github.com/bio-routing/bio-rd/routingtable"
	"github.com/bio-routing/bio-rd/routingtable/adjRIBIn"
	"github.com/bio-routing/bio-rd/routingtable/adjRIBOut"
	"github.com/bio-routing/bio-rd/routingtable/filter"
	"github.com/bio-routing/bio-rd/routingtable/filter/actions"
	"github.com/bio-routing/bio-rd/routingtable/locRIB"
	"github.com/bio-routing/bio-rd/routingtable/vrf"
	"github.com/bio-routing/bio-rd/zzverif/vh"
	"github.com/bio-routing/bio-rd/zzverif/vsched"
)

func zvPfx4(a, b, c, d, l uint8) *bnet.Prefix {
	return bnet.NewPfx(bnet.IPv4FromOctets(a, b, c, d), l).Ptr()
}

func zvBGPPath(src uint8, ebgp bool, lp uint32, asns ...uint32) *route.Path {
	p := &route.Path{Type: route.BGPPathType, BGPPath: route.NewBGPPath()}
	p.BGPPath.BGPPathA.Source = bnet.IPv4FromOctets(10, 0, 0, src).Ptr()
	p.BGPPath.BGPPathA.NextHop = bnet.IPv4FromOctets(10, 0, 0, src).Ptr()
	p.BGPPath.BGPPathA.EBGP = ebgp
	p.BGPPath.BGPPathA.LocalPref = lp
	p.BGPPath.BGPPathA.BGPIdentifier = uint32(src)
	if len(asns) > 0 {
		p.BGPPath.Prepend(asns[0], 1)
		for _, a := range asns[1:] {
			p.BGPPath.Prepend(a, 1)
		}
	}
	return p
}

func zvSessionAttrs(ibgp, addPathTX bool) routingtable.SessionAttrs {
	sa := routingtable.SessionAttrs{
		RouterID: 1, PeerIP: bnet.IPv4FromOctets(10, 0, 0, 9).Ptr(), LocalIP: bnet.IPv4FromOctets(10, 0, 0, 1).Ptr(),
		Type: route.BGPPathType, IBGP: ibgp, LocalASN: 65000, PeerASN: 65009, AddPathTX: addPathTX, DefaultLocalPreference: 100,
	}
	if ibgp {
		sa.PeerASN = 65000
	}
	return sa
}

// zvNullClient is a route table client that does nothing.
type zvNullClient struct{ n int }

func (c *zvNullClient) AddPath(*bnet.Prefix, *route.Path) error            { return nil }
func (c *zvNullClient) AddPathInitialDump(*bnet.Prefix, *route.Path) error { return nil }
func (c *zvNullClient) EndOfRIB()                                          {}
func (c *zvNullClient) RemovePath(*bnet.Prefix, *route.Path) bool          { return true }
func (c *zvNullClient) ReplacePath(*bnet.Prefix, *route.Path, *route.Path) {}
func (c *zvNullClient) RefreshRoute(*bnet.Prefix, []*route.Path)           {}
func (c *zvNullClient) Dispose()                                           {}

type zvScenario struct {
	name string
	// build creates fresh objects and returns the thread bodies and the follow-up probe
	build func() (threads []func(), followUp func())
	// timed scenarios involve FSM goroutines and timers: instead of joining, the main thread lets virtual time pass
	// (up to the reconnect interval twice) and then requires every operation thread to have completed
	timed bool
}

// zvC25SessionScenarios: session control against the real FSM (fixture built with exploration switched off).
func zvC25SessionScenarios() []zvScenario {
	var sc []zvScenario
	mk := func(name string, reach []string, ops func(s *zvSess) []func()) {
		sc = append(sc, zvScenario{name: name, timed: true, build: func() ([]func(), func()) {
			vsched.SetExploring(false)
			s := zvSessStart(zvSessCfg{Name: "c25", A: zvPeerOpts{Addr: 9, Hold: 90 * time.Second}})
			for _, e := range reach {
				s.apply(e)
			}
			vsched.SetExploring(true)
			return ops(s), func() {
				// the server API is still usable
				s.w.srv.GetPeers()
				s.w.srv.Metrics()
				s.w.rib4.Dump()
			}
		}})
	}
	states := map[string][]string{
		"idle":        nil,
		"openSent":    {evT15},
		"openConfirm": {evT15, evOpen},
		"established": {evT15, evOpen, evKA, evUpd1},
	}
	for _, st := range []string{"idle", "openSent", "openConfirm", "established"} {
		reach := states[st]
		mk("S4 stop||dispose in "+st, reach, func(s *zvSess) []func() {
			return []func(){func() { s.pA.stop() }, func() { s.w.srv.DisposePeer(s.w.vrf, zvPeerIP(s.cfg.A)) }}
		})
	}
	mk("S4 dispose||notification in established", states["established"], func(s *zvSess) []func() {
		return []func(){func() { s.w.srv.DisposePeer(s.w.vrf, zvPeerIP(s.cfg.A)) }, func() { s.cA.deliver(zvwNotification(6, 4)) }}
	})
	mk("S4 dispose of a peer with a ceased FSM", states["openSent"], func(s *zvSess) []func() {
		return []func(){func() {
			s.fA.cease() // what collision handling does to the losing FSM
			s.w.srv.DisposePeer(s.w.vrf, zvPeerIP(s.cfg.A))
		}}
	})
	mk("S9 export-policy-replace via server||notification in established", states["established"], func(s *zvSess) []func() {
		return []func(){func() { s.w.srv.ReplaceExportFilterChain(s.w.vrf, zvPeerIP(s.cfg.A), filter.NewDrainFilterChain()) }, func() { s.cA.deliver(zvwNotification(6, 4)) }}
	})
	mk("S9 import-policy-replace via server||update||stop in established", states["established"], func(s *zvSess) []func() {
		return []func(){func() { s.w.srv.ReplaceImportFilterChain(s.w.vrf, zvPeerIP(s.cfg.A), filter.NewDrainFilterChain()) }, func() { s.cA.deliver(s.updateFor(zvR2)) }, func() { s.pA.stop() }}
	})
	// S7: update sender destroyed while route changes arrive and the aggregation ticker fires
	for _, ap := range []bool{false, true} {
		ap := ap
		sc = append(sc, zvScenario{name: fmt.Sprintf("S7 updatesender destroy||addpath||tick addpath=%v", ap), timed: true, build: func() ([]func(), func()) {
			vsched.SetExploring(false)
			w := zvC10Build(ap)
			w.aro.AddPath(zvC10Pfx[0], zvC10Path(1))
			vsched.SetExploring(true)
			return []func(){
					func() { w.us.Destroy() },
					func() { w.aro.AddPath(zvC10Pfx[1], zvC10Path(2)); w.aro.RemovePath(zvC10Pfx[0], zvC10Path(1)) },
					func() { vsched.Sleep(5 * time.Millisecond) },
				}, func() {
					w.aro.AddPath(zvC10Pfx[0], zvC10Path(2))
					w.aro.Dump()
				}
		}})
	}
	return sc
}

func zvC25Scenarios() []zvScenario {
	accept := filter.NewAcceptAllFilterChain()
	drain := filter.NewDrainFilterChain()
	var sc []zvScenario
	for _, addPath := range []bool{false, true} {
		for _, ibgp := range []bool{false, true} {
			addPath, ibgp := addPath, ibgp
			sc = append(sc, zvScenario{
				name: fmt.Sprintf("S1 locrib-change||export-policy-replace addpath=%v ibgp=%v", addPath, ibgp),
				build: func() ([]func(), func()) {
					rib := locRIB.New("inet.0")
					aro := adjRIBOut.New(rib, zvSessionAttrs(ibgp, addPath), accept)
					cli := &zvNullClient{}
					aro.Register(cli)
					opt := routingtable.ClientOptions{BestOnly: true}
					if addPath {
						opt = routingtable.ClientOptions{MaxPaths: 2}
					}
					rib.RegisterWithOptions(aro, opt)
					p1, p2 := zvPfx4(192, 0, 2, 0, 24), zvPfx4(198, 51, 100, 0, 24)
					rib.AddPath(p1, zvBGPPath(2, true, 100, 65002))
					t1 := func() {
						rib.AddPath(p2, zvBGPPath(3, true, 100, 65003))
						rib.RemovePath(p1, zvBGPPath(2, true, 100, 65002))
					}
					t2 := func() { aro.ReplaceFilterChain(drain) }
					return []func(){t1, t2}, func() {
						rib.AddPath(p1, zvBGPPath(4, true, 100, 65004))
						aro.Dump()
						rib.Dump()
					}
				},
			})
		}
	}
	// S2: client manager disposed, then used again
	sc = append(sc, zvScenario{
		name: "S2 clientmanager dispose||register then further use",
		build: func() ([]func(), func()) {
			rib := locRIB.New("inet.0")
			cm := routingtable.NewClientManager(rib)
			c1, c2 := &zvNullClient{}, &zvNullClient{}
			cm.RegisterWithOptions(c1, routingtable.ClientOptions{BestOnly: true})
			t1 := func() { cm.Dispose() }
			t2 := func() { cm.RegisterWithOptions(c2, routingtable.ClientOptions{BestOnly: true}) }
			return []func(){t1, t2}, func() {
				cm.ClientCount()
				cm.Clients()
				cm.Unregister(c2)
			}
		},
	})
	// S3: export policy replaced on an add-path session that holds a path it must not propagate (own peer)
	sc = append(sc, zvScenario{
		name: "S3 export-policy-replace on addpath session with own-peer path",
		build: func() ([]func(), func()) {
			rib := locRIB.New("inet.0")
			sa := zvSessionAttrs(false, true)
			aro := adjRIBOut.New(rib, sa, accept)
			aro.Register(&zvNullClient{})
			rib.RegisterWithOptions(aro, routingtable.ClientOptions{MaxPaths: 2})
			p1 := zvPfx4(192, 0, 2, 0, 24)
			rib.AddPath(p1, zvBGPPath(2, true, 100, 65002))
			own := zvBGPPath(9, true, 100, 65009) // learned from the peer itself (10.0.0.9)
			rib.AddPath(p1, own)
			t1 := func() { aro.ReplaceFilterChain(drain) }
			return []func(){t1}, func() { aro.Dump() }
		},
	})
	// S5: Loc-RIB disposal vs route change vs registration
	sc = append(sc, zvScenario{
		name: "S5 locrib dispose||addpath||register",
		build: func() ([]func(), func()) {
			rib := locRIB.New("inet.0")
			c1, c2 := &zvNullClient{}, &zvNullClient{}
			rib.Register(c1)
			p1 := zvPfx4(192, 0, 2, 0, 24)
			t1 := func() { rib.Dispose() }
			t2 := func() { rib.AddPath(p1, zvBGPPath(2, true, 100, 65002)) }
			t3 := func() { rib.Register(c2) }
			return []func(){t1, t2, t3}, func() {
				rib.RemovePath(p1, zvBGPPath(2, true, 100, 65002))
				rib.ClientCount()
				rib.Unregister(c2)
			}
		},
	})
	// S6: register/unregister vs route changes vs refresh
	sc = append(sc, zvScenario{
		name: "S6 register/unregister||addpath/removepath||refresh",
		build: func() ([]func(), func()) {
			rib := locRIB.New("inet.0")
			c1, c2 := &zvNullClient{}, &zvNullClient{}
			rib.Register(c1)
			p1 := zvPfx4(192, 0, 2, 0, 24)
			rib.AddPath(p1, zvBGPPath(2, true, 100, 65002))
			t1 := func() {
				rib.RegisterWithOptions(c2, routingtable.ClientOptions{MaxPaths: 2})
				rib.Unregister(c1)
			}
			t2 := func() {
				rib.AddPath(p1, zvBGPPath(3, true, 100, 65003))
				rib.RemovePath(p1, zvBGPPath(2, true, 100, 65002))
			}
			t3 := func() { rib.RefreshClient(c1) }
			return []func(){t1, t2, t3}, func() { rib.Dump(); rib.ClientCount() }
		},
	})
	// S8: import policy replacement vs announcement vs unregister
	sc = append(sc, zvScenario{
		name: "S8 adjribin replacefilterchain||addpath||unregister",
		build: func() ([]func(), func()) {
			v := vrf.NewUntrackedVRF("master", 0)
			rib := locRIB.New("inet.0")
			ari := adjRIBIn.New(accept, v, zvSessionAttrs(false, false))
			ari.Register(rib)
			p1, p2 := zvPfx4(192, 0, 2, 0, 24), zvPfx4(198, 51, 100, 0, 24)
			ari.AddPath(p1, zvBGPPath(9, true, 0, 65009))
			t1 := func() { ari.ReplaceFilterChain(drain) }
			t2 := func() { ari.AddPath(p2, zvBGPPath(9, true, 0, 65009)) }
			t3 := func() { ari.Unregister(rib) }
			return []func(){t1, t2, t3}, func() { ari.Dump(); rib.Dump(); ari.Flush() }
		},
	})
	// S10: import policy replaced by one that accepts the same paths with other attributes (the Adj-RIB-In calls
	// LocRIB.ReplacePath) next to a client registering (initial dump), a second session doing the same on the same
	// prefix, and table readers
	sc = append(sc, zvScenario{
		name: "S10 adjribin replacefilterchain(rewrite)||second session replacefilterchain(rewrite)||register+readers",
		build: func() ([]func(), func()) {
			v := vrf.NewUntrackedVRF("master", 0)
			rib := locRIB.New("inet.0")
			sa2 := zvSessionAttrs(false, false)
			sa2.PeerIP = bnet.IPv4FromOctets(10, 0, 0, 8).Ptr()
			ari1 := adjRIBIn.New(accept, v, zvSessionAttrs(false, false))
			ari2 := adjRIBIn.New(accept, v, sa2)
			ari1.Register(rib)
			ari2.Register(rib)
			p1 := zvPfx4(192, 0, 2, 0, 24)
			ari1.AddPath(p1, zvBGPPath(9, true, 0, 65009))
			ari2.AddPath(p1, zvBGPPath(8, true, 0, 65008))
			med := func(m uint32) filter.Chain {
				return filter.Chain{filter.NewFilter("med", []*filter.Term{filter.NewTerm("t", nil, []actions.Action{actions.NewSetMEDAction(m), actions.NewAcceptAction()})})}
			}
			t1 := func() { ari1.ReplaceFilterChain(med(20)) }
			t2 := func() { ari2.ReplaceFilterChain(med(30)) }
			t3 := func() {
				aro := adjRIBOut.New(rib, zvSessionAttrs(true, false), accept)
				aro.Register(&zvNullClient{})
				rib.RegisterWithOptions(aro, routingtable.ClientOptions{MaxPaths: 2})
				for _, r := range rib.Dump() {
					for _, p := range r.Paths() {
						_ = p.BGPPath.BGPPathA.MED
					}
				}
				rib.ContainsPfxPath(p1, zvBGPPath(9, true, 0, 65009))
			}
			return []func(){t1, t2, t3}, func() { ari1.Dump(); rib.Dump() }
		},
	})
	return sc
}

type zvC25Case struct {
	Scenario string `json:"scenario"`
	Schedule []int  `json:"schedule"`
	Bound    int    `json:"preemption_bound"`
}

func zvC25Run(r *vh.Run, sc zvScenario, bound int, only []int) {
	var done []vsched.Handle
	var followedUp bool
	var stuck string
	body := func() {
		done = nil
		followedUp = false
		stuck = ""
		threads, followUp := sc.build()
		for i, f := range threads {
			done = append(done, vsched.GoNamed(fmt.Sprintf("op%d", i+1), f))
		}
		if sc.timed {
			vsched.Settle()
			// the interleavings of the operations with the FSM goroutines have been explored up to here; the
			// passage of time that follows (reconnect sleep, timers) is deterministic
			vsched.SetExploring(false)
			vsched.Advance(16 * time.Second)
			vsched.Advance(16 * time.Second)
			for _, h := range done {
				if !h.Done() {
					stuck = vsched.Describe()
					return
				}
			}
			fu := vsched.GoNamed("follow-up", followUp)
			vsched.Advance(16 * time.Second)
			if !fu.Done() {
				stuck = "follow-up: " + vsched.Describe()
				return
			}
			followedUp = true
			return
		}
		vsched.Join(done...)
		followUp()
		followedUp = true
	}
	check := func(x *vsched.Execution) {
		r.Eval(1)
		r.Outcome(fmt.Sprint(sc.name, x.Status, x.Blocked))
		c := zvC25Case{sc.name, x.Choices, bound}
		switch x.Status {
		case vsched.Completed:
			if stuck != "" {
				phase := "scenario"
				if strings.HasPrefix(stuck, "follow-up") {
					phase = "follow-up (unusable)"
				}
				r.Violation(vh.Sig("clause", "deadlock", "scenario", sc.name, "phase", phase, "blocked_in", strings.Join(zvBlockedFns(stuck), "|")), c, "operations never completed although 32 s of virtual time passed: %s", stuck)
			} else if !followedUp {
				r.Fatalf("scenario %s completed without follow-up", sc.name)
			}
		case vsched.Deadlock:
			phase := "scenario"
			all := true
			for _, h := range done {
				all = all && h.Done()
			}
			if all && len(done) > 0 {
				phase = "follow-up (table unusable)"
			}
			r.Violation(vh.Sig("clause", "deadlock", "scenario", sc.name, "phase", phase, "blocked_in", strings.Join(x.BlockedIn, "|")), c, "deadlock in %s: %s", phase, x.Blocked)
		case vsched.Crash:
			r.Violation(vh.Sig("clause", "crash", "scenario", sc.name), c, "panic: %.600s", x.Crash)
		case vsched.Horizon:
			r.Violation(vh.Sig("clause", "livelock", "scenario", sc.name), c, "step horizon hit: %s", x.Blocked)
		}
	}
	if only != nil {
		x := vsched.Replay(vsched.Config{}, only, body)
		for _, l := range x.Log {
			fmt.Println("  ", l)
		}
		check(x)
		return
	}
	s, n := r.Shard()
	if sc.timed && !r.Thorough() {
		bound = 1 // session scenarios run next to ~10 FSM/sender goroutines: one preemption in the quick tier, two in the thorough one
	}
	if sc.timed && r.Thorough() {
		bound = 2
	}
	e := &vsched.Explorer{Bound: bound, Body: body, Check: check, Shard: s, NShards: n, Stop: r.OutOfBudget, Cfg: vsched.Config{Sites: true}}
	e.Run()
	if e.Err != nil {
		r.Fatalf("scenario %s: %v", sc.name, e.Err)
	}
	if e.Capped {
		r.Cap("time budget in scenario " + sc.name)
	}
	r.States(e.Executions)
	r.Transitions(e.Executions * 1)
	r.Traces(e.Executions)
	r.Count("executions", e.Executions)
	if s == 0 {
		r.Nontrivial(1)
		r.Sample(map[string]any{"scenario": sc.name, "bound": bound, "executions_this_shard": e.Executions, "max_choice_points": e.MaxPoints})
	}
}

// zvBlockedFns extracts "op@function" of the operation threads from a Describe() string.
func zvBlockedFns(desc string) []string {
	set := map[string]bool{}
	for _, part := range strings.Split(desc, "; ") {
		// operation threads wherever they are stuck, other threads only when they wait for a lock (a lock cycle involves them)
		if !strings.Contains(part, "(op") && !strings.Contains(part, "(follow-up)") && !strings.Contains(part, "Lock(") {
			continue
		}
		i := strings.Index(part, "blocked at ")
		if i < 0 {
			continue
		}
		rest := part[i+len("blocked at "):]
		op := rest
		if j := strings.Index(rest, "("); j > 0 {
			op = strings.TrimSpace(rest[:j])
		}
		fn := ""
		if j := strings.LastIndex(rest, " "); j > 0 {
			fn = strings.TrimSuffix(rest[j+1:], ")")
		}
		if k := strings.Index(op, " "); k > 0 {
			op = op[:k]
		}
		// same vocabulary as vsched.Execution.BlockedIn
		op = map[string]string{"RWMutex.Lock": "Lock(acquire)", "RWMutex.RLock": "RLock", "Mutex.Lock": "Lock", "WaitGroup.Wait": "Wait"}[op] + ""
		if op == "" {
			op = strings.Fields(rest)[0]
		}
		set[op+"@"+fn] = true
	}
	var out []string
	for k := range set {
		out = append(out, k)
	}
	sort.Strings(out)
	return out
}

func TestVerifC25(t *testing.T) {
	r := vh.Start(t, "C25")
	defer r.Finish()
	bound := 2
	if r.Thorough() {
		bound = 3
	}
	r.Rule(fmt.Sprintf("every interleaving with at most %d preemptions of each 1-3 thread scenario on shared real tables; states = executions (schedules) run to completion; "+
		"non-trivial = scenarios; plus the leak part: session histories (reach a state x end the session in every way) followed by disposal of the peer and 300 s of virtual time, after which no goroutine created for the peer may still exist", bound))
	r.Require("executions", "leak_histories")
	r.Extra("preemption_bound", bound)
	scs := append(zvC25Scenarios(), zvC25SessionScenarios()...)
	if r.IsReplay() {
		var lc zvC25LeakCase
		r.ReplayCase(&lc)
		if lc.Leak {
			leaked, x := zvC25LeakRun(lc.Hist, true)
			for _, l := range x.Log {
				fmt.Println("   ", l)
			}
			if x.Status != vsched.Completed {
				r.Violation(vh.Sig("clause", "leak-run-"+x.Status.String(), "blocked_in", strings.Join(x.BlockedIn, "|")), lc, "history %v then dispose: execution %s %s %.300s", lc.Hist, x.Status, x.Blocked, x.Crash)
			}
			for _, l := range leaked {
				fmt.Println("LEAKED:", l)
				k := l[strings.Index(l, "blocked at"):]
				r.Violation(vh.Sig("clause", "goroutine-leak", "where", k), lc, "goroutine still %s", l)
			}
			r.Count("executions", 1)
			r.Count("leak_histories", 1)
			return
		}
		var c zvC25Case
		r.ReplayCase(&c)
		for _, sc := range scs {
			if sc.name == c.Scenario {
				zvC25Run(r, sc, c.Bound, append([]int{}, c.Schedule...))
				r.Count("executions", 1)
			}
		}
		return
	}
	zvC25Leaks(r) // cheap and sequential: before the schedule explorations use up the time budget
	for _, sc := range scs {
		zvC25Run(r, sc, bound, nil)
	}
}
