package vsched

import (
	"fmt"
	"reflect"
	"time"
)

// Channels keep their Go type in the instrumented code; their state is
// modelled in a side table keyed by the channel's address. Values travel
// through the model, never through the real channel.
type chanState struct {
	cap    int
	buf    []any
	closed bool
	timer  *vtimer // set when this is a timer/ticker channel
	keep   any     // the channel itself: keeps it alive so that its address cannot be reused by another channel during the execution
}

//go:norace
func chanKey(ch any) uintptr {
	v := reflect.ValueOf(ch)
	if v.Kind() != reflect.Chan {
		panic("vsched: not a channel")
	}
	return v.Pointer()
}

//go:norace
func (s *sched) chanOf(ch any) *chanState {
	k := chanKey(ch)
	if k == 0 {
		return nil // nil channel: never ready
	}
	for i, x := range s.chanKeys {
		if x == k {
			return s.chanVals[i]
		}
	}
	cs := &chanState{cap: reflect.ValueOf(ch).Cap(), keep: ch}
	s.chanKeys = append(s.chanKeys, k)
	s.chanVals = append(s.chanVals, cs)
	return cs
}

// A send is possible when there is buffer space, or (unbuffered) when another
// thread is parked in a receive/select-with-receive on the channel. To keep
// the model simple an unbuffered channel is modelled as a rendezvous: the
// sender is enabled iff a receiver is parked; granting the send deposits the
// value in a one-slot hand-over buffer which makes the receiver enabled, and
// nobody else can take or add while it is there.
//
//go:norace
func (s *sched) canSend(cs *chanState, self *thread) bool {
	if cs == nil {
		return false
	}
	if cs.closed {
		return true // will panic like Go does
	}
	if cs.cap > 0 {
		return len(cs.buf) < cs.cap
	}
	return s.receiverParked(cs, self)
}

//go:norace
func (s *sched) receiverParked(cs *chanState, self *thread) bool {
	for _, t := range s.threads {
		if t == self || t.done || t.pending == nil || t.pending.resolved {
			continue
		}
		switch t.pending.kind {
		case opRecv:
			if t.pending.cases[0].cs == cs {
				return true
			}
		case opSelect:
			for i := range t.pending.cases {
				c := &t.pending.cases[i]
				if !c.send && c.cs == cs {
					return true
				}
			}
		}
	}
	return false
}

// completeReceiver resolves the pending operation of the first thread parked in a
// receive on cs: the value is delivered and the thread only needs to be scheduled.
//
//go:norace
func (s *sched) completeReceiver(cs *chanState, self *thread, val any) {
	for _, t := range s.threads {
		if t == self || t.done || t.pending == nil || t.pending.resolved {
			continue
		}
		op := t.pending
		if op.kind != opRecv && op.kind != opSelect {
			continue
		}
		for i := range op.cases {
			c := &op.cases[i]
			if !c.send && c.cs == cs {
				c.got, c.ok = val, true
				op.selected = i
				op.resolved = true
				return
			}
		}
	}
	panic("vsched: unbuffered send granted without a parked receiver")
}

//go:norace
func canRecv(cs *chanState) bool {
	return cs != nil && (len(cs.buf) > 0 || cs.closed)
}

// SelCase is one communication of a select (or a plain send/receive).
type SelCase struct {
	s    *sched
	cs   *chanState
	send bool
	val  any
	self *thread
	// results of a receive
	got  any
	ok   bool
	desc string
}

//go:norace
func (c *SelCase) ready() bool {
	if c.send {
		return c.s.canSend(c.cs, c.self)
	}
	return canRecv(c.cs)
}

//go:norace
func (c *SelCase) fire() {
	if c.send {
		if c.cs.closed {
			return // the thread panics after being woken
		}
		if c.cs.cap == 0 {
			// rendezvous: hand the value to one parked receiver atomically
			c.s.completeReceiver(c.cs, c.self, c.val)
			return
		}
		c.cs.buf = append(c.cs.buf, c.val)
		return
	}
	if len(c.cs.buf) > 0 {
		c.got, c.ok = c.cs.buf[0], true
		c.cs.buf = c.cs.buf[1:]
		return
	}
	c.got, c.ok = nil, false // closed
}

//go:norace
func describeChan(ch any) string { return fmt.Sprintf("%T@%x", ch, chanKey(ch)&0xffff) }

// Send is the rewritten `ch <- v`.
//
//go:norace
func Send[T any](ch chan<- T, v T) {
	if cur == nil {
		panic("vsched: channel send outside a controlled execution")
	}
	s := cur
	if s.aborting {
		panic(abortSentinel{})
	}
	cs := s.chanOf(ch)
	c := SelCase{s: s, cs: cs, send: true, val: v, self: s.cur}
	op := &Op{kind: opSend, desc: "send " + describeChan(ch), cases: []SelCase{c}}
	raceReleaseChan(cs)
	s.do(op)
	if cs != nil && cs.closed {
		panic("send on closed channel")
	}
}

//go:norace
func recvOp[T any](ch <-chan T) (T, bool) {
	if cur == nil {
		panic("vsched: channel receive outside a controlled execution")
	}
	s := cur
	if s.aborting {
		panic(abortSentinel{})
	}
	cs := s.chanOf(ch)
	op := &Op{kind: opRecv, desc: "recv " + describeChan(ch), cases: []SelCase{{s: s, cs: cs, self: s.cur}}}
	s.do(op)
	raceAcquireChan(cs)
	var zero T
	if !op.cases[0].ok {
		return zero, false
	}
	if op.cases[0].got == nil {
		return zero, true
	}
	return op.cases[0].got.(T), true
}

// Chan fixes the element type from the channel so that the value of a send is
// converted by ordinary assignability (e.g. *tcp.Conn sent on a chan net.Conn).
type Chan[T any] struct{ ch chan<- T }

// To starts a send: To(ch).Send(v) is the rewritten `ch <- v`.
//
//go:norace
func To[T any](ch chan<- T) Chan[T] { return Chan[T]{ch} }

//go:norace
func (c Chan[T]) Send(v T) { Send(c.ch, v) }

// Case builds the send clause of a select.
//
//go:norace
func (c Chan[T]) Case(v T) *SendCase[T] { return NewSend(c.ch, v) }

// Recv is the rewritten `<-ch`.
//
//go:norace
func Recv[T any](ch <-chan T) T {
	v, _ := recvOp(ch)
	return v
}

// Recv2 is the rewritten `v, ok := <-ch`.
//
//go:norace
func Recv2[T any](ch <-chan T) (T, bool) { return recvOp(ch) }

// Close is the rewritten close(ch).
//
//go:norace
func Close[T any](ch chan<- T) {
	if cur == nil {
		panic("vsched: close outside a controlled execution")
	}
	if cur.aborting {
		return
	}
	s := cur
	cs := s.chanOf(ch)
	raceReleaseChan(cs)
	s.do(&Op{kind: opClose, desc: "close " + describeChan(ch)})
	if cs.closed {
		panic("close of closed channel")
	}
	cs.closed = true
}

// Case is what the rewritten select statement builds for each communication clause.
type Case interface{ sel() *SelCase }

// RecvCase is a receive clause; V and OK hold the received value after Select.
type RecvCase[T any] struct {
	c  SelCase
	V  T
	OK bool
}

//go:norace
func (r *RecvCase[T]) sel() *SelCase { return &r.c }

// SendCase is a send clause.
type SendCase[T any] struct{ c SelCase }

//go:norace
func (r *SendCase[T]) sel() *SelCase { return &r.c }

// NewRecv builds a receive clause.
//
//go:norace
func NewRecv[T any](ch <-chan T) *RecvCase[T] {
	s := must()
	return &RecvCase[T]{c: SelCase{s: s, cs: s.chanOf(ch), self: s.cur, desc: describeChan(ch)}}
}

// NewSend builds a send clause.
//
//go:norace
func NewSend[T any](ch chan<- T, v T) *SendCase[T] {
	s := must()
	return &SendCase[T]{c: SelCase{s: s, cs: s.chanOf(ch), send: true, val: v, self: s.cur, desc: describeChan(ch)}}
}

type recvSetter interface{ set() }

//go:norace
func (r *RecvCase[T]) set() {
	r.OK = r.c.ok
	if r.c.got != nil {
		r.V = r.c.got.(T)
	}
}

// Select is the rewritten select statement: it returns the index of the clause
// that fired, or -1 for the default clause.
//
//go:norace
func Select(hasDefault bool, cases ...Case) int {
	s := must()
	if s.aborting {
		panic(abortSentinel{})
	}
	op := &Op{kind: opSelect, desc: "select", hasDefault: hasDefault}
	for _, c := range cases {
		op.cases = append(op.cases, *c.sel())
		op.desc += " " + c.sel().desc
		if c.sel().send {
			raceReleaseChan(c.sel().cs)
		}
	}
	s.do(op)
	i := op.selected
	if i >= 0 && !op.cases[i].send {
		raceAcquireChan(op.cases[i].cs)
	}
	if i >= 0 {
		*cases[i].sel() = op.cases[i]
		if r, ok := cases[i].(recvSetter); ok {
			r.set()
		}
		if op.cases[i].send && op.cases[i].cs.closed {
			panic("send on closed channel")
		}
	}
	return i
}

// ---------------------------------------------------------------------------
// virtual time

type vtimer struct {
	seq      int
	deadline time.Time
	period   time.Duration // tickers
	active   bool
	ch       chan time.Time
	cs       *chanState
	afterFn  func() // AfterFunc
	sleeper  bool
	fired    bool
}

// Now returns the virtual clock (the real clock outside a controlled execution).
//
//go:norace
func Now() time.Time {
	if cur == nil {
		return time.Now()
	}
	return cur.now
}

// Timer is the handle the vtime shim wraps.
type Timer struct{ t *vtimer }

// NewTimer registers a timer on the virtual clock and returns it with its channel.
//
//go:norace
func NewTimer(d time.Duration, period time.Duration) (Timer, <-chan time.Time) {
	s := must()
	ch := make(chan time.Time, 1)
	s.timerSeq++
	t := &vtimer{seq: s.timerSeq, deadline: s.now.Add(d), period: period, active: true, ch: ch}
	t.cs = s.chanOf(ch)
	t.cs.timer = t
	s.timers = append(s.timers, t)
	return Timer{t}, ch
}

// Stop deactivates the timer; reports whether it was active.
//
//go:norace
func (t Timer) Stop() bool {
	was := t.t.active
	t.t.active = false
	return was
}

// Reset re-arms the timer.
//
//go:norace
func (t Timer) Reset(d time.Duration) bool {
	s := must()
	was := t.t.active
	t.t.active = true
	t.t.deadline = s.now.Add(d)
	// a timer that already fired was pruned from the pending list: re-register it
	found := false
	for _, x := range s.timers {
		if x == t.t {
			found = true
			break
		}
	}
	if !found {
		s.timers = append(s.timers, t.t)
	}
	return was
}

// Sleep parks the thread until the virtual clock has advanced by d.
//
//go:norace
func Sleep(d time.Duration) {
	s := must()
	s.timerSeq++
	t := &vtimer{seq: s.timerSeq, deadline: s.now.Add(d), active: true, sleeper: true}
	s.timers = append(s.timers, t)
	op := &Op{kind: opSleep, desc: fmt.Sprintf("Sleep(%v)", d), timer: t}
	s.do(op)
}

//go:norace
func (s *sched) awaited(t *vtimer) bool {
	if t.sleeper || t.afterFn != nil {
		return true
	}
	for _, th := range s.threads {
		if th.done || th.pending == nil {
			continue
		}
		switch th.pending.kind {
		case opRecv, opSelect:
			for i := range th.pending.cases {
				c := &th.pending.cases[i]
				if !c.send && c.cs == t.cs {
					return true
				}
			}
		}
	}
	return false
}

//go:norace
func timerLess(a, b *vtimer) bool {
	if !a.deadline.Equal(b.deadline) {
		return a.deadline.Before(b.deadline)
	}
	return a.seq < b.seq
}

//go:norace
func (s *sched) activeTimers() []*vtimer {
	var ts []*vtimer
	live := s.timers[:0]
	for _, t := range s.timers {
		if t.active {
			ts = append(ts, t)
			live = append(live, t)
		}
	}
	s.timers = live
	for i := 1; i < len(ts); i++ {
		for j := i; j > 0 && timerLess(ts[j], ts[j-1]); j-- {
			ts[j], ts[j-1] = ts[j-1], ts[j]
		}
	}
	return ts
}

// nextAwaitedTimer returns the earliest deadline some thread is waiting for
// (within the AutoTimers horizon).
//
//go:norace
func (s *sched) nextAwaitedTimer() (time.Time, bool) {
	limit := s.start.Add(s.cfg.Horizon)
	for _, t := range s.activeTimers() {
		if s.cfg.Horizon > 0 && t.deadline.After(limit) {
			break
		}
		if s.awaited(t) {
			return t.deadline, true
		}
	}
	return time.Time{}, false
}

//go:norace
func (s *sched) fire(t *vtimer) {
	if t.deadline.After(s.now) {
		s.now = t.deadline
	}
	if t.period > 0 {
		t.deadline = t.deadline.Add(t.period)
	} else {
		t.active = false
	}
	if t.sleeper {
		t.fired = true
		return
	}
	if t.afterFn != nil {
		s.spawn("afterfunc", t.afterFn)
		return
	}
	if len(t.cs.buf) == 0 {
		t.cs.buf = append(t.cs.buf, s.now)
	}
}

// fireNext advances the clock to the next awaited deadline, silently firing
// every timer that is due by then.
//
//go:norace
func (s *sched) fireNext() {
	target, ok := s.nextAwaitedTimer()
	if !ok {
		return
	}
	for {
		fired := false
		for _, t := range s.activeTimers() {
			if !t.deadline.After(target) {
				s.fire(t)
				fired = true
				break
			}
		}
		if !fired {
			break
		}
	}
	if target.After(s.now) {
		s.now = target
	}
}

// fine tickers (period below 50ms, e.g. the update sender's 5 ms aggregation
// ticker) are not stepped tick by tick when the harness advances the clock: a
// timer may always fire late, so "at most once per step of the coarse timers"
// is a legal behaviour and keeps long clock steps cheap.
//
//go:norace
func (t *vtimer) fine() bool { return t.period > 0 && t.period < 50*time.Millisecond }

//go:norace
func (s *sched) fireUpTo(target time.Time) {
	for {
		fired := false
		for _, t := range s.activeTimers() {
			if t.fine() {
				continue
			}
			if !t.deadline.After(target) {
				s.fire(t)
				fired = true
				break // re-sort (tickers re-arm)
			}
		}
		if !fired {
			break
		}
	}
	if target.After(s.now) {
		s.now = target
	}
	for _, t := range s.activeTimers() {
		if t.fine() && !t.deadline.After(target) {
			s.fire(t)
			t.deadline = s.now.Add(t.period)
		}
	}
}

// Advance is called by the harness main thread: it moves the virtual clock
// forward by d in steps — each step goes to the next pending (coarse) timer
// deadline, fires what is due and lets every other thread run to quiescence.
//
//go:norace
func Advance(d time.Duration) {
	s := must()
	target := s.now.Add(d)
	for {
		Settle()
		var next *vtimer
		for _, t := range s.activeTimers() {
			if !t.fine() {
				next = t
				break
			}
		}
		if next == nil || next.deadline.After(target) {
			break
		}
		s.fireUpTo(next.deadline)
	}
	s.fireUpTo(target)
	Settle()
}

// AfterFunc registers fn to run (as a managed thread) when the timer fires.
//
//go:norace
func AfterFunc(d time.Duration, fn func()) Timer {
	s := must()
	s.timerSeq++
	t := &vtimer{seq: s.timerSeq, deadline: s.now.Add(d), active: true}
	t.afterFn = fn
	s.timers = append(s.timers, t)
	return Timer{t}
}
