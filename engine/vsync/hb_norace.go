//go:build !race

package vsync

// In normal builds the shims carry no real synchronisation.
type hbMutex struct{}

func (*hbMutex) acquire() {}
func (*hbMutex) release() {}

type hbRWMutex struct{}

func (*hbRWMutex) lock()    {}
func (*hbRWMutex) unlock()  {}
func (*hbRWMutex) rlock()   {}
func (*hbRWMutex) runlock() {}

type hbWaitGroup struct{}

func (*hbWaitGroup) add(int) {}
func (*hbWaitGroup) wait()   {}
