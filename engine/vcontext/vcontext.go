// Package vcontext replaces "context" in instrumented packages whose contexts
// are waited on in select statements: WithCancel returns a context whose Done
// channel is modelled by the virtual runtime.
package vcontext

import (
	"context"
	"time"

	"github.com/bio-routing/bio-rd/zzverif/vsched"
)

type (
	Context    = context.Context
	CancelFunc = context.CancelFunc
)

var (
	Canceled         = context.Canceled
	DeadlineExceeded = context.DeadlineExceeded
)

//go:norace
func Background() Context { return context.Background() }

//go:norace
func TODO() Context { return context.TODO() }

//go:norace
func WithValue(parent Context, key, val any) Context { return context.WithValue(parent, key, val) }

type vctx struct {
	parent Context
	done   chan struct{}
	err    error
}

//go:norace
func (c *vctx) Deadline() (time.Time, bool) { return time.Time{}, false }

//go:norace
func (c *vctx) Done() <-chan struct{} { return c.done }

//go:norace
func (c *vctx) Err() error { return c.err }

//go:norace
func (c *vctx) Value(k any) any { return c.parent.Value(k) }

// WithCancel returns a context cancelled only through the returned function
// (parents used in the instrumented code are Background()).
//
//go:norace
func WithCancel(parent Context) (Context, CancelFunc) {
	if !vsched.Active() {
		return context.WithCancel(parent)
	}
	c := &vctx{parent: parent, done: make(chan struct{})}
	return c, func() {
		if c.err != nil {
			return
		}
		c.err = context.Canceled
		vsched.Close(c.done)
	}
}

//go:norace
func WithTimeout(parent Context, d time.Duration) (Context, CancelFunc) {
	return context.WithTimeout(parent, d)
}
