package server

// C21 — peer input cannot crash the speaker; errors are reported with NOTIFICATION.
// Engine E5 under E2: byte streams from a structured space (every header length
// of the tier's set x message type x session state; marker corruptions;
// offset x boundary-value mutations of valid seed messages, also split across
// reads) are delivered to a real session next to a second, established session.

import (
	"encoding/binary"
	"fmt"
	"testing"
	"time"

	"github.com/bio-routing/bio-rd/zzverif/vh"
	"github.com/bio-routing/bio-rd/zzverif/vsched"
)

type zvC21Case struct {
	State  string `json:"state"`  // openSent | openConfirm | established
	Kind   string `json:"kind"`   // header | marker | mutate
	Type   byte   `json:"type"`
	Length int    `json:"length"` // header length field (kind header)
	Seed   string `json:"seed"`   // kind mutate: open|update|notification|keepalive|update6
	Offset int    `json:"offset"`
	Value  byte   `json:"value"`
	Split  int    `json:"split"`  // deliver in two reads, split at this byte (0 = one read)
	// kind attr: the valid seed UPDATE with one more path attribute (flags, type code, length; value bytes 1,2,3,...)
	AFlags byte `json:"attr_flags,omitempty"`
	AType  byte `json:"attr_type,omitempty"`
	ALen   int  `json:"attr_len,omitempty"`
}

var zvC21Seeds = map[string]func() []byte{
	"open":         func() []byte { return zvRemoteOpen(zvPeerOpts{Addr: 9, IPv6: true, AddPathRX: true}, 0x09090909).bytes() },
	"keepalive":    zvwKeepalive,
	"notification": func() []byte { return zvwNotification(6, 4) },
	"update": func() []byte {
		return zvwUpdate(zvwNLRI([]zvwPrefix{zvR2}, false), []zvwAttr{zvwOrigin(0), zvwASPath(true, zvRemoteAS, 65010), zvwNextHop(10, 0, 0, 9), zvwMED(5)},
			zvwNLRI([]zvwPrefix{zvR1, {Len: 17, Addr: []byte{172, 16, 128, 0}}}, false))
	},
	"update6": func() []byte {
		nh := make([]byte, 16)
		nh[0], nh[15] = 0x20, 9
		n6 := zvwNLRI([]zvwPrefix{{Len: 48, Addr: []byte{0x20, 1, 0xd, 0xb8, 0, 1}}}, false)
		return zvwUpdate(nil, []zvwAttr{zvwOrigin(0), zvwASPath(true, zvRemoteAS), zvwMPReach(2, 1, nh, n6)}, nil)
	},
}

var zvC21PairSeeds = []string{"keepalive", "update", "update6", "notification", "open", "bad-marker", "bad-length"}

func zvC21PairSecond(i int) []byte {
	switch n := zvC21PairSeeds[i]; n {
	case "bad-marker":
		b := zvwKeepalive()
		b[5] = 0
		return b
	case "bad-length":
		b := zvwKeepalive()
		b[16], b[17] = 0, 5
		return b
	default:
		return zvC21Seeds[n]()
	}
}

func (c zvC21Case) bytes() []byte {
	switch c.Kind {
	case "header", "marker":
		var body []byte
		seed := map[byte]string{1: "open", 2: "update", 3: "notification", 4: "keepalive"}[c.Type]
		if seed != "" {
			body = zvC21Seeds[seed]()[19:]
		}
		n := c.Length - 19
		if n < 0 {
			n = 0
		}
		if n > 4200 {
			n = 4200
		}
		for len(body) < n {
			body = append(body, 0)
		}
		b := zvwHeader(c.Type, body[:n])
		binary.BigEndian.PutUint16(b[16:], uint16(c.Length))
		if c.Kind == "marker" {
			b[c.Offset] = c.Value
		}
		return b
	case "mutate":
		b := zvC21Seeds[c.Seed]()
		b[c.Offset] = c.Value
		return b
	case "pair":
		// two messages in one segment: Seed then the message named by Type (index into zvC21PairSeeds)
		return append(zvC21Seeds[c.Seed](), zvC21PairSecond(int(c.Type))...)
	case "mpreach":
		// MP_REACH_NLRI: AFI (Type: 1|2), SAFI 1, next hop length ALen, followed by Offset octets (value 1,2,3,...; no reserved octet / NLRI beyond them)
		v := []byte{0, c.Type, 1, byte(c.ALen)}
		for i := 0; i < c.Offset; i++ {
			v = append(v, byte(i+1))
		}
		return zvwUpdate(nil, []zvwAttr{zvwOrigin(0), zvwASPath(true, zvRemoteAS), {0x80 | c.AFlags, 14, v}}, nil)
	case "attr":
		v := make([]byte, c.ALen)
		for i := range v {
			v[i] = byte(i + 1)
		}
		attrs := []zvwAttr{zvwOrigin(0), zvwASPath(true, zvRemoteAS, 65010), zvwNextHop(10, 0, 0, 9), zvwMED(5)}
		if c.Seed == "update6" {
			nh := make([]byte, 16)
			nh[0], nh[15] = 0x20, 9
			attrs = []zvwAttr{zvwOrigin(0), zvwASPath(true, zvRemoteAS), zvwMPReach(2, 1, nh, zvwNLRI([]zvwPrefix{{Len: 48, Addr: []byte{0x20, 1, 0xd, 0xb8, 0, 1}}}, false))}
			return zvwUpdate(nil, append(attrs, zvwAttr{c.AFlags, c.AType, v}), nil)
		}
		return zvwUpdate(nil, append(attrs, zvwAttr{c.AFlags, c.AType, v}), zvwNLRI([]zvwPrefix{zvR1}, false))
	}
	return nil
}

// zvC21Ref classifies what the header alone makes of the message: (code, sub) of the
// NOTIFICATION RFC 4271 section 6.1 demands, or (0,0) when the header is fine.
func zvC21HeaderRef(b []byte) (byte, byte) {
	for i := 0; i < 16; i++ {
		if b[i] != 0xff {
			return 1, 1
		}
	}
	l := int(binary.BigEndian.Uint16(b[16:]))
	typ := b[18]
	min := map[byte]int{1: 29, 2: 23, 3: 21, 4: 19}
	if l < 19 || l > 4096 {
		return 1, 2
	}
	if typ < 1 || typ > 4 {
		return 1, 3
	}
	if l < min[typ] {
		return 1, 2
	}
	if typ == 4 && l != 19 && len(b) >= l {
		// "if the Length field of a KEEPALIVE message is not equal to 19" - demanded once the announced octets have
		// arrived: the implementation reads a message completely before it looks at it, and waiting for the rest of
		// a message is not an error
		return 1, 2
	}
	return 0, 0
}

type zvC21Result struct {
	Status  vsched.Status
	Crash   string
	Blocked string
	StateAfter string
	Notifs  []string
	Closed  bool
	BState  string
	BClosed bool
	BRibIn  int
	BWritten int
	LocOther int
	Alive   bool
	AdminDone bool
	StateAtDelivery string
}

func zvC21Run(c zvC21Case, trace bool) zvC21Result {
	var res zvC21Result
	x := vsched.Exec(vsched.Config{MaxSteps: 100000, Trace: trace, Sites: trace}, func() {
		s := zvSessStart(zvSessCfg{Name: "c21", A: zvPeerOpts{Addr: 9, Hold: 90 * time.Second, IPv6: true, AddPathRX: false}})
		s.apply(evT15)
		switch c.State {
		case "openConfirm":
			s.apply(evOpen)
		case "established":
			s.apply(evOpen)
			s.apply(evKA)
			s.apply(evUpd2)
		}
		res.StateAtDelivery = zvFSMState(s.fA)
		if res.StateAtDelivery != c.State {
			return
		}
		conn := s.cA
		conn.take()
		s.cB.take()
		b := c.bytes()
		if c.Split > 0 && c.Split < len(b) {
			conn.deliver(b[:c.Split])
			vsched.Settle()
			conn.deliver(b[c.Split:])
		} else {
			conn.deliver(b)
		}
		vsched.Settle()
		vsched.Advance(10 * time.Millisecond)
		res.StateAfter = zvFSMState(s.fA)
		for _, m := range zvParseStream(conn.take(), false, false) {
			if m.Type == 3 {
				res.Notifs = append(res.Notifs, fmt.Sprintf("%d/%d", m.Code, m.Sub))
			}
		}
		res.Closed = conn.closed
		o := s.observe()
		res.BState, res.BRibIn, res.BClosed, res.BWritten, res.LocOther = o.BState, o.BRibIn, s.cB.closed, len(s.cB.out), len(o.LocOther)
		// not wedged: an administrative stop completes and, if the session went down, it comes back by itself
		dials := s.w.dials
		h := vsched.GoNamed("manual-stop", func() { s.pA.stop() })
		vsched.Advance(31 * time.Second)
		res.AdminDone = h.Done()
		res.Alive = s.w.dials > dials || zvFSMState(s.fA) == stateNameEstablished || zvFSMState(s.fA) == stateNameOpenConfirm || zvFSMState(s.fA) == stateNameOpenSent
	})
	res.Status, res.Crash, res.Blocked = x.Status, x.Crash, x.Blocked
	if trace {
		for _, l := range x.Log {
			fmt.Println("   ", l)
		}
	}
	return res
}

func zvC21Check(r *vh.Run, c zvC21Case) {
	r.Eval(1)
	res := zvC21Run(c, false)
	b := c.bytes()
	code, sub := zvC21HeaderRef(b)
	class := "header-ok"
	if code != 0 {
		class = fmt.Sprintf("header-%d/%d", code, sub)
	}
	lc := "19..4096"
	if c.Kind == "header" {
		switch {
		case c.Length < 19:
			lc = "<19"
		case c.Length > 4096:
			lc = ">4096"
		}
	}
	if res.Status == vsched.Crash {
		r.Violation(vh.Sig("clause", "crash", "state", c.State, "kind", c.Kind, "length_class", lc), c, "the speaker panicked: %.600s", res.Crash)
		return
	}
	if res.Status == vsched.Horizon {
		// e.g. one 4 KiB UPDATE whose zero padding is 4000 valid NLRI: long, not wedged. Capped, never a violation.
		r.Cap("step horizon reached in a case (very large valid UPDATE)")
		r.Count("horizon_cases", 1)
		return
	}
	if res.Status != vsched.Completed {
		r.Violation(vh.Sig("clause", "wedged-"+res.Status.String(), "state", c.State, "kind", c.Kind), c, "execution %s: %s", res.Status, res.Blocked)
		return
	}
	if res.StateAtDelivery != c.State {
		r.Fatalf("could not put the session into %s (got %s)", c.State, res.StateAtDelivery)
	}
	r.Outcome(fmt.Sprint(c.State, res.StateAfter, res.Notifs, res.Closed))
	if res.BState != stateNameEstablished || res.BClosed || res.BRibIn != 1 || res.LocOther != 1 {
		r.Violation(vh.Sig("clause", "other-session-affected", "state", c.State, "kind", c.Kind), c, "the other session changed: state %s closed=%v ribin=%d locrib=%d", res.BState, res.BClosed, res.BRibIn, res.LocOther)
	}
	if !res.AdminDone {
		r.Violation(vh.Sig("clause", "wedged-stop", "state", c.State, "kind", c.Kind, "after", res.StateAfter), c, "after the input a manual stop of the peer never completed (FSM in %s)", res.StateAfter)
	} else if !res.Alive {
		r.Violation(vh.Sig("clause", "wedged-dead", "state", c.State, "kind", c.Kind, "after", res.StateAfter), c, "after the input the session never tried to come back (FSM in %s)", res.StateAfter)
	}
	if code != 0 {
		r.Count("malformed_header_cases", 1)
		r.Nontrivial(1)
		want := fmt.Sprintf("%d/%d", code, sub)
		got := "none"
		if len(res.Notifs) > 0 {
			got = res.Notifs[0]
		}
		if got != want {
			r.Violation(vh.Sig("clause", "notification", "class", "header", "want", want, "got", got, "state", c.State, "type", fmt.Sprint(c.Type)), c, "malformed header (%s) in %s: NOTIFICATION written before close: %v, RFC 4271 6.1 demands %s", class, c.State, res.Notifs, want)
		}
		if !res.Closed {
			r.Violation(vh.Sig("clause", "not-closed", "class", "header", "state", c.State), c, "malformed header (%s) but the connection stayed open", class)
		}
	} else {
		r.Count("wellformed_header_cases", 1)
		// a complete OPEN or UPDATE with a well-formed header that makes the session close its connection is being
		// rejected: whatever is wrong with it (RFC 4271 6.2 / 6.3, or its arrival in this state, 6.6), the peer is told
		// with a NOTIFICATION first. (A received NOTIFICATION is answered with none; which code and subcode an OPEN
		// deserves is C22's subject, an UPDATE's attributes are swept below.)
		l := int(binary.BigEndian.Uint16(b[16:]))
		if len(b) == l && (b[18] == 1 || b[18] == 2) && res.Closed && c.Kind != "pair" {
			r.Count("rejected_open_or_update", 1)
			if len(res.Notifs) == 0 {
				r.Violation(vh.Sig("clause", "closed-without-notification", "type", fmt.Sprint(b[18]), "state", c.State), c,
					"a complete message of type %d with a well-formed header made the session close the connection in %s without sending a NOTIFICATION", b[18], c.State)
			}
		}
	}
	if c.Kind == "attr" || c.Kind == "mpreach" {
		r.Count("attribute_sweep_cases", 1)
		if res.StateAfter == stateNameEstablished {
			r.Count("attribute_sweep_session_stays_up", 1)
		} else {
			// the only thing wrong with the message can be the added attribute: UPDATE Message Error, then close
			r.Count("attribute_sweep_session_reset", 1)
			got := "none"
			if len(res.Notifs) > 0 {
				got = res.Notifs[0]
			}
			if len(got) < 2 || got[:2] != "3/" {
				r.Violation(vh.Sig("clause", "notification", "class", "attribute", "got", got, "state", c.State), c, "UPDATE with an added attribute (flags %#x type %d length %d) reset the session; NOTIFICATION written before close: %v, RFC 4271 6.3 demands an UPDATE Message Error (3/x)", c.AFlags, c.AType, c.ALen, res.Notifs)
			}
			if !res.Closed {
				r.Violation(vh.Sig("clause", "not-closed", "class", "attribute", "state", c.State), c, "session reset by an attribute error but the connection stayed open")
			}
		}
	}
}

func zvC21Cases(thorough bool) []zvC21Case {
	var cs []zvC21Case
	states := []string{"openSent", "openConfirm", "established"}
	lens := map[int]bool{}
	for l := 0; l <= 40; l++ {
		lens[l] = true
	}
	for l := 4090; l <= 4100; l++ {
		lens[l] = true
	}
	for _, l := range []int{0x7f, 0x80, 0xff, 0x100, 4095, 4096, 4097, 0x7fff, 0x8000, 0xffff, 1000, 2048} {
		lens[l] = true
	}
	if thorough {
		for l := 0; l <= 0xffff; l += 1 {
			if l < 300 || l > 3900 && l < 4400 || l%257 == 0 || l > 65200 {
				lens[l] = true
			}
		}
	}
	for _, st := range states {
		for l := range lens {
			for _, typ := range []byte{0, 1, 2, 3, 4, 5, 255} {
				cs = append(cs, zvC21Case{State: st, Kind: "header", Type: typ, Length: l})
			}
		}
		for off := 0; off < 16; off++ {
			for _, v := range []byte{0, 0xfe, 0x7f} {
				cs = append(cs, zvC21Case{State: st, Kind: "marker", Type: 4, Length: 19, Offset: off, Value: v})
			}
		}
		for _, seed := range []string{"open", "update", "update6", "notification", "keepalive"} {
			b := zvC21Seeds[seed]()
			for off := 16; off < len(b); off++ {
				vals := []byte{0, 1, 0x7f, 0x80, 0xff}
				if seed == "update" || seed == "update6" {
					vals = append(vals, 4, 0x10, 0x11, 0x20, 0x21) // lengths the UPDATE grammar treats specially (address sizes, one and two next hops)
				}
				for _, v := range vals {
					if b[off] == v {
						continue
					}
					cs = append(cs, zvC21Case{State: st, Kind: "mutate", Seed: seed, Offset: off, Value: v})
					if thorough || off%3 == 0 {
						cs = append(cs, zvC21Case{State: st, Kind: "mutate", Seed: seed, Offset: off, Value: v, Split: 19})
						cs = append(cs, zvC21Case{State: st, Kind: "mutate", Seed: seed, Offset: off, Value: v, Split: off})
					}
				}
			}
		}
	}
	// one more path attribute on a valid UPDATE: every type code x flag combinations x lengths (established session)
	flags := []byte{0x40, 0x80, 0xc0, 0x90}
	alens := []int{0, 1, 3, 4, 7, 8}
	seeds := []string{"update"}
	if thorough {
		flags = []byte{0x00, 0x40, 0x80, 0xc0, 0xe0, 0x50, 0x90, 0xd0}
		alens = []int{0, 1, 2, 3, 4, 5, 6, 7, 8, 9, 12, 16, 255, 256}
		seeds = []string{"update", "update6"}
	}
	for _, sd := range seeds {
		for t := 0; t < 256; t++ {
			for _, f := range flags {
				for _, l := range alens {
					if l > 255 && f&0x10 == 0 {
						continue
					}
					cs = append(cs, zvC21Case{State: "established", Kind: "attr", Seed: sd, AFlags: f, AType: byte(t), ALen: l})
				}
			}
		}
	}
	// two messages back to back in one segment (the second one is on the wire while the first is processed)
	for _, st := range states {
		for _, first := range []string{"keepalive", "update", "update6", "notification", "open"} {
			for i := range zvC21PairSeeds {
				cs = append(cs, zvC21Case{State: st, Kind: "pair", Seed: first, Type: byte(i)})
				cs = append(cs, zvC21Case{State: st, Kind: "pair", Seed: first, Type: byte(i), Split: 19})
			}
		}
	}
	// MP_REACH_NLRI with every combination of announced next hop length and octets really present
	nhls := []int{0, 1, 3, 4, 5, 12, 15, 16, 17, 24, 31, 32, 33, 48, 64, 255}
	for _, afi := range []byte{1, 2} {
		for _, nhl := range nhls {
			for avail := 0; avail <= 66; avail++ {
				if !thorough && avail > 40 && avail != 64 && avail != 65 {
					continue
				}
				for _, fl := range []byte{0, 0x10} {
					cs = append(cs, zvC21Case{State: "established", Kind: "mpreach", Type: afi, ALen: nhl, Offset: avail, AFlags: fl})
				}
			}
		}
	}
	return cs
}

func TestVerifC21(t *testing.T) {
	r := vh.Start(t, "C21")
	defer r.Finish()
	r.Rule("byte streams delivered to a session in OpenSent / OpenConfirm / Established next to a second established session: header length field over the tier's set (0..40, 4090..4100, boundary values; thorough: 0..299, 3901..4399, every 257th, 65201..65535) x type {0,1,2,3,4,5,255}; " +
		"marker corruptions at every offset; every offset x {0,1,0x7f,0x80,0xff} of five valid seed messages, also split across two reads; a valid UPDATE with one more path attribute of every type code 0..255 x flags {0x40,0x80,0xc0,0x90; thorough 8 combinations} x lengths {0,1,3,4,7,8; thorough 14 values, IPv4 and IPv6 seed}; every ordered pair of {KEEPALIVE, UPDATE, IPv6 UPDATE, NOTIFICATION, OPEN} x {those, bad marker, bad length} in one segment; MP_REACH_NLRI with AFI {1,2} x announced next hop length (16 values) x octets present 0..40,64,65 (thorough 0..66); non-trivial = cases whose header is malformed by RFC 4271 6.1 (NOTIFICATION code/subcode checked)")
	r.Require("malformed_header_cases", "wellformed_header_cases", "attribute_sweep_session_stays_up", "attribute_sweep_session_reset")
	if r.IsReplay() {
		var c zvC21Case
		r.ReplayCase(&c)
		zvC21Check(r, c)
		fmt.Printf("result: %+v\n", zvC21Run(c, true))
		r.Count("malformed_header_cases", 1)
		r.Count("wellformed_header_cases", 1)
		r.Count("attribute_sweep_session_stays_up", 1)
		r.Count("attribute_sweep_session_reset", 1)
		return
	}
	cs := zvC21Cases(r.Thorough())
	r.Extra("cases_total", len(cs))
	// map iteration above made the order arbitrary: sort for a stable sharding and first-violation choice
	sortC21(cs)
	for i, c := range cs {
		if !r.Mine(i) {
			continue
		}
		if i%64 == 0 && r.OutOfBudget() {
			r.Cap("time budget")
			break
		}
		zvC21Check(r, c)
		if i == 5 {
			r.Sample(c)
		}
	}
}

func sortC21(cs []zvC21Case) {
	key := func(c zvC21Case) string {
		return fmt.Sprintf("%s|%s|%05d|%03d|%s|%04d|%03d|%04d|%03d|%03d|%03d", c.Kind, c.State, c.Length, c.Type, c.Seed, c.Offset, c.Value, c.Split, c.AType, c.AFlags, c.ALen)
	}
	// insertion of keys then sort
	ks := make([]string, len(cs))
	for i := range cs {
		ks[i] = key(cs[i])
	}
	idx := make([]int, len(cs))
	for i := range idx {
		idx[i] = i
	}
	sortSlice(idx, func(a, b int) bool { return ks[a] < ks[b] })
	out := make([]zvC21Case, len(cs))
	for i, j := range idx {
		out[i] = cs[j]
	}
	copy(cs, out)
}
