package server

// C20 — received UPDATEs are applied NLRI by NLRI.
// Engine E4 under E2: BFS over sequences of valid multi-NLRI UPDATEs (classic
// IPv4 and multiprotocol IPv6, with and without add-path) delivered to an
// Established session; after every message the Adj-RIB-In must equal a map
// model keyed by (family, prefix, path identifier).

import (
	"fmt"
	"github.com/bio-routing/bio-rd/route"
	"sort"
	"strings"
	"testing"
	"time"

	"github.com/bio-routing/bio-rd/zzverif/vh"
	"github.com/bio-routing/bio-rd/zzverif/vsched"
)

type zvC20Msg struct {
	Name     string   `json:"name"`
	Fam      int      `json:"family"`   // 4 classic, 6 multiprotocol IPv6
	Announce []int    `json:"announce"` // indices into the prefix table
	AnnIDs   []uint32 `json:"announce_path_ids"`
	Withdraw []int    `json:"withdraw"`
	WdIDs    []uint32 `json:"withdraw_path_ids"`
	MED      uint32   `json:"med"`
	// Rich: the message also carries COMMUNITIES, LARGE_COMMUNITIES, ATOMIC_AGGREGATE, AGGREGATOR and an unknown
	// transitive attribute: "the message's attributes" are more than next hop and MED
	Rich bool `json:"rich_attributes,omitempty"`
}

const zvC20RichDigest = " comm=[4259840001 4259840002] lc=[(65000,1,2)] atomic=true aggr={65001 167772169} unk=[200:010203]"
const zvC20PlainDigest = " comm=[] lc=[] atomic=false aggr=- unk=[]"

// zvC20Extra renders the attributes of an installed path that the plain model value does not cover.
func zvC20Extra(p *route.Path) string {
	b := p.BGPPath
	comm, lc, aggr, unk := "[]", "[]", "-", "[]"
	if b.Communities != nil && len(*b.Communities) > 0 {
		comm = fmt.Sprint([]uint32(*b.Communities))
	}
	if b.LargeCommunities != nil && len(*b.LargeCommunities) > 0 {
		var x []string
		for _, l := range *b.LargeCommunities {
			x = append(x, fmt.Sprintf("(%d,%d,%d)", l.GlobalAdministrator, l.DataPart1, l.DataPart2))
		}
		lc = "[" + strings.Join(x, " ") + "]"
	}
	atomic := false
	if b.BGPPathA != nil {
		atomic = b.BGPPathA.AtomicAggregate
		if b.BGPPathA.Aggregator != nil {
			aggr = fmt.Sprintf("{%d %d}", b.BGPPathA.Aggregator.ASN, b.BGPPathA.Aggregator.Address)
		}
	}
	if len(b.UnknownAttributes) > 0 {
		var x []string
		for _, u := range b.UnknownAttributes {
			x = append(x, fmt.Sprintf("%d:%x", u.TypeCode, u.Value))
		}
		unk = "[" + strings.Join(x, " ") + "]"
	}
	return fmt.Sprintf(" comm=%s lc=%s atomic=%v aggr=%s unk=%s", comm, lc, atomic, aggr, unk)
}

var zvC20P4 = []zvwPrefix{zvR1, zvR2, {Len: 17, Addr: []byte{172, 16, 128, 0}}}
var zvC20P6 = []zvwPrefix{
	{Len: 48, Addr: []byte{0x20, 1, 0xd, 0xb8, 0, 1, 0, 0, 0, 0, 0, 0, 0, 0, 0, 0}},
	{Len: 64, Addr: []byte{0x20, 1, 0xd, 0xb8, 0, 2, 0, 3, 0, 0, 0, 0, 0, 0, 0, 0}},
	{Len: 32, Addr: []byte{0x20, 1, 0xd, 0xb9, 0, 0, 0, 0, 0, 0, 0, 0, 0, 0, 0, 0}},
}

func zvC20PfxName(fam, i int) string {
	if fam == 4 {
		p := zvC20P4[i]
		return fmt.Sprintf("%d.%d.%d.%d/%d", p.Addr[0], p.Addr[1], p.Addr[2], p.Addr[3], p.Len)
	}
	return [...]string{"2001:db8:1::/48", "2001:db8:2:3::/64", "2001:db9::/32"}[i]
}

func zvC20Alphabet(addPath bool) []zvC20Msg {
	var ms []zvC20Msg
	sets := [][]int{{0}, {1}, {0, 1}, {1, 0}, {0, 1, 2}, {0, 0}}
	for _, fam := range []int{4, 6} {
		for _, med := range []uint32{5, 9} {
			for _, set := range sets {
				if len(set) == 2 && set[0] == set[1] && !addPath {
					continue
				}
				idVariants := [][]uint32{nil}
				if addPath {
					idVariants = [][]uint32{{1, 2, 3}, {2, 2, 2}, {3, 1, 2}, {0, 1, 2}, {1, 0, 0}} // 0 is a valid path identifier
				}
				for _, ids := range idVariants {
					m := zvC20Msg{Fam: fam, Announce: set, MED: med}
					if addPath {
						m.AnnIDs = ids[:len(set)]
					}
					if med == 9 && len(set) == 1 {
						m.Withdraw = []int{1 - set[0]} // announce one, withdraw the other in the same message
						if addPath {
							m.WdIDs = []uint32{2}
						}
					}
					ms = append(ms, m)
					if med == 5 && len(set) >= 2 && (ids == nil || ids[0] != ids[1]) {
						rm := m
						rm.Rich = true
						ms = append(ms, rm)
					}
				}
			}
		}
		// the same prefix (and path identifier) announced and withdrawn in one message: RFC 4271 section 4.3 - to be
		// treated as though the withdrawn routes did not contain it - "in IPv4 and multiprotocol encodings alike"
		{
			m := zvC20Msg{Fam: fam, Announce: []int{0}, Withdraw: []int{0}, MED: 5}
			if addPath {
				m.AnnIDs, m.WdIDs = []uint32{1}, []uint32{1}
			}
			ms = append(ms, m)
		}
		// pure withdrawals
		for _, wd := range [][]int{{0}, {0, 1}, {2}} {
			idVariants := [][]uint32{nil}
			if addPath {
				idVariants = [][]uint32{{1, 2}, {2, 1}, {3, 3}, {0, 1}, {1, 0}}
			}
			for _, ids := range idVariants {
				m := zvC20Msg{Fam: fam, Withdraw: wd}
				if addPath {
					m.WdIDs = ids[:min2(len(ids), len(wd))]
					for len(m.WdIDs) < len(wd) {
						m.WdIDs = append(m.WdIDs, 1)
					}
				}
				ms = append(ms, m)
			}
		}
	}
	for i := range ms {
		ms[i].Name = fmt.Sprintf("m%02d:f%d+%v%v-%v%v/med%d", i, ms[i].Fam, ms[i].Announce, ms[i].AnnIDs, ms[i].Withdraw, ms[i].WdIDs, ms[i].MED)
		if ms[i].Rich {
			ms[i].Name += "/rich"
		}
	}
	return ms
}

func min2(a, b int) int {
	if a < b {
		return a
	}
	return b
}

func (m zvC20Msg) bytes(addPath bool, ibgp ...bool) []byte {
	pick := func(tab []zvwPrefix, idx []int, ids []uint32) []zvwPrefix {
		var out []zvwPrefix
		for i, x := range idx {
			p := tab[x]
			if ids != nil {
				p.PathID = ids[i]
			}
			out = append(out, p)
		}
		return out
	}
	attrs := []zvwAttr{zvwOrigin(0), zvwASPath(true, zvRemoteAS)}
	if len(ibgp) > 0 && ibgp[0] {
		attrs = append(attrs, zvwLocalPref(100)) // an internal peer sends LOCAL_PREF (the same in every message)
	}
	if m.Rich {
		attrs = append(attrs,
			zvwAttr{0xc0, 8, []byte{0xfd, 0xe8, 0, 1, 0xfd, 0xe8, 0, 2}},
			zvwAttr{0xc0, 32, []byte{0, 0, 0xfd, 0xe8, 0, 0, 0, 1, 0, 0, 0, 2}},
			zvwAttr{0x40, 6, nil},
			zvwAttr{0xc0, 7, []byte{0, 0, 0xfd, 0xe9, 10, 0, 0, 9}},
			zvwAttr{0xc0, 200, []byte{1, 2, 3}})
	}
	if m.Fam == 4 {
		var a []zvwAttr
		if len(m.Announce) > 0 {
			a = append(attrs, zvwNextHop(10, 0, 0, 9), zvwMED(m.MED))
		}
		return zvwUpdate(zvwNLRI(pick(zvC20P4, m.Withdraw, m.WdIDs), addPath), a, zvwNLRI(pick(zvC20P4, m.Announce, m.AnnIDs), addPath))
	}
	nh := make([]byte, 16)
	nh[0], nh[1], nh[15] = 0x20, 0x01, 9
	var a []zvwAttr
	if len(m.Announce) > 0 {
		a = append(attrs, zvwMPReach(2, 1, nh, zvwNLRI(pick(zvC20P6, m.Announce, m.AnnIDs), addPath)), zvwMED(m.MED))
	}
	if len(m.Withdraw) > 0 {
		a = append(a, zvwMPUnreach(2, 1, zvwNLRI(pick(zvC20P6, m.Withdraw, m.WdIDs), addPath)))
	}
	return zvwUpdate(nil, a, nil)
}

// apply steps the reference model: key "fam prefix#id" -> "nh med".
func (m zvC20Msg) apply(model map[string]string, addPath bool, famConfigured map[int]bool) {
	if !famConfigured[m.Fam] {
		return
	}
	// RFC 4271 3.1 / 4.3: withdrawn routes are processed, then the announced ones
	for i, x := range m.Withdraw {
		if addPath {
			delete(model, fmt.Sprintf("%d %s#%d", m.Fam, zvC20PfxName(m.Fam, x), m.WdIDs[i]))
		} else {
			delete(model, fmt.Sprintf("%d %s#0", m.Fam, zvC20PfxName(m.Fam, x)))
		}
	}
	nh := "10.0.0.9"
	if m.Fam == 6 {
		nh = "2001::9"
	}
	for i, x := range m.Announce {
		id := uint32(0)
		if addPath {
			id = m.AnnIDs[i]
		}
		extra := zvC20PlainDigest
		if m.Rich {
			extra = zvC20RichDigest
		}
		model[fmt.Sprintf("%d %s#%d", m.Fam, zvC20PfxName(m.Fam, x), id)] = fmt.Sprintf("nh=%s med=%d", nh, m.MED) + extra
	}
}

type zvC20Cfg struct {
	Name    string
	AddPath bool
	IPv6    bool
	IBGP    bool // internal session: LOCAL_PREF comes with the message instead of being defaulted on receipt
}

type zvC20Case struct {
	Cfg  string     `json:"config"`
	Hist []zvC20Msg `json:"messages"`
}

func zvC20Observe(s *zvSess) map[string]string {
	m := map[string]string{}
	for fam, af := range map[int]*fsmAddressFamily{4: s.fA.ipv4Unicast, 6: s.fA.ipv6Unicast} {
		if af == nil || af.adjRIBIn == nil {
			continue
		}
		for _, r := range af.adjRIBIn.Dump() {
			for _, p := range r.Paths() {
				nh := "nil"
				if p.BGPPath.BGPPathA != nil && p.BGPPath.BGPPathA.NextHop != nil {
					nh = p.BGPPath.BGPPathA.NextHop.String()
				}
				med := uint32(0)
				if p.BGPPath.BGPPathA != nil {
					med = p.BGPPath.BGPPathA.MED
				}
				k := fmt.Sprintf("%d %s#%d", fam, r.Prefix().String(), p.BGPPath.PathIdentifier)
				if _, dup := m[k]; dup {
					k += " (duplicate)"
				}
				m[k] = fmt.Sprintf("nh=%s med=%d", nh, med) + zvC20Extra(p)
			}
		}
	}
	return m
}

func zvMapStr(m map[string]string) string {
	ks := make([]string, 0, len(m))
	for k := range m {
		ks = append(ks, k+" "+m[k])
	}
	sort.Strings(ks)
	return strings.Join(ks, "; ")
}

func zvC20Step(r *vh.Run, cfg zvC20Cfg, alphabet []zvC20Msg, hist []zvC20Msg) (string, []zvC20Msg, bool) {
	var got map[string]string
	model := map[string]string{}
	famCfg := map[int]bool{4: true, 6: cfg.IPv6}
	okState := true
	x := vsched.Exec(vsched.Config{MaxSteps: 100000}, func() {
		s := zvSessStart(zvSessCfg{Name: "c20", A: zvPeerOpts{Addr: 9, Hold: 90 * time.Second, IPv6: cfg.IPv6, AddPathRX: cfg.AddPath, IBGP: cfg.IBGP}})
		s.apply(evT15)
		s.apply(evOpen)
		s.apply(evKA)
		if zvFSMState(s.fA) != stateNameEstablished {
			okState = false
			return
		}
		for _, m := range hist {
			s.cA.deliver(m.bytes(cfg.AddPath, cfg.IBGP))
			vsched.Settle()
			m.apply(model, cfg.AddPath, famCfg)
		}
		okState = zvFSMState(s.fA) == stateNameEstablished
		got = zvC20Observe(s)
	})
	c := zvC20Case{cfg.Name, hist}
	r.Eval(1)
	last := "init"
	if len(hist) > 0 {
		last = hist[len(hist)-1].Name
		if i := strings.Index(last, ":"); i > 0 {
			last = last[i+1:]
		}
	}
	if x.Status != vsched.Completed {
		r.Violation(vh.Sig("clause", "run-"+x.Status.String(), "config", cfg.Name), c, "execution %s: %.400s", x.Status, x.Crash)
		return "crash", nil, false
	}
	if !okState {
		r.Violation(vh.Sig("clause", "session-dropped", "config", cfg.Name), c, "a valid UPDATE made the session leave Established (last message %s)", last)
		return "dropped", nil, false
	}
	gs, ms := zvMapStr(got), zvMapStr(model)
	if len(hist) > 0 {
		lm := hist[len(hist)-1]
		if len(lm.Announce) > 1 {
			r.Count("multi_nlri_announce", 1)
		}
		if len(lm.Withdraw) > 0 {
			r.Count("withdraw", 1)
		}
		if lm.Fam == 6 && cfg.IPv6 {
			r.Count("multiprotocol", 1)
		}
	}
	if gs != ms {
		kind := "content"
		lm := hist[len(hist)-1]
		if len(lm.Announce) > 1 {
			kind = "multi-nlri"
		} else if len(lm.Withdraw) > 0 && len(lm.Announce) == 0 {
			kind = "withdraw"
		}
		r.Violation(vh.Sig("clause", "ribin-differs", "config", cfg.Name, "family", fmt.Sprint(hist[len(hist)-1].Fam), "kind", kind), c,
			"after %s the Adj-RIB-In is {%s}, applying the UPDATEs NLRI by NLRI gives {%s}", last, gs, ms)
		return gs, nil, false
	}
	return gs, alphabet, true
}

func TestVerifC20(t *testing.T) {
	r := vh.Start(t, "C20")
	defer r.Finish()
	depth := 2
	if r.Thorough() {
		depth = 3
	}
	r.Rule(fmt.Sprintf("BFS to depth %d over an alphabet of valid UPDATEs (1-3 NLRI incl. a repeated prefix, 0-2 withdrawals, a prefix announced and withdrawn in one message, classic IPv4 and MP IPv6, distinct/equal/permuted path identifiers with add-path) per session configuration "+
		"{add-path RX on/off} x {IPv4 only, IPv4+IPv6} on an external session, plus two internal sessions (LOCAL_PREF sent by the peer); after every message Adj-RIB-In == map model keyed (family, prefix, path id)", depth))
	r.Require("multi_nlri_announce", "withdraw", "multiprotocol")
	cfgs := []zvC20Cfg{{"v4v6", false, true, false}, {"v4v6-addpath", true, true, false}, {"v4only", false, false, false}, {"v4only-addpath", true, false, false},
		{"ibgp-v4v6-addpath", true, true, true}, {"ibgp-v4only", false, false, true}}
	if r.IsReplay() {
		var c zvC20Case
		r.ReplayCase(&c)
		for _, cfg := range cfgs {
			if cfg.Name == c.Cfg {
				for n := 1; n <= len(c.Hist); n++ {
					zvC20Step(r, cfg, nil, c.Hist[:n])
				}
			}
		}
		for _, k := range []string{"multi_nlri_announce", "withdraw", "multiprotocol"} {
			r.Count(k, 1)
		}
		return
	}
	idx := 0
	for _, cfg := range cfgs {
		cfg := cfg
		alphabet := zvC20Alphabet(cfg.AddPath)
		if cfg.AddPath && !cfg.IPv6 {
			// the NLRI encoding of a family that was not negotiated is undefined: keep only IPv4 messages
			var a4 []zvC20Msg
			for _, m := range alphabet {
				if m.Fam == 4 {
					a4 = append(a4, m)
				}
			}
			alphabet = a4
		}
		r.Extra("alphabet_"+cfg.Name, len(alphabet))
		for _, m1 := range alphabet {
			idx++
			if !r.Mine(idx) {
				continue
			}
			m1 := m1
			b := vh.BFS[zvC20Msg]{R: r, MaxDepth: depth - 1, Label: cfg.Name, Step: func(h []zvC20Msg) (string, []zvC20Msg, bool) {
				return zvC20Step(r, cfg, alphabet, append([]zvC20Msg{m1}, h...))
			}}
			b.Explore()
		}
		r.Nontrivial(1)
	}
}
