//go:build race

package vsync

import "sync"

// In race builds a granted model lock also performs the real, uncontended
// lock operation so that the race detector sees exactly the happens-before
// edges the program's own synchronisation creates (and none from the
// scheduler's hand-offs, see vsched/race_on.go).
type hbMutex struct{ mu sync.Mutex }

//go:norace
func (h *hbMutex) acquire() { h.mu.Lock() }

//go:norace
func (h *hbMutex) release() { h.mu.Unlock() }

type hbRWMutex struct{ mu sync.RWMutex }

//go:norace
func (h *hbRWMutex) lock() { h.mu.Lock() }

//go:norace
func (h *hbRWMutex) unlock() { h.mu.Unlock() }

//go:norace
func (h *hbRWMutex) rlock() { h.mu.RLock() }

//go:norace
func (h *hbRWMutex) runlock() { h.mu.RUnlock() }

type hbWaitGroup struct{ wg sync.WaitGroup }

//go:norace
func (h *hbWaitGroup) add(d int) { h.wg.Add(d) }

//go:norace
func (h *hbWaitGroup) wait() { h.wg.Wait() }
