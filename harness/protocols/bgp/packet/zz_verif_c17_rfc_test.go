package packet

// C17 — independent reference decoder (RFC 4271, 4760, 5492, 7911, 6793, 4456,
// 1997, 8092, 8950, 9234) and the expected-content model. Nothing in this file
// calls the code under test.

import (
	"encoding/hex"
	"fmt"
	"sort"
)

type zvC17Seg struct {
	Type uint8
	ASNs []uint32
}

type zvC17Pfx struct {
	ID   uint32
	Len  int
	Addr string // hex of ceil(Len/8) bytes
}

type zvC17Unk struct {
	Type     uint8
	Optional bool
	Partial  bool
	Value    []byte
}

// zvC17Expect is the content an UPDATE has to carry, derived from the case
// parameters only.
type zvC17Expect struct {
	ASN4      bool
	AddPath   bool
	MP        bool       // NLRI travel in MP_REACH_NLRI
	AFI       uint16     // family of the NLRI
	ASPath    []zvC17Seg // canonical form
	Origin    uint8
	NextHop   []byte
	MED       uint32 // 0 = attribute may be absent
	HasLP     bool
	LocalPref uint32
	Atomic    bool
	Aggr      *[2]uint32 // ASN, address
	HasOrig   bool
	OrigID    uint32
	Cluster   []uint32 // only looked at when HasOrig (route reflector client session)
	Comm      []uint32
	Large     [][3]uint32
	Unknown   []zvC17Unk
	NLRI      []zvC17Pfx
	Withdrawn []zvC17Pfx // classic withdrawn routes or MP_UNREACH
	Withdraw  bool       // message is a pure withdrawal
}

// zvC17Canon merges adjacent segments of equal type and drops empty ones.
func zvC17Canon(in []zvC17Seg) []zvC17Seg {
	var out []zvC17Seg
	for _, s := range in {
		if len(s.ASNs) == 0 {
			continue
		}
		if n := len(out); n > 0 && out[n-1].Type == s.Type {
			out[n-1].ASNs = append(out[n-1].ASNs, s.ASNs...)
			continue
		}
		out = append(out, zvC17Seg{s.Type, append([]uint32(nil), s.ASNs...)})
	}
	return out
}

func zvC17SegsEqual(a, b []zvC17Seg) bool {
	if len(a) != len(b) {
		return false
	}
	for i := range a {
		if a[i].Type != b[i].Type || len(a[i].ASNs) != len(b[i].ASNs) {
			return false
		}
		for j := range a[i].ASNs {
			if a[i].ASNs[j] != b[i].ASNs[j] {
				return false
			}
		}
	}
	return true
}

func zvC17SegsString(a []zvC17Seg) string {
	s := ""
	for _, g := range a {
		t := "SEQ"
		if g.Type == 1 {
			t = "SET"
		}
		if len(g.ASNs) > 4 {
			s += fmt.Sprintf("%s[%d ASNs: %d %d .. %d] ", t, len(g.ASNs), g.ASNs[0], g.ASNs[1], g.ASNs[len(g.ASNs)-1])
		} else {
			s += fmt.Sprintf("%s%v ", t, g.ASNs)
		}
	}
	if s == "" {
		return "(empty)"
	}
	return s
}

func zvC17U32sEqual(a, b []uint32) bool {
	if len(a) != len(b) {
		return false
	}
	for i := range a {
		if a[i] != b[i] {
			return false
		}
	}
	return true
}

func zvC17PfxsEqual(a, b []zvC17Pfx) bool {
	if len(a) != len(b) {
		return false
	}
	key := func(p zvC17Pfx) string { return fmt.Sprintf("%08x/%03d/%s", p.ID, p.Len, p.Addr) }
	ka, kb := make([]string, len(a)), make([]string, len(b))
	for i := range a {
		ka[i], kb[i] = key(a[i]), key(b[i])
	}
	sort.Strings(ka)
	sort.Strings(kb)
	for i := range ka {
		if ka[i] != kb[i] {
			return false
		}
	}
	return true
}

func zvC17AttrName(t uint8) string {
	switch t {
	case 1:
		return "origin"
	case 2:
		return "as_path"
	case 3:
		return "next_hop"
	case 4:
		return "med"
	case 5:
		return "local_pref"
	case 6:
		return "atomic_aggregate"
	case 7:
		return "aggregator"
	case 8:
		return "communities"
	case 9:
		return "originator_id"
	case 10:
		return "cluster_list"
	case 14:
		return "mp_reach_nlri"
	case 15:
		return "mp_unreach_nlri"
	case 32:
		return "large_communities"
	}
	return "unknown"
}

// zvC17Verdict: Kind "" = fine; otherwise "malformed" (the bytes are not a valid
// message under the session options), "mismatch" (valid, different content),
// "header_len", "too_long".
type zvC17Verdict struct {
	Kind, Attr, Detail string
}

func (v zvC17Verdict) bad() bool { return v.Kind != "" }

func zvC17Be16(b []byte) int { return int(b[0])<<8 | int(b[1]) }
func zvC17Be32(b []byte) uint32 {
	return uint32(b[0])<<24 | uint32(b[1])<<16 | uint32(b[2])<<8 | uint32(b[3])
}

// zvC17Header checks marker, length and type; returns the body.
func zvC17Header(msg []byte, typ uint8) ([]byte, zvC17Verdict) {
	if len(msg) > 4096 {
		return nil, zvC17Verdict{"too_long", "message", fmt.Sprintf("%d bytes", len(msg))}
	}
	if len(msg) < 19 {
		return nil, zvC17Verdict{"malformed", "header", fmt.Sprintf("only %d bytes", len(msg))}
	}
	for i := 0; i < 16; i++ {
		if msg[i] != 0xff {
			return nil, zvC17Verdict{"malformed", "header", "marker"}
		}
	}
	if l := zvC17Be16(msg[16:]); l != len(msg) {
		return nil, zvC17Verdict{"header_len", "header", fmt.Sprintf("header says %d, message has %d bytes", l, len(msg))}
	}
	if msg[18] != typ {
		return nil, zvC17Verdict{"malformed", "header", fmt.Sprintf("type %d, want %d", msg[18], typ)}
	}
	return msg[19:], zvC17Verdict{}
}

func zvC17ParseNLRI(b []byte, addPath bool, afi uint16) ([]zvC17Pfx, error) {
	max := 32
	if afi == 2 {
		max = 128
	}
	var out []zvC17Pfx
	for len(b) > 0 {
		var p zvC17Pfx
		if addPath {
			if len(b) < 4 {
				return nil, fmt.Errorf("truncated path identifier")
			}
			p.ID = zvC17Be32(b)
			b = b[4:]
		}
		if len(b) < 1 {
			return nil, fmt.Errorf("missing prefix length")
		}
		p.Len = int(b[0])
		b = b[1:]
		if p.Len > max {
			return nil, fmt.Errorf("prefix length %d > %d", p.Len, max)
		}
		n := (p.Len + 7) / 8
		if len(b) < n {
			return nil, fmt.Errorf("truncated prefix (/%d needs %d bytes, %d left)", p.Len, n, len(b))
		}
		p.Addr = hex.EncodeToString(b[:n])
		b = b[n:]
		out = append(out, p)
	}
	return out, nil
}

func zvC17ParseASPath(v []byte, asn4 bool) ([]zvC17Seg, error) {
	sz := 2
	if asn4 {
		sz = 4
	}
	var out []zvC17Seg
	for len(v) > 0 {
		if len(v) < 2 {
			return nil, fmt.Errorf("truncated segment header")
		}
		t, n := v[0], int(v[1])
		if t != 1 && t != 2 {
			return nil, fmt.Errorf("segment type %d", t)
		}
		if n == 0 {
			return nil, fmt.Errorf("segment with zero ASNs (RFC 7606 7.2: malformed)")
		}
		v = v[2:]
		if len(v) < n*sz {
			return nil, fmt.Errorf("segment announces %d ASNs of %d bytes, %d bytes left", n, sz, len(v))
		}
		s := zvC17Seg{Type: t}
		for i := 0; i < n; i++ {
			if asn4 {
				s.ASNs = append(s.ASNs, zvC17Be32(v[i*4:]))
			} else {
				s.ASNs = append(s.ASNs, uint32(zvC17Be16(v[i*2:])))
			}
		}
		v = v[n*sz:]
		out = append(out, s)
	}
	return out, nil
}

// zvC17CheckUpdateRFC parses an UPDATE per RFC under the session options and
// compares it with the expected content. The first problem in wire order wins,
// so that the verdict names the attribute that is broken, not its aftermath.
func zvC17CheckUpdateRFC(msg []byte, e *zvC17Expect) zvC17Verdict {
	body, v := zvC17Header(msg, 2)
	if v.bad() {
		return v
	}
	mal := func(attr, f string, a ...any) zvC17Verdict {
		return zvC17Verdict{"malformed", attr, fmt.Sprintf(f, a...)}
	}
	mis := func(attr, f string, a ...any) zvC17Verdict {
		return zvC17Verdict{"mismatch", attr, fmt.Sprintf(f, a...)}
	}
	if len(body) < 4 {
		return mal("update", "body of %d bytes", len(body))
	}
	wl := zvC17Be16(body)
	if 2+wl+2 > len(body) {
		return mal("withdrawn_routes", "withdrawn routes length %d exceeds the message", wl)
	}
	classicAP := e.AddPath && e.AFI == 1
	wd, err := zvC17ParseNLRI(body[2:2+wl], classicAP, 1)
	if err != nil {
		return mal("withdrawn_routes", "%v", err)
	}
	al := zvC17Be16(body[2+wl:])
	astart := 2 + wl + 2
	if astart+al > len(body) {
		return mal("path_attributes", "total path attribute length %d exceeds the message (%d bytes left)", al, len(body)-astart)
	}
	attrs := body[astart : astart+al]
	nlri, nerr := zvC17ParseNLRI(body[astart+al:], classicAP, 1)

	seen := map[uint8]bool{}
	unk := map[uint8]zvC17Unk{}
	for _, u := range e.Unknown {
		unk[u.Type] = u
	}
	var mpReach, mpUnreach []zvC17Pfx
	haveReach := false
	for len(attrs) > 0 {
		if len(attrs) < 3 {
			return mal("path_attributes", "%d stray bytes at the end of the attribute list", len(attrs))
		}
		flags, typ := attrs[0], attrs[1]
		name := zvC17AttrName(typ)
		var l, h int
		if flags&0x10 != 0 {
			if len(attrs) < 4 {
				return mal(name, "truncated extended length")
			}
			l, h = zvC17Be16(attrs[2:]), 4
		} else {
			l, h = int(attrs[2]), 3
		}
		if h+l > len(attrs) {
			return mal(name, "attribute type %d announces %d bytes, %d left in the attribute list", typ, l, len(attrs)-h)
		}
		val := attrs[h : h+l]
		attrs = attrs[h+l:]
		if seen[typ] {
			return mal(name, "attribute type %d appears twice", typ)
		}
		seen[typ] = true
		opt, trans, part := flags&0x80 != 0, flags&0x40 != 0, flags&0x20 != 0
		wantFlags := func(wopt, wtrans bool) *zvC17Verdict {
			if opt != wopt || trans != wtrans || (part && !(wopt && wtrans)) {
				v := mal(name, "attribute flags %#02x: optional=%v transitive=%v partial=%v, RFC wants optional=%v transitive=%v", flags, opt, trans, part, wopt, wtrans)
				v.Kind = "flags"
				return &v
			}
			return nil
		}
		fixed := func(n int) *zvC17Verdict {
			if l != n {
				v := mal(name, "length %d, RFC wants %d", l, n)
				return &v
			}
			return nil
		}
		switch typ {
		case 1:
			if v := wantFlags(false, true); v != nil {
				return *v
			}
			if v := fixed(1); v != nil {
				return *v
			}
			if val[0] != e.Origin {
				return mis(name, "origin %d, want %d", val[0], e.Origin)
			}
		case 2:
			if v := wantFlags(false, true); v != nil {
				return *v
			}
			segs, err := zvC17ParseASPath(val, e.ASN4)
			if err != nil {
				return mal(name, "%v", err)
			}
			if got := zvC17Canon(segs); !zvC17SegsEqual(got, e.ASPath) {
				return mis(name, "AS path %s, want %s", zvC17SegsString(got), zvC17SegsString(e.ASPath))
			}
		case 3:
			if v := wantFlags(false, true); v != nil {
				return *v
			}
			if v := fixed(4); v != nil {
				return *v
			}
			if e.MP {
				return mis(name, "NEXT_HOP attribute in a multiprotocol update")
			}
			if hex.EncodeToString(val) != hex.EncodeToString(e.NextHop) {
				return mis(name, "next hop %x, want %x", val, e.NextHop)
			}
		case 4:
			if v := wantFlags(true, false); v != nil {
				return *v
			}
			if v := fixed(4); v != nil {
				return *v
			}
			if zvC17Be32(val) != e.MED {
				return mis(name, "MED %d, want %d", zvC17Be32(val), e.MED)
			}
		case 5:
			if v := wantFlags(false, true); v != nil {
				return *v
			}
			if v := fixed(4); v != nil {
				return *v
			}
			if !e.HasLP || zvC17Be32(val) != e.LocalPref {
				return mis(name, "LOCAL_PREF %d, expected present=%v value=%d", zvC17Be32(val), e.HasLP, e.LocalPref)
			}
		case 6:
			if v := wantFlags(false, true); v != nil {
				return *v
			}
			if v := fixed(0); v != nil {
				return *v
			}
			if !e.Atomic {
				return mis(name, "unexpected ATOMIC_AGGREGATE")
			}
		case 7:
			if v := wantFlags(true, true); v != nil {
				return *v
			}
			want := 6
			if e.ASN4 {
				want = 8 // RFC 6793 3: four-octet AS number between NEW speakers
			}
			if l != want {
				return mal(name, "length %d, want %d on a session with asn4=%v", l, want, e.ASN4)
			}
			var asn, addr uint32
			if e.ASN4 {
				asn, addr = zvC17Be32(val), zvC17Be32(val[4:])
			} else {
				asn, addr = uint32(zvC17Be16(val)), zvC17Be32(val[2:])
			}
			if e.Aggr == nil || e.Aggr[0] != asn || e.Aggr[1] != addr {
				return mis(name, "aggregator AS %d address %#x, want %v", asn, addr, e.Aggr)
			}
		case 8:
			if v := wantFlags(true, true); v != nil {
				return *v
			}
			if l%4 != 0 || l == 0 {
				return mal(name, "length %d", l)
			}
			var got []uint32
			for i := 0; i < l; i += 4 {
				got = append(got, zvC17Be32(val[i:]))
			}
			if !zvC17U32sEqual(got, e.Comm) {
				return mis(name, "%d communities, want %d (or values differ)", len(got), len(e.Comm))
			}
		case 9:
			if v := wantFlags(true, false); v != nil {
				return *v
			}
			if v := fixed(4); v != nil {
				return *v
			}
			if !e.HasOrig || zvC17Be32(val) != e.OrigID {
				return mis(name, "ORIGINATOR_ID %#x, expected present=%v value=%#x", zvC17Be32(val), e.HasOrig, e.OrigID)
			}
		case 10:
			if v := wantFlags(true, false); v != nil {
				return *v
			}
			if l%4 != 0 {
				return mal(name, "length %d", l)
			}
			var got []uint32
			for i := 0; i < l; i += 4 {
				got = append(got, zvC17Be32(val[i:]))
			}
			if !e.HasOrig || !zvC17U32sEqual(got, e.Cluster) {
				return mis(name, "CLUSTER_LIST with %d entries, want %d (or values differ)", len(got), len(e.Cluster))
			}
		case 14:
			if v := wantFlags(true, false); v != nil {
				return *v
			}
			if l < 5 {
				return mal(name, "length %d", l)
			}
			afi, safi, nhl := uint16(zvC17Be16(val)), val[2], int(val[3])
			if 4+nhl+1 > l {
				return mal(name, "next hop length %d exceeds the attribute", nhl)
			}
			if !e.MP || afi != e.AFI || safi != 1 {
				return mis(name, "MP_REACH_NLRI afi=%d safi=%d, expected mp=%v afi=%d safi=1", afi, safi, e.MP, e.AFI)
			}
			if hex.EncodeToString(val[4:4+nhl]) != hex.EncodeToString(e.NextHop) {
				return mis(name, "next hop %x, want %x", val[4:4+nhl], e.NextHop)
			}
			p, err := zvC17ParseNLRI(val[4+nhl+1:], e.AddPath, afi)
			if err != nil {
				return mal(name, "NLRI: %v", err)
			}
			mpReach, haveReach = p, true
		case 15:
			if v := wantFlags(true, false); v != nil {
				return *v
			}
			if l < 3 {
				return mal(name, "length %d", l)
			}
			afi, safi := uint16(zvC17Be16(val)), val[2]
			if !e.MP || afi != e.AFI || safi != 1 {
				return mis(name, "MP_UNREACH_NLRI afi=%d safi=%d, expected mp=%v afi=%d safi=1", afi, safi, e.MP, e.AFI)
			}
			p, err := zvC17ParseNLRI(val[3:], e.AddPath, afi)
			if err != nil {
				return mal(name, "NLRI: %v", err)
			}
			mpUnreach = p
		case 32:
			if v := wantFlags(true, true); v != nil {
				return *v
			}
			if l%12 != 0 || l == 0 {
				return mal(name, "length %d", l)
			}
			var got [][3]uint32
			for i := 0; i < l; i += 12 {
				got = append(got, [3]uint32{zvC17Be32(val[i:]), zvC17Be32(val[i+4:]), zvC17Be32(val[i+8:])})
			}
			if fmt.Sprint(got) != fmt.Sprint(e.Large) {
				return mis(name, "%d large communities, want %d (or values differ)", len(got), len(e.Large))
			}
		default:
			u, ok := unk[typ]
			if !ok {
				return mis(name, "unexpected attribute type %d (%d bytes)", typ, l)
			}
			if hex.EncodeToString(val) != hex.EncodeToString(u.Value) {
				return zvC17Verdict{"mismatch", name, fmt.Sprintf("value: attribute type %d carries %d bytes, the path holds %d bytes", typ, l, len(u.Value))}
			}
			if !trans || opt != u.Optional || part != u.Partial {
				return zvC17Verdict{"mismatch", name, fmt.Sprintf("flags: attribute type %d sent with optional=%v transitive=%v partial=%v, the path holds optional=%v transitive=true partial=%v", typ, opt, trans, part, u.Optional, u.Partial)}
			}
		}
	}
	if nerr != nil {
		return mal("nlri", "%v", nerr)
	}
	// everything expected must have been seen
	if e.Withdraw {
		got := wd
		if e.MP {
			got = mpUnreach
		}
		if !zvC17PfxsEqual(got, e.Withdrawn) {
			return mis("withdrawn_routes", "withdrawn %v, want %v", got, e.Withdrawn)
		}
		if len(nlri) != 0 || haveReach || (e.MP && len(wd) != 0) {
			return mis("nlri", "a withdrawal announces prefixes")
		}
		return zvC17Verdict{}
	}
	need := []uint8{1, 2}
	if e.MP {
		need = append(need, 14)
	} else {
		need = append(need, 3)
	}
	if e.MED != 0 {
		need = append(need, 4)
	}
	if e.HasLP {
		need = append(need, 5)
	}
	if e.Atomic {
		need = append(need, 6)
	}
	if e.Aggr != nil {
		need = append(need, 7)
	}
	if len(e.Comm) > 0 {
		need = append(need, 8)
	}
	if e.HasOrig {
		need = append(need, 9)
		if len(e.Cluster) > 0 {
			need = append(need, 10)
		}
	}
	if len(e.Large) > 0 {
		need = append(need, 32)
	}
	for _, u := range e.Unknown {
		need = append(need, u.Type)
	}
	for _, t := range need {
		if !seen[t] {
			return mis(zvC17AttrName(t), "attribute type %d is missing", t)
		}
	}
	if len(wd) != 0 || len(mpUnreach) != 0 {
		return mis("withdrawn_routes", "an announcement withdraws prefixes")
	}
	got := nlri
	if e.MP {
		got = mpReach
		if len(nlri) != 0 {
			return mis("nlri", "classic NLRI in a multiprotocol update")
		}
	}
	if !zvC17PfxsEqual(got, e.NLRI) {
		return mis("nlri", "%d NLRI, want %d (or prefixes / path identifiers differ): got %.200s", len(got), len(e.NLRI), fmt.Sprint(got))
	}
	return zvC17Verdict{}
}

// --- OPEN -----------------------------------------------------------------

type zvC17Cap struct {
	Code uint8
	Val  string // hex
}

type zvC17OpenContent struct {
	Version uint8
	AS      uint16
	Hold    uint16
	ID      uint32
	Caps    []zvC17Cap
	NParams int
}

func zvC17CapsEqual(a, b []zvC17Cap) bool {
	if len(a) != len(b) {
		return false
	}
	ka, kb := make([]string, len(a)), make([]string, len(b))
	for i := range a {
		ka[i], kb[i] = fmt.Sprint(a[i]), fmt.Sprint(b[i])
	}
	sort.Strings(ka)
	sort.Strings(kb)
	return fmt.Sprint(ka) == fmt.Sprint(kb)
}

func zvC17ParseOpenRFC(msg []byte) (*zvC17OpenContent, zvC17Verdict) {
	body, v := zvC17Header(msg, 1)
	if v.bad() {
		return nil, v
	}
	if len(body) < 10 {
		return nil, zvC17Verdict{"malformed", "open", fmt.Sprintf("body of %d bytes", len(body))}
	}
	o := &zvC17OpenContent{Version: body[0], AS: uint16(zvC17Be16(body[1:])), Hold: uint16(zvC17Be16(body[3:])), ID: zvC17Be32(body[5:])}
	if int(body[9]) != len(body)-10 {
		return nil, zvC17Verdict{"malformed", "opt_params", fmt.Sprintf("optional parameter length %d, %d bytes follow", body[9], len(body)-10)}
	}
	p := body[10:]
	for len(p) > 0 {
		if len(p) < 2 || 2+int(p[1]) > len(p) {
			return nil, zvC17Verdict{"malformed", "opt_params", "parameter overruns the OPEN"}
		}
		t, val := p[0], p[2:2+int(p[1])]
		p = p[2+int(p[1]):]
		o.NParams++
		if t != 2 {
			return nil, zvC17Verdict{"malformed", "opt_params", fmt.Sprintf("parameter type %d", t)}
		}
		for len(val) > 0 {
			if len(val) < 2 || 2+int(val[1]) > len(val) {
				return nil, zvC17Verdict{"malformed", "capability", "capability overruns its parameter"}
			}
			code, cv := val[0], val[2:2+int(val[1])]
			val = val[2+int(val[1]):]
			want := -1
			switch code {
			case 1, 65:
				want = 4
			case 9:
				want = 1
			}
			if want >= 0 && len(cv) != want {
				return nil, zvC17Verdict{"malformed", "capability", fmt.Sprintf("capability %d with %d bytes", code, len(cv))}
			}
			if (code == 69 && len(cv)%4 != 0) || (code == 5 && len(cv)%6 != 0) {
				return nil, zvC17Verdict{"malformed", "capability", fmt.Sprintf("capability %d with %d bytes", code, len(cv))}
			}
			o.Caps = append(o.Caps, zvC17Cap{code, hex.EncodeToString(cv)})
		}
	}
	return o, zvC17Verdict{}
}
