package dijkstra

// C35 — the shortest-path tree is correct on every graph.
// Engine E5: bounded-exhaustive enumeration of small directed graphs (every
// ordered pair of nodes carries "no edge" or one weight of a small set), every
// source node. Reference: Bellman-Ford on a plain weight matrix, written here.
//
// Unreachable is represented by the package as Path.Distance == -1.

import (
	"fmt"
	"runtime"
	"runtime/debug"
	"testing"

	"github.com/bio-routing/bio-rd/zzverif/vh"
)

const zvC35Max = 7

// zvC35Graph: node ids 0..M-1; ids 0..Listed-1 are handed to NewTopology in the
// node list, the remaining ids only occur as edge end points. W[a][b] = -1
// means "no edge".
type zvC35Graph struct {
	M      int
	Listed int
	W      [zvC35Max][zvC35Max]int
}

type zvC35Case struct {
	Family   string   `json:"family"`
	Universe int      `json:"universe"`
	Listed   int      `json:"listed"`
	Edges    [][3]int `json:"edges"` // from, to, weight
	Src      int      `json:"source"`
}

var zvC35Nodes = func() [zvC35Max]Node {
	var n [zvC35Max]Node
	for i := range n {
		n[i] = Node{Name: fmt.Sprintf("n%d", i)}
	}
	return n
}()

func zvC35Idx(n Node) int {
	if len(n.Name) != 2 || n.Name[0] != 'n' || n.Name[1] < '0' || n.Name[1] >= '0'+zvC35Max {
		return -1
	}
	return int(n.Name[1] - '0')
}

func (g *zvC35Graph) toCase(fam string, src int) zvC35Case {
	c := zvC35Case{Family: fam, Universe: g.M, Listed: g.Listed, Src: src, Edges: [][3]int{}}
	for a := 0; a < g.M; a++ {
		for b := 0; b < g.M; b++ {
			if g.W[a][b] >= 0 {
				c.Edges = append(c.Edges, [3]int{a, b, g.W[a][b]})
			}
		}
	}
	return c
}

func zvC35FromCase(c zvC35Case) (*zvC35Graph, bool) {
	g := &zvC35Graph{M: c.Universe, Listed: c.Listed}
	if g.M < 1 || g.M > zvC35Max || g.Listed < 1 || g.Listed > g.M || c.Src < 0 || c.Src >= g.Listed {
		return nil, false
	}
	for a := range g.W {
		for b := range g.W[a] {
			g.W[a][b] = -1
		}
	}
	for _, e := range c.Edges {
		if e[0] < 0 || e[0] >= g.M || e[1] < 0 || e[1] >= g.M || e[2] < 0 {
			return nil, false
		}
		g.W[e[0]][e[1]] = e[2]
	}
	return g, true
}

// zvC35BF is the reference: Bellman-Ford over the nodes 0..lim-1 (edges that
// touch a node >= lim do not exist for it). -1 = unreachable.
func zvC35BF(g *zvC35Graph, lim, src int) [zvC35Max]int {
	d, _ := zvC35BFHops(g, lim, src)
	return d
}

// zvC35BFHops additionally returns the smallest number of edges among the
// shortest paths (only used for the coverage counter "every shortest path
// has at least four edges").
func zvC35BFHops(g *zvC35Graph, lim, src int) (d, h [zvC35Max]int) {
	for i := range d {
		d[i] = -1
	}
	d[src] = 0
	for round := 0; round <= lim; round++ {
		changed := false
		for a := 0; a < lim; a++ {
			if d[a] < 0 {
				continue
			}
			for b := 0; b < lim; b++ {
				w := g.W[a][b]
				if w < 0 {
					continue
				}
				if d[b] < 0 || d[a]+w < d[b] || (d[a]+w == d[b] && h[a]+1 < h[b]) {
					d[b] = d[a] + w
					h[b] = h[a] + 1
					changed = true
				}
			}
		}
		if !changed {
			break
		}
	}
	return d, h
}

type zvC35Stats struct {
	evals, nontrivial                                                    int
	unreachable, improved, zeroDist, unlistedEdge, selfloop, viaUnlisted int
	longPath                                                             int
	nodes                                                                []Node // scratch (NewTopology copies what it needs)
	edges                                                                []Edge
}

func (s *zvC35Stats) flush(r *vh.Run) {
	r.Eval(s.evals)
	r.Nontrivial(s.nontrivial)
	r.Count("source_with_unreachable_node", s.unreachable)
	r.Count("shortest_beats_direct_edge", s.improved)
	r.Count("zero_distance_to_other_node", s.zeroDist)
	r.Count("graph_with_edge_to_unlisted_node", s.unlistedEdge)
	r.Count("graph_with_selfloop", s.selfloop)
	r.Count("unlisted_transit_would_shorten", s.viaUnlisted)
	r.Count("every_shortest_path_has_four_or_more_edges", s.longPath)
	*s = zvC35Stats{nodes: s.nodes, edges: s.edges}
}

// zvC35One runs the real SPT for one (graph, source) and evaluates the oracle.
func zvC35One(r *vh.Run, st *zvC35Stats, fam string, g *zvC35Graph, src int) {
	st.evals++
	nodes := append(st.nodes[:0], zvC35Nodes[:g.Listed]...)
	edges := st.edges[:0]
	hasUnlisted, hasSelf := false, false
	for a := 0; a < g.M; a++ {
		for b := 0; b < g.M; b++ {
			if g.W[a][b] >= 0 {
				edges = append(edges, Edge{NodeA: zvC35Nodes[a], NodeB: zvC35Nodes[b], Distance: int64(g.W[a][b])})
				if a >= g.Listed || b >= g.Listed {
					hasUnlisted = true
				}
				if a == b {
					hasSelf = true
				}
			}
		}
	}
	st.nodes, st.edges = nodes, edges
	// reference: the graph on the listed nodes; and, where unlisted end points
	// exist, the graph that treats them as implicit nodes (both readings of
	// "edge to a node that is not in the node list" are accepted)
	dIgn, hops := zvC35BFHops(g, g.Listed, src)
	dInc := dIgn
	if hasUnlisted {
		dInc = zvC35BF(g, g.M, src)
	}
	anyUnreach, nontriv := false, false
	for n := 0; n < g.Listed; n++ {
		if dIgn[n] < 0 {
			anyUnreach = true
		}
		if n != src && dIgn[n] >= 0 {
			if w := g.W[src][n]; w >= 0 && dIgn[n] < w {
				st.improved++
				nontriv = true
			}
			if dIgn[n] == 0 {
				st.zeroDist++
			}
		}
		if dInc[n] != dIgn[n] {
			st.viaUnlisted++
		}
		if dIgn[n] >= 0 && hops[n] >= 4 {
			st.longPath++
		}
	}
	if anyUnreach {
		st.unreachable++
		nontriv = true
	}
	if hasUnlisted {
		st.unlistedEdge++
	}
	if hasSelf {
		st.selfloop++
	}
	if nontriv {
		st.nontrivial++
	}
	sig := func(clause string) map[string]string {
		return vh.Sig("clause", clause, "some_node_unreachable", fmt.Sprint(anyUnreach))
	}

	var spt SPT
	if p, what := vh.Try(func() {
		spt = NewTopology(nodes, edges).SPT(zvC35Nodes[src])
	}); p {
		r.Violation(sig("panic"), g.toCase(fam, src), "SPT(%s) panicked: %s", zvC35Nodes[src].Name, what)
		return
	}
	for n := 0; n < g.Listed; n++ {
		p, ok := spt[zvC35Nodes[n]]
		if !ok {
			r.Violation(sig("missing_entry"), g.toCase(fam, src), "SPT(%s) has no entry for listed node %s", zvC35Nodes[src].Name, zvC35Nodes[n].Name)
			continue
		}
		if p.Distance == -1 {
			if dIgn[n] >= 0 {
				r.Violation(sig("reachable_marked_unreachable"), g.toCase(fam, src), "SPT(%s)[%s].Distance = -1 (unreachable), but the node is reachable with distance %d",
					zvC35Nodes[src].Name, zvC35Nodes[n].Name, dIgn[n])
			}
			continue
		}
		if dInc[n] < 0 {
			r.Violation(sig("unreachable_marked_reachable"), g.toCase(fam, src), "SPT(%s)[%s].Distance = %d, but no path of edges leads to the node",
				zvC35Nodes[src].Name, zvC35Nodes[n].Name, p.Distance)
			continue
		}
		if !(dIgn[n] >= 0 && p.Distance == int64(dIgn[n])) && p.Distance != int64(dInc[n]) {
			r.Violation(sig("distance"), g.toCase(fam, src), "SPT(%s)[%s].Distance = %d, minimal distance is %d",
				zvC35Nodes[src].Name, zvC35Nodes[n].Name, p.Distance, dIgn[n])
			continue
		}
		// the reported path: existing edges, chained from the source to n, summing to Distance
		cur, sum, bad := src, int64(0), ""
		for i, e := range p.Edges {
			a, b := zvC35Idx(e.NodeA), zvC35Idx(e.NodeB)
			switch {
			case a < 0 || b < 0 || a >= g.M || b >= g.M:
				bad = fmt.Sprintf("edge %d (%s->%s) names an unknown node", i, e.NodeA.Name, e.NodeB.Name)
			case a != cur:
				bad = fmt.Sprintf("edge %d starts at %s, the path is at %s", i, e.NodeA.Name, zvC35Nodes[cur].Name)
			case g.W[a][b] < 0:
				bad = fmt.Sprintf("edge %d (%s->%s) does not exist", i, e.NodeA.Name, e.NodeB.Name)
			case int64(g.W[a][b]) != e.Distance:
				bad = fmt.Sprintf("edge %d (%s->%s) has weight %d, reported %d", i, e.NodeA.Name, e.NodeB.Name, g.W[a][b], e.Distance)
			}
			if bad != "" {
				break
			}
			cur = b
			sum += e.Distance
		}
		if bad == "" && cur != n {
			bad = fmt.Sprintf("path of %d edges ends at %s", len(p.Edges), zvC35Nodes[cur].Name)
		}
		if bad == "" && sum != p.Distance {
			bad = fmt.Sprintf("edge weights sum to %d, Distance is %d", sum, p.Distance)
		}
		if bad != "" {
			r.Violation(sig("path"), g.toCase(fam, src), "SPT(%s)[%s]: %s", zvC35Nodes[src].Name, zvC35Nodes[n].Name, bad)
		}
	}
}

// zvC35Family enumerates every assignment of (absent | weight in ws) to the
// given ordered pairs; all other pairs are absent. Work items (for sharding)
// are the assignments of the first `pre` pairs.
type zvC35Family struct {
	Name   string
	M      int
	Listed int
	Pairs  [][2]int
	Ws     []int // weights; digit 0 = absent, digit i = Ws[i-1]
	// Srcs: source nodes (nil = every listed node). The family of ALL graphs
	// on n nodes is closed under renaming the nodes, so every (graph, source)
	// pair is a renaming of a pair with source n0; the largest family uses
	// the first and the last node only.
	Srcs []int
}

func (f *zvC35Family) sources() []int {
	if f.Srcs != nil {
		return f.Srcs
	}
	s := make([]int, f.Listed)
	for i := range s {
		s[i] = i
	}
	return s
}

func (f *zvC35Family) size() int64 {
	n := int64(1)
	for range f.Pairs {
		n *= int64(len(f.Ws) + 1)
	}
	return n
}

func zvC35Enumerate(r *vh.Run, f *zvC35Family, item *int) (capped bool) {
	k := len(f.Ws) + 1
	pre := 3
	if len(f.Pairs) < pre {
		pre = len(f.Pairs)
	}
	nPre := 1
	for i := 0; i < pre; i++ {
		nPre *= k
	}
	var st zvC35Stats
	srcs := f.sources()
	g := &zvC35Graph{M: f.M, Listed: f.Listed}
	digits := make([]int, len(f.Pairs))
	for pi := 0; pi < nPre; pi++ {
		*item++
		if !r.Mine(*item) {
			continue
		}
		if r.OutOfBudget() {
			r.Cap("time budget: family " + f.Name + " not finished")
			return true
		}
		v := pi
		for i := 0; i < pre; i++ {
			digits[i] = v % k
			v /= k
		}
		for i := pre; i < len(digits); i++ {
			digits[i] = 0
		}
		for {
			for a := range g.W {
				for b := range g.W[a] {
					g.W[a][b] = -1
				}
			}
			for i, p := range f.Pairs {
				if digits[i] > 0 {
					g.W[p[0]][p[1]] = f.Ws[digits[i]-1]
				}
			}
			for _, src := range srcs {
				zvC35One(r, &st, f.Name, g, src)
			}
			// odometer over the suffix digits
			i := pre
			for ; i < len(digits); i++ {
				digits[i]++
				if digits[i] < k {
					break
				}
				digits[i] = 0
			}
			if i == len(digits) {
				break
			}
		}
		st.flush(r)
	}
	return false
}

func zvC35AllPairs(m int, self bool) [][2]int {
	var ps [][2]int
	for a := 0; a < m; a++ {
		for b := 0; b < m; b++ {
			if a != b || self {
				ps = append(ps, [2]int{a, b})
			}
		}
	}
	return ps
}

func zvC35Families(thorough bool) []*zvC35Family {
	ws := []int{0, 1, 3}
	wsUnl := []int{0, 1}
	wsSkel := []int{0, 2}
	if thorough {
		ws = []int{0, 1, 2, 3}
		wsUnl = []int{0, 1, 2}
		wsSkel = []int{0, 1, 2, 3}
	}
	var fs []*zvC35Family
	for n := 1; n <= 4; n++ {
		f := &zvC35Family{Name: fmt.Sprintf("all_n%d", n), M: n, Listed: n, Pairs: zvC35AllPairs(n, false), Ws: ws}
		if n == 4 {
			f.Srcs = []int{0, 3}
		}
		fs = append(fs, f)
	}
	for n := 1; n <= 3; n++ {
		fs = append(fs, &zvC35Family{Name: fmt.Sprintf("selfloops_n%d", n), M: n, Listed: n, Pairs: zvC35AllPairs(n, true), Ws: ws})
	}
	// edges to / from nodes that are not in the node list
	fs = append(fs, &zvC35Family{Name: "unlisted_2+1", M: 3, Listed: 2, Pairs: zvC35AllPairs(3, false), Ws: ws})
	fs = append(fs, &zvC35Family{Name: "unlisted_3+1", M: 4, Listed: 3, Pairs: zvC35AllPairs(4, false), Ws: wsUnl})
	// five nodes
	fs = append(fs, &zvC35Family{Name: "n5_unit_weights", M: 5, Listed: 5, Pairs: zvC35AllPairs(5, false), Ws: []int{1}})
	fs = append(fs, &zvC35Family{Name: "n5_skeleton", M: 5, Listed: 5, Ws: wsSkel,
		Pairs: [][2]int{{0, 1}, {0, 2}, {1, 2}, {2, 1}, {1, 3}, {2, 3}, {3, 4}, {2, 4}, {4, 0}, {3, 1}}})
	// seven nodes: a chain with fan-outs at depth 3 and 4 and a few shortcuts
	// (paths of four and five edges, several nodes extended from the same
	// predecessor path)
	wsDeep := []int{1}
	if thorough {
		wsDeep = []int{1, 2}
	}
	fs = append(fs, &zvC35Family{Name: "n7_deep_fanout", M: 7, Listed: 7, Ws: wsDeep,
		Pairs: [][2]int{{0, 1}, {1, 2}, {2, 3}, {3, 4}, {3, 5}, {3, 6}, {4, 5}, {4, 6}, {0, 2}, {1, 3}, {2, 5}, {0, 6}}})
	return fs
}

func TestVerifC35(t *testing.T) {
	r := vh.Start(t, "C35")
	defer r.Finish()
	r.Rule("every directed graph on n<=4 nodes with each ordered pair in {no edge} + weight set (quick {0,1,3}, thorough {0,1,2,3}); the same with self-loops for n<=3; " +
		"graphs with an extra node that is an edge end point but not in the node list; 5 nodes with every ordered pair in {no edge, 1}; 5 nodes with a 10-edge skeleton, each in {no edge}+weights; " +
		"x every listed node as source (the n=4 family of all graphs: first and last node; it is closed under renaming nodes). evaluations = (graph, source) pairs; non-trivial = some listed node is unreachable from the source, or a node's minimal distance is smaller than the weight of its direct edge from the source")
	r.Require("source_with_unreachable_node", "shortest_beats_direct_edge", "zero_distance_to_other_node", "graph_with_edge_to_unlisted_node", "graph_with_selfloop", "unlisted_transit_would_shorten", "every_shortest_path_has_four_or_more_edges")
	if r.IsReplay() {
		var c zvC35Case
		r.ReplayCase(&c)
		g, ok := zvC35FromCase(c)
		if !ok {
			r.Fatalf("replay case is not a graph of this harness: %+v", c)
		}
		var st zvC35Stats
		zvC35One(r, &st, c.Family, g, c.Src)
		st.flush(r)
		for _, k := range []string{"source_with_unreachable_node", "shortest_beats_direct_edge", "zero_distance_to_other_node", "graph_with_edge_to_unlisted_node", "graph_with_selfloop", "unlisted_transit_would_shorten", "every_shortest_path_has_four_or_more_edges"} {
			r.Count(k, 1)
		}
		return
	}
	// 16 shard processes share the machine: keep each one's GC from fanning out
	runtime.GOMAXPROCS(2)
	debug.SetGCPercent(400)
	item := 0
	total := int64(0)
	fs := zvC35Families(r.Thorough())
	for _, f := range fs {
		total += f.size() * int64(len(f.sources()))
	}
	r.Extra("graph_source_pairs_total", total)
	for _, f := range fs {
		if zvC35Enumerate(r, f, &item) {
			break
		}
	}
	g := &zvC35Graph{M: 3, Listed: 3}
	for a := range g.W {
		for b := range g.W[a] {
			g.W[a][b] = -1
		}
	}
	g.W[0][1], g.W[0][2], g.W[2][1] = 3, 1, 1
	r.Sample(g.toCase("all_n3", 0))
}
