SPECIFICATION Spec
INVARIANT TypeOK
INVARIANT AttachedIffEstablished
INVARIANT IdleClosesConnection
INVARIANT UpdatesOnlyInEstablished
CHECK_DEADLOCK FALSE
