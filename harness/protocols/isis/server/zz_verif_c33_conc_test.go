package server

// C33, concurrent part — a link state change arriving WHILE the interface's
// hello sender is at work (engine E3): the device update runs in its own
// thread, the hello timer may fire at any point (environment choice), every
// schedule up to a deviation bound. Oracle: the device update returns, and a
// following link-up makes the interface send hellos again.

import (
	"fmt"
	"strings"
	"time"

	"github.com/bio-routing/bio-rd/protocols/isis/packet"
	"github.com/bio-routing/bio-rd/zzverif/vh"
	"github.com/bio-routing/bio-rd/zzverif/vsched"
)

type zvC33ConcCase struct {
	Conc     bool     `json:"concurrent_part"`
	Scenario string   `json:"scenario"`
	Events   []string `json:"events"` // applied one after the other, each racing with the hello timer
	// Burst: the events are delivered back to back from one thread (a flapping link), nothing settles in between
	Burst bool `json:"back_to_back,omitempty"`
	Schedule []int    `json:"schedule"`
	Bound    int      `json:"deviation_bound"`
}

func zvC33ConcRun(r *vh.Run, c zvC33ConcCase, only []int) {
	var stuck, crash string
	var hellos int
	var burstSilent bool
	body := func() {
		stuck, crash, hellos, burstSilent = "", "", 0, false
		vsched.SetExploring(false)
		w := zvIsisNew(false, zvC33Ifs(c.Scenario)...)
		w.link("eth0", false)
		w.link("eth0", true)
		vsched.Advance(3 * time.Second) // the next hello is due within the horizon of the explored part
		vsched.SetExploring(true)
		if c.Burst {
			var ups []bool
			for _, e := range c.Events {
				ups = append(ups, strings.HasSuffix(e, ":up"))
			}
			k := w.linkBurst("eth0", ups)
			if w.adminErr[k] != "" {
				crash = w.adminErr[k]
				return
			}
			if p := w.pendingAdmin(); len(p) > 0 {
				stuck = fmt.Sprintf("device updates %v never return: %s", p, vsched.Describe())
				return
			}
			if ups[len(ups)-1] {
				// the link is up after the flap: hellos must flow without any further event
				vsched.SetExploring(false)
				if a := w.eth("eth0"); a != nil {
					a.take()
				}
				vsched.Advance(10 * time.Second)
				n := 0
				if a := w.eth("eth0"); a != nil && !a.closed {
					for _, s := range w.sent("eth0") {
						if s.Type == packet.P2P_HELLO {
							n++
						}
					}
				}
				if n == 0 {
					burstSilent = true
					return
				}
			}
		}
		for _, e := range c.Events {
			if c.Burst {
				break
			}
			name := "eth0"
			if strings.HasPrefix(e, "p:") {
				name = "lo0"
			}
			k := w.link(name, strings.HasSuffix(e, ":up")) // (link() settles: with AutoTimers the timer may fire anywhere in between)
			if w.adminErr[k] != "" {
				crash = w.adminErr[k]
				return
			}
			if p := w.pendingAdmin(); len(p) > 0 {
				stuck = fmt.Sprintf("device update %v never returns: %s", p, vsched.Describe())
				return
			}
		}
		vsched.SetExploring(false)
		// follow-up: the link comes up (again): hellos must flow
		w.link("eth0", false)
		if p := w.pendingAdmin(); len(p) > 0 {
			stuck = fmt.Sprintf("follow-up device update %v never returns: %s", p, vsched.Describe())
			return
		}
		if a := w.eth("eth0"); a != nil {
			a.take()
		}
		w.link("eth0", true)
		if p := w.pendingAdmin(); len(p) > 0 {
			stuck = fmt.Sprintf("follow-up device update %v never returns: %s", p, vsched.Describe())
			return
		}
		vsched.Advance(10 * time.Second)
		if a := w.eth("eth0"); a != nil && !a.closed {
			for _, s := range w.sent("eth0") {
				if s.Type == packet.P2P_HELLO {
					hellos++
				}
			}
		}
	}
	check := func(x *vsched.Execution) {
		r.Eval(1)
		r.Count("conc_executions", 1)
		cc := c
		cc.Schedule = x.Choices
		if crash != "" {
			msg, where := zvCrashSite(crash)
			r.Violation(vh.Sig("clause", "crash", "panic", msg, "where", where, "mode", "concurrent"), cc, "device update racing with the hello sender panicked: %.1000s", crash)
			return
		}
		if stuck != "" {
			r.Violation(vh.Sig("clause", "device-update-blocks", "mode", "concurrent"), cc, "%s", stuck)
			return
		}
		if burstSilent {
			r.Violation(vh.Sig("clause", "no-hello-after-flap", "mode", "concurrent"), cc, "the link flapped (%v back to back) and is up, but the interface sends no hello within 10 s", c.Events)
			return
		}
		if x.Status != vsched.Completed {
			r.Violation(vh.Sig("clause", "conc-run-"+x.Status.String(), "blocked_in", strings.Join(x.BlockedIn, ",")), cc, "link change racing with the hello sender: execution %s %s %.300s", x.Status, x.Blocked, x.Crash)
			return
		}
		r.Outcome(fmt.Sprint("conc", c.Events, hellos > 0))
		if hellos == 0 {
			r.Violation(vh.Sig("clause", "no-hello-after-up", "mode", "concurrent"), cc, "after %v raced with the hello sender, a link-down/link-up sequence does not make the interface send hellos again", c.Events)
		}
	}
	cfg := vsched.Config{MaxSteps: 400000, AutoTimers: true, Horizon: 6 * time.Second, StrictDeviations: true, Sites: true}
	if only != nil {
		cfg.Trace = true
		x := vsched.Replay(cfg, only, body)
		for _, l := range x.Log {
			fmt.Println("   ", l)
		}
		check(x)
		return
	}
	e := &vsched.Explorer{Bound: c.Bound, Body: body, Check: check, Stop: r.OutOfBudget, Cfg: cfg}
	e.Run()
	if e.Err != nil {
		r.Fatalf("concurrent scenario %+v: %v", c, e.Err)
	}
	if e.Capped {
		r.Cap("time budget (concurrent part)")
	}
	r.States(e.Executions)
	r.Transitions(e.Executions)
}

func zvC33Concurrent(r *vh.Run, idx int) {
	bound := 2
	if r.Thorough() {
		bound = 3
	}
	for _, evs := range [][]string{{"a:down"}, {"a:down", "a:up"}, {"a:down", "a:up", "a:down"}} {
		idx++
		if !r.Mine(idx) {
			continue
		}
		zvC33ConcRun(r, zvC33ConcCase{Conc: true, Scenario: "active", Events: evs, Bound: bound}, nil)
	}
	// a flapping link: the changes arrive back to back
	for _, evs := range [][]string{{"a:down", "a:up"}, {"a:down", "a:up", "a:down", "a:up"}} {
		idx++
		if !r.Mine(idx) {
			continue
		}
		zvC33ConcRun(r, zvC33ConcCase{Conc: true, Scenario: "active", Events: evs, Burst: true, Bound: bound}, nil)
	}
}
