package vh

import (
	"crypto/sha256"
	"encoding/json"
	"fmt"
)

// BFS is the explicit-state explorer for sequential APIs (engine E4).
//
// A state is the event history that reaches it. Live Go objects are never
// cloned: Step is handed a complete history, builds fresh real objects,
// replays the history on them in lock-step with the reference model, and
// returns the canonical form of the reached state, the events enabled there
// and whatever oracle failures it saw ON THE LAST EVENT (earlier events were
// checked when their own, shorter history was visited).
type BFS[E any] struct {
	R *Run
	// Step replays hist on fresh objects. canon must contain every field
	// that can influence future behaviour or the oracle. ok=false prunes
	// the state (e.g. a violation made the rest meaningless).
	Step func(hist []E) (canon string, enabled []E, ok bool)
	// MaxDepth bounds the length of histories (0 = until closure).
	MaxDepth int
	// MaxStates is a safety cap (0 = none). Hitting it is reported as a cap.
	MaxStates int
	// Label names this exploration in caps/samples.
	Label string
}

type bfsNode[E any] struct{ hist []E }

// Explore runs the search and returns (states, transitions, closed).
func (b *BFS[E]) Explore() (int, int, bool) {
	seen := map[[32]byte]struct{}{}
	c0, en0, ok := b.Step(nil)
	states, trans := 1, 0
	seen[sha256.Sum256([]byte(c0))] = struct{}{}
	closed := true
	if !ok {
		b.R.States(states)
		return states, trans, true
	}
	type item struct {
		hist    []E
		enabled []E
	}
	frontier := []item{{nil, en0}}
	maxDepth := 0
	var lastHist []E
	for len(frontier) > 0 {
		it := frontier[0]
		frontier = frontier[1:]
		if b.MaxDepth > 0 && len(it.hist) >= b.MaxDepth {
			if len(it.enabled) > 0 {
				closed = false
			}
			continue
		}
		if b.R.OutOfBudget() {
			closed = false
			b.R.Cap("time budget (BFS stopped early)")
			break
		}
		for _, e := range it.enabled {
			h := make([]E, len(it.hist)+1)
			copy(h, it.hist)
			h[len(it.hist)] = e
			canon, en, ok := b.Step(h)
			trans++
			k := sha256.Sum256([]byte(canon))
			if _, dup := seen[k]; dup {
				continue
			}
			seen[k] = struct{}{}
			states++
			if len(h) > maxDepth {
				maxDepth = len(h)
				lastHist = h
			}
			if ok {
				frontier = append(frontier, item{h, en})
			}
			if b.MaxStates > 0 && states >= b.MaxStates {
				closed = false
				b.R.Cap("state cap")
				frontier = nil
				break
			}
		}
	}
	if !closed && b.MaxDepth > 0 {
		b.R.Cap(fmt.Sprintf("depth bound %d (BFS did not close)", b.MaxDepth))
	}
	b.R.States(states)
	b.R.Transitions(trans)
	b.R.Traces(trans) // every transition is an execution of the real implementation compared with the model
	if lastHist != nil {
		j, _ := json.Marshal(lastHist)
		b.R.Sample(map[string]any{"exploration": b.Label, "deepest_history": json.RawMessage(j), "states": states, "transitions": trans, "closed": closed})
	}
	r := b.R
	r.mu.Lock()
	if d, _ := r.rep.Extra["max_depth"].(int); maxDepth > d {
		r.rep.Extra["max_depth"] = maxDepth
	}
	r.mu.Unlock()
	return states, trans, closed
}
