package locRIB

// C02 — best-path and ECMP selection do not depend on arrival order; the
// preference relation is a total preorder.
//
// Engine E5 (bounded-exhaustive enumeration), two parts in one test binary:
//
//  (a) route.Path.Select on ALL ordered pairs and ALL ordered triples of the
//      path domain D (6144 BGP paths + 2 static paths; quick tier: triples of
//      the half with next hop .1): antisymmetry, transitivity, ties only
//      between paths with the same reference key.
//  (b) the real LocRIB: for every multiset of 3 candidates of the tie-prone
//      sub-domain every insertion permutation, and for every multiset of 4
//      candidates of a smaller sub-domain every history "insert the 4 in some
//      order and remove one of them at any later point", must show the same
//      BestPath and the same ECMP set as the canonical insertion of the same
//      final candidates. Purely differential between histories.

import (
	"fmt"
	"sort"
	"strings"
	"testing"
	"time"

	"github.com/bio-routing/bio-rd/route"
	"github.com/bio-routing/bio-rd/zzverif/vh"
)

type zvC02Op struct {
	Op string `json:"op"` // add | remove
	X  int    `json:"path"`
}

type zvC02Case struct {
	Kind  string    `json:"kind"` // pair | triple | locrib
	Paths []zvSelPD `json:"paths"`
	Hist  []zvC02Op `json:"history,omitempty"`
}

// ---------------------------------------------------------------- helpers

func zvC02Types(ds ...zvSelPD) string {
	b, s := false, false
	for _, d := range ds {
		if d.Static {
			s = true
		} else {
			b = true
		}
	}
	switch {
	case b && s:
		return "bgp+static"
	case s:
		return "static"
	}
	return "bgp"
}

// some BGP candidate carries no CLUSTER_LIST while another carries a non-empty one
func zvC02MixedCL(ds ...zvSelPD) bool {
	absent, present := false, false
	for _, d := range ds {
		if d.Static {
			continue
		}
		if d.CL < 0 {
			absent = true
		} else if d.CL > 0 {
			present = true
		}
	}
	return absent && present
}

// the set of reference steps that separate the given paths pairwise
func zvC02Steps(ds ...zvSelPD) string {
	set := map[string]bool{}
	for i := range ds {
		for j := i + 1; j < len(ds); j++ {
			if ds[i].Static || ds[j].Static {
				if ds[i].Static != ds[j].Static {
					set["protocol"] = true
				} else if ds[i].NH != ds[j].NH {
					set["static_next_hop"] = true
				}
				continue
			}
			if _, st := zvSelRef(ds[i], ds[j]); st != "none" {
				set[st] = true
			}
		}
	}
	ks := make([]string, 0, len(set))
	for k := range set {
		ks = append(ks, k)
	}
	sort.Strings(ks)
	if len(ks) == 0 {
		return "none"
	}
	return strings.Join(ks, "+")
}

func zvC02Select(p, q *route.Path) (int, bool, string) {
	var v int8
	if pan, what := vh.Try(func() { v = p.Select(q) }); pan {
		return 0, true, what
	}
	return zvSelSign(v), false, ""
}

// ---------------------------------------------------------------- part (a), slow path (also replay)

// zvC02Pair evaluates the pair clauses on fresh path objects. Returns true when
// a violation was reported.
func zvC02Pair(r *vh.Run, a, b zvSelPD) bool {
	c := zvC02Case{Kind: "pair", Paths: []zvSelPD{a, b}}
	pa, pb := a.path(), b.path()
	sab, pan1, w1 := zvC02Select(pa, pb)
	sba, pan2, w2 := zvC02Select(pb, pa)
	if pan1 || pan2 {
		r.Violation(vh.Sig("clause", "select_panic", "types", zvC02Types(a, b)), c, "Select(%s, %s) panicked: %s%s", a, b, w1, w2)
		return true
	}
	bad := false
	if sab != -sba {
		r.Violation(vh.Sig("clause", "antisymmetry", "types", zvC02Types(a, b), "steps", zvC02Steps(a, b)), c,
			"a.Select(b)=%d but b.Select(a)=%d for a=%s b=%s", sab, sba, a, b)
		bad = true
	}
	if (sab == 0 || sba == 0) && a.refKey() != b.refKey() {
		r.Violation(vh.Sig("clause", "tie_between_distinguishable", "types", zvC02Types(a, b), "steps", zvC02Steps(a, b), "mixed_cluster_list_presence", fmt.Sprint(zvC02MixedCL(a, b))), c,
			"Select reports a tie (a.Select(b)=%d, b.Select(a)=%d) between paths the decision process distinguishes (step %s): a=%s b=%s", sab, sba, zvC02Steps(a, b), a, b)
		bad = true
	}
	return bad
}

// zvC02Triple evaluates transitivity for the ordered triple (a,b,c).
func zvC02Triple(r *vh.Run, a, b, c zvSelPD) bool {
	cs := zvC02Case{Kind: "triple", Paths: []zvSelPD{a, b, c}}
	pa, pb, pc := a.path(), b.path(), c.path()
	sab, p1, _ := zvC02Select(pa, pb)
	sbc, p2, _ := zvC02Select(pb, pc)
	sac, p3, _ := zvC02Select(pa, pc)
	if p1 || p2 || p3 {
		return false // reported by the pair clause
	}
	if sab < 0 || sbc < 0 {
		return false
	}
	kind := ""
	if sac < 0 {
		kind = "cycle"
	} else if sac == 0 && (sab > 0 || sbc > 0) {
		kind = "strict_link_collapses_to_tie"
	}
	if kind == "" {
		return false
	}
	r.Violation(vh.Sig("clause", "transitivity", "kind", kind, "types", zvC02Types(a, b, c), "steps", zvC02Steps(a, b, c), "mixed_cluster_list_presence", fmt.Sprint(zvC02MixedCL(a, b, c))), cs,
		"a.Select(b)=%d and b.Select(c)=%d but a.Select(c)=%d: a=%s b=%s c=%s", sab, sbc, sac, a, b, c)
	return true
}

// ---------------------------------------------------------------- part (a), matrix path

type zvC02Throttle struct {
	seen map[string]int
	max  int
}

func (t *zvC02Throttle) ok(key string) bool {
	t.seen[key]++
	return t.seen[key] <= t.max
}

func zvC02PartA(r *vh.Run, ds []zvSelPD, tri []int) {
	n := len(ds)
	ps := zvSelBuildAll(ds)
	const panicked = 9
	inTri := make([]bool, n)
	for _, x := range tri {
		inTri[x] = true
	}
	r.Extra("triple_domain_paths", len(tri))
	// sign matrix: rows of this shard (pairs) and rows of the triple domain
	cell := func(i, j int) int8 {
		if s, p, _ := zvC02Select(ps[i], ps[j]); p {
			return panicked
		} else {
			return int8(s)
		}
	}
	m := make([][]int8, n)
	for i := range m {
		if !inTri[i] && !r.Mine(i) {
			continue
		}
		m[i] = make([]int8, n)
		row := m[i]
		if pan, _ := vh.Try(func() {
			for j := 0; j < n; j++ {
				row[j] = int8(zvSelSign(ps[i].Select(ps[j])))
			}
		}); pan {
			for j := 0; j < n; j++ {
				row[j] = cell(i, j)
			}
		}
	}
	// per path small classification for cheap throttling keys
	keyIdx := map[string]int{}
	rk := make([]int, n) // index of the reference key
	for i, d := range ds {
		k := d.refKey()
		if _, ok := keyIdx[k]; !ok {
			keyIdx[k] = len(keyIdx)
		}
		rk[i] = keyIdx[k]
	}
	r.Extra("domain_paths", n)
	r.Extra("domain_reference_classes", len(keyIdx))
	th := &zvC02Throttle{seen: map[string]int{}, max: 8}
	var pairsStrict, pairsTieOK, pairsDistinct, notItemised int64
	var trPremise, trTieLink, trEval int64
	for i := 0; i < n; i++ {
		if !r.Mine(i) {
			continue
		}
		if r.OutOfBudget() {
			r.Cap("time budget: Select preorder enumeration not finished")
			break
		}
		mi := m[i]
		// pairs (i, j)
		for j := 0; j < n; j++ {
			sij := mi[j]
			var sji int8
			if m[j] != nil {
				sji = m[j][i]
			} else {
				sji = cell(j, i)
			}
			viol := sij == panicked || sji == panicked || sij != -sji || (sij == 0 && rk[i] != rk[j])
			if i != j {
				pairsDistinct++
				if sij != 0 {
					pairsStrict++
				} else if rk[i] == rk[j] {
					pairsTieOK++
				}
			}
			if viol {
				key := fmt.Sprint("pair|", sij, sji, zvC02Steps(ds[i], ds[j]), zvC02MixedCL(ds[i], ds[j]))
				if th.ok(key) {
					if !zvC02Pair(r, ds[i], ds[j]) {
						r.Fatalf("matrix and direct evaluation disagree for the pair %s / %s", ds[i], ds[j])
					}
				} else {
					notItemised++
				}
			}
		}
		// triples (i, j, k) over the index set tri
		if !inTri[i] {
			r.Eval(n)
			continue
		}
		for _, j := range tri {
			sij := mi[j]
			trEval += int64(len(tri))
			if sij < 0 || sij == panicked {
				continue
			}
			mj := m[j]
			for _, k := range tri {
				sjk := mj[k]
				if sjk < 0 || sjk == panicked {
					continue
				}
				sik := mi[k]
				if sik == panicked {
					continue
				}
				if i != j && j != k && i != k {
					trPremise++
					if sij == 0 || sjk == 0 {
						trTieLink++
					}
				}
				if sik < 0 || (sik == 0 && (sij > 0 || sjk > 0)) {
					key := fmt.Sprint("triple|", sij, sjk, sik, ds[i].Static, ds[j].Static, ds[k].Static, ds[i].CL < 0, ds[j].CL < 0, ds[k].CL < 0)
					if th.ok(key) {
						if !zvC02Triple(r, ds[i], ds[j], ds[k]) {
							r.Fatalf("matrix and direct evaluation disagree for the triple %s / %s / %s", ds[i], ds[j], ds[k])
						}
					} else {
						notItemised++
					}
				}
			}
		}
		r.Eval(n)
	}
	r.Eval(int(trEval))
	r.Nontrivial(int(pairsDistinct + trPremise))
	r.Count("pairs_strict", int(pairsStrict))
	r.Count("pairs_tie_between_indistinguishable", int(pairsTieOK))
	r.Count("triples_premise_holds", int(trPremise))
	r.Count("triples_with_tie_link", int(trTieLink))
	if notItemised > 0 {
		r.Count("violating_cases_counted_but_not_itemised", int(notItemised))
	}
}

// ---------------------------------------------------------------- part (b)

// zvC02KeyOf reads the reference key back from a path object returned by the
// LocRIB (public fields only).
var zvC02KeyCache = map[*route.Path]string{}

func zvC02KeyOf(p *route.Path) string {
	if p == nil {
		return "nil"
	}
	if k, ok := zvC02KeyCache[p]; ok { // the harness's own objects: attributes never change
		return k
	}
	return zvC02KeyOfSlow(p)
}

func zvC02Build(ds []zvSelPD) []*route.Path {
	ps := zvSelBuildAll(ds)
	for _, p := range ps {
		zvC02KeyCache[p] = zvC02KeyOfSlow(p)
	}
	return ps
}

func zvC02KeyOfSlow(p *route.Path) string {
	switch p.Type {
	case route.StaticPathType:
		if p.StaticPath == nil || p.StaticPath.NextHop == nil {
			return "S/?"
		}
		b := p.StaticPath.NextHop.Bytes()
		return fmt.Sprintf("S/%d", b[len(b)-1])
	case route.BGPPathType:
		bp := p.BGPPath
		if bp == nil || bp.BGPPathA == nil {
			return "B/?"
		}
		a := bp.BGPPathA
		id := a.BGPIdentifier
		if a.OriginatorID != 0 {
			id = a.OriginatorID
		}
		cl := 0
		if bp.ClusterList != nil {
			cl = len(*bp.ClusterList)
		}
		src := a.Source.Bytes()
		return fmt.Sprintf("B/%d/%d/%d/%d/%v/%d/%d/%d", a.LocalPref, bp.ASPathLen, a.Origin, a.MED, a.EBGP, id, cl, src[len(src)-1])
	}
	return fmt.Sprintf("type%d", p.Type)
}

type zvC02Obs struct {
	best   string
	ecmp   string
	necmp  int
	err    string // panic text
	failOp string
}

func (o zvC02Obs) String() string { return "best=" + o.best + " ecmp={" + o.ecmp + "}" }

// zvC02Run executes a history on a fresh LocRIB and observes BestPath and the
// ECMP set through the public API.
func zvC02Run(paths []*route.Path, hist []zvC02Op) zvC02Obs {
	var o zvC02Obs
	op := "New"
	if pan, what := vh.Try(func() {
		rib := New("zvC02")
		for _, h := range hist {
			if h.Op == "add" {
				op = "AddPath"
				rib.AddPath(zvSelPfx, paths[h.X])
			} else {
				op = "RemovePath"
				rib.RemovePath(zvSelPfx, paths[h.X])
			}
		}
		op = "Get"
		rt := rib.Get(zvSelPfx)
		o.best = zvC02KeyOf(rt.BestPath())
		e := rt.ECMPPaths()
		ks := make([]string, len(e))
		for i := range e {
			ks[i] = zvC02KeyOf(e[i])
		}
		sort.Strings(ks)
		o.ecmp = strings.Join(ks, " ")
		o.necmp = len(e)
	}); pan {
		o.err, o.failOp = what, op
	}
	return o
}

func zvC02HistKind(h []zvC02Op) string {
	for _, o := range h {
		if o.Op != "add" {
			return "with_removal"
		}
	}
	return "insert_only"
}

func zvC02Final(ds []zvSelPD, hist []zvC02Op) (final []zvSelPD, canon []zvC02Op) {
	removed := map[int]bool{}
	for _, h := range hist {
		if h.Op == "remove" {
			removed[h.X] = true
		}
	}
	for i := range ds {
		if !removed[i] {
			final = append(final, ds[i])
			canon = append(canon, zvC02Op{"add", i})
		}
	}
	return
}

// zvC02Compare reports a violation when the history's observation differs from
// the canonical one. ds are the candidates in canonical (domain) order.
func zvC02Compare(r *vh.Run, ds []zvSelPD, hist []zvC02Op, ref, got zvC02Obs) {
	if got.err == "" && (ref.err != "" || (got.best == ref.best && got.ecmp == ref.ecmp)) {
		return // same observation (a panic of the canonical history is reported for that history itself)
	}
	final, canon := zvC02Final(ds, hist)
	c := zvC02Case{Kind: "locrib", Paths: ds, Hist: hist}
	// the deciding steps are part of the pair/triple signatures; here only what separates root causes at the LocRIB level
	base := []string{"history", zvC02HistKind(hist), "types", zvC02Types(final...), "mixed_cluster_list_presence", fmt.Sprint(zvC02MixedCL(final...))}
	if got.err != "" {
		r.Violation(vh.Sig("clause", "locrib_panic", "op", got.failOp, "types", zvC02Types(ds...)), c, "LocRIB.%s panicked during history %v on candidates %v: %s", got.failOp, hist, ds, got.err)
		return
	}
	if got.best != ref.best {
		r.Violation(vh.Sig(append([]string{"clause", "locrib_best_depends_on_history"}, base...)...), c,
			"BestPath after history %v is %s, but after inserting the same final candidates in order %v it is %s; candidates %v", hist, got.best, canon, ref.best, ds)
	}
	if got.ecmp != ref.ecmp {
		r.Violation(vh.Sig(append([]string{"clause", "locrib_ecmp_depends_on_history"}, base...)...), c,
			"ECMP set after history %v is {%s}, but after inserting the same final candidates in order %v it is {%s}; candidates %v", hist, got.ecmp, canon, ref.ecmp, ds)
	}
}

var zvC02Perm3 = [][]int{{0, 1, 2}, {0, 2, 1}, {1, 0, 2}, {1, 2, 0}, {2, 0, 1}, {2, 1, 0}}

func zvC02Perms(n int) [][]int {
	var out [][]int
	var rec func(cur []int, used int)
	rec = func(cur []int, used int) {
		if len(cur) == n {
			out = append(out, append([]int(nil), cur...))
			return
		}
		for i := 0; i < n; i++ {
			if used&(1<<i) == 0 {
				rec(append(cur, i), used|1<<i)
			}
		}
	}
	rec(nil, 0)
	return out
}

// all histories "insert the 4 in some order, remove one of them at any point
// after its own insertion"
func zvC02Hist4() [][]zvC02Op {
	var out [][]zvC02Op
	for _, p := range zvC02Perms(4) {
		for x := 0; x < 4; x++ {
			pos := 0
			for i, v := range p {
				if v == x {
					pos = i
				}
			}
			for at := pos; at < 4; at++ { // removal placed directly after insertion number `at`
				var h []zvC02Op
				for i, v := range p {
					h = append(h, zvC02Op{"add", v})
					if i == at {
						h = append(h, zvC02Op{"remove", x})
					}
				}
				out = append(out, h)
			}
		}
	}
	return out
}

type zvC02BStats struct {
	hist, nontrivial                                                     int64
	lastStep, ecmpGT1, ecmpLTAll, mixedProto, removeBest, clMixed, twins int64
}

func zvC02Coverage(st *zvC02BStats, final []zvSelPD, ref zvC02Obs) {
	if ref.err != "" {
		return
	}
	if ref.necmp > 1 {
		st.ecmpGT1++
	}
	if ref.necmp < len(final) {
		st.ecmpLTAll++
	}
	if zvC02Types(final...) == "bgp+static" {
		st.mixedProto++
	}
	if zvC02MixedCL(final...) {
		st.clMixed++
	}
	// is the winner decided only at the cluster-list or peer-address step against some rival?
	for _, d := range final {
		if d.refKey() != ref.best || d.Static {
			continue
		}
		for _, e := range final {
			if e.Static {
				continue
			}
			if _, s := zvSelRef(d, e); s == "cluster_list" || s == "peer_address" {
				st.lastStep++
				return
			}
		}
		return
	}
}

func zvC02PartB(r *vh.Run, d3, d4 []zvSelPD) {
	var st zvC02BStats
	p3 := zvC02Build(d3)
	// duplicates inside a multiset need distinct objects: second and third copy
	p3b, p3c := zvC02Build(d3), zvC02Build(d3)
	idx := 0
	n := len(d3)
	hist3 := make([][]zvC02Op, len(zvC02Perm3))
	for i, p := range zvC02Perm3 {
		hist3[i] = []zvC02Op{{"add", p[0]}, {"add", p[1]}, {"add", p[2]}}
	}
	// pairs BGP + static and all other pairs: both orders
	hist2 := [][]zvC02Op{{{"add", 0}, {"add", 1}}, {{"add", 1}, {"add", 0}}}
	capped := false
outer3:
	for i := 0; i < n; i++ {
		for j := i; j < n; j++ {
			idx++
			if !r.Mine(idx) {
				continue
			}
			if r.OutOfBudget() {
				capped = true
				break outer3
			}
			// pair {i,j}
			{
				ds := []zvSelPD{d3[i], d3[j]}
				ps := []*route.Path{p3[i], p3b[j]}
				ref := zvC02Run(ps, hist2[0])
				zvC02Coverage(&st, ds, ref)
				r.Outcome(ref.String())
				for hi, h := range hist2 {
					got := ref
					if hi > 0 {
						got = zvC02Run(ps, h)
					}
					st.hist++
					if ds[0].refKey() != ds[1].refKey() {
						st.nontrivial++
					}
					zvC02Compare(r, ds, h, ref, got)
				}
			}
			for k := j; k < n; k++ {
				ds := []zvSelPD{d3[i], d3[j], d3[k]}
				ps := []*route.Path{p3[i], p3b[j], p3c[k]}
				ref := zvC02Run(ps, hist3[0])
				zvC02Coverage(&st, ds, ref)
				r.Outcome(ref.String())
				nt := ds[0].refKey() != ds[1].refKey() || ds[1].refKey() != ds[2].refKey()
				for hi, h := range hist3 {
					got := ref
					if hi > 0 {
						got = zvC02Run(ps, h)
					}
					st.hist++
					if nt {
						st.nontrivial++
					}
					zvC02Compare(r, ds, h, ref, got)
				}
			}
		}
	}
	// 4 candidates, one removed
	h4 := zvC02Hist4()
	r.Extra("histories_per_4_multiset", len(h4))
	p4 := [][]*route.Path{zvC02Build(d4), zvC02Build(d4), zvC02Build(d4), zvC02Build(d4)}
	h4x := make([]int, len(h4)) // the removed element of each history
	for i, h := range h4 {
		for _, o := range h {
			if o.Op == "remove" {
				h4x[i] = o.X
			}
		}
	}
	n4 := len(d4)
outer4:
	for a := 0; a < n4 && !capped; a++ {
		for b := a; b < n4; b++ {
			idx++
			if !r.Mine(idx) {
				continue
			}
			if r.OutOfBudget() {
				capped = true
				break outer4
			}
			for c := b; c < n4; c++ {
				for d := c; d < n4; d++ {
					ds := []zvSelPD{d4[a], d4[b], d4[c], d4[d]}
					ps := []*route.Path{p4[0][a], p4[1][b], p4[2][c], p4[3][d]}
					// canonical observation per removed element
					var refs [4]zvC02Obs
					var finals [4][]zvSelPD
					full := zvC02Run(ps, []zvC02Op{{"add", 0}, {"add", 1}, {"add", 2}, {"add", 3}})
					for x := 0; x < 4; x++ {
						f, canon := zvC02Final(ds, []zvC02Op{{"remove", x}})
						finals[x] = f
						refs[x] = zvC02Run(ps, canon)
						zvC02Coverage(&st, f, refs[x])
						if full.err == "" && ds[x].refKey() == full.best {
							st.removeBest++
						}
					}
					var nt [4]bool
					for x := 0; x < 4; x++ {
						f := finals[x]
						nt[x] = f[0].refKey() != f[1].refKey() || f[1].refKey() != f[2].refKey()
					}
					for hi, h := range h4 {
						x := h4x[hi]
						got := zvC02Run(ps, h)
						st.hist++
						if nt[x] {
							st.nontrivial++
						}
						zvC02Compare(r, ds, h, refs[x], got)
					}
				}
			}
		}
	}
	if capped {
		r.Cap("time budget: LocRIB history enumeration not finished")
	}
	r.Eval(int(st.hist))
	r.Nontrivial(int(st.nontrivial))
	r.Count("locrib_histories", int(st.hist))
	r.Count("locrib_best_decided_at_cluster_list_or_peer_step", int(st.lastStep))
	r.Count("locrib_ecmp_set_larger_than_1", int(st.ecmpGT1))
	r.Count("locrib_ecmp_set_smaller_than_candidates", int(st.ecmpLTAll))
	r.Count("locrib_bgp_and_static_candidates", int(st.mixedProto))
	r.Count("locrib_cluster_list_absent_and_nonempty", int(st.clMixed))
	r.Count("locrib_removed_path_was_best", int(st.removeBest))
}

// ---------------------------------------------------------------- sub-domains

func zvC02Domains(thorough bool) (d3, d4 []zvSelPD) {
	// tie-prone: everything up to the eBGP step fixed (MED two-valued so that
	// ECMP sets smaller than the candidate set occur), the late steps two- to
	// four-valued.
	s3 := zvSelDomSpec{LP: []int{100}, ASLen: []int{1}, Origin: []int{0}, MED: []int{0, 10}, EBGP: []bool{false},
		ID: []uint32{1, 2}, Orig: []uint32{0, 1, 3}, CL: []int{-1, 0, 1, 2}, Peer: []uint8{1, 2}, NH: []uint8{1}}
	s4 := zvSelDomSpec{LP: []int{100}, ASLen: []int{1}, Origin: []int{0}, MED: []int{0}, EBGP: []bool{false},
		ID: []uint32{1, 2}, Orig: []uint32{0}, CL: []int{-1, 1, 2}, Peer: []uint8{1, 2}, NH: []uint8{1}}
	var extra4 []zvSelPD
	if thorough {
		s3.LP = []int{100, 200}
		s3.EBGP = []bool{false, true}
		s4.Orig = []uint32{0, 3}
		s4.CL = []int{-1, 0, 1, 2}
		extra4 = append(extra4, zvSelPD{LP: 100, ASLen: 1, ID: 2, Orig: 1, CL: -1, Peer: 1, NH: 1}, zvSelPD{LP: 100, ASLen: 1, ID: 2, Orig: 1, CL: 1, Peer: 2, NH: 1})
	} else {
		// ORIGINATOR_ID substitution and an empty CLUSTER_LIST, a few representatives
		for _, cl := range []int{-1, 1} {
			for _, pe := range []uint8{1, 2} {
				extra4 = append(extra4, zvSelPD{LP: 100, ASLen: 1, ID: 1, Orig: 3, CL: cl, Peer: pe, NH: 1})
			}
		}
		extra4 = append(extra4, zvSelPD{LP: 100, ASLen: 1, ID: 1, CL: 0, Peer: 1, NH: 1})
	}
	d3 = s3.enumerate()
	// two candidates that differ from an existing one only in the next hop (same reference class)
	d3 = append(d3, zvSelPD{LP: 100, ASLen: 1, ID: 1, CL: -1, Peer: 1, NH: 2}, zvSelPD{LP: 100, ASLen: 1, ID: 2, Orig: 3, CL: 1, Peer: 2, NH: 2})
	// paths from a second neighbour AS, both MED values (MED is compared across neighbour ASes)
	for _, med := range []uint32{0, 10} {
		for _, pe := range []uint8{1, 2} {
			d3 = append(d3, zvSelPD{LP: 100, ASLen: 1, NAS: 1, MED: med, ID: 1, CL: -1, Peer: pe, NH: 1})
		}
	}
	d3 = append(d3, zvSelStatics...)
	d4 = append(s4.enumerate(), extra4...)
	// one path that is not ECMP-equal to the rest, one static path
	d4 = append(d4, zvSelPD{LP: 100, ASLen: 1, MED: 10, ID: 1, CL: -1, Peer: 1, NH: 1}, zvSelStatics[0])
	return
}

// ---------------------------------------------------------------- entry

func TestVerifC02(t *testing.T) {
	r := vh.Start(t, "C02")
	defer r.Finish()
	zvSelQuiet()
	r.Rule("(a) route.Path.Select on every ordered pair of D = LOCAL_PREF{100,200} x AS_PATH len{1,2} x neighbour AS{65000,65100} x ORIGIN{0,1} x MED{0,10} x eBGP{f,t} x BGP-ID{1,2} x ORIGINATOR_ID{absent,1,3} " +
		"x CLUSTER_LIST{absent,empty,1,2 entries} x peer{.1,.2} x next hop{.1,.2} (6144 BGP paths) + 2 static paths: antisymmetry, ties only inside one reference class; transitivity on every ordered triple of D (thorough) / of the 3074 paths of D with next hop .1 (quick); " +
		"(b) real LocRIB: every multiset of 2 and 3 candidates of the tie-prone sub-domain x every insertion order, every multiset of 4 candidates of the smaller sub-domain x every history " +
		"(insertion order x removed element x removal point), BestPath and ECMP set compared with the canonical insertion of the same final candidates; " +
		"(c) removal identity: base path and a twin differing in one attribute the decision process ignores (13 attributes x 3 base paths), alone or with a strictly better / worse third candidate: every arrival order x removed twin x removal point, stored candidates and BestPath compared with inserting the remaining ones; " +
		"evaluations = pairs + triples + LocRIB histories; non-trivial = pairs of different paths + triples of different paths whose premise a>=b>=c holds + histories whose final candidates are not all in one reference class")
	r.Require("pairs_strict", "pairs_tie_between_indistinguishable", "triples_premise_holds", "triples_with_tie_link",
		"locrib_histories", "locrib_best_decided_at_cluster_list_or_peer_step", "locrib_ecmp_set_larger_than_1", "locrib_ecmp_set_smaller_than_candidates",
		"locrib_bgp_and_static_candidates", "locrib_cluster_list_absent_and_nonempty", "locrib_removed_path_was_best", "ident_histories")
	if r.IsReplay() {
		var c zvC02Case
		r.ReplayCase(&c)
		switch c.Kind {
		case "pair":
			if len(c.Paths) != 2 {
				r.Fatalf("bad replay case")
			}
			zvC02Pair(r, c.Paths[0], c.Paths[1])
		case "triple":
			if len(c.Paths) != 3 {
				r.Fatalf("bad replay case")
			}
			zvC02Triple(r, c.Paths[0], c.Paths[1], c.Paths[2])
		case "ident":
			var ic zvC02IdentCase
			r.ReplayCase(&ic)
			zvC02IdentOne(r, ic)
		case "locrib":
			ps := zvSelBuildAll(c.Paths)
			_, canon := zvC02Final(c.Paths, c.Hist)
			ref := zvC02Run(ps, canon)
			got := zvC02Run(ps, c.Hist)
			zvC02Compare(r, c.Paths, c.Hist, ref, got)
		default:
			r.Fatalf("unknown replay kind %q", c.Kind)
		}
		for _, k := range []string{"pairs_strict", "pairs_tie_between_indistinguishable", "triples_premise_holds", "triples_with_tie_link",
			"locrib_histories", "locrib_best_decided_at_cluster_list_or_peer_step", "locrib_ecmp_set_larger_than_1", "locrib_ecmp_set_smaller_than_candidates",
			"locrib_bgp_and_static_candidates", "locrib_cluster_list_absent_and_nonempty", "locrib_removed_path_was_best", "ident_histories"} {
			r.Count(k, 1)
		}
		return
	}
	full := append(zvSelFull.enumerate(), zvSelStatics...)
	// triples: the whole domain in the thorough tier, the half with next hop .1 in the quick tier
	var tri []int
	for i, d := range full {
		if r.Thorough() || d.NH == 1 || d.Static {
			tri = append(tri, i)
		}
	}
	t0, c0 := time.Now(), zvSelCPU()
	zvC02PartA(r, full, tri)
	r.Extra("part_a_max_shard_s", time.Since(t0).Seconds()) // reporting only
	r.Extra("part_a_max_shard_cpu_s", zvSelCPU()-c0)
	d3, d4 := zvC02Domains(r.Thorough())
	r.Extra("locrib_domain_3", len(d3))
	r.Extra("locrib_domain_4", len(d4))
	t0, c0 = time.Now(), zvSelCPU()
	zvC02PartB(r, d3, d4)
	r.Extra("part_b_max_shard_s", time.Since(t0).Seconds())
	r.Extra("part_b_max_shard_cpu_s", zvSelCPU()-c0)
	zvC02PartC(r)
	r.Sample(zvC02Case{Kind: "triple", Paths: []zvSelPD{full[5], full[77], full[1301]}})
	r.Sample(zvC02Case{Kind: "locrib", Paths: []zvSelPD{d3[0], d3[9], d3[20]}, Hist: []zvC02Op{{"add", 2}, {"add", 0}, {"add", 1}}})
}
