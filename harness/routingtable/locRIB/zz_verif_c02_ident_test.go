package locRIB

// C02, part (c) — "... or other paths were removed": candidates the decision process cannot tell apart are still
// different paths. When one of two such candidates is removed, the other one must be what remains (and what is
// selected), whatever the order of arrival and wherever a third, strictly better or strictly worse candidate arrived.
// The twin differs from the base path in exactly one attribute the decision process does not look at.

import (
	"fmt"
	"sort"
	"strings"

	"github.com/bio-routing/bio-rd/protocols/bgp/types"
	"github.com/bio-routing/bio-rd/route"
	"github.com/bio-routing/bio-rd/zzverif/vh"
)

var zvC02IdentVars = []string{"communities_content", "communities_presence", "large_communities_content", "large_communities_presence",
	"as_path_content", "next_hop", "path_identifier", "unknown_attribute_content", "unknown_attribute_presence", "cluster_list_content",
	"atomic_aggregate", "aggregator_presence", "aggregator_content"}

type zvC02IdentCase struct {
	Kind  string    `json:"kind"` // ident
	Base  zvSelPD   `json:"base"`
	Var   string    `json:"twin_differs_in"`
	Third *zvSelPD  `json:"third,omitempty"`
	Hist  []zvC02Op `json:"history"` // indices: 0 base, 1 twin, 2 third
}

// zvC02Twin builds base and twin as fresh real paths.
func zvC02Twin(d zvSelPD, v string) (*route.Path, *route.Path) {
	a, b := d.path(), d.path()
	switch v {
	case "communities_content":
		a.BGPPath.Communities = &types.Communities{65000<<16 | 1}
		b.BGPPath.Communities = &types.Communities{65000<<16 | 2}
	case "communities_presence":
		b.BGPPath.Communities = &types.Communities{65000<<16 | 1}
	case "large_communities_content":
		a.BGPPath.LargeCommunities = &types.LargeCommunities{{GlobalAdministrator: 65000, DataPart1: 1, DataPart2: 1}}
		b.BGPPath.LargeCommunities = &types.LargeCommunities{{GlobalAdministrator: 65000, DataPart1: 1, DataPart2: 2}}
	case "large_communities_presence":
		b.BGPPath.LargeCommunities = &types.LargeCommunities{{GlobalAdministrator: 65000, DataPart1: 1, DataPart2: 1}}
	case "as_path_content": // same length, same neighbour AS, different origin AS
		asns := []uint32{}
		for _, s := range *a.BGPPath.ASPath {
			asns = append(asns, s.ASNs...)
		}
		asns = append([]uint32{}, asns...)
		asns[len(asns)-1] += 7
		asp := types.NewASPath(asns)
		b.BGPPath.ASPath = asp
		b.BGPPath.ASPathLen = asp.Length()
	case "next_hop":
		nh := d
		nh.NH = d.NH + 1
		b = nh.path()
	case "path_identifier":
		a.BGPPath.PathIdentifier = 1
		b.BGPPath.PathIdentifier = 2
	case "unknown_attribute_content":
		a.BGPPath.UnknownAttributes = []types.UnknownPathAttribute{{Optional: true, Transitive: true, TypeCode: 200, Value: []byte{1}}}
		b.BGPPath.UnknownAttributes = []types.UnknownPathAttribute{{Optional: true, Transitive: true, TypeCode: 200, Value: []byte{2}}}
	case "unknown_attribute_presence":
		b.BGPPath.UnknownAttributes = []types.UnknownPathAttribute{{Optional: true, Transitive: true, TypeCode: 200, Value: []byte{1}}}
	case "cluster_list_content":
		if b.BGPPath.ClusterList != nil && len(*b.BGPPath.ClusterList) > 0 {
			cl := append(types.ClusterList{}, *b.BGPPath.ClusterList...)
			cl[len(cl)-1] += 0x100
			b.BGPPath.ClusterList = &cl
		} else {
			return nil, nil
		}
	case "atomic_aggregate":
		b.BGPPath.BGPPathA.AtomicAggregate = true
	case "aggregator_presence":
		b.BGPPath.BGPPathA.Aggregator = &types.Aggregator{ASN: 65000, Address: 0x0a000001}
	case "aggregator_content":
		a.BGPPath.BGPPathA.Aggregator = &types.Aggregator{ASN: 65000, Address: 0x0a000001}
		b.BGPPath.BGPPathA.Aggregator = &types.Aggregator{ASN: 65000, Address: 0x0a000002}
	default:
		panic("unknown variation " + v)
	}
	return a, b
}

// zvC02Ident is the full identity of a stored path (everything a twin may differ in, plus the decision key).
func zvC02Ident(p *route.Path) string {
	if p == nil {
		return "nil"
	}
	if p.Type != route.BGPPathType || p.BGPPath == nil || p.BGPPath.BGPPathA == nil {
		return zvC02KeyOfSlow(p)
	}
	b := p.BGPPath
	var sb strings.Builder
	sb.WriteString(zvC02KeyOfSlow(p))
	fmt.Fprintf(&sb, " id=%d nh=%s aspath=%v atomic=%v", b.PathIdentifier, b.BGPPathA.NextHop.String(), b.ASPath.String(), b.BGPPathA.AtomicAggregate)
	if b.BGPPathA.Aggregator != nil {
		fmt.Fprintf(&sb, " aggr=%d/%d", b.BGPPathA.Aggregator.ASN, b.BGPPathA.Aggregator.Address)
	}
	if b.Communities != nil {
		fmt.Fprintf(&sb, " comm=%v", []uint32(*b.Communities))
	}
	if b.LargeCommunities != nil {
		fmt.Fprintf(&sb, " lcomm=%v", *b.LargeCommunities)
	}
	if b.ClusterList != nil {
		fmt.Fprintf(&sb, " cl=%v", []uint32(*b.ClusterList))
	}
	for _, u := range b.UnknownAttributes {
		fmt.Fprintf(&sb, " unk%d=%v", u.TypeCode, u.Value)
	}
	return sb.String()
}

type zvC02IdentObs struct {
	best, stored, err string
}

func zvC02IdentRun(paths []*route.Path, hist []zvC02Op) zvC02IdentObs {
	var o zvC02IdentObs
	if pan, what := vh.Try(func() {
		rib := New("zvC02i")
		for _, h := range hist {
			if h.Op == "add" {
				rib.AddPath(zvSelPfx, paths[h.X])
			} else {
				rib.RemovePath(zvSelPfx, paths[h.X])
			}
		}
		rt := rib.Get(zvSelPfx)
		o.best = zvC02Ident(rt.BestPath())
		ks := []string{}
		for _, p := range rt.Paths() {
			ks = append(ks, zvC02Ident(p))
		}
		sort.Strings(ks)
		o.stored = strings.Join(ks, " | ")
	}); pan {
		o.err = what
	}
	return o
}

func zvC02IdentOne(r *vh.Run, c zvC02IdentCase) {
	a, b := zvC02Twin(c.Base, c.Var)
	if a == nil {
		return
	}
	paths := []*route.Path{a, b}
	if c.Third != nil {
		paths = append(paths, c.Third.path())
	}
	removed := -1
	for _, h := range c.Hist {
		if h.Op == "remove" {
			removed = h.X
		}
	}
	var canon []zvC02Op
	for i := range paths {
		if i != removed {
			canon = append(canon, zvC02Op{"add", i})
		}
	}
	r.Eval(1)
	r.Nontrivial(1)
	r.Count("ident_histories", 1)
	ref := zvC02IdentRun(paths, canon)
	got := zvC02IdentRun(paths, c.Hist)
	third := "none"
	if c.Third != nil {
		third = "present"
	}
	sig := func(cl string) map[string]string {
		return vh.Sig("clause", cl, "twin_differs_in", c.Var, "third", third)
	}
	switch {
	case got.err != "":
		r.Violation(sig("ident_panic"), c, "LocRIB panicked during history %v: %s", c.Hist, got.err)
	case ref.err != "":
		r.Violation(sig("ident_panic"), c, "LocRIB panicked during history %v: %s", canon, ref.err)
	case got.stored != ref.stored:
		r.Violation(sig("wrong_candidate_removed"), c, "after history %v the Loc-RIB holds {%s}; the candidates that were not removed are {%s}", c.Hist, got.stored, ref.stored)
	case got.best != ref.best:
		r.Violation(sig("locrib_best_depends_on_history"), c, "BestPath after history %v is %s, after inserting the remaining candidates %v it is %s", c.Hist, got.best, canon, ref.best)
	}
	if removed == 0 {
		r.Count("ident_removed_first_arrived_or_base", 1)
	}
}

// zvC02IdentHists: every arrival order of n candidates x which twin is removed x every removal point after both twins
// have arrived.
func zvC02IdentHists(n int) [][]zvC02Op {
	var out [][]zvC02Op
	for _, perm := range zvC02Perms(n) {
		for rm := 0; rm < 2; rm++ {
			seen := 0
			for at := 0; at < n; at++ {
				if perm[at] < 2 {
					seen++
				}
				if seen < 2 {
					continue
				}
				var h []zvC02Op
				for i, x := range perm {
					h = append(h, zvC02Op{"add", x})
					if i == at {
						h = append(h, zvC02Op{"remove", rm})
					}
				}
				out = append(out, h)
			}
		}
	}
	return out
}

func zvC02PartC(r *vh.Run) {
	bases := []zvSelPD{
		{LP: 100, ASLen: 2, Origin: 0, MED: 0, EBGP: true, ID: 1, CL: -1, Peer: 1, NH: 1},
		{LP: 100, ASLen: 2, Origin: 0, MED: 0, EBGP: false, ID: 1, Orig: 3, CL: 1, Peer: 1, NH: 1},
		{LP: 200, ASLen: 1, Origin: 1, MED: 10, EBGP: false, ID: 2, CL: 2, Peer: 2, NH: 1},
	}
	better := zvSelPD{LP: 300, ASLen: 1, Origin: 0, MED: 0, EBGP: true, ID: 1, CL: -1, Peer: 3, NH: 3}
	worse := zvSelPD{LP: 50, ASLen: 2, Origin: 1, MED: 10, EBGP: false, ID: 2, CL: -1, Peer: 3, NH: 3}
	h2, h3 := zvC02IdentHists(2), zvC02IdentHists(3)
	idx := 0
	for _, base := range bases {
		for _, v := range zvC02IdentVars {
			idx++
			if !r.Mine(idx) {
				continue
			}
			if base.ASLen < 2 && v == "as_path_content" {
				continue // the only AS of the path is the neighbour AS, which the decision process may look at
			}
			for _, h := range h2 {
				zvC02IdentOne(r, zvC02IdentCase{Kind: "ident", Base: base, Var: v, Hist: h})
			}
			for _, th := range []zvSelPD{better, worse} {
				th := th
				for _, h := range h3 {
					zvC02IdentOne(r, zvC02IdentCase{Kind: "ident", Base: base, Var: v, Third: &th, Hist: h})
				}
			}
		}
	}
}
