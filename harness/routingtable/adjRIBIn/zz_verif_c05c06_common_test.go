package adjRIBIn

// Shared machinery of the C05 and C06 checks (engine E4, explicit-state BFS).
//
// Real objects: one AdjRIBIn built the way protocols/bgp/server/fsm_address_family.go
// builds it (adjRIBIn.New(importChain, vrf, sessionAttrs); the VRF gets the
// contributing ASNs / cluster IDs through its public refcounter API), a real
// locRIB.LocRIB that also holds paths of a different source, and (C06) a
// recording RouteTableClient. Every Step builds fresh objects, replays the
// history in lock-step with a hand-written reference (plain maps) and evaluates
// the oracle after the last event.
//
// The reference never calls the repo's filter / validation code: eligibility and
// the effect of every import policy are written out below.

import (
	"fmt"
	"sort"
	"strings"

	bnet "github.com/bio-routing/bio-rd/net"
	"github.com/bio-routing/bio-rd/protocols/bgp/packet"
	"github.com/bio-routing/bio-rd/protocols/bgp/types"
	"github.com/bio-routing/bio-rd/route"
	"github.com/bio-routing/bio-rd/routingtable"
	"github.com/bio-routing/bio-rd/routingtable/filter"
	"github.com/bio-routing/bio-rd/routingtable/filter/actions"
	"github.com/bio-routing/bio-rd/routingtable/locRIB"
	"github.com/bio-routing/bio-rd/routingtable/vrf"
	"github.com/bio-routing/bio-rd/zzverif/vh"
)

const (
	zvLocalASN   = uint32(65000) // local AS of the session under test
	zvSecondASN  = uint32(65001) // local AS of another session in the same VRF
	zvGoneASN    = uint32(65002) // was a local AS of a session that has gone away again
	zvEBGPPeerAS = uint32(64512)
	zvPrependASN = uint32(64999)
	zvRouterID   = uint32(0x0aff0001) // 10.255.0.1
	zvClusterID  = uint32(0x0aff0009) // local cluster ID (contributed by an RR-client session)
	zvOtherCID   = uint32(0x0aff0008)
	zvGoneCID    = uint32(0x0aff0007) // contributed and removed again
	zvOtherRID   = uint32(0x0aff0002)
	zvPeerIPStr  = "192.0.2.1"
	zvForeignSrc = "192.0.2.77"
	zvPolicyNH   = uint8(99)
)

func zvNHStr(o uint8) string { return fmt.Sprintf("10.9.9.%d", o) }

// prefixes: P2 is nested in P1 (exact-match policy must not catch it), P3 is a
// sibling of P2 (forces a dummy trie node above them).
var zvPfxStr = []string{"10.0.0.0/8", "10.1.0.0/16", "10.0.0.0/16"}

func zvPfxReal(i int) *bnet.Prefix {
	switch i {
	case 0:
		return bnet.NewPfx(bnet.IPv4FromOctets(10, 0, 0, 0), 8).Ptr()
	case 1:
		return bnet.NewPfx(bnet.IPv4FromOctets(10, 1, 0, 0), 16).Ptr()
	}
	return bnet.NewPfx(bnet.IPv4FromOctets(10, 0, 0, 0), 16).Ptr()
}

type zvSeg struct {
	Set  bool
	ASNs []uint32
}

// zvVar is one announcement attribute set. ID is carried in MED (no policy of
// the domain touches MED) so that a path seen anywhere can be traced back to
// the announcement it stems from.
type zvVar struct {
	Name       string
	ID         uint32
	LP         uint32
	Segs       []zvSeg
	NilASPath  bool
	NH         uint8
	Origin     uint8
	Originator uint32
	Clusters   []uint32
	OTC        uint32
}

type zvCfg struct {
	Name     string
	AddPath  bool
	IBGP     bool
	DefLP    uint32 // SessionAttrs.DefaultLocalPreference (0 = unset -> 100)
	Policy   string // initial import policy
	Chains   []string // policies ReplaceFilterChain may switch to (C06); empty = fixed policy
	RolesOn  bool
	RoleLoc  uint8
	RoleRem  uint8
	Vars     []zvVar
	NPfx     int
	IDs      []uint32
	MP       bool // alphabet contains the multiprotocol-style announcement (one path object for all prefixes)
	Recorder bool // alphabet contains (un)registration of a second, recording client
	LateLoc  bool // Loc-RIB is not registered initially
	Exact    bool // C05 oracle (exact equality); false = C06 oracle (safety + completeness)
	Family   string
}

func (c *zvCfg) peerASN() uint32 {
	if c.IBGP {
		return zvLocalASN
	}
	return zvEBGPPeerAS
}

func (c *zvCfg) defLP() uint32 {
	if c.DefLP == 0 {
		return 100
	}
	return c.DefLP
}

// stampable: RFC 9234 sect. 5 ingress rule 3 lets the receiver add OTC=<peer AS>
// to routes from a Provider, Peer or RS. Whether that happened is not demanded.
func (c *zvCfg) stampable() bool {
	return c.RolesOn && (c.RoleRem == packet.PeerRoleRoleProvider || c.RoleRem == packet.PeerRoleRolePeer || c.RoleRem == packet.PeerRoleRoleRS)
}

func (c *zvCfg) varByID(id uint32) *zvVar {
	for i := range c.Vars {
		if c.Vars[i].ID == id {
			return &c.Vars[i]
		}
	}
	return nil
}

// ---- reference: eligibility (RFC 4271 5.1.2 / 9.1.2, RFC 4456 sect. 8, RFC 9234 sect. 5) ----

func (c *zvCfg) eligible(v *zvVar) (bool, string) {
	n := 0
	for _, s := range v.Segs {
		n += len(s.ASNs)
	}
	if !c.IBGP && (v.NilASPath || n == 0) {
		return false, "empty_as_path"
	}
	for _, s := range v.Segs {
		for _, a := range s.ASNs {
			if a == zvLocalASN || a == zvSecondASN {
				return false, "as_loop"
			}
		}
	}
	if v.Originator == zvRouterID {
		return false, "originator_id"
	}
	for _, cl := range v.Clusters {
		if cl == zvClusterID {
			return false, "cluster_loop"
		}
	}
	if c.RolesOn && v.OTC != 0 {
		if c.RoleRem == packet.PeerRoleRoleCustomer || c.RoleRem == packet.PeerRoleRoleRSClient {
			return false, "otc"
		}
		if c.RoleRem == packet.PeerRoleRolePeer && v.OTC != c.peerASN() {
			return false, "otc"
		}
	}
	return true, ""
}

// ---- pointer-free attribute record, used for expectation and observation alike ----

type zvAttrs struct {
	PathID     uint32
	Src, NH    string
	LP, MED    uint32
	Origin     uint8
	EBGP       bool
	Originator uint32
	OTC        string
	Segs       []zvSeg
	ASLen      int
	Clusters   []uint32
	Extra      string // anything the domain never sets (communities, aggregator, ...)
}

func (e zvAttrs) key() string {
	var sb strings.Builder
	fmt.Fprintf(&sb, "id=%d src=%s nh=%s lp=%d med=%d o=%d ebgp=%v orig=%x otc=%s as=", e.PathID, e.Src, e.NH, e.LP, e.MED, e.Origin, e.EBGP, e.Originator, e.OTC)
	for _, s := range e.Segs {
		if s.Set {
			fmt.Fprintf(&sb, "{%v}", s.ASNs)
		} else {
			fmt.Fprintf(&sb, "%v", s.ASNs)
		}
	}
	fmt.Fprintf(&sb, " aslen=%d cl=%x%s", e.ASLen, e.Clusters, e.Extra)
	return sb.String()
}

// expected attributes of announcement v as stored / as handed to the policy
func (c *zvCfg) announced(v *zvVar, pathID uint32) zvAttrs {
	e := zvAttrs{PathID: pathID, Src: zvPeerIPStr, NH: zvNHStr(v.NH), LP: v.LP, MED: v.ID, Origin: v.Origin, EBGP: !c.IBGP,
		Originator: v.Originator, OTC: fmt.Sprint(v.OTC), Clusters: v.Clusters}
	for _, s := range v.Segs {
		e.Segs = append(e.Segs, zvSeg{s.Set, append([]uint32(nil), s.ASNs...)})
		if s.Set {
			e.ASLen++
		} else {
			e.ASLen += len(s.ASNs)
		}
	}
	if v.OTC == 0 && c.stampable() {
		e.OTC = "0-or-peer"
	}
	// RFC 4271 sect. 5.1.5 / bio-rd option: LOCAL_PREF is not carried on eBGP, the
	// configured default applies before the import policy runs.
	if !c.IBGP && e.LP == 0 {
		e.LP = c.defLP()
	}
	return e
}

// the import policies of the domain, written out
func zvRefPolicy(pol string, pfx int, e zvAttrs) (zvAttrs, bool) {
	switch pol {
	case "accept":
	case "rejectall":
		return e, true
	case "rejectP1":
		if pfx == 0 {
			return e, true
		}
	case "lp200":
		e.LP = 200
	case "prepend2":
		if len(e.Segs) == 0 || e.Segs[0].Set {
			e.Segs = append([]zvSeg{{}}, e.Segs...)
		}
		e.Segs[0] = zvSeg{false, append([]uint32{zvPrependASN, zvPrependASN}, e.Segs[0].ASNs...)}
		e.ASLen += 2
	case "nexthop":
		e.NH = zvNHStr(zvPolicyNH)
	default:
		panic("unknown policy " + pol)
	}
	return e, false
}

func zvIsRewrite(pol string) bool { return pol == "lp200" || pol == "prepend2" || pol == "nexthop" }

// ---- real side ----

func zvChain(pol string) filter.Chain {
	acc := actions.NewAcceptAction()
	one := func(name string, as ...actions.Action) filter.Chain {
		return filter.Chain{filter.NewFilter(name, []*filter.Term{filter.NewTerm(name, []*filter.TermCondition{}, as)})}
	}
	switch pol {
	case "accept":
		return filter.NewAcceptAllFilterChain()
	case "rejectall":
		return filter.NewDrainFilterChain()
	case "rejectP1":
		return filter.Chain{filter.NewFilter("REJECT_P1", []*filter.Term{
			filter.NewTerm("reject-p1", []*filter.TermCondition{
				filter.NewTermConditionWithRouteFilters(filter.NewRouteFilter(zvPfxReal(0), filter.NewExactMatcher()))},
				[]actions.Action{actions.NewRejectAction()}),
			filter.NewTerm("accept", []*filter.TermCondition{}, []actions.Action{acc}),
		})}
	case "lp200":
		return one("LP200", actions.NewSetLocalPrefAction(200), acc)
	case "prepend2":
		// a modifying filter followed by a separate accepting filter
		return filter.Chain{
			filter.NewFilter("PREPEND", []*filter.Term{filter.NewTerm("prepend", []*filter.TermCondition{}, []actions.Action{actions.NewASPathPrependAction(zvPrependASN, 2)})}),
			filter.NewAcceptAllFilter(),
		}
	case "nexthop":
		return one("NH", actions.NewSetNextHopAction(bnet.IPv4FromOctets(10, 9, 9, zvPolicyNH).Ptr()), acc)
	}
	panic("unknown policy " + pol)
}

var zvPeerIP = bnet.IPv4FromOctets(192, 0, 2, 1).Ptr()

// real path object for an announcement, built like fsmAddressFamily.newRoutePath + processAttributes
func (c *zvCfg) realPath(v *zvVar, pathID uint32) *route.Path {
	p := &route.Path{
		Type: route.BGPPathType,
		BGPPath: &route.BGPPath{
			BGPPathA: &route.BGPPathA{
				Source:         zvPeerIP,
				EBGP:           !c.IBGP,
				NextHop:        bnet.IPv4FromOctets(10, 9, 9, v.NH).Ptr(),
				LocalPref:      v.LP,
				MED:            v.ID,
				Origin:         v.Origin,
				OriginatorID:   v.Originator,
				OnlyToCustomer: v.OTC,
			},
			PathIdentifier: pathID,
		},
	}
	if !v.NilASPath {
		asp := types.ASPath{}
		n := 0
		for _, s := range v.Segs {
			t := uint8(types.ASSequence)
			if s.Set {
				t = types.ASSet
				n++
			} else {
				n += len(s.ASNs)
			}
			asp = append(asp, types.ASPathSegment{Type: t, ASNs: append([]uint32{}, s.ASNs...)})
		}
		p.BGPPath.ASPath = &asp
		p.BGPPath.ASPathLen = uint16(n)
	}
	if len(v.Clusters) > 0 {
		cl := types.ClusterList(append([]uint32{}, v.Clusters...))
		p.BGPPath.ClusterList = &cl
	}
	return p
}

// observation of a real path
func (c *zvCfg) observe(p *route.Path) zvAttrs {
	var e zvAttrs
	if p == nil || p.BGPPath == nil || p.BGPPath.BGPPathA == nil {
		e.Extra = fmt.Sprintf(" NOT-A-BGP-PATH(%v)", p)
		return e
	}
	b, a := p.BGPPath, p.BGPPath.BGPPathA
	e.PathID = b.PathIdentifier
	if a.Source != nil {
		e.Src = a.Source.String()
	}
	if a.NextHop != nil {
		e.NH = a.NextHop.String()
	}
	e.LP, e.MED, e.Origin, e.EBGP, e.Originator = a.LocalPref, a.MED, a.Origin, a.EBGP, a.OriginatorID
	e.OTC = fmt.Sprint(a.OnlyToCustomer)
	if v := c.varByID(a.MED); v != nil && e.Src == zvPeerIPStr && v.OTC == 0 && c.stampable() && (a.OnlyToCustomer == 0 || a.OnlyToCustomer == c.peerASN()) {
		e.OTC = "0-or-peer"
	}
	if b.ASPath != nil {
		for _, s := range *b.ASPath {
			e.Segs = append(e.Segs, zvSeg{s.Type == types.ASSet, append([]uint32(nil), s.ASNs...)})
		}
	}
	e.ASLen = int(b.ASPathLen)
	if b.ClusterList != nil {
		e.Clusters = append([]uint32(nil), (*b.ClusterList)...)
	}
	if p.Type != route.BGPPathType {
		e.Extra += fmt.Sprintf(" type=%d", p.Type)
	}
	if a.BGPIdentifier != 0 || a.AtomicAggregate || a.Aggregator != nil {
		e.Extra += " unexpected-A-attrs"
	}
	if (b.Communities != nil && len(*b.Communities) > 0) || (b.LargeCommunities != nil && len(*b.LargeCommunities) > 0) || len(b.UnknownAttributes) > 0 {
		e.Extra += " unexpected-communities"
	}
	return e
}

// foreign paths: same attributes as the first announcement variant would have in
// the Loc-RIB under accept-all, but learned from a different neighbour.
func (c *zvCfg) foreignPath(v *zvVar) *route.Path {
	p := c.realPath(v, 1)
	p.BGPPath.BGPPathA.Source = bnet.IPv4FromOctets(192, 0, 2, 77).Ptr()
	if !c.IBGP && p.BGPPath.BGPPathA.LocalPref == 0 {
		p.BGPPath.BGPPathA.LocalPref = c.defLP()
	}
	if p.BGPPath.ASPath == nil {
		p.BGPPath.ASPath = types.NewASPath([]uint32{64900})
		p.BGPPath.ASPathLen = 1
	}
	return p
}

// ---- recording client ----

type zvCall struct {
	Ev   int
	Kind string // AddPath | AddPathInitialDump | RemovePath | ReplacePath
	Pfx  string
	New  zvAttrs
	Old  zvAttrs
}

type zvRec struct {
	c     *zvCfg
	ev    int
	calls []zvCall
	acc   map[string]int // accumulated multiset "pfx|key"
	eor   int
}

func (m *zvRec) AddPath(pfx *bnet.Prefix, p *route.Path) error {
	e := m.c.observe(p)
	m.calls = append(m.calls, zvCall{Ev: m.ev, Kind: "AddPath", Pfx: pfx.String(), New: e})
	m.acc[pfx.String()+"|"+e.key()]++
	return nil
}
func (m *zvRec) AddPathInitialDump(pfx *bnet.Prefix, p *route.Path) error {
	e := m.c.observe(p)
	m.calls = append(m.calls, zvCall{Ev: m.ev, Kind: "AddPathInitialDump", Pfx: pfx.String(), New: e})
	m.acc[pfx.String()+"|"+e.key()]++
	return nil
}
func (m *zvRec) EndOfRIB() { m.eor++ }
func (m *zvRec) RemovePath(pfx *bnet.Prefix, p *route.Path) bool {
	e := m.c.observe(p)
	m.calls = append(m.calls, zvCall{Ev: m.ev, Kind: "RemovePath", Pfx: pfx.String(), Old: e})
	k := pfx.String() + "|" + e.key()
	if m.acc[k] > 0 {
		m.acc[k]--
		if m.acc[k] == 0 {
			delete(m.acc, k)
		}
	}
	return true
}
func (m *zvRec) ReplacePath(pfx *bnet.Prefix, old *route.Path, new *route.Path) {
	eo, en := m.c.observe(old), m.c.observe(new)
	m.calls = append(m.calls, zvCall{Ev: m.ev, Kind: "ReplacePath", Pfx: pfx.String(), New: en, Old: eo})
	k := pfx.String() + "|" + eo.key()
	if m.acc[k] > 0 {
		m.acc[k]--
		if m.acc[k] == 0 {
			delete(m.acc, k)
		}
	}
	m.acc[pfx.String()+"|"+en.key()]++
}
func (m *zvRec) RefreshRoute(*bnet.Prefix, []*route.Path) {}
func (m *zvRec) Dispose()                                {}

// ---- operations ----

type zvOp struct {
	K  string `json:"op"` // ann | annmp | wd | flush | unreg | reg | chain | regrec | unregrec
	P  int    `json:"pfx"`
	V  int    `json:"var"`
	ID uint32 `json:"path_id"`
	C  string `json:"chain,omitempty"`
}

type zvCase struct {
	Config string `json:"config"`
	Hist   []zvOp `json:"history"`
}

type zvStored struct {
	V  int
	ID uint32
}

func zvSortedKeys(m map[string]int) []string {
	ks := make([]string, 0, len(m))
	for k := range m {
		ks = append(ks, k)
	}
	sort.Strings(ks)
	return ks
}

func zvMultisetStr(m map[string]int) string {
	var sb strings.Builder
	for _, k := range zvSortedKeys(m) {
		fmt.Fprintf(&sb, "%dx %s; ", m[k], k)
	}
	return sb.String()
}

func (c *zvCfg) alphabet() []zvOp {
	var ops []zvOp
	for p := 0; p < c.NPfx; p++ {
		for v := range c.Vars {
			for _, id := range c.IDs {
				ops = append(ops, zvOp{K: "ann", P: p, V: v, ID: id})
			}
		}
	}
	if c.MP {
		for v := range c.Vars {
			for _, id := range c.IDs {
				ops = append(ops, zvOp{K: "annmp", V: v, ID: id})
			}
		}
	}
	for p := 0; p < c.NPfx; p++ {
		for _, id := range c.IDs {
			ops = append(ops, zvOp{K: "wd", P: p, ID: id})
		}
	}
	ops = append(ops, zvOp{K: "flush"}, zvOp{K: "unreg"}, zvOp{K: "reg"})
	for _, ch := range c.Chains {
		ops = append(ops, zvOp{K: "chain", C: ch})
	}
	if c.Recorder {
		ops = append(ops, zvOp{K: "regrec"}, zvOp{K: "unregrec"})
	}
	return ops
}

// zvStep replays hist on fresh objects and evaluates the oracle after the last event.
func zvStep(r *vh.Run, c *zvCfg, alphabet []zvOp, hist []zvOp) (string, []zvOp, bool) {
	cs := zvCase{c.Name, hist}
	pfx := make([]*bnet.Prefix, c.NPfx)
	for i := range pfx {
		pfx[i] = zvPfxReal(i)
	}

	// --- real world, built the way the BGP server builds it ---
	v := vrf.NewUntrackedVRF("zv", 0)
	var rib *locRIB.LocRIB
	rib, err := v.CreateIPv4UnicastLocRIB("inet.0")
	if err != nil {
		r.Fatalf("cannot create Loc-RIB: %v", err)
	}
	v.AddContributingASN(zvLocalASN)  // this session (fsmAddressFamily.init)
	v.AddContributingASN(zvLocalASN)  // a second session with the same local AS
	v.AddContributingASN(zvSecondASN) // a session with local-as override
	v.AddContributingASN(zvGoneASN)   // a session that came ...
	v.RemoveContributingASN(zvGoneASN) // ... and went
	v.RemoveContributingASN(zvLocalASN) // the second session went away; ours still contributes
	v.AddContributingClusterID(zvGoneCID)
	v.AddContributingClusterID(zvClusterID) // an RR-client session contributes our cluster ID
	v.RemoveContributingClusterID(zvGoneCID)
	sa := routingtable.SessionAttrs{
		RouterID:               zvRouterID,
		DefaultLocalPreference: c.DefLP,
		PeerIP:                 zvPeerIP,
		LocalIP:                bnet.IPv4FromOctets(192, 0, 2, 0).Ptr(),
		Type:                   route.BGPPathType,
		IBGP:                   c.IBGP,
		LocalASN:               zvLocalASN,
		PeerASN:                c.peerASN(),
		ClusterID:              zvClusterID,
		AddPathRX:              c.AddPath,
		PeerRoleEnabled:        c.RolesOn,
		PeerRoleAdvByPeer:      c.RolesOn,
		PeerRoleLocal:          c.RoleLoc,
		PeerRoleRemote:         c.RoleRem,
	}
	chains := map[string]filter.Chain{c.Policy: zvChain(c.Policy)}
	for _, ch := range c.Chains {
		chains[ch] = zvChain(ch)
	}
	a := New(chains[c.Policy], v, sa)
	rec := &zvRec{c: c, acc: map[string]int{}}

	// foreign paths, installed by "another session"
	foreign := map[string]int{}
	for i := range pfx {
		fp := c.foreignPath(&c.Vars[0])
		rib.AddPath(pfx[i], fp)
		foreign[zvPfxStr[i]+"|"+c.observe(fp).key()]++
	}

	// --- reference model ---
	stored := make([]map[uint32]zvStored, c.NPfx) // per prefix: slot -> announcement
	for i := range stored {
		stored[i] = map[uint32]zvStored{}
	}
	regLoc, regRec, chain := !c.LateLoc, false, c.Policy
	if regLoc {
		a.Register(rib)
	}

	lastOp := "init"
	replacedSame, otherIDKept, wdPresent, flushN, storedBefore := false, false, false, 0, 0
	announce := func(p int, vi int, id uint32) {
		slot := uint32(0)
		if c.AddPath {
			slot = id
			if _, ok := stored[p][slot]; ok {
				replacedSame = true
			} else if len(stored[p]) > 0 {
				otherIDKept = true
			}
		} else if len(stored[p]) > 0 {
			replacedSame = true
		}
		stored[p][slot] = zvStored{vi, id}
	}
	nStored := func() int {
		n := 0
		for _, m := range stored {
			n += len(m)
		}
		return n
	}
	panicked, what := vh.Try(func() {
		for i, o := range hist {
			rec.ev = i
			replacedSame, otherIDKept, wdPresent, flushN = false, false, false, 0
			storedBefore = nStored()
			lastOp = o.K
			switch o.K {
			case "ann":
				a.AddPath(pfx[o.P], c.realPath(&c.Vars[o.V], o.ID))
				announce(o.P, o.V, o.ID)
			case "annmp":
				// fsmAddressFamily.multiProtocolUpdate: ONE path object for every NLRI of the UPDATE
				obj := c.realPath(&c.Vars[o.V], o.ID)
				for p := range pfx {
					a.AddPath(pfx[p], obj)
					announce(p, o.V, o.ID)
				}
			case "wd":
				// fsmAddressFamily.withdraws
				a.RemovePath(pfx[o.P], &route.Path{BGPPath: &route.BGPPath{PathIdentifier: o.ID}})
				if c.AddPath {
					if _, ok := stored[o.P][o.ID]; ok {
						wdPresent = true
					}
					delete(stored[o.P], o.ID)
				} else {
					wdPresent = len(stored[o.P]) > 0
					stored[o.P] = map[uint32]zvStored{}
				}
			case "flush":
				a.Flush()
				flushN = nStored()
				for p := range stored {
					stored[p] = map[uint32]zvStored{}
				}
			case "unreg":
				a.Unregister(rib)
				regLoc = false
			case "reg":
				a.Register(rib)
				regLoc = true
			case "chain":
				a.ReplaceFilterChain(chains[o.C])
				chain = o.C
			case "regrec":
				a.Register(rec)
				regRec = true
			case "unregrec":
				a.Unregister(rec)
				regRec = false
				rec.acc = map[string]int{} // an unregistered consumer drops what it learned from this table
			default:
				panic("harness: unknown op " + o.K)
			}
		}
	})
	if panicked {
		if strings.HasPrefix(what, "harness:") {
			r.Fatalf("%s", what)
		}
		r.Violation(vh.Sig("clause", "panic", "op", lastOp, "policy", chain), cs, "[%s] operation panicked: %s", c.Name, what)
		return "panic:" + what, nil, false
	}

	// --- expectation ---
	expected := map[string]int{}   // what the session must contribute ("pfx|key")
	ineligibleStored := map[string]bool{}
	nRejected := 0
	for p := range stored {
		slots := make([]int, 0, len(stored[p]))
		for s := range stored[p] {
			slots = append(slots, int(s))
		}
		sort.Ints(slots)
		for _, s := range slots {
			st := stored[p][uint32(s)]
			vv := &c.Vars[st.V]
			if ok, why := c.eligible(vv); !ok {
				ineligibleStored[why] = true
				continue
			}
			e, rej := zvRefPolicy(chain, p, c.announced(vv, st.ID))
			if rej {
				nRejected++
				continue
			}
			expected[zvPfxStr[p]+"|"+e.key()]++
		}
	}
	nExpected := 0
	for _, n := range expected {
		nExpected += n
	}

	// --- observation ---
	ok := true
	viol := func(sig map[string]string, f string, args ...any) {
		ok = false
		sig["op"] = lastOp
		r.Violation(sig, cs, "[%s, policy %s] "+f, append([]any{c.Name, chain}, args...)...)
	}
	var canon strings.Builder
	fmt.Fprintf(&canon, "reg=%v rec=%v chain=%s|", regLoc, regRec, chain)

	session, foreignGot := map[string]int{}, map[string]int{}
	type sessPath struct {
		pfx string
		e   zvAttrs
		h   uint8
	}
	var sessPaths []sessPath
	var locRoutes []*route.Route
	var adjRoutes []*route.Route
	if p, what := vh.Try(func() { locRoutes = rib.Dump(); adjRoutes = a.Dump() }); p {
		viol(vh.Sig("clause", "panic", "policy", chain), "Dump panicked: %s", what)
		return "panic:" + what, nil, false
	}
	sort.Slice(locRoutes, func(i, j int) bool { return locRoutes[i].Prefix().String() < locRoutes[j].Prefix().String() })
	for _, rt := range locRoutes {
		ps := rt.Prefix().String()
		fmt.Fprintf(&canon, "L %s:", ps)
		for _, p := range rt.Paths() {
			e := c.observe(p)
			fmt.Fprintf(&canon, "[%s h=%d]", e.key(), p.HiddenReason)
			switch e.Src {
			case zvPeerIPStr:
				session[ps+"|"+e.key()]++
				sessPaths = append(sessPaths, sessPath{ps, e, p.HiddenReason})
			default:
				foreignGot[ps+"|"+e.key()]++
			}
		}
	}

	// Adj-RIB-In content (identity of the stored announcements)
	adjGot, adjWant := map[string]int{}, map[string]int{}
	sort.Slice(adjRoutes, func(i, j int) bool { return adjRoutes[i].Prefix().String() < adjRoutes[j].Prefix().String() })
	for _, rt := range adjRoutes {
		ps := rt.Prefix().String()
		fmt.Fprintf(&canon, "A %s:", ps)
		for _, p := range rt.Paths() {
			e := c.observe(p)
			fmt.Fprintf(&canon, "[%s h=%d]", e.key(), p.HiddenReason)
			adjGot[fmt.Sprintf("%s id=%d ann=%d", ps, e.PathID, e.MED)]++
		}
	}
	adjOptional := map[string]int{} // ineligible announcements: keeping them (hidden) or dropping them is both fine
	for p := range stored {
		for _, st := range stored[p] {
			k := fmt.Sprintf("%s id=%d ann=%d", zvPfxStr[p], st.ID, c.Vars[st.V].ID)
			if el, _ := c.eligible(&c.Vars[st.V]); !el {
				adjOptional[k]++
				continue
			}
			adjWant[k]++
		}
		// lookups of the Adj-RIB-In trie that decide the future (nil vs. route)
		fmt.Fprintf(&canon, "G%d=%v ", p, a.Get(pfx[p]) != nil)
	}
	fmt.Fprintf(&canon, "cnt=%d|R:%s", a.RouteCount(), zvMultisetStr(rec.acc))

	diff := func(got, want map[string]int) (missing, extra []string) {
		for _, k := range zvSortedKeys(want) {
			if got[k] < want[k] {
				missing = append(missing, k)
			}
		}
		for _, k := range zvSortedKeys(got) {
			if got[k] > want[k] {
				extra = append(extra, k)
			}
		}
		return
	}

	// clause adjribin: the Adj-RIB-In holds exactly the stored announcements
	for k, n := range adjOptional {
		if adjGot[k] > 0 && adjGot[k] <= n {
			adjWant[k] = adjGot[k]
		}
	}
	if m, x := diff(adjGot, adjWant); len(m)+len(x) > 0 {
		viol(vh.Sig("clause", "adjribin"), "Adj-RIB-In dump differs from the stored announcements: missing %v, extra %v", m, x)
	}
	// clause foreign: paths of another source are untouched
	if m, x := diff(foreignGot, foreign); len(m)+len(x) > 0 {
		viol(vh.Sig("clause", "foreign"), "paths of the other source changed: missing %v, unexpected %v", m, x)
	} else {
		r.Count("foreign_untouched_checked", 1)
	}

	want := expected
	if !regLoc {
		want = map[string]int{}
	}
	missing, extra := diff(session, want)
	rw := fmt.Sprint(zvIsRewrite(chain))

	// safety: nothing the reference classifies ineligible is in the Loc-RIB or was handed to a client
	for _, sp := range sessPaths {
		vv := c.varByID(sp.e.MED)
		if vv == nil {
			viol(vh.Sig("clause", "unknown_path"), "Loc-RIB holds a path of the session that stems from no announcement: %s %s", sp.pfx, sp.e.key())
			continue
		}
		if el, why := c.eligible(vv); !el {
			viol(vh.Sig("clause", "ineligible_in_locrib", "reason", why), "Loc-RIB holds ineligible path (%s, announcement %s): %s %s", why, vv.Name, sp.pfx, sp.e.key())
		}
	}
	nCallsChecked := 0
	for _, cl := range rec.calls {
		if cl.Ev != len(hist)-1 || cl.Kind == "RemovePath" {
			continue
		}
		nCallsChecked++
		vv := c.varByID(cl.New.MED)
		if vv == nil {
			viol(vh.Sig("clause", "unknown_path", "call", cl.Kind), "%s handed a path to the client that stems from no announcement: %s %s", cl.Kind, cl.Pfx, cl.New.key())
			continue
		}
		if el, why := c.eligible(vv); !el {
			viol(vh.Sig("clause", "ineligible_to_client", "call", cl.Kind, "reason", why), "%s handed ineligible path (%s, announcement %s) to a registered client: %s %s", cl.Kind, why, vv.Name, cl.Pfx, cl.New.key())
		}
	}
	if nCallsChecked > 0 {
		r.Count("client_calls_checked", nCallsChecked)
	}

	if c.Exact {
		// C05: contribution == expectation, nothing more, nothing less
		if len(missing) > 0 {
			viol(vh.Sig("clause", "locrib", "kind", "missing", "policy", chain), "Loc-RIB lacks paths the session contributes: %v (session's paths in Loc-RIB: %s)", missing, zvMultisetStr(session))
		}
		if len(extra) > 0 {
			viol(vh.Sig("clause", "locrib", "kind", "extra", "policy", chain), "Loc-RIB holds paths of the session it must not hold (registered=%v): %v (expected: %s)", regLoc, extra, zvMultisetStr(want))
		}
	} else {
		// C06: eligible, policy-accepted paths must still arrive
		if len(missing) > 0 {
			viol(vh.Sig("clause", "eligible_missing", "where", "locrib", "rewrite", rw), "Loc-RIB lacks eligible paths: %v (session's paths in Loc-RIB: %s)", missing, zvMultisetStr(session))
		}
		recExtra := 0
		if regRec {
			m, x := diff(rec.acc, expected)
			if len(m) > 0 {
				viol(vh.Sig("clause", "eligible_missing", "where", "client", "rewrite", rw), "recording client lacks eligible paths: %v (it holds: %s)", m, zvMultisetStr(rec.acc))
			}
			recExtra = len(x)
		}
		if ok && len(extra)+recExtra > 0 {
			// A path that is eligible but that the current policy rejects / rewrote differently, or that
			// stayed behind after Unregister, is outside C06's statement (C05 / C12 territory). Not
			// demanded; such states are not expanded further (their Loc-RIB content can grow without bound).
			r.Count("not_demanded_stale_eligible_path_state_pruned", 1)
			return canon.String(), nil, true
		}
	}

	// --- coverage counters ---
	if ok {
		if regLoc && nExpected > 0 {
			r.Count("locrib_contribution_nonempty_checked", 1)
			if zvIsRewrite(chain) {
				r.Count("locrib_contribution_rewritten_checked", 1)
			}
			if !c.IBGP {
				r.Count("ebgp_default_localpref_checked", 1)
			}
		}
		if nRejected > 0 {
			r.Count("stored_but_policy_rejected", 1)
		}
		for why := range ineligibleStored {
			r.Count("ineligible_stored_"+why, 1)
		}
		if len(ineligibleStored) > 0 && nExpected > 0 && regLoc {
			r.Count("eligible_delivered_next_to_ineligible", 1)
		}
		r.Outcome(chain + "|" + zvMultisetStr(session))
	}
	{
		switch lastOp {
		case "ann", "annmp":
			if replacedSame {
				r.Count("announce_replaces_same_slot", 1)
			}
			if otherIDKept {
				r.Count("announce_keeps_other_path_id", 1)
			}
		case "wd":
			if wdPresent {
				r.Count("withdraw_of_stored", 1)
			}
		case "flush":
			if flushN > 0 {
				r.Count("flush_nonempty", 1)
			}
		case "unreg":
			if nExpected > 0 {
				r.Count("unregister_after_contribution", 1)
				if zvIsRewrite(chain) {
					r.Count("unregister_after_rewritten_contribution", 1)
				}
			}
		case "reg":
			if nExpected > 0 {
				r.Count("late_register_with_stored", 1)
			}
			if len(ineligibleStored) > 0 {
				r.Count("late_register_with_ineligible_stored", 1)
			}
		case "regrec":
			if len(ineligibleStored) > 0 {
				r.Count("late_client_register_with_ineligible_stored", 1)
			}
		case "chain":
			if len(ineligibleStored) > 0 && storedBefore > 0 {
				r.Count("policy_replaced_with_ineligible_stored", 1)
			}
			if nExpected > 0 {
				r.Count("policy_replaced_with_eligible_stored", 1)
			}
		}
	}

	// --- enabled events ---
	var en []zvOp
	for _, o := range alphabet {
		switch o.K {
		case "unreg":
			if !regLoc {
				continue
			}
		case "reg":
			if regLoc {
				continue // registering a registered client twice is not in the alphabet
			}
		case "regrec":
			if regRec {
				continue
			}
		case "unregrec":
			if !regRec {
				continue
			}
		case "chain":
			if o.C == chain {
				continue // fsmAddressFamily.replaceImportFilterChain skips equal chains
			}
		}
		en = append(en, o)
	}
	return canon.String(), en, ok
}

// zvExplore runs one configuration to closure (or to maxDepth).
func zvExplore(r *vh.Run, c *zvCfg, maxDepth int) {
	alpha := c.alphabet()
	b := vh.BFS[zvOp]{R: r, MaxDepth: maxDepth, Label: c.Name, Step: func(h []zvOp) (string, []zvOp, bool) {
		return zvStep(r, c, alpha, h)
	}}
	_, _, closed := b.Explore()
	r.Eval(1)
	if closed {
		r.Nontrivial(1)
	}
}

// zvReplay re-executes one recorded case, checking the oracle after every prefix of the history.
func zvReplay(r *vh.Run, cfgs []*zvCfg) {
	var cs zvCase
	r.ReplayCase(&cs)
	for _, c := range cfgs {
		if c.Name == cs.Config {
			alpha := c.alphabet()
			for n := 0; n <= len(cs.Hist); n++ {
				if _, _, ok := zvStep(r, c, alpha, cs.Hist[:n]); !ok {
					break
				}
			}
			return
		}
	}
	r.Fatalf("replay: unknown configuration %q", cs.Config)
}
