package server

// C31 — IS-IS point-to-point adjacencies follow the three-way handshake and the
// hold timer.
//
// Explicit-state BFS (engine E4) over event histories; every history is
// replayed on a fresh real Server with two active point-to-point circuits
// inside one controlled execution (engine E2, deviation bound 0: goroutines run
// to quiescence after every event and every timer firing, so the run is a
// deterministic function of the history).
//
// Alphabet: hello from neighbour N1 (circuit eth0) / N2 (circuit eth1) whose
// three-way adjacency TLV {lists us and our circuit, lists us with another
// circuit, lists a third system, carries no neighbour, is absent} x holding
// time {3, 9}; clock +1 s; clock +10 s; LSP regeneration trigger.
//
// Reference (plain bookkeeping over the history, nothing taken from the code
// under test): per neighbour the time/holding time of its hellos and the
// variant of the most recent hello that carried a three-way TLV.
//
// Oracle, after every event:
//   up-without-listing   an adjacency is Up although the most recent hello with a
//                        three-way TLV did not list this system and circuit (covers
//                        "Up only after ..." and "Down when a later hello no longer does")
//   up-past-holding-time an adjacency is Up although no hello arrived for more than
//                        holding time + 1 tick
//   lsp-adjacencies      after the regeneration trigger the local LSP's extended IS
//                        reachability lists exactly the Up adjacencies
//   silent-neighbour-never-removed  (bounded liveness, run from every reached state)
//                        after holding time + 120 s + 3 ticks of silence the neighbour is
//                        still in the adjacency list
// Deliberately not demanded: what a hello WITHOUT three-way TLV does (RFC 5303
// falls back to the two-way handshake, the code ignores such hellos; the
// statement is silent): it may or may not refresh the hold timer and may or may
// not take the adjacency down, it only must not bring it Up; that the first
// listing hello brings the adjacency Up at once (the code needs two hellos);
// the exact second of expiry (one tick of slack).

import (
	"crypto/sha256"
	"fmt"
	"strconv"
	"strings"
	"testing"
	"time"

	"github.com/bio-routing/bio-rd/protocols/isis/packet"
	"github.com/bio-routing/bio-rd/zzverif/vh"
	"github.com/bio-routing/bio-rd/zzverif/vsched"
)

const (
	zvC31T1    = "clock+1s"
	zvC31T10   = "clock+10s"
	zvC31Regen = "regen-lsp"
)

var zvC31Holds = []uint16{3, 9}

func zvC31Alphabet(nbrs ...zvNbr) []string {
	var a []string
	for _, n := range nbrs {
		for _, v := range zvTLVVariants {
			for _, h := range zvC31Holds {
				a = append(a, fmt.Sprintf("hello:%s:%s:%d", n.Name, v, h))
			}
		}
	}
	return append(a, zvC31T1, zvC31T10, zvC31Regen)
}

// zvC31Ref is the harness-side bookkeeping for one neighbour.
type zvC31Ref struct {
	lastTLV    string // variant of the most recent hello that carried a three-way TLV ("" = none yet)
	validAt    int    // time (s) and holding time of the most recent hello with three-way TLV
	validHold  int
	anyAt      int // the same for the most recent hello of any kind (TLV-less hellos are open: see above)
	anyHold    int
	seen       bool
	listedOnce bool
}

// deadline is the latest second at which the adjacency may still be Up.
func (r *zvC31Ref) deadline() int {
	d := r.validAt + r.validHold
	if r.anyAt+r.anyHold > d {
		d = r.anyAt + r.anyHold
	}
	return d + 1
}

type zvC31Case struct {
	Alphabet string   `json:"alphabet"`
	Hist     []string `json:"history"`
}

type zvC31Obs struct {
	Adj        []zvAdj
	Prev       []zvAdj // adjacency list before the last event
	Canon      string
	Now        int
	EverUp     map[string]bool
	AfterQuiet []zvAdj // adjacency list after the silent extension (nil if not run)
	QuietFor   int
	Reach      []string // IS reachability of the own LSP after a regen event
	UpSys      []string
	RegenSeqOK bool
}

type zvC31Viol struct {
	sig  map[string]string
	desc string
}

func zvNbrByName(n string) zvNbr {
	if n == "N2" {
		return zvNbr2
	}
	return zvNbr1
}

// zvC31Replay runs one history. Oracle clauses are evaluated for the LAST event
// only (prefixes are histories of their own).
// extendIf decides, given the canonical state reached, whether the silent extension is run.
func zvC31Replay(hist []string, extendIf func(canon string) bool, trace bool) (obs zvC31Obs, viols []zvC31Viol, status vsched.Status, crash string) {
	viol := func(sig map[string]string, f string, a ...any) {
		viols = append(viols, zvC31Viol{sig, fmt.Sprintf(f, a...)})
	}
	x := zvExec(vsched.Config{MaxSteps: 2000000, Trace: trace, Sites: trace}, func() {
		w := zvIsisNew(false, zvIfEth0, zvIfEth1)
		w.linksUp("eth0", "eth1")
		start := vsched.Now()
		now := func() int { return int(vsched.Now().Sub(start) / time.Second) }
		refs := map[string]*zvC31Ref{"N1": {}, "N2": {}}
		everUp := map[string]bool{}
		lastEvent := ""
		for i, e := range hist {
			lastEvent = e
			if i == len(hist)-1 {
				obs.Prev = w.adjacencies()
			}
			switch {
			case strings.HasPrefix(e, "hello:"):
				p := strings.Split(e, ":")
				n := zvNbrByName(p[1])
				h, _ := strconv.Atoi(p[3])
				w.recvHello(n, p[2], uint16(h))
				rf := refs[n.Name]
				rf.seen = true
				rf.anyAt, rf.anyHold = now(), h
				if p[2] != zvTLVAbsent {
					rf.lastTLV, rf.validAt, rf.validHold = p[2], now(), h
					if p[2] == zvTLVListsUs {
						rf.listedOnce = true
					}
				}
			case e == zvC31T1:
				vsched.Advance(time.Second)
			case e == zvC31T10:
				vsched.Advance(10 * time.Second)
			case e == zvC31Regen:
				w.srv.updateL2LSP()
				vsched.Settle()
			}
			for _, a := range w.adjacencies() {
				if a.Status == packet.P2PAdjStateUp {
					everUp[a.Sys] = true
				}
			}
		}
		obs.Now = now()
		obs.Adj = w.adjacencies()
		obs.EverUp = everUp
		// ---- oracle on the reached state
		var canon []string
		for _, n := range []zvNbr{zvNbr1, zvNbr2} {
			rf := refs[n.Name]
			var adj *zvAdj
			for i := range obs.Adj {
				if obs.Adj[i].Sys == n.Sys.String() && obs.Adj[i].Ifa == n.Ifa {
					adj = &obs.Adj[i]
				}
			}
			st := "absent"
			ttl, age := 0, 0
			if adj != nil {
				st = zvAdjState(adj.Status)
				if adj.Status == packet.P2PAdjStateDown {
					age = zvClamp(adj.Age, 0, 125)
				} else {
					ttl = zvClamp(adj.TTL, -3, 10)
				}
				if adj.Status == packet.P2PAdjStateUp {
					obs.UpSys = append(obs.UpSys, adj.Sys)
					if rf.lastTLV != zvTLVListsUs {
						viol(vh.Sig("clause", "up-without-listing", "last_three_way_tlv", rf.lastTLV, "ever_listed", fmt.Sprint(rf.listedOnce)),
							"adjacency with %s is Up after %q although the most recent hello with a three-way TLV was %q", n.Name, lastEvent, rf.lastTLV)
					}
					if obs.Now > rf.deadline() {
						viol(vh.Sig("clause", "up-past-holding-time"),
							"adjacency with %s is still Up at t=%ds; its last hellos: with three-way TLV at t=%ds holding %ds, any at t=%ds holding %ds", n.Name, obs.Now, rf.validAt, rf.validHold, rf.anyAt, rf.anyHold)
					}
				}
			}
			// canonical state of this neighbour: implementation state + what the reference needs (all relative to now)
			dl := 0
			if st == "Up" || st == "Init" {
				dl = zvClamp(rf.deadline()-obs.Now, -3, 11)
			}
			canon = append(canon, fmt.Sprintf("%s:%s ttl=%d age=%d lastTLV=%s dl=%d", n.Name, st, ttl, age, rf.lastTLV, dl))
		}
		obs.Canon = strings.Join(canon, " | ")
		if lastEvent == zvC31Regen {
			own := w.ownLSP()
			obs.Reach = zvISReach(own)
			if fmt.Sprint(obs.Reach) != fmt.Sprint(append([]string{}, obs.UpSys...)) {
				viol(vh.Sig("clause", "lsp-adjacencies", "up", fmt.Sprint(len(obs.UpSys)), "advertised", fmt.Sprint(len(obs.Reach))),
					"after regeneration the local LSP's extended IS reachability lists %v, the Up adjacencies are %v", obs.Reach, obs.UpSys)
			}
		}
		// ---- bounded liveness: everybody falls silent
		if len(obs.Adj) > 0 && extendIf != nil && extendIf(obs.Canon) {
			quiet := 9 + neighborDownTimeoutS + 3
			obs.QuietFor = quiet
			vsched.Advance(time.Duration(quiet) * time.Second)
			obs.AfterQuiet = w.adjacencies()
			for _, a := range obs.AfterQuiet {
				viol(vh.Sig("clause", "silent-neighbour-never-removed", "stuck_in", zvAdjState(a.Status)),
					"neighbour %s on %s sent nothing for %d s (holding time <= 9 s) and is still listed, in state %s (state before the silence: %+v)", a.Sys, a.Ifa, quiet, zvAdjState(a.Status), obs.Adj)
			}
		}
	})
	if trace {
		for _, l := range x.Log {
			fmt.Println("   ", l)
		}
	}
	return obs, viols, x.Status, x.Crash + x.Blocked
}

func zvC31Hash(h []string) int {
	s := sha256.Sum256([]byte(strings.Join(h, "|")))
	return int(s[0])<<16 | int(s[1])<<8 | int(s[2])
}

var zvC31Required = []string{"up_reached", "down_by_unlisting", "down_by_timeout", "removed_after_down", "regen_with_up", "regen_without_up", "first_hello_lists_us", "quiet_extension_runs", "quiet_from_init", "quiet_from_up", "two_up"}

// zvC31Cover bumps the coverage counters for one evaluated transition (independent of the verdicts).
func zvC31Cover(r *vh.Run, hist []string, obs zvC31Obs) {
	last := ""
	if len(hist) > 0 {
		last = hist[len(hist)-1]
	}
	nUp := 0
	for _, a := range obs.Adj {
		if a.Status == packet.P2PAdjStateUp {
			nUp++
		}
	}
	if nUp > 0 {
		r.Count("up_reached", 1)
	}
	if nUp > 1 {
		r.Count("two_up", 1)
	}
	for _, b := range obs.Prev {
		found := false
		for _, a := range obs.Adj {
			if a.Sys == b.Sys {
				found = true
				if b.Status == packet.P2PAdjStateUp && a.Status == packet.P2PAdjStateDown {
					if strings.HasPrefix(last, "hello:") {
						r.Count("down_by_unlisting", 1)
					} else {
						r.Count("down_by_timeout", 1)
					}
				}
			}
		}
		if !found && b.Status == packet.P2PAdjStateDown {
			r.Count("removed_after_down", 1)
		}
	}
	if len(hist) == 1 && strings.Contains(last, zvTLVListsUs) {
		r.Count("first_hello_lists_us", 1)
	}
	if last == zvC31Regen {
		if nUp > 0 {
			r.Count("regen_with_up", 1)
		} else {
			r.Count("regen_without_up", 1)
		}
	}
}

func TestVerifC31(t *testing.T) {
	r := vh.Start(t, "C31")
	defer r.Finish()
	depth2 := 3
	if r.Thorough() {
		depth2 = 4
	}
	a1 := zvC31Alphabet(zvNbr1)
	a2 := zvC31Alphabet(zvNbr1, zvNbr2)
	r.Rule(fmt.Sprintf("explicit-state BFS over histories of hellos (5 three-way TLV variants x holding time {3,9}), clock +1s/+10s and LSP regeneration on a real Server under the virtual runtime (bound 0): "+
		"one neighbour (%d events) to closure of the canonical state (adjacency state, time to expiry, time since state change, reference bookkeeping; all relative), two neighbours on two circuits (%d events) to depth %d; "+
		"from every reached canonical state a silent extension of 132 s; non-trivial = distinct canonical states", len(a1), len(a2), depth2))
	r.Require(zvC31Required...)
	r.Extra("depth_two_neighbours", depth2)

	report := func(alpha string, hist []string, viols []zvC31Viol, st vsched.Status, diag string) bool {
		c := zvC31Case{alpha, hist}
		if st != vsched.Completed {
			msg, where := zvCrashSite(diag)
			r.Violation(vh.Sig("clause", "run-"+st.String(), "panic", msg, "where", where), c, "%v: execution %s: %.1500s", hist, st, diag)
			return false
		}
		for _, v := range viols {
			r.Violation(v.sig, c, "%v: %s", hist, v.desc)
		}
		return len(viols) == 0
	}

	if r.IsReplay() {
		var c zvC31Case
		r.ReplayCase(&c)
		obs, viols, st, diag := zvC31Replay(c.Hist, func(string) bool { return true }, true)
		report(c.Alphabet, c.Hist, viols, st, diag)
		fmt.Printf("replay %v: %+v\n", c.Hist, obs)
		for _, k := range zvC31Required {
			r.Count(k, 1)
		}
		return
	}

	// The silent extension is run once per canonical state (per BFS).
	step := func(alpha string, prefix []string, shared bool) func(h []string) (string, []string, bool) {
		en := a1
		if alpha == "two" {
			en = a2
		}
		extended := map[string]bool{}
		return func(h []string) (string, []string, bool) {
			hist := append(append([]string{}, prefix...), h...)
			mine := !shared || r.Mine(zvC31Hash(hist))
			obs, viols, st, diag := zvC31Replay(hist, func(canon string) bool {
				if extended[canon] {
					return false
				}
				extended[canon] = true
				return !shared || r.Mine(zvC31Hash([]string{canon}))
			}, false)
			if mine {
				r.Eval(1)
			}
			if st != vsched.Completed {
				report(alpha, hist, viols, st, diag)
				return "crashed:" + strings.Join(hist, "|"), nil, false
			}
			if mine || obs.QuietFor > 0 {
				var keep []zvC31Viol
				for _, v := range viols {
					if mine || v.sig["clause"] == "silent-neighbour-never-removed" {
						keep = append(keep, v)
					}
				}
				report(alpha, hist, keep, st, diag)
			}
			if obs.QuietFor > 0 {
				r.Count("quiet_extension_runs", 1)
				for _, a := range obs.Adj {
					switch a.Status {
					case packet.P2PAdjStateInit:
						r.Count("quiet_from_init", 1)
					case packet.P2PAdjStateUp:
						r.Count("quiet_from_up", 1)
					}
				}
			}
			if !mine {
				return obs.Canon, en, true // another shard evaluates and counts this transition
			}
			zvC31Cover(r, hist, obs)
			r.Outcome(obs.Canon)
			// a violating state is still expanded: its successors are states of their own (only a crashed run is pruned)
			return obs.Canon, en, true
		}
	}

	// (0) determinism self-check and directed histories: one known history per coverage counter, evaluated like any
	// other (so that a run cut short by its time budget is capped, not vacuous)
	nn, lu := "hello:N1:"+zvTLVNoNeighbor, "hello:N1:"+zvTLVListsUs
	twoUp := []string{nn + ":9", lu + ":9", "hello:N2:" + zvTLVNoNeighbor + ":9", "hello:N2:" + zvTLVListsUs + ":9"}
	ageOut := []string{nn + ":3", lu + ":3"}
	for i := 0; i < 13; i++ {
		ageOut = append(ageOut, zvC31T10)
	}
	directed := [][]string{
		twoUp,
		append(append([]string{}, twoUp...), zvC31Regen),
		{zvC31Regen},
		{lu + ":9"},
		{nn + ":9", lu + ":9", nn + ":9"},
		{nn + ":3", lu + ":3", zvC31T10},
		ageOut,
	}
	{
		o1, _, _, _ := zvC31Replay(ageOut[:6], func(string) bool { return true }, false)
		o2, _, _, _ := zvC31Replay(ageOut[:6], func(string) bool { return true }, false)
		if fmt.Sprintf("%+v", o1) != fmt.Sprintf("%+v", o2) {
			r.Fatalf("replaying the same history twice gave different observations:\n%+v\n%+v", o1, o2)
		}
	}
	for i, h := range directed {
		if r.Mine(i) {
			step("two", h, false)(nil)
		}
	}
	// (1) two neighbours, bounded depth, from two roots (initial state; N1 already Up), subtrees dealt out by first event
	roots := [][]string{nil, {nn + ":9", lu + ":9"}}
	idx := 0
	for _, root := range roots {
		for _, e1 := range a2 {
			idx++
			if !r.Mine(idx) {
				continue
			}
			pre := append(append([]string{}, root...), e1)
			b2 := vh.BFS[string]{R: r, MaxDepth: depth2 - 1, Label: fmt.Sprintf("two-neighbours/root%d/%s", len(root), e1), Step: step("two", pre, false)}
			s2, _, _ := b2.Explore()
			r.Nontrivial(s2)
		}
	}
	// (2) one neighbour, to closure of the canonical state (one work item: the graph is small)
	idx++
	if r.Mine(idx) {
		b1 := vh.BFS[string]{R: r, Label: "one-neighbour", Step: step("one", nil, false)}
		states, trans, closed := b1.Explore()
		r.Nontrivial(states)
		r.Extra("one_neighbour_states", states)
		r.Extra("one_neighbour_transitions", trans)
		r.Extra("one_neighbour_closed", closed)
	}
}
