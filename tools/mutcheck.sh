#!/bin/sh
# tools/mutcheck.sh <ID>[,<ID>...] <patch.diff> [tier]
# Applies a property-breaking change to a scratch worktree of /repo (HEAD), verifies that it
# compiles and that the repository's own test suite still passes, then runs the given checks
# against the worktree. Prints one line per check: DETECTED / MISSED / ERROR. Cleans up.
set -u
IDS="$1"; PATCH="$(readlink -f "$2")"; TIER="${3:-quick}"
export GOFLAGS=-mod=mod GOPROXY=off GOSUMDB=off GOTOOLCHAIN=local GOWORK=off
WT="/var/tmp/mut-$$"
git -C /repo worktree add -q --detach "$WT" HEAD || exit 2
trap 'git -C /repo worktree remove --force "$WT" >/dev/null 2>&1; rm -rf "$WT"' EXIT
if ! git -C "$WT" apply "$PATCH"; then echo "ERROR: patch does not apply"; exit 2; fi
if ! (cd "$WT" && go build ./... 2>&1 | tail -5); then echo "ERROR: does not build"; exit 2; fi
if [ "${SKIP_TESTS:-0}" != 1 ]; then
  if ! (cd "$WT" && go test -vet=off -count=1 ./... >"$WT/.testlog" 2>&1); then
    echo "REPO-TESTS-FAIL (mutant is not admissible):"; grep -E '^(FAIL|---)' "$WT/.testlog" | head; exit 3
  fi
  echo "repo tests: pass"
fi
rc=0
for ID in $(echo "$IDS" | tr ',' ' '); do
  OUT=$(/verif/run "$ID" "$TIER" --repo "$WT" 2>&1); c=$?
  if [ $c -eq 1 ] && echo "$OUT" | grep -q '^VIOLATION'; then echo "DETECTED $ID: $(echo "$OUT" | grep -A1 '^VIOLATION' | head -2 | tr '\n' ' ')";
  elif [ $c -eq 0 ]; then echo "MISSED $ID"; rc=1;
  else echo "ERROR $ID (exit $c): $(echo "$OUT" | tail -5)"; rc=2; fi
done
exit $rc
