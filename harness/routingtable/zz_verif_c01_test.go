package routingtable

// C01 — routing table lookups agree with a prefix-map model.
// Engine E4: explicit-state BFS over all operation sequences of a small
// alphabet, per prefix universe, until the canonical state set closes. Every
// transition runs the real RoutingTable in lock-step with a map model.

import (
	"encoding/json"
	"fmt"
	"sort"
	"strings"
	"testing"

	bnet "github.com/bio-routing/bio-rd/net"
	"github.com/bio-routing/bio-rd/route"
	"github.com/bio-routing/bio-rd/zzverif/vh"
)

// zvPfx is a prefix known by its bits (the reference never calls the repo's
// prefix arithmetic).
type zvPfx struct {
	Fam  int    `json:"family"`
	Bits string `json:"bits"` // first Len bits as '0'/'1'
}

func (p zvPfx) w() int {
	if p.Fam == 4 {
		return 32
	}
	return 128
}

func (p zvPfx) real() *bnet.Prefix {
	l := len(p.Bits)
	if p.Fam == 4 {
		var v uint32
		for i := 0; i < 32; i++ {
			v <<= 1
			if i < l && p.Bits[i] == '1' {
				v |= 1
			}
		}
		return bnet.NewPfx(bnet.IPv4(v), uint8(l)).Ptr()
	}
	var hi, lo uint64
	for i := 0; i < 128; i++ {
		b := uint64(0)
		if i < l && p.Bits[i] == '1' {
			b = 1
		}
		if i < 64 {
			hi = hi<<1 | b
		} else {
			lo = lo<<1 | b
		}
	}
	return bnet.NewPfx(bnet.IPv6(hi, lo), uint8(l)).Ptr()
}

// containsOrEq: p covers q
func (p zvPfx) covers(q zvPfx) bool {
	return p.Fam == q.Fam && strings.HasPrefix(q.Bits, p.Bits)
}

func (p zvPfx) String() string { return fmt.Sprintf("v%d:%s/%d", p.Fam, p.real().Addr().String(), len(p.Bits)) }

type zvOp struct {
	Kind string `json:"op"` // add | remove | replace | rmpfx
	P    int    `json:"pfx"`
	X    int    `json:"path"`
}

type zvC01Case struct {
	Universe []zvPfx `json:"universe"`
	Hist     []zvOp  `json:"history"`
}

var zvPaths = func() []*route.Path {
	mk := func(n uint8) *route.Path {
		return &route.Path{Type: route.StaticPathType, StaticPath: &route.StaticPath{NextHop: bnet.IPv4FromOctets(192, 0, 2, n).Ptr()}}
	}
	return []*route.Path{mk(1), mk(2)}
}()

func zvTrieDump(n *node, sb *strings.Builder) {
	if n == nil {
		sb.WriteString("-")
		return
	}
	fmt.Fprintf(sb, "(%s d=%v s=%d n=%d ", n.route.Prefix().String(), n.dummy, n.skip, len(n.route.Paths()))
	zvTrieDump(n.l, sb)
	sb.WriteString(" ")
	zvTrieDump(n.h, sb)
	sb.WriteString(")")
}

func zvProbes(u []zvPfx) []zvPfx {
	seen := map[string]bool{}
	var out []zvPfx
	add := func(p zvPfx) {
		k := fmt.Sprint(p.Fam, p.Bits)
		if !seen[k] {
			seen[k] = true
			out = append(out, p)
		}
	}
	for _, p := range u {
		add(p)
		l := len(p.Bits)
		if l > 0 {
			add(zvPfx{p.Fam, p.Bits[:l-1]})
			flip := byte('0')
			if p.Bits[l-1] == '0' {
				flip = '1'
			}
			add(zvPfx{p.Fam, p.Bits[:l-1] + string(flip)})
		}
		if l < p.w() {
			add(zvPfx{p.Fam, p.Bits + "0"})
			add(zvPfx{p.Fam, p.Bits + "1"})
			add(zvPfx{p.Fam, p.Bits + strings.Repeat("1", p.w()-l)})
		}
		add(zvPfx{p.Fam, ""})
	}
	return out
}

func zvPfxSet(rs []*route.Route) (map[string]int, []string) {
	m := map[string]int{}
	for _, r := range rs {
		m[r.Prefix().String()]++
	}
	ks := make([]string, 0, len(m))
	for k := range m {
		ks = append(ks, k)
	}
	sort.Strings(ks)
	return m, ks
}

// zvC01Step replays the history on a fresh table and checks the oracle after
// the last operation.
func zvC01Step(r *vh.Run, u []zvPfx, real []*bnet.Prefix, probes []zvPfx, probesReal []*bnet.Prefix, ops []zvOp, hist []zvOp) (string, []zvOp, bool) {
	rt := NewRoutingTable()
	model := make([][2]bool, len(u)) // model[p][x] = path x stored for prefix p
	c := zvC01Case{u, hist}
	fam := fmt.Sprint(u[0].Fam)
	lastOp := "init"
	if p, what := vh.Try(func() {
		for _, o := range hist {
			switch o.Kind {
			case "add":
				rt.AddPath(real[o.P], zvPaths[o.X])
				model[o.P][o.X] = true
			case "remove":
				rt.RemovePath(real[o.P], zvPaths[o.X])
				model[o.P][o.X] = false
			case "replace":
				rt.ReplacePath(real[o.P], zvPaths[o.X])
				model[o.P] = [2]bool{}
				model[o.P][o.X] = true
			case "rmpfx":
				rt.RemovePfx(real[o.P])
				model[o.P] = [2]bool{}
			}
			lastOp = o.Kind
		}
	}); p {
		r.Violation(vh.Sig("clause", "panic", "family", fam, "op", lastOp), c, "operation panicked: %s", what)
		return "panic:" + what, nil, false
	}
	stored := func(i int) bool { return model[i][0] || model[i][1] }
	nStored := 0
	for i := range u {
		if stored(i) {
			nStored++
		}
	}
	ok := true
	viol := func(sig map[string]string, f string, a ...any) {
		ok = false
		sig["family"] = fam
		r.Violation(sig, c, f, a...)
	}
	if p, what := vh.Try(func() {
		// count and dump
		if got := rt.GetRouteCount(); got != int64(nStored) {
			viol(vh.Sig("clause", "count", "op", lastOp), "GetRouteCount() = %d, model holds %d prefixes", got, nStored)
		}
		if rt.root != nil {
			dm, _ := zvPfxSet(rt.Dump())
			for i := range u {
				n := dm[real[i].String()]
				want := 0
				if stored(i) {
					want = 1
				}
				if n != want {
					viol(vh.Sig("clause", "dump", "op", lastOp), "Dump() lists %s %d times, want %d", u[i], n, want)
				}
				delete(dm, real[i].String())
			}
			for k := range dm {
				viol(vh.Sig("clause", "dump", "kind", "foreign"), "Dump() lists %s which was never stored", k)
			}
		}
		for qi, q := range probes {
			qr := probesReal[qi]
			qIdx := -1
			for i := range u {
				if u[i].Bits == q.Bits {
					qIdx = i
				}
			}
			qStored := qIdx >= 0 && stored(qIdx)
			// exact lookup
			g := rt.Get(qr)
			if !qStored {
				if g != nil && len(g.Paths()) > 0 {
					viol(vh.Sig("clause", "get", "query_stored", "false"), "Get(%s) returned %d paths for a prefix that is not stored", q, len(g.Paths()))
				}
			} else {
				r.Count("get_stored", 1)
				var got [2]bool
				n := 0
				if g != nil {
					for _, p := range g.Paths() {
						n++
						for x := range zvPaths {
							if p == zvPaths[x] {
								got[x] = true
							}
						}
					}
				}
				want := model[qIdx]
				wn := 0
				for _, b := range want {
					if b {
						wn++
					}
				}
				if got != want || n != wn {
					viol(vh.Sig("clause", "get", "query_stored", "true", "op", lastOp), "Get(%s) returned paths %v (n=%d), model %v", q, got, n, want)
				}
			}
			// covering lookup and more-specifics lookup
			wantLPM, wantLonger := map[string]bool{}, map[string]bool{}
			for i := range u {
				if !stored(i) {
					continue
				}
				if u[i].covers(q) {
					wantLPM[real[i].String()] = true
				}
				if q.covers(u[i]) {
					wantLonger[real[i].String()] = true
				}
			}
			chk := func(clause string, got []*route.Route, want map[string]bool) {
				gm, gk := zvPfxSet(got)
				bad := len(gm) != len(want)
				for k, n := range gm {
					if !want[k] || n != 1 {
						bad = true
					}
				}
				if bad {
					wk := make([]string, 0, len(want))
					for k := range want {
						wk = append(wk, k)
					}
					sort.Strings(wk)
					kind := "missing"
					if len(gm) > len(want) {
						kind = "extra"
					}
					viol(vh.Sig("clause", clause, "query_stored", fmt.Sprint(qStored), "kind", kind), "%s(%s) = %v, model says %v", clause, q, gk, wk)
				}
			}
			chk("lpm", rt.LPM(qr), wantLPM)
			if len(wantLPM) > 1 {
				r.Count("lpm_multi", 1)
			}
			chk("getlonger", rt.GetLonger(qr), wantLonger)
			if !qStored && len(wantLonger) > 0 {
				r.Count("getlonger_absent_query_nonempty", 1)
			}
			if qStored && len(wantLonger) > 1 {
				r.Count("getlonger_stored_multi", 1)
			}
		}
	}); p {
		viol(vh.Sig("clause", "panic", "op", "lookup-after-"+lastOp), "lookup panicked: %s", what)
	}
	// canonical state: model + trie shape (history dependent, determines the future)
	var sb strings.Builder
	fmt.Fprint(&sb, model, "|")
	zvTrieDump(rt.root, &sb)
	// enabled operations
	var en []zvOp
	for _, o := range ops {
		if o.Kind == "add" && model[o.P][o.X] {
			continue // duplicate insertion of an identical path is not in the alphabet
		}
		en = append(en, o)
	}
	return sb.String(), en, ok
}

func zvC01Universe(r *vh.Run, u []zvPfx, maxDepth int) {
	real := make([]*bnet.Prefix, len(u))
	for i := range u {
		real[i] = u[i].real()
	}
	probes := zvProbes(u)
	probesReal := make([]*bnet.Prefix, len(probes))
	for i := range probes {
		probesReal[i] = probes[i].real()
	}
	// alphabet: path 0 on every prefix, path 1 only on the first prefix
	var ops []zvOp
	for _, k := range []string{"add", "remove", "replace"} {
		for p := range u {
			ops = append(ops, zvOp{k, p, 0})
		}
		ops = append(ops, zvOp{k, 0, 1})
	}
	for p := range u {
		ops = append(ops, zvOp{"rmpfx", p, 0})
	}
	b := vh.BFS[zvOp]{R: r, MaxDepth: maxDepth, Label: "universe", Step: func(h []zvOp) (string, []zvOp, bool) {
		return zvC01Step(r, u, real, probes, probesReal, ops, h)
	}}
	b.Explore()
	r.Eval(1)
	r.Nontrivial(1)
}

func zvBitsOf(fam int, pattern byte, n int) string { return strings.Repeat(string(pattern), n) }

// zvC01Universes enumerates the prefix universes systematically.
func zvC01Universes(thorough bool) [][]zvPfx {
	var out [][]zvPfx
	seen := map[string]bool{}
	emit := func(u []zvPfx) {
		// drop duplicates inside the universe and duplicate universes
		var v []zvPfx
		k := ""
		for _, p := range u {
			dup := false
			for _, q := range v {
				dup = dup || q.Bits == p.Bits
			}
			if !dup {
				v = append(v, p)
				k += p.Bits + ","
			}
		}
		if len(v) < 2 || seen[fmt.Sprint(u[0].Fam, k)] {
			return
		}
		seen[fmt.Sprint(u[0].Fam, k)] = true
		out = append(out, v)
	}
	for _, fam := range []int{4, 6} {
		w := 32
		var lens []int
		if fam == 4 {
			if thorough {
				for l := 0; l <= 32; l++ {
					lens = append(lens, l)
				}
			} else {
				lens = []int{0, 1, 7, 8, 9, 23, 24, 25, 31, 32}
			}
		} else {
			w = 128
			if thorough {
				lens = []int{0, 1, 2, 15, 16, 31, 32, 33, 47, 48, 63, 64, 65, 95, 96, 97, 126, 127, 128}
			} else {
				lens = []int{0, 1, 31, 32, 33, 63, 64, 65, 127, 128}
			}
		}
		for i1, l1 := range lens {
			for _, l2 := range lens[i1:] {
				for _, fill := range []byte{'0', '1'} {
					inv := byte('1')
					if fill == '1' {
						inv = '0'
					}
					// relation: nested (p2 inside p1), or diverging at bit b<=l1
					var divs []int
					if l2 > l1 {
						divs = append(divs, 0) // 0 = nested
					}
					if thorough {
						for b := 1; b <= l1; b++ {
							divs = append(divs, b)
						}
					} else {
						for _, b := range []int{1, 2, 8, 9, 32, 33, 64, 65, l1 / 2, l1 - 1, l1} {
							if b >= 1 && b <= l1 {
								divs = append(divs, b)
							}
						}
					}
					for _, b := range divs {
						p1 := zvPfx{fam, zvBitsOf(fam, fill, l1)}
						var p2 zvPfx
						if b == 0 {
							p2 = zvPfx{fam, zvBitsOf(fam, fill, l1) + string(inv) + zvBitsOf(fam, fill, l2-l1-1)}
						} else {
							p2 = zvPfx{fam, zvBitsOf(fam, fill, b-1) + string(inv) + zvBitsOf(fam, fill, l2-b)}
						}
						thirds := []zvPfx{{fam, ""}}
						if l2 < w {
							thirds = append(thirds, zvPfx{fam, p2.Bits + zvBitsOf(fam, inv, w-l2)}) // host route under p2
						}
						if b > 0 {
							thirds = append(thirds, zvPfx{fam, p1.Bits[:b-1]}) // the common supernet itself (the would-be dummy node)
						}
						if l2 > 0 {
							lb := byte('0')
							if p2.Bits[l2-1] == '0' {
								lb = '1'
							}
							thirds = append(thirds, zvPfx{fam, p2.Bits[:l2-1] + string(lb)}) // sibling of p2
						}
						for _, t := range thirds {
							emit([]zvPfx{p1, p2, t})
						}
					}
				}
			}
		}
	}
	return out
}

func TestVerifC01(t *testing.T) {
	r := vh.Start(t, "C01")
	defer r.Finish()
	r.Rule("per prefix universe (every length pair of the tier's length set x relation nested|diverging-at-bit-b x third prefix default|host|common-supernet|sibling x fill pattern), " +
		"BFS over all sequences of AddPath/RemovePath/ReplacePath/RemovePfx until the canonical state (model + private trie shape) set closes; " +
		"oracle after every transition on every probe prefix; evaluations = universes explored")
	r.Require("get_stored", "lpm_multi", "getlonger_absent_query_nonempty", "getlonger_stored_multi")
	if r.IsReplay() {
		var c zvC01Case
		r.ReplayCase(&c)
		real := make([]*bnet.Prefix, len(c.Universe))
		for i := range c.Universe {
			real[i] = c.Universe[i].real()
		}
		probes := zvProbes(c.Universe)
		pr := make([]*bnet.Prefix, len(probes))
		for i := range probes {
			pr[i] = probes[i].real()
		}
		// check the oracle after every prefix of the history
		for n := 0; n <= len(c.Hist); n++ {
			zvC01Step(r, c.Universe, real, probes, pr, nil, c.Hist[:n])
		}
		for _, k := range []string{"get_stored", "lpm_multi", "getlonger_absent_query_nonempty", "getlonger_stored_multi"} {
			r.Count(k, 1)
		}
		return
	}
	us := zvC01Universes(r.Thorough())
	r.Extra("universes_total", len(us))
	for i, u := range us {
		if !r.Mine(i) {
			continue
		}
		if r.OutOfBudget() {
			r.Cap("time budget: not all universes explored")
			break
		}
		zvC01Universe(r, u, 0)
		if i == 0 {
			j, _ := json.Marshal(u)
			r.Sample(map[string]any{"universe": json.RawMessage(j)})
		}
	}
}
