#!/bin/sh
# tools/coverage.sh <ID> [tier] — coverage survey: runs the check with statement coverage of the whole repository and
# lists the blocks of the property's anchored files that the enumeration never reached (candidates for the alphabet).
# Output: /var/tmp/cov/<ID>.uncovered.txt. Not a check: nothing here decides a property.
ID="$1"; TIER="${2:-quick}"
D=/var/tmp/cov; mkdir -p $D; rm -f $D/$ID.*.cov; rm -rf $D/work-$ID
cd /verif
VERIF_COVER=$D VERIF_WORK=$D/work-$ID ./run $ID $TIER --keep > $D/$ID.log 2>&1
tail -1 $D/$ID.log | cut -c1-160
python3 - "$ID" <<'PY'
import sys,glob,json,re,os,collections
ID=sys.argv[1]; D='/var/tmp/cov'
prop=[json.loads(l) for l in open('/verif/properties.jsonl') if json.loads(l)['id']==ID][0]
anch=set(prop['anchors']['files'])
ov={}
for f in glob.glob(f'{D}/work-{ID}/verif-*/overlay.json'):
    ov.update(json.load(open(f))['Replace'])
cov=collections.defaultdict(int); stm={}
for f in glob.glob(f'{D}/{ID}.*.cov'):
    for l in open(f):
        if l.startswith('mode:'): continue
        m=re.match(r'(.*):(\d+)\.(\d+),(\d+)\.(\d+) (\d+) (\d+)',l)
        if not m: continue
        k=(m.group(1),int(m.group(2)),int(m.group(3)),int(m.group(4)),int(m.group(5)))
        stm[k]=int(m.group(6)); cov[k]+=int(m.group(7))
out=open(f'{D}/{ID}.uncovered.txt','w')
pref='github.com/bio-routing/bio-rd/'
tot=unc=0
byfile=collections.defaultdict(list)
for k,c in cov.items():
    rel=k[0][len(pref):] if k[0].startswith(pref) else k[0]
    if rel not in anch: continue
    tot+=stm[k]
    if c==0:
        unc+=stm[k]; byfile[rel].append(k)
for rel,ks in sorted(byfile.items()):
    src='/repo/'+rel
    src=ov.get(src,src)
    try: lines=open(src).read().split('\n')
    except Exception: lines=[]
    out.write(f'=== {rel} (source shown: {src})\n')
    for k in sorted(ks,key=lambda x:x[1]):
        text=' | '.join(x.strip() for x in lines[k[1]-1:min(k[3],k[1]+3)])
        out.write(f'  {k[1]}-{k[3]}: {text[:200]}\n')
out.write(f'\nanchored files: {tot} statements, {unc} never executed\n')
print(f'{ID}: anchored files {sorted(anch)}: {tot} statements, {unc} never executed -> {D}/{ID}.uncovered.txt')
PY
