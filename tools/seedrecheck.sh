#!/bin/sh
# tools/seedrecheck.sh <seeded-name> <ID>[,<ID>...] "<what was strengthened>"
# Re-runs the checks against an already confirmed seeded change (after a check was strengthened) and updates
# /verif/seeded/<name>/meta.json: detection, first_run (what the checks said before), strengthened.
set -u
NAME="$1"; IDS="$2"; NOTE="${3:-}"
D="/verif/seeded/$NAME"
OUT=$(SKIP_TESTS=1 /verif/tools/mutcheck.sh "$IDS" "$D/patch.diff" quick 2>&1)
echo "$OUT"
python3 - "$D/meta.json" "$OUT" "$NOTE" "$IDS" <<'PY'
import json,sys,re
p=sys.argv[1]; m=json.load(open(p))
out=sys.argv[2]
det=[]
for l in out.splitlines():
    mm=re.match(r'(DETECTED|MISSED|ERROR) ([A-Z]+[0-9]+):? ?(.*)',l)
    if not mm: continue
    k,i,rest=mm.groups()
    if k=='DETECTED':
        sig=re.search(r'signature: (.*)',rest)
        det.append('DETECTED by %s quick: %s'%(i,(sig.group(1) if sig else rest)[:200]))
    elif k=='MISSED': det.append('MISSED by %s (quick)'%i)
    else: det.append('ERROR %s %s'%(i,rest[:200]))
if 'first_run' not in m: m['first_run']=m.get('detection','')
m['detection']=' | '.join(det)+' | '
if sys.argv[3]: m['strengthened']=sys.argv[3]
m['checks_run']=sys.argv[4]
json.dump(m,open(p,'w'),indent=1)
PY
