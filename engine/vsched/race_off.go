//go:build !race

package vsched

func raceDisable() {}
func raceEnable()  {}
