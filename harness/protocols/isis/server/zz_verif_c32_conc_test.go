package server

// C32, concurrent part — received copies of the own LSP racing with the
// asynchronous re-origination (engine E3): several frames are queued on the
// circuits at once, the receiver goroutines and the own-LSP updater goroutine
// are interleaved in every way up to a preemption bound. Oracle at the final
// quiescent point (after one more explicit origination): the own LSP in the
// database is ours and its sequence number is higher than every copy received
// (ISO 10589 7.3.16.1) and higher than every own sequence number seen before.

import (
	"fmt"
	"strconv"
	"strings"

	"github.com/bio-routing/bio-rd/zzverif/vh"
	"github.com/bio-routing/bio-rd/zzverif/vsched"
)

type zvC32ConcCase struct {
	Conc     bool     `json:"concurrent_part"`
	Frames   []string `json:"frames"` // <circuit>:<own sequence number relative to set-up>
	Schedule []int    `json:"schedule"`
	Bound    int      `json:"preemption_bound"`
}

func zvC32ConcRun(r *vh.Run, c zvC32ConcCase, only []int) {
	var own0, final uint32
	var ours bool
	var maxRecv uint32
	body := func() {
		vsched.SetExploring(false)
		w := zvC32World()
		own0 = w.lsdbObs()["own"].Seq
		maxRecv = 0
		type fr struct {
			n zvNbr
			b []byte
		}
		var frames []fr
		for _, f := range c.Frames {
			p := strings.Split(f, ":")
			k, _ := strconv.Atoi(p[1])
			seq := uint32(int(own0) + k)
			if seq > maxRecv {
				maxRecv = seq
			}
			frames = append(frames, fr{zvC32Nbr(p[0]), zvC32LSPFrame(zvC32LSPID("own"), seq, 1200)})
		}
		vsched.SetExploring(true)
		// all frames are on the wire before the server gets to run
		for _, f := range frames {
			if e := w.eth(f.n.Ifa); e != nil {
				e.deliver(f.n.MAC, f.b)
			}
		}
		vsched.Settle()
		vsched.SetExploring(false)
		w.srv.updateL2LSP() // whatever is pending: one more origination must overtake everything
		vsched.Settle()
		o := w.lsdbObs()["own"]
		final, ours = 0, false
		if o != nil {
			final, ours = o.Seq, o.Ours
		}
	}
	check := func(x *vsched.Execution) {
		r.Eval(1)
		r.Count("conc_executions", 1)
		cc := c
		cc.Schedule = x.Choices
		if x.Status != vsched.Completed {
			r.Violation(vh.Sig("clause", "conc-run-"+x.Status.String()), cc, "own-LSP copies %v racing with the re-origination: execution %s %s %.300s", c.Frames, x.Status, x.Blocked, x.Crash)
			return
		}
		r.Outcome(fmt.Sprint("conc", c.Frames, int(final)-int(own0), ours))
		if !ours {
			r.Violation(vh.Sig("clause", "own-lsp-foreign-copy-kept", "mode", "concurrent"), cc, "after copies %v of the own LSP were received and the own LSP was originated again, the database holds a copy that is not ours (seq %d)", c.Frames, final)
			return
		}
		if final <= maxRecv {
			r.Violation(vh.Sig("clause", "own-lsp-not-overtaking", "mode", "concurrent"), cc,
				"copies of the own LSP with sequence numbers (relative to %d) %v were received; after the next origination the own LSP has sequence number %d, not above the highest received (%d)", own0, c.Frames, final, maxRecv)
		}
		if final <= own0 {
			r.Violation(vh.Sig("clause", "own-lsp-sequence-went-back", "mode", "concurrent"), cc, "own sequence number went from %d to %d", own0, final)
		}
	}
	cfg := vsched.Config{MaxSteps: 400000}
	if only != nil {
		cfg.Trace, cfg.Sites = true, true
		x := vsched.Replay(cfg, only, body)
		for _, l := range x.Log {
			fmt.Println("   ", l)
		}
		check(x)
		return
	}
	e := &vsched.Explorer{Bound: c.Bound, Body: body, Check: check, Stop: r.OutOfBudget, Cfg: cfg}
	e.Run()
	if e.Err != nil {
		r.Fatalf("concurrent scenario %+v: %v", c, e.Err)
	}
	if e.Capped {
		r.Cap("time budget (concurrent part)")
	}
	r.States(e.Executions)
	r.Transitions(e.Executions)
}

func zvC32Concurrent(r *vh.Run, idx int) {
	bound := 2
	if r.Thorough() {
		bound = 3
	}
	rels := []string{"+2", "+5", "-1"}
	var sets [][]string
	for _, a := range rels {
		for _, b := range rels {
			if a == b {
				continue
			}
			sets = append(sets, []string{"eth0:" + a, "eth0:" + b}) // same circuit: processed in this order
			sets = append(sets, []string{"eth0:" + a, "eth1:" + b}) // two circuits: two receivers
		}
	}
	if r.Thorough() {
		sets = append(sets, []string{"eth0:+5", "eth0:+2", "eth1:+3"}, []string{"eth0:+2", "eth1:+5", "eth0:+3"})
	}
	for _, fs := range sets {
		idx++
		if !r.Mine(idx) {
			continue
		}
		zvC32ConcRun(r, zvC32ConcCase{Conc: true, Frames: fs, Bound: bound}, nil)
	}
}
