// Package instr rewrites repo packages onto the virtual runtime (engine E1).
//
// For each listed package directory it parses the non-test Go files of the
// current working tree, type-checks them (export data of the dependencies comes
// from `go list -export`), rewrites
//
//	import "sync" / "time" / "context"(opt-in) / benbjohnson clock  ->  shim packages
//	go f(a, b)                 ->  bind callee and arguments, vsched.Go(func(){ f(a,b) })
//	ch <- v, <-ch, v,ok := <-ch, close(ch), for x := range ch
//	select { ... }             ->  vsched.NewRecv/NewSend + switch vsched.Select(...)
//	for k, v := range aMap     ->  canonical key order (a legal Go iteration order)
//	aMap[k] = v (non-basic k)  ->  aMap[vsched.Touch(k)] = v
//	selected qualified calls   ->  harness-provided functions (opts["redirect"])
//
// and writes the copies to outDir. It fails loudly on anything it does not
// understand so that a source change cannot silently leave an un-instrumented
// hole.
package instr

import (
	"bytes"
	"encoding/json"
	"fmt"
	"go/ast"
	"go/importer"
	"go/parser"
	"go/printer"
	"go/token"
	"go/types"
	"io"
	"os"
	"os/exec"
	"path/filepath"
	"strconv"
	"strings"
)

const shimBase = "github.com/bio-routing/bio-rd/zzverif/"

type listPkg struct {
	ImportPath string
	Dir        string
	Export     string
	GoFiles    []string
	Standard   bool
}

func goList(repoRoot string, args ...string) ([]listPkg, error) {
	cmd := exec.Command("go", append([]string{"list", "-json=ImportPath,Dir,Export,GoFiles,Standard"}, args...)...)
	cmd.Dir = repoRoot
	env := os.Environ()
	env = append(env, "GOFLAGS=-mod=mod", "GOPROXY=off", "GOSUMDB=off", "GOTOOLCHAIN=local", "GOWORK=off")
	cmd.Env = env
	var out, errb bytes.Buffer
	cmd.Stdout, cmd.Stderr = &out, &errb
	if err := cmd.Run(); err != nil {
		return nil, fmt.Errorf("go list %v: %v\n%s", args, err, errb.String())
	}
	dec := json.NewDecoder(&out)
	var res []listPkg
	for {
		var p listPkg
		if err := dec.Decode(&p); err == io.EOF {
			break
		} else if err != nil {
			return nil, err
		}
		res = append(res, p)
	}
	return res, nil
}

// Rewrite instruments the given repo package directories and returns overlay
// replacements (original path -> rewritten copy).
func Rewrite(repoRoot string, pkgs []string, outDir string, opts map[string]any) (map[string]string, error) {
	var patterns []string
	for _, p := range pkgs {
		patterns = append(patterns, "./"+p)
	}
	deps, err := goList(repoRoot, append([]string{"-export", "-deps"}, patterns...)...)
	if err != nil {
		return nil, err
	}
	exports := map[string]string{}
	byDir := map[string]listPkg{}
	for _, d := range deps {
		if d.Export != "" {
			exports[d.ImportPath] = d.Export
		}
		byDir[d.Dir] = d
	}
	redirect := map[string]string{}
	if m, ok := opts["redirect"].(map[string]any); ok {
		for k, v := range m {
			redirect[k] = fmt.Sprint(v)
		}
	}
	ctxPkgs := map[string]bool{}
	if l, ok := opts["context"].([]any); ok {
		for _, v := range l {
			ctxPkgs[fmt.Sprint(v)] = true
		}
	}
	noMapOrder := false
	if v, ok := opts["no_map_order"].(bool); ok {
		noMapOrder = v
	}
	repl := map[string]string{}
	fset := token.NewFileSet()
	imp := importer.ForCompiler(fset, "gc", func(path string) (io.ReadCloser, error) {
		f, ok := exports[path]
		if !ok {
			return nil, fmt.Errorf("no export data for %s", path)
		}
		return os.Open(f)
	})
	for _, p := range pkgs {
		dir := filepath.Join(repoRoot, p)
		lp, ok := byDir[dir]
		if !ok {
			return nil, fmt.Errorf("package %s not found by go list", p)
		}
		var files []*ast.File
		for _, name := range lp.GoFiles {
			f, err := parser.ParseFile(fset, filepath.Join(dir, name), nil, parser.SkipObjectResolution)
			if err != nil {
				return nil, err
			}
			files = append(files, f)
		}
		info := &types.Info{Types: map[ast.Expr]types.TypeAndValue{}, Uses: map[*ast.Ident]types.Object{}}
		conf := types.Config{Importer: imp, Error: func(error) {}}
		if _, err := conf.Check(lp.ImportPath, fset, files, info); err != nil {
			return nil, fmt.Errorf("type-check %s: %v", p, err)
		}
		for i, f := range files {
			r := &rewriter{fset: fset, info: info, redirect: redirect, useCtx: ctxPkgs[p], noMapOrder: noMapOrder}
			if err := r.file(f); err != nil {
				return nil, fmt.Errorf("%s/%s: %v", p, lp.GoFiles[i], err)
			}
			var buf bytes.Buffer
			if err := printer.Fprint(&buf, fset, f); err != nil {
				return nil, err
			}
			dst := filepath.Join(outDir, p, lp.GoFiles[i])
			os.MkdirAll(filepath.Dir(dst), 0o755)
			if err := os.WriteFile(dst, buf.Bytes(), 0o644); err != nil {
				return nil, err
			}
			repl[filepath.Join(dir, lp.GoFiles[i])] = dst
		}
	}
	return repl, nil
}

type rewriter struct {
	fset       *token.FileSet
	info       *types.Info
	redirect   map[string]string
	useCtx     bool
	noMapOrder bool
	needSched  bool
	n          int
	err        error
	keepImport map[string]string // local import name -> a member to reference (keeps the import used)
	imports    map[string]string // local name -> path
}

func (r *rewriter) fail(n ast.Node, format string, a ...any) {
	if r.err == nil {
		r.err = fmt.Errorf("%s: %s", r.fset.Position(n.Pos()), fmt.Sprintf(format, a...))
	}
}

func (r *rewriter) fresh(prefix string) string {
	r.n++
	return fmt.Sprintf("zv%s%d", prefix, r.n)
}

func id(name string) *ast.Ident { return ast.NewIdent(name) }

func sel(pkg, name string) ast.Expr { return &ast.SelectorExpr{X: id(pkg), Sel: id(name)} }

func call(fn ast.Expr, args ...ast.Expr) *ast.CallExpr { return &ast.CallExpr{Fun: fn, Args: args} }

func (r *rewriter) sched(name string) ast.Expr {
	r.needSched = true
	return sel("zvsched", name)
}

func (r *rewriter) file(f *ast.File) error {
	f.Comments = nil
	f.Doc = nil
	r.keepImport = map[string]string{}
	r.imports = map[string]string{}
	shim := map[string]string{
		"sync":                         "vsync",
		"time":                         "vtime",
		"github.com/benbjohnson/clock": "vclock",
	}
	if r.useCtx {
		shim["context"] = "vcontext"
	}
	for _, im := range f.Imports {
		path, _ := strconv.Unquote(im.Path.Value)
		name := filepath.Base(path)
		if im.Name != nil {
			name = im.Name.Name
		}
		r.imports[name] = path
		if s, ok := shim[path]; ok {
			if im.Name == nil {
				im.Name = id(name)
			}
			im.Path.Value = strconv.Quote(shimBase + s)
		}
		im.Doc, im.Comment = nil, nil
	}
	for _, d := range f.Decls {
		switch d := d.(type) {
		case *ast.FuncDecl:
			d.Doc = nil
			if d.Body != nil {
				d.Body.List = r.stmts(d.Body.List)
			}
		case *ast.GenDecl:
			d.Doc = nil
			for _, sp := range d.Specs {
				switch sp := sp.(type) {
				case *ast.ValueSpec:
					sp.Doc, sp.Comment = nil, nil
					for i := range sp.Values {
						sp.Values[i] = r.expr(sp.Values[i])
					}
				case *ast.TypeSpec:
					sp.Doc, sp.Comment = nil, nil
					stripFieldComments(sp.Type)
				}
			}
		}
	}
	if r.err != nil {
		return r.err
	}
	if r.needSched {
		addImport(f, "zvsched", shimBase+"vsched")
	}
	for name, member := range r.keepImport {
		f.Decls = append(f.Decls, &ast.GenDecl{Tok: token.VAR, Specs: []ast.Spec{&ast.ValueSpec{Names: []*ast.Ident{id("_")}, Values: []ast.Expr{sel(name, member)}}}})
	}
	return nil
}

func stripFieldComments(n ast.Node) {
	ast.Inspect(n, func(n ast.Node) bool {
		if f, ok := n.(*ast.Field); ok {
			f.Doc, f.Comment = nil, nil
		}
		return true
	})
}

func addImport(f *ast.File, name, path string) {
	spec := &ast.ImportSpec{Name: id(name), Path: &ast.BasicLit{Kind: token.STRING, Value: strconv.Quote(path)}}
	for _, d := range f.Decls {
		if g, ok := d.(*ast.GenDecl); ok && g.Tok == token.IMPORT {
			g.Specs = append(g.Specs, spec)
			if !g.Lparen.IsValid() {
				g.Lparen = g.Pos()
				g.Rparen = g.End()
			}
			return
		}
	}
	f.Decls = append([]ast.Decl{&ast.GenDecl{Tok: token.IMPORT, Specs: []ast.Spec{spec}}}, f.Decls...)
}

func (r *rewriter) stmts(list []ast.Stmt) []ast.Stmt {
	var out []ast.Stmt
	for _, s := range list {
		pre, main := r.stmt(s)
		out = append(out, pre...)
		if main != nil {
			out = append(out, main)
		}
	}
	return out
}

func (r *rewriter) block(b *ast.BlockStmt) *ast.BlockStmt {
	if b != nil {
		b.List = r.stmts(b.List)
	}
	return b
}

// simple rewrites a statement that must stay a single statement (init/post clauses).
func (r *rewriter) simple(s ast.Stmt) ast.Stmt {
	if s == nil {
		return nil
	}
	pre, main := r.stmt(s)
	if len(pre) > 0 {
		r.fail(s, "statement in init/post position needs a prelude; not supported")
	}
	return main
}

func (r *rewriter) stmt(s ast.Stmt) (pre []ast.Stmt, main ast.Stmt) {
	switch s := s.(type) {
	case nil:
		return nil, nil
	case *ast.BlockStmt:
		return nil, r.block(s)
	case *ast.ExprStmt:
		s.X = r.expr(s.X)
		return nil, s
	case *ast.AssignStmt:
		if len(s.Lhs) == 2 && len(s.Rhs) == 1 {
			if u, ok := s.Rhs[0].(*ast.UnaryExpr); ok && u.Op == token.ARROW {
				s.Rhs[0] = call(r.sched("Recv2"), r.expr(u.X))
				for i := range s.Lhs {
					s.Lhs[i] = r.expr(s.Lhs[i])
				}
				return nil, s
			}
		}
		for i := range s.Rhs {
			s.Rhs[i] = r.expr(s.Rhs[i])
		}
		for i := range s.Lhs {
			s.Lhs[i] = r.lhs(s.Lhs[i])
		}
		return nil, s
	case *ast.SendStmt:
		return nil, &ast.ExprStmt{X: call(&ast.SelectorExpr{X: call(r.sched("To"), r.expr(s.Chan)), Sel: id("Send")}, r.expr(s.Value))}
	case *ast.GoStmt:
		return r.goStmt(s)
	case *ast.DeferStmt:
		s.Call = r.expr(s.Call).(*ast.CallExpr)
		return nil, s
	case *ast.ReturnStmt:
		for i := range s.Results {
			s.Results[i] = r.expr(s.Results[i])
		}
		return nil, s
	case *ast.IfStmt:
		s.Init = r.simple(s.Init)
		s.Cond = r.expr(s.Cond)
		s.Body = r.block(s.Body)
		if s.Else != nil {
			p, m := r.stmt(s.Else)
			if len(p) > 0 {
				m = &ast.BlockStmt{List: append(p, m)}
			}
			s.Else = m
		}
		return nil, s
	case *ast.ForStmt:
		s.Init = r.simple(s.Init)
		if s.Cond != nil {
			s.Cond = r.expr(s.Cond)
		}
		s.Post = r.simple(s.Post)
		s.Body = r.block(s.Body)
		return nil, s
	case *ast.RangeStmt:
		return r.rangeStmt(s)
	case *ast.SwitchStmt:
		s.Init = r.simple(s.Init)
		if s.Tag != nil {
			s.Tag = r.expr(s.Tag)
		}
		r.block(s.Body)
		return nil, s
	case *ast.TypeSwitchStmt:
		s.Init = r.simple(s.Init)
		s.Assign = r.simple(s.Assign)
		r.block(s.Body)
		return nil, s
	case *ast.CaseClause:
		for i := range s.List {
			s.List[i] = r.expr(s.List[i])
		}
		s.Body = r.stmts(s.Body)
		return nil, s
	case *ast.SelectStmt:
		return r.selectStmt(s)
	case *ast.LabeledStmt:
		p, m := r.stmt(s.Stmt)
		s.Stmt = m
		return p, s
	case *ast.DeclStmt:
		if g, ok := s.Decl.(*ast.GenDecl); ok {
			for _, sp := range g.Specs {
				if v, ok := sp.(*ast.ValueSpec); ok {
					for i := range v.Values {
						v.Values[i] = r.expr(v.Values[i])
					}
				}
			}
		}
		return nil, s
	case *ast.IncDecStmt:
		s.X = r.expr(s.X)
		return nil, s
	case *ast.BranchStmt, *ast.EmptyStmt:
		return nil, s
	}
	r.fail(s, "unsupported statement %T", s)
	return nil, s
}

// lhs rewrites an assignment target; map index keys of non-basic type are touched.
func (r *rewriter) lhs(e ast.Expr) ast.Expr {
	if ix, ok := e.(*ast.IndexExpr); ok {
		if tv, ok := r.info.Types[ix.X]; ok {
			if m, ok := tv.Type.Underlying().(*types.Map); ok {
				if _, basic := m.Key().Underlying().(*types.Basic); !basic {
					ix.X = r.expr(ix.X)
					ix.Index = call(r.sched("Touch"), r.expr(ix.Index))
					return ix
				}
			}
		}
	}
	return r.expr(e)
}

func (r *rewriter) exprs(l []ast.Expr) {
	for i := range l {
		l[i] = r.expr(l[i])
	}
}

func (r *rewriter) expr(e ast.Expr) ast.Expr {
	switch e := e.(type) {
	case nil:
		return nil
	case *ast.UnaryExpr:
		if e.Op == token.ARROW {
			return call(r.sched("Recv"), r.expr(e.X))
		}
		e.X = r.expr(e.X)
		return e
	case *ast.CallExpr:
		if f, ok := e.Fun.(*ast.Ident); ok && f.Name == "close" && len(e.Args) == 1 {
			if obj, ok := r.info.Uses[f]; ok {
				if _, isBuiltin := obj.(*types.Builtin); isBuiltin {
					return call(r.sched("Close"), r.expr(e.Args[0]))
				}
			}
		}
		if s, ok := e.Fun.(*ast.SelectorExpr); ok {
			if x, ok := s.X.(*ast.Ident); ok {
				if to, ok := r.redirect[x.Name+"."+s.Sel.Name]; ok {
					if _, isPkg := r.info.Uses[x].(*types.PkgName); isPkg {
						r.keepImport[x.Name] = s.Sel.Name
						e.Fun = id(to)
						r.exprs(e.Args)
						return e
					}
				}
			}
		}
		e.Fun = r.expr(e.Fun)
		r.exprs(e.Args)
		return e
	case *ast.FuncLit:
		e.Body = r.block(e.Body)
		return e
	case *ast.BinaryExpr:
		e.X, e.Y = r.expr(e.X), r.expr(e.Y)
		return e
	case *ast.ParenExpr:
		e.X = r.expr(e.X)
		return e
	case *ast.SelectorExpr:
		e.X = r.expr(e.X)
		return e
	case *ast.IndexExpr:
		e.X, e.Index = r.expr(e.X), r.expr(e.Index)
		return e
	case *ast.IndexListExpr:
		e.X = r.expr(e.X)
		return e
	case *ast.SliceExpr:
		e.X, e.Low, e.High, e.Max = r.expr(e.X), r.expr(e.Low), r.expr(e.High), r.expr(e.Max)
		return e
	case *ast.StarExpr:
		e.X = r.expr(e.X)
		return e
	case *ast.TypeAssertExpr:
		e.X = r.expr(e.X)
		return e
	case *ast.KeyValueExpr:
		e.Key, e.Value = r.expr(e.Key), r.expr(e.Value)
		return e
	case *ast.CompositeLit:
		r.exprs(e.Elts)
		return e
	case *ast.Ident, *ast.BasicLit, *ast.ArrayType, *ast.StructType, *ast.FuncType, *ast.InterfaceType, *ast.MapType, *ast.ChanType, *ast.Ellipsis:
		return e
	}
	r.fail(e, "unsupported expression %T", e)
	return e
}

func define(name string, v ast.Expr) ast.Stmt {
	return &ast.AssignStmt{Lhs: []ast.Expr{id(name)}, Tok: token.DEFINE, Rhs: []ast.Expr{v}}
}

// go f(a, b): callee and arguments are evaluated now, the call runs in a managed thread.
func (r *rewriter) goStmt(s *ast.GoStmt) ([]ast.Stmt, ast.Stmt) {
	c := s.Call
	var pre []ast.Stmt
	fn := r.fresh("f")
	pre = append(pre, define(fn, r.expr(c.Fun)))
	var args []ast.Expr
	for _, a := range c.Args {
		an := r.fresh("a")
		pre = append(pre, define(an, r.expr(a)))
		args = append(args, id(an))
	}
	if c.Ellipsis.IsValid() {
		r.fail(s, "go statement with variadic spread not supported")
	}
	body := &ast.BlockStmt{List: []ast.Stmt{&ast.ExprStmt{X: call(id(fn), args...)}}}
	lit := &ast.FuncLit{Type: &ast.FuncType{Params: &ast.FieldList{}}, Body: body}
	return pre, &ast.ExprStmt{X: call(r.sched("Go"), lit)}
}

func (r *rewriter) rangeStmt(s *ast.RangeStmt) ([]ast.Stmt, ast.Stmt) {
	tv, ok := r.info.Types[s.X]
	if !ok {
		r.fail(s, "no type information for range expression")
		return nil, s
	}
	s.X = r.expr(s.X)
	switch t := tv.Type.Underlying().(type) {
	case *types.Chan:
		// for x := range ch  ->  for { x, ok := Recv2(ch); if !ok { break }; body }
		ch := r.fresh("ch")
		pre := []ast.Stmt{define(ch, s.X)}
		okv := r.fresh("ok")
		var lhs ast.Expr = id("_")
		tok := token.DEFINE
		if s.Key != nil {
			lhs = s.Key
			tok = s.Tok
		}
		recv := &ast.AssignStmt{Lhs: []ast.Expr{lhs, id(okv)}, Tok: token.DEFINE, Rhs: []ast.Expr{call(r.sched("Recv2"), id(ch))}}
		if tok == token.ASSIGN {
			r.fail(s, "range over channel with assignment not supported")
		}
		brk := &ast.IfStmt{Cond: &ast.UnaryExpr{Op: token.NOT, X: id(okv)}, Body: &ast.BlockStmt{List: []ast.Stmt{&ast.BranchStmt{Tok: token.BREAK}}}}
		body := r.block(s.Body)
		body.List = append([]ast.Stmt{recv, brk}, body.List...)
		return pre, &ast.ForStmt{Body: body}
	case *types.Map:
		if r.noMapOrder {
			s.Body = r.block(s.Body)
			return nil, s
		}
		if s.Tok == token.ASSIGN {
			r.fail(s, "range over map with assignment not supported")
			return nil, s
		}
		m := r.fresh("m")
		pre := []ast.Stmt{define(m, s.X)}
		keyName := "_"
		if k, ok := s.Key.(*ast.Ident); ok && s.Key != nil {
			keyName = k.Name
		}
		hasVal := false
		if v, ok := s.Value.(*ast.Ident); ok && s.Value != nil && v.Name != "_" {
			hasVal = true
		}
		if keyName == "_" && hasVal {
			keyName = r.fresh("k")
		}
		body := r.block(s.Body)
		if hasVal {
			okv := r.fresh("ok")
			get := &ast.AssignStmt{Lhs: []ast.Expr{s.Value, id(okv)}, Tok: token.DEFINE, Rhs: []ast.Expr{&ast.IndexExpr{X: id(m), Index: id(keyName)}}}
			cont := &ast.IfStmt{Cond: &ast.UnaryExpr{Op: token.NOT, X: id(okv)}, Body: &ast.BlockStmt{List: []ast.Stmt{&ast.BranchStmt{Tok: token.CONTINUE}}}}
			body.List = append([]ast.Stmt{get, cont}, body.List...)
		}
		_ = t
		ns := &ast.RangeStmt{Key: id("_"), Value: id(keyName), Tok: token.DEFINE, X: call(r.sched("SortedKeys"), id(m)), Body: body}
		if keyName == "_" {
			ns.Value = nil
			ns.Key = nil
			ns.Tok = token.ILLEGAL
		}
		return pre, ns
	}
	s.Body = r.block(s.Body)
	return nil, s
}

func (r *rewriter) selectStmt(s *ast.SelectStmt) ([]ast.Stmt, ast.Stmt) {
	var pre []ast.Stmt
	var caseVars []ast.Expr
	var clauses []ast.Stmt
	hasDefault := false
	idx := 0
	for _, cl := range s.Body.List {
		cc := cl.(*ast.CommClause)
		body := r.stmts(cc.Body)
		if cc.Comm == nil {
			hasDefault = true
			clauses = append(clauses, &ast.CaseClause{List: []ast.Expr{&ast.UnaryExpr{Op: token.SUB, X: &ast.BasicLit{Kind: token.INT, Value: "1"}}}, Body: body})
			continue
		}
		cv := r.fresh("c")
		var head []ast.Stmt
		switch c := cc.Comm.(type) {
		case *ast.SendStmt:
			pre = append(pre, define(cv, call(&ast.SelectorExpr{X: call(r.sched("To"), r.expr(c.Chan)), Sel: id("Case")}, r.expr(c.Value))))
		case *ast.ExprStmt:
			u, ok := c.X.(*ast.UnaryExpr)
			if !ok || u.Op != token.ARROW {
				r.fail(cc, "unsupported select communication")
				continue
			}
			pre = append(pre, define(cv, call(r.sched("NewRecv"), r.expr(u.X))))
		case *ast.AssignStmt:
			u, ok := c.Rhs[0].(*ast.UnaryExpr)
			if !ok || u.Op != token.ARROW || len(c.Rhs) != 1 {
				r.fail(cc, "unsupported select communication")
				continue
			}
			pre = append(pre, define(cv, call(r.sched("NewRecv"), r.expr(u.X))))
			rhs := []ast.Expr{&ast.SelectorExpr{X: id(cv), Sel: id("V")}}
			if len(c.Lhs) == 2 {
				rhs = append(rhs, &ast.SelectorExpr{X: id(cv), Sel: id("OK")})
			}
			head = append(head, &ast.AssignStmt{Lhs: c.Lhs, Tok: c.Tok, Rhs: rhs})
		default:
			r.fail(cc, "unsupported select communication %T", c)
			continue
		}
		caseVars = append(caseVars, id(cv))
		clauses = append(clauses, &ast.CaseClause{List: []ast.Expr{&ast.BasicLit{Kind: token.INT, Value: strconv.Itoa(idx)}}, Body: append(head, body...)})
		idx++
	}
	dflt := "false"
	if hasDefault {
		dflt = "true"
	}
	args := append([]ast.Expr{id(dflt)}, caseVars...)
	sw := &ast.SwitchStmt{Tag: call(r.sched("Select"), args...), Body: &ast.BlockStmt{List: clauses}}
	return pre, sw
}

var _ = strings.Contains
