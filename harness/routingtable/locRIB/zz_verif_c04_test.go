package locRIB

// C04 — Loc-RIB clients hold exactly the selected paths they asked for
// (sequential part, engine E4).
//
// Real LocRIB + recording RouteTableClients. For every pair of client options
// from {BestOnly, EcmpOnly, MaxPaths 1..4} an explicit-state BFS runs over all
// sequences of
//   AddPath / RemovePath / ReplacePath on the Loc-RIB (2 prefixes; 4 BGP paths
//   B,E1,E2,W + static S [+ S2]; see zvC04Items for the per-tier alphabets),
//   RegisterWithOptions / Unregister / RefreshClient per client, Dispose,
// until the canonical state set closes. Every reached state is a quiescent
// point; the oracle is evaluated on every one of them.
//
// Layout (so that the concurrent part can reuse it on a controlled scheduler):
//   zvC04Client         recording RouteTableClient (call log + accumulated set)
//   zvC04Env            real LocRIB + recording clients + bookkeeping
//   zvC04Env.Apply      executes ONE operation on the real objects (the
//                       register/unregister bookkeeping is in there as well)
//   zvC04Env.Check      the oracle (pure observation through the public API)
//   zvC04Env.Canon      canonical state
//   zvC04Admitted       the first paths of a selection that an option admits
//   zvC04Explorer       the BFS driver (only user of vh.BFS): run/coverage/explore

import (
	"crypto/sha256"
	"encoding/json"
	"fmt"
	"runtime/debug"
	"sort"
	"strings"
	"testing"

	bnet "github.com/bio-routing/bio-rd/net"
	"github.com/bio-routing/bio-rd/protocols/bgp/types"
	"github.com/bio-routing/bio-rd/route"
	"github.com/bio-routing/bio-rd/routingtable"
	"github.com/bio-routing/bio-rd/util/log"
	"github.com/bio-routing/bio-rd/zzverif/vh"
	"github.com/bio-routing/bio-rd/zzverif/vsync"
)

// ---------------------------------------------------------------------------
// alphabet

// zvC04Opt is a client option: best | ecmp | max(N).
type zvC04Opt struct {
	Kind string `json:"kind"`
	N    uint   `json:"n,omitempty"`
}

func (o zvC04Opt) String() string {
	if o.Kind == "max" {
		return fmt.Sprintf("max%d", o.N)
	}
	return o.Kind
}

func (o zvC04Opt) real() routingtable.ClientOptions {
	switch o.Kind {
	case "best":
		return routingtable.ClientOptions{BestOnly: true}
	case "ecmp":
		return routingtable.ClientOptions{EcmpOnly: true}
	}
	return routingtable.ClientOptions{MaxPaths: o.N}
}

var zvC04Opts = []zvC04Opt{{"best", 0}, {"ecmp", 0}, {"max", 1}, {"max", 2}, {"max", 3}, {"max", 4}}

// zvC04Op is one operation of the alphabet.
type zvC04Op struct {
	Kind string `json:"op"`   // add | remove | replace | register | unregister | refresh | dispose
	P    int8   `json:"pfx"`  // prefix index (add/remove/replace)
	X    int8   `json:"path"` // path index (add/remove; the OLD path of replace)
	Y    int8   `json:"new"`  // the NEW path of replace
	C    int8   `json:"cli"`  // client index (register/unregister/refresh)
}

func (o zvC04Op) String() string {
	switch o.Kind {
	case "add", "remove":
		return fmt.Sprintf("%s(p%d,%s)", o.Kind, o.P, zvC04PathNames[o.X])
	case "replace":
		return fmt.Sprintf("replace(p%d,%s->%s)", o.P, zvC04PathNames[o.X], zvC04PathNames[o.Y])
	case "dispose":
		return "dispose"
	}
	return fmt.Sprintf("%s(c%d)", o.Kind, o.C)
}

// zvC04Case is the replay artefact.
type zvC04Case struct {
	Universe string      `json:"universe"` // nested | siblings
	Paths    [2][]int    `json:"paths"`    // path alphabet (indices into B,E1,E2,W,S,S2) of each prefix
	Opts     [2]zvC04Opt `json:"options"`
	Hist     []zvC04Op   `json:"history"`
}

// Path alphabet. Peer (source) addresses are pairwise distinct, so selection is
// a strict total order and no two paths are attribute-equal.
//
//	B   LOCAL_PREF 200                       -> better than everything
//	E1  LOCAL_PREF 100 MED 0  source .2      -> ECMP-equal with E2, wins the tie (lower source)
//	E2  LOCAL_PREF 100 MED 0  source .3
//	W   LOCAL_PREF 100 MED 10 source .4      -> worse, not equal-cost
//	S   static path                          (another protocol)
//	S2  second static path (thorough tier only; static paths are always equal-cost)
var zvC04PathNames = []string{"B", "E1", "E2", "W", "S", "S2"}

func zvC04MkPath(x int) *route.Path {
	bgp := func(lp, med uint32, peer uint8) *route.Path {
		return &route.Path{
			Type: route.BGPPathType,
			BGPPath: &route.BGPPath{
				ASPath:    types.NewASPath([]uint32{65001, 65002}),
				ASPathLen: 2,
				BGPPathA: &route.BGPPathA{
					LocalPref:     lp,
					MED:           med,
					Origin:        0,
					EBGP:          true,
					BGPIdentifier: 100 + uint32(peer),
					NextHop:       bnet.IPv4FromOctets(192, 0, 2, peer).Ptr(),
					Source:        bnet.IPv4FromOctets(192, 0, 2, peer).Ptr(),
				},
			},
		}
	}
	switch x {
	case 0:
		return bgp(200, 0, 1)
	case 1:
		return bgp(100, 0, 2)
	case 2:
		return bgp(100, 0, 3)
	case 3:
		return bgp(100, 10, 4)
	case 4:
		return &route.Path{Type: route.StaticPathType, StaticPath: &route.StaticPath{NextHop: bnet.IPv4FromOctets(198, 51, 100, 1).Ptr()}}
	case 5:
		return &route.Path{Type: route.StaticPathType, StaticPath: &route.StaticPath{NextHop: bnet.IPv4FromOctets(198, 51, 100, 2).Ptr()}}
	}
	panic("zvC04MkPath: bad index")
}

// zvC04PathKey is the attribute fingerprint by which the harness compares
// paths (never by pointer, never with the repo's Equal/Compare).
func zvC04PathKey(p *route.Path) string {
	if p == nil {
		return "<nil path>"
	}
	switch p.Type {
	case route.BGPPathType:
		if p.BGPPath == nil || p.BGPPath.BGPPathA == nil {
			return "bgp <incomplete>"
		}
		a := p.BGPPath.BGPPathA
		s := func(ip *bnet.IP) string {
			if ip == nil {
				return "-"
			}
			return ip.String()
		}
		return fmt.Sprintf("bgp lp=%d aslen=%d med=%d origin=%d ebgp=%v id=%d src=%s nh=%s pid=%d", a.LocalPref, p.BGPPath.ASPathLen, a.MED, a.Origin, a.EBGP, a.BGPIdentifier, s(a.Source), s(a.NextHop), p.BGPPath.PathIdentifier)
	case route.StaticPathType:
		if p.StaticPath == nil || p.StaticPath.NextHop == nil {
			return "static <incomplete>"
		}
		return "static nh=" + p.StaticPath.NextHop.String()
	}
	return fmt.Sprintf("type%d", p.Type)
}

// zvC04FP is the comparable form of the fingerprint (fast path of zvC04Name).
type zvC04FP struct {
	Type, Hidden, Origin uint8
	EBGP, Incomplete     bool
	LP, MED, ID, OrigID  uint32
	PID                  uint32
	ASLen                uint16
	Src, NH              bnet.IP
}

func zvC04FPOf(p *route.Path) zvC04FP {
	if p == nil {
		return zvC04FP{Incomplete: true}
	}
	f := zvC04FP{Type: p.Type, Hidden: p.HiddenReason}
	switch p.Type {
	case route.BGPPathType:
		if p.BGPPath == nil || p.BGPPath.BGPPathA == nil || p.BGPPath.BGPPathA.Source == nil || p.BGPPath.BGPPathA.NextHop == nil {
			f.Incomplete = true
			return f
		}
		a := p.BGPPath.BGPPathA
		f.LP, f.MED, f.ID, f.OrigID, f.Origin, f.EBGP = a.LocalPref, a.MED, a.BGPIdentifier, a.OriginatorID, a.Origin, a.EBGP
		f.Src, f.NH = *a.Source, *a.NextHop
		f.PID, f.ASLen = p.BGPPath.PathIdentifier, p.BGPPath.ASPathLen
	case route.StaticPathType:
		if p.StaticPath == nil || p.StaticPath.NextHop == nil {
			f.Incomplete = true
			return f
		}
		f.NH = *p.StaticPath.NextHop
	default:
		f.Incomplete = true
	}
	return f
}

var zvC04FPToName = func() map[zvC04FP]string {
	m := map[zvC04FP]string{}
	for i, n := range zvC04PathNames {
		m[zvC04FPOf(zvC04MkPath(i))] = n
	}
	if len(m) != len(zvC04PathNames) {
		panic("zvC04: path alphabet is not pairwise distinct")
	}
	return m
}()

// zvC04Name maps a path to its alphabet name ("?<fingerprint>" for a path that is not in the alphabet).
func zvC04Name(p *route.Path) string {
	if n, ok := zvC04FPToName[zvC04FPOf(p)]; ok {
		return n
	}
	return "?" + zvC04PathKey(p)
}

var zvC04PfxStrCache = map[bnet.Prefix]string{}

func zvC04PfxStr(p *bnet.Prefix) string {
	if p == nil {
		return "<nil prefix>"
	}
	if s, ok := zvC04PfxStrCache[*p]; ok {
		return s
	}
	s := p.String()
	zvC04PfxStrCache[*p] = s
	return s
}

func zvC04Prefixes(universe string) []*bnet.Prefix {
	if universe == "siblings" { // two leaves under a dummy node of the trie
		return []*bnet.Prefix{bnet.NewPfx(bnet.IPv4FromOctets(10, 0, 0, 0), 9).Ptr(), bnet.NewPfx(bnet.IPv4FromOctets(10, 128, 0, 0), 9).Ptr()}
	}
	return []*bnet.Prefix{bnet.NewPfx(bnet.IPv4FromOctets(10, 0, 0, 0), 8).Ptr(), bnet.NewPfx(bnet.IPv4FromOctets(10, 1, 0, 0), 16).Ptr()}
}

// ---------------------------------------------------------------------------
// recording client

type zvC04Call struct {
	Kind  string // add | dump | remove | replace | refresh | eor | dispose
	Pfx   string
	Paths []string
}

// zvC04Held is the accumulated set of one prefix: alphabet paths as a bit set
// (bit i = zvC04PathNames[i]), anything else by its "?fingerprint" name.
type zvC04Held struct {
	Pfx     string
	Bits    uint8
	Foreign []string
}

func (h *zvC04Held) names() []string {
	var out []string
	for i, n := range zvC04PathNames {
		if h.Bits&(1<<uint(i)) != 0 {
			out = append(out, n)
		}
	}
	f := append([]string{}, h.Foreign...)
	sort.Strings(f)
	return append(out, f...)
}

var zvC04NameIdx = func() map[string]int {
	m := map[string]int{}
	for i, n := range zvC04PathNames {
		m[n] = i
	}
	return m
}()

var zvC04One = func() map[string][]string { // shared one-element slices (never modified)
	m := map[string][]string{}
	for _, n := range zvC04PathNames {
		m[n] = []string{n}
	}
	return m
}()

func zvC04OneName(n string) []string {
	if s, ok := zvC04One[n]; ok {
		return s
	}
	return []string{n}
}

// zvC04Client records every call of the RouteTableClient interface and keeps
// the accumulated set: initial dump ∪ additions ∪ refreshed ∖ removals, per
// prefix, set semantics, paths identified by attribute fingerprint.
//
// Like every real Loc-RIB client (Adj-RIB-Out, another Loc-RIB, the BMP/RIS tables) it serializes its
// calls with a mutex of its own; under the controlled scheduler that makes every delivery to the client
// a scheduling point, so a delivery made outside the Loc-RIB's lock can be overtaken by another thread.
type zvC04Client struct {
	mu    vsync.Mutex
	Calls []zvC04Call
	Have  []zvC04Held // one entry per prefix with a non-empty set
}

func zvC04NewClient() *zvC04Client { return &zvC04Client{} }

func (c *zvC04Client) pfx(p *bnet.Prefix) string { return zvC04PfxStr(p) }

func (c *zvC04Client) give(pfx string, name string) {
	var h *zvC04Held
	for i := range c.Have {
		if c.Have[i].Pfx == pfx {
			h = &c.Have[i]
		}
	}
	if h == nil {
		c.Have = append(c.Have, zvC04Held{Pfx: pfx})
		h = &c.Have[len(c.Have)-1]
	}
	if i, ok := zvC04NameIdx[name]; ok {
		h.Bits |= 1 << uint(i)
	} else if !zvC04Contains(h.Foreign, name) {
		h.Foreign = append(h.Foreign, name)
	}
}

func (c *zvC04Client) take(pfx string, name string) {
	for i := range c.Have {
		h := &c.Have[i]
		if h.Pfx != pfx {
			continue
		}
		if k, ok := zvC04NameIdx[name]; ok {
			h.Bits &^= 1 << uint(k)
		} else {
			var f []string
			for _, n := range h.Foreign {
				if n != name {
					f = append(f, n)
				}
			}
			h.Foreign = f
		}
		if h.Bits == 0 && len(h.Foreign) == 0 {
			c.Have = append(c.Have[:i:i], c.Have[i+1:]...)
		}
		return
	}
}

// Held returns the names of the paths held for a prefix (alphabet order, then foreign names sorted).
func (c *zvC04Client) Held(pfx string) []string {
	for i := range c.Have {
		if c.Have[i].Pfx == pfx {
			return c.Have[i].names()
		}
	}
	return nil
}

func (c *zvC04Client) AddPath(pfx *bnet.Prefix, p *route.Path) error {
	c.mu.Lock()
	defer c.mu.Unlock()
	n := zvC04Name(p)
	c.Calls = append(c.Calls, zvC04Call{"add", c.pfx(pfx), zvC04OneName(n)})
	c.give(c.pfx(pfx), n)
	return nil
}

func (c *zvC04Client) AddPathInitialDump(pfx *bnet.Prefix, p *route.Path) error {
	c.mu.Lock()
	defer c.mu.Unlock()
	n := zvC04Name(p)
	c.Calls = append(c.Calls, zvC04Call{"dump", c.pfx(pfx), zvC04OneName(n)})
	c.give(c.pfx(pfx), n)
	return nil
}

func (c *zvC04Client) RemovePath(pfx *bnet.Prefix, p *route.Path) bool {
	c.mu.Lock()
	defer c.mu.Unlock()
	n := zvC04Name(p)
	c.Calls = append(c.Calls, zvC04Call{"remove", c.pfx(pfx), zvC04OneName(n)})
	c.take(c.pfx(pfx), n)
	return true
}

func (c *zvC04Client) ReplacePath(pfx *bnet.Prefix, old *route.Path, new *route.Path) {
	c.mu.Lock()
	defer c.mu.Unlock()
	c.Calls = append(c.Calls, zvC04Call{"replace", c.pfx(pfx), []string{zvC04Name(old), zvC04Name(new)}})
	c.take(c.pfx(pfx), zvC04Name(old))
	c.give(c.pfx(pfx), zvC04Name(new))
}

func (c *zvC04Client) RefreshRoute(pfx *bnet.Prefix, ps []*route.Path) {
	c.mu.Lock()
	defer c.mu.Unlock()
	call := zvC04Call{"refresh", c.pfx(pfx), nil}
	for _, p := range ps {
		call.Paths = append(call.Paths, zvC04Name(p))
		c.give(c.pfx(pfx), zvC04Name(p)) // re-sent paths count as given
	}
	c.Calls = append(c.Calls, call)
}

func (c *zvC04Client) EndOfRIB() {
	c.mu.Lock()
	defer c.mu.Unlock()
	c.Calls = append(c.Calls, zvC04Call{Kind: "eor"})
}
func (c *zvC04Client) Dispose() {
	c.mu.Lock()
	defer c.mu.Unlock()
	c.Calls = append(c.Calls, zvC04Call{Kind: "dispose"})
}

// Reset starts a new registration epoch (a client that registers begins with nothing).
func (c *zvC04Client) Reset() { c.Have = nil }

func (c *zvC04Client) haveString() string {
	ks := make([]string, 0, len(c.Have))
	for i := range c.Have {
		ks = append(ks, c.Have[i].Pfx+"{"+strings.Join(c.Have[i].names(), ",")+"}")
	}
	sort.Strings(ks)
	return strings.Join(ks, " ")
}

// zvC04NopLogger silences the repo's logger (the Loc-RIB builds a structured
// log entry per operation; with the default zap wrapper that costs more than
// the operation itself). Logging is not part of any observation.
type zvC04NopLogger struct{}

func (zvC04NopLogger) Errorf(string, ...interface{})               {}
func (zvC04NopLogger) Infof(string, ...interface{})                {}
func (zvC04NopLogger) Debugf(string, ...interface{})               {}
func (zvC04NopLogger) Error(string)                                {}
func (zvC04NopLogger) Info(string)                                 {}
func (zvC04NopLogger) Debug(string)                                {}
func (l zvC04NopLogger) WithFields(log.Fields) log.LoggerInterface { return l }
func (l zvC04NopLogger) WithError(error) log.LoggerInterface       { return l }

// ---------------------------------------------------------------------------
// environment: real objects + bookkeeping; Apply / Check / Canon are reusable

type zvC04Env struct {
	Rib     *LocRIB
	Pfxs    []*bnet.Prefix
	Opts    []zvC04Opt
	Clients []*zvC04Client
	Reg     []bool // harness-side registered flag (what the harness asked for)
	Mark    []int  // len(Calls) at the moment the client became unregistered
	EverReg []bool
	Via     []string // how the client became unregistered: unregister | dispose
	// statistics of the last Apply (for coverage counters)
	LastCalls [][]zvC04Call // calls each client received during the last Apply
}

func zvC04NewEnv(universe string, opts []zvC04Opt) *zvC04Env {
	e := &zvC04Env{Rib: New("zvC04"), Pfxs: zvC04Prefixes(universe), Opts: opts}
	for range opts {
		e.Clients = append(e.Clients, zvC04NewClient())
	}
	e.Reg = make([]bool, len(opts))
	e.Mark = make([]int, len(opts))
	e.EverReg = make([]bool, len(opts))
	e.Via = make([]string, len(opts))
	e.LastCalls = make([][]zvC04Call, len(opts))
	return e
}

// Prologue registers and unregisters every client once on the (still empty)
// Loc-RIB, so that every later "unregistered" state is a state AFTER an
// unregistration and the clause "receives nothing after it is unregistered"
// is exercised by every later operation.
func (e *zvC04Env) Prologue() {
	for ci := range e.Clients {
		e.Apply(zvC04Op{Kind: "register", C: int8(ci)})
		e.Apply(zvC04Op{Kind: "unregister", C: int8(ci)})
	}
}

// ImplRegistered tells whether the Loc-RIB's client manager still lists the
// client (the only private accessor of this harness; used for the canonical
// state only, never by the oracle).
func (e *zvC04Env) ImplRegistered(ci int) bool {
	for _, c := range e.Rib.clientManager.Clients() {
		if c == routingtable.RouteTableClient(e.Clients[ci]) {
			return true
		}
	}
	return false
}

// Apply executes one operation on the real Loc-RIB. Paths handed to the Loc-RIB
// are fresh objects every time (RemovePath / the old path of ReplacePath get an
// attribute-equal copy, as a real caller would pass).
func (e *zvC04Env) Apply(o zvC04Op) {
	before := make([]int, len(e.Clients))
	for i, c := range e.Clients {
		before[i] = len(c.Calls)
	}
	switch o.Kind {
	case "add":
		e.Rib.AddPath(e.Pfxs[o.P], zvC04MkPath(int(o.X)))
	case "remove":
		e.Rib.RemovePath(e.Pfxs[o.P], zvC04MkPath(int(o.X)))
	case "replace":
		e.Rib.ReplacePath(e.Pfxs[o.P], zvC04MkPath(int(o.X)), zvC04MkPath(int(o.Y)))
	case "register":
		e.Clients[o.C].Reset()
		e.Reg[o.C] = true
		e.EverReg[o.C] = true
		e.Rib.RegisterWithOptions(e.Clients[o.C], e.Opts[o.C].real())
	case "unregister":
		e.Rib.Unregister(e.Clients[o.C])
		if e.Reg[o.C] {
			e.Reg[o.C] = false
			e.Via[o.C] = "unregister"
			e.Mark[o.C] = len(e.Clients[o.C].Calls)
		}
	case "refresh":
		e.Rib.RefreshClient(e.Clients[o.C])
	case "dispose":
		e.Rib.Dispose()
		for i := range e.Clients {
			if e.Reg[i] {
				e.Reg[i] = false
				e.Via[i] = "dispose"
				e.Mark[i] = len(e.Clients[i].Calls)
			}
		}
	default:
		panic("zvC04Env.Apply: unknown op " + o.Kind)
	}
	for i, c := range e.Clients {
		e.LastCalls[i] = c.Calls[before[i]:]
	}
}

// Selection observes the Loc-RIB's current selection for prefix i through the
// public API: path names in selection order and the equal-cost count.
func (e *zvC04Env) Selection(i int) (names []string, ecmp uint) {
	rt := e.Rib.Get(e.Pfxs[i])
	if rt == nil {
		return nil, 0
	}
	for _, p := range rt.Paths() {
		names = append(names, zvC04Name(p))
	}
	return names, rt.ECMPPathCount()
}

// zvC04Admitted: the first paths of a selection that an option admits.
func zvC04Admitted(sel []string, ecmp uint, o zvC04Opt) []string {
	n := uint(0)
	switch o.Kind {
	case "best":
		n = 1
	case "ecmp":
		n = ecmp
	default:
		n = o.N
	}
	if n > uint(len(sel)) {
		n = uint(len(sel))
	}
	return sel[:n]
}

// zvC04Diff is one oracle failure.
type zvC04Diff struct {
	Clause string // accumulated | after_unregister
	Client int
	Kind   string // extra | missing | foreign_prefix | foreign_path | via_unregister | via_dispose
	Text   string
}

// Check evaluates the oracle at a quiescent point.
func (e *zvC04Env) Check() []zvC04Diff {
	var out []zvC04Diff
	known := map[string]bool{}
	type selT struct {
		names []string
		ecmp  uint
	}
	sels := make([]selT, len(e.Pfxs))
	for i, p := range e.Pfxs {
		known[zvC04PfxStr(p)] = true
		n, c := e.Selection(i)
		sels[i] = selT{n, c}
	}
	for ci, cl := range e.Clients {
		if !e.Reg[ci] {
			if len(cl.Calls) != e.Mark[ci] {
				out = append(out, zvC04Diff{"after_unregister", ci, "via_" + e.Via[ci], fmt.Sprintf("client %d (%s) is not registered any more but received %v", ci, e.Opts[ci], cl.Calls[e.Mark[ci]:])})
			}
			continue
		}
		for i, p := range e.Pfxs {
			want := zvC04Admitted(sels[i].names, sels[i].ecmp, e.Opts[ci])
			have := cl.Held(zvC04PfxStr(p))
			for _, w := range want {
				if !zvC04Contains(have, w) {
					out = append(out, zvC04Diff{"accumulated", ci, "missing", fmt.Sprintf("client %d (%s) lacks path %s of %s; Loc-RIB selection %v (equal-cost %d), client holds {%s}", ci, e.Opts[ci], w, p, sels[i].names, sels[i].ecmp, cl.haveString())})
				}
			}
			for _, h := range have {
				if !zvC04Contains(want, h) {
					k := "extra"
					if strings.HasPrefix(h, "?") {
						k = "foreign_path"
					}
					out = append(out, zvC04Diff{"accumulated", ci, k, fmt.Sprintf("client %d (%s) holds path %s of %s which its option does not admit; Loc-RIB selection %v (equal-cost %d), client holds {%s}", ci, e.Opts[ci], h, p, sels[i].names, sels[i].ecmp, cl.haveString())})
				}
			}
		}
		var ps []string
		for i := range cl.Have {
			if !known[cl.Have[i].Pfx] {
				ps = append(ps, cl.Have[i].Pfx)
			}
		}
		sort.Strings(ps)
		for _, p := range ps {
			out = append(out, zvC04Diff{"accumulated", ci, "foreign_prefix", fmt.Sprintf("client %d (%s) holds paths for %s which is not in the Loc-RIB", ci, e.Opts[ci], p)})
		}
	}
	return out
}

// Canon is the canonical state. It contains, through the public API, the
// Loc-RIB content per prefix in selection order with the equal-cost count, the
// registered flags and every registered client's accumulated set.
// Abstractions: (1) the shape of the private trie (dummy nodes left by removed
// prefixes, insertion order) is not included: it is private to package
// routingtable and only influences Get/Dump, which C01 shows to be shape
// independent; Dump order only permutes the calls of an initial dump, which set
// semantics ignores. (2) An unregistered client's accumulated set is dropped: a
// new registration starts a new epoch with an empty set, so it cannot influence
// the future; its call count is compared with the mark in Check. What the
// implementation remembers of a client is its client manager entry, which is
// part of the state (count and per-client membership).
func (e *zvC04Env) Canon() string {
	var sb strings.Builder
	for i := range e.Pfxs {
		n, c := e.Selection(i)
		fmt.Fprintf(&sb, "p%d=%v/%d;", i, n, c)
	}
	fmt.Fprintf(&sb, "n=%d;", e.Rib.ClientCount())
	for ci, cl := range e.Clients {
		if e.Reg[ci] {
			fmt.Fprintf(&sb, "c%d=reg{%s}", ci, cl.haveString())
		} else {
			fmt.Fprintf(&sb, "c%d=unreg", ci)
		}
		fmt.Fprintf(&sb, "/impl=%v;", e.ImplRegistered(ci))
	}
	return sb.String()
}

// ---------------------------------------------------------------------------
// BFS driver

type zvC04Explorer struct {
	r        *vh.Run
	universe string
	paths    [2][]int
	opts     [2]zvC04Opt
	ops      []zvC04Op
	label    string
	nontriv  map[[16]byte]bool
	steps    int
}

func zvC04Alphabet(paths [2][]int) []zvC04Op {
	var ops []zvC04Op
	for p := 0; p < 2; p++ {
		for _, x := range paths[p] {
			ops = append(ops, zvC04Op{Kind: "add", P: int8(p), X: int8(x)})
		}
	}
	for p := 0; p < 2; p++ {
		for _, x := range paths[p] {
			ops = append(ops, zvC04Op{Kind: "remove", P: int8(p), X: int8(x)})
		}
	}
	for p := 0; p < 2; p++ {
		for _, x := range paths[p] {
			for _, y := range paths[p] {
				if x != y {
					ops = append(ops, zvC04Op{Kind: "replace", P: int8(p), X: int8(x), Y: int8(y)})
				}
			}
		}
	}
	for c := 0; c < 2; c++ {
		ops = append(ops, zvC04Op{Kind: "register", C: int8(c)}, zvC04Op{Kind: "unregister", C: int8(c)}, zvC04Op{Kind: "refresh", C: int8(c)})
	}
	ops = append(ops, zvC04Op{Kind: "dispose"})
	return ops
}

func zvC04Contains(s []string, n string) bool {
	for _, x := range s {
		if x == n {
			return true
		}
	}
	return false
}

func zvC04Mixed(sel []string) bool {
	st, bg := false, false
	for _, n := range sel {
		if n == "S" || n == "S2" {
			st = true
		} else {
			bg = true
		}
	}
	return st && bg
}

// run replays hist on fresh objects; the oracle is evaluated after the last
// operation (earlier prefixes of hist were checked when they were visited).
// ok=false prunes the state: a violated state is not expanded, so the first
// counterexample of every signature is a shortest one and consequences of a
// divergence are not reported as further violations.
func (x *zvC04Explorer) run(hist []zvC04Op, count bool, wantTrace bool) (canon string, enabled []zvC04Op, ok bool, trace string) {
	r := x.r
	cs := zvC04Case{x.universe, x.paths, x.opts, hist}
	e := zvC04NewEnv(x.universe, x.opts[:])
	var last zvC04Op
	last.Kind = "init"
	var before zvC04Snap
	if p, what := vh.Try(func() {
		e.Prologue()
		for i, o := range hist {
			if i == len(hist)-1 {
				before = e.Snap()
			}
			last = o
			e.Apply(o)
		}
	}); p {
		// which kind of panic? mixing a BGP and a static path on one prefix is a
		// known defect of route.Path.ECMP (handled under C02); keep it apart.
		kind := "other"
		if last.Kind == "add" || last.Kind == "replace" || last.Kind == "remove" {
			var after []string
			for _, n := range before.Sel[last.P] {
				switch {
				case n != zvC04PathNames[last.X]:
					after = append(after, n)
				case last.Kind == "replace":
					after = append(after, zvC04PathNames[last.Y])
				}
			}
			if last.Kind == "add" {
				after = append(after, zvC04PathNames[last.X])
			}
			if zvC04Mixed(after) { // the prefix holds a BGP and a static path after the operation
				kind = "mixed_types"
			}
		}
		if count {
			r.Count("panic_"+kind, 1)
		}
		r.Violation(vh.Sig("clause", "panic", "kind", kind, "op", last.Kind), cs, "%s panicked: %s (selection of the prefix before the operation: %v)", last, what, before.Sel[last.P])
		return "panic:" + kind + ":" + last.String() + fmt.Sprint(before.Sel), nil, false, "panic"
	}
	ok = true
	var diffs []zvC04Diff
	if p, what := vh.Try(func() { diffs = e.Check(); canon = e.Canon() }); p {
		r.Violation(vh.Sig("clause", "panic", "kind", "observe", "op", last.Kind), cs, "observation after %s panicked: %s", last, what)
		return "panic:observe:" + what, nil, false, "panic"
	}
	for _, d := range diffs {
		ok = false
		optKind := x.opts[d.Client].Kind
		r.Violation(vh.Sig("clause", d.Clause, "kind", d.Kind, "option", optKind, "op", last.Kind), cs, "after %s: %s", last, d.Text)
	}
	if wantTrace { // what the clients saw (determinism self-check)
		var tb strings.Builder
		for ci, cl := range e.Clients {
			fmt.Fprintf(&tb, "c%d:%v|", ci, cl.Calls)
		}
		trace = canon + "#" + tb.String()
	}

	if count {
		x.coverage(e, last, before)
		h := sha256.Sum256([]byte(canon))
		var hk [16]byte
		copy(hk[:], h[:16])
		if !x.nontriv[hk] {
			for ci := range e.Clients {
				if e.Reg[ci] && len(e.Clients[ci].Have) > 0 {
					x.nontriv[hk] = true
				}
			}
			if x.nontriv[hk] {
				r.Nontrivial(1)
			}
		}
		r.Eval(1)
		r.Outcome(x.label + string(hk[:]))
	}
	// enabled operations (decided on the observed content, so that an identical
	// path is never inserted twice: set-vs-multiset semantics is unspecified)
	var sel [2][]string
	for pi := range e.Pfxs {
		sel[pi], _ = e.Selection(pi)
	}
	// RemovePath of an absent path and ReplacePath of an absent old path are
	// no-ops by any reading; one representative per prefix (the lowest absent
	// path index) is kept in the alphabet instead of all of them.
	var absent, absent2 [2]int8 // lowest and second lowest absent path index
	for pi := range e.Pfxs {
		absent[pi], absent2[pi] = -1, -1
		for _, i := range x.paths[pi] {
			if !zvC04Contains(sel[pi], zvC04PathNames[i]) {
				if absent[pi] < 0 {
					absent[pi] = int8(i)
				} else if absent2[pi] < 0 {
					absent2[pi] = int8(i)
				}
			}
		}
	}
	enabled = make([]zvC04Op, 0, len(x.ops)/2)
	for _, o := range x.ops {
		switch o.Kind {
		case "add":
			if zvC04Contains(sel[o.P], zvC04PathNames[o.X]) {
				continue
			}
		case "remove":
			if !zvC04Contains(sel[o.P], zvC04PathNames[o.X]) && o.X != absent[o.P] {
				continue
			}
		case "replace":
			if zvC04Contains(sel[o.P], zvC04PathNames[o.Y]) {
				continue
			}
			if !zvC04Contains(sel[o.P], zvC04PathNames[o.X]) && (o.X != absent[o.P] || o.Y != absent2[o.P]) {
				continue
			}
		case "register":
			if e.Reg[o.C] {
				continue // re-registration of a registered client (option change) is left open by the statement
			}
		case "refresh":
			if !e.Reg[o.C] {
				continue // RefreshClient names its target explicitly; only meaningful for registered clients
			}
		}
		enabled = append(enabled, o)
	}
	return canon, enabled, ok, trace
}

// zvC04Snap is what the coverage counters need to know about the state before
// the last operation.
type zvC04Snap struct {
	Sel  [2][]string
	Ecmp [2]uint
	Reg  []bool
}

func (e *zvC04Env) Snap() zvC04Snap {
	var s zvC04Snap
	for pi := range e.Pfxs {
		s.Sel[pi], s.Ecmp[pi] = e.Selection(pi)
	}
	s.Reg = append([]bool{}, e.Reg...)
	return s
}

// coverage bumps the vacuity counters for the transition that just ran. The
// REQUIRED counters describe the scenario (operations issued, Loc-RIB
// selections before/after as observed through Get, harness-side registration
// flags); they do not depend on which calls the Loc-RIB chose to deliver, so
// that a defective Loc-RIB yields a violation and not a "vacuous run".
// The call_* counters are informative only.
func (x *zvC04Explorer) coverage(e *zvC04Env, last zvC04Op, before zvC04Snap) {
	r := x.r
	r.Count("op_"+last.Kind, 1)
	ribOp := last.Kind == "add" || last.Kind == "remove" || last.Kind == "replace"
	after := e.Snap()
	for ci := range e.Clients {
		for _, c := range e.LastCalls[ci] {
			r.Count("call_"+c.Kind, 1)
		}
		if last.Kind == "dispose" && before.Reg[ci] {
			r.Count("dispose_with_registered_client", 1)
		}
		if !e.Reg[ci] {
			if e.EverReg[ci] && ribOp {
				r.Count("rib_change_while_unregistered_after_registration", 1)
			}
			continue
		}
		o := e.Opts[ci]
		for pi := range e.Pfxs {
			sel, ecmp := after.Sel[pi], after.Ecmp[pi]
			switch o.Kind {
			case "best":
				if len(sel) > 1 {
					r.Count("best_truncates", 1)
				}
			case "ecmp":
				if ecmp >= 2 && int(ecmp) < len(sel) {
					r.Count("ecmp_multi_truncates", 1)
				}
				if ecmp >= 2 {
					r.Count("ecmp_multi", 1)
				}
			default:
				if int(o.N) < len(sel) {
					r.Count("max_truncates", 1)
				}
				if int(o.N) > len(sel) && len(sel) > 0 {
					r.Count("max_short", 1)
				}
			}
		}
		switch {
		case ribOp && before.Reg[ci]:
			// window movement of a path that is not leaving/entering the Loc-RIB
			admB := zvC04Admitted(before.Sel[last.P], before.Ecmp[last.P], o)
			admA := zvC04Admitted(after.Sel[last.P], after.Ecmp[last.P], o)
			for _, n := range admB {
				if !zvC04Contains(admA, n) && zvC04Contains(after.Sel[last.P], n) {
					r.Count("window_pushes_out_path_still_in_rib", 1)
				}
			}
			for _, n := range admA {
				if !zvC04Contains(admB, n) && zvC04Contains(before.Sel[last.P], n) {
					r.Count("window_pulls_in_path_already_in_rib", 1)
				}
			}
			if o.Kind == "ecmp" && before.Ecmp[last.P] != after.Ecmp[last.P] && before.Ecmp[last.P] > 0 && after.Ecmp[last.P] > 0 {
				r.Count("ecmp_count_changes_under_registered_client", 1)
			}
		case last.Kind == "register" && int(last.C) == ci:
			if len(after.Sel[0])+len(after.Sel[1]) > 0 {
				r.Count("register_on_nonempty_rib", 1)
			} else {
				r.Count("register_on_empty_rib", 1)
			}
		}
	}
}

var zvC04Required = []string{
	"op_add", "op_remove", "op_replace", "op_register", "op_unregister", "op_refresh", "op_dispose",
	"best_truncates", "ecmp_multi", "ecmp_multi_truncates", "max_truncates", "max_short",
	"window_pushes_out_path_still_in_rib", "window_pulls_in_path_already_in_rib", "ecmp_count_changes_under_registered_client",
	"register_on_nonempty_rib", "register_on_empty_rib",
	"rib_change_while_unregistered_after_registration", "dispose_with_registered_client",
}

func (x *zvC04Explorer) explore(maxDepth int) (int, int, bool) {
	x.label = fmt.Sprintf("%s/%s/%s+%s", x.universe, zvC04PathsLabel(x.paths), x.opts[0], x.opts[1])
	b := vh.BFS[zvC04Op]{R: x.r, MaxDepth: maxDepth, MaxStates: 400000,
		Label: x.label,
		Step: func(h []zvC04Op) (string, []zvC04Op, bool) {
			x.steps++
			self := x.steps%97 == 1
			canon, en, ok, trace := x.run(h, true, self)
			if self { // determinism self-check: same history, same observation
				c2, _, _, t2 := x.run(h, false, true)
				if c2 != canon || t2 != trace {
					j, _ := json.Marshal(h)
					x.r.Fatalf("non-deterministic replay of %s:\n%s\n%s", j, trace, t2)
				}
			}
			return canon, en, ok
		}}
	return b.Explore()
}

type zvC04Item struct {
	universe string
	paths    [2][]int
	opts     [2]zvC04Opt
}

func zvC04PathsLabel(p [2][]int) string {
	var sb strings.Builder
	for pi := range p {
		if pi > 0 {
			sb.WriteString("|")
		}
		for _, x := range p[pi] {
			sb.WriteString(zvC04PathNames[x])
		}
	}
	return sb.String()
}

// zvC04Items lists the instantiations.
// quick:    nested prefixes, first prefix with the full alphabet {B,E1,E2,W,S},
//
//	second prefix with the equal-cost pair {E1,E2}; every unordered
//	pair of options (the two clients are interchangeable: same
//	alphabet for both).
//
// thorough: every ordered pair of options x {nested, full alphabet on both
//
//	prefixes; sibling prefixes, full alphabet on both; nested, first
//	prefix with a second static path {B,E1,E2,W,S,S2}, second {E1,E2}}.
func zvC04Items(thorough bool) []zvC04Item {
	var out []zvC04Item
	type cfg struct {
		u string
		p [2][]int
	}
	full := []int{0, 1, 2, 3, 4}
	cfgs := []cfg{{"nested", [2][]int{full, {1, 2}}}}
	if thorough {
		cfgs = []cfg{{"nested", [2][]int{full, full}}, {"siblings", [2][]int{full, full}}, {"nested", [2][]int{{0, 1, 2, 3, 4, 5}, {1, 2}}}}
	}
	for _, c := range cfgs {
		for ai, a := range zvC04Opts {
			for bi, b := range zvC04Opts {
				if bi < ai && !thorough {
					continue
				}
				out = append(out, zvC04Item{c.u, c.p, [2]zvC04Opt{a, b}})
			}
		}
	}
	return out
}

func TestVerifC04(t *testing.T) {
	r := vh.Start(t, "C04")
	defer r.Finish()
	// the live heap is tiny and the replays allocate a lot: collect less often
	defer debug.SetGCPercent(debug.SetGCPercent(400))
	log.SetLogger(zvC04NopLogger{})
	r.Rule("per (prefix universe, path alphabet per prefix, pair of client options from {best, ecmp, max1..max4}; quick: nested prefixes, {B,E1,E2,W,S}|{E1,E2}, unordered pairs; " +
		"thorough: ordered pairs x {nested full|full, siblings full|full, nested {B,E1,E2,W,S,S2}|{E1,E2}}): BFS over all sequences of " +
		"AddPath/RemovePath/ReplacePath, RegisterWithOptions/Unregister/RefreshClient (2 clients), Dispose " +
		"until the canonical state (Loc-RIB selection per prefix, registered set, accumulated set of every registered client) closes; " +
		"oracle on every reached state; evaluations = transitions executed on the real Loc-RIB with the oracle evaluated on the reached state; " +
		"non-trivial = distinct canonical states in which a registered client holds at least one path")
	r.Require(zvC04Required...)
	if r.IsReplay() {
		var cc zvC04ConcCase
		r.ReplayCase(&cc)
		if len(cc.Mut) > 0 {
			zvC04ConcRun(r, cc, append([]int{}, cc.Schedule...))
			for _, k := range zvC04Required {
				r.Count(k, 1)
			}
			r.Count("conc_executions", 1)
			return
		}
		var c zvC04Case
		r.ReplayCase(&c)
		x := &zvC04Explorer{r: r, universe: c.Universe, paths: c.Paths, opts: c.Opts, ops: zvC04Alphabet(c.Paths), nontriv: map[[16]byte]bool{}}
		for n := 0; n <= len(c.Hist); n++ {
			_, _, ok, _ := x.run(c.Hist[:n], false, false)
			if !ok {
				break
			}
		}
		for _, k := range zvC04Required {
			r.Count(k, 1)
		}
		return
	}
	items := zvC04Items(r.Thorough())
	r.Extra("instantiations_total", len(items))
	closedAll := true
	for i, it := range items {
		if !r.Mine(i) {
			continue
		}
		if r.OutOfBudget() {
			r.Cap("time budget: not all instantiations explored")
			break
		}
		x := &zvC04Explorer{r: r, universe: it.universe, paths: it.paths, opts: it.opts, ops: zvC04Alphabet(it.paths), nontriv: map[[16]byte]bool{}}
		_, _, closed := x.explore(0)
		closedAll = closedAll && closed
	}
	r.Extra("all_closed", closedAll)
	// concurrent part (clients registered / unregistered DURING route changes), engine E3
	r.Require("conc_executions")
	zvC04Concurrent(r)
}
