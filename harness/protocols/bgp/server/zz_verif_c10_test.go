package server

// C10 — the peer's view equals the Adj-RIB-Out under any timing.
// Engine E3: all interleavings (preemption bound) of a short history of
// Adj-RIB-Out changes (thread T1) with the real UpdateSender's sender goroutine
// and its aggregation ticker (environment), on a capture connection. At the
// final quiescent point the replay of the captured UPDATEs must equal the
// Adj-RIB-Out.

import (
	"fmt"
	"sort"
	"strings"
	"testing"
	"time"

	bnet "github.com/bio-routing/bio-rd/net"
	"github.com/bio-routing/bio-rd/route"
	"github.com/bio-routing/bio-rd/routingtable"
	"github.com/bio-routing/bio-rd/routingtable/adjRIBOut"
	"github.com/bio-routing/bio-rd/routingtable/filter"
	"github.com/bio-routing/bio-rd/routingtable/filter/actions"
	"github.com/bio-routing/bio-rd/zzverif/vh"
	"github.com/bio-routing/bio-rd/zzverif/vsched"
)

type zvC10Op struct {
	Kind string `json:"op"`   // add | remove | eor (End-of-RIB: the synchronous flush of the queue)
	Pfx  int    `json:"pfx"`  // 0 = P, 1 = Q
	Path int    `json:"path"` // 1 | 2
}

func (o zvC10Op) String() string {
	if o.Kind == "eor" {
		return "end-of-rib"
	}
	return fmt.Sprintf("%s(p%d@%s)", o.Kind, o.Path, [...]string{"P", "Q"}[o.Pfx])
}

type zvC10Case struct {
	AddPath  bool      `json:"addpath_tx"`
	Hist     []zvC10Op `json:"history"`
	Schedule []int     `json:"schedule"`
	Bound    int       `json:"preemption_bound"`
	V6       bool      `json:"ipv6_multiprotocol,omitempty"` // IPv6 unicast: MP_REACH_NLRI / MP_UNREACH_NLRI encoding
	SetMED   bool      `json:"export_policy_sets_med,omitempty"`
}

// zvC10ExportSetMED: the session's export policy rewrites an attribute (MED) instead of accepting unchanged - what the
// Adj-RIB-Out stores and hands to the sender is then not what the Loc-RIB handed in.
var zvC10ExportSetMED bool

var zvC10Pfx = []*bnet.Prefix{zvPfx4(192, 0, 2, 0, 24), zvPfx4(198, 51, 100, 0, 24)}
var zvC10Pfx6 = []*bnet.Prefix{
	bnet.NewPfx(bnet.IPv6FromBlocks(0x2001, 0xdb8, 1, 0, 0, 0, 0, 0), 48).Ptr(),
	bnet.NewPfx(bnet.IPv6FromBlocks(0x2001, 0xdb8, 2, 0, 0, 0, 0, 0), 48).Ptr(),
}

func zvC10Path6(n int) *route.Path {
	p := zvC10Path(n)
	p.BGPPath.BGPPathA.NextHop = bnet.IPv6FromBlocks(0x2001, 0xdb8, 0xffff, 0, 0, 0, 0, uint16(20+n)).Ptr()
	p.BGPPath.BGPPathA.Source = bnet.IPv6FromBlocks(0x2001, 0xdb8, 0xffff, 0, 0, 0, 0, uint16(20+n)).Ptr()
	return p
}

func zvC10Path(n int) *route.Path {
	// learned via eBGP from another peer; exported unchanged to an iBGP neighbour
	return zvBGPPath(byte(20+n), true, 100, uint32(65100+n))
}

type zvC10World struct {
	aro  *adjRIBOut.AdjRIBOut
	conn *zvConn
	us   *UpdateSender
}

func zvC10Build(addPath bool) *zvC10World { return zvC10BuildFam(addPath, false) }

func zvC10BuildFam(addPath, v6 bool) *zvC10World {
	w := zvNewWorld()
	o := zvPeerOpts{Addr: 9, Passive: true, IBGP: true, IPv6: v6}
	if addPath {
		o.AddPathTX = 4
	}
	p := w.addPeer(o)
	fsm := newFSM(p)
	conn := w.newConn(nil, "capture")
	conn.writePoint = true // a write to the peer is a point at which the other threads may get ahead
	fsm.con = conn
	fsm.supports4OctetASN = true
	f := fsm.ipv4Unicast
	if v6 {
		f = fsm.ipv6Unicast
		f.multiProtocol = true
	}
	if addPath {
		f.addPathTX = routingtable.ClientOptions{MaxPaths: 4}
	}
	chain := filter.NewAcceptAllFilterChain()
	if zvC10ExportSetMED {
		chain = filter.Chain{filter.NewFilter("set-med", []*filter.Term{filter.NewTerm("t", nil, []actions.Action{actions.NewSetMEDAction(77), actions.NewAcceptAction()})})}
	}
	aro := adjRIBOut.New(f.rib, f.getSessionAttrs(), chain)
	f.adjRIBOut = aro
	f.updateSender = newUpdateSender(f)
	f.updateSender.Start(5 * time.Millisecond)
	aro.Register(f.updateSender)
	return &zvC10World{aro: aro, conn: conn, us: f.updateSender}
}

func zvC10Histories(thorough, addPath bool) [][]zvC10Op {
	alpha := []zvC10Op{{"add", 0, 1}, {"remove", 0, 1}, {"add", 0, 2}, {"remove", 0, 2}, {"add", 1, 1}, {"eor", 0, 0}}
	var out [][]zvC10Op
	var rec func(h []zvC10Op, n int)
	max := 3
	if thorough {
		max = 4
	}
	rec = func(h []zvC10Op, n int) {
		if len(h) >= 2 {
			out = append(out, append([]zvC10Op{}, h...))
		}
		if n == 0 {
			return
		}
		for _, o := range alpha {
			if o.Kind == "eor" {
				// the End-of-RIB flush: once per history, after at least one route change
				seen := len(h) == 0
				for _, x := range h {
					seen = seen || x.Kind == "eor"
				}
				if seen {
					continue
				}
			}
			// a removal is only issued for a path that was added earlier in the history (the Loc-RIB never withdraws what it did not announce)
			if o.Kind == "remove" {
				present := false
				for _, x := range h {
					if x.Pfx == o.Pfx && x.Path == o.Path {
						present = x.Kind == "add"
					} else if x.Pfx == o.Pfx && x.Kind == "add" && !addPath {
						present = false // replaced implicitly by the later announcement: no longer held
					}
				}
				if !present {
					continue
				}
			}
			// no duplicate add of a path that is still present
			if o.Kind == "add" {
				present := false
				for _, x := range h {
					if x.Pfx == o.Pfx && x.Path == o.Path {
						present = x.Kind == "add"
					}
				}
				if present {
					continue
				}
				// (a session without add-path holds one path per prefix: an announcement while another path is held replaces it
				// implicitly - the Loc-RIB withdraws first, but AddPath() supports the replacement and other callers may use it)
			}
			rec(append(h, o), n-1)
		}
	}
	rec(nil, max)
	return out
}

func zvC10Explore(r *vh.Run, addPath bool, hist []zvC10Op, bound int, only []int) {
	zvC10ExploreFam(r, addPath, false, hist, bound, only)
}

func zvC10ExploreFam(r *vh.Run, addPath, v6 bool, hist []zvC10Op, bound int, only []int) {
	var w *zvC10World
	var dump []string
	pfxs, mkPath, afi := zvC10Pfx, zvC10Path, 1
	if v6 {
		pfxs, mkPath, afi = zvC10Pfx6, zvC10Path6, 2
	}
	body := func() {
		w = zvC10BuildFam(addPath, v6)
		t1 := vsched.GoNamed("route-changes", func() {
			for _, o := range hist {
				switch o.Kind {
				case "add":
					w.aro.AddPath(pfxs[o.Pfx], mkPath(o.Path))
				case "remove":
					w.aro.RemovePath(pfxs[o.Pfx], mkPath(o.Path))
				case "eor":
					w.aro.EndOfRIB()
				}
			}
		})
		vsched.Join(t1)
		// changes have stopped: let the sender drain its queue
		vsched.Advance(20 * time.Millisecond)
		vsched.Advance(20 * time.Millisecond)
		dump = nil
		for _, rt := range w.aro.Dump() {
			for _, p := range rt.Paths() {
				id := uint32(0)
				if addPath {
					id = p.BGPPath.PathIdentifier
				}
				ps := rt.Prefix().String()
				if v6 {
					ps = fmt.Sprintf("%x/%d", rt.Prefix().Addr().Bytes(), rt.Prefix().Len())
				}
				dump = append(dump, fmt.Sprintf("%d:%s#%d", afi, ps, id))
			}
		}
		sort.Strings(dump)
	}
	check := func(x *vsched.Execution) {
		r.Eval(1)
		c := zvC10Case{addPath, hist, x.Choices, bound, v6, zvC10ExportSetMED}
		hs := fmt.Sprint(hist)
		if x.Status != vsched.Completed {
			r.Violation(vh.Sig("clause", "run-"+x.Status.String(), "addpath", fmt.Sprint(addPath)), c, "history %s: execution %s %s %.300s", hs, x.Status, x.Blocked, x.Crash)
			return
		}
		view := map[string]bool{}
		bad := ""
		for _, m := range zvParseStream(w.conn.out, addPath, addPath) {
			if m.Err != "" {
				bad = m.Err
			}
			if m.Type != 2 {
				continue
			}
			for _, rt := range m.Withdrawn {
				delete(view, rt.key())
			}
			for _, rt := range m.Announced {
				view[rt.key()] = true
			}
		}
		var vl []string
		for k := range view {
			vl = append(vl, k)
		}
		sort.Strings(vl)
		r.Outcome(fmt.Sprint(hs, vl, dump))
		if bad != "" {
			r.Violation(vh.Sig("clause", "malformed-output", "addpath", fmt.Sprint(addPath)), c, "history %s: malformed UPDATE written: %s", hs, bad)
			return
		}
		if strings.Join(vl, ",") != strings.Join(dump, ",") {
			kind := "stale-announcement"
			if len(vl) < len(dump) {
				kind = "missing-announcement"
			}
			r.Violation(vh.Sig("clause", "view-differs", "kind", kind, "addpath", fmt.Sprint(addPath), "preemptions", fmt.Sprint(zvPreemptions(x))), c,
				"history %s: the peer's view after replaying the UPDATEs it received is %v but the Adj-RIB-Out holds %v", hs, vl, dump)
		}
	}
	cfg := vsched.Config{AutoTimers: true, Horizon: 11 * time.Millisecond}
	if only != nil {
		x := vsched.Replay(cfg, only, body)
		for _, l := range x.Log {
			fmt.Println("   ", l)
		}
		check(x)
		return
	}
	s, n := r.Shard()
	_ = s
	_ = n
	e := &vsched.Explorer{Bound: bound, Body: body, Check: check, Stop: r.OutOfBudget, Cfg: cfg}
	e.Run()
	if e.Err != nil {
		r.Fatalf("history %v: %v", hist, e.Err)
	}
	if e.Capped {
		r.Cap("time budget")
	}
	r.States(e.Executions)
	r.Transitions(e.Executions)
	r.Traces(e.Executions)
	r.Count("executions", e.Executions)
}

func zvPreemptions(x *vsched.Execution) int {
	n := 0
	for _, p := range x.Points {
		n += p.Costs[p.Chosen]
	}
	return n
}

func TestVerifC10(t *testing.T) {
	r := vh.Start(t, "C10")
	defer r.Finish()
	bound := 2
	if r.Thorough() {
		bound = 3
	}
	r.Rule(fmt.Sprintf("every history of 2-3 (thorough: 4) Adj-RIB-Out operations over {add/remove p1,p2 @P, add p1 @Q, End-of-RIB flush} x add-path TX {off,on} x {IPv4, IPv6 multiprotocol (quick: without add-path)} x export policy {accept unchanged, set MED (IPv4)}; for each, every interleaving with at most %d preemptions of the history thread with the real "+
		"UpdateSender goroutine and its 5 ms ticker (fired by the environment at any point, 2 ticks horizon); final-state oracle: replayed UPDATEs == Adj-RIB-Out; states = executions", bound))
	r.Require("executions")
	r.Extra("preemption_bound", bound)
	if r.IsReplay() {
		var c zvC10Case
		r.ReplayCase(&c)
		zvC10ExportSetMED = c.SetMED
		zvC10ExploreFam(r, c.AddPath, c.V6, c.Hist, c.Bound, append([]int{}, c.Schedule...))
		r.Count("executions", 1)
		return
	}
	idx := 0
	for _, fam := range [][3]bool{{false, false, false}, {true, false, false}, {false, true, false}, {true, true, false}, {false, false, true}, {true, false, true}} {
		ap, v6, setMED := fam[0], fam[1], fam[2]
		if v6 && ap && !r.Thorough() {
			continue
		}
		zvC10ExportSetMED = setMED
		for _, h := range zvC10Histories(r.Thorough(), ap) {
			idx++
			if !r.Mine(idx) {
				continue
			}
			zvC10ExploreFam(r, ap, v6, h, bound, nil)
			r.Nontrivial(1)
			if idx < 20 {
				r.Sample(map[string]any{"addpath": ap, "history": fmt.Sprint(h)})
			}
		}
	}
}
