// Package vtime replaces "time" in instrumented packages: the clock, timers,
// tickers and Sleep belong to the virtual runtime; everything else is the real
// package.
package vtime

import (
	"time"

	"github.com/bio-routing/bio-rd/zzverif/vsched"
)

type (
	Duration = time.Duration
	Time     = time.Time
	Month    = time.Month
	Weekday  = time.Weekday
	Location = time.Location
)

const (
	Nanosecond  = time.Nanosecond
	Microsecond = time.Microsecond
	Millisecond = time.Millisecond
	Second      = time.Second
	Minute      = time.Minute
	Hour        = time.Hour
	RFC3339     = time.RFC3339
	RFC1123     = time.RFC1123
)

var (
	UTC   = time.UTC
	Local = time.Local
)

func Unix(sec, nsec int64) Time                { return time.Unix(sec, nsec) }
func UnixMilli(ms int64) Time                  { return time.UnixMilli(ms) }
func ParseDuration(s string) (Duration, error) { return time.ParseDuration(s) }
func Parse(layout, value string) (Time, error) { return time.Parse(layout, value) }
func Date(y int, m Month, d, h, mi, s, ns int, l *Location) Time {
	return time.Date(y, m, d, h, mi, s, ns, l)
}

// Now is the virtual clock inside a controlled execution.
func Now() Time { return vsched.Now() }

func Since(t Time) Duration { return Now().Sub(t) }
func Until(t Time) Duration { return t.Sub(Now()) }

// Timer mirrors time.Timer.
type Timer struct {
	C <-chan Time
	h vsched.Timer
	r *time.Timer
}

func NewTimer(d Duration) *Timer {
	if !vsched.Active() {
		r := time.NewTimer(d)
		return &Timer{C: r.C, r: r}
	}
	h, c := vsched.NewTimer(d, 0)
	return &Timer{C: c, h: h}
}

func (t *Timer) Stop() bool {
	if t.r != nil {
		return t.r.Stop()
	}
	return t.h.Stop()
}

func (t *Timer) Reset(d Duration) bool {
	if t.r != nil {
		return t.r.Reset(d)
	}
	return t.h.Reset(d)
}

func After(d Duration) <-chan Time { return NewTimer(d).C }

func AfterFunc(d Duration, f func()) *Timer {
	if !vsched.Active() {
		r := time.AfterFunc(d, f)
		return &Timer{r: r}
	}
	return &Timer{h: vsched.AfterFunc(d, f)}
}

// Ticker mirrors time.Ticker.
type Ticker struct {
	C <-chan Time
	h vsched.Timer
	r *time.Ticker
}

func NewTicker(d Duration) *Ticker {
	if !vsched.Active() {
		r := time.NewTicker(d)
		return &Ticker{C: r.C, r: r}
	}
	h, c := vsched.NewTimer(d, d)
	return &Ticker{C: c, h: h}
}

func (t *Ticker) Stop() {
	if t.r != nil {
		t.r.Stop()
		return
	}
	t.h.Stop()
}

func (t *Ticker) Reset(d Duration) {
	if t.r != nil {
		t.r.Reset(d)
		return
	}
	t.h.Reset(d)
}

func Tick(d Duration) <-chan Time { return NewTicker(d).C }

func Sleep(d Duration) {
	if !vsched.Active() {
		time.Sleep(d)
		return
	}
	vsched.Sleep(d)
}
