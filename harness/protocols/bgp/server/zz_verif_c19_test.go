package server

// C19 — malformed UPDATEs never install routes.
// Engine E5 under E2: mutants of valid UPDATE seeds with ground truth from a
// strict reference validator (RFC 4271 6.3 structure), delivered through the
// real framing into an Established session; oracle: a message the validator
// labels malformed (in one of the four ways of the statement) installs nothing.

import (
	"encoding/binary"
	"encoding/hex"
	"fmt"
	"sort"
	"strings"
	"testing"
	"time"

	"github.com/bio-routing/bio-rd/zzverif/vh"
	"github.com/bio-routing/bio-rd/zzverif/vsched"
)

// zvValidateUpdate is the reference validator. It returns "" for a well-formed
// UPDATE body, or the first defect class: lengths | attrlen | pfxlen | mandatory.
func zvValidateUpdate(body []byte, addPath4, addPath6, asn4 bool) string {
	if len(body) < 4 {
		return "lengths"
	}
	wl := int(binary.BigEndian.Uint16(body))
	if 2+wl+2 > len(body) {
		return "lengths"
	}
	if c := zvValidateNLRI(body[2:2+wl], 32, addPath4); c != "" {
		return c
	}
	al := int(binary.BigEndian.Uint16(body[2+wl:]))
	if 2+wl+2+al > len(body) {
		return "lengths"
	}
	ab := body[4+wl : 4+wl+al]
	nlri := body[4+wl+al:]
	if c := zvValidateNLRI(nlri, 32, addPath4); c != "" {
		return c
	}
	have := map[byte]bool{}
	mpReachNLRI := false
	for len(ab) > 0 {
		if len(ab) < 3 {
			return "lengths"
		}
		flags, typ := ab[0], ab[1]
		l, h := int(ab[2]), 3
		if flags&0x10 != 0 {
			if len(ab) < 4 {
				return "lengths"
			}
			l, h = int(binary.BigEndian.Uint16(ab[2:])), 4
		}
		if h+l > len(ab) {
			return "lengths"
		}
		v := ab[h : h+l]
		have[typ] = true
		bad := false
		switch typ {
		case 1:
			bad = l != 1
		case 2:
			asz := 2
			if asn4 {
				asz = 4
			}
			for p := 0; p < len(v); {
				if p+2 > len(v) {
					bad = true
					break
				}
				n := int(v[p+1])
				p += 2 + n*asz
				if p > len(v) {
					bad = true
				}
			}
		case 3, 4, 5, 9:
			bad = l != 4
		case 6:
			bad = l != 0
		case 7:
			bad = !(l == 6 && !asn4 || l == 8 && asn4)
		case 8, 10:
			bad = l%4 != 0
		case 32:
			bad = l%12 != 0
		case 14:
			if l < 5 {
				bad = true
				break
			}
			afi := binary.BigEndian.Uint16(v)
			nhl := int(v[3])
			if 4+nhl+1 > l {
				bad = true
				break
			}
			max, ap := 128, addPath6
			if afi == 1 {
				max, ap = 32, addPath4
			}
			if afi == 2 && nhl != 16 && nhl != 32 {
				bad = true
				break
			}
			if c := zvValidateNLRI(v[4+nhl+1:], max, ap); c != "" {
				return c
			}
			mpReachNLRI = len(v[4+nhl+1:]) > 0
		case 15:
			if l < 3 {
				bad = true
				break
			}
			afi := binary.BigEndian.Uint16(v)
			max, ap := 128, addPath6
			if afi == 1 {
				max, ap = 32, addPath4
			}
			if c := zvValidateNLRI(v[3:], max, ap); c != "" {
				return c
			}
		}
		if bad {
			return "attrlen"
		}
		ab = ab[h+l:]
	}
	if len(nlri) > 0 && !(have[1] && have[2] && have[3]) {
		return "mandatory"
	}
	if mpReachNLRI && !(have[1] && have[2]) {
		return "mandatory"
	}
	return ""
}

func zvValidateNLRI(b []byte, max int, addPath bool) string {
	for len(b) > 0 {
		if addPath {
			if len(b) < 4 {
				return "lengths"
			}
			b = b[4:]
		}
		if len(b) < 1 {
			return "lengths"
		}
		l := int(b[0])
		if l > max {
			return "pfxlen"
		}
		n := (l + 7) / 8
		if 1+n > len(b) {
			return "lengths"
		}
		b = b[1+n:]
	}
	return ""
}

type zvC19Case struct {
	Session string `json:"session"` // ebgp | ebgp-addpath | ibgp
	Seed    string `json:"seed"`
	Mut     string `json:"mutation"`
	Hex     string `json:"message_hex"`
}

func zvC19Sess(name string) zvPeerOpts {
	switch name {
	case "ebgp-addpath":
		return zvPeerOpts{Addr: 9, Hold: 90 * time.Second, IPv6: true, AddPathRX: true}
	case "ibgp":
		return zvPeerOpts{Addr: 9, Hold: 90 * time.Second, IPv6: true, IBGP: true, RRClient: true}
	}
	return zvPeerOpts{Addr: 9, Hold: 90 * time.Second, IPv6: true}
}

type zvSeed struct {
	session   string
	name      string
	withdrawn []zvwPrefix
	attrs     []zvwAttr
	nlri      []zvwPrefix
}

func zvC19Seeds() []zvSeed {
	nh6 := make([]byte, 16)
	nh6[0], nh6[1], nh6[15] = 0x20, 0x01, 9
	v6 := zvwPrefix{Len: 48, Addr: []byte{0x20, 1, 0xd, 0xb8, 0, 1, 0, 0, 0, 0, 0, 0, 0, 0, 0, 0}, PathID: 3}
	comm := zvwAttr{0xc0, 8, []byte{0xff, 0xdc, 0, 1, 0xff, 0xdc, 0, 2}}
	aggr := zvwAttr{0xc0, 7, []byte{0, 0, 0xfd, 0xe9, 10, 0, 0, 9}}
	p17 := zvwPrefix{Len: 17, Addr: []byte{172, 16, 128, 0}, PathID: 5}
	r1, r2 := zvR1, zvR2
	r1.PathID, r2.PathID = 4, 6
	return []zvSeed{
		{"ebgp", "classic", []zvwPrefix{r2}, []zvwAttr{zvwOrigin(0), zvwASPath(true, zvRemoteAS, 65010), zvwNextHop(10, 0, 0, 9), zvwMED(5), comm, {0x40, 6, nil}, aggr}, []zvwPrefix{r1, p17}},
		{"ebgp", "mp6", nil, []zvwAttr{zvwOrigin(0), zvwASPath(true, zvRemoteAS), zvwMPReach(2, 1, nh6, zvwNLRI([]zvwPrefix{v6}, false)), zvwMED(7)}, nil},
		{"ebgp-addpath", "classic-addpath", []zvwPrefix{r2}, []zvwAttr{zvwOrigin(1), zvwASPath(true, zvRemoteAS), zvwNextHop(10, 0, 0, 9)}, []zvwPrefix{r1, p17}},
		{"ebgp-addpath", "mp6-addpath", nil, []zvwAttr{zvwOrigin(0), zvwASPath(true, zvRemoteAS), zvwMPReach(2, 1, nh6, zvwNLRI([]zvwPrefix{v6}, true))}, nil},
		{"ibgp", "ibgp-reflected", nil, []zvwAttr{zvwOrigin(0), zvwASPath(true), zvwNextHop(10, 0, 0, 9), zvwLocalPref(200), zvwU32Attr(0x80, 9, 0x0a0a0a0a), {0x80, 10, []byte{0, 0, 0, 7, 0, 0, 0, 8}}}, []zvwPrefix{r1}},
	}
}

func (s zvSeed) build(attrs []zvwAttr) []byte {
	ap := s.session == "ebgp-addpath"
	return zvwUpdate(zvwNLRI(s.withdrawn, ap), attrs, zvwNLRI(s.nlri, ap))
}

// zvC19Mutants enumerates the mutants of one seed.
func zvC19Mutants(s zvSeed, thorough bool) []zvC19Case {
	var out []zvC19Case
	ap := s.session == "ebgp-addpath"
	base := s.build(s.attrs)
	add := func(mut string, b []byte) {
		out = append(out, zvC19Case{Session: s.session, Seed: s.name, Mut: mut, Hex: hex.EncodeToString(b)})
	}
	add("none", base)
	setU16 := func(off int, v int) []byte {
		b := append([]byte{}, base...)
		binary.BigEndian.PutUint16(b[off:], uint16(v))
		return b
	}
	wl := int(binary.BigEndian.Uint16(base[19:]))
	alOff := 21 + wl
	al := int(binary.BigEndian.Uint16(base[alOff:]))
	deltas := []int{-3, -2, -1, 1, 2, 3}
	// (a) the three length fields
	for _, f := range []struct {
		name string
		off  int
		v    int
	}{{"withdrawn-length", 19, wl}, {"attribute-length", alOff, al}, {"header-length", 16, len(base)}} {
		vals := []int{0, 0xffff}
		for _, d := range deltas {
			vals = append(vals, f.v+d)
		}
		if thorough {
			for d := 4; d <= 12; d++ {
				vals = append(vals, f.v+d, f.v-d)
			}
		}
		for _, v := range vals {
			if v < 0 || v > 0xffff || v == f.v {
				continue
			}
			b := setU16(f.off, v)
			if f.name == "header-length" {
				// keep the framing meaningful: cut or zero-pad the delivered bytes to the declared length (within the buffer)
				if v >= 19 && v <= 4096 {
					if v < len(b) {
						b = b[:v]
					} else {
						b = append(b, make([]byte, v-len(b))...)
					}
				} else {
					continue // C21's business
				}
			}
			add(fmt.Sprintf("%s=%d(was %d)", f.name, v, f.v), b)
		}
	}
	// (b) every attribute's declared length, AS_PATH segment count
	off := alOff + 2
	for _, a := range s.attrs {
		ab := a.bytes()
		lenOff := off + 2
		ext := ab[0]&0x10 != 0
		cur := len(a.Val)
		vals := []int{0, cur - 1, cur + 1, cur + 2, cur + 4, 0xff}
		for _, v := range vals {
			if v < 0 || v == cur || v > 0xff && !ext {
				continue
			}
			b := append([]byte{}, base...)
			if ext {
				binary.BigEndian.PutUint16(b[lenOff:], uint16(v))
			} else {
				b[lenOff] = byte(v)
			}
			add(fmt.Sprintf("attr%d-length=%d(was %d)", a.Type, v, cur), b)
		}
		if a.Type == 2 && len(a.Val) > 1 {
			cntOff := off + len(ab) - len(a.Val) + 1
			for _, d := range []int{-1, 1, 3} {
				b := append([]byte{}, base...)
				b[cntOff] = byte(int(b[cntOff]) + d)
				add(fmt.Sprintf("aspath-segment-count%+d", d), b)
			}
		}
		off += len(ab)
	}
	// (b') every attribute with a value that is really longer / shorter (the message stays structurally consistent: only
	// the attribute's own length rule is violated, nothing shifts)
	for i, a := range s.attrs {
		for _, d := range []int{-1, 1, 2, 4} {
			n := len(a.Val) + d
			if n < 0 || n > 255 && a.Flags&0x10 == 0 {
				continue
			}
			attrs := append([]zvwAttr{}, s.attrs...)
			v := make([]byte, n)
			copy(v, a.Val)
			attrs[i] = zvwAttr{a.Flags, a.Type, v}
			add(fmt.Sprintf("attr%d-resized%+d(to %d)", a.Type, d, n), s.build(attrs))
		}
	}
	// (c) prefix lengths beyond the family's maximum
	pfxLens := []int{33, 34, 40, 63, 64, 65, 127, 128, 129, 130, 200, 255}
	if thorough {
		pfxLens = nil
		for l := 33; l <= 255; l++ {
			pfxLens = append(pfxLens, l)
		}
	}
	mutPfx := func(where string, start int, ps []zvwPrefix, max int, addPath bool) {
		p := start
		for i, x := range ps {
			if addPath {
				p += 4
			}
			for _, l := range pfxLens {
				if l <= max {
					continue
				}
				b := append([]byte{}, base...)
				b[p] = byte(l)
				add(fmt.Sprintf("%s[%d]-prefix-length=%d", where, i, l), b)
			}
			p += 1 + (int(x.Len)+7)/8
		}
	}
	mutPfx("withdrawn", 21, s.withdrawn, 32, ap)
	mutPfx("nlri", alOff+2+al, s.nlri, 32, ap)
	off = alOff + 2
	for _, a := range s.attrs {
		ab := a.bytes()
		if a.Type == 14 {
			valOff := off + len(ab) - len(a.Val)
			nhl := int(a.Val[3])
			v6 := zvwPrefix{Len: 48}
			mutPfx("mp-reach", valOff+4+nhl+1, []zvwPrefix{v6}, 128, ap)
		}
		off += len(ab)
	}
	// (d) every subset of the mandatory attributes removed
	for mask := 1; mask < 8; mask++ {
		var attrs []zvwAttr
		var names []string
		for _, a := range s.attrs {
			if a.Type >= 1 && a.Type <= 3 && mask&(1<<(a.Type-1)) != 0 {
				names = append(names, map[byte]string{1: "ORIGIN", 2: "AS_PATH", 3: "NEXT_HOP"}[a.Type])
				continue
			}
			attrs = append(attrs, a)
		}
		if len(attrs) == len(s.attrs) {
			continue
		}
		add("without-"+strings.Join(names, "+"), s.build(attrs))
	}
	add("without-any-attribute", s.build(nil))
	return out
}

// zvRibSnapshot lists what is installed: Adj-RIB-In of A (both families) and A's paths in the Loc-RIBs.
func zvRibSnapshot(s *zvSess) map[string]string {
	m := map[string]string{}
	f := s.fA
	add := func(where string, rs interface{ Dump() []*routeRoute }) {}
	_ = add
	for _, fam := range []*fsmAddressFamily{f.ipv4Unicast, f.ipv6Unicast} {
		if fam == nil || fam.adjRIBIn == nil {
			continue
		}
		for _, r := range fam.adjRIBIn.Dump() {
			for _, p := range r.Paths() {
				m[fmt.Sprintf("ribin %s#%d", r.Prefix().String(), p.BGPPath.PathIdentifier)] = zvPathDigest(p)
			}
		}
	}
	srcA := zvPeerIP(s.cfg.A)
	for _, rib := range []interface{ Dump() []*routeRoute }{s.w.rib4, s.w.rib6} {
		for _, r := range rib.Dump() {
			for _, p := range r.Paths() {
				if p.BGPPath != nil && p.BGPPath.BGPPathA != nil && p.BGPPath.BGPPathA.Source != nil && *p.BGPPath.BGPPathA.Source == *srcA {
					m[fmt.Sprintf("locrib %s#%d", r.Prefix().String(), p.BGPPath.PathIdentifier)] = zvPathDigest(p)
				}
			}
		}
	}
	return m
}

type zvC19Result struct {
	Status  vsched.Status
	Crash   string
	Before  map[string]string
	After   map[string]string
	StateOK bool
	StateAfter string
}

func zvC19Run(c zvC19Case) zvC19Result {
	var res zvC19Result
	msg, _ := hex.DecodeString(c.Hex)
	x := vsched.Exec(vsched.Config{MaxSteps: 100000}, func() {
		s := zvSessStart(zvSessCfg{Name: "c19", A: zvC19Sess(c.Session)})
		s.apply(evT15)
		s.apply(evOpen)
		s.apply(evKA)
		s.apply(evUpd2) // baseline route (198.51.100.0/24, path id 7 with add-path)
		res.StateOK = zvFSMState(s.fA) == stateNameEstablished
		if !res.StateOK {
			return
		}
		res.Before = zvRibSnapshot(s)
		s.cA.deliver(msg)
		vsched.Settle()
		vsched.Advance(10 * time.Millisecond)
		res.StateAfter = zvFSMState(s.fA)
		res.After = zvRibSnapshot(s)
	})
	res.Status, res.Crash = x.Status, x.Crash
	return res
}

func zvC19Check(r *vh.Run, c zvC19Case) {
	msg, _ := hex.DecodeString(c.Hex)
	r.Eval(1)
	o := zvC19Sess(c.Session)
	label := zvValidateUpdate(msg[19:], o.AddPathRX, o.AddPathRX, true)
	mutKind := c.Mut
	if i := strings.IndexAny(mutKind, "=[("); i > 0 {
		mutKind = mutKind[:i]
	}
	res := zvC19Run(c)
	if res.Status == vsched.Crash {
		r.Violation(vh.Sig("clause", "crash", "label", label, "seed", c.Seed, "mutation", mutKind), c, "the speaker panicked: %.500s", res.Crash)
		return
	}
	if res.Status == vsched.Horizon {
		r.Cap("step horizon in one case")
		return
	}
	if res.Status != vsched.Completed {
		r.Violation(vh.Sig("clause", "run-"+res.Status.String(), "label", label, "seed", c.Seed), c, "execution %s", res.Status)
		return
	}
	if !res.StateOK {
		r.Fatalf("session %s did not reach Established", c.Session)
	}
	if label == "" {
		r.Count("wellformed_mutants", 1)
		if c.Mut == "none" {
			// the unmutated seed must install something, otherwise the harness is vacuous
			if len(res.After) <= len(res.Before) && fmt.Sprint(res.After) == fmt.Sprint(res.Before) {
				r.Fatalf("seed %s installs nothing: harness would be vacuous", c.Seed)
			}
			r.Count("seeds_install", 1)
		}
		return
	}
	r.Count("malformed:"+label, 1)
	r.Nontrivial(1)
	var installed []string
	for k, v := range res.After {
		if old, ok := res.Before[k]; !ok || old != v {
			installed = append(installed, k+" "+v)
		}
	}
	sort.Strings(installed)
	r.Outcome(fmt.Sprint(label, res.StateAfter, len(installed)))
	if len(installed) > 0 {
		r.Violation(vh.Sig("clause", "installed-from-malformed", "label", label, "seed", c.Seed, "mutation", mutKind), c, "UPDATE malformed (%s; %s) installed %v", label, c.Mut, installed)
	}
}

func TestVerifC19(t *testing.T) {
	r := vh.Start(t, "C19")
	defer r.Finish()
	r.Rule("mutants of 5 valid UPDATE seeds (classic IPv4, MP IPv6, both with add-path, reflected iBGP): the three length fields x {0, max, +-1..3}; every attribute's declared length x {0, -1, +1, +2, +4, 255}; AS_PATH segment count +-; " +
		"every NLRI / withdrawn / MP_REACH prefix length beyond the family's maximum; every subset of ORIGIN/AS_PATH/NEXT_HOP removed. A strict reference validator labels each mutant; non-trivial = mutants it labels malformed")
	r.Require("malformed:lengths", "malformed:attrlen", "malformed:pfxlen", "malformed:mandatory", "seeds_install")
	if r.IsReplay() {
		var c zvC19Case
		r.ReplayCase(&c)
		zvC19Check(r, c)
		res := zvC19Run(c)
		fmt.Printf("before %v\nafter  %v\nstate %s\n", res.Before, res.After, res.StateAfter)
		for _, k := range []string{"malformed:lengths", "malformed:attrlen", "malformed:pfxlen", "malformed:mandatory", "seeds_install"} {
			r.Count(k, 1)
		}
		return
	}
	idx := 0
	for _, s := range zvC19Seeds() {
		for _, c := range zvC19Mutants(s, r.Thorough()) {
			idx++
			if !r.Mine(idx) {
				continue
			}
			zvC19Check(r, c)
			if idx == 40 {
				r.Sample(c)
			}
		}
	}
}
