package locRIB

// C04, concurrent part — "clients registered DURING route changes" and "a client
// receives nothing after it is unregistered" under every interleaving (engine E3):
// thread 1 registers a client, thread 2 performs two Loc-RIB mutations, thread 3
// (optional) unregisters another client; all interleavings up to a preemption
// bound on the real Loc-RIB under the virtual runtime; the sequential oracle
// (zvC04Env.Check) is evaluated at the final quiescent point.

import (
	"fmt"

	"github.com/bio-routing/bio-rd/zzverif/vh"
	"github.com/bio-routing/bio-rd/zzverif/vsched"
)

type zvC04ConcCase struct {
	Opts     [2]zvC04Opt `json:"options"`
	Setup    []zvC04Op   `json:"setup"`
	Mut      []zvC04Op   `json:"mutations"`
	Unreg    bool        `json:"with_unregister"`
	// Disp: instead of register(c0) || ... || unregister(c1), the table is disposed next to the route changes while
	// client 1 is registered: it must receive nothing once Dispose has returned
	Disp bool `json:"with_dispose,omitempty"`
	Schedule []int       `json:"schedule"`
	Bound    int         `json:"preemption_bound"`
}

func zvC04ConcRun(r *vh.Run, c zvC04ConcCase, only []int) {
	var diffs []zvC04Diff
	body := func() {
		e := zvC04NewEnv("nested", c.Opts[:])
		e.Prologue()
		if c.Unreg || c.Disp {
			e.Apply(zvC04Op{Kind: "register", C: 1})
		}
		for _, o := range c.Setup {
			e.Apply(o)
		}
		if c.Disp {
			hs := []vsched.Handle{
				vsched.GoNamed("route-changes", func() {
					for _, o := range c.Mut {
						e.Apply(o)
					}
				}),
				vsched.GoNamed("dispose", func() {
					e.Rib.Dispose()
					e.Reg[1], e.Via[1], e.Mark[1] = false, "dispose", len(e.Clients[1].Calls)
				}),
			}
			vsched.Join(hs...)
			diffs = e.Check()
			return
		}
		hs := []vsched.Handle{
			vsched.GoNamed("register", func() { e.Apply(zvC04Op{Kind: "register", C: 0}) }),
			vsched.GoNamed("route-changes", func() {
				for _, o := range c.Mut {
					e.Apply(o)
				}
			}),
		}
		if c.Unreg {
			hs = append(hs, vsched.GoNamed("unregister", func() { e.Apply(zvC04Op{Kind: "unregister", C: 1}) }))
		}
		vsched.Join(hs...)
		diffs = e.Check()
	}
	check := func(x *vsched.Execution) {
		r.Eval(1)
		r.Count("conc_executions", 1)
		cc := c
		cc.Schedule = x.Choices
		if x.Status != vsched.Completed {
			r.Violation(vh.Sig("clause", "conc-run-"+x.Status.String()), cc, "concurrent registration scenario: execution %s %s %.300s", x.Status, x.Blocked, x.Crash)
			return
		}
		r.Outcome(fmt.Sprint("conc", c.Opts, c.Mut, len(diffs)))
		for _, d := range diffs {
			r.Violation(vh.Sig("clause", d.Clause, "kind", d.Kind, "mode", "concurrent", "option", c.Opts[d.Client].String()), cc,
				"setup %v; register(c0) || %v || unregister(c1)=%v: %s", c.Setup, c.Mut, c.Unreg, d.Text)
		}
	}
	cfg := vsched.Config{}
	if only != nil {
		x := vsched.Replay(cfg, only, body)
		for _, l := range x.Log {
			fmt.Println("   ", l)
		}
		check(x)
		return
	}
	e := &vsched.Explorer{Bound: c.Bound, Body: body, Check: check, Stop: r.OutOfBudget, Cfg: cfg}
	e.Run()
	if e.Err != nil {
		r.Fatalf("concurrent scenario %+v: %v", c, e.Err)
	}
	if e.Capped {
		r.Cap("time budget (concurrent part)")
	}
	r.States(e.Executions)
	r.Transitions(e.Executions)
}

// zvC04Concurrent enumerates the concurrent scenarios (sharded like the sequential part).
func zvC04Concurrent(r *vh.Run) {
	bound := 2
	if r.Thorough() {
		bound = 3
	}
	const (
		B, E1, E2, W = 0, 1, 2, 3
	)
	add := func(p, x int8) zvC04Op { return zvC04Op{Kind: "add", P: p, X: x} }
	rem := func(p, x int8) zvC04Op { return zvC04Op{Kind: "remove", P: p, X: x} }
	// (mutations never add a path that is already present nor remove an absent one: duplicate insertion is unspecified)
	type sm struct {
		setup []zvC04Op
		muts  [][]zvC04Op
	}
	sms := []sm{
		{[]zvC04Op{add(0, E1)}, [][]zvC04Op{{add(0, E2), rem(0, E1)}, {add(0, B), rem(0, B)}, {{Kind: "replace", P: 0, X: E1, Y: B}, add(1, E2)}}},
		{[]zvC04Op{add(0, E1), add(0, E2), add(1, E1)}, [][]zvC04Op{{rem(0, E1), add(0, W)}, {add(0, B), rem(0, E2)}, {rem(1, E1), add(1, E2)}}},
		{[]zvC04Op{add(0, B), add(0, E1), add(0, W)}, [][]zvC04Op{{rem(0, B), add(0, E2)}, {add(0, E2), rem(0, W)}, {{Kind: "replace", P: 0, X: B, Y: E2}, rem(0, E1)}}},
	}
	opts := zvC04Opts
	idx := 0
	for _, o0 := range opts {
		for si, x := range sms {
			for mi, mut := range x.muts {
				for _, unreg := range []bool{false, true} {
					idx++
					if !r.Mine(idx) {
						continue
					}
					if !r.Thorough() && (si+mi)%2 == 1 && unreg {
						continue
					}
					c := zvC04ConcCase{Opts: [2]zvC04Opt{o0, opts[(idx)%len(opts)]}, Setup: x.setup, Mut: mut, Unreg: unreg, Bound: bound}
					zvC04ConcRun(r, c, nil)
					if unreg {
						c.Unreg, c.Disp = false, true
						zvC04ConcRun(r, c, nil)
					}
				}
			}
		}
	}
}
