package main

// C36 — Configuration reload converges to the new configuration.
//
// Differential explicit enumeration (engine E4 under E2, deviation bound 0): for
// every ordered pair (c1, c2) of the structured configuration set, in two phases
// of the sessions' life (reload right after c1 was loaded: FSMs in their Idle
// sleep; reload 20 s later: FSMs in Connect), and for every triple of the core,
//
//	server A: load c1, (c2,) reload the last configuration
//	server B: fresh start with the last configuration           <- the oracle
//
// and compare: the set of peers, every peer's effective settings (private peer
// fields, capabilities, the OPEN it sends), address families, add-path options,
// filter chains by behaviour on a probe set (for the existing FSMs and for
// sessions that start later), the parameters of the connection attempts made
// while the clock runs for 10 minutes, the answer to incoming connections from
// every address of the universe, and that neighbours which are no longer
// configured never dial again. No expected value is written by hand.

import (
	"crypto/sha256"
	"encoding/hex"
	"encoding/json"
	"fmt"
	"os"
	"path/filepath"
	"sort"
	"strings"
	"testing"
	"time"

	"github.com/bio-routing/bio-rd/zzverif/vh"
)

type zvC36Case struct {
	Configs []string `json:"configs"`
	YAML    []string `json:"yaml"`
	GapMs   int      `json:"gap_ms"` // virtual time between two reloads
	Dial    string   `json:"dial"`   // "refused": outgoing connections fail; "accepted": they succeed and the remote end stays silent
}

type zvC36Harness struct {
	r     *vh.Run
	dir   string
	paths map[string]string    // yaml text -> file
	fresh map[string]*zvC36Obs // yaml text -> observation of a fresh start
}

func (h *zvC36Harness) path(yaml string) string {
	if p, ok := h.paths[yaml]; ok {
		return p
	}
	sum := sha256.Sum256([]byte(yaml))
	p := filepath.Join(h.dir, hex.EncodeToString(sum[:8])+".yml")
	if err := os.WriteFile(p, []byte(yaml), 0o644); err != nil {
		h.r.Fatalf("cannot write configuration file: %v", err)
	}
	h.paths[yaml] = p
	return p
}

// freshObs is the oracle: a fresh daemon started with the configuration.
func (h *zvC36Harness) freshObs(name, yaml string, accept bool) *zvC36Obs {
	ck := fmt.Sprint(accept) + yaml
	if o, ok := h.fresh[ck]; ok {
		return o
	}
	o := zvC36Run([]string{h.path(yaml)}, 0, accept, false)
	if o.Fail != "" || o.Status != "completed" {
		h.r.Fatalf("configuration %q cannot be loaded by a fresh daemon (grammar error): fail=%q status=%s %s\n%s", name, o.Fail, o.Status, o.Crash, yaml)
	}
	if len(o.OrphanDials) != 0 {
		h.r.Fatalf("fresh daemon with %q dials unconfigured peers: %v", name, o.OrphanDials)
	}
	h.fresh[ck] = o
	return o
}

func zvC36Keys[V any](m map[string]V) []string {
	l := make([]string, 0, len(m))
	for k := range m {
		l = append(l, k)
	}
	sort.Strings(l)
	return l
}

func zvC36FamDiff(a, b map[string]*zvC36FamObs, f func(fam, field, av, bv string)) {
	for _, fam := range []string{"ipv4", "ipv6"} {
		x, y := a[fam], b[fam]
		if x == nil || y == nil {
			continue // presence is reported through the family-ipvN scalar
		}
		if x.RIB != y.RIB {
			f(fam, "rib", x.RIB, y.RIB)
		}
		if x.AddPathRecv != y.AddPathRecv {
			f(fam, "addpath-receive", x.AddPathRecv, y.AddPathRecv)
		}
		if x.AddPathSend != y.AddPathSend {
			f(fam, "addpath-send", x.AddPathSend, y.AddPathSend)
		}
		if x.Import != y.Import {
			f(fam, "import", x.Import, y.Import)
		}
		if x.Export != y.Export {
			f(fam, "export", x.Export, y.Export)
		}
	}
}

func zvC36Kind(got, want string) string {
	switch {
	case want == zvC36DrainBehaviour:
		return "policy-removed"
	case got == zvC36DrainBehaviour:
		return "policy-added"
	default:
		return "policy-changed"
	}
}

// compare evaluates the oracle for one history; a is the reloaded server, b the fresh one,
// earlier are fresh starts with the configurations before the last reload (they only decide how a
// difference between a and b is classified, never whether there is one).
func (h *zvC36Harness) compare(cs zvC36Case, a, b *zvC36Obs, earlier []*zvC36Obs) {
	r := h.r
	hist := strings.Join(cs.Configs, " -> ")
	viol := func(sig map[string]string, format string, args ...any) {
		r.Violation(sig, cs, "history [%s] (%dms between reloads, outgoing connections %s): %s", hist, cs.GapMs, cs.Dial, fmt.Sprintf(format, args...))
	}
	if a.Status != "completed" {
		first := a.Crash
		if i := strings.Index(first, "\n"); i > 0 {
			first = first[:i]
		}
		viol(vh.Sig("clause", "reload-"+a.Status), "the execution ended with status %s: %s", a.Status, first)
		return
	}
	if a.Fail != "" {
		kind := a.Fail
		if i := strings.Index(kind, ":"); i > 0 {
			kind = kind[:i]
		}
		viol(vh.Sig("clause", "reload-"+kind), "reload step %d failed on the running daemon (a fresh start with the same file succeeds): %s", a.FailStep, a.Fail)
		return
	}
	// 1. the set of sessions
	for _, k := range zvC36Keys(a.Peers) {
		if _, ok := b.Peers[k]; !ok {
			viol(vh.Sig("clause", "neighbor-not-removed"), "peer %s still exists after the reload; a fresh start has peers %v", k, zvC36Keys(b.Peers))
		}
	}
	for _, k := range zvC36Keys(b.Peers) {
		if _, ok := a.Peers[k]; !ok {
			viol(vh.Sig("clause", "neighbor-not-added"), "peer %s is missing after the reload; peers are %v", k, zvC36Keys(a.Peers))
		}
	}
	// 2. removed neighbours are really gone
	for _, k := range zvC36Keys(a.OrphanDials) {
		if _, ok := b.Peers[k]; ok {
			continue
		}
		viol(vh.Sig("clause", "removed-neighbor-still-dials"), "%s is not configured any more, but its session dialled %d times in the %v after the reload had finished", k, a.OrphanDials[k], zvC36Window)
	}
	if fmt.Sprint(a.Answered) != fmt.Sprint(b.Answered) {
		extra := []string{}
		for _, k := range a.Answered {
			if _, inA := a.Peers[k]; !inA {
				extra = append(extra, k)
			}
		}
		if len(extra) > 0 {
			viol(vh.Sig("clause", "removed-neighbor-answers"), "incoming connections from %v are answered with an OPEN although the server lists no such peer (fresh start answers %v)", extra, b.Answered)
		}
	}
	// 3. per session
	for _, k := range zvC36Keys(b.Peers) {
		pa, pb := a.Peers[k], b.Peers[k]
		if pa == nil {
			continue
		}
		reported := map[string]bool{}
		notApplied := func(setting, got, want string) {
			if reported[setting] {
				return
			}
			reported[setting] = true
			viol(vh.Sig("clause", "setting-not-applied", "setting", setting), "peer %s: effective %s is %s after the reload, %s after a fresh start", k, setting, got, want)
		}
		settingReported := func() bool { // was a specific setting reported for this peer?
			for s := range reported {
				if !strings.Contains(s, "clause=") && !strings.HasPrefix(s, "stored:") {
					return true
				}
			}
			return false
		}
		for _, s := range zvC36Keys(pb.Scalars) {
			if pa.Scalars[s] != pb.Scalars[s] {
				notApplied(s, pa.Scalars[s], pb.Scalars[s])
			}
		}
		policy := func(scope string) func(fam, field, av, bv string) {
			return func(fam, field, av, bv string) {
				switch field {
				case "import", "export":
					sig := vh.Sig("clause", "policy-not-applied", "dir", field, "scope", scope, "kind", zvC36Kind(av, bv))
					if reported[sigKeyC36(sig)] {
						return
					}
					reported[sigKeyC36(sig)] = true
					viol(sig, "peer %s %s: the %s policy in effect for %s behaves on the probe routes as [%s] after the reload, [%s] after a fresh start", k, fam, field, scope, av, bv)
				default:
					notApplied(fam+"-"+field, av, bv)
				}
			}
		}
		zvC36FamDiff(pa.Fam, pb.Fam, policy("future-sessions"))
		if len(pa.FSMs) != len(pb.FSMs) {
			viol(vh.Sig("clause", "fsm-count"), "peer %s has %d FSMs after the reload, %d after a fresh start", k, len(pa.FSMs), len(pb.FSMs))
		} else {
			for i := range pa.FSMs {
				zvC36FamDiff(pa.FSMs[i], pb.FSMs[i], policy("existing-fsm"))
			}
		}
		if pa.ProbeFam != nil && pb.ProbeFam != nil {
			zvC36FamDiff(pa.ProbeFam, pb.ProbeFam, policy("future-sessions"))
		}
		// what is sent and dialled (when no specific setting explains the difference)
		if !settingReported() {
			if pa.Caps != pb.Caps || pa.Open != pb.Open || pa.ProbeOpen != pb.ProbeOpen {
				notApplied("open-message", pa.Caps+" / "+pa.ProbeOpen, pb.Caps+" / "+pb.ProbeOpen)
			}
		}
		// connection attempts made while the clock ran. A session that was replaced
		// (disposed and added again) but whose old FSM still dials shows up as the
		// new parameters plus those of the previous configuration.
		if fmt.Sprint(pa.DialParams) != fmt.Sprint(pb.DialParams) {
			inB, old := map[string]bool{}, map[string]bool{}
			for _, p := range pb.DialParams {
				inB[p] = true
			}
			for _, e := range earlier {
				if pp := e.Peers[k]; pp != nil {
					for _, p := range pp.DialParams {
						old[p] = true
					}
				}
			}
			extraAllOld, extra, missing := true, 0, 0
			for _, p := range pa.DialParams {
				if !inB[p] {
					extra++
					extraAllOld = extraAllOld && old[p]
				}
			}
			for _, p := range pb.DialParams {
				found := false
				for _, q := range pa.DialParams {
					found = found || p == q
				}
				if !found {
					missing++
				}
			}
			if extra > 0 && extraAllOld && missing == 0 {
				viol(vh.Sig("clause", "replaced-session-old-fsm-still-dials"), "peer %s was re-created by the reload, but connection attempts with the parameters of an earlier configuration are still made in the %v after the reload: seen %v, a fresh start makes %v", k, zvC36Window, pa.DialParams, pb.DialParams)
			} else if !settingReported() { // otherwise a consequence of what was reported above
				notApplied("dial-parameters", fmt.Sprint(pa.DialParams), fmt.Sprint(pb.DialParams))
			}
		}
		if pa.ListenerMD5 != pb.ListenerMD5 {
			kind := "key-changed"
			if pb.ListenerMD5 == "" {
				kind = "key-removed"
			} else if pa.ListenerMD5 == "" {
				kind = "key-added"
			}
			viol(vh.Sig("clause", "listener-md5-key-not-applied", "kind", kind), "peer %s: the listening socket holds MD5 key %q after the reload, %q after a fresh start", k, pa.ListenerMD5, pb.ListenerMD5)
		}
		// the configuration the server hands out (GetPeerConfig), basis of the next reload's decisions;
		// stale scalars are the consequence of a missing restart that was reported above
		staleExplained := settingReported()
		for _, s := range zvC36Keys(pb.Stored) {
			if pa.Stored[s] != pb.Stored[s] && !staleExplained {
				viol(vh.Sig("clause", "stored-config-stale", "field", s), "peer %s: GetPeerConfig reports %s=%s after the reload, %s after a fresh start", k, s, pa.Stored[s], pb.Stored[s])
			}
		}
		zvC36FamDiff(pa.StoredFam, pb.StoredFam, func(fam, field, av, bv string) {
			if reported["stored:"+field] || reported[fam+"-"+field] {
				return
			}
			reported["stored:"+field] = true
			viol(vh.Sig("clause", "stored-config-stale", "field", field), "peer %s %s: GetPeerConfig reports a different %s after the reload than after a fresh start: [%s] vs [%s]", k, fam, field, av, bv)
		})
	}
}

func sigKeyC36(sig map[string]string) string {
	var l []string
	for _, k := range zvC36Keys(sig) {
		l = append(l, k+"="+sig[k])
	}
	return strings.Join(l, ";")
}

// coverage classifies what the step from the previous to the last configuration
// changes, from the two FRESH observations only (independent of the code path
// under test passing or failing).
func (h *zvC36Harness) coverage(prev, last *zvC36Obs) (nontrivial bool) {
	r := h.r
	for _, k := range zvC36Keys(prev.Peers) {
		pl, ok := last.Peers[k]
		if !ok {
			r.Count("step:neighbor-removed", 1)
			nontrivial = true
			continue
		}
		pp := prev.Peers[k]
		for _, s := range zvC36Keys(pl.Scalars) {
			if pp.Scalars[s] != pl.Scalars[s] {
				r.Count("step:changes:"+s, 1)
				nontrivial = true
			}
		}
		restart := false // does anything change that cannot be done in place?
		for _, s := range zvC36Keys(pl.Scalars) {
			restart = restart || pp.Scalars[s] != pl.Scalars[s]
		}
		zvC36FamDiff(pp.Fam, pl.Fam, func(fam, field, av, bv string) {
			restart = restart || (field != "import" && field != "export")
		})
		zvC36FamDiff(pp.Fam, pl.Fam, func(fam, field, av, bv string) {
			r.Count("step:changes:"+fam+"-"+field, 1)
			nontrivial = true
			if field == "import" || field == "export" {
				r.Count("step:"+zvC36Kind(av, bv), 1)
				if !restart {
					r.Count("step:policy-only-change:"+fam+"-"+field, 1)
				}
			}
		})
		if pp.Open != pl.Open {
			r.Count("step:changes:open-message", 1)
		}
		if fmt.Sprint(pp.DialParams) != fmt.Sprint(pl.DialParams) {
			r.Count("step:changes:dial-parameters", 1)
		}
	}
	if prev == last {
		r.Count("step:unchanged-file", 1)
	}
	for _, k := range zvC36Keys(last.Peers) {
		if _, ok := prev.Peers[k]; !ok {
			r.Count("step:neighbor-added", 1)
			nontrivial = true
		}
	}
	return
}

func (h *zvC36Harness) runCase(cs zvC36Case) {
	r := h.r
	var paths []string
	for _, y := range cs.YAML {
		paths = append(paths, h.path(y))
	}
	n := len(cs.YAML)
	accept := cs.Dial == "accepted"
	b := h.freshObs(cs.Configs[n-1], cs.YAML[n-1], accept)
	var earlier []*zvC36Obs
	for i := 0; i < n-1; i++ {
		earlier = append(earlier, h.freshObs(cs.Configs[i], cs.YAML[i], accept))
	}
	prev := earlier[n-2]
	a := zvC36Run(paths, time.Duration(cs.GapMs)*time.Millisecond, accept, os.Getenv("VERIF_C36_DEBUG") != "")
	r.Eval(1)
	r.States(1)
	r.Transitions(n)
	if h.coverage(prev, b) {
		r.Nontrivial(1)
	}
	for _, k := range zvC36Keys(b.Peers) {
		r.Count("dials-observed", b.Peers[k].Dials)
		if b.Peers[k].ProbeOpen != "" {
			r.Count("incoming-connections-answered", 1)
		}
	}
	r.Count("incoming-connections-rejected", len(b.Rejected))
	r.Count(fmt.Sprintf("histories-of-length-%d", n), 1)
	r.Count(fmt.Sprintf("histories-phase-%s-%dms", cs.Dial, cs.GapMs), 1)
	before := r.NViolations()
	h.compare(cs, a, b, earlier)
	if r.NViolations() == before {
		r.Count("histories-converged", 1)
	}
	ob, _ := json.Marshal(b)
	sum := sha256.Sum256(ob)
	r.Outcome(hex.EncodeToString(sum[:8]))
}

func TestVerifC36(t *testing.T) {
	r := vh.Start(t, "C36")
	defer r.Finish()
	dir, err := os.MkdirTemp("", "verif-c36-")
	if err != nil {
		r.Fatalf("%v", err)
	}
	defer os.RemoveAll(dir)
	h := &zvC36Harness{r: r, dir: dir, paths: map[string]string{}, fresh: map[string]*zvC36Obs{}}
	r.Rule("a history is non-trivial when the fresh-start observations of its last two configurations differ (a neighbour appears or disappears, or an effective setting, family, add-path option or policy behaviour of a common neighbour changes)")

	if r.IsReplay() {
		var cs zvC36Case
		r.ReplayCase(&cs)
		if len(cs.YAML) < 2 || len(cs.Configs) != len(cs.YAML) {
			r.Fatalf("bad replay case")
		}
		h.runCase(cs)
		return
	}

	all, core, triples := zvC36Universe(r.Thorough())
	yaml := make([]string, len(all))
	for i, c := range all {
		yaml[i] = c.YAML()
	}
	r.Extra("configurations", len(all))
	r.Extra("core_configurations", len(core))
	r.Extra("triple_set_configurations", len(triples))
	r.Require("step:neighbor-removed", "step:neighbor-added", "step:changes:ttl", "step:changes:family-ipv6", "step:changes:ipv4-addpath-receive",
		"step:changes:ipv4-addpath-send", "step:changes:cluster-id", "step:changes:multiprotocol-ipv4", "step:changes:next-hop-extended",
		"step:changes:peer-as", "step:changes:local-as", "step:changes:hold-time", "step:changes:passive", "step:changes:route-reflector-client",
		"step:changes:route-server-client", "step:changes:authentication-key", "step:changes:ipv4-import", "step:changes:ipv4-export",
		"step:policy-removed", "step:policy-added", "step:policy-changed", "step:policy-only-change:ipv4-import", "step:policy-only-change:ipv4-export",
		"step:policy-only-change:ipv6-import", "step:policy-only-change:ipv6-export", "step:unchanged-file", "step:changes:dial-parameters",
		"dials-observed", "incoming-connections-answered", "incoming-connections-rejected",
		"histories-of-length-2", "histories-of-length-3", "histories-phase-refused-0ms", "histories-phase-refused-20000ms", "histories-phase-accepted-15500ms")

	// replay determinism is asserted, not assumed
	if len(all) > 1 {
		p := []string{h.path(yaml[0]), h.path(yaml[1])}
		o1, _ := json.Marshal(zvC36Run(p, 15500*time.Millisecond, true, false))
		o2, _ := json.Marshal(zvC36Run(p, 15500*time.Millisecond, true, false))
		if string(o1) != string(o2) {
			r.Fatalf("two executions of the same history differ:\n%s\n%s", o1, o2)
		}
	}

	item := 0
	capped := false
	type phase struct {
		gapMs int
		dial  string
	}
	// the phases of a session's life in which the reload arrives: Idle (reconnect sleep), Connect, OpenSent
	phases := []phase{{0, "refused"}, {20000, "refused"}, {15500, "accepted"}}
	do := func(idx []int, ph phase) {
		if r.Mine(item) && !capped {
			if r.OutOfBudget() {
				r.Cap("time budget: not all histories were executed")
				capped = true
			} else {
				cs := zvC36Case{GapMs: ph.gapMs, Dial: ph.dial}
				for _, i := range idx {
					cs.Configs = append(cs.Configs, all[i].Name)
					cs.YAML = append(cs.YAML, yaml[i])
				}
				h.runCase(cs)
				if item%97 == 0 {
					r.Sample(map[string]any{"history": cs.Configs, "gap_ms": ph.gapMs, "dial": ph.dial})
				}
			}
		}
		item++
	}
	for i := range all {
		for j := range all {
			for _, ph := range phases { // i == j included: reloading an unchanged file must change nothing
				do([]int{i, j}, ph)
			}
		}
	}
	for _, i := range triples {
		for _, j := range triples {
			for _, k := range triples {
				if i == j || j == k {
					continue
				}
				do([]int{i, j, k}, phases[0])
				if r.Thorough() {
					do([]int{i, j, k}, phases[2])
				}
			}
		}
	}
	r.Extra("histories", item)
}
