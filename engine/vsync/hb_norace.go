//go:build !race

package vsync

// In normal builds the shims carry no real synchronisation.
type hbMutex struct{}

//go:norace
func (*hbMutex) acquire() {}

//go:norace
func (*hbMutex) release() {}

type hbRWMutex struct{}

//go:norace
func (*hbRWMutex) lock() {}

//go:norace
func (*hbRWMutex) unlock() {}

//go:norace
func (*hbRWMutex) rlock() {}

//go:norace
func (*hbRWMutex) runlock() {}

type hbWaitGroup struct{}

//go:norace
func (*hbWaitGroup) add(int) {}

//go:norace
func (*hbWaitGroup) wait() {}
