#!/bin/sh
# tools/applyfix.sh <name> [pkg-pattern...]  — apply /verif/fixes-proposed/<name>.diff to /repo, test, commit with <name>.msg
set -e
export GOFLAGS=-mod=mod GOPROXY=off GOSUMDB=off GOTOOLCHAIN=local GOWORK=off
N="$1"; shift
cd /repo
git apply --check "/verif/fixes-proposed/$N.diff" || { echo "DOES NOT APPLY: $N"; exit 1; }
git apply "/verif/fixes-proposed/$N.diff"
go build ./... || { echo "BUILD FAILS: $N"; git checkout -- .; exit 1; }
PK="${*:-./...}"
if ! timeout 900 go test -vet=off -count=1 -timeout 300s $PK >/tmp/applyfix.log 2>&1; then
  echo "TESTS FAIL: $N"; grep -E '^(FAIL|---|panic)' /tmp/applyfix.log | head; git checkout -- .; exit 1
fi
# commit message without the provenance paragraph
python3 - "$N" <<'PY'
import sys,re
n=sys.argv[1]
m=open('/verif/fixes-proposed/%s.msg'%n).read().strip()
paras=m.split('\n\n')
paras=[p for p in paras if not re.match(r'^(Found by|Observed by|Detected by|Reported by|Verified by|Check:|Found with|Caught by)',p.strip()) and 'verification check' not in p and '/verif' not in p]
open('/tmp/applyfix.msg','w').write('\n\n'.join(paras)+'\n')
PY
git add -A . ':!bin/docgen' 2>/dev/null || git add -A
git commit -q -F /tmp/applyfix.msg
echo "COMMITTED $N $(git log --format=%h -1)"
