package adjRIBIn

// C06, concurrent part — a client registers WHILE an ineligible announcement
// replaces an eligible path (engine E3): one thread calls AdjRIBIn.AddPath with
// a path that carries the local AS (AS loop) for a prefix whose eligible path is
// announced, another registers a new client (initial dump); every schedule up
// to a preemption bound. Oracle: no client is ever handed the ineligible path,
// and at the end neither client holds anything for the prefix.

import (
	"fmt"
	"sort"
	"strings"

	bnet "github.com/bio-routing/bio-rd/net"
	"github.com/bio-routing/bio-rd/protocols/bgp/types"
	"github.com/bio-routing/bio-rd/route"
	"github.com/bio-routing/bio-rd/routingtable"
	"github.com/bio-routing/bio-rd/routingtable/filter"
	"github.com/bio-routing/bio-rd/routingtable/vrf"
	"github.com/bio-routing/bio-rd/zzverif/vh"
	"github.com/bio-routing/bio-rd/zzverif/vsched"
	"github.com/bio-routing/bio-rd/zzverif/vsync"
)

type zvC06ConcCase struct {
	Conc     bool   `json:"concurrent_part"`
	AddPath  bool   `json:"addpath_rx"`
	Kind     string `json:"ineligible_because"` // as_loop | originator_id
	Schedule []int  `json:"schedule"`
	Bound    int    `json:"preemption_bound"`
}

const zvC06cLocalAS = 65000

// zvC06cClient records what it is handed (serialises its calls like a real client).
type zvC06cClient struct {
	mu   vsync.Mutex
	have map[string]bool
	bad  []string
}

func zvC06cKey(pfx *bnet.Prefix, p *route.Path) string {
	as := ""
	if p.BGPPath != nil && p.BGPPath.ASPath != nil {
		as = p.BGPPath.ASPath.String()
	}
	orig := uint32(0)
	if p.BGPPath != nil && p.BGPPath.BGPPathA != nil {
		orig = p.BGPPath.BGPPathA.OriginatorID
	}
	return fmt.Sprintf("%s as=%s orig=%d", pfx.String(), as, orig)
}

func (c *zvC06cClient) add(pfx *bnet.Prefix, p *route.Path) {
	c.mu.Lock()
	defer c.mu.Unlock()
	k := zvC06cKey(pfx, p)
	if strings.Contains(k, fmt.Sprint(zvC06cLocalAS)) || strings.Contains(k, "orig=1") {
		c.bad = append(c.bad, k)
	}
	c.have[k] = true
}
func (c *zvC06cClient) AddPath(pfx *bnet.Prefix, p *route.Path) error            { c.add(pfx, p); return nil }
func (c *zvC06cClient) AddPathInitialDump(pfx *bnet.Prefix, p *route.Path) error { c.add(pfx, p); return nil }
func (c *zvC06cClient) RemovePath(pfx *bnet.Prefix, p *route.Path) bool {
	c.mu.Lock()
	defer c.mu.Unlock()
	delete(c.have, zvC06cKey(pfx, p))
	return true
}
func (c *zvC06cClient) ReplacePath(*bnet.Prefix, *route.Path, *route.Path) {}
func (c *zvC06cClient) RefreshRoute(*bnet.Prefix, []*route.Path)           {}
func (c *zvC06cClient) EndOfRIB()                                          {}
func (c *zvC06cClient) Dispose()                                           {}

func zvC06cPath(asns []uint32, orig uint32) *route.Path {
	return &route.Path{Type: route.BGPPathType, BGPPath: &route.BGPPath{
		BGPPathA:  &route.BGPPathA{NextHop: bnet.IPv4FromOctets(10, 0, 0, 9).Ptr(), Source: bnet.IPv4FromOctets(10, 0, 0, 9).Ptr(), BGPIdentifier: 9, EBGP: true, OriginatorID: orig},
		ASPath:    &types.ASPath{{Type: types.ASSequence, ASNs: asns}},
		ASPathLen: uint16(len(asns)),
	}}
}

func zvC06ConcRun(r *vh.Run, c zvC06ConcCase, only []int) {
	var c1, c2 *zvC06cClient
	body := func() {
		route.ZZVerifResetBGPPathACache()
		vsched.SetExploring(false)
		v := vrf.NewUntrackedVRF("zv", 0)
		v.AddContributingASN(zvC06cLocalAS)
		sa := routingtable.SessionAttrs{RouterID: 1, Type: route.BGPPathType, LocalASN: zvC06cLocalAS, PeerASN: 65009, AddPathRX: c.AddPath,
			PeerIP: bnet.IPv4FromOctets(10, 0, 0, 9).Ptr(), LocalIP: bnet.IPv4FromOctets(10, 0, 0, 1).Ptr()}
		a := New(filter.NewAcceptAllFilterChain(), v, sa)
		c1 = &zvC06cClient{have: map[string]bool{}}
		c2 = &zvC06cClient{have: map[string]bool{}}
		a.Register(c1)
		pfx := bnet.NewPfx(bnet.IPv4FromOctets(10, 0, 0, 0), 8).Ptr()
		a.AddPath(pfx, zvC06cPath([]uint32{65009, 65010}, 0))
		bad := zvC06cPath([]uint32{65009, zvC06cLocalAS, 65010}, 0)
		if c.Kind == "originator_id" {
			bad = zvC06cPath([]uint32{65009, 65010}, 1) // ORIGINATOR_ID = our router id
		}
		vsched.SetExploring(true)
		h1 := vsched.GoNamed("ineligible-announcement", func() { a.AddPath(pfx, bad) })
		h2 := vsched.GoNamed("register", func() { a.Register(c2) })
		vsched.Join(h1, h2)
	}
	check := func(x *vsched.Execution) {
		r.Eval(1)
		r.Count("conc_executions", 1)
		cc := c
		cc.Schedule = x.Choices
		if x.Status != vsched.Completed {
			r.Violation(vh.Sig("clause", "conc-run-"+x.Status.String()), cc, "ineligible announcement || registration: execution %s %s %.300s", x.Status, x.Blocked, x.Crash)
			return
		}
		keys := func(c *zvC06cClient) []string {
			var ks []string
			for k := range c.have {
				ks = append(ks, k)
			}
			sort.Strings(ks)
			return ks
		}
		r.Outcome(fmt.Sprint("conc", c.Kind, keys(c1), keys(c2)))
		for i, cl := range []*zvC06cClient{c1, c2} {
			if len(cl.bad) > 0 {
				r.Violation(vh.Sig("clause", "ineligible_to_client", "mode", "concurrent-registration", "reason", c.Kind, "client", fmt.Sprint(i+1)), cc,
					"client %d was handed the ineligible path %v while it registered / the path replaced an eligible one", i+1, cl.bad)
				return
			}
			if len(cl.have) > 0 {
				r.Violation(vh.Sig("clause", "stale_after_ineligible_replacement", "mode", "concurrent-registration", "client", fmt.Sprint(i+1)), cc,
					"the eligible path was replaced by an ineligible one, but client %d still holds %v", i+1, keys(cl))
				return
			}
		}
	}
	cfg := vsched.Config{MaxSteps: 100000}
	if only != nil {
		cfg.Trace, cfg.Sites = true, true
		x := vsched.Replay(cfg, only, body)
		for _, l := range x.Log {
			fmt.Println("   ", l)
		}
		check(x)
		return
	}
	e := &vsched.Explorer{Bound: c.Bound, Body: body, Check: check, Stop: r.OutOfBudget, Cfg: cfg}
	e.Run()
	if e.Err != nil {
		r.Fatalf("concurrent scenario %+v: %v", c, e.Err)
	}
	if e.Capped {
		r.Cap("time budget (concurrent part)")
	}
	r.States(e.Executions)
	r.Transitions(e.Executions)
}

func zvC06Concurrent(r *vh.Run, idx int) {
	bound := 3
	if r.Thorough() {
		bound = 4
	}
	for _, ap := range []bool{false, true} {
		for _, k := range []string{"as_loop", "originator_id"} {
			idx++
			if !r.Mine(idx) {
				continue
			}
			zvC06ConcRun(r, zvC06ConcCase{Conc: true, AddPath: ap, Kind: k, Bound: bound}, nil)
		}
	}
}
