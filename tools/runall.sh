#!/bin/sh
# tools/runall.sh [tier] — run every enabled check against /repo, print one line each (writes evidence/)
cd /verif
TIER="${1:-quick}"
for c in $(cat enabled.txt); do
  s=$(date +%s)
  out=$(./run $c $TIER 2>&1); rc=$?
  e=$(date +%s)
  echo "$c rc=$rc $((e-s))s $(echo "$out" | grep -E '^check ' | cut -c1-160)"
  if [ $rc -ne 0 ]; then echo "$out" | grep -E '^(VIOLATION|HARNESS|  signature)' | head -6; fi
done
