package packet

// C30 — IS-IS PDU decoding is total and encoding round-trips.
// Engine E5, two bounded-exhaustive enumerations on the real codec:
//
//  decode part: seeds (every PDU bio-rd can emit, an LSP per TLV type) x
//    {every offset x every byte value, every truncation, every length byte x
//    every value x {as is, packet cut to / extended to the declared length},
//    pairs of TLV length bytes, a (TLV type x length x available bytes) grid
//    behind a valid fixed part}; oracle: Decode returns a PDU or an error and
//    does not panic.
//  round-trip part: every hello / LSP the server can build from a bounded
//    configuration and every CSNP/PSNP set NewCSNPs/NewPSNPs build for 0..40
//    LSP entries around the per-PDU split; oracle: decode(serialize(x)) has
//    the same header, fixed fields and TLV sequence (type, length, value
//    bytes), re-serializes to identical bytes, length fields equal actual
//    lengths, and the SNP set carries exactly the entries it was built from.
//
// The wire image is assembled the way the server does it: LLC (fe fe 03, added
// by net/ethernet on transmit and present in received frames) + ISISHeader +
// PDU body.

import (
	"bytes"
	"encoding/hex"
	"fmt"
	"regexp"
	"testing"

	bnet "github.com/bio-routing/bio-rd/net"
	"github.com/bio-routing/bio-rd/protocols/isis/types"
	"github.com/bio-routing/bio-rd/zzverif/vh"
)

type zvC30Hello struct {
	Circuit  uint8  `json:"circuit_type"`
	Adj      int    `json:"adjacency"` // 0 = no neighbour (TLV length 5), 1 = neighbour/initializing, 2 = neighbour/up
	NAddrs   int    `json:"n_addresses"`
	AreaLens []int  `json:"area_lengths"`
	Hold     uint16 `json:"holding_timer"`
}

type zvC30LSP struct {
	AreaLens []int    `json:"area_lengths"`
	NAddrs   int      `json:"n_addresses"`
	PfxLens  []int    `json:"ip_reach_prefix_lengths"`
	Neigh    [][2]int `json:"neighbours"`      // per neighbour: number of interface-address and neighbour-address sub-TLVs (+ the link-local/remote-id sub-TLV)
	Host     int      `json:"hostname_length"` // -1 = no hostname TLV
}

type zvC30SNP struct {
	Kind   string `json:"kind"` // csnp | psnp
	N      int    `json:"n_entries"`
	MaxPDU int    `json:"max_pdu_len"`
	Order  int    `json:"input_order"` // 0 ascending, 1 descending, 2 interleaved
}

type zvC30Case struct {
	Part   string      `json:"part"` // decode | hello | lsp | snp
	Entry  string      `json:"entry,omitempty"`
	Hex    string      `json:"hex,omitempty"`
	Origin string      `json:"origin,omitempty"`
	Hello  *zvC30Hello `json:"hello,omitempty"`
	LSP    *zvC30LSP   `json:"lsp,omitempty"`
	SNP    *zvC30SNP   `json:"snp,omitempty"`
}

var zvC30LLC = []byte{0xfe, 0xfe, 0x03}

const zvC30Pre = 3 + HeaderLen // LLC + common header

// zvC30Header mirrors protocols/isis/server getHeader().
func zvC30Header(pduType uint8) *ISISHeader {
	li := uint8(0)
	switch pduType {
	case L2_CSNP_TYPE, L1_CSNP_TYPE:
		li = CSNPMinLen
	case L2_PSNP_TYPE, L1_PSNP_TYPE:
		li = PSNPMinLen
	case P2P_HELLO:
		li = P2PHelloMinLen
	case L2_LS_PDU_TYPE, L1_LS_PDU_TYPE:
		li = LSPDUMinLen
	}
	return &ISISHeader{ProtoDiscriminator: 0x83, LengthIndicator: li, ProtocolIDExtension: 1, IDLength: 0, PDUType: pduType, Version: 1, MaxAreaAddresses: 0}
}

func zvC30Wire(pduType uint8, body Serializable) []byte {
	buf := bytes.NewBuffer(nil)
	buf.Write(zvC30LLC)
	zvC30Header(pduType).Serialize(buf)
	body.Serialize(buf)
	return buf.Bytes()
}

// ---------------------------------------------------------------------------
// builders (mirror the server's p2pHello() / generateLocalLSP())

func zvC30Area(i, l int) types.AreaID {
	b := make(types.AreaID, l)
	for j := range b {
		b[j] = byte(0x49 + 16*i + j)
	}
	return b
}

func zvC30Areas(lens []int) []types.AreaID {
	as := make([]types.AreaID, 0, len(lens))
	for i, l := range lens {
		as = append(as, zvC30Area(i, l))
	}
	return as
}

func zvC30Pfxs(n int) []*bnet.Prefix {
	ps := make([]*bnet.Prefix, 0, n)
	for i := 0; i < n; i++ {
		ps = append(ps, bnet.NewPfx(bnet.IPv4FromOctets(10, 0, byte(i), 1), 24).Ptr())
	}
	return ps
}

func zvC30SysID(i int) types.SystemID {
	return types.SystemID{0x10, 0x20, 0x30, 0x40, byte(i >> 8), byte(i)}
}

func zvC30BuildHello(s *zvC30Hello) *P2PHello {
	h := &P2PHello{CircuitType: s.Circuit, SystemID: zvC30SysID(1), HoldingTimer: s.Hold, PDULength: P2PHelloMinLen, LocalCircuitID: 1, TLVs: make([]TLV, 0, 5)}
	if s.Adj == 0 {
		h.TLVs = append(h.TLVs, NewP2PAdjacencyStateTLV(DOWN_STATE, 7))
	} else {
		st := uint8(P2PAdjStateInit)
		if s.Adj == 2 {
			st = P2PAdjStateUp
		}
		a := NewP2PAdjacencyStateTLV(st, 7)
		a.NeighborSystemID = zvC30SysID(2)
		a.NeighborExtendedLocalCircuitID = 0x01020304
		a.TLVLength = P2PAdjacencyStateTLVLenWithNeighbor
		h.TLVs = append(h.TLVs, a)
	}
	h.TLVs = append(h.TLVs, NewProtocolsSupportedTLV([]uint8{NLPIDIPv4, NLPIDIPv6}))
	h.TLVs = append(h.TLVs, NewIPInterfaceAddressesTLV(zvC30Pfxs(s.NAddrs)))
	h.TLVs = append(h.TLVs, NewAreaAddressesTLV(zvC30Areas(s.AreaLens)))
	return h
}

func zvC30BuildLSP(s *zvC30LSP) *LSPDU {
	eipr := NewExtendedIPReachabilityTLV()
	for i, pl := range s.PfxLens {
		addr := uint32(0x0a000000) | uint32(i+1)<<16 | 0xff01
		if pl == 0 {
			addr = 0
		} else {
			addr &= ^uint32(0) << uint(32-pl)
		}
		eipr.AddExtendedIPReachability(NewExtendedIPReachability(uint32(10+i), uint8(pl), addr))
	}
	eir := NewExtendedISReachabilityTLV()
	for i, nb := range s.Neigh {
		n := NewExtendedISReachabilityNeighbor(types.SourceID{SystemID: zvC30SysID(100 + i)}, uint32(10+i))
		for j := 0; j < nb[0]; j++ {
			n.AddSubTLV(NewIPv4InterfaceAddressSubTLV(0x0a000001 + uint32(j)<<8))
		}
		for j := 0; j < nb[1]; j++ {
			n.AddSubTLV(NewIPv4NeighborAddressSubTLV(0x0a000002 + uint32(j)<<8))
		}
		n.AddSubTLV(NewLinkLocalRemoteIdentifiersSubTLV(uint32(3+i), uint32(0x100+i)))
		eir.AddNeighbor(n)
	}
	l := &LSPDU{
		RemainingLifetime: 1800,
		LSPID:             LSPID{SystemID: zvC30SysID(1)},
		SequenceNumber:    0x01020304,
		TLVs: []TLV{
			NewAreaAddressesTLV(zvC30Areas(s.AreaLens)),
			NewProtocolsSupportedTLV([]uint8{NLPIDIPv4, NLPIDIPv6}),
			NewIPInterfaceAddressesTLV(zvC30Pfxs(s.NAddrs)),
			eipr,
			eir,
		},
	}
	if s.Host >= 0 {
		name := make([]byte, s.Host)
		for j := range name {
			name[j] = byte('a' + j%26)
		}
		l.TLVs = append(l.TLVs, NewDynamicHostnameTLV(name))
	}
	l.UpdateLength()
	l.SetChecksum()
	return l
}

func zvC30Entries(n, order int) []*LSPEntry {
	es := make([]*LSPEntry, n) // cap == len, like the server's getLSPEntries()
	for i := 0; i < n; i++ {
		k := i
		switch order {
		case 1:
			k = n - 1 - i
		case 2:
			if i%2 == 0 {
				k = i / 2
			} else {
				k = n - 1 - i/2
			}
		}
		es[i] = &LSPEntry{RemainingLifetime: uint16(1000 + k), LSPID: LSPID{SystemID: zvC30SysID(1 + k/3), PseudonodeID: uint8(k % 3)}, SequenceNumber: uint32(0x100 + k), LSPChecksum: uint16(0xa000 + k)}
	}
	return es
}

// ---------------------------------------------------------------------------
// statistics (flushed in batches: vh takes a mutex per call)

type zvC30Stats struct {
	evals, nontrivial int
	c                 map[string]int
}

func (s *zvC30Stats) count(k string) {
	if s.c == nil {
		s.c = map[string]int{}
	}
	s.c[k]++
}

func (s *zvC30Stats) flush(r *vh.Run) {
	r.Eval(s.evals)
	r.Nontrivial(s.nontrivial)
	for k, n := range s.c {
		r.Count(k, n)
	}
	s.evals, s.nontrivial, s.c = 0, 0, nil
}

// ---------------------------------------------------------------------------
// decode part

var zvC30Digits = regexp.MustCompile(`[0-9]+`)

func zvC30PanicClass(what string) string {
	s := zvC30Digits.ReplaceAllString(what, "N")
	if len(s) > 70 {
		s = s[:70]
	}
	return s
}

func zvC30PDUName(entry string, in []byte) string {
	if entry != "Decode" {
		return entry
	}
	if len(in) <= 7 {
		return "short"
	}
	switch in[7] {
	case P2P_HELLO:
		return "p2p_hello"
	case L2_LS_PDU_TYPE:
		return "l2_lsp"
	case L2_CSNP_TYPE:
		return "l2_csnp"
	case L2_PSNP_TYPE:
		return "l2_psnp"
	}
	return "other"
}

func zvC30DecodeOne(r *vh.Run, st *zvC30Stats, entry string, in []byte, origin string) {
	st.evals++
	st.count("decode_calls")
	var pkt *ISISPacket
	var l2 *L2Hello
	var err error
	data := make([]byte, len(in))
	copy(data, in)
	p, what := vh.Try(func() {
		if entry == "Decode" {
			pkt, err = Decode(bytes.NewBuffer(data))
		} else {
			l2, err = DecodeL2Hello(bytes.NewBuffer(data))
		}
	})
	mk := func() zvC30Case {
		return zvC30Case{Part: "decode", Entry: entry, Hex: hex.EncodeToString(in), Origin: origin}
	}
	switch {
	case p:
		r.Violation(vh.Sig("clause", "decode_panic", "pdu", zvC30PDUName(entry, in), "panic", zvC30PanicClass(what)), mk(), "%s of %d bytes (%s) panicked: %s", entry, len(in), origin, what)
	case err == nil && pkt == nil && l2 == nil:
		r.Violation(vh.Sig("clause", "neither_pdu_nor_error", "pdu", zvC30PDUName(entry, in)), mk(), "%s of %d bytes (%s) returned neither a PDU nor an error", entry, len(in), origin)
	case err != nil && (pkt != nil || l2 != nil):
		r.Violation(vh.Sig("clause", "pdu_and_error", "pdu", zvC30PDUName(entry, in)), mk(), "%s of %d bytes (%s) returned a PDU and the error %v", entry, len(in), origin, err)
	case err != nil:
		st.count("decode_returned_error")
	default:
		st.count("decode_returned_pdu")
		if pkt != nil && pkt.Body != nil {
			st.count("decode_returned_pdu_with_body")
		}
	}
}

type zvC30Seed struct {
	Name    string
	Entry   string
	Wire    []byte
	TLVOff  int   // offset of the first TLV
	LenOffs []int // offsets of TLV length bytes
	Inner   []int // offsets of length bytes inside TLV values (area length, sub-TLV length, PDU length field)
}

func (s *zvC30Seed) analyse(r *vh.Run) {
	off := s.TLVOff
	for off < len(s.Wire) {
		// a seed whose TLV structure is inconsistent (only possible when the
		// serializers are broken; the round-trip part reports that) is walked
		// as far as it is consistent
		if off+2 > len(s.Wire) {
			return
		}
		t, l := s.Wire[off], int(s.Wire[off+1])
		s.LenOffs = append(s.LenOffs, off+1)
		if off+2+l > len(s.Wire) {
			return
		}
		if t == AreaAddressesTLVType {
			for o := off + 2; o < off+2+l && o < len(s.Wire); o += 1 + int(s.Wire[o]) {
				s.Inner = append(s.Inner, o)
			}
		}
		if t == ExtendedISReachabilityType && l >= ExtendedISReachabilityNeighborMinLen {
			s.Inner = append(s.Inner, off+2+10) // sub-TLV length of the first neighbour
		}
		off += 2 + l
	}
}

func zvC30TLVBytes(t interface{ Serialize(*bytes.Buffer) }) []byte {
	b := bytes.NewBuffer(nil)
	t.Serialize(b)
	return b.Bytes()
}

func zvC30Seeds(r *vh.Run) []*zvC30Seed {
	var seeds []*zvC30Seed
	add := func(name, entry string, wire []byte, tlvOff int) {
		s := &zvC30Seed{Name: name, Entry: entry, Wire: wire, TLVOff: tlvOff}
		s.analyse(r)
		seeds = append(seeds, s)
	}
	helloOff, lspOff, csnpOff, psnpOff := zvC30Pre+P2PHelloMinLen-HeaderLen, zvC30Pre+LSPDUMinLen-HeaderLen, zvC30Pre+CSNPMinLen-HeaderLen, zvC30Pre+PSNPMinLen-HeaderLen
	add("hello_no_neighbour", "Decode", zvC30Wire(P2P_HELLO, zvC30BuildHello(&zvC30Hello{Circuit: 2, Adj: 0, NAddrs: 2, AreaLens: []int{3, 1}, Hold: 27})), helloOff)
	add("hello_with_neighbour", "Decode", zvC30Wire(P2P_HELLO, zvC30BuildHello(&zvC30Hello{Circuit: 3, Adj: 2, NAddrs: 1, AreaLens: []int{3}, Hold: 27})), helloOff)
	add("lsp_as_generated", "Decode", zvC30Wire(L2_LS_PDU_TYPE, zvC30BuildLSP(&zvC30LSP{AreaLens: []int{3, 1}, NAddrs: 2, PfxLens: []int{24, 9}, Neigh: [][2]int{{1, 1}}, Host: 2})), lspOff)
	// an LSP per TLV type (every type a serializer exists for or the decoder knows)
	lspWith := func(name string, tlv []byte) {
		l := &LSPDU{RemainingLifetime: 1800, LSPID: LSPID{SystemID: zvC30SysID(1)}, SequenceNumber: 5}
		w := append(zvC30Wire(L2_LS_PDU_TYPE, l), tlv...)
		n := len(w) - 3
		w[zvC30Pre], w[zvC30Pre+1] = byte(n>>8), byte(n)
		add("lsp_tlv_"+name, "Decode", w, lspOff)
	}
	eipr := NewExtendedIPReachabilityTLV()
	eipr.AddExtendedIPReachability(NewExtendedIPReachability(10, 24, 0x0a000100))
	eipr.AddExtendedIPReachability(NewExtendedIPReachability(20, 0, 0))
	eir := NewExtendedISReachabilityTLV()
	nb := NewExtendedISReachabilityNeighbor(types.SourceID{SystemID: zvC30SysID(9)}, 10)
	nb.AddSubTLV(NewIPv4InterfaceAddressSubTLV(0x0a000001))
	nb.AddSubTLV(NewLinkLocalRemoteIdentifiersSubTLV(3, 4))
	eir.AddNeighbor(nb)
	adj := NewP2PAdjacencyStateTLV(P2PAdjStateUp, 7)
	adj.TLVLength = P2PAdjacencyStateTLVLenWithNeighbor
	lspWith("area_addresses", zvC30TLVBytes(NewAreaAddressesTLV(zvC30Areas([]int{3, 13}))))
	lspWith("is_reachability", zvC30TLVBytes(NewISReachabilityTLV([]types.SourceID{{SystemID: zvC30SysID(9)}})))
	lspWith("is_neighbors", zvC30TLVBytes(ISNeighborsTLV{TLVType: ISNeighborsTLVType, TLVLength: 6, NeighborSNPA: zvC30SysID(9)}))
	lspWith("padding", zvC30TLVBytes(NewPaddingTLV(5)))
	lspWith("lsp_entries", zvC30TLVBytes(NewLSPEntriesTLV(zvC30Entries(2, 0))))
	lspWith("authentication", []byte{AuthenticationType, 4, 1, 'a', 'b', 'c'})
	lspWith("checksum", zvC30TLVBytes(&ChecksumTLV{TLVType: ChecksumTLVType, TLVLength: 2, Checksum: 0xbeef}))
	lspWith("extended_is_reachability", zvC30TLVBytes(eir))
	lspWith("protocols_supported", zvC30TLVBytes(NewProtocolsSupportedTLV([]uint8{NLPIDIPv4, NLPIDIPv6})))
	lspWith("ip_interface_addresses", zvC30TLVBytes(NewIPInterfaceAddressesTLV(zvC30Pfxs(2))))
	lspWith("te_router_id", zvC30TLVBytes(NewTrafficEngineeringRouterIDTLV(0x0a000001)))
	lspWith("extended_ip_reachability", zvC30TLVBytes(eipr))
	lspWith("dynamic_hostname", zvC30TLVBytes(NewDynamicHostnameTLV([]byte("bio"))))
	lspWith("p2p_adjacency_state", zvC30TLVBytes(adj))
	lspWith("unknown", zvC30TLVBytes(UnknownTLV{TLVType: 250, TLVLength: 3, TLVValue: []byte{1, 2, 3}}))
	// (a constructor that fails here is reported by the round-trip part; the seed is then built by hand)
	var cs []CSNP
	var ps []PSNP
	vh.Try(func() { cs = NewCSNPs(types.SourceID{SystemID: zvC30SysID(1)}, zvC30Entries(3, 0), 1492) })
	vh.Try(func() { ps = NewPSNPs(types.SourceID{SystemID: zvC30SysID(1)}, zvC30Entries(2, 0), 1492) })
	if len(cs) != 1 {
		tlv := NewLSPEntriesTLV(zvC30Entries(3, 0))
		cs = []CSNP{{PDULength: CSNPMinLen + 2 + 3*LSPEntryLen, SourceID: types.SourceID{SystemID: zvC30SysID(1)}, EndLSPID: LSPID{SystemID: types.SystemID{255, 255, 255, 255, 255, 255}, PseudonodeID: 255, LSPNumber: 255}, TLVs: []TLV{tlv}}}
	}
	if len(ps) != 1 {
		tlv := NewLSPEntriesTLV(zvC30Entries(2, 0))
		ps = []PSNP{{PDULength: PSNPMinLen + 2 + 2*LSPEntryLen, SourceID: types.SourceID{SystemID: zvC30SysID(1)}, TLVs: []TLV{tlv}}}
	}
	add("csnp", "Decode", zvC30Wire(L2_CSNP_TYPE, &cs[0]), csnpOff)
	add("psnp", "Decode", zvC30Wire(L2_PSNP_TYPE, &ps[0]), psnpOff)
	// LAN hello: not dispatched by Decode, its exported decoder is driven directly
	l2 := []byte{2, 0x10, 0x20, 0x30, 0x40, 0, 1, 0, 27, 0, 0, 64, 0, 0x10, 0x20, 0x30, 0x40, 0, 2}
	l2 = append(l2, zvC30TLVBytes(NewAreaAddressesTLV(zvC30Areas([]int{3})))...)
	l2 = append(l2, zvC30TLVBytes(NewProtocolsSupportedTLV([]uint8{NLPIDIPv4}))...)
	l2 = append(l2, zvC30TLVBytes(ISNeighborsTLV{TLVType: ISNeighborsTLVType, TLVLength: 6, NeighborSNPA: zvC30SysID(9)})...)
	l2[9], l2[10] = byte((len(l2)+HeaderLen)>>8), byte(len(l2)+HeaderLen)
	add("lan_hello_body", "DecodeL2Hello", l2, 19)
	return seeds
}

func zvC30Boundary(true_ int) []int {
	set := []int{0, 1, 2, true_ - 1, true_, true_ + 1, 0x7f, 0x80, 0xfe, 0xff}
	var out []int
	seen := map[int]bool{}
	for _, v := range set {
		if v >= 0 && v <= 255 && !seen[v] {
			seen[v] = true
			out = append(out, v)
		}
	}
	return out
}

var zvC30GridTypes = []int{0, 1, 2, 3, 6, 8, 9, 10, 12, 22, 129, 132, 134, 135, 137, 240, 255}

// zvC30DecodePart enumerates the decode space. Work items for sharding: one
// per (seed, family, offset).
func zvC30DecodePart(r *vh.Run, item *int) bool {
	seeds := zvC30Seeds(r)
	var st zvC30Stats
	defer st.flush(r)
	unit := func() (mine, stop bool) {
		*item++
		if !r.Mine(*item) {
			return false, false
		}
		st.flush(r)
		if r.OutOfBudget() {
			r.Cap("time budget: decode space not finished")
			return false, true
		}
		return true, false
	}
	thorough := r.Thorough()
	nSeedBytes := 0
	for _, s := range seeds {
		nSeedBytes += len(s.Wire)
		// the unmodified seed must decode (otherwise the mutation space is meaningless)
		// the unmodified seed, built by the real serializers, must decode
		if s.Entry == "Decode" {
			var pkt *ISISPacket
			var err error
			if p, _ := vh.Try(func() { pkt, err = Decode(bytes.NewBuffer(append([]byte{}, s.Wire...))) }); !p && (err != nil || pkt == nil || pkt.Body == nil) {
				r.Violation(vh.Sig("clause", "serialized_pdu_does_not_decode", "seed", s.Name), zvC30Case{Part: "decode", Entry: "seedcheck", Hex: hex.EncodeToString(s.Wire), Origin: "seed " + s.Name},
					"the PDU %s, built with the package's serializers, does not decode: %v", s.Name, err)
			}
		}
		buf := make([]byte, len(s.Wire), len(s.Wire)+300)
		// every offset x every value
		for off := range s.Wire {
			mine, stop := unit()
			if stop {
				return true
			}
			if !mine {
				continue
			}
			copy(buf, s.Wire)
			for v := 0; v < 256; v++ {
				buf[off] = byte(v)
				zvC30DecodeOne(r, &st, s.Entry, buf, fmt.Sprintf("seed %s, byte %d = 0x%02x", s.Name, off, v))
			}
			st.nontrivial += 255
		}
		// every truncation
		if mine, stop := unit(); stop {
			return true
		} else if mine {
			for n := 0; n < len(s.Wire); n++ {
				zvC30DecodeOne(r, &st, s.Entry, s.Wire[:n], fmt.Sprintf("seed %s truncated to %d bytes", s.Name, n))
				st.count("truncated_input")
			}
			st.nontrivial += len(s.Wire)
		}
		// every length byte x every value x {as is, cut to the declared length, extended to it}
		for _, off := range append(append([]int{}, s.LenOffs...), s.Inner...) {
			mine, stop := unit()
			if stop {
				return true
			}
			if !mine {
				continue
			}
			for v := 0; v < 256; v++ {
				copy(buf, s.Wire)
				buf[off] = byte(v)
				end := off + 1 + v
				if end < len(s.Wire) {
					zvC30DecodeOne(r, &st, s.Entry, buf[:end], fmt.Sprintf("seed %s, length byte %d = %d, packet cut to the declared end", s.Name, off, v))
					st.count("length_byte_with_cut_packet")
				} else if end > len(s.Wire) {
					ext := append(buf[:len(s.Wire)], make([]byte, end-len(s.Wire))...)
					zvC30DecodeOne(r, &st, s.Entry, ext, fmt.Sprintf("seed %s, length byte %d = %d, packet zero-extended to the declared end", s.Name, off, v))
					st.count("length_byte_with_extended_packet")
				}
				st.nontrivial++
			}
		}
		// pairs of TLV length bytes
		for i := 0; i < len(s.LenOffs); i++ {
			for j := i + 1; j < len(s.LenOffs); j++ {
				mine, stop := unit()
				if stop {
					return true
				}
				if !mine {
					continue
				}
				oi, oj := s.LenOffs[i], s.LenOffs[j]
				vi, vj := zvC30Boundary(int(s.Wire[oi])), zvC30Boundary(int(s.Wire[oj]))
				if thorough {
					vi, vj = vi[:0], vj[:0]
					for v := 0; v < 256; v++ {
						vi, vj = append(vi, v), append(vj, v)
					}
				}
				copy(buf, s.Wire)
				for _, a := range vi {
					for _, b := range vj {
						buf[oi], buf[oj] = byte(a), byte(b)
						zvC30DecodeOne(r, &st, s.Entry, buf, fmt.Sprintf("seed %s, length bytes %d = %d and %d = %d", s.Name, oi, a, oj, b))
						st.count("two_length_bytes_changed")
						st.nontrivial++
					}
				}
			}
		}
	}
	r.Extra("decode_seeds", len(seeds))
	r.Extra("decode_seed_bytes", nSeedBytes)
	// (TLV type x declared length x available bytes) grid behind a valid fixed part
	for _, s := range seeds {
		switch s.Name {
		case "hello_no_neighbour", "lsp_as_generated", "csnp", "psnp", "lan_hello_body":
		default:
			continue
		}
		fixed := s.Wire[:s.TLVOff]
		gridTypes := zvC30GridTypes
		if thorough {
			gridTypes = gridTypes[:0:0]
			for t := 0; t < 256; t++ {
				gridTypes = append(gridTypes, t)
			}
		}
		for _, t := range gridTypes {
			mine, stop := unit()
			if stop {
				return true
			}
			if !mine {
				continue
			}
			for l := 0; l < 256; l++ {
				seenK := map[int]bool{}
				for _, k := range []int{0, 1, l - 1, l, l + 1, l + 2} {
					if k < 0 || seenK[k] {
						continue
					}
					seenK[k] = true
					for _, fill := range []byte{0x00, 0x01, 0xff} {
						in := append(append([]byte{}, fixed...), byte(t), byte(l))
						for x := 0; x < k; x++ {
							in = append(in, fill)
						}
						zvC30DecodeOne(r, &st, s.Entry, in, fmt.Sprintf("%s fixed part + TLV type %d length %d followed by %d bytes 0x%02x", s.Name, t, l, k, fill))
						st.count("tlv_grid")
						st.nontrivial++
					}
				}
			}
		}
	}
	return false
}

// ---------------------------------------------------------------------------
// round-trip part

func zvC30HeaderEq(a, b *ISISHeader) bool { return a != nil && b != nil && *a == *b }

// zvC30RoundTrip checks one in-memory PDU. Clauses are evaluated root cause
// first and the first failing clause ends the evaluation of this PDU.
func zvC30RoundTrip(r *vh.Run, c zvC30Case, pdu string, pduType uint8, body Serializable, tlvs []TLV, declLen func() uint16, fixedDiff func(dec interface{}) string) (*ISISPacket, bool) {
	viol := func(sig map[string]string, f string, a ...any) {
		sig["pdu"] = pdu
		r.Violation(sig, c, f, a...)
	}
	var wire []byte
	if p, what := vh.Try(func() { wire = zvC30Wire(pduType, body) }); p {
		viol(vh.Sig("clause", "serialize_panic", "panic", zvC30PanicClass(what)), "serializing the %s panicked: %s", pdu, what)
		return nil, false
	}
	// length fields equal actual lengths
	for i, t := range tlvs {
		b := zvC30TLVBytes(t)
		if len(b) != 2+int(t.Length()) || len(b) < 2 || b[1] != t.Length() {
			viol(vh.Sig("clause", "tlv_length_field", "tlv", fmt.Sprint(t.Type())), "%s TLV #%d (type %d) declares length %d but serializes %d value bytes", pdu, i, t.Type(), t.Length(), len(b)-2)
			return nil, false
		}
	}
	if got, want := int(declLen()), len(wire)-len(zvC30LLC); got != want {
		viol(vh.Sig("clause", "pdu_length_field"), "%s declares PDU length %d, header+body are %d bytes", pdu, got, want)
		return nil, false
	}
	var pkt *ISISPacket
	var err error
	if p, what := vh.Try(func() { pkt, err = Decode(bytes.NewBuffer(append([]byte{}, wire...))) }); p {
		viol(vh.Sig("clause", "decode_panic", "panic", zvC30PanicClass(what)), "decoding the serialized %s panicked: %s", pdu, what)
		return nil, false
	}
	if err != nil || pkt == nil {
		viol(vh.Sig("clause", "decode_error"), "the serialized %s (%d bytes) does not decode: %v", pdu, len(wire), err)
		return nil, false
	}
	if !zvC30HeaderEq(pkt.Header, zvC30Header(pduType)) {
		viol(vh.Sig("clause", "header_mismatch"), "%s header decoded as %+v, sent %+v", pdu, pkt.Header, zvC30Header(pduType))
		return nil, false
	}
	if d := fixedDiff(pkt.Body); d != "" {
		viol(vh.Sig("clause", "fixed_fields"), "%s decoded with different fixed fields: %s", pdu, d)
		return nil, false
	}
	var dt []TLV
	switch b := pkt.Body.(type) {
	case *P2PHello:
		dt = b.TLVs
	case *LSPDU:
		dt = b.TLVs
	case *CSNP:
		dt = b.TLVs
	case *PSNP:
		dt = b.TLVs
	}
	if len(dt) != len(tlvs) {
		viol(vh.Sig("clause", "tlv_count"), "%s sent with %d TLVs, decoded with %d", pdu, len(tlvs), len(dt))
		return nil, false
	}
	for i := range tlvs {
		a, b := zvC30TLVBytes(tlvs[i]), zvC30TLVBytes(dt[i])
		if tlvs[i].Type() != dt[i].Type() || tlvs[i].Length() != dt[i].Length() || !bytes.Equal(a, b) {
			viol(vh.Sig("clause", "tlv_mismatch", "tlv", fmt.Sprint(tlvs[i].Type())), "%s TLV #%d sent as %x, decoded TLV re-serializes as %x", pdu, i, a, b)
			return nil, false
		}
	}
	var again []byte
	if p, what := vh.Try(func() { again = zvC30Wire(pduType, pkt.Body.(Serializable)) }); p {
		viol(vh.Sig("clause", "reserialize_panic", "panic", zvC30PanicClass(what)), "re-serializing the decoded %s panicked: %s", pdu, what)
		return nil, false
	}
	if !bytes.Equal(again, wire) {
		viol(vh.Sig("clause", "reserialize"), "%s: decode(serialize(x)) re-serializes to %x, original %x", pdu, again, wire)
		return nil, false
	}
	return pkt, true
}

func zvC30HelloOne(r *vh.Run, st *zvC30Stats, s zvC30Hello) {
	st.evals++
	st.nontrivial++
	h := zvC30BuildHello(&s)
	st.count("hello_checked")
	if s.Adj > 0 {
		st.count("hello_with_neighbour_checked")
	}
	_, ok := zvC30RoundTrip(r, zvC30Case{Part: "hello", Hello: &s}, "hello", P2P_HELLO, h, h.TLVs, func() uint16 { return h.PDULength }, func(dec interface{}) string {
		d, ok := dec.(*P2PHello)
		if !ok {
			return fmt.Sprintf("body is a %T", dec)
		}
		if d.CircuitType != h.CircuitType || d.SystemID != h.SystemID || d.HoldingTimer != h.HoldingTimer || d.PDULength != h.PDULength || d.LocalCircuitID != h.LocalCircuitID {
			return fmt.Sprintf("got {%d %v %d %d %d} want {%d %v %d %d %d}", d.CircuitType, d.SystemID, d.HoldingTimer, d.PDULength, d.LocalCircuitID, h.CircuitType, h.SystemID, h.HoldingTimer, h.PDULength, h.LocalCircuitID)
		}
		return ""
	})
	if ok {
		st.count("hello_round_trip_ok")
	}
}

func zvC30LSPOne(r *vh.Run, st *zvC30Stats, s zvC30LSP) {
	st.evals++
	st.nontrivial++
	l := zvC30BuildLSP(&s)
	st.count("lsp_checked")
	if s.Host == 255 {
		st.count("lsp_hostname_255_checked")
	}
	if len(s.Neigh) == 3 {
		st.count("lsp_three_neighbours_checked")
	}
	_, ok := zvC30RoundTrip(r, zvC30Case{Part: "lsp", LSP: &s}, "lsp", L2_LS_PDU_TYPE, l, l.TLVs, func() uint16 { return l.Length }, func(dec interface{}) string {
		d, ok := dec.(*LSPDU)
		if !ok {
			return fmt.Sprintf("body is a %T", dec)
		}
		if d.Length != l.Length || d.RemainingLifetime != l.RemainingLifetime || d.LSPID != l.LSPID || d.SequenceNumber != l.SequenceNumber || d.Checksum != l.Checksum || d.TypeBlock != l.TypeBlock {
			return fmt.Sprintf("got {%d %d %v %d %#x %d} want {%d %d %v %d %#x %d}", d.Length, d.RemainingLifetime, d.LSPID, d.SequenceNumber, d.Checksum, d.TypeBlock,
				l.Length, l.RemainingLifetime, l.LSPID, l.SequenceNumber, l.Checksum, l.TypeBlock)
		}
		return ""
	})
	if ok {
		st.count("lsp_round_trip_ok")
	}
}

func zvC30EntryEq(a, b *LSPEntry) bool { return a != nil && b != nil && *a == *b }

func zvC30SNPOne(r *vh.Run, st *zvC30Stats, s zvC30SNP) {
	st.evals++
	c := zvC30Case{Part: "snp", SNP: &s}
	in := zvC30Entries(s.N, s.Order)
	// expected content: what was handed in (CSNPs describe it in LSP ID order)
	want := zvC30Entries(s.N, 0)
	if s.Kind == "psnp" {
		want = zvC30Entries(s.N, s.Order)
	}
	per := (s.MaxPDU - CSNPMinLen) / LSPEntryLen
	if s.Kind == "psnp" {
		per = (s.MaxPDU - PSNPMinLen - 2) / LSPEntryLen
	}
	if s.N > per {
		st.count("snp_needs_several_pdus")
		st.nontrivial++
		if s.N%per != 0 {
			st.count("snp_last_pdu_partially_filled")
		}
	}
	if per > 15 && s.N > 15 {
		st.count("snp_more_entries_than_one_tlv_can_describe")
	}
	st.count(s.Kind + "_set_checked")
	src := types.SourceID{SystemID: zvC30SysID(1)}
	var csnps []CSNP
	var psnps []PSNP
	if p, what := vh.Try(func() {
		if s.Kind == "csnp" {
			csnps = NewCSNPs(src, in, s.MaxPDU)
		} else {
			psnps = NewPSNPs(src, in, s.MaxPDU)
		}
	}); p {
		r.Violation(vh.Sig("clause", "build_panic", "pdu", s.Kind, "panic", zvC30PanicClass(what)), c, "building the %ss for %d LSP entries (max PDU length %d) panicked: %s", s.Kind, s.N, s.MaxPDU, what)
		return
	}
	var got []*LSPEntry
	n := len(csnps) + len(psnps)
	for i := 0; i < n; i++ {
		var pkt *ISISPacket
		var ok bool
		if s.Kind == "csnp" {
			p := &csnps[i]
			pkt, ok = zvC30RoundTrip(r, c, "csnp", L2_CSNP_TYPE, p, p.TLVs, func() uint16 { return p.PDULength }, func(dec interface{}) string {
				d, ok := dec.(*CSNP)
				if !ok {
					return fmt.Sprintf("body is a %T", dec)
				}
				if d.PDULength != p.PDULength || d.SourceID != p.SourceID || d.StartLSPID != p.StartLSPID || d.EndLSPID != p.EndLSPID {
					return fmt.Sprintf("got {%d %v %v %v} want {%d %v %v %v}", d.PDULength, d.SourceID, d.StartLSPID, d.EndLSPID, p.PDULength, p.SourceID, p.StartLSPID, p.EndLSPID)
				}
				return ""
			})
		} else {
			p := &psnps[i]
			pkt, ok = zvC30RoundTrip(r, c, "psnp", L2_PSNP_TYPE, p, p.TLVs, func() uint16 { return p.PDULength }, func(dec interface{}) string {
				d, ok := dec.(*PSNP)
				if !ok {
					return fmt.Sprintf("body is a %T", dec)
				}
				if d.PDULength != p.PDULength || d.SourceID != p.SourceID {
					return fmt.Sprintf("got {%d %v} want {%d %v}", d.PDULength, d.SourceID, p.PDULength, p.SourceID)
				}
				return ""
			})
		}
		if !ok {
			return
		}
		st.count(s.Kind + "_pdu_round_trip_ok")
		var tlvs []TLV
		switch b := pkt.Body.(type) {
		case *CSNP:
			tlvs = b.TLVs
		case *PSNP:
			tlvs = b.TLVs
		}
		for _, t := range tlvs {
			if e, ok := t.(*LSPEntriesTLV); ok {
				got = append(got, e.LSPEntries...)
			}
		}
	}
	bad := len(got) != len(want)
	for i := 0; !bad && i < len(want); i++ {
		bad = !zvC30EntryEq(got[i], want[i])
	}
	if bad {
		r.Violation(vh.Sig("clause", "entries_mismatch", "pdu", s.Kind), c, "the %d %s(s) built for %d LSP entries (max PDU length %d) decode to %d entries / different entries", n, s.Kind, s.N, s.MaxPDU, len(got))
		return
	}
	st.count(s.Kind + "_set_content_ok")
}

// zvC30Tuples: all sequences of length 0..max over alphabet.
func zvC30Tuples(alphabet []int, max int) [][]int {
	out := [][]int{{}}
	prev := [][]int{{}}
	for l := 1; l <= max; l++ {
		var cur [][]int
		for _, p := range prev {
			for _, a := range alphabet {
				t := append(append([]int{}, p...), a)
				cur = append(cur, t)
			}
		}
		out = append(out, cur...)
		prev = cur
	}
	return out
}

func zvC30RoundTripPart(r *vh.Run, item *int) bool {
	var st zvC30Stats
	defer st.flush(r)
	unit := func() (mine, stop bool) {
		*item++
		if !r.Mine(*item) {
			return false, false
		}
		st.flush(r)
		if r.OutOfBudget() {
			r.Cap("time budget: round-trip space not finished")
			return false, true
		}
		return true, false
	}
	thorough := r.Thorough()
	areaTuples := zvC30Tuples([]int{1, 3, 13}, 3)
	// hellos
	for _, al := range areaTuples {
		mine, stop := unit()
		if stop {
			return true
		}
		if !mine {
			continue
		}
		for _, ct := range []uint8{1, 2, 3} {
			for adj := 0; adj <= 2; adj++ {
				for na := 0; na <= 3; na++ {
					for _, hold := range []uint16{0, 27, 0xffff} {
						zvC30HelloOne(r, &st, zvC30Hello{Circuit: ct, Adj: adj, NAddrs: na, AreaLens: al, Hold: hold})
					}
				}
			}
		}
	}
	// LSPs, family A: areas x addresses x hostname x small reachability TLVs
	hosts := []int{-1, 0, 1, 255}
	for _, al := range areaTuples {
		mine, stop := unit()
		if stop {
			return true
		}
		if !mine {
			continue
		}
		for na := 0; na <= 3; na++ {
			for _, host := range hosts {
				for np := 0; np <= 3; np++ {
					for nn := 0; nn <= 3; nn++ {
						s := zvC30LSP{AreaLens: al, NAddrs: na, Host: host, PfxLens: []int{}, Neigh: [][2]int{}}
						for i := 0; i < np; i++ {
							s.PfxLens = append(s.PfxLens, 24)
						}
						for i := 0; i < nn; i++ {
							s.Neigh = append(s.Neigh, [2]int{1, 1})
						}
						zvC30LSPOne(r, &st, s)
					}
				}
			}
		}
	}
	// LSPs, family B: every reachability combination
	pfxAlphabet := []int{0, 8, 9, 24, 32}
	maxPfx := 3
	if thorough {
		pfxAlphabet = pfxAlphabet[:0]
		for l := 0; l <= 32; l++ {
			pfxAlphabet = append(pfxAlphabet, l)
		}
		maxPfx = 2
	}
	pfxTuples := zvC30Tuples(pfxAlphabet, maxPfx)
	if thorough {
		pfxTuples = append(pfxTuples, zvC30Tuples([]int{0, 8, 9, 24, 32}, 3)[1+5+25:]...)
	}
	nbTuples := zvC30Tuples([]int{0, 1, 2, 3, 4, 5, 6, 7, 8}, 3) // digit = 3*interface-addresses + neighbour-addresses
	for _, pt := range pfxTuples {
		mine, stop := unit()
		if stop {
			return true
		}
		if !mine {
			continue
		}
		for _, nt := range nbTuples {
			for _, host := range []int{-1, 255} {
				s := zvC30LSP{AreaLens: []int{3}, NAddrs: 1, Host: host, PfxLens: pt, Neigh: [][2]int{}}
				for _, d := range nt {
					s.Neigh = append(s.Neigh, [2]int{d / 3, d % 3})
				}
				zvC30LSPOne(r, &st, s)
			}
		}
	}
	// CSNPs / PSNPs around the per-PDU split
	for _, kind := range []string{"csnp", "psnp"} {
		min := CSNPMinLen
		if kind == "psnp" {
			min = PSNPMinLen + 2
		}
		maxes := []int{min + 16, min + 20, min + 2*16, min + 3*16, min + 5*16, min + 15*16, min + 16*16, min + 17*16, 1492, 1497}
		for _, mx := range maxes {
			mine, stop := unit()
			if stop {
				return true
			}
			if !mine {
				continue
			}
			for n := 0; n <= 40; n++ {
				for order := 0; order <= 2; order++ {
					zvC30SNPOne(r, &st, zvC30SNP{Kind: kind, N: n, MaxPDU: mx, Order: order})
				}
			}
		}
	}
	return false
}

var zvC30Counters = []string{"decode_calls", "truncated_input", "length_byte_with_cut_packet", "length_byte_with_extended_packet",
	"two_length_bytes_changed", "tlv_grid", "hello_checked", "hello_with_neighbour_checked", "lsp_checked", "lsp_hostname_255_checked", "lsp_three_neighbours_checked",
	"csnp_set_checked", "psnp_set_checked", "snp_needs_several_pdus", "snp_last_pdu_partially_filled", "snp_more_entries_than_one_tlv_can_describe"}

func TestVerifC30(t *testing.T) {
	r := vh.Start(t, "C30")
	defer r.Finish()
	r.Rule("decode: seeds (P2P hello without/with neighbour, the LSP the server generates, an LSP per TLV type [15], CSNP, PSNP, LAN hello body) x {every offset x every byte value; every truncation; " +
		"every TLV/inner length byte x every value with the packet cut or zero-extended to the declared end; pairs of TLV length bytes x boundary values (thorough: all 256x256); " +
		"TLV type (17 types; thorough: all 256) x declared length 0..255 x available bytes {0,1,len-1,len,len+1,len+2} x fill {00,01,ff} grid behind each PDU's fixed part}. " +
		"round trip: P2P hellos {circuit type 1-3} x {no neighbour, initializing, up} x 0-3 addresses x 0-3 areas of lengths {1,3,13} x holding timer {0,27,65535}; " +
		"LSPs as generateLocalLSP builds them: 0-3 areas x 0-3 addresses x hostname {none,0,1,255 bytes} x 0-3 IP reachabilities x 0-3 neighbours, and every combination of " +
		"0-3 IP reachabilities with prefix lengths {0,8,9,24,32} (thorough: 0..32 for up to 2) x 0-3 neighbours with 0-2 interface- and 0-2 neighbour-address sub-TLVs x hostname {none,255}; " +
		"NewCSNPs/NewPSNPs for 0..40 LSP entries x 3 input orders x max PDU lengths giving 1,1,2,3,5,15,16,17,91 entries per PDU. " +
		"evaluations = decode calls + generated PDUs/PDU sets; non-trivial = inputs that differ from a valid PDU, generated PDUs, PDU sets that need a split")
	r.Require(zvC30Counters...)
	if r.IsReplay() {
		var c zvC30Case
		r.ReplayCase(&c)
		var st zvC30Stats
		switch c.Part {
		case "decode":
			in, err := hex.DecodeString(c.Hex)
			if err != nil {
				r.Fatalf("replay case: bad hex: %v", err)
			}
			if c.Entry == "seedcheck" {
				// re-build the named seed and decode it
				for _, sd := range zvC30Seeds(r) {
					if "seed "+sd.Name == c.Origin {
						if pkt, err := Decode(bytes.NewBuffer(append([]byte{}, sd.Wire...))); err != nil || pkt == nil || pkt.Body == nil {
							r.Violation(vh.Sig("clause", "serialized_pdu_does_not_decode", "seed", sd.Name), c, "the PDU %s, built with the package's serializers, does not decode: %v", sd.Name, err)
						}
					}
				}
				break
			}
			zvC30DecodeOne(r, &st, c.Entry, in, c.Origin)
		case "hello":
			zvC30HelloOne(r, &st, *c.Hello)
		case "lsp":
			zvC30LSPOne(r, &st, *c.LSP)
		case "snp":
			zvC30SNPOne(r, &st, *c.SNP)
		default:
			r.Fatalf("replay case: unknown part %q", c.Part)
		}
		st.flush(r)
		for _, k := range zvC30Counters {
			r.Count(k, 1)
		}
		return
	}
	item := 0
	if zvC30RoundTripPart(r, &item) {
		return
	}
	if zvC30DecodePart(r, &item) {
		return
	}
	r.Sample(zvC30Case{Part: "snp", SNP: &zvC30SNP{Kind: "csnp", N: 17, MaxPDU: CSNPMinLen + 5*16, Order: 1}})
	r.Sample(zvC30Case{Part: "lsp", LSP: &zvC30LSP{AreaLens: []int{3, 13}, NAddrs: 2, PfxLens: []int{24, 9, 0}, Neigh: [][2]int{{2, 1}, {0, 0}}, Host: 255}})
	if seeds := zvC30Seeds(r); len(seeds) > 0 {
		w := append([]byte{}, seeds[0].Wire...)
		w[seeds[0].LenOffs[0]] = 0xff
		r.Sample(zvC30Case{Part: "decode", Entry: "Decode", Origin: fmt.Sprintf("seed %s, byte %d = 0xff", seeds[0].Name, seeds[0].LenOffs[0]), Hex: hex.EncodeToString(w)})
	}
}
