package server

// C24 — connection collisions leave at most one established session.
// Engine E3: a peer with an outgoing (dialled) and an incoming connection; the
// harness plays the remote speaker on both. All interleavings (preemption
// bound) of the two handshakes with the FSM goroutines, x identifier orders.

import (
	"fmt"
	"testing"
	"time"

	"github.com/bio-routing/bio-rd/zzverif/vh"
	"github.com/bio-routing/bio-rd/zzverif/vsched"
)

type zvC24Case struct {
	RemoteID uint32 `json:"remote_bgp_id"`
	IBGP     bool   `json:"ibgp"`
	RemoteAS uint32 `json:"remote_as"`
	Order    string `json:"incoming_arrives"` // before-open | after-open-sent
	// Stall: the local speaker's writes on that connection ("dial" | "accept") block (full send buffer) from the moment the
	// remote OPENs are sent until both remote handshakes have got as far as they can; then the writes complete
	Stall string `json:"writes_stall_on,omitempty"`
	Schedule []int  `json:"schedule"`
	Bound    int    `json:"preemption_bound"`
	// Broken (sequential part): that connection's writes fail when its OPEN is answered; the other handshake runs afterwards
	Broken string `json:"broken_connection,omitempty"`
}

type zvC24Obs struct {
	established   []string // connections ("dial"/"accept") whose FSM is Established at the end
	attached      int
	openConns     []string
	ceaseOn       map[string]bool // connection name -> a Cease NOTIFICATION (code 6) was written on it
	closed        map[string]bool
	maxEstablished int // maximum number of simultaneously Established FSMs seen at any state change
	ribClients    uint64
	estLogged     int  // transitions into Established logged so far
	// the follow-up after the collision is resolved (exploration off): a third connection of the peer arrives while the
	// survivor is Established (it must be refused with a Cease NOTIFICATION), then the survivor's session ends and a
	// fourth connection arrives (it must get Established: the peer can come back)
	laterRan, thirdClosed, thirdCease, thirdEstablished, fourthEstablished bool
	survivorLeft bool
	// Established transitions logged when the local speaker entered the Write of a Cease NOTIFICATION on a connection
	// (-1: no such Write). collisionHandling runs before that Write and reads the other FSM's state, which is stored
	// after the transition is logged: 0 here means the other connection was not Established when the tie was broken
	estAtCeaseWrite map[string]int
	loserCeasedWhileOtherEstablished bool // a connection was ceased straight from OpenSent while the other was already Established (RFC 4271 6.8 last paragraph: the Established one wins whatever the identifiers)
}

func zvC24Explore(r *vh.Run, c zvC24Case, only []int) {
	var obs zvC24Obs
	body := func() {
		obs = zvC24Obs{ceaseOn: map[string]bool{}, closed: map[string]bool{}, estAtCeaseWrite: map[string]int{"dial": -1, "accept": -1}}
		vsched.SetExploring(false)
		w := zvNewWorld()
		o := zvPeerOpts{Addr: 9, Hold: 90 * time.Second, IBGP: c.IBGP}
		pc := w.peerConfig(o)
		if !c.IBGP {
			pc.PeerAS = c.RemoteAS
		}
		if err := w.srv.AddPeer(pc); err != nil {
			panic(err)
		}
		p := w.srv.peers.get(w.vrf, zvPeerIP(o))
		w.srv.Start()
		// count simultaneously established FSMs at every state change of this peer
		w.onFSMLog = func(peer, oldS, newS, reason string) {
			n := 0
			for _, f := range p.fsms {
				if zvFSMState(f) == stateNameEstablished {
					n++
				}
			}
			if newS == stateNameEstablished {
				n++ // the transition is logged just before the state is stored
				obs.estLogged++
			}
			if oldS == stateNameOpenSent && newS == stateNameCease && obs.estLogged > 0 {
				obs.loserCeasedWhileOtherEstablished = true
			}
			if only != nil {
				var st []string
				for _, f := range p.fsms {
					st = append(st, fmt.Sprintf("%s(in=%v)", zvFSMState(f), f.incoming))
				}
				fmt.Printf("   FSMLOG %s -> %s (%s); stored states %v; n=%d\n", oldS, newS, reason, st, n)
			}
			if n > obs.maxEstablished {
				obs.maxEstablished = n
			}
		}
		var c1, c2 *zvConn
		if c.Order == "before-open" {
			c2 = w.incoming(o)
			c1 = w.activeConnect()
		} else {
			c1 = w.activeConnect()
			c2 = w.incoming(o)
		}
		for _, zc := range []*zvConn{c1, c2} {
			if zc != nil {
				zc := zc
				zc.onWrite = func(b []byte) {
					if len(b) >= 21 && b[18] == 3 && b[19] == 6 && obs.estAtCeaseWrite[zc.name] < 0 {
						obs.estAtCeaseWrite[zc.name] = obs.estLogged
					}
				}
			}
		}
		if c1 == nil || c2 == nil {
			panic("connections not set up")
		}
		open := zvRemoteOpen(o, c.RemoteID)
		if !c.IBGP {
			open.AS = uint16(c.RemoteAS)
			open.Caps = []zvwCap{zvwCapASN4(c.RemoteAS)}
		}
		var stalled *zvConn
		switch c.Stall {
		case "dial":
			stalled = c1
		case "accept":
			stalled = c2
		}
		if stalled != nil {
			stalled.setStall(true)
		}
		vsched.SetExploring(true)
		speak := func(conn *zvConn) func() {
			return func() {
				vsched.Yield()
				conn.deliver(open.bytes())
				if conn == stalled {
					return // the local KEEPALIVE cannot be seen yet: the remote speaker answers it after the stall
				}
				vsched.Yield()
				conn.deliver(zvwKeepalive())
			}
		}
		h1 := vsched.GoNamed("remote-on-dialled", speak(c1))
		h2 := vsched.GoNamed("remote-on-accepted", speak(c2))
		vsched.Join(h1, h2)
		vsched.Settle()
		if stalled != nil {
			stalled.setStall(false)
			vsched.Settle()
			if !stalled.isClosed() {
				stalled.deliver(zvwKeepalive())
			}
			vsched.Settle()
		}
		vsched.SetExploring(false)
		vsched.Advance(10 * time.Millisecond)
		for _, f := range p.fsms {
			name := "?"
			if zc, ok := f.con.(*zvConn); ok {
				name = zc.name
			}
			if zvFSMState(f) == stateNameEstablished {
				obs.established = append(obs.established, name)
			}
			if f.ribsInitialized {
				obs.attached++
			}
		}
		for _, zc := range []*zvConn{c1, c2} {
			obs.closed[zc.name] = zc.closed
			if !zc.closed {
				obs.openConns = append(obs.openConns, zc.name)
			}
			for _, m := range zvParseStream(zc.out, false, false) {
				if m.Type == 3 && m.Code == 6 {
					obs.ceaseOn[zc.name] = true
				}
			}
		}
		obs.ribClients = w.rib4.ClientCount()
		// follow-up, only when the collision ended as it should (one Established session, nothing else attached)
		if len(obs.established) == 1 && obs.maxEstablished == 1 && obs.attached <= 1 {
			obs.laterRan = true
			handshake := func(zc *zvConn) {
				zc.deliver(open.bytes())
				vsched.Settle()
				if !zc.isClosed() {
					zc.deliver(zvwKeepalive())
					vsched.Settle()
				}
			}
			c3 := w.incoming(o)
			handshake(c3)
			obs.thirdClosed = c3.isClosed()
			for _, m := range zvParseStream(c3.out, false, false) {
				if m.Type == 3 && m.Code == 6 {
					obs.thirdCease = true
				}
			}
			var survivor *zvConn
			for _, f := range p.fsms {
				if zvFSMState(f) == stateNameEstablished {
					if zc, ok := f.con.(*zvConn); ok && zc == c3 {
						obs.thirdEstablished = true
					} else if ok {
						survivor = zc
					}
				}
			}
			if survivor != nil && !obs.thirdEstablished {
				survivor.deliver(zvwNotification(6, 2)) // the remote speaker ends the session (Cease / administrative shutdown)
				vsched.Settle()
				obs.survivorLeft = true
				for _, f := range p.fsms {
					if zvFSMState(f) == stateNameEstablished {
						obs.survivorLeft = false
					}
				}
				c4 := w.incoming(o)
				handshake(c4)
				for _, f := range p.fsms {
					if zc, ok := f.con.(*zvConn); ok && zc == c4 && zvFSMState(f) == stateNameEstablished {
						obs.fourthEstablished = true
					}
				}
			}
		}
	}
	// RFC 4271 6.8 / RFC 6286: which connection survives
	keep := "dial" // local identifier higher: the connection initiated by the local speaker
	if zvRouterID < c.RemoteID {
		keep = "accept"
	} else if zvRouterID == c.RemoteID {
		// equal identifiers (only on eBGP): the connection initiated by the speaker with the larger AS number
		if uint32(zvLocalAS) < c.RemoteAS {
			keep = "accept"
		}
	}
	check := func(x *vsched.Execution) {
		loser := map[string]string{"dial": "accept", "accept": "dial"}[keep]
		r.Eval(1)
		cc := c
		cc.Schedule = x.Choices
		idc := "local<remote"
		if zvRouterID > c.RemoteID {
			idc = "local>remote"
		} else if zvRouterID == c.RemoteID {
			idc = "equal"
		}
		sig := func(clause string, kv ...string) map[string]string {
			if c.Stall != "" {
				kv = append(kv, "stall", c.Stall)
			}
			return vh.Sig(append([]string{"clause", clause, "ids", idc, "order", c.Order}, kv...)...)
		}
		if x.Status != vsched.Completed {
			r.Violation(sig("run-"+x.Status.String()), cc, "execution %s: %s %.300s", x.Status, x.Blocked, x.Crash)
			return
		}
		r.Outcome(fmt.Sprint(obs.established, obs.openConns, obs.ceaseOn, obs.maxEstablished))
		if obs.maxEstablished > 1 || len(obs.established) > 1 {
			r.Violation(sig("two-established"), cc, "both connections of the peer were Established at the same time (final: %v, attached %d, Loc-RIB clients %d)", obs.established, obs.attached, obs.ribClients)
			return
		}
		if obs.attached > 1 || obs.ribClients > 1 {
			r.Violation(sig("two-attached"), cc, "more than one session of the peer contributes routes (attached %d, Loc-RIB clients %d)", obs.attached, obs.ribClients)
			return
		}
		if len(obs.established) == 1 {
			r.Count("one_established", 1)
			if obs.established[0] != keep && obs.loserCeasedWhileOtherEstablished && obs.estAtCeaseWrite[keep] != 0 {
				// the later connection collided with an already Established one: keeping the Established one is what RFC 4271 6.8 says
				r.Count("established_connection_kept", 1)
				loser = map[string]string{"dial": "accept", "accept": "dial"}[obs.established[0]]
			} else if obs.established[0] != keep {
				r.Violation(sig("wrong-survivor", "kept", obs.established[0]), cc, "the %s connection survived, RFC 4271 6.8 / RFC 6286 keep the %s one (local id %#x, remote id %#x, local AS %d, remote AS %d)", obs.established[0], keep, zvRouterID, c.RemoteID, zvLocalAS, c.RemoteAS)
				return
			}
			if !obs.closed[loser] {
				r.Violation(sig("loser-not-closed"), cc, "the losing %s connection was not closed", loser)
			} else if !obs.ceaseOn[loser] {
				r.Violation(sig("loser-no-cease"), cc, "the losing %s connection was closed without a Cease NOTIFICATION", loser)
			}
			if obs.laterRan {
				r.Count("follow_up_connections", 1)
				switch {
				case obs.thirdEstablished:
					r.Violation(sig("later-connection-replaced-established"), cc, "a third connection of the peer got Established although a session was Established")
				case !obs.thirdClosed || !obs.thirdCease:
					r.Violation(sig("later-connection-not-refused"), cc, "a third connection arriving while the survivor is Established was not refused with a Cease NOTIFICATION (closed %v, Cease %v)", obs.thirdClosed, obs.thirdCease)
				case !obs.survivorLeft:
					r.Violation(sig("survivor-ignores-notification"), cc, "the surviving session did not end on the peer's NOTIFICATION")
				case !obs.fourthEstablished:
					r.Violation(sig("peer-cannot-come-back"), cc, "after the collision was resolved and the surviving session ended, a new connection of the peer (OPEN, KEEPALIVE) does not get Established")
				}
			}
		} else {
			r.Count("none_established", 1)
			r.Violation(sig("none-established"), cc, "after both handshakes completed no connection is Established (open: %v)", obs.openConns)
		}
	}
	cfg := vsched.Config{MaxSteps: 100000, StrictDeviations: true}
	if only != nil {
		x := vsched.Replay(cfg, only, body)
		for _, l := range x.Log {
			fmt.Println("   ", l)
		}
		check(x)
		return
	}
	e := &vsched.Explorer{Bound: c.Bound, Body: body, Check: check, Stop: r.OutOfBudget, Cfg: cfg}
	e.Run()
	if e.Err != nil {
		r.Fatalf("%+v: %v", c, e.Err)
	}
	if e.Capped {
		r.Cap("time budget")
	}
	r.States(e.Executions)
	r.Transitions(e.Executions)
	r.Traces(e.Executions)
	r.Count("executions", e.Executions)
}

// zvC24AfterWriteFailure: no collision without a second connection. The peer's OPEN on one connection passes collision
// detection, then the KEEPALIVE answering it cannot be written (broken connection) and that FSM falls back to Active.
// The peer's handshake on the other connection, run afterwards, must get Established and must not be refused with Cease.
func zvC24AfterWriteFailure(r *vh.Run, c zvC24Case, broken string) {
	var established, cease, closed bool
	x := vsched.Exec(vsched.Config{MaxSteps: 100000}, func() {
		w := zvNewWorld()
		o := zvPeerOpts{Addr: 9, Hold: 90 * time.Second, IBGP: c.IBGP}
		pc := w.peerConfig(o)
		if !c.IBGP {
			pc.PeerAS = c.RemoteAS
		}
		if err := w.srv.AddPeer(pc); err != nil {
			panic(err)
		}
		p := w.srv.peers.get(w.vrf, zvPeerIP(o))
		w.srv.Start()
		c1 := w.activeConnect()
		c2 := w.incoming(o)
		open := zvRemoteOpen(o, c.RemoteID)
		if !c.IBGP {
			open.AS = uint16(c.RemoteAS)
			open.Caps = []zvwCap{zvwCapASN4(c.RemoteAS)}
		}
		bad, good := c1, c2
		if broken == "accept" {
			bad, good = c2, c1
		}
		bad.writeErr = fmt.Errorf("broken pipe")
		bad.deliver(open.bytes())
		vsched.Settle()
		good.deliver(open.bytes())
		vsched.Settle()
		if !good.isClosed() {
			good.deliver(zvwKeepalive())
			vsched.Settle()
		}
		closed = good.isClosed()
		for _, f := range p.fsms {
			if zc, ok := f.con.(*zvConn); ok && zc == good && zvFSMState(f) == stateNameEstablished {
				established = true
			}
		}
		for _, m := range zvParseStream(good.out, false, false) {
			if m.Type == 3 && m.Code == 6 {
				cease = true
			}
		}
	})
	r.Eval(1)
	r.Count("after_write_failure", 1)
	cc := c
	cc.Broken = broken
	sig := vh.Sig("clause", "phantom-collision-after-write-failure", "broken", broken)
	if x.Status != vsched.Completed {
		r.Violation(vh.Sig("clause", "run-"+x.Status.String(), "broken", broken), cc, "execution %s: %s %.300s", x.Status, x.Blocked, x.Crash)
	} else if !established || cease {
		r.Violation(sig, cc, "the %s connection broke while its OPEN was being answered (its FSM fell back to Active); the peer's handshake on the other connection afterwards: Established %v, refused with Cease %v, closed %v - there is no second connection to collide with", broken, established, cease, closed)
	}
}

func TestVerifC24(t *testing.T) {
	r := vh.Start(t, "C24")
	defer r.Finish()
	bound := 2
	if r.Thorough() {
		bound = 3
	}
	r.Rule(fmt.Sprintf("a peer with a dialled and an accepted connection; the remote speaker sends OPEN and KEEPALIVE on both; every schedule with at most %d deviations from the default schedule (any context switch other than the default one counts) of the two remote handshakes with the FSM goroutines, "+
		"x {local id < remote, local id > remote, equal ids with local AS < / > remote AS} x {iBGP, eBGP} x {no stall, the local writes on the dialled / on the accepted connection block during the handshakes (full send buffer) and complete afterwards}; invariant at every FSM state change and final-state oracle; after every schedule a follow-up without exploration: a third connection while the survivor is Established (must be refused with Cease), then the survivor's session ends and a fourth connection must get Established; plus, sequentially, per identifier case: one connection breaks while its OPEN is answered, the handshake on the other connection afterwards must get Established", bound))
	r.Require("executions")
	if r.IsReplay() {
		var c zvC24Case
		r.ReplayCase(&c)
		if c.Broken != "" {
			zvC24AfterWriteFailure(r, c, c.Broken)
			r.Count("executions", 1)
			return
		}
		zvC24Explore(r, c, append([]int{}, c.Schedule...))
		r.Count("executions", 1)
		return
	}
	var cases []zvC24Case
	// (an incoming connection that arrives long before the local dial is dropped by the 1 s OpenSent timer before any collision: not a collision scenario)
	for _, order := range []string{"after-open-sent"} {
		for _, id := range []uint32{0x09090909, 0x00000005} {
			cases = append(cases, zvC24Case{RemoteID: id, IBGP: true, RemoteAS: zvLocalAS, Order: order, Bound: bound})
			cases = append(cases, zvC24Case{RemoteID: id, IBGP: false, RemoteAS: zvRemoteAS, Order: order, Bound: bound})
		}
		cases = append(cases, zvC24Case{RemoteID: zvRouterID, IBGP: false, RemoteAS: zvRemoteAS, Order: order, Bound: bound}) // equal ids, remote AS larger
		cases = append(cases, zvC24Case{RemoteID: zvRouterID, IBGP: false, RemoteAS: 64900, Order: order, Bound: bound})      // equal ids, local AS larger
	}
	// the same with the local speaker's writes stalling on one of the connections during the handshakes
	for _, c := range append([]zvC24Case{}, cases...) {
		for _, st := range []string{"dial", "accept"} {
			c.Stall = st
			cases = append(cases, c)
		}
	}
	for i, c := range cases {
		if !r.Mine(i) {
			continue
		}
		if c.Stall == "" {
			for _, b := range []string{"dial", "accept"} {
				zvC24AfterWriteFailure(r, c, b)
			}
		}
		zvC24Explore(r, c, nil)
		r.Nontrivial(1)
		r.Sample(c)
	}
}
