package server

// C26 — the RIB pipeline and session layer are free of data races.
// Engine E3 in race mode: the harness binary is built with -race; the virtual
// runtime hides its hand-offs from the detector and re-creates only the
// program's own happens-before edges, so Go's happens-before race detector
// judges every explored schedule of the scenarios (writers, policy changes,
// session events, readers). A report is attributed to the schedule after which
// it appeared.

import (
	"fmt"
	"net"
	"os"
	"regexp"
	"sort"
	"strings"
	"testing"
	"time"

	"github.com/bio-routing/bio-rd/net/tcp"
	"github.com/bio-routing/bio-rd/protocols/bgp/packet"
	"github.com/bio-routing/bio-rd/route"
	"github.com/bio-routing/bio-rd/routingtable"
	"github.com/bio-routing/bio-rd/routingtable/adjRIBOut"
	"github.com/bio-routing/bio-rd/routingtable/filter"
	"github.com/bio-routing/bio-rd/routingtable/locRIB"
	"github.com/bio-routing/bio-rd/zzverif/vh"
	"github.com/bio-routing/bio-rd/zzverif/vsched"
)

type zvC26Case struct {
	Scenario string `json:"scenario"`
	Schedule []int  `json:"schedule"`
	Bound    int    `json:"deviation_bound"`
}

// zvRaceLog returns the race detector's log file of this process ("" when not in race mode).
func zvRaceLog() string {
	for _, f := range strings.Fields(os.Getenv("GORACE")) {
		if strings.HasPrefix(f, "log_path=") {
			return fmt.Sprintf("%s.%d", strings.TrimPrefix(f, "log_path="), os.Getpid())
		}
	}
	return ""
}

var zvFrameRe = regexp.MustCompile(`^  ([^\s(]+[^\s]*)\(`)

// zvParseRaces extracts from the detector's report text, per report, the innermost repo functions of the two accesses.
func zvParseRaces(text string) []map[string]string {
	var out []map[string]string
	for _, blk := range strings.Split(text, "WARNING: DATA RACE")[1:] {
		var kinds, fns []string
		lines := strings.Split(blk, "\n")
		for i := 0; i < len(lines); i++ {
			l := lines[i]
			lower := strings.ToLower(l)
			if (strings.HasPrefix(lower, "write at") || strings.HasPrefix(lower, "read at") || strings.HasPrefix(lower, "previous write at") || strings.HasPrefix(lower, "previous read at")) && len(kinds) < 2 {
				k := "read"
				if strings.Contains(lower, "write") {
					k = "write"
				}
				fn := "?"
				for j := i + 1; j < len(lines) && strings.HasPrefix(lines[j], "  "); j += 2 {
					m := zvFrameRe.FindStringSubmatch(lines[j])
					if m == nil {
						continue
					}
					f := m[1]
					if strings.Contains(f, "/zzverif/") || strings.HasPrefix(f, "runtime.") || strings.HasPrefix(f, "sync") {
						continue
					}
					if k := strings.LastIndex(f, "/"); k >= 0 {
						f = f[k+1:]
					}
					fn = f
					break
				}
				kinds = append(kinds, k)
				fns = append(fns, fn)
			}
		}
		if len(fns) == 2 {
			pair := []string{kinds[0] + ":" + fns[0], kinds[1] + ":" + fns[1]}
			sort.Strings(pair)
			out = append(out, map[string]string{"clause": "data-race", "a": pair[0], "b": pair[1]})
		}
	}
	return out
}

// zvC26Scenarios: concurrent users of the pipeline. Thread bodies only; nothing is read afterwards.
func zvC26Scenarios() []zvScenario {
	accept := filter.NewAcceptAllFilterChain()
	var sc []zvScenario
	// table level: writers, policy replacement, readers
	sc = append(sc, zvScenario{name: "R1 locrib writers||readers", build: func() ([]func(), func()) {
		rib := locRIB.New("inet.0")
		aro := adjRIBOut.New(rib, zvSessionAttrs(true, false), accept)
		aro.Register(&zvNullClient{})
		rib.RegisterWithOptions(aro, routingtable.ClientOptions{BestOnly: true})
		p1 := zvPfx4(192, 0, 2, 0, 24)
		rib.AddPath(p1, zvBGPPath(2, true, 100, 65002))
		return []func(){
			func() { rib.AddPath(p1, zvBGPPath(3, true, 200, 65003)); rib.RemovePath(p1, zvBGPPath(2, true, 100, 65002)) },
			func() {
				for _, r := range rib.Dump() {
					r.Paths()
					r.BestPath()
					r.ECMPPathCount()
				}
				rib.Count()
				rib.Get(p1).BestPath()
			},
			func() { aro.Dump(); aro.RouteCount() },
		}, func() {}
	}})
	sc = append(sc, zvC25Scenarios()...)
	// session level
	mk := func(name string, ops func(s *zvSess) []func()) {
		sc = append(sc, zvScenario{name: name, timed: true, build: func() ([]func(), func()) {
			vsched.SetExploring(false)
			s := zvSessStart(zvSessCfg{Name: "c26", A: zvPeerOpts{Addr: 9, Hold: 90 * time.Second}})
			for _, e := range []string{evT15, evOpen, evKA, evUpd1} {
				s.apply(e)
			}
			vsched.SetExploring(true)
			return ops(s), func() {}
		}})
	}
	mk("R2 update||metrics||api readers", func(s *zvSess) []func() {
		ip := zvPeerIP(s.cfg.A)
		return []func(){
			func() { s.cA.deliver(s.updateFor(zvR2)) },
			func() { s.w.srv.Metrics() },
			func() {
				if r := s.w.srv.GetRIBIn(s.w.vrf, ip, packet.AFIIPv4, packet.SAFIUnicast); r != nil {
					r.Dump()
				}
				if r := s.w.srv.GetRIBOut(s.w.vrf, ip, packet.AFIIPv4, packet.SAFIUnicast); r != nil {
					r.Dump()
				}
			},
		}
	})
	mk("R3 notification||metrics||api readers", func(s *zvSess) []func() {
		ip := zvPeerIP(s.cfg.A)
		return []func(){
			func() { s.cA.deliver(zvwNotification(6, 4)) },
			func() { s.w.srv.Metrics() },
			func() {
				s.pA.dumpRIBIn(packet.AFIIPv4, packet.SAFIUnicast)
				s.pA.dumpRIBOut(packet.AFIIPv4, packet.SAFIUnicast)
				s.w.srv.GetRIBIn(s.w.vrf, ip, packet.AFIIPv4, packet.SAFIUnicast)
			},
		}
	})
	mk("R4 policy replace||update||other session route change", func(s *zvSess) []func() {
		ip := zvPeerIP(s.cfg.A)
		return []func(){
			func() { s.w.srv.ReplaceImportFilterChain(s.w.vrf, ip, filter.NewDrainFilterChain()) },
			func() { s.cA.deliver(s.updateFor(zvR2)) },
			func() {
				s.cB.deliver(zvwUpdate(nil, []zvwAttr{zvwOrigin(0), zvwASPath(true), zvwNextHop(10, 0, 0, 8), zvwLocalPref(100)}, zvwNLRI([]zvwPrefix{zvRB2}, false)))
			},
		}
	})
	mkFrom := func(name string, reach []string, ops func(s *zvSess) []func()) {
		sc = append(sc, zvScenario{name: name, timed: true, build: func() ([]func(), func()) {
			vsched.SetExploring(false)
			s := zvSessStart(zvSessCfg{Name: "c26", A: zvPeerOpts{Addr: 9, Hold: 90 * time.Second}})
			for _, e := range reach {
				s.apply(e)
			}
			vsched.SetExploring(true)
			return ops(s), func() {}
		}})
	}
	// the session layer's per-family state (Adj-RIBs created by init(), dropped by dispose()) against the configuration API
	mkFrom("R6 policy replace (import, export)||notification (teardown)", []string{evT15, evOpen, evKA, evUpd1}, func(s *zvSess) []func() {
		ip := zvPeerIP(s.cfg.A)
		return []func(){
			func() { s.w.srv.ReplaceImportFilterChain(s.w.vrf, ip, filter.NewDrainFilterChain()) },
			func() { s.w.srv.ReplaceExportFilterChain(s.w.vrf, ip, filter.NewDrainFilterChain()) },
			func() { s.cA.deliver(zvwNotification(6, 4)) },
		}
	})
	mkFrom("R7 policy replace (import, export)||keepalive (establishment)", []string{evT15, evOpen}, func(s *zvSess) []func() {
		ip := zvPeerIP(s.cfg.A)
		return []func(){
			func() { s.w.srv.ReplaceImportFilterChain(s.w.vrf, ip, filter.NewDrainFilterChain()) },
			func() { s.w.srv.ReplaceExportFilterChain(s.w.vrf, ip, filter.NewDrainFilterChain()) },
			func() { s.cA.deliver(zvwKeepalive()) },
		}
	})
	mkFrom("R8 api rib readers||notification (teardown)", []string{evT15, evOpen, evKA, evUpd1}, func(s *zvSess) []func() {
		ip := zvPeerIP(s.cfg.A)
		return []func(){
			func() {
				if r := s.w.srv.GetRIBIn(s.w.vrf, ip, packet.AFIIPv4, packet.SAFIUnicast); r != nil {
					r.Dump()
				}
			},
			func() {
				if r := s.w.srv.GetRIBOut(s.w.vrf, ip, packet.AFIIPv4, packet.SAFIUnicast); r != nil {
					r.Dump()
				}
			},
			func() { s.cA.deliver(zvwNotification(6, 4)) },
		}
	})
	mkFrom("R10 metrics||api rib readers||keepalive (establishment)", []string{evT15, evOpen}, func(s *zvSess) []func() {
		ip := zvPeerIP(s.cfg.A)
		return []func(){
			func() { s.w.srv.Metrics() },
			func() {
				if r := s.w.srv.GetRIBIn(s.w.vrf, ip, packet.AFIIPv4, packet.SAFIUnicast); r != nil {
					r.Dump()
				}
				if r := s.w.srv.GetRIBOut(s.w.vrf, ip, packet.AFIIPv4, packet.SAFIUnicast); r != nil {
					r.Dump()
				}
				s.pA.dumpRIBIn(packet.AFIIPv4, packet.SAFIUnicast)
			},
			func() { s.cA.deliver(zvwKeepalive()) },
		}
	})
	mkFrom("R11 metrics||peer list||open (negotiation)", []string{evT15}, func(s *zvSess) []func() {
		return []func(){
			func() { s.w.srv.Metrics() },
			func() { s.w.srv.GetPeers() },
			func() { s.cA.deliver(zvRemoteOpen(s.cfg.A, 0x09090909).bytes()) },
		}
	})
	// establishment first, readers after: one preemption inside the FSM's init() is enough to put a reader in the middle of it
	mkFrom("R12 keepalive (establishment)||api rib readers||policy replace", []string{evT15, evOpen}, func(s *zvSess) []func() {
		ip := zvPeerIP(s.cfg.A)
		return []func(){
			func() { s.cA.deliver(zvwKeepalive()) },
			func() {
				if r := s.w.srv.GetRIBIn(s.w.vrf, ip, packet.AFIIPv4, packet.SAFIUnicast); r != nil {
					r.Dump()
				}
				if r := s.w.srv.GetRIBOut(s.w.vrf, ip, packet.AFIIPv4, packet.SAFIUnicast); r != nil {
					r.Dump()
				}
			},
			func() { s.w.srv.ReplaceExportFilterChain(s.w.vrf, ip, filter.NewDrainFilterChain()) },
		}
	})
	mkFrom("R9 policy replace||incoming connection||config read", []string{evT15}, func(s *zvSess) []func() {
		ip := zvPeerIP(s.cfg.A)
		return []func(){
			func() { s.w.srv.ReplaceImportFilterChain(s.w.vrf, ip, filter.NewDrainFilterChain()) },
			func() {
				c := s.w.newConn(net.IPv4(10, 0, 0, s.cfg.A.Addr), "accept")
				vsched.Send(s.w.lm.ch, tcp.ConnWithVRF{Conn: c, VRF: s.w.vrf})
			},
			func() {
				if c := s.w.srv.GetPeerConfig(s.w.vrf, ip); c != nil && c.IPv4 != nil {
					_ = c.IPv4.ImportFilterChain
				}
			},
		}
	})
	// what the API servers do with a dump (bgp_api.go DumpRIBIn/DumpRIBOut, the RIS server): convert every route, while
	// UPDATEs replace and withdraw the paths of a prefix the tables already hold
	mkFrom("R13 re-announcement, withdrawal of a held prefix||api dump converted (ToProto)", []string{evT15, evOpen, evKA, evUpd1}, func(s *zvSess) []func() {
		ip := zvPeerIP(s.cfg.A)
		return []func(){
			func() {
				s.cA.deliver(zvwUpdate(nil, []zvwAttr{zvwOrigin(0), zvwASPath(true, zvRemoteAS, 65010), zvwNextHop(10, 0, 0, 9), zvwMED(7)}, zvwNLRI([]zvwPrefix{zvR1}, false)))
				s.cA.deliver(zvwUpdate(zvwNLRI([]zvwPrefix{zvR1}, false), nil, nil))
			},
			func() {
				if r := s.w.srv.GetRIBIn(s.w.vrf, ip, packet.AFIIPv4, packet.SAFIUnicast); r != nil {
					for _, rt := range r.Dump() {
						rt.ToProto()
					}
				}
				if r := s.w.srv.GetRIBOut(s.w.vrf, ip, packet.AFIIPv4, packet.SAFIUnicast); r != nil {
					for _, rt := range r.Dump() {
						rt.ToProto()
					}
				}
			},
			func() {
				for _, rt := range s.w.rib4.Dump() {
					rt.ToProto()
				}
			},
		}
	})
	mkFrom("R14 incoming connection||metrics||api rib readers", []string{evT15, evOpen, evKA, evUpd1}, func(s *zvSess) []func() {
		ip := zvPeerIP(s.cfg.A)
		return []func(){
			func() {
				c := s.w.newConn(net.IPv4(10, 0, 0, s.cfg.A.Addr), "accept")
				vsched.Send(s.w.lm.ch, tcp.ConnWithVRF{Conn: c, VRF: s.w.vrf})
			},
			func() { s.w.srv.Metrics() },
			func() {
				s.w.srv.GetRIBIn(s.w.vrf, ip, packet.AFIIPv4, packet.SAFIUnicast)
				s.w.srv.GetRIBOut(s.w.vrf, ip, packet.AFIIPv4, packet.SAFIUnicast)
				s.pA.dumpRIBIn(packet.AFIIPv4, packet.SAFIUnicast)
			},
		}
	})
	mkFrom("R15 policy replace (import, export)||metrics||peer list", []string{evT15, evOpen, evKA, evUpd1}, func(s *zvSess) []func() {
		ip := zvPeerIP(s.cfg.A)
		return []func(){
			func() {
				s.w.srv.ReplaceImportFilterChain(s.w.vrf, ip, filter.NewDrainFilterChain())
				s.w.srv.ReplaceExportFilterChain(s.w.vrf, ip, filter.NewDrainFilterChain())
			},
			func() { s.w.srv.Metrics() },
			func() { s.w.srv.GetPeers(); s.w.srv.GetPeerConfig(s.w.vrf, ip) },
		}
	})
	mk("R5 stop||metrics", func(s *zvSess) []func() {
		return []func(){func() { s.pA.stop() }, func() { s.w.srv.Metrics() }, func() { s.w.srv.GetPeers() }}
	})
	return sc
}

func zvC26Run(r *vh.Run, sc zvScenario, bound int, only []int) {
	logPath := zvRaceLog()
	var lastSize int64
	if st, err := os.Stat(logPath); err == nil {
		lastSize = st.Size()
	}
	body := func() {
		route.ZZVerifResetBGPPathACache() // executions must not depend on what earlier ones left in the global dedup cache
		threads, _ := sc.build()
		var hs []vsched.Handle
		for i, f := range threads {
			hs = append(hs, vsched.GoNamed(fmt.Sprintf("op%d", i+1), f))
		}
		if sc.timed {
			vsched.Settle()
			vsched.SetExploring(false)
			vsched.Advance(16 * time.Second)
			return
		}
		vsched.Join(hs...)
	}
	check := func(x *vsched.Execution) {
		r.Eval(1)
		// deadlocks / crashes are C25's business; here only the detector speaks
		if logPath == "" {
			return
		}
		st, err := os.Stat(logPath)
		if err != nil || st.Size() == lastSize {
			return
		}
		b, _ := os.ReadFile(logPath)
		text := string(b[lastSize:])
		lastSize = st.Size()
		for _, sig := range zvParseRaces(text) {
			sig["scenario_kind"] = strings.Fields(sc.name)[0][:1]
			r.Violation(sig, zvC26Case{sc.name, x.Choices, bound}, "the race detector reported unsynchronised accesses: %s / %s (scenario %s)", sig["a"], sig["b"], sc.name)
		}
	}
	cfg := vsched.Config{StrictDeviations: sc.timed, MaxSteps: 100000}
	if only != nil {
		x := vsched.Replay(cfg, only, body)
		check(x)
		return
	}
	s, n := r.Shard()
	e := &vsched.Explorer{Bound: bound, Body: body, Check: check, Shard: s, NShards: n, Stop: r.OutOfBudget, Cfg: cfg, CheckRootOnAllShards: true}
	e.Run()
	if e.Err != nil {
		r.Fatalf("scenario %s: %v", sc.name, e.Err)
	}
	if e.Capped {
		r.Cap("time budget in scenario " + sc.name)
	}
	r.States(e.Executions)
	r.Transitions(e.Executions)
	r.Traces(e.Executions)
	r.Count("executions", e.Executions)
}

func TestVerifC26(t *testing.T) {
	r := vh.Start(t, "C26")
	defer r.Finish()
	if !vsched.RaceMode {
		r.Fatalf("C26 must be built with -race")
	}
	if zvRaceLog() == "" {
		r.Fatalf("GORACE log_path not set")
	}
	zvNoHooks = true
	bound := 1
	if r.Thorough() {
		bound = 2
	}
	r.Rule(fmt.Sprintf("every schedule with at most %d deviations of each scenario (Loc-RIB/Adj-RIB writers, policy replacement, registration, session events, metrics and API readers) run under the virtual runtime in a -race build; "+
		"the scheduler's hand-offs are hidden from the detector, the program's own synchronisation is preserved; every detector report is a violation; states = executions", bound))
	r.Require("executions")
	scs := zvC26Scenarios()
	if r.IsReplay() {
		var c zvC26Case
		r.ReplayCase(&c)
		for _, sc := range scs {
			if sc.name == c.Scenario {
				// the detector reports each pair of stacks once per process: replay in this fresh process shows it again
				zvC26Run(r, sc, c.Bound, append([]int{}, c.Schedule...))
			}
		}
		r.Count("executions", 1)
		return
	}
	for _, sc := range scs {
		zvC26Run(r, sc, bound, nil)
		r.Nontrivial(1)
	}
	r.Sample(map[string]any{"scenarios": len(scs), "bound": bound})
}
