package server

// C18 — UPDATE packing is lossless and respects the 4096 byte limit.
// Engine E5. Packing depends on the sequence of NLRI wire sizes and on the
// size of the path attributes, so the harness enumerates (NLRI size class,
// prefix count, attribute size swept byte by byte) grids on IPv4 classic, IPv4
// multiprotocol and IPv6 multiprotocol sessions, with and without add-path,
// through the real AdjRIBOut -> UpdateSender chain writing to a capture
// connection. What is written is parsed by the independent reference parser;
// the expected attributes are encoded by a reference encoder in this file.

import (
	"encoding/binary"
	"fmt"
	"runtime/debug"
	"sort"
	"strings"
	"testing"
	"time"

	bnet "github.com/bio-routing/bio-rd/net"
	"github.com/bio-routing/bio-rd/protocols/bgp/types"
	"github.com/bio-routing/bio-rd/route"
	"github.com/bio-routing/bio-rd/routingtable"
	"github.com/bio-routing/bio-rd/routingtable/adjRIBOut"
	"github.com/bio-routing/bio-rd/routingtable/filter"
	"github.com/bio-routing/bio-rd/zzverif/vh"
	"github.com/bio-routing/bio-rd/zzverif/vsched"
)

const zvC18ClusterID = 0x0a0b0c0d

var zvC18Fams = []string{"ipv4", "ipv4-mp", "ipv6-mp"}
var zvC18Profiles = []string{"lean-ibgp", "rich-ibgp-rrclient", "lean-ebgp"}

type zvC18Case struct {
	Fam     int    `json:"family"`  // 0 IPv4 classic, 1 IPv4 multiprotocol, 2 IPv6 multiprotocol
	AP      bool   `json:"addpath_tx"`
	Profile int    `json:"profile"` // 0 lean iBGP, 1 rich iBGP route reflector client, 2 lean eBGP (prepend + next-hop-self in the Adj-RIB-Out)
	ASNs    int    `json:"as_path_asns"`
	Unk     int    `json:"unknown_attr_len"` // -1 = no unknown attribute
	PLen    int    `json:"prefix_len"`
	N       int    `json:"count"`
	Tail    []int  `json:"tail_prefix_lens"`
	Tick    bool   `json:"flush_by_ticker"`
	Regime  string `json:"regime"`
	// a second set of prefixes queued at the same time (interleaved) whose path differs from the first in one attribute
	Second string `json:"second_set_differs_in"`
	N2     int    `json:"second_set_count"`
	// NH6 (IPv4 multiprotocol sessions, internal profiles): the path's next hop is an IPv6 address (RFC 8950 style):
	// MP_REACH_NLRI then carries 16 instead of 4 next hop octets
	NH6 bool `json:"ipv6_next_hop,omitempty"`
}

func (c zvC18Case) String() string {
	nh6 := ""
	if c.NH6 {
		nh6 = "/ipv6-next-hop"
	}
	return fmt.Sprintf("%s addpath=%v %s as_path=%d ASNs unknown_attr=%d bytes, %d x /%d + tail %v, flush by ticker=%v (%s)", zvC18Fams[c.Fam]+nh6, c.AP, zvC18Profiles[c.Profile], c.ASNs, c.Unk, c.N, c.PLen, c.Tail, c.Tick, c.Regime) + c.secondString()
}

func (c zvC18Case) secondString() string {
	if c.Second == "" {
		return ""
	}
	return fmt.Sprintf(" + second set of %d prefixes, path differs in %s", c.N2, c.Second)
}

func (c zvC18Case) v6() bool { return c.Fam == 2 }

// nhAddr is the path's next hop (and source) address
func (c zvC18Case) nhAddr(last byte) *bnet.IP {
	if c.NH6 {
		return bnet.IPv6FromBlocks(0x2001, 0xdb8, 0, 0, 0, 0, 0, uint16(last)).Dedup()
	}
	return c.addr(last)
}

func (c zvC18Case) addr(last byte) *bnet.IP {
	if c.v6() {
		return bnet.IPv6FromBlocks(0x2001, 0xdb8, 0, 0, 0, 0, 0, uint16(last)).Dedup()
	}
	return bnet.IPv4FromOctets(10, 0, 0, last).Dedup()
}

// ---------------------------------------------------------------------------
// prefixes

func zvC18Avail(plen int) int {
	if plen >= 24 {
		return 1 << 24
	}
	return 1 << uint(plen)
}

// zvC18Prefix returns the i-th prefix of the given length and its key in the reference parser's notation.
func zvC18Prefix(v6 bool, plen, i int) (*bnet.Prefix, string) {
	if !v6 {
		var a uint32
		if plen > 0 {
			a = uint32(i) << uint(32-plen)
		}
		return bnet.NewPfx(bnet.IPv4(a), uint8(plen)).Dedup(), fmt.Sprintf("1:%d.%d.%d.%d/%d", byte(a>>24), byte(a>>16), byte(a>>8), byte(a), plen)
	}
	var hi, lo uint64
	switch {
	case plen == 0:
	case plen <= 64:
		hi = uint64(i) << uint(64-plen)
	default:
		hi = 0x20010db800000000
		lo = uint64(i) << uint(128-plen)
	}
	b := make([]byte, 16)
	binary.BigEndian.PutUint64(b, hi)
	binary.BigEndian.PutUint64(b[8:], lo)
	return bnet.NewPfx(bnet.IPv6(hi, lo), uint8(plen)).Dedup(), fmt.Sprintf("2:%x/%d", b, plen)
}

func zvC18NLRISize(plen int, ap bool) int {
	s := 1 + (plen+7)/8
	if ap {
		s += 4
	}
	return s
}

type zvC18Pfx struct {
	P      *bnet.Prefix
	Key    string
	Size   int
	Second bool // belongs to the second set
}

// prefixes returns the queued prefixes in queueing order, or nil if the case would need one prefix twice.
func (c zvC18Case) prefixes() []zvC18Pfx {
	var out []zvC18Pfx
	seen := map[string]bool{}
	second := false
	add := func(plen, i int) bool {
		if i < 0 || i >= zvC18Avail(plen) {
			return false
		}
		p, k := zvC18Prefix(c.v6(), plen, i)
		if seen[k] {
			return false
		}
		seen[k] = true
		out = append(out, zvC18Pfx{p, k, zvC18NLRISize(plen, c.AP), second})
		return true
	}
	for i := 0; i < c.N || (c.Second != "" && i < c.N2); i++ {
		second = false
		if i < c.N && !add(c.PLen, i) {
			return nil
		}
		second = true
		if c.Second != "" && i < c.N2 && !add(c.PLen, zvC18Avail(c.PLen)/2+i) {
			return nil
		}
	}
	second = false
	for j, pl := range c.Tail {
		if !add(pl, zvC18Avail(pl)-1-j) {
			return nil
		}
	}
	return out
}

// ---------------------------------------------------------------------------
// the queued path and the reference encoding of its attributes

type zvC18Seg struct {
	Type byte
	ASNs []uint32
}

// stored AS path: c.ASNs ASNs in AS_SEQUENCE segments of at most 255
func (c zvC18Case) segments() []zvC18Seg {
	var out []zvC18Seg
	n := c.ASNs
	next := uint32(64512)
	for n > 0 {
		k := n
		if k > 255 {
			k = 255
		}
		s := zvC18Seg{Type: 2}
		for i := 0; i < k; i++ {
			s.ASNs = append(s.ASNs, next)
			next++
		}
		out = append(out, s)
		n -= k
	}
	return out
}

func (c zvC18Case) unknown() []byte {
	if c.Unk < 0 {
		return nil
	}
	b := make([]byte, c.Unk)
	for i := range b {
		b[i] = byte(i*7 + 1)
	}
	return b
}

func zvC18RichComms() []uint32 {
	var out []uint32
	for i := 0; i < 70; i++ {
		out = append(out, 65000<<16|uint32(i+1))
	}
	return out
}

func zvC18RichCluster() []uint32 {
	var out []uint32
	for i := 0; i < 64; i++ {
		out = append(out, uint32(0x09000000+i))
	}
	return out
}

func (c zvC18Case) path() *route.Path { return c.pathOf(false) }

var zvC18SecondKinds = []string{"unknown-attribute-value", "additional-unknown-attribute", "aggregator", "atomic-aggregate", "med", "communities", "as-path"}

func (c zvC18Case) pathOf(second bool) *route.Path {
	p := &route.Path{Type: route.BGPPathType, BGPPath: route.NewBGPPath()}
	a := p.BGPPath.BGPPathA
	a.Source = c.addr(30)
	a.NextHop = c.nhAddr(30)
	a.BGPIdentifier = 30
	a.EBGP = true
	a.LocalPref = 100
	ap := types.ASPath{}
	for _, s := range c.segments() {
		ap = append(ap, types.ASPathSegment{Type: s.Type, ASNs: append([]uint32{}, s.ASNs...)})
	}
	p.BGPPath.ASPath = &ap
	p.BGPPath.ASPathLen = ap.Length()
	if c.Unk >= 0 {
		p.BGPPath.UnknownAttributes = append(p.BGPPath.UnknownAttributes, types.UnknownPathAttribute{Optional: true, Transitive: true, TypeCode: 200, Value: c.unknown()})
	}
	if c.Profile == 1 {
		a.MED = 50
		a.AtomicAggregate = true
		a.Aggregator = &types.Aggregator{Address: 0x0a000063, ASN: 64999}
		a.OriginatorID = 7
		cl := types.ClusterList(zvC18RichCluster())
		p.BGPPath.ClusterList = &cl
		cs := types.Communities(zvC18RichComms())
		p.BGPPath.Communities = &cs
		lc := types.LargeCommunities{}
		for i := 0; i < 25; i++ {
			lc = append(lc, types.LargeCommunity{GlobalAdministrator: 65000, DataPart1: uint32(i), DataPart2: 9})
		}
		p.BGPPath.LargeCommunities = &lc
		p.BGPPath.UnknownAttributes = append(p.BGPPath.UnknownAttributes, types.UnknownPathAttribute{Optional: true, Transitive: true, TypeCode: 201, Value: []byte{1, 2, 3, 4, 5}})
	}
	if second {
		switch c.Second {
		case "unknown-attribute-value":
			p.BGPPath.UnknownAttributes[0].Value[0] ^= 0xff
		case "additional-unknown-attribute":
			p.BGPPath.UnknownAttributes = append(p.BGPPath.UnknownAttributes, types.UnknownPathAttribute{Optional: true, Transitive: true, TypeCode: 202, Value: []byte{9}})
		case "aggregator":
			a.Aggregator = &types.Aggregator{Address: 0x0a000064, ASN: 64998}
		case "atomic-aggregate":
			a.AtomicAggregate = !a.AtomicAggregate
		case "med":
			a.MED = 77
		case "communities":
			cs := types.Communities{}
			if p.BGPPath.Communities != nil {
				cs = append(cs, *p.BGPPath.Communities...)
			}
			cs = append(cs, 65000<<16|999)
			p.BGPPath.Communities = &cs
		case "as-path":
			(*p.BGPPath.ASPath)[0].ASNs[0] = 64000
		}
	}
	return p
}

func zvC18U32s(v ...uint32) []byte {
	b := make([]byte, 0, 4*len(v))
	for _, x := range v {
		b = append(b, byte(x>>24), byte(x>>16), byte(x>>8), byte(x))
	}
	return b
}

// expected returns the attributes every announcing UPDATE must carry (type -> value; NEXT_HOP only on the classic session) and the next hop.
func (c zvC18Case) expected() (map[byte][]byte, []byte) { return c.expectedOf(false) }

func (c zvC18Case) expectedOf(second bool) (map[byte][]byte, []byte) {
	e := map[byte][]byte{}
	e[1] = []byte{0}
	segs := c.segments()
	if second && c.Second == "as-path" {
		segs[0].ASNs[0] = 64000
	}
	nh := c.nhAddr(30).Bytes()
	if c.Profile == 2 {
		// exported over eBGP: local AS prepended (new segment if the first is full), next hop = local address
		if len(segs) > 0 && len(segs[0].ASNs) < 255 {
			segs[0].ASNs = append([]uint32{zvLocalAS}, segs[0].ASNs...)
		} else {
			segs = append([]zvC18Seg{{2, []uint32{zvLocalAS}}}, segs...)
		}
		nh = c.addr(1).Bytes()
	}
	var asp []byte
	for _, s := range segs {
		asp = append(asp, s.Type, byte(len(s.ASNs)))
		asp = append(asp, zvC18U32s(s.ASNs...)...)
	}
	e[2] = asp
	if c.Fam == 0 {
		e[3] = nh
	}
	if c.Profile != 2 {
		e[5] = zvC18U32s(100)
	}
	if c.Unk >= 0 {
		e[200] = c.unknown()
	}
	if c.Profile == 1 {
		e[4] = zvC18U32s(50)
		e[6] = []byte{}
		e[7] = zvC18U32s(64999, 0x0a000063)
		e[8] = zvC18U32s(zvC18RichComms()...)
		e[9] = zvC18U32s(7)
		e[10] = zvC18U32s(append([]uint32{zvC18ClusterID}, zvC18RichCluster()...)...)
		var lc []byte
		for i := 0; i < 25; i++ {
			lc = append(lc, zvC18U32s(65000, uint32(i), 9)...)
		}
		e[32] = lc
		e[201] = []byte{1, 2, 3, 4, 5}
	}
	if second {
		switch c.Second {
		case "unknown-attribute-value":
			v := append([]byte{}, e[200]...)
			v[0] ^= 0xff
			e[200] = v
		case "additional-unknown-attribute":
			e[202] = []byte{9}
		case "aggregator":
			e[7] = zvC18U32s(64998, 0x0a000064)
		case "atomic-aggregate":
			if _, on := e[6]; on {
				delete(e, 6)
			} else {
				e[6] = []byte{}
			}
		case "med":
			e[4] = zvC18U32s(77)
		case "communities":
			e[8] = append(append([]byte{}, e[8]...), zvC18U32s(65000<<16|999)...)
		}
	}
	return e, nh
}

// room is the number of NLRI bytes that fit into one UPDATE next to the attributes (reference arithmetic, RFC 4271 4.3 / RFC 4760 3).
func (c zvC18Case) room() int {
	e, nh := c.expected()
	used := 19 + 2 + 2
	for _, v := range e {
		used += 3 + len(v)
		if len(v) > 255 {
			used++
		}
	}
	if c.Fam == 0 {
		return 4096 - used
	}
	fixed := 2 + 1 + 1 + len(nh) + 1 // AFI, SAFI, next hop length, next hop, reserved
	r := 4096 - used - 4 - fixed       // extended length header
	if r+fixed <= 255-1 {
		r++ // the MP_REACH_NLRI value fits a one octet length
	}
	return r
}

// ---------------------------------------------------------------------------
// execution

type zvC18Obs struct {
	Status vsched.Status
	Crash  string
	Msgs   []zvMsg
}

func zvC18Run(c zvC18Case, pfxs []zvC18Pfx) zvC18Obs {
	var o zvC18Obs
	x := vsched.Exec(vsched.Config{MaxSteps: 50000000}, func() {
		w := zvNewWorld()
		po := zvPeerOpts{Addr: 9, Passive: true, IBGP: c.Profile != 2, RRClient: c.Profile == 1, IPv6: c.Fam == 2, MPv4: c.Fam == 1}
		if c.AP {
			po.AddPathTX = 4
		}
		pc := w.peerConfig(po)
		pc.RouteReflectorClusterID = zvC18ClusterID
		pc.LocalAddress = c.addr(1)
		pc.PeerAddress = c.addr(9)
		if err := w.srv.AddPeer(pc); err != nil {
			panic(err)
		}
		p := w.srv.peers.get(w.vrf, pc.PeerAddress)
		fsm := newFSM(p)
		conn := w.newConn(nil, "capture")
		fsm.con = conn
		fsm.supports4OctetASN = true
		f := fsm.ipv4Unicast
		if c.Fam == 2 {
			f = fsm.ipv6Unicast
		}
		f.multiProtocol = c.Fam != 0
		if c.AP {
			f.addPathTX = routingtable.ClientOptions{MaxPaths: 4}
		}
		aro := adjRIBOut.New(f.rib, f.getSessionAttrs(), filter.NewAcceptAllFilterChain())
		f.adjRIBOut = aro
		f.updateSender = newUpdateSender(f)
		f.updateSender.Start(5 * time.Millisecond)
		aro.Register(f.updateSender)

		path, path2 := c.pathOf(false), c.pathOf(true)
		for _, q := range pfxs {
			if q.Second {
				aro.AddPath(q.P, path2)
			} else {
				aro.AddPath(q.P, path)
			}
		}
		if c.Tick {
			vsched.Advance(20 * time.Millisecond)
		} else {
			aro.EndOfRIB()
		}
		o.Msgs = zvParseStream(conn.out, c.AP, c.AP)
	})
	o.Status, o.Crash = x.Status, x.Crash
	return o
}

// ---------------------------------------------------------------------------
// oracle

func zvC18Check(r *vh.Run, c zvC18Case) bool {
	pfxs := c.prefixes()
	if pfxs == nil {
		return false
	}
	room := c.room()
	total, maxSize := 0, 0
	for _, q := range pfxs {
		total += q.Size
		if q.Size > maxSize {
			maxSize = q.Size
		}
	}
	if room < maxSize {
		return false // a single prefix does not fit next to these attributes: outside the property's domain
	}
	r.Eval(1)
	// reference-side coverage (independent of what the sender does)
	r.Count("fam:"+zvC18Fams[c.Fam], 1)
	r.Count("profile:"+zvC18Profiles[c.Profile], 1)
	r.Count("regime:"+c.Regime, 1)
	if c.AP {
		r.Count("addpath:on", 1)
	} else {
		r.Count("addpath:off", 1)
	}
	if c.Tick {
		r.Count("flush:ticker", 1)
	} else {
		r.Count("flush:end-of-rib", 1)
	}
	// greedy lower bound of the number of messages needed
	need, fill, exact := 1, 0, false
	for _, q := range pfxs {
		if fill+q.Size > room {
			need++
			fill = 0
		}
		fill += q.Size
		if fill == room {
			exact = true
		}
	}
	switch {
	case need == 1:
		r.Count("ref:one-message-suffices", 1)
	case need == 2:
		r.Count("ref:two-messages-needed", 1)
	default:
		r.Count("ref:three-or-more-messages-needed", 1)
	}
	if exact {
		r.Count("ref:a-message-can-be-filled-exactly", 1)
	}
	if total > room-3 && total < room+3 {
		r.Count("ref:total-within-2-bytes-of-room", 1)
	}
	if need > 1 || exact || c.Second != "" {
		r.Nontrivial(1)
	}
	if c.Second != "" {
		r.Count("second-set:"+c.Second, 1)
	}

	o := zvC18Run(c, pfxs)
	sig := func(clause string, extra ...string) map[string]string {
		if c.Second != "" {
			// two sets queued together: what matters is the attribute the paths differ in, not the session
			return vh.Sig(append([]string{"clause", clause, "addpath", fmt.Sprint(c.AP), "second_set_differs_in", c.Second}, extra...)...)
		}
		return vh.Sig(append([]string{"clause", clause, "family", zvC18Fams[c.Fam], "addpath", fmt.Sprint(c.AP), "profile", zvC18Profiles[c.Profile]}, extra...)...)
	}
	if o.Status != vsched.Completed {
		r.Violation(sig("run-"+o.Status.String()), c, "case {%s}: execution %s: %.400s", c, o.Status, o.Crash)
		return true
	}
	want1, wantNH := c.expected()
	want2, _ := c.expectedOf(true)
	isSecond := map[string]bool{}
	for _, q := range pfxs {
		isSecond[q.Key] = q.Second
	}
	got := map[string]int{}
	updates, maxLen := 0, 0
	for _, m := range o.Msgs {
		if m.Len > maxLen {
			maxLen = m.Len
		}
		if m.Err != "" {
			if strings.Contains(m.Err, "exceeds 4096") {
				r.Violation(sig("message-too-long"), c, "case {%s}: %s (room for NLRI %d bytes, queued %d bytes)", c, m.Err, room, total)
			} else {
				r.Violation(sig("malformed-output"), c, "case {%s}: malformed message written: %s", c, m.Err)
			}
			continue
		}
		if m.Type != 2 {
			r.Violation(sig("unexpected-output"), c, "case {%s}: message of type %d written", c, m.Type)
			continue
		}
		if len(m.Withdrawn) > 0 {
			r.Violation(sig("unexpected-withdrawal"), c, "case {%s}: %d prefixes withdrawn, none was", c, len(m.Withdrawn))
		}
		if len(m.Announced) == 0 {
			continue // End-of-RIB marker
		}
		updates++
		for _, a := range m.Announced {
			got[fmt.Sprintf("%d:%s", a.AFI, a.Prefix)]++
		}
		// attributes: those of the set each announced prefix was queued with
		sets := map[bool]bool{}
		for _, a := range m.Announced {
			if sec, queued := isSecond[fmt.Sprintf("%d:%s", a.AFI, a.Prefix)]; queued {
				sets[sec] = true
			}
		}
		for _, sec := range []bool{false, true} {
			if !sets[sec] {
				continue
			}
			want, which := want1, ""
			if sec {
				want, which = want2, " (second set)"
			}
			var ks []int
			for k := range want {
				ks = append(ks, int(k))
			}
			for k := range m.Attrs {
				if _, ok := want[k]; !ok && k != 14 {
					ks = append(ks, int(k))
				}
			}
			sort.Ints(ks)
			for _, k := range ks {
				wv, wok := want[byte(k)]
				gv, gok := m.Attrs[byte(k)]
				if wok != gok || string(wv) != string(gv) {
					r.Violation(sig("attributes-differ", "attr", fmt.Sprint(k)), c, "case {%s}: attribute %d%s: queued present=%v %d bytes %.40x, written present=%v %d bytes %.40x", c, k, which, wok, len(wv), wv, gok, len(gv), gv)
				}
			}
		}
		if c.Fam != 0 {
			v, ok := m.Attrs[14]
			if !ok || len(v) < 4 || 4+int(v[3]) > len(v) || string(v[4:4+int(v[3])]) != string(wantNH) {
				r.Violation(sig("attributes-differ", "attr", "mp-next-hop"), c, "case {%s}: MP_REACH_NLRI next hop differs from the queued next hop %x (attribute present=%v)", c, wantNH, ok)
			}
		}
	}
	r.Outcome(fmt.Sprint(c.Fam, c.AP, c.Profile, len(pfxs), total-room, updates, maxLen))
	lost, dup := 0, 0
	firstLost := ""
	for _, q := range pfxs {
		switch n := got[q.Key]; {
		case n == 0:
			lost++
			if firstLost == "" {
				firstLost = q.Key
			}
		case n > 1:
			dup++
		}
		delete(got, q.Key)
	}
	if lost > 0 {
		r.Violation(sig("prefix-lost"), c, "case {%s}: %d of %d queued prefixes were never announced (first: %s); %d UPDATEs written, room for NLRI per message %d bytes, queued %d bytes", c, lost, len(pfxs), firstLost, updates, room, total)
	}
	if dup > 0 {
		r.Violation(sig("prefix-announced-twice"), c, "case {%s}: %d prefixes announced more than once", c, dup)
	}
	if len(got) > 0 {
		r.Violation(sig("unexpected-announcement"), c, "case {%s}: %d prefixes announced that were not queued", c, len(got))
	}
	return true
}

// ---------------------------------------------------------------------------
// enumeration

// size class representatives: one prefix length per NLRI byte size (thorough: also a non-octet length)
func zvC18PLens(v6, thorough bool) []int {
	max := 32
	if v6 {
		max = 128
	}
	var out []int
	for pl := 0; pl <= max; pl += 8 {
		out = append(out, pl)
		if thorough && pl+3 <= max {
			out = append(out, pl+3)
		}
	}
	return out
}

// attribute settings that leave exactly R bytes of room, R in [lo,hi]
type zvC18Attr struct{ ASNs, Unk, Room int }

func zvC18AttrSweep(c zvC18Case, lo, hi int, byASPath bool) []zvC18Attr {
	var out []zvC18Attr
	have := map[int]bool{}
	if !byASPath {
		// one unknown attribute swept byte by byte, short AS path
		c.ASNs = 3
		c.Unk = 300
		base := c.room() + 300 // room + unknown value length is constant while the attribute needs the extended length
		for R := lo; R <= hi; R++ {
			for _, u := range []int{base - R, base - R + 1} { // (+1: a short MP_REACH_NLRI saves the extended length octet)
				c.Unk = u
				if u > 255 && c.room() == R {
					out = append(out, zvC18Attr{c.ASNs, u, R})
					break
				}
			}
		}
		return out
	}
	// the AS path swept ASN by ASN, the remaining 0..3 bytes by a tiny unknown attribute (or none)
	c.ASNs, c.Unk = 0, -1
	start := (c.room()-lo)/4 + 2
	for asns := start; asns >= 0 && len(have) < hi-lo+1; asns-- {
		c.ASNs, c.Unk = asns, -1
		if c.room() > hi+8 {
			break
		}
		for _, u := range []int{-1, 0, 1, 2, 3} {
			c.ASNs, c.Unk = asns, u
			R := c.room()
			if R >= lo && R <= hi && !have[R] {
				have[R] = true
				out = append(out, zvC18Attr{asns, u, R})
			}
		}
	}
	sort.Slice(out, func(i, j int) bool { return out[i].Room < out[j].Room })
	return out
}

func zvC18Enumerate(thorough bool, visit func(c zvC18Case) bool) {
	profiles := []int{0, 1}
	if thorough {
		profiles = []int{0, 1, 2}
	}
	hiA, hiAS, bulkL := 32, 8, 24
	if thorough {
		hiA, hiAS, bulkL = 80, 32, 40
	}
	for fam := 0; fam < 4; fam++ {
		for _, ap := range []bool{false, true} {
			for _, prof := range profiles {
				for _, tick := range []bool{false, true} {
					base := zvC18Case{Fam: fam, AP: ap, Profile: prof, Tick: tick}
					if fam == 3 {
						// IPv4 multiprotocol session, paths with an IPv6 next hop (internal profiles: an external session sets its own address)
						if prof == 2 {
							continue
						}
						base.Fam, base.NH6 = 1, true
					}
					plens := zvC18PLens(fam == 2, false)       // one prefix length per NLRI byte size
					bulkLens := zvC18PLens(fam == 2, thorough) // thorough: also lengths that are not a multiple of 8
					if fam == 2 && thorough {
						bulkLens = []int{16, 19, 32, 48, 61, 64, 96, 125, 128}
					}
					// regime "boundary": little room, every count up to 2.2 x capacity, room swept byte by byte
					for pass := 0; pass < 2; pass++ {
						hi := hiA
						if pass == 1 {
							hi = hiAS
							if tick && !thorough {
								continue
							}
						}
						for _, at := range zvC18AttrSweep(base, 1, hi, pass == 1) {
							for _, pl := range plens {
								s := zvC18NLRISize(pl, ap)
								if s > at.Room {
									continue
								}
								maxN := (22*at.Room)/(10*s) + 2
								for n := 1; n <= maxN && n <= zvC18Avail(pl); n++ {
									c := base
									c.ASNs, c.Unk, c.PLen, c.N, c.Regime = at.ASNs, at.Unk, pl, n, "boundary"
									if !visit(c) {
										return
									}
								}
							}
						}
					}
					// regime "sets": two sets of prefixes queued at the same time (interleaved) whose paths differ in one attribute
					for _, kind := range zvC18SecondKinds {
						for n1 := 1; n1 <= 3; n1++ {
							for n2 := 1; n2 <= 3; n2++ {
								c := base
								c.ASNs, c.Unk, c.PLen, c.N, c.Regime, c.Second, c.N2 = 2, 4, 24, n1, "sets", kind, n2
								if !visit(c) {
									return
								}
							}
						}
					}
					// regime "tails": the last three prefixes of every size combination after a bulk that nearly fills a message
					tailLens := plens
					if fam == 2 && !thorough {
						tailLens = []int{0, 8, 64, 128}
					}
					if fam == 2 && thorough {
						tailLens = []int{0, 8, 32, 64, 128}
					}
					loT, hiT := 37, 37
					if thorough {
						loT, hiT = 34, 40
					}
					if !(tick && !thorough) {
						for _, at := range zvC18AttrSweep(base, loT, hiT, false) {
							for _, pl := range []int{8, 16, 32} {
								s := zvC18NLRISize(pl, ap)
								for n := at.Room/s - 2; n <= at.Room/s; n++ {
									if n < 0 {
										continue
									}
									for _, t1 := range tailLens {
										for _, t2 := range tailLens {
											for _, t3 := range tailLens {
												c := base
												c.ASNs, c.Unk, c.PLen, c.N, c.Tail, c.Regime = at.ASNs, at.Unk, pl, n, []int{t1, t2, t3}, "tails"
												if !visit(c) {
													return
												}
											}
										}
									}
								}
							}
						}
					}
					// regime "bulk": small attributes, thousands of prefixes, counts around the multiples of the capacity,
					// attribute length swept byte by byte so that the capacity boundaries move through the counts
					for L := -1; L <= bulkL; L++ {
						c := base
						c.ASNs, c.Unk = 2, L
						room := c.room()
						for _, pl := range bulkLens {
							if pl < 16 {
								continue // not enough distinct prefixes to fill a message
							}
							if !thorough && pl%16 != 0 && pl != 24 {
								continue
							}
							s := zvC18NLRISize(pl, ap)
							capN := room / s
							ns := []int{capN - 1, capN, capN + 1, 2*capN - 1, 2 * capN, 2*capN + 1, (22 * capN) / 10}
							if !thorough {
								ns = []int{capN, capN + 1, 2*capN + 1}
								if (L+1)%4 != 0 && L > 3 {
									continue
								}
							}
							for _, n := range ns {
								c.PLen, c.N, c.Regime = pl, n, "bulk"
								if !visit(c) {
									return
								}
							}
						}
					}
				}
			}
		}
	}
}

var zvC18Required = []string{
	"fam:ipv4", "fam:ipv4-mp", "fam:ipv6-mp", "profile:lean-ibgp", "profile:rich-ibgp-rrclient", "regime:boundary", "regime:tails", "regime:bulk", "regime:sets", "second-set:unknown-attribute-value", "second-set:aggregator", "second-set:med", "addpath:on", "addpath:off",
	"flush:ticker", "flush:end-of-rib", "ref:one-message-suffices", "ref:two-messages-needed", "ref:three-or-more-messages-needed", "ref:a-message-can-be-filled-exactly", "ref:total-within-2-bytes-of-room",
}

func TestVerifC18(t *testing.T) {
	debug.SetGCPercent(400)
	r := vh.Start(t, "C18")
	defer r.Finish()
	r.Rule("sessions {IPv4 classic, IPv4 multiprotocol, IPv6 multiprotocol} x add-path TX {off,on} x attribute profile {lean iBGP, rich iBGP RR client (MED, ATOMIC_AGGREGATE, AGGREGATOR, 70 communities, 25 large communities, " +
		"ORIGINATOR_ID, 65 cluster ids, 2 unknown attributes); thorough: lean eBGP with prepend} x flush {End-of-RIB, aggregation ticker} x three regimes: boundary = attribute size (unknown attribute length byte by byte; AS path length ASN by ASN) " +
		"chosen so that R = 1..32 (thorough 80) bytes remain for NLRI, x every NLRI size class x every count 1..2.2R/size+2; tails = bulk filling a message up to 0..2 prefixes x every size combination of three more prefixes; " +
		"bulk = small attributes (unknown attribute absent or 0..24 (thorough 40) bytes, byte by byte; thorough also prefix lengths that are not a multiple of 8) x size classes >= /16 x counts around 1x and 2x capacity and 2.2x capacity; sets = two sets of 1..3 prefixes queued interleaved whose paths differ in exactly one of {unknown attribute value, additional unknown attribute, AGGREGATOR, ATOMIC_AGGREGATE, MED, communities, AS path}, each prefix must carry the attributes of its own set. Oracle on the captured stream only. Non-trivial = cases needing more than one message or able to fill one exactly")
	r.Require(zvC18Required...)
	if r.IsReplay() {
		var c zvC18Case
		r.ReplayCase(&c)
		if !zvC18Check(r, c) {
			r.Fatalf("replay case is outside the domain: %s", c)
		}
		o := zvC18Run(c, c.prefixes())
		fmt.Printf("case: %s\nroom: %d\n", c, c.room())
		for i, m := range o.Msgs {
			fmt.Printf("  message %d: type %d, %d bytes, %d announced, err=%q\n", i, m.Type, m.Len, len(m.Announced), m.Err)
		}
		for _, k := range zvC18Required {
			r.Count(k, 1)
		}
		return
	}
	idx := 0
	capped := false
	zvC18Enumerate(r.Thorough(), func(c zvC18Case) bool {
		idx++
		if !r.Mine(idx) {
			return true
		}
		if idx%512 < 16 && r.OutOfBudget() {
			r.Cap("time budget")
			capped = true
			return false
		}
		if zvC18Check(r, c) && idx%50021 == 0 {
			r.Sample(c)
		}
		return true
	})
	_ = capped
}
