package filter

// C14 — policy evaluation agrees with a reference interpreter.
// Engine E5 (bounded-exhaustive enumeration of programs x inputs).
//
// Three layers, all on the real filter.Chain:
//   matcher: every 1-term chain "from <route filter | prefix list> then reject" for every
//            pattern (a base address truncated at EVERY length, IPv4 and IPv6) x every matcher
//            of a matcher set x a dense probe set (every length and every sibling, both families);
//   chain:   every chain whose terms are drawn from a term catalogue: all sequences of 1..3
//            terms x every split of the sequence into 1..3 filters, x probe prefixes x paths;
//   equal:   every ordered pair of 1-filter chains over the catalogue (each chain built from
//            fresh objects): if c.Equal(d) then both must give identical outcomes on every input.
//
// The reference interpreter (zvC14Ref*) works on specs only: prefixes are bit strings, paths
// are plain structs. It is a transcription of the documented semantics (property statement,
// Documentation/user/config/policy.md, doc comments), not of the implementation.

import (
	"fmt"
	"strings"
	"testing"

	bnet "github.com/bio-routing/bio-rd/net"
	"github.com/bio-routing/bio-rd/protocols/bgp/types"
	"github.com/bio-routing/bio-rd/route"
	"github.com/bio-routing/bio-rd/routingtable/filter/actions"
	"github.com/bio-routing/bio-rd/zzverif/vh"
)

// ---- specs -------------------------------------------------------------------

type zvC14Pfx struct {
	Fam  int    `json:"family"`
	Bits string `json:"bits"`
}

func (p zvC14Pfx) w() int {
	if p.Fam == 4 {
		return 32
	}
	return 128
}

func (p zvC14Pfx) ip() bnet.IP {
	l := len(p.Bits)
	if p.Fam == 4 {
		var v uint32
		for i := 0; i < 32; i++ {
			v <<= 1
			if i < l && p.Bits[i] == '1' {
				v |= 1
			}
		}
		return bnet.IPv4(v)
	}
	var hi, lo uint64
	for i := 0; i < 128; i++ {
		b := uint64(0)
		if i < l && p.Bits[i] == '1' {
			b = 1
		}
		if i < 64 {
			hi = hi<<1 | b
		} else {
			lo = lo<<1 | b
		}
	}
	return bnet.IPv6(hi, lo)
}

// real returns the deduplicated prefix object (identical patterns share one pointer, as
// RouteFilter.equal compares pattern pointers).
func (p zvC14Pfx) real() *bnet.Prefix {
	return bnet.NewPfx(p.ip(), uint8(len(p.Bits))).Dedup()
}

func (p zvC14Pfx) String() string {
	ip := p.ip()
	return fmt.Sprintf("%s/%d", ip.String(), len(p.Bits))
}

// covers: q is p or a more specific of p (same family, p's bits are a prefix of q's bits)
func (p zvC14Pfx) covers(q zvC14Pfx) bool {
	return p.Fam == q.Fam && strings.HasPrefix(q.Bits, p.Bits)
}

func zvC14Bits(fam int, words ...uint16) string {
	var sb strings.Builder
	n := 16
	if fam == 4 {
		n = 8
	}
	for _, w := range words {
		for i := n - 1; i >= 0; i-- {
			if w>>uint(i)&1 == 1 {
				sb.WriteByte('1')
			} else {
				sb.WriteByte('0')
			}
		}
	}
	return sb.String()
}

var (
	zvC14Base4 = zvC14Bits(4, 10, 1, 1, 1)                                     // 10.1.1.1
	zvC14Base6 = zvC14Bits(6, 0x2001, 0x0db8, 1, 1, 0x8000, 0, 0, 1)           // 2001:db8:1:1:8000::1
	zvC14Oth4  = zvC14Bits(4, 172, 16, 0, 0)                                   // 172.16.0.0
	zvC14Oth6  = zvC14Bits(6, 0x2a00, 0x1450, 0x4001, 0x0800, 0, 0, 0, 0x200e) // 2a00:1450:4001:800::200e
)

func zvC14P4(l int) zvC14Pfx { return zvC14Pfx{4, zvC14Base4[:l]} }
func zvC14P6(l int) zvC14Pfx { return zvC14Pfx{6, zvC14Base6[:l]} }

func zvC14Flip(p zvC14Pfx) zvC14Pfx {
	l := len(p.Bits)
	b := byte('0')
	if p.Bits[l-1] == '0' {
		b = '1'
	}
	return zvC14Pfx{p.Fam, p.Bits[:l-1] + string(b)}
}

type zvC14M struct {
	K   string `json:"k"` // exact | orlonger | longer | range
	Min uint8  `json:"min,omitempty"`
	Max uint8  `json:"max,omitempty"`
}

func (m zvC14M) real() PrefixMatcher {
	switch m.K {
	case "exact":
		return NewExactMatcher()
	case "orlonger":
		return NewOrLongerMatcher()
	case "longer":
		return NewLongerMatcher()
	case "range":
		return NewInRangeMatcher(m.Min, m.Max)
	}
	panic("zvC14M: unknown matcher " + m.K)
}

// match — documented matcher semantics (policy.md "RouteFilter.matcher"):
// exact: only the exact prefix; orlonger: the prefix itself or a more specific;
// longer: a more specific with a longer length; range: the prefix itself or a more specific
// whose length lies in [len_min, len_max] ("minimum / maximum length of the range").
func (m zvC14M) match(pat, q zvC14Pfx) bool {
	switch m.K {
	case "exact":
		return pat.Fam == q.Fam && pat.Bits == q.Bits
	case "orlonger":
		return pat.covers(q)
	case "longer":
		return pat.covers(q) && len(q.Bits) > len(pat.Bits)
	case "range":
		return pat.covers(q) && len(q.Bits) >= int(m.Min) && len(q.Bits) <= int(m.Max)
	}
	panic("zvC14M: unknown matcher " + m.K)
}

type zvC14RF struct {
	Pat zvC14Pfx `json:"pattern"`
	M   zvC14M   `json:"matcher"`
}

type zvC14PL struct {
	Pats []zvC14Pfx `json:"prefixes"`
	M    *zvC14M    `json:"matcher,omitempty"` // nil: NewPrefixList (plain list membership)
}

type zvC14Cond struct {
	RFs    []zvC14RF   `json:"route_filters,omitempty"`
	PLs    []zvC14PL   `json:"prefix_lists,omitempty"`
	Coms   []uint32    `json:"communities,omitempty"`
	LComs  [][3]uint32 `json:"large_communities,omitempty"`
	Protos []uint8     `json:"protocols,omitempty"`
}

type zvC14Act struct {
	K  string `json:"k"` // accept | reject | local_pref | med | prepend | next_hop
	V  uint32 `json:"v,omitempty"`
	N  uint16 `json:"n,omitempty"`
	IP int    `json:"ip,omitempty"` // index into zvC14NHs
}

type zvC14Term struct {
	Name string      `json:"name"`
	From []zvC14Cond `json:"from,omitempty"`
	Then []zvC14Act  `json:"then,omitempty"`
}

var zvC14NHs = []bnet.IP{bnet.IPv4FromOctets(198, 51, 100, 1), bnet.IPv6(0x20010db8ffff0000, 1)}

type zvC14IPv struct {
	Nil bool
	V4  bool
	Hi  uint64
	Lo  uint64
}

func zvC14IPOf(ip *bnet.IP) zvC14IPv {
	if ip == nil {
		return zvC14IPv{Nil: true}
	}
	return zvC14IPv{V4: ip.IsIPv4(), Hi: ip.Higher(), Lo: ip.Lower()}
}

// ---- spec -> real objects ------------------------------------------------------

func (c zvC14Cond) real() *TermCondition {
	var pls []*PrefixList
	for _, pl := range c.PLs {
		var ps []*bnet.Prefix
		for _, p := range pl.Pats {
			ps = append(ps, p.real())
		}
		if pl.M == nil {
			pls = append(pls, NewPrefixList(ps...))
		} else {
			pls = append(pls, NewPrefixListWithMatcher(pl.M.real(), ps...))
		}
	}
	var rfs []*RouteFilter
	for _, rf := range c.RFs {
		rfs = append(rfs, NewRouteFilter(rf.Pat.real(), rf.M.real()))
	}
	tc := NewTermCondition(pls, rfs)
	for _, x := range c.Coms {
		tc.communityFilters = append(tc.communityFilters, &CommunityFilter{community: x})
	}
	for _, x := range c.LComs {
		tc.largeCommunityFilters = append(tc.largeCommunityFilters, &LargeCommunityFilter{community: types.LargeCommunity{GlobalAdministrator: x[0], DataPart1: x[1], DataPart2: x[2]}})
	}
	tc.protocols = append(tc.protocols, c.Protos...)
	return tc
}

func (a zvC14Act) real() actions.Action {
	switch a.K {
	case "accept":
		return actions.NewAcceptAction()
	case "reject":
		return actions.NewRejectAction()
	case "local_pref":
		return actions.NewSetLocalPrefAction(a.V)
	case "med":
		return actions.NewSetMEDAction(a.V)
	case "prepend":
		return actions.NewASPathPrependAction(a.V, a.N)
	case "next_hop":
		return actions.NewSetNextHopAction(zvC14NHs[a.IP].Ptr())
	}
	panic("zvC14Act: unknown action " + a.K)
}

func (t *zvC14Term) real() *Term {
	from := []*TermCondition{}
	for _, c := range t.From {
		from = append(from, c.real())
	}
	then := []actions.Action{}
	for _, a := range t.Then {
		then = append(then, a.real())
	}
	return NewTerm(t.Name, from, then)
}

func zvC14BuildChain(spec [][]*zvC14Term) Chain {
	var c Chain
	for i, f := range spec {
		var ts []*Term
		for _, t := range f {
			ts = append(ts, t.real())
		}
		c = append(c, NewFilter(fmt.Sprintf("f%d", i), ts))
	}
	return c
}

// ---- paths ---------------------------------------------------------------------

var zvC14PathNames = []string{"bgp_nocomm", "bgp_comm", "static", "bgp_emptylists_v6nh", "bgp_othercomm", "bgp_aspath_spare_capacity"}

func zvC14Path(i int) *route.Path {
	switch i {
	case 0: // BGP path without community attributes
		asp := types.ASPath{{Type: types.ASSequence, ASNs: []uint32{65001, 65002}}}
		return &route.Path{Type: route.BGPPathType, BGPPath: &route.BGPPath{
			BGPPathA: &route.BGPPathA{NextHop: bnet.IPv4FromOctets(192, 0, 2, 1).Ptr(), Source: bnet.IPv4FromOctets(192, 0, 2, 1).Ptr(), LocalPref: 100, EBGP: true},
			ASPath:   &asp, ASPathLen: 2}}
	case 1: // BGP path with communities, AS path starting with a set
		asp := types.ASPath{{Type: types.ASSet, ASNs: []uint32{1, 2}}, {Type: types.ASSequence, ASNs: []uint32{3}}}
		return &route.Path{Type: route.BGPPathType, BGPPath: &route.BGPPath{
			BGPPathA: &route.BGPPathA{NextHop: bnet.IPv4FromOctets(192, 0, 2, 2).Ptr(), Source: bnet.IPv4FromOctets(192, 0, 2, 2).Ptr(), LocalPref: 150, MED: 10, Origin: 1},
			ASPath:   &asp, ASPathLen: 2,
			Communities:      &types.Communities{65000<<16 | 1, 65000<<16 | 2},
			LargeCommunities: &types.LargeCommunities{{GlobalAdministrator: 65000, DataPart1: 1, DataPart2: 1}},
			ClusterList:      &types.ClusterList{7},
			PathIdentifier:   5}}
	case 5: // like 0, but the ASN slice has room to grow in place (as after an earlier prepend): a copy of the path shares that array
		asp := types.ASPath{{Type: types.ASSequence, ASNs: append(make([]uint32, 0, 8), 65001, 65002, 65003)}}
		return &route.Path{Type: route.BGPPathType, BGPPath: &route.BGPPath{
			BGPPathA: &route.BGPPathA{NextHop: bnet.IPv4FromOctets(192, 0, 2, 1).Ptr(), Source: bnet.IPv4FromOctets(192, 0, 2, 1).Ptr(), LocalPref: 100, EBGP: true},
			ASPath:   &asp, ASPathLen: 3}}
	case 2: // static path
		return &route.Path{Type: route.StaticPathType, StaticPath: &route.StaticPath{NextHop: bnet.IPv4FromOctets(192, 0, 2, 9).Ptr()}}
	case 3: // BGP path with empty (non-nil) lists, empty AS path, IPv6 next hop
		asp := types.ASPath{}
		return &route.Path{Type: route.BGPPathType, BGPPath: &route.BGPPath{
			BGPPathA:         &route.BGPPathA{NextHop: bnet.IPv6(0x20010db800000000, 0xa).Ptr(), Source: bnet.IPv6(0x20010db800000000, 0xa).Ptr()},
			ASPath:           &asp,
			Communities:      &types.Communities{},
			LargeCommunities: &types.LargeCommunities{}}}
	default: // BGP path with other communities only
		asp := types.ASPath{{Type: types.ASSequence, ASNs: []uint32{65010}}}
		return &route.Path{Type: route.BGPPathType, BGPPath: &route.BGPPath{
			BGPPathA: &route.BGPPathA{NextHop: bnet.IPv4FromOctets(192, 0, 2, 3).Ptr(), Source: bnet.IPv4FromOctets(192, 0, 2, 3).Ptr(), LocalPref: 100},
			ASPath:   &asp, ASPathLen: 1,
			Communities:      &types.Communities{65000<<16 | 7},
			LargeCommunities: &types.LargeCommunities{{GlobalAdministrator: 65000, DataPart1: 2, DataPart2: 2}}}}
	}
}

// zvC14PM is the plain model of a path: what the reference rewrites and what is
// compared. AS is the AS path flattened (adjacent sequences merged; a set is a marker
// item followed by its members).
type zvC14PM struct {
	Type      uint8
	BGP       bool
	NextHop   zvC14IPv
	LocalPref uint32
	MED       uint32
	AS        []uint64
	ASLen     int
	Coms      []uint32
	LComs     [][3]uint32
	Rest      zvC14Rest // attributes no action touches (must come through unchanged)
}

type zvC14Rest struct {
	NilPath, NoA, Aggr, EBGP, Atomic, Post bool
	Hidden, Redist, Origin                 uint8
	LTime, ID, OID, OTC, PathID            uint32
	Src                                    zvC14IPv
	NCluster, NUnknown                     int
	Cluster                                [4]uint32
}

const (
	zvC14SetMark   = uint64(1) << 63
	zvC14SetMember = uint64(1) << 62
)

func zvC14Observe(p *route.Path) zvC14PM {
	m := zvC14PM{}
	if p == nil {
		m.Rest.NilPath = true
		return m
	}
	m.Type = p.Type
	m.Rest.Hidden, m.Rest.Redist, m.Rest.LTime = p.HiddenReason, p.RedistributedFrom, p.LTime
	if p.StaticPath != nil {
		m.NextHop = zvC14IPOf(p.StaticPath.NextHop)
	}
	b := p.BGPPath
	if b == nil {
		return m
	}
	m.BGP = true
	if a := b.BGPPathA; a != nil {
		m.NextHop = zvC14IPOf(a.NextHop)
		m.LocalPref = a.LocalPref
		m.MED = a.MED
		m.Rest.Src, m.Rest.ID, m.Rest.OID, m.Rest.EBGP, m.Rest.Atomic = zvC14IPOf(a.Source), a.BGPIdentifier, a.OriginatorID, a.EBGP, a.AtomicAggregate
		m.Rest.Origin, m.Rest.OTC, m.Rest.Aggr = a.Origin, a.OnlyToCustomer, a.Aggregator != nil
	} else {
		m.Rest.NoA = true
	}
	if b.ASPath != nil {
		for _, s := range *b.ASPath {
			if s.Type == types.ASSequence {
				for _, n := range s.ASNs {
					m.AS = append(m.AS, uint64(n))
				}
			} else {
				m.AS = append(m.AS, zvC14SetMark|uint64(len(s.ASNs)))
				for _, n := range s.ASNs {
					m.AS = append(m.AS, zvC14SetMember|uint64(n))
				}
			}
		}
	}
	m.ASLen = int(b.ASPathLen)
	if b.Communities != nil {
		m.Coms = append(m.Coms, *b.Communities...)
	}
	if b.LargeCommunities != nil {
		for _, c := range *b.LargeCommunities {
			m.LComs = append(m.LComs, [3]uint32{c.GlobalAdministrator, c.DataPart1, c.DataPart2})
		}
	}
	if b.ClusterList != nil {
		m.Rest.NCluster = len(*b.ClusterList)
		for i, c := range *b.ClusterList {
			if i < len(m.Rest.Cluster) {
				m.Rest.Cluster[i] = c
			}
		}
	}
	m.Rest.PathID, m.Rest.Post, m.Rest.NUnknown = b.PathIdentifier, b.BMPPostPolicy, len(b.UnknownAttributes)
	return m
}

// zvC14PMDiff names the first field in which two models differ ("" = equal).
func zvC14PMDiff(a, b *zvC14PM) string {
	switch {
	case a.Type != b.Type || a.BGP != b.BGP:
		return "type"
	case a.NextHop != b.NextHop:
		return "next_hop"
	case a.LocalPref != b.LocalPref:
		return "local_pref"
	case a.MED != b.MED:
		return "med"
	case len(a.AS) != len(b.AS):
		return "as_path"
	}
	for i := range a.AS {
		if a.AS[i] != b.AS[i] {
			return "as_path"
		}
	}
	if a.ASLen != b.ASLen {
		return "as_path_len"
	}
	if len(a.Coms) != len(b.Coms) {
		return "communities"
	}
	for i := range a.Coms {
		if a.Coms[i] != b.Coms[i] {
			return "communities"
		}
	}
	if len(a.LComs) != len(b.LComs) {
		return "large_communities"
	}
	for i := range a.LComs {
		if a.LComs[i] != b.LComs[i] {
			return "large_communities"
		}
	}
	if a.Rest != b.Rest {
		return "other_attributes"
	}
	return ""
}

func (m zvC14PM) clone() zvC14PM {
	c := m
	c.AS = append([]uint64(nil), m.AS...)
	return c
}

// ---- reference interpreter -------------------------------------------------------

type zvC14Stats struct {
	anyOfLater, allOfPartial, v6Deep, termNoCond, rewritten bool
}

// plMode: how a prefix list constructed WITH a matcher is read (undocumented, both accepted):
// 0 = plain list membership, 1 = the matcher is applied to every listed prefix.
func zvC14RefCond(c *zvC14Cond, q zvC14Pfx, pm *zvC14PM, plMode int, st *zvC14Stats) bool {
	parts, matched := 0, 0
	if len(c.PLs) > 0 {
		parts++
		ok := false
		for _, pl := range c.PLs {
			for _, p := range pl.Pats {
				if pl.M != nil && plMode == 1 {
					ok = ok || pl.M.match(p, q)
				} else {
					ok = ok || (p.Fam == q.Fam && p.Bits == q.Bits)
				}
			}
		}
		if ok {
			matched++
		}
	}
	if len(c.RFs) > 0 {
		parts++
		ok := false
		for _, rf := range c.RFs {
			if rf.M.match(rf.Pat, q) {
				ok = true
				if q.Fam == 6 && len(rf.Pat.Bits) > 64 {
					st.v6Deep = true
				}
			}
		}
		if ok {
			matched++
		}
	}
	if len(c.Coms) > 0 {
		parts++
		ok := false
		for _, want := range c.Coms {
			for _, have := range pm.Coms {
				ok = ok || (pm.BGP && want == have)
			}
		}
		if ok {
			matched++
		}
	}
	if len(c.LComs) > 0 {
		parts++
		ok := false
		for _, want := range c.LComs {
			for _, have := range pm.LComs {
				ok = ok || (pm.BGP && want == have)
			}
		}
		if ok {
			matched++
		}
	}
	if len(c.Protos) > 0 {
		parts++
		ok := false
		for _, t := range c.Protos {
			ok = ok || t == pm.Type
		}
		if ok {
			matched++
		}
	}
	if matched > 0 && matched < parts {
		st.allOfPartial = true
	}
	return matched == parts
}

// zvC14Ref: filters and terms in order; a term applies when it has no conditions or any
// condition matches; its actions run in order; accept/reject ends everything; otherwise the
// (possibly rewritten) path goes on; the chain accepts when nothing terminated.
func zvC14Ref(chain [][]*zvC14Term, q zvC14Pfx, in zvC14PM, plMode int, st *zvC14Stats) (reject bool, terminated bool, out zvC14PM) {
	pm := in.clone()
	for _, f := range chain {
		for _, t := range f {
			applies := len(t.From) == 0
			if applies {
				st.termNoCond = true
			}
			for ci := range t.From {
				if zvC14RefCond(&t.From[ci], q, &pm, plMode, st) {
					applies = true
					if ci > 0 {
						st.anyOfLater = true
					}
					break
				}
			}
			if !applies {
				continue
			}
			for _, a := range t.Then {
				switch a.K {
				case "accept":
					return false, true, pm
				case "reject":
					return true, true, pm
				case "local_pref":
					if pm.BGP {
						pm.LocalPref = a.V
						st.rewritten = true
					}
				case "med":
					if pm.BGP {
						pm.MED = a.V
						st.rewritten = true
					}
				case "prepend":
					if pm.BGP && a.N > 0 {
						as := make([]uint64, 0, len(pm.AS)+int(a.N))
						for i := 0; i < int(a.N); i++ {
							as = append(as, uint64(a.V))
						}
						pm.AS = append(as, pm.AS...)
						pm.ASLen += int(a.N)
						st.rewritten = true
					}
				case "next_hop":
					if pm.BGP || pm.Type == route.StaticPathType {
						pm.NextHop = zvC14IPOf(&zvC14NHs[a.IP])
						st.rewritten = true
					}
				}
			}
		}
	}
	return false, false, pm
}

// ---- one evaluation ------------------------------------------------------------------

type zvC14Case struct {
	Layer  string         `json:"layer"` // matcher | chain | equal
	Chain  [][]*zvC14Term `json:"chain"`
	ChainB [][]*zvC14Term `json:"chain_b,omitempty"`
	Probe  zvC14Pfx       `json:"probe"`
	Path   int            `json:"path"`
	Human  string         `json:"human,omitempty"`
}

func zvC14Ambiguous(chain [][]*zvC14Term) bool {
	for _, f := range chain {
		for _, t := range f {
			for _, c := range t.From {
				for _, pl := range c.PLs {
					if pl.M != nil && pl.M.K != "exact" {
						return true
					}
				}
			}
		}
	}
	return false
}

func zvC14Human(chain [][]*zvC14Term, q zvC14Pfx, path int) string {
	var sb strings.Builder
	for i, f := range chain {
		if i > 0 {
			sb.WriteString(" | ")
		}
		for j, t := range f {
			if j > 0 {
				sb.WriteString(", ")
			}
			sb.WriteString(t.Name)
		}
	}
	return fmt.Sprintf("chain{%s} probe=%s path=%s", sb.String(), q.String(), zvC14PathNames[path])
}

type zvC14Input struct {
	q     zvC14Pfx
	qReal *bnet.Prefix
	pi    int
	path  *route.Path
	pm    zvC14PM // observation of path when it was built
}

// zvC14Family: "4"/"6" when every prefix in the chain's conditions has the probe's family,
// "cross" when the chain holds a route filter / prefix list of the other family.
func zvC14Family(chain [][]*zvC14Term, q zvC14Pfx) string {
	for _, f := range chain {
		for _, t := range f {
			for _, c := range t.From {
				for _, rf := range c.RFs {
					if rf.Pat.Fam != q.Fam {
						return "cross"
					}
				}
				for _, pl := range c.PLs {
					for _, p := range pl.Pats {
						if p.Fam != q.Fam {
							return "cross"
						}
					}
				}
			}
		}
	}
	return fmt.Sprint(q.Fam)
}

// zvC14Eval runs the real chain on one input and compares with the reference.
// extraSig adds layer-specific signature features (matcher kind).
func zvC14Eval(r *vh.Run, layer string, spec [][]*zvC14Term, ambiguous bool, real Chain, in *zvC14Input, extraSig ...string) {
	zvC14Evals++
	mk := func() zvC14Case {
		return zvC14Case{Layer: layer, Chain: spec, Probe: in.q, Path: in.pi, Human: zvC14Human(spec, in.q, in.pi)}
	}
	sig := func(kv ...string) map[string]string {
		s := vh.Sig(append([]string{"layer", layer}, kv...)...)
		for i := 0; i+1 < len(extraSig); i += 2 {
			s[extraSig[i]] = extraSig[i+1]
		}
		return s
	}
	var got *route.Path
	var gotReject bool
	if p, what := vh.Try(func() { got, gotReject = real.Process(in.qReal, in.path) }); p {
		r.Violation(sig("clause", "panic", "path", zvC14PathNames[in.pi]), mk(), "Chain.Process panicked: %s", what)
		in.path = zvC14Path(in.pi)
		return
	}
	// the input path must be untouched
	after := zvC14Observe(in.path)
	if d := zvC14PMDiff(&in.pm, &after); d != "" {
		r.Violation(sig("clause", "input_modified", "field", d), mk(), "Chain.Process changed its input path (%s): before %+v after %+v", d, in.pm, after)
		in.path = zvC14Path(in.pi)
	}
	var st zvC14Stats
	wantReject, term, want := zvC14Ref(spec, in.q, in.pm, 0, &st)
	gm := zvC14Observe(got)
	diff := func(wr bool, w *zvC14PM) string {
		if wr != gotReject {
			return "decision"
		}
		if wr {
			return "" // a rejected path is not compared
		}
		return zvC14PMDiff(w, &gm)
	}
	d := diff(wantReject, &want)
	if ambiguous {
		var st1 zvC14Stats
		wr1, _, w1 := zvC14Ref(spec, in.q, in.pm, 1, &st1)
		d1 := diff(wr1, &w1)
		if wr1 != wantReject || zvC14PMDiff(&want, &w1) != "" {
			zvC14Count("prefixlist_matcher_readings_differ", 1)
			if d == "" {
				zvC14Count("prefixlist_matcher_ignored_by_impl", 1)
			} else if d1 == "" {
				zvC14Count("prefixlist_matcher_applied_by_impl", 1)
			}
		}
		if d1 == "" {
			d = ""
		}
	}
	if d == "decision" {
		w := "accept"
		if wantReject {
			w = "reject"
		}
		r.Violation(sig("clause", "decision", "want", w, "family", zvC14Family(spec, in.q)), mk(),
			"%s: Process says reject=%v, the documented semantics say reject=%v", zvC14Human(spec, in.q, in.pi), gotReject, wantReject)
	} else if d != "" {
		r.Violation(sig("clause", "rewritten_path", "field", d, "family", zvC14Family(spec, in.q)), mk(),
			"%s: accepted path differs in %s: got %+v want %+v", zvC14Human(spec, in.q, in.pi), d, gm, want)
	}
	// coverage
	ok := [5]uint32{0, want.LocalPref, want.MED, uint32(len(want.AS)), uint32(want.NextHop.Lo)}
	if wantReject {
		ok = [5]uint32{1}
	} else if term {
		ok[0] = 2
	}
	zvC14Outcomes[ok] = struct{}{}
	switch {
	case wantReject:
		zvC14Count("ref_reject", 1)
	case term:
		zvC14Count("ref_accept_terminated", 1)
	default:
		zvC14Count("ref_default_accept", 1)
	}
	if st.rewritten && !wantReject {
		zvC14Count("ref_accept_rewritten", 1)
	}
	if st.anyOfLater {
		zvC14Count("any_of_later_condition_matched", 1)
	}
	if st.allOfPartial {
		zvC14Count("all_of_some_part_failed", 1)
	}
	if st.v6Deep {
		zvC14Count("v6_pattern_longer_than_64_matched", 1)
	}
	if in.q.Fam == 6 {
		zvC14Count("probe_v6", 1)
	} else {
		zvC14Count("probe_v4", 1)
	}
}

// counters are kept locally (no lock per evaluation) and flushed once
var zvC14Cnt = map[string]int{}
var zvC14Evals int
var zvC14Outcomes = map[[5]uint32]struct{}{} // (decision, local pref, MED, AS path items, next hop) of the reference

func zvC14Count(k string, n int) { zvC14Cnt[k] += n }

func zvC14Flush(r *vh.Run) {
	for k, n := range zvC14Cnt {
		r.Count(k, n)
	}
	zvC14Cnt = map[string]int{}
	r.Eval(zvC14Evals)
	zvC14Evals = 0
	for k := range zvC14Outcomes {
		r.Outcome(fmt.Sprint(k))
	}
}

var zvC14Required = []string{"ref_reject", "ref_accept_terminated", "ref_default_accept", "ref_accept_rewritten", "any_of_later_condition_matched",
	"all_of_some_part_failed", "v6_pattern_longer_than_64_matched", "probe_v4", "probe_v6", "equal_true_pairs", "equal_false_pairs", "equal_inputs_compared"}

// ---- equal layer -------------------------------------------------------------------------

// zvC14TermDiff names the first component in which two term specs differ ("" = same spec).
func zvC14TermDiff(a, b *zvC14Term) string {
	if len(a.From) != len(b.From) {
		return "condition_count"
	}
	if len(a.Then) != len(b.Then) {
		return "action_count"
	}
	for i := range a.From {
		x, y := &a.From[i], &b.From[i]
		switch {
		case fmt.Sprint(x.RFs) != fmt.Sprint(y.RFs):
			return "route_filters"
		case zvC14PLStr(x.PLs) != zvC14PLStr(y.PLs):
			return "prefix_lists"
		case fmt.Sprint(x.Coms) != fmt.Sprint(y.Coms):
			return "community_filters"
		case fmt.Sprint(x.LComs) != fmt.Sprint(y.LComs):
			return "large_community_filters"
		case fmt.Sprint(x.Protos) != fmt.Sprint(y.Protos):
			return "protocols"
		}
	}
	for i := range a.Then {
		if a.Then[i].K != b.Then[i].K {
			return "action_kind"
		}
		if a.Then[i] != b.Then[i] {
			return "action_value_" + a.Then[i].K
		}
	}
	return ""
}

func zvC14PLStr(pls []zvC14PL) string {
	s := ""
	for _, pl := range pls {
		s += fmt.Sprint(pl.Pats)
		if pl.M != nil {
			s += fmt.Sprint(*pl.M)
		}
		s += ";"
	}
	return s
}

func zvC14ChainDiff(a, b [][]*zvC14Term) string {
	if len(a) != len(b) {
		return "filter_count"
	}
	for i := range a {
		if len(a[i]) != len(b[i]) {
			return "term_count"
		}
		for j := range a[i] {
			if d := zvC14TermDiff(a[i][j], b[i][j]); d != "" {
				return d
			}
		}
	}
	return ""
}

// zvC14EqualPair: chains c (spec a) and d (spec b) are separate object graphs. If either
// direction of Equal says true, every input must give the same outcome on both.
func zvC14EqualPair(r *vh.Run, a, b [][]*zvC14Term, c, d Chain, inputs []*zvC14Input) {
	zvC14Evals++
	var eq1, eq2 bool
	if p, what := vh.Try(func() { eq1 = c.Equal(d); eq2 = d.Equal(c) }); p {
		r.Violation(vh.Sig("layer", "equal", "clause", "panic"), zvC14Case{Layer: "equal", Chain: a, ChainB: b, Probe: inputs[0].q}, "Chain.Equal panicked: %s", what)
		return
	}
	if !eq1 && !eq2 {
		zvC14Count("equal_false_pairs", 1)
		return
	}
	zvC14Count("equal_true_pairs", 1)
	differ := zvC14ChainDiff(a, b)
	if differ != "" {
		zvC14Count("equal_true_pairs_with_different_spec", 1)
	}
	for _, in := range inputs {
		zvC14Count("equal_inputs_compared", 1)
		var p1, p2 *route.Path
		var r1, r2 bool
		if p, _ := vh.Try(func() {
			p1, r1 = c.Process(in.qReal, in.path)
			p2, r2 = d.Process(in.qReal, in.path)
		}); p {
			continue // panics are reported by the chain layer
		}
		bad := ""
		if r1 != r2 {
			bad = "decision"
		} else if !r1 {
			m1, m2 := zvC14Observe(p1), zvC14Observe(p2)
			bad = zvC14PMDiff(&m1, &m2)
		}
		if bad != "" {
			r.Violation(vh.Sig("layer", "equal", "clause", "equal_but_different_outcome", "chains_differ_in", differ),
				zvC14Case{Layer: "equal", Chain: a, ChainB: b, Probe: in.q, Path: in.pi, Human: zvC14Human(a, in.q, in.pi) + " vs " + zvC14Human(b, in.q, in.pi)},
				"Equal says the chains are equal (c.Equal(d)=%v d.Equal(c)=%v) but they differ in %s and give different outcomes (%s): %s -> reject=%v, %s -> reject=%v",
				eq1, eq2, differ, bad, zvC14Human(a, in.q, in.pi), r1, zvC14Human(b, in.q, in.pi), r2)
			return
		}
	}
}

// ---- catalogue -------------------------------------------------------------------------------

func zvC14Catalogue() (full []*zvC14Term, core, wide []int) {
	ex, orl, lng := zvC14M{K: "exact"}, zvC14M{K: "orlonger"}, zvC14M{K: "longer"}
	rng := func(a, b uint8) zvC14M { return zvC14M{K: "range", Min: a, Max: b} }
	rf := func(p zvC14Pfx, m zvC14M) zvC14Cond { return zvC14Cond{RFs: []zvC14RF{{p, m}}} }
	const bgp, static = route.BGPPathType, route.StaticPathType
	com := func(n uint32) uint32 { return 65000<<16 | n }

	type nc struct {
		n string
		c zvC14Cond
	}
	conds := []nc{
		{"rf4/8orl", rf(zvC14P4(8), orl)},                                                        // 0
		{"rf4/24ex", rf(zvC14P4(24), ex)},                                                        // 1
		{"rf4/8lng", rf(zvC14P4(8), lng)},                                                        // 2
		{"rf4/8r16-24", rf(zvC14P4(8), rng(16, 24))},                                             // 3
		{"rf4/0orl", rf(zvC14P4(0), orl)},                                                        // 4
		{"rf6/32orl", rf(zvC14P6(32), orl)},                                                      // 5
		{"rf6/48ex", rf(zvC14P6(48), ex)},                                                        // 6
		{"rf6/32lng", rf(zvC14P6(32), lng)},                                                      // 7
		{"rf6/32r48-64", rf(zvC14P6(32), rng(48, 64))},                                           // 8
		{"rf6/64r65-128", rf(zvC14P6(64), rng(65, 128))},                                         // 9
		{"rf6/96orl", rf(zvC14P6(96), orl)},                                                      // 10
		{"rf6/0lng", rf(zvC14P6(0), lng)},                                                        // 11
		{"rf{4/24ex,6/48ex}", zvC14Cond{RFs: []zvC14RF{{zvC14P4(24), ex}, {zvC14P6(48), ex}}}},   // 12
		{"pl{4/8,4/24}", zvC14Cond{PLs: []zvC14PL{{Pats: []zvC14Pfx{zvC14P4(8), zvC14P4(24)}}}}}, // 13
		{"pl{6/48}", zvC14Cond{PLs: []zvC14PL{{Pats: []zvC14Pfx{zvC14P6(48)}}}}},                 // 14
		{"pl{4/32}+pl{6/128}", zvC14Cond{PLs: []zvC14PL{{Pats: []zvC14Pfx{zvC14P4(32)}}, {Pats: []zvC14Pfx{zvC14P6(128)}}}}}, // 15
		{"com1", zvC14Cond{Coms: []uint32{com(1)}}},                                               // 16
		{"com{9,2}", zvC14Cond{Coms: []uint32{com(9), com(2)}}},                                   // 17
		{"com7", zvC14Cond{Coms: []uint32{com(7)}}},                                               // 18
		{"lcom(1,1)", zvC14Cond{LComs: [][3]uint32{{65000, 1, 1}}}},                               // 19
		{"lcom(2,2)", zvC14Cond{LComs: [][3]uint32{{65000, 2, 2}}}},                               // 20
		{"bgp", zvC14Cond{Protos: []uint8{bgp}}},                                                  // 21
		{"static", zvC14Cond{Protos: []uint8{static}}},                                            // 22
		{"bgp|static", zvC14Cond{Protos: []uint8{static, bgp}}},                                   // 23
		{"rf4/8orl&bgp", zvC14Cond{RFs: []zvC14RF{{zvC14P4(8), orl}}, Protos: []uint8{bgp}}},      // 24
		{"rf6/32orl&com1", zvC14Cond{RFs: []zvC14RF{{zvC14P6(32), orl}}, Coms: []uint32{com(1)}}}, // 25
		{"pl{4/24}&rf4/8orl&lcom(1,1)", zvC14Cond{PLs: []zvC14PL{{Pats: []zvC14Pfx{zvC14P4(24)}}}, RFs: []zvC14RF{{zvC14P4(8), orl}}, LComs: [][3]uint32{{65000, 1, 1}}}}, // 26
		{"any", zvC14Cond{}}, // 27
		{"pl-orl{4/8}", zvC14Cond{PLs: []zvC14PL{{Pats: []zvC14Pfx{zvC14P4(8)}, M: &orl}}}},                 // 28 (undocumented reading, both accepted)
		{"pl-ex{4/8,4/24}", zvC14Cond{PLs: []zvC14PL{{Pats: []zvC14Pfx{zvC14P4(8), zvC14P4(24)}, M: &ex}}}}, // 29
		{"rf4/8r8-8", rf(zvC14P4(8), rng(8, 8))},                                                            // 30
		{"static&com1", zvC14Cond{Protos: []uint8{static}, Coms: []uint32{com(1)}}},                         // 31
		{"rf4/8r16-32", rf(zvC14P4(8), rng(16, 32))},                                                        // 32 (differs from 3 only in max)
		{"rf4/8r8-24", rf(zvC14P4(8), rng(8, 24))},                                                          // 33 (differs from 3 only in min)
		{"pl{4/8}", zvC14Cond{PLs: []zvC14PL{{Pats: []zvC14Pfx{zvC14P4(8)}}}}},                              // 34 (differs from 28 only in the list's matcher)
	}
	accept, reject := zvC14Act{K: "accept"}, zvC14Act{K: "reject"}
	lp := func(v uint32) zvC14Act { return zvC14Act{K: "local_pref", V: v} }
	med := func(v uint32) zvC14Act { return zvC14Act{K: "med", V: v} }
	pre := func(asn uint32, n uint16) zvC14Act { return zvC14Act{K: "prepend", V: asn, N: n} }
	nh := func(i int) zvC14Act { return zvC14Act{K: "next_hop", IP: i} }
	// level 2: core (3-term sequences in the quick tier), 1: wide (3-term sequences in the
	// thorough tier), 0: only in the 1- and 2-term sequences and in the equal layer
	add := func(level int, name string, from []zvC14Cond, then ...zvC14Act) {
		if level >= 2 {
			core = append(core, len(full))
		}
		if level >= 1 {
			wide = append(wide, len(full))
		}
		full = append(full, &zvC14Term{Name: name, From: from, Then: then})
	}
	coreReject := map[int]bool{0: true, 5: true, 9: true, 13: true, 16: true, 21: true, 24: true, 27: true}
	wideReject := map[int]bool{1: true, 4: true, 6: true, 10: true, 12: true, 19: true, 22: true, 25: true, 26: true}
	coreAccept := map[int]bool{0: true, 16: true, 22: true}
	for i, c := range conds {
		level := 0
		if coreReject[i] {
			level = 2
		} else if wideReject[i] {
			level = 1
		}
		add(level, c.n+"->reject", []zvC14Cond{c.c}, reject)
		level = 0
		if coreAccept[i] {
			level = 2
		}
		add(level, c.n+"->accept", []zvC14Cond{c.c}, accept)
	}
	// unconditional terms with every action (list)
	add(2, "accept", nil, accept)
	add(2, "reject", nil, reject)
	add(2, "lp200", nil, lp(200))
	add(0, "lp300", nil, lp(300))
	add(2, "lp200,accept", nil, lp(200), accept)
	add(1, "med50", nil, med(50))
	add(0, "med51", nil, med(51))
	add(2, "prepend65100x2", nil, pre(65100, 2))
	add(0, "prepend65100x3", nil, pre(65100, 3))
	add(0, "prepend65101x2", nil, pre(65101, 2))
	add(1, "prepend65100x0", nil, pre(65100, 0))
	add(2, "nh4", nil, nh(0))
	add(1, "nh6,accept", nil, nh(1), accept)
	add(0, "nh6", nil, nh(1))
	add(2, "lp300,med7,prepend65101x1,reject", nil, lp(300), med(7), pre(65101, 1), reject)
	add(1, "noop", nil)
	add(1, "accept,lp999", nil, accept, lp(999))
	add(1, "reject,accept", nil, reject, accept)
	add(0, "med50,lp200", nil, med(50), lp(200))
	add(1, "lp200,med50", nil, lp(200), med(50))
	// conditional rewrites and several conditions per term (any-of)
	add(2, "bgp->lp200", []zvC14Cond{conds[21].c}, lp(200))
	add(0, "static->lp200", []zvC14Cond{conds[22].c}, lp(200))
	add(1, "rf4/8orl->med50", []zvC14Cond{conds[0].c}, med(50))
	add(2, "rf6/32orl->prepend65100x2", []zvC14Cond{conds[5].c}, pre(65100, 2))
	add(0, "com1->nh4", []zvC14Cond{conds[16].c}, nh(0))
	add(1, "lcom(1,1)->lp300,accept", []zvC14Cond{conds[19].c}, lp(300), accept)
	add(2, "[rf4/24ex|rf6/48ex]->reject", []zvC14Cond{conds[1].c, conds[6].c}, reject)
	add(2, "[com1|static]->lp200", []zvC14Cond{conds[16].c, conds[22].c}, lp(200))
	add(1, "[rf4/8orl&bgp|rf6/32orl&com1]->accept", []zvC14Cond{conds[24].c, conds[25].c}, accept)
	add(1, "[rf6/32orl&com1|rf4/8orl&bgp]->accept", []zvC14Cond{conds[25].c, conds[24].c}, accept)
	add(1, "[static&com1|any]->med50", []zvC14Cond{conds[31].c, conds[27].c}, med(50))
	add(0, "[rf4/8orl|rf4/8orl]->reject", []zvC14Cond{conds[0].c, conds[0].c}, reject)
	return full, core, wide
}

func zvC14ChainProbes() []zvC14Pfx {
	seen := map[string]bool{}
	var out []zvC14Pfx
	add := func(p zvC14Pfx) {
		k := fmt.Sprint(p.Fam, p.Bits)
		if !seen[k] {
			seen[k] = true
			out = append(out, p)
		}
	}
	for _, fam := range []int{4, 6} {
		base, oth, lens := zvC14Base4, zvC14Oth4, []int{0, 8, 24, 32}
		if fam == 6 {
			base, oth, lens = zvC14Base6, zvC14Oth6, []int{0, 32, 48, 64, 96, 128}
		}
		for _, l := range lens {
			p := zvC14Pfx{fam, base[:l]}
			add(p) // the pattern itself
			if l > 0 {
				add(zvC14Pfx{fam, base[:l-1]}) // parent
				add(zvC14Flip(p))              // sibling
			}
			if l < len(base) {
				add(zvC14Pfx{fam, base[:l+1]})            // child on the base
				add(zvC14Flip(zvC14Pfx{fam, base[:l+1]})) // child off the base
			}
			add(zvC14Pfx{fam, oth[:l]}) // unrelated, same length
		}
		add(zvC14Pfx{fam, base[:16]})
		add(zvC14Pfx{fam, base})
	}
	add(zvC14P6(65))
	add(zvC14P6(80))
	return out
}

func zvC14DenseProbes() []zvC14Pfx {
	var out []zvC14Pfx
	for _, fam := range []int{4, 6} {
		base := zvC14Base4
		if fam == 6 {
			base = zvC14Base6
		}
		for l := 0; l <= len(base); l++ {
			p := zvC14Pfx{fam, base[:l]}
			out = append(out, p)
			if l > 0 {
				out = append(out, zvC14Flip(p))
			}
		}
		// the base with exactly one bit changed ANYWHERE, at full length and (IPv6) at two lengths beyond the 64-bit word
		// boundary: more specific in length than every shorter pattern, but outside it when the changed bit lies within the pattern
		lens := []int{len(base)}
		if fam == 6 {
			lens = []int{72, 96, 128}
		}
		for i := 0; i < len(base); i++ {
			b := "1"
			if base[i] == '1' {
				b = "0"
			}
			for _, l := range lens {
				if l > i+1 {
					out = append(out, zvC14Pfx{fam, base[:i] + b + base[i+1:l]})
				}
			}
		}
	}
	return out
}

func zvC14Inputs(probes []zvC14Pfx, paths []int) []*zvC14Input {
	var out []*zvC14Input
	for _, q := range probes {
		qr := q.real()
		for _, pi := range paths {
			p := zvC14Path(pi)
			out = append(out, &zvC14Input{q: q, qReal: qr, pi: pi, path: p, pm: zvC14Observe(p)})
		}
	}
	return out
}

func zvC14Matchers(l, w int) []zvC14M {
	c := func(x int) uint8 {
		if x < 0 {
			return 0
		}
		if x > w {
			return uint8(w)
		}
		return uint8(x)
	}
	ms := []zvC14M{{K: "exact"}, {K: "orlonger"}, {K: "longer"}}
	for _, mm := range [][2]int{{0, 0}, {0, w}, {l, l}, {l, l + 8}, {l + 1, w}, {l + 1, l + 1}, {l - 8, l + 1}, {l + 8, l + 16}, {w, w}, {l + 8, l + 1}, {l - 4, l - 1}, {63, 65}, {64, 64}, {33, 64}} {
		ms = append(ms, zvC14M{K: "range", Min: c(mm[0]), Max: c(mm[1])})
	}
	return ms
}

// ---- driver -------------------------------------------------------------------------------------

func zvC14Splits(n int) [][]int {
	switch n {
	case 1:
		return [][]int{{1}}
	case 2:
		return [][]int{{2}, {1, 1}}
	default:
		return [][]int{{3}, {2, 1}, {1, 2}, {1, 1, 1}}
	}
}

func TestVerifC14(t *testing.T) {
	r := vh.Start(t, "C14")
	defer r.Finish()
	r.Rule("matcher layer: every pattern (2 base addresses truncated at every length 0..32 / 0..128) x 17 matchers (exact, orlonger, longer, 14 ranges) as route filter, and as plain prefix list, " +
		"x dense probes (every length + every sibling + the base with any single bit changed at full length and beyond the 64-bit boundary, both families incl. the other family); chain layer: every sequence of 1..3 terms of the catalogue (quick: 3-term sequences over the core catalogue; thorough: over the wide one) " +
		"x every split into 1..3 filters x chain probes (each pattern, parent, sibling, children, unrelated, host; IPv4+IPv6) x 5 paths; equal layer: every ordered pair of 1-term chains and of selected 2-term chains over the full catalogue, " +
		"built from separate objects, x all chain-layer inputs when Equal says true; evaluations = (chain,input) evaluations + pairs compared")
	r.Require(zvC14Required...)
	full, core, wide := zvC14Catalogue()
	if r.IsReplay() {
		var c zvC14Case
		r.ReplayCase(&c)
		in := zvC14Inputs([]zvC14Pfx{c.Probe}, []int{c.Path})
		switch c.Layer {
		case "equal":
			zvC14EqualPair(r, c.Chain, c.ChainB, zvC14BuildChain(c.Chain), zvC14BuildChain(c.ChainB), in)
		default:
			var extra []string
			if c.Layer == "matcher" {
				extra = zvC14MatcherSig(c.Chain)
			}
			zvC14Eval(r, c.Layer, c.Chain, zvC14Ambiguous(c.Chain), zvC14BuildChain(c.Chain), in[0], extra...)
		}
		zvC14Flush(r)
		for _, k := range zvC14Required {
			r.Count(k, 1)
		}
		return
	}
	defer zvC14Flush(r)
	r.Extra("catalogue_terms", len(full))
	r.Extra("core_terms", len(core))
	r.Extra("wide_terms", len(wide))
	idx := 0
	capped := false
	budget := func() bool {
		if !capped && r.OutOfBudget() {
			capped = true
			r.Cap("time budget: enumeration stopped early")
		}
		return capped
	}

	// ---- matcher layer
	dense := zvC14Inputs(zvC14DenseProbes(), []int{0})
	for _, fam := range []int{4, 6} {
		base := zvC14Base4
		if fam == 6 {
			base = zvC14Base6
		}
		for l := 0; l <= len(base); l++ {
			idx++
			if !r.Mine(idx) || budget() {
				continue
			}
			pat := zvC14Pfx{fam, base[:l]}
			for _, m := range zvC14Matchers(l, len(base)) {
				spec := [][]*zvC14Term{{{Name: fmt.Sprintf("rf %s %v->reject", pat.String(), m), From: []zvC14Cond{{RFs: []zvC14RF{{pat, m}}}}, Then: []zvC14Act{{K: "reject"}}}}}
				real := zvC14BuildChain(spec)
				extra := zvC14MatcherSig(spec)
				for _, in := range dense {
					zvC14Eval(r, "matcher", spec, false, real, in, extra...)
				}
				r.Nontrivial(1)
			}
			spec := [][]*zvC14Term{{{Name: fmt.Sprintf("pl %s->reject", pat.String()), From: []zvC14Cond{{PLs: []zvC14PL{{Pats: []zvC14Pfx{zvC14Flip(zvC14Pfx{fam, base[:1]}), pat}}}}}, Then: []zvC14Act{{K: "reject"}}}}}
			real := zvC14BuildChain(spec)
			for _, in := range dense {
				zvC14Eval(r, "matcher", spec, false, real, in, "matcher", "prefix_list")
			}
			r.Nontrivial(1)
		}
	}

	// ---- chain layer
	realTerms := make([]*Term, len(full))
	amb := make([]bool, len(full))
	for i, t := range full {
		realTerms[i] = t.real()
		amb[i] = zvC14Ambiguous([][]*zvC14Term{{t}})
	}
	inputs := zvC14Inputs(zvC14ChainProbes(), []int{0, 1, 2, 3, 4, 5})
	r.Extra("chain_inputs", len(inputs))
	all := make([]int, len(full))
	for i := range all {
		all[i] = i
	}
	runSeq := func(seq []int) {
		for _, split := range zvC14Splits(len(seq)) {
			var spec [][]*zvC14Term
			var real Chain
			ambiguous := false
			k := 0
			for fi, n := range split {
				var fs []*zvC14Term
				var ts []*Term
				for j := 0; j < n; j++ {
					fs = append(fs, full[seq[k]])
					ts = append(ts, realTerms[seq[k]])
					ambiguous = ambiguous || amb[seq[k]]
					k++
				}
				spec = append(spec, fs)
				real = append(real, NewFilter(fmt.Sprintf("f%d", fi), ts))
			}
			for _, in := range inputs {
				zvC14Eval(r, "chain", spec, ambiguous, real, in)
			}
			r.Nontrivial(1)
		}
	}
	third := core
	if r.Thorough() {
		third = wide
	}
	chains := 0
	for _, a := range all {
		idx++
		if !r.Mine(idx) || budget() {
			continue
		}
		runSeq([]int{a})
		chains++
		for _, b := range all {
			runSeq([]int{a, b})
			chains += 2
		}
	}
	for _, a := range third {
		for _, b := range third {
			idx++
			if !r.Mine(idx) || budget() {
				continue
			}
			for _, c := range third {
				runSeq([]int{a, b, c})
				chains += 4
			}
		}
	}
	r.Extra("chains_this_shard", chains)
	if s, _ := r.Shard(); s == 0 {
		r.Sample(zvC14Case{Layer: "chain", Chain: [][]*zvC14Term{{full[core[0]], full[core[5]]}, {full[core[9]]}}, Probe: inputs[7].q, Path: 1})
	}

	// ---- equal layer: ordered pairs of chains of three shapes: [x], [x] | [t0], [t2, x]
	shapes := []func(i int) [][]*zvC14Term{
		func(i int) [][]*zvC14Term { return [][]*zvC14Term{{full[i]}} },
		func(i int) [][]*zvC14Term { return [][]*zvC14Term{{full[i]}, {full[0]}} },
		func(i int) [][]*zvC14Term { return [][]*zvC14Term{{full[2], full[i]}} },
	}
	for si, shape := range shapes {
		for i := range full {
			idx++
			if !r.Mine(idx) || budget() {
				continue
			}
			a := shape(i)
			c := zvC14BuildChain(a)
			for j := range full {
				b := shape(j)
				d := zvC14BuildChain(b)
				zvC14EqualPair(r, a, b, c, d, inputs)
			}
			// different shapes never compare equal; checked for a fixed partner
			if si > 0 {
				b := shapes[0](i)
				zvC14EqualPair(r, a, b, c, zvC14BuildChain(b), inputs)
			}
		}
	}
}

func zvC14MatcherSig(spec [][]*zvC14Term) []string {
	if len(spec) == 1 && len(spec[0]) == 1 && len(spec[0][0].From) == 1 {
		c := spec[0][0].From[0]
		if len(c.RFs) == 1 {
			return []string{"matcher", c.RFs[0].M.K}
		}
		if len(c.PLs) > 0 {
			return []string{"matcher", "prefix_list"}
		}
	}
	return nil
}
