package locRIB

// Shared by the C02 and C03 harnesses: the structured path domain, the
// construction of real route.Path values from a descriptor, and the
// reference decision process written from the RFC text (RFC 4271 9.1.2.2,
// RFC 4456 section 9). Nothing in this file calls the code under test.

import (
	"fmt"
	"syscall"

	bnet "github.com/bio-routing/bio-rd/net"
	"github.com/bio-routing/bio-rd/protocols/bgp/types"
	"github.com/bio-routing/bio-rd/route"
	"github.com/bio-routing/bio-rd/util/log"
)

// zvSelPD describes one candidate path of the domain by its attributes.
type zvSelPD struct {
	Static bool   `json:"static,omitempty"`
	LP     uint32 `json:"local_pref"`
	ASLen  int    `json:"as_path_len"`
	NAS    int    `json:"neighbor_as"` // first AS of the AS_PATH is 65000 + 100*NAS
	Origin uint8  `json:"origin"`
	MED    uint32 `json:"med"`
	EBGP   bool   `json:"ebgp"`
	ID     uint32 `json:"bgp_id"`
	Orig   uint32 `json:"originator_id"` // 0 = attribute absent
	CL     int    `json:"cluster_list"`  // -1 = attribute absent, else number of entries
	Peer   uint8  `json:"peer"`          // peer address 192.0.2.<Peer>
	NH     uint8  `json:"next_hop"`      // next hop 198.51.100.<NH>
}

func (d zvSelPD) String() string {
	if d.Static {
		return fmt.Sprintf("static{nh=.%d}", d.NH)
	}
	cl := "absent"
	if d.CL >= 0 {
		cl = fmt.Sprintf("len%d", d.CL)
	}
	return fmt.Sprintf("bgp{lp=%d aslen=%d neighbor_as=%d origin=%d med=%d ebgp=%v id=%d originator=%d cluster_list=%s peer=.%d nh=.%d}",
		d.LP, d.ASLen, 65000+100*d.NAS, d.Origin, d.MED, d.EBGP, d.ID, d.Orig, cl, d.Peer, d.NH)
}

// path builds a fresh real path object.
func (d zvSelPD) path() *route.Path {
	if d.Static {
		return &route.Path{Type: route.StaticPathType, StaticPath: &route.StaticPath{NextHop: bnet.IPv4FromOctets(198, 51, 100, d.NH).Ptr()}}
	}
	asns := make([]uint32, d.ASLen)
	for i := range asns {
		asns[i] = 64900 + uint32(i)
	}
	asns[0] = 65000 + 100*uint32(d.NAS) // neighbour AS
	asp := types.NewASPath(asns)
	bp := &route.BGPPath{
		BGPPathA: &route.BGPPathA{
			NextHop:       bnet.IPv4FromOctets(198, 51, 100, d.NH).Ptr(),
			Source:        bnet.IPv4FromOctets(192, 0, 2, d.Peer).Ptr(),
			LocalPref:     d.LP,
			MED:           d.MED,
			BGPIdentifier: d.ID,
			OriginatorID:  d.Orig,
			EBGP:          d.EBGP,
			Origin:        d.Origin,
		},
		ASPath:    asp,
		ASPathLen: asp.Length(),
	}
	if d.CL >= 0 {
		cl := make(types.ClusterList, d.CL)
		for i := range cl {
			cl[i] = 0x0a0a0a00 + uint32(i)
		}
		bp.ClusterList = &cl
	}
	return &route.Path{Type: route.BGPPathType, BGPPath: bp}
}

// effective BGP identifier of RFC 4456 section 9: "If a route carries the
// ORIGINATOR_ID attribute, then in Step f) the ORIGINATOR_ID SHOULD be treated
// as the BGP Identifier of the BGP speaker that has advertised the route."
func (d zvSelPD) effID() uint32 {
	if d.Orig != 0 {
		return d.Orig
	}
	return d.ID
}

// "The CLUSTER_LIST length is zero if a route does not carry the CLUSTER_LIST
// attribute." (RFC 4456 section 9)
func (d zvSelPD) clLen() int {
	if d.CL < 0 {
		return 0
	}
	return d.CL
}

// refKey is the tuple of everything the reference decision process looks at.
// Two paths with the same refKey cannot be distinguished by it.
func (d zvSelPD) refKey() string {
	if d.Static {
		return fmt.Sprintf("S/%d", d.NH)
	}
	return fmt.Sprintf("B/%d/%d/%d/%d/%v/%d/%d/%d", d.LP, d.ASLen, d.Origin, d.MED, d.EBGP, d.effID(), d.clLen(), d.Peer)
}

// ecmpKey: the attributes that make two BGP paths "equal cost" for multipath
// (everything up to and including MED), used only for coverage counters.
func (d zvSelPD) ecmpKey() string {
	if d.Static {
		return "S"
	}
	return fmt.Sprintf("B/%d/%d/%d/%d", d.LP, d.ASLen, d.Origin, d.MED)
}

// zvSelRef is the reference comparator for two BGP paths, written from RFC 4271
// 9.1.2 (degree of preference = LOCAL_PREF) / 9.1.2.2 a)-g) and RFC 4456 9.
// It returns +1 when a is preferred, -1 when b is preferred, 0 when the RFC
// steps do not separate them, and the name of the deciding step.
func zvSelRef(a, b zvSelPD) (int, string) {
	pick := func(aBetter bool) int {
		if aBetter {
			return 1
		}
		return -1
	}
	switch {
	case a.LP != b.LP: // highest degree of preference
		return pick(a.LP > b.LP), "local_pref"
	case a.ASLen != b.ASLen: // a) smallest number of AS numbers in AS_PATH
		return pick(a.ASLen < b.ASLen), "as_path"
	case a.Origin != b.Origin: // b) lowest origin number
		return pick(a.Origin < b.Origin), "origin"
	case a.MED != b.MED: // c) lowest MULTI_EXIT_DISC (compared across all neighbour ASes)
		return pick(a.MED < b.MED), "med"
	case a.EBGP != b.EBGP: // d) routes received via EBGP over IBGP
		return pick(a.EBGP), "ebgp"
	// e) interior cost: not implemented by the code under test, constant in the domain
	case a.effID() != b.effID(): // f) lowest BGP Identifier (ORIGINATOR_ID in its place)
		return pick(a.effID() < b.effID()), "identifier"
	case a.clLen() != b.clLen(): // RFC 4456: shorter CLUSTER_LIST, between f) and g)
		return pick(a.clLen() < b.clLen()), "cluster_list"
	case a.Peer != b.Peer: // g) lowest peer address
		return pick(a.Peer < b.Peer), "peer_address"
	}
	return 0, "none"
}

// zvSelDomain enumerates the BGP path domain D.
//
//	full: LOCAL_PREF{100,200} x AS_PATH length{1,2} x neighbour AS{65000,65100} x ORIGIN{0,1}
//	      x MED{0,10} x eBGP{f,t} x BGP-ID{1,2} x ORIGINATOR_ID{absent,1,3}
//	      x CLUSTER_LIST{absent,empty,[x],[x,y]} x peer{.1,.2} x next hop{.1,.2}   = 6144 paths
//
// The neighbour AS is not looked at by the reference (MED is compared across
// all neighbour ASes), it is in the domain so that this is exercised.
//
// The sub-domains fix some of the early attributes (they then never decide)
// but keep every late step two-valued, so ties survive until the last steps.
type zvSelDomSpec struct {
	LP, ASLen, NAS, Origin, MED []int
	EBGP                        []bool
	ID, Orig                    []uint32
	CL                          []int
	Peer, NH                    []uint8
}

var zvSelFull = zvSelDomSpec{
	LP: []int{100, 200}, ASLen: []int{1, 2}, NAS: []int{0, 1}, Origin: []int{0, 1}, MED: []int{0, 10}, EBGP: []bool{false, true},
	ID: []uint32{1, 2}, Orig: []uint32{0, 1, 3}, CL: []int{-1, 0, 1, 2}, Peer: []uint8{1, 2}, NH: []uint8{1, 2},
}

func (s zvSelDomSpec) enumerate() []zvSelPD {
	var out []zvSelPD
	nas := s.NAS
	if len(nas) == 0 {
		nas = []int{0}
	}
	for _, lp := range s.LP {
		for _, alna := range zvSelCross(s.ASLen, nas) {
			al, na := alna[0], alna[1]
			for _, or := range s.Origin {
				for _, med := range s.MED {
					for _, eb := range s.EBGP {
						for _, id := range s.ID {
							for _, og := range s.Orig {
								for _, cl := range s.CL {
									for _, pe := range s.Peer {
										for _, nh := range s.NH {
											out = append(out, zvSelPD{LP: uint32(lp), ASLen: al, NAS: na, Origin: uint8(or), MED: uint32(med), EBGP: eb, ID: id, Orig: og, CL: cl, Peer: pe, NH: nh})
										}
									}
								}
							}
						}
					}
				}
			}
		}
	}
	return out
}

func zvSelCross(a, b []int) [][2]int {
	var out [][2]int
	for _, x := range a {
		for _, y := range b {
			out = append(out, [2]int{x, y})
		}
	}
	return out
}

var zvSelStatics = []zvSelPD{{Static: true, NH: 1}, {Static: true, NH: 2}}

func zvSelSign(v int8) int {
	switch {
	case v > 0:
		return 1
	case v < 0:
		return -1
	}
	return 0
}

func zvSelBuildAll(ds []zvSelPD) []*route.Path {
	ps := make([]*route.Path, len(ds))
	for i := range ds {
		ps[i] = ds[i].path()
	}
	return ps
}

var zvSelPfx = bnet.NewPfx(bnet.IPv4FromOctets(10, 0, 0, 0), 8).Ptr()

// zvSelCPU returns the process CPU time in seconds (reporting only; the
// machine is shared, wall time says little about the cost of a phase).
func zvSelCPU() float64 {
	var ru syscall.Rusage
	if syscall.Getrusage(syscall.RUSAGE_SELF, &ru) != nil {
		return 0
	}
	return float64(ru.Utime.Sec) + float64(ru.Utime.Usec)/1e6 + float64(ru.Stime.Sec) + float64(ru.Stime.Usec)/1e6
}

// zvSelQuiet: LocRIB.AddPath/RemovePath build a structured log entry per call
// (half of their cost). Logging is not part of the properties; a silent logger
// only makes the enumeration cheaper.
type zvSelNoLog struct{}

func (zvSelNoLog) Errorf(string, ...interface{})               {}
func (zvSelNoLog) Infof(string, ...interface{})                {}
func (zvSelNoLog) Debugf(string, ...interface{})               {}
func (zvSelNoLog) Error(string)                                {}
func (zvSelNoLog) Info(string)                                 {}
func (zvSelNoLog) Debug(string)                                {}
func (l zvSelNoLog) WithFields(log.Fields) log.LoggerInterface { return l }
func (l zvSelNoLog) WithError(error) log.LoggerInterface       { return l }

func zvSelQuiet() {
	log.SetLogger(zvSelNoLog{})
}
