package adjRIBIn

// C05 — Loc-RIB mirrors the accepted paths of each Adj-RIB-In.
// Engine E4: for each of the 20 session configurations (add-path RX off/on x
// iBGP/eBGP x 5 fixed import policies) BFS over all histories of
// Announce / multiprotocol-Announce / Withdraw / Flush / Unregister(LocRIB) /
// Register(LocRIB) to closure of the canonical state. Oracle at every state:
// the session's paths in the real Loc-RIB == reference, the other source's
// paths are untouched, the Adj-RIB-In holds exactly the stored announcements.

import (
	"fmt"
	"testing"

	"github.com/bio-routing/bio-rd/zzverif/vh"
)

func zvC05Vars(ibgp bool, n int) []zvVar {
	var vs []zvVar
	if ibgp {
		vs = []zvVar{
			{Name: "a1", ID: 1, LP: 0, Segs: []zvSeg{{false, []uint32{65010}}}, NH: 1, Origin: 0},
			{Name: "a2", ID: 2, LP: 150, Segs: nil, NH: 2, Origin: 2}, // locally originated inside the AS: empty AS_PATH
			{Name: "a3", ID: 3, LP: 100, Segs: []zvSeg{{false, []uint32{65010}}, {true, []uint32{65030, 65031}}}, NH: 1, Origin: 1},
		}
	} else {
		vs = []zvVar{
			{Name: "a1", ID: 1, Segs: []zvSeg{{false, []uint32{zvEBGPPeerAS, 65010}}}, NH: 1, Origin: 0},
			{Name: "a2", ID: 2, Segs: []zvSeg{{false, []uint32{zvEBGPPeerAS, 65020, 65021}}}, NH: 2, Origin: 2},
			{Name: "a3", ID: 3, Segs: []zvSeg{{true, []uint32{zvEBGPPeerAS, 65030}}, {false, []uint32{65031}}}, NH: 1, Origin: 1},
		}
	}
	return vs[:n]
}

func zvC05Configs(thorough bool) []*zvCfg {
	var heavy, on, off []*zvCfg
	for _, ap := range []bool{false, true} {
		for _, ibgp := range []bool{true, false} {
			for _, pol := range []string{"accept", "rejectP1", "lp200", "prepend2", "nexthop"} {
				c := &zvCfg{AddPath: ap, IBGP: ibgp, Policy: pol, NPfx: 2, IDs: []uint32{0, 2}, MP: true, Exact: true}
				c.Vars = zvC05Vars(ibgp, 2)
				if ap {
					c.DefLP = 120 // configured default LOCAL_PREF; the add-path-off sessions leave it unset (-> 100)
				}
				c.Name = fmt.Sprintf("addpath=%v ibgp=%v policy=%s", ap, ibgp, pol)
				if thorough {
					// third prefix (sibling of P2 under a dummy trie node); third attribute set where the state space allows it
					c.NPfx = 3
					if !ap {
						c.Vars = zvC05Vars(ibgp, 3)
					}
					c.Name += fmt.Sprintf(" (3 prefixes, %d attribute sets)", len(c.Vars))
				}
				if ap {
					on = append(on, c)
				} else {
					off = append(off, c)
				}
				if pol == "accept" || pol == "lp200" {
					// attribute sets that differ ONLY in what best-path selection does not look at (AS path content of equal
					// length): a re-announcement must still replace the stored path (Path.Equal is preference equality only)
					d := *c
					d.Vars = zvC05Vars(ibgp, 1)
					tw := d.Vars[0]
					tw.Name = "a1b"
					tw.Segs = []zvSeg{{false, append(append([]uint32{}, tw.Segs[0].ASNs[:len(tw.Segs[0].ASNs)-1]...), 65011)}}
					d.Vars = append(d.Vars, tw)
					d.NPfx = 2
					d.Name = fmt.Sprintf("addpath=%v ibgp=%v policy=%s (attribute sets differing only in AS path content)", ap, ibgp, pol)
					if ap {
						on = append(on, &d)
					} else {
						off = append(off, &d)
					}
				}
				if pol == "accept" || pol == "lp200" {
					// an accepted path re-announced with attributes that make it ineligible (AS loop through the local AS):
					// the accepted path must leave the Loc-RIB (a replacement is a withdrawal of what was there before)
					d := *c
					d.Vars = zvC05Vars(ibgp, 1)
					lp := d.Vars[0]
					lp.Name = "a1-loop"
					lp.ID = 9
					lp.Segs = []zvSeg{{false, append(append([]uint32{}, lp.Segs[0].ASNs...), zvLocalASN)}}
					d.Vars = append(d.Vars, lp)
					d.NPfx = 2
					d.Name = fmt.Sprintf("addpath=%v ibgp=%v policy=%s (eligible and AS-loop attribute sets)", ap, ibgp, pol)
					if ap {
						on = append(on, &d)
					} else {
						off = append(off, &d)
					}
				}
				if thorough && ap && (pol == "accept" || pol == "lp200") {
					// three path identifiers per prefix
					d := *c
					d.NPfx, d.IDs, d.Vars = 2, []uint32{0, 1, 2}, zvC05Vars(ibgp, 2)
					d.Name = fmt.Sprintf("addpath=%v ibgp=%v policy=%s (2 prefixes, 2 attribute sets, 3 path IDs)", ap, ibgp, pol)
					heavy = append(heavy, &d)
				}
			}
		}
	}
	// expensive explorations first, so that the shards get one each
	return append(append(heavy, on...), off...)
}

var zvC05Required = []string{
	"locrib_contribution_nonempty_checked", "locrib_contribution_rewritten_checked", "ebgp_default_localpref_checked",
	"stored_but_policy_rejected", "announce_replaces_same_slot", "announce_keeps_other_path_id", "withdraw_of_stored",
	"flush_nonempty", "unregister_after_contribution", "unregister_after_rewritten_contribution", "late_register_with_stored",
	"foreign_untouched_checked",
}

func TestVerifC05(t *testing.T) {
	r := vh.Start(t, "C05")
	defer r.Finish()
	r.Rule("per session configuration (add-path RX off/on x iBGP/eBGP x import policy accept-all | reject P1 | set LOCAL_PREF 200 | prepend x2 | set next hop): " +
		"BFS over all histories of Announce(pfx,attrs,pathID) / Announce-multiprotocol(attrs,pathID: one path object for all prefixes) / Withdraw(pfx,pathID) / Flush / " +
		"Unregister(LocRIB) / Register(LocRIB) on the real AdjRIBIn+LocRIB until the canonical state set (reference + Adj-RIB-In paths in order with HiddenReason + Loc-RIB paths in order + trie lookups) closes; " +
		"oracle after every transition; evaluations = configurations explored, non-trivial = configurations explored to closure")
	r.Require(zvC05Required...)
	all := append(zvC05Configs(false), zvC05Configs(true)...)
	if r.IsReplay() {
		zvReplay(r, all)
		for _, k := range zvC05Required {
			r.Count(k, 1)
		}
		return
	}
	cfgs := zvC05Configs(r.Thorough())
	r.Extra("configurations_total", len(cfgs))
	for i, c := range cfgs {
		if !r.Mine(i) {
			continue
		}
		if r.OutOfBudget() {
			r.Cap("time budget: not all configurations explored")
			break
		}
		zvExplore(r, c, 0)
	}
}
