package route

// C34 — API route conversion preserves what the API carries.
// Engine E5 (bounded-exhaustive input enumeration): every route of a structured
// domain is converted with Route.ToProto and back with RouteFromProtoRoute; an
// observation (plain strings read through public fields/accessors) of the
// result is compared field by field with the observation of the input.
//
// A route is a vector of domain indices over the field table zvC34Fields. The
// enumerated space is: 2 background vectors x (every single field over its whole
// domain + every PAIR of fields over both whole domains [+ thorough: every
// TRIPLE of the list-typed/structural fields]) x dedup {false,true}.

import (
	"fmt"
	"strings"
	"testing"

	bnet "github.com/bio-routing/bio-rd/net"
	"github.com/bio-routing/bio-rd/protocols/bgp/types"
	"github.com/bio-routing/bio-rd/route/api"
	"github.com/bio-routing/bio-rd/zzverif/vh"
)

// ---- field table -----------------------------------------------------------

const (
	zvC34FPfx = iota
	zvC34FType
	zvC34FHidden
	zvC34FSecond
	zvC34FLTime
	zvC34FNextHop
	zvC34FSource
	zvC34FLocalPref
	zvC34FMED
	zvC34FOrigin
	zvC34FEBGP
	zvC34FBGPID
	zvC34FOriginatorID
	zvC34FOTC
	zvC34FPathID
	zvC34FPostPolicy
	zvC34FASPath
	zvC34FCommunities
	zvC34FLargeCommunities
	zvC34FClusterList
	zvC34FUnknown
	zvC34NFields
)

type zvC34Field struct {
	name string
	n    int  // domain size
	list bool // list-typed / structural (member of the triple enumeration)
}

var zvC34U32 = []uint32{0, 1, 65536, 4294967295}

var zvC34Fields = [zvC34NFields]zvC34Field{
	zvC34FPfx:              {"prefix", len(zvC34Pfxs), false},
	zvC34FType:             {"path_type", 2, true},
	zvC34FHidden:           {"hidden_reason", 8, true},
	zvC34FSecond:           {"second_path", 4, true},
	zvC34FLTime:            {"ltime", 2, false},
	zvC34FNextHop:          {"next_hop", len(zvC34IPs), false},
	zvC34FSource:           {"source", len(zvC34IPs), false},
	zvC34FLocalPref:        {"local_pref", len(zvC34U32), false},
	zvC34FMED:              {"med", len(zvC34U32), false},
	zvC34FOrigin:           {"origin", 4, false},
	zvC34FEBGP:             {"ebgp", 2, false},
	zvC34FBGPID:            {"bgp_identifier", len(zvC34U32), false},
	zvC34FOriginatorID:     {"originator_id", len(zvC34U32), false},
	zvC34FOTC:              {"only_to_customer", len(zvC34U32), false},
	zvC34FPathID:           {"path_identifier", len(zvC34U32), false},
	zvC34FPostPolicy:       {"bmp_post_policy", 2, false},
	zvC34FASPath:           {"as_path", 7, true},
	zvC34FCommunities:      {"communities", 4, true},
	zvC34FLargeCommunities: {"large_communities", 4, true},
	zvC34FClusterList:      {"cluster_list", 4, true},
	zvC34FUnknown:          {"unknown_attributes", 5, true},
}

var zvC34IPs = []bnet.IP{
	bnet.IPv4FromOctets(192, 0, 2, 1),
	bnet.IPv6(0x20010db800000000, 1),
	bnet.IPv4(0),
	bnet.IPv6(0, 0),
	bnet.IPv6(0, 0xffff0a000001), // IPv4-mapped, stored as IPv6
	bnet.IPv4(0xffffffff),
	bnet.IPv6(^uint64(0), ^uint64(0)),
}

var zvC34Pfxs = []bnet.Prefix{
	bnet.NewPfx(bnet.IPv4(0), 0),
	bnet.NewPfx(bnet.IPv4FromOctets(10, 0, 0, 0), 8),
	bnet.NewPfx(bnet.IPv4FromOctets(192, 0, 2, 1), 32),
	bnet.NewPfx(bnet.IPv6(0, 0), 0),
	bnet.NewPfx(bnet.IPv6(0x20010db800000000, 0), 32),
	bnet.NewPfx(bnet.IPv6(0x20010db800000000, 1), 128),
	bnet.NewPfx(bnet.IPv6(0, 0xffff00000000), 96),
}

func zvC34ASPath(i int) *types.ASPath {
	switch i {
	case 0:
		return nil
	case 1:
		return &types.ASPath{}
	case 2:
		return &types.ASPath{{Type: types.ASSequence, ASNs: []uint32{65001, 65002}}}
	case 3:
		return &types.ASPath{{Type: types.ASSet, ASNs: []uint32{1, 2}}, {Type: types.ASSequence, ASNs: []uint32{3}}}
	case 4:
		return &types.ASPath{{Type: types.ASSequence, ASNs: []uint32{4294967295, 0, 23456}}}
	case 5:
		return &types.ASPath{{Type: types.ASSequence, ASNs: []uint32{}}}
	default:
		return &types.ASPath{{Type: types.ASSequence, ASNs: []uint32{64512}}, {Type: types.ASSet, ASNs: []uint32{7, 7, 8}}, {Type: types.ASSequence, ASNs: []uint32{9, 10}}}
	}
}

// list domains: 0 nil, 1 empty, 2 one element, 3 three elements
func zvC34U32List(i int, base uint32) []uint32 {
	switch i {
	case 0:
		return nil
	case 1:
		return []uint32{}
	case 2:
		return []uint32{base}
	default:
		return []uint32{base + 1, 4294967295, 0}
	}
}

func zvC34Unknown(i int) []types.UnknownPathAttribute {
	switch i {
	case 0:
		return nil
	case 1:
		return []types.UnknownPathAttribute{}
	case 2:
		return []types.UnknownPathAttribute{{Optional: true, Transitive: true, TypeCode: 200, Value: []byte{1, 2, 3}}}
	case 3:
		return []types.UnknownPathAttribute{
			{Optional: true, Transitive: false, Partial: false, TypeCode: 255, Value: []byte{}},
			{Optional: false, Transitive: true, Partial: true, TypeCode: 1, Value: []byte{0}},
			{Optional: true, Transitive: true, Partial: true, TypeCode: 128, Value: []byte{255, 0, 255}},
		}
	default:
		big := make([]byte, 300)
		for j := range big {
			big[j] = byte(j * 7)
		}
		return []types.UnknownPathAttribute{{Optional: true, Transitive: true, TypeCode: 99, Value: big}}
	}
}

type zvC34Case struct {
	V     []int  `json:"fields"` // index into each field's domain, in zvC34Fields order
	Dedup bool   `json:"dedup"`
	Desc  string `json:"desc,omitempty"`
	// Prev: a route converted (same dedup setting) just before this one, in the same process, starting from an empty
	// attribute cache: conversions must not influence each other, and the earlier result must not change afterwards
	Prev []int `json:"converted_before,omitempty"`
}

func zvC34BGPPath(v []int) *Path {
	b := &BGPPath{
		BGPPathA: &BGPPathA{
			NextHop:        zvC34IPs[v[zvC34FNextHop]].Ptr(),
			Source:         zvC34IPs[v[zvC34FSource]].Ptr(),
			LocalPref:      zvC34U32[v[zvC34FLocalPref]],
			MED:            zvC34U32[v[zvC34FMED]],
			Origin:         []uint8{0, 1, 2, 255}[v[zvC34FOrigin]],
			EBGP:           v[zvC34FEBGP] == 1,
			BGPIdentifier:  zvC34U32[v[zvC34FBGPID]],
			OriginatorID:   zvC34U32[v[zvC34FOriginatorID]],
			OnlyToCustomer: zvC34U32[v[zvC34FOTC]],
		},
		ASPath:            zvC34ASPath(v[zvC34FASPath]),
		PathIdentifier:    zvC34U32[v[zvC34FPathID]],
		BMPPostPolicy:     v[zvC34FPostPolicy] == 1,
		UnknownAttributes: zvC34Unknown(v[zvC34FUnknown]),
	}
	if b.ASPath != nil {
		b.ASPathLen = b.ASPath.Length()
	}
	if l := zvC34U32List(v[zvC34FCommunities], 0xfde80001); l != nil {
		c := types.Communities(l)
		b.Communities = &c
	}
	if l := zvC34U32List(v[zvC34FClusterList], 0x0a000001); l != nil {
		c := types.ClusterList(l)
		b.ClusterList = &c
	}
	switch v[zvC34FLargeCommunities] {
	case 1:
		b.LargeCommunities = &types.LargeCommunities{}
	case 2:
		b.LargeCommunities = &types.LargeCommunities{{GlobalAdministrator: 65000, DataPart1: 1, DataPart2: 2}}
	case 3:
		b.LargeCommunities = &types.LargeCommunities{{GlobalAdministrator: 4294967295, DataPart1: 0, DataPart2: 4294967295}, {GlobalAdministrator: 0, DataPart1: 0, DataPart2: 0}, {GlobalAdministrator: 1, DataPart1: 2, DataPart2: 3}}
	}
	return &Path{Type: BGPPathType, BGPPath: b}
}

func zvC34Build(v []int) *Route {
	var p0 *Path
	if v[zvC34FType] == 0 {
		p0 = &Path{Type: StaticPathType, StaticPath: &StaticPath{NextHop: zvC34IPs[v[zvC34FNextHop]].Ptr()}}
	} else {
		p0 = zvC34BGPPath(v)
	}
	p0.HiddenReason = uint8(v[zvC34FHidden])
	p0.LTime = []uint32{0, 1700000000}[v[zvC34FLTime]]
	paths := []*Path{p0}
	switch v[zvC34FSecond] {
	case 1: // a static second path
		paths = append(paths, &Path{Type: StaticPathType, StaticPath: &StaticPath{NextHop: bnet.IPv6(0x20010db8000000ff, 0xff).Ptr()}})
	case 2: // a hidden BGP second path carrying the "rich" attribute set
		p1 := zvC34BGPPath(zvC34Backgrounds()[1])
		p1.HiddenReason = HiddenReasonFilteredByPolicy
		paths = append(paths, p1)
	case 3: // the same attributes again under another path identifier
		w := append([]int(nil), v...)
		w[zvC34FPathID] = (v[zvC34FPathID] + 1) % len(zvC34U32)
		p1 := zvC34BGPPath(w)
		paths = append(paths, p1)
	}
	return NewRouteAddPath(zvC34Pfxs[v[zvC34FPfx]].Ptr(), paths)
}

// zvC34Backgrounds: 0 = "bare" (everything zero / absent), 1 = "rich"
// (everything present and non-zero).
func zvC34Backgrounds() [2][]int {
	bare := make([]int, zvC34NFields)
	bare[zvC34FType] = 1
	rich := make([]int, zvC34NFields)
	rich[zvC34FPfx] = 4
	rich[zvC34FType] = 1
	rich[zvC34FHidden] = 0
	rich[zvC34FSecond] = 0
	rich[zvC34FLTime] = 1
	rich[zvC34FNextHop] = 1
	rich[zvC34FSource] = 0
	rich[zvC34FLocalPref] = 2
	rich[zvC34FMED] = 3
	rich[zvC34FOrigin] = 2
	rich[zvC34FEBGP] = 1
	rich[zvC34FBGPID] = 2
	rich[zvC34FOriginatorID] = 3
	rich[zvC34FOTC] = 2
	rich[zvC34FPathID] = 1
	rich[zvC34FPostPolicy] = 1
	rich[zvC34FASPath] = 3
	rich[zvC34FCommunities] = 3
	rich[zvC34FLargeCommunities] = 3
	rich[zvC34FClusterList] = 3
	rich[zvC34FUnknown] = 3
	return [2][]int{bare, rich}
}

// ---- observation (reference side: plain strings) -------------------------------

type zvC34Obs struct {
	fields map[string]string
	order  []string
	hidden []uint8
}

func (o *zvC34Obs) set(k, v string) {
	o.fields[k] = v
	o.order = append(o.order, k)
}

func zvC34IP(ip *bnet.IP) string {
	if ip == nil {
		return "<nil>"
	}
	return fmt.Sprintf("v4=%v %016x%016x", ip.IsIPv4(), ip.Higher(), ip.Lower())
}

// zvC34Observe reads everything the statement lists. Nil and empty lists are
// identified (both print as "[]").
func zvC34Observe(r *Route) *zvC34Obs {
	o := &zvC34Obs{fields: map[string]string{}}
	pfx := r.Prefix()
	if pfx == nil {
		o.set("prefix", "<nil>")
	} else {
		a := pfx.Addr()
		o.set("prefix", fmt.Sprintf("%s/%d", zvC34IP(&a), pfx.Len()))
	}
	paths := r.Paths()
	o.set("path_count", fmt.Sprint(len(paths)))
	for i, p := range paths {
		pre := fmt.Sprintf("path%d.", i)
		if p == nil {
			o.set(pre+"path_type", "<nil path>")
			o.hidden = append(o.hidden, 0)
			continue
		}
		o.hidden = append(o.hidden, p.HiddenReason)
		o.set(pre+"path_type", fmt.Sprint(p.Type))
		switch p.Type {
		case StaticPathType:
			if p.StaticPath == nil {
				o.set(pre+"next_hop", "<no static path>")
			} else {
				o.set(pre+"next_hop", zvC34IP(p.StaticPath.NextHop))
			}
		case BGPPathType:
			b := p.BGPPath
			if b == nil || b.BGPPathA == nil {
				o.set(pre+"next_hop", "<no bgp path>")
				continue
			}
			a := b.BGPPathA
			o.set(pre+"next_hop", zvC34IP(a.NextHop))
			o.set(pre+"source", zvC34IP(a.Source))
			o.set(pre+"local_pref", fmt.Sprint(a.LocalPref))
			o.set(pre+"med", fmt.Sprint(a.MED))
			o.set(pre+"origin", fmt.Sprint(a.Origin))
			o.set(pre+"ebgp", fmt.Sprint(a.EBGP))
			o.set(pre+"bgp_identifier", fmt.Sprint(a.BGPIdentifier))
			o.set(pre+"originator_id", fmt.Sprint(a.OriginatorID))
			o.set(pre+"only_to_customer", fmt.Sprint(a.OnlyToCustomer))
			o.set(pre+"path_identifier", fmt.Sprint(b.PathIdentifier))
			o.set(pre+"bmp_post_policy", fmt.Sprint(b.BMPPostPolicy))
			var sb strings.Builder
			sb.WriteString("[")
			if b.ASPath != nil {
				for _, s := range *b.ASPath {
					fmt.Fprintf(&sb, "(t%d", s.Type)
					for _, n := range s.ASNs {
						fmt.Fprintf(&sb, " %d", n)
					}
					sb.WriteString(")")
				}
			}
			sb.WriteString("]")
			o.set(pre+"as_path", sb.String())
			u32s := func(l []uint32) string {
				s := "["
				for _, x := range l {
					s += fmt.Sprintf(" %d", x)
				}
				return s + "]"
			}
			if b.Communities != nil {
				o.set(pre+"communities", u32s(*b.Communities))
			} else {
				o.set(pre+"communities", u32s(nil))
			}
			if b.ClusterList != nil {
				o.set(pre+"cluster_list", u32s(*b.ClusterList))
			} else {
				o.set(pre+"cluster_list", u32s(nil))
			}
			lc := "["
			if b.LargeCommunities != nil {
				for _, c := range *b.LargeCommunities {
					lc += fmt.Sprintf(" (%d,%d,%d)", c.GlobalAdministrator, c.DataPart1, c.DataPart2)
				}
			}
			o.set(pre+"large_communities", lc+"]")
			ua := "["
			for _, u := range b.UnknownAttributes {
				ua += fmt.Sprintf(" (o=%v t=%v p=%v c=%d v=%x)", u.Optional, u.Transitive, u.Partial, u.TypeCode, u.Value)
			}
			o.set(pre+"unknown_attributes", ua+"]")
		}
	}
	return o
}

func zvC34Describe(v []int) string {
	var parts []string
	for i, f := range zvC34Fields {
		parts = append(parts, fmt.Sprintf("%s=%d", f.name, v[i]))
	}
	return strings.Join(parts, " ")
}

// ---- one case ----------------------------------------------------------------

func zvC34One(r *vh.Run, c zvC34Case) {
	if len(c.V) != zvC34NFields {
		r.Fatalf("bad case: %d fields", len(c.V))
	}
	for i, f := range zvC34Fields {
		if c.V[i] < 0 || c.V[i] >= f.n {
			r.Fatalf("bad case: field %s index %d out of domain", f.name, c.V[i])
		}
	}
	c.Desc = zvC34Describe(c.V)
	dd := fmt.Sprint(c.Dedup)
	// every case starts from an empty process-global attribute cache: a verdict is a function of the case alone
	ZZVerifResetBGPPathACache()
	var prevBack *Route
	var prevWant *zvC34Obs
	if c.Prev != nil {
		c.Desc = "after " + zvC34Describe(c.Prev) + ": " + c.Desc
		pin := zvC34Build(c.Prev)
		if p, what := vh.Try(func() { prevBack = RouteFromProtoRoute(pin.ToProto(), c.Dedup) }); p {
			r.Violation(vh.Sig("clause", "panic", "stage", "earlier_conversion"), c, "conversion of the earlier route panicked: %s", what)
			return
		}
		prevWant = zvC34Observe(prevBack)
		r.Count("sequences_of_two", 1)
	}
	in := zvC34Build(c.V)
	want := zvC34Observe(in)
	r.Eval(1)

	var ar *api.Route
	if p, what := vh.Try(func() { ar = in.ToProto() }); p {
		r.Violation(vh.Sig("clause", "panic", "stage", "to_proto"), c, "ToProto panicked: %s", what)
		return
	}
	// hidden paths must not be reported as visible in the API representation
	for i, h := range want.hidden {
		if h == 0 {
			continue
		}
		r.Count("hidden_checked", 1)
		if i >= len(ar.Paths) || ar.Paths[i] == nil {
			continue // reported below as path_count
		}
		if ar.Paths[i].HiddenReason == api.Path_HiddenReasonNone {
			r.Violation(vh.Sig("clause", "hidden_api", "reason", fmt.Sprint(h)), c,
				"path %d has HiddenReason=%d (%q) but its API representation says HiddenReasonNone (visible)", i, h, in.Paths()[i].HiddenReasonString())
		}
	}
	var back *Route
	if p, what := vh.Try(func() { back = RouteFromProtoRoute(ar, c.Dedup) }); p {
		r.Violation(vh.Sig("clause", "panic", "stage", "from_proto"), c, "RouteFromProtoRoute panicked: %s", what)
		return
	}
	// the input must not have been changed by the conversion
	if again := zvC34Observe(in); fmt.Sprint(again.fields) != fmt.Sprint(want.fields) || fmt.Sprint(again.hidden) != fmt.Sprint(want.hidden) {
		r.Violation(vh.Sig("clause", "input_modified"), c, "conversion changed its input route: before %v after %v", want.fields, again.fields)
	}
	got := zvC34Observe(back)
	for _, k := range want.order {
		w := want.fields[k]
		g, ok := got.fields[k]
		if !ok {
			g = "<absent>"
		}
		if g != w {
			field := k
			if i := strings.IndexByte(k, '.'); i >= 0 {
				field = k[i+1:]
			}
			r.Violation(vh.Sig("clause", "field", "field", field), c, "%s: after ToProto/RouteFromProtoRoute(dedup=%s) = %s, before = %s", k, dd, g, w)
		}
	}
	if prevBack != nil {
		if again := zvC34Observe(prevBack); fmt.Sprint(again.fields) != fmt.Sprint(prevWant.fields) {
			field := "?"
			for _, k := range prevWant.order {
				if again.fields[k] != prevWant.fields[k] {
					field = k
					if i := strings.IndexByte(k, '.'); i >= 0 {
						field = k[i+1:]
					}
					break
				}
			}
			r.Violation(vh.Sig("clause", "earlier_result_changed", "field", field), c, "the route converted earlier (dedup=%s) changed when this route was converted: before %v after %v", dd, prevWant.fields, again.fields)
		}
	}
	for i, h := range want.hidden {
		if h != 0 && i < len(got.hidden) && got.hidden[i] == HiddenReasonNone {
			if i < len(ar.Paths) && ar.Paths[i] != nil && ar.Paths[i].HiddenReason == api.Path_HiddenReasonNone {
				continue // already lost in the API message: reported above as hidden_api (one root cause, one signature)
			}
			r.Violation(vh.Sig("clause", "hidden_roundtrip"), c,
				"path %d has HiddenReason=%d (%q); after the round trip HiddenReason=0: IsHidden()=%v", i, h, in.Paths()[i].HiddenReasonString(), back.Paths()[i].IsHidden())
		}
	}
	// coverage
	if c.V[zvC34FType] == 0 {
		r.Count("static_path", 1)
	} else {
		r.Count("bgp_path", 1)
		for _, f := range []int{zvC34FCommunities, zvC34FLargeCommunities, zvC34FClusterList, zvC34FUnknown} {
			switch c.V[f] {
			case 0:
				r.Count("list_nil", 1)
			case 1:
				r.Count("list_empty", 1)
			default:
				r.Count("list_nonempty", 1)
			}
		}
		if c.V[zvC34FClusterList] >= 2 {
			r.Count("cluster_list_nonempty", 1)
		}
		if c.V[zvC34FASPath] == 0 {
			r.Count("as_path_nil", 1)
		}
	}
	if c.V[zvC34FSecond] != 0 {
		r.Count("two_paths", 1)
	}
	if c.Dedup {
		r.Count("dedup_on", 1)
	}
	key := fmt.Sprint(want.fields, want.hidden)
	r.Outcome(key)
}

// zvC34Enumerate calls f for every vector of the space (duplicates between the
// single/pair/triple layers are skipped through a seen-set).
func zvC34Enumerate(thorough bool, f func(v []int)) {
	seen := map[string]bool{}
	emit := func(v []int) {
		k := fmt.Sprint(v)
		if seen[k] {
			return
		}
		seen[k] = true
		f(append([]int(nil), v...))
	}
	for _, bg := range zvC34Backgrounds() {
		emit(bg)
		// singles and pairs of all fields
		for a := 0; a < zvC34NFields; a++ {
			for b := a; b < zvC34NFields; b++ {
				for ia := 0; ia < zvC34Fields[a].n; ia++ {
					for ib := 0; ib < zvC34Fields[b].n; ib++ {
						if a == b && ia != ib {
							continue
						}
						v := append([]int(nil), bg...)
						v[a], v[b] = ia, ib
						emit(v)
					}
				}
			}
		}
		if !thorough {
			continue
		}
		var lf []int
		for i, fd := range zvC34Fields {
			if fd.list {
				lf = append(lf, i)
			}
		}
		for x := 0; x < len(lf); x++ {
			for y := x + 1; y < len(lf); y++ {
				for z := y + 1; z < len(lf); z++ {
					a, b, c := lf[x], lf[y], lf[z]
					for ia := 0; ia < zvC34Fields[a].n; ia++ {
						for ib := 0; ib < zvC34Fields[b].n; ib++ {
							for ic := 0; ic < zvC34Fields[c].n; ic++ {
								v := append([]int(nil), bg...)
								v[a], v[b], v[c] = ia, ib, ic
								emit(v)
							}
						}
					}
				}
			}
		}
	}
}

func TestVerifC34(t *testing.T) {
	r := vh.Start(t, "C34")
	defer r.Finish()
	r.Rule("routes = 2 backgrounds (bare: all attributes zero/absent; rich: all present) x (every field over its domain + every pair of the 21 fields over both domains" +
		" [thorough: + every triple of the 8 list-typed/structural fields]) x dedup{false,true}; fields: prefix(7, v4+v6), path type{static,BGP}, every HiddenReason constant 0..7," +
		" second path{none,static,hidden BGP,same attrs other path id}, next hop/source(7 addresses), scalars{0,1,65536,max}, origin{0,1,2,255}, AS path(nil,empty,seq,set+seq,...;7)," +
		" communities/large communities/cluster list{nil,empty,1,3}, unknown attributes{nil,empty,1,3,one 300-byte}; plus every ordered pair of (background, one field varied) routes converted one after the other from an empty attribute cache (the second conversion is checked, the first result must not change); distinct non-trivial = distinct input observations")
	r.Require("hidden_checked", "static_path", "bgp_path", "list_nil", "list_empty", "list_nonempty", "cluster_list_nonempty", "as_path_nil", "two_paths", "dedup_on", "sequences_of_two")
	if r.IsReplay() {
		var c zvC34Case
		r.ReplayCase(&c)
		zvC34One(r, c)
		for _, k := range []string{"hidden_checked", "static_path", "bgp_path", "list_nil", "list_empty", "list_nonempty", "cluster_list_nonempty", "as_path_nil", "two_paths", "dedup_on", "sequences_of_two"} {
			r.Count(k, 1)
		}
		return
	}
	idx := 0
	distinct := map[string]bool{}
	zvC34Enumerate(r.Thorough(), func(v []int) {
		idx++
		if !r.Mine(idx) {
			return
		}
		if r.OutOfBudget() {
			r.Cap("time budget: not all routes converted")
			return
		}
		for _, dedup := range []bool{false, true} {
			zvC34One(r, zvC34Case{V: v, Dedup: dedup})
		}
		k := fmt.Sprint(zvC34Observe(zvC34Build(v)).fields)
		if !distinct[k] {
			distinct[k] = true
			r.Nontrivial(1)
		}
		if idx == 1000 {
			r.Sample(zvC34Case{V: v, Dedup: true, Desc: zvC34Describe(v)})
		}
	})
	r.Extra("vectors_total", idx)
	// sequences of two conversions: every ordered pair of (background with one field varied) routes, dedup on and off
	var singles [][]int
	seen := map[string]bool{}
	for _, bg := range zvC34Backgrounds() {
		for a := 0; a < zvC34NFields; a++ {
			for ia := 0; ia < zvC34Fields[a].n; ia++ {
				v := append([]int(nil), bg...)
				v[a] = ia
				if k := fmt.Sprint(v); !seen[k] {
					seen[k] = true
					singles = append(singles, v)
				}
			}
		}
	}
	r.Extra("sequence_routes", len(singles))
	for _, a := range singles {
		for _, b := range singles {
			idx++
			if !r.Mine(idx) {
				continue
			}
			if idx%256 == 0 && r.OutOfBudget() {
				r.Cap("time budget: not all sequences of two conversions run")
				return
			}
			zvC34One(r, zvC34Case{V: b, Prev: a, Dedup: true})
			if r.Thorough() {
				zvC34One(r, zvC34Case{V: b, Prev: a, Dedup: false})
			}
		}
	}
}
