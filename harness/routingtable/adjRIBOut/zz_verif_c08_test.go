package adjRIBOut

// C08 — Adj-RIB-Out equals the export view of the Loc-RIB.
// Engine E4: per session configuration, explicit-state BFS over all histories of
// Loc-RIB changes (AddPath/RemovePath/ReplacePath of six kinds of paths on two
// prefixes). Real LocRIB -> real AdjRIBOut (registered with the session's client
// options) -> recording client. After every change the Adj-RIB-Out table and what
// the client (= the peer) holds are compared with export(kind, policy, p) applied
// to the first n paths of the Loc-RIB route; export() is written from the rules in
// the statements of C08/C09.

import (
	"fmt"
	"sort"
	"strings"
	"testing"

	bnet "github.com/bio-routing/bio-rd/net"
	"github.com/bio-routing/bio-rd/protocols/bgp/types"
	"github.com/bio-routing/bio-rd/route"
	"github.com/bio-routing/bio-rd/routingtable"
	"github.com/bio-routing/bio-rd/routingtable/filter"
	"github.com/bio-routing/bio-rd/routingtable/filter/actions"
	"github.com/bio-routing/bio-rd/routingtable/locRIB"
	"github.com/bio-routing/bio-rd/zzverif/vh"
)

type zvC08Cfg struct {
	Kind      string `json:"session"`          // ebgp | rs | ibgp | rr
	AddPath   int    `json:"addpath_maxpaths"` // 0 = best path only
	Policy    string `json:"policy"`           // accept | reject_p1 | set_med | prepend (an action that accumulates when applied twice)
	Reflected bool   `json:"ibgp_path_already_reflected"`
	Small     bool   `json:"small_second_prefix"` // second prefix only takes ebgpX, noadv, static; ReplacePath only on the first
}

func (c zvC08Cfg) ibgp() bool { return c.Kind == "ibgp" || c.Kind == "rr" }
func (c zvC08Cfg) String() string {
	return fmt.Sprintf("%s/addpath%d/%s/refl=%v", c.Kind, c.AddPath, c.Policy, c.Reflected)
}

type zvC08Op struct {
	Kind string `json:"op"` // add | remove | replace
	P    int    `json:"pfx"`
	X    int    `json:"path"`
	Y    int    `json:"new_path"` // replace only
}

type zvC08Case struct {
	Cfg  zvC08Cfg  `json:"config"`
	Hist []zvC08Op `json:"history"`
}

const (
	zvC08LocalASN  = 65000
	zvC08ClusterID = 0x09090909
	zvC08MED       = 50
	zvC08PrependASN = 65077
)

var (
	zvC08LocalIP = [4]byte{10, 0, 0, 1}
	zvC08PeerIP  = [4]byte{10, 0, 0, 2}
	zvC08Pfxs    = []*bnet.Prefix{
		bnet.NewPfx(bnet.IPv4FromOctets(10, 0, 0, 0), 8).Ptr(),
		bnet.NewPfx(bnet.IPv4FromOctets(20, 1, 0, 0), 16).Ptr(),
	}
)

// zvC08Desc describes one Loc-RIB path in plain data (the reference works on this).
type zvC08Desc struct {
	Name    string
	Static  bool
	EBGP    bool // learned via eBGP
	Src, NH [4]byte
	BGPID   uint32
	LP      uint32
	ASNs    []uint32
	Comms   []uint32
	Cluster []uint32
	Orig    uint32
	PathID  uint32 // identifier the path was learned with (add-path RX on the session it came from)
}

const (
	zvC08EbgpX = iota
	zvC08IbgpY
	zvC08Own
	zvC08NoExport
	zvC08NoAdv
	zvC08Static
)

// The four eBGP-learned paths (own on eBGP sessions, ebgpX, noadv, noexport) tie up to the router-id step and are
// ECMP-equal, ibgpY loses on AS_PATH length; BFS over all subsets makes every path the best / second best somewhere.
// The reference never ranks paths itself: it reads the order from the Loc-RIB.
func zvC08Descs(cfg zvC08Cfg) []zvC08Desc {
	ds := []zvC08Desc{
		{Name: "ebgpX", EBGP: true, Src: [4]byte{10, 1, 0, 1}, NH: [4]byte{10, 1, 0, 1}, BGPID: 0x0a010001, LP: 100, ASNs: []uint32{65101}},
		{Name: "ibgpY", EBGP: false, Src: [4]byte{10, 5, 0, 1}, NH: [4]byte{10, 5, 0, 9}, BGPID: 0x0a050001, LP: 100, ASNs: []uint32{65105, 65106}},
		{Name: "own", EBGP: !cfg.ibgp(), Src: zvC08PeerIP, NH: zvC08PeerIP, BGPID: 0x0a000002, LP: 100, ASNs: []uint32{65009}},
		{Name: "noexport", EBGP: true, Src: [4]byte{10, 3, 0, 1}, NH: [4]byte{10, 3, 0, 1}, BGPID: 0x0a030001, LP: 100, ASNs: []uint32{65103}, Comms: []uint32{types.WellKnownCommunityNoExport}},
		{Name: "noadv", EBGP: true, Src: [4]byte{10, 2, 0, 1}, NH: [4]byte{10, 2, 0, 1}, BGPID: 0x0a020001, LP: 100, ASNs: []uint32{65102}, Comms: []uint32{65000<<16 | 7, types.WellKnownCommunityNoAdvertise}},
		{Name: "static", Static: true, NH: [4]byte{10, 9, 0, 1}},
	}
	// two of the paths were learned over add-path sessions and carry the identifier they were received with
	// (what the session under test makes of it is its own business; the Loc-RIB withdraws them with it)
	ds[zvC08EbgpX].PathID, ds[zvC08NoExport].PathID = 3, 7
	if cfg.Reflected {
		ds[zvC08IbgpY].Cluster = []uint32{0x07070707}
		ds[zvC08IbgpY].Orig = 0x0a050005
	}
	return ds
}

func zvC08IP(b [4]byte) *bnet.IP { return bnet.IPv4FromOctets(b[0], b[1], b[2], b[3]).Ptr() }

func (d zvC08Desc) real() *route.Path {
	if d.Static {
		return &route.Path{Type: route.StaticPathType, StaticPath: &route.StaticPath{NextHop: zvC08IP(d.NH)}}
	}
	p := &route.Path{Type: route.BGPPathType, BGPPath: &route.BGPPath{
		BGPPathA: &route.BGPPathA{NextHop: zvC08IP(d.NH), Source: zvC08IP(d.Src), LocalPref: d.LP, BGPIdentifier: d.BGPID, EBGP: d.EBGP, OriginatorID: d.Orig},
		ASPath:   &types.ASPath{{Type: types.ASSequence, ASNs: append([]uint32{}, d.ASNs...)}},
	}}
	p.BGPPath.ASPathLen = uint16(len(d.ASNs))
	p.BGPPath.PathIdentifier = d.PathID
	if d.Comms != nil {
		c := types.Communities(append([]uint32{}, d.Comms...))
		p.BGPPath.Communities = &c
	}
	if d.Cluster != nil {
		c := types.ClusterList(append([]uint32{}, d.Cluster...))
		p.BGPPath.ClusterList = &c
	}
	return p
}

// zvC08Exp is what the reference expects of one exported path; *Any fields are
// attributes the statements leave open.
type zvC08Exp struct {
	From       string
	ASPath     string // flat rendering, "" = empty
	ASPathAny  bool
	NextHop    string
	NextHopAny bool
	LocalPref  uint32
	LPAny      bool
	MED        uint32
	Comms      string
	Cluster    string
	ClusterAny bool
	OrigRule   string // "eq" | "nonzero" | "any"
	Orig       uint32
}

func (e zvC08Exp) String() string {
	f := func(any bool, s string) string {
		if any {
			return "*"
		}
		return s
	}
	o := fmt.Sprint(e.Orig)
	if e.OrigRule != "eq" {
		o = e.OrigRule
	}
	return fmt.Sprintf("{from %s: AS_PATH %s NEXT_HOP %s LOCAL_PREF %s MED %d COMMUNITIES %s CLUSTER_LIST %s ORIGINATOR_ID %s}",
		e.From, f(e.ASPathAny, e.ASPath), f(e.NextHopAny, e.NextHop), f(e.LPAny, fmt.Sprint(e.LocalPref)), e.MED, e.Comms, f(e.ClusterAny, e.Cluster), o)
}

func zvC08None(s string) string { // "nil" and "[]" both mean: attribute absent
	if s == "nil" || s == "[]" {
		return ""
	}
	return s
}

func (e zvC08Exp) matches(v *zvoView) bool {
	if !v.BGP || !v.BGPA || v.Type != route.BGPPathType {
		return false
	}
	if !e.ASPathAny && v.ASFlat != e.ASPath {
		return false
	}
	if !e.NextHopAny && v.NextHop != e.NextHop {
		return false
	}
	if !e.LPAny && v.LocalPref != e.LocalPref {
		return false
	}
	if v.MED != e.MED || zvC08None(v.Comms) != e.Comms {
		return false
	}
	if !e.ClusterAny && zvC08None(v.Cluster) != e.Cluster {
		return false
	}
	switch e.OrigRule {
	case "eq":
		if v.Originator != e.Orig {
			return false
		}
	case "nonzero":
		if v.Originator == 0 {
			return false
		}
	}
	// attributes no path of the alphabet carries and no rule adds (peer roles are off)
	return v.Origin == 0 && v.OTC == 0 && !v.Atomic && v.Aggregator == "nil" && zvC08None(v.Unknown) == "" && zvC08None(v.LComms) == ""
}

func zvC08Has(xs []uint32, x uint32) bool {
	for _, y := range xs {
		if y == x {
			return true
		}
	}
	return false
}

// zvC08Export is the reference: is d advertised to a session of this kind, and
// with which attributes. why names the rule that blocks it.
func zvC08Export(cfg zvC08Cfg, pfx int, d zvC08Desc) (e zvC08Exp, exported bool, why string) {
	switch {
	case zvC08Has(d.Comms, types.WellKnownCommunityNoAdvertise):
		return e, false, "no_advertise"
	case !cfg.ibgp() && zvC08Has(d.Comms, types.WellKnownCommunityNoExport):
		return e, false, "no_export"
	case !d.Static && d.Src == zvC08PeerIP:
		return e, false, "own"
	case cfg.Kind == "ibgp" && !d.Static && !d.EBGP:
		return e, false, "ibgp_to_ibgp"
	case cfg.Policy == "reject_p1" && pfx == 0:
		return e, false, "policy"
	}
	flat := func(asns []uint32) string {
		if len(asns) == 0 {
			return ""
		}
		return fmt.Sprintf("t%d%s", types.ASSequence, zvoU32s(asns))
	}
	list := func(xs []uint32) string {
		if len(xs) == 0 {
			return ""
		}
		return zvoU32s(xs)
	}
	e = zvC08Exp{From: d.Name, ASPath: flat(d.ASNs), NextHop: zvoIP(zvC08IP(d.NH)), LocalPref: d.LP, Comms: list(d.Comms), Cluster: list(d.Cluster), OrigRule: "eq", Orig: d.Orig}
	if d.Static {
		// a redistributed route is originated here: empty AS_PATH; the statements say nothing about its
		// next hop and LOCAL_PREF, nor about what a route server does with it
		e.NextHopAny, e.LPAny = true, true
		e.ASPathAny = cfg.Kind == "rs"
	}
	if !cfg.ibgp() {
		e.LPAny = true // LOCAL_PREF is not sent to eBGP peers; the stored value is not demanded
		if cfg.Kind == "ebgp" {
			e.ASPath, e.ASPathAny = flat(append([]uint32{zvC08LocalASN}, d.ASNs...)), false
			e.NextHop, e.NextHopAny = zvoIP(zvC08IP(zvC08LocalIP)), false
		}
	}
	if cfg.Kind == "rr" && !d.Static {
		if d.EBGP {
			// not a reflected route: whether ORIGINATOR_ID / CLUSTER_LIST are attached is left open
			e.ClusterAny, e.OrigRule = true, "any"
		} else {
			e.Cluster = list(append([]uint32{zvC08ClusterID}, d.Cluster...))
			e.OrigRule = "nonzero"
		}
	}
	if cfg.Policy == "set_med" {
		e.MED = zvC08MED
	}
	if cfg.Policy == "prepend" && !e.ASPathAny {
		// the export policy runs after the session's own rewrites
		base := d.ASNs
		if d.Static {
			base = nil
		}
		if cfg.Kind == "ebgp" {
			base = append([]uint32{zvC08LocalASN}, base...)
		}
		e.ASPath = flat(append([]uint32{zvC08PrependASN}, base...))
	}
	return e, true, ""
}

func zvC08Chain(cfg zvC08Cfg) filter.Chain {
	switch cfg.Policy {
	case "reject_p1":
		return filter.Chain{filter.NewFilter("REJECT_P1", []*filter.Term{
			filter.NewTerm("p1", []*filter.TermCondition{filter.NewTermConditionWithRouteFilters(filter.NewRouteFilter(zvC08Pfxs[0], filter.NewExactMatcher()))},
				[]actions.Action{actions.NewRejectAction()}),
			filter.NewTerm("rest", nil, []actions.Action{actions.NewAcceptAction()}),
		})}
	case "prepend":
		return filter.Chain{filter.NewFilter("PREPEND", []*filter.Term{
			filter.NewTerm("all", nil, []actions.Action{actions.NewASPathPrependAction(zvC08PrependASN, 1), actions.NewAcceptAction()}),
		})}
	case "set_med":
		return filter.Chain{filter.NewFilter("SET_MED", []*filter.Term{
			filter.NewTerm("all", nil, []actions.Action{actions.NewSetMEDAction(zvC08MED), actions.NewAcceptAction()}),
		})}
	}
	return filter.NewAcceptAllFilterChain()
}

func zvC08Session(cfg zvC08Cfg) (routingtable.SessionAttrs, routingtable.ClientOptions) {
	sa := routingtable.SessionAttrs{
		RouterID:  0x0a000001,
		PeerIP:    zvC08IP(zvC08PeerIP),
		LocalIP:   zvC08IP(zvC08LocalIP),
		Type:      route.BGPPathType,
		LocalASN:  zvC08LocalASN,
		PeerASN:   65009,
		ClusterID: zvC08ClusterID,
	}
	switch cfg.Kind {
	case "ibgp":
		sa.IBGP, sa.PeerASN = true, zvC08LocalASN
	case "rr":
		sa.IBGP, sa.PeerASN, sa.RouteReflectorClient = true, zvC08LocalASN, true
	case "rs":
		sa.RouteServerClient = true
	}
	opts := routingtable.ClientOptions{BestOnly: true}
	if cfg.AddPath > 0 {
		opts = routingtable.ClientOptions{MaxPaths: uint(cfg.AddPath)}
	}
	sa.AddPathTX = !opts.BestOnly // as fsmAddressFamily.getSessionAttrs does
	return sa, opts
}

// zvC08Match finds a maximum matching between expected and observed paths and
// returns what stays unmatched on both sides.
func zvC08Match(exp []zvC08Exp, obs []*zvoView) (missing []zvC08Exp, extra []*zvoView) {
	best := -1
	var bestAssign []int
	assign := make([]int, len(exp))
	used := make([]bool, len(obs))
	var rec func(i, n int)
	rec = func(i, n int) {
		if i == len(exp) {
			if n > best {
				best = n
				bestAssign = append([]int{}, assign...)
			}
			return
		}
		assign[i] = -1
		rec(i+1, n)
		for j := range obs {
			if !used[j] && exp[i].matches(obs[j]) {
				used[j], assign[i] = true, j
				rec(i+1, n+1)
				used[j], assign[i] = false, -1
			}
		}
	}
	rec(0, 0)
	taken := make([]bool, len(obs))
	for i, j := range bestAssign {
		if j < 0 {
			missing = append(missing, exp[i])
		} else {
			taken[j] = true
		}
	}
	for j := range obs {
		if !taken[j] {
			extra = append(extra, obs[j])
		}
	}
	return
}

// zvC08Classify turns the unmatched expected / observed paths of one prefix into
// violation signatures that separate root causes:
//   - kind=stale, stale_rewrite=<how the left-over path was rewritten on export>: a correctly exported
//     rendering of a Loc-RIB path that is not (any more) selected;
//   - kind=attributes, attr=<first differing attribute>: the path of the right source with wrong attributes;
//   - kind=missing, blocked_path_newly_selected=<bool>: a selected, exportable path is absent; the flag tells
//     whether the last change moved a path the export rules block into the selected first n;
//   - kind=unknown_path: an observed path that is no rendering of any path of the alphabet.
func zvC08Classify(cfg zvC08Cfg, pfx int, descs []zvC08Desc, missing []zvC08Exp, extra []*zvoView, blockedNew bool) []map[string]string {
	var out []map[string]string
	paired := make([]bool, len(missing))
	srcOf := func(d zvC08Desc) string {
		if d.Static {
			return "0.0.0.0"
		}
		return zvoIP(zvC08IP(d.Src))
	}
	for _, v := range extra {
		sig := map[string]string(nil)
		// the right path with wrong attributes?
		for i, e := range missing {
			for _, d := range descs {
				if d.Name == e.From && !paired[i] && v.Source == srcOf(d) {
					paired[i] = true
					sig = vh.Sig("kind", "attributes", "attr", zvC08FirstDiff(e, v))
				}
			}
			if sig != nil {
				break
			}
		}
		// a correct rendering of a path that is not (any more) selected?
		for _, d := range descs {
			if sig != nil || v.Source != srcOf(d) {
				continue
			}
			free := cfg
			if free.Policy == "reject_p1" {
				free.Policy = "accept"
			}
			if e, exported, _ := zvC08Export(free, pfx, d); exported && e.matches(v) {
				rw := "unchanged"
				switch {
				case d.Static:
					rw = "redistributed"
				case cfg.Kind == "ebgp":
					rw = "prepend_nexthop_self"
				case cfg.Kind == "rr" && !d.EBGP:
					rw = "reflected"
				case cfg.Kind == "rr":
					rw = "rr_client_ebgp_learned"
				}
				sig = vh.Sig("kind", "stale", "stale_rewrite", rw)
			}
		}
		if sig == nil {
			sig = vh.Sig("kind", "unknown_path")
		}
		out = append(out, sig)
	}
	for i := range missing {
		if !paired[i] {
			out = append(out, vh.Sig("kind", "missing", "blocked_path_newly_selected", fmt.Sprint(blockedNew)))
			break
		}
	}
	return out
}

func zvC08FirstDiff(e zvC08Exp, v *zvoView) string {
	switch {
	case !v.BGP || !v.BGPA || v.Type != route.BGPPathType:
		return "path_type"
	case !e.ASPathAny && v.ASFlat != e.ASPath:
		return "as_path"
	case !e.NextHopAny && v.NextHop != e.NextHop:
		return "next_hop"
	case !e.LPAny && v.LocalPref != e.LocalPref:
		return "local_pref"
	case v.MED != e.MED:
		return "med"
	case zvC08None(v.Comms) != e.Comms:
		return "communities"
	case !e.ClusterAny && zvC08None(v.Cluster) != e.Cluster:
		return "cluster_list"
	case e.OrigRule == "eq" && v.Originator != e.Orig, e.OrigRule == "nonzero" && v.Originator == 0:
		return "originator_id"
	}
	return "other"
}

// zvC08Step replays hist on a fresh pipeline and evaluates the oracle on the reached state.
func zvC08Step(r *vh.Run, cfg zvC08Cfg, hist []zvC08Op) (string, []zvC08Op, bool) {
	zvoFresh()
	c := zvC08Case{cfg, hist}
	descs := zvC08Descs(cfg)
	paths := make([]*route.Path, len(descs))
	idx := map[*route.Path]int{}
	for i, d := range descs {
		paths[i] = d.real()
		idx[paths[i]] = i
	}
	// which of the harness's paths is this Loc-RIB path: by object identity, else (should a Loc-RIB ever copy
	// what it stores) by attributes, which are pairwise different
	which := func(lp *route.Path) int {
		if i, mine := idx[lp]; mine {
			return i
		}
		v := zvoViewOf(lp)
		for i, p := range paths {
			if zvoViewOf(p) == v {
				return i
			}
		}
		return -1
	}
	sa, opts := zvC08Session(cfg)
	rib := locRIB.New("inet.0")
	a := New(rib, sa, zvC08Chain(cfg))
	rec := &zvoRec{}
	a.Register(rec)
	rib.RegisterWithOptions(a, opts)

	var model [2][6]bool // what the history put into the Loc-RIB
	// what the peer holds: best-only sessions replace per prefix, add-path sessions per (prefix, identifier)
	peer := [2]map[uint32]*zvoView{{}, {}}
	pfxIdx := map[string]int{zvC08Pfxs[0].String(): 0, zvC08Pfxs[1].String(): 1}
	lastOp, lastWhy, oldWhy := "init", "-", "-"
	nSel := 1
	if cfg.AddPath > 0 {
		nSel = cfg.AddPath
	}
	selected := func(p int) map[int]bool {
		m := map[int]bool{}
		if lr := rib.Get(zvC08Pfxs[p]); lr != nil {
			for k, lp := range lr.Paths() {
				if k < nSel {
					m[which(lp)] = true
				}
			}
		}
		return m
	}
	var selBefore [2]map[int]bool
	var newlySelectedBlocked [2]bool
	for i, o := range hist {
		o := o
		if i == len(hist)-1 {
			selBefore = [2]map[int]bool{selected(0), selected(1)}
		}
		if p, what := vh.Try(func() {
			switch o.Kind {
			case "add":
				rib.AddPath(zvC08Pfxs[o.P], paths[o.X])
				model[o.P][o.X] = true
			case "remove":
				rib.RemovePath(zvC08Pfxs[o.P], paths[o.X])
				model[o.P][o.X] = false
			case "replace":
				rib.ReplacePath(zvC08Pfxs[o.P], paths[o.X], paths[o.Y])
				model[o.P][o.X], model[o.P][o.Y] = false, true
			}
		}); p {
			if i == len(hist)-1 {
				r.Violation(vh.Sig("clause", "panic", "op", o.Kind, "session", cfg.Kind, "addpath", fmt.Sprint(cfg.AddPath > 0), "path", descs[o.X].Name), c, "Loc-RIB %s panicked: %s", o.Kind, what)
			}
			return "panic:" + fmt.Sprint(hist), nil, false
		}
		for _, k := range rec.take() {
			p := pfxIdx[k.Pfx]
			id := uint32(0)
			if cfg.AddPath > 0 {
				id = k.V.PathID
			}
			v := k.V
			if k.Op == "add" {
				peer[p][id] = &v
			} else {
				delete(peer[p], id)
			}
		}
		if i == len(hist)-1 {
			lastOp = o.Kind
			x := o.X
			if o.Kind == "replace" {
				x = o.Y
				_, _, oldWhy = zvC08Export(cfg, o.P, descs[o.X])
				if oldWhy == "" {
					oldWhy = "exported"
				}
			}
			_, _, lastWhy = zvC08Export(cfg, o.P, descs[x])
			if lastWhy == "" {
				lastWhy = "exported"
			}
		}
	}

	// reference: export view of the first n paths of every Loc-RIB route
	n := nSel
	if len(hist) > 0 {
		for p := range zvC08Pfxs {
			for x := range selected(p) {
				if x < 0 {
					continue
				}
				if _, exported, why := zvC08Export(cfg, p, descs[x]); !selBefore[p][x] && !exported && why != "policy" {
					newlySelectedBlocked[p] = true
				}
			}
		}
	}
	ok := true
	var canon strings.Builder
	table := map[int][]*zvoView{}
	var tableOrder []string
	for _, rt := range a.Dump() {
		p, known := pfxIdx[rt.Prefix().String()]
		if !known {
			ok = false
			r.Violation(vh.Sig("clause", "table", "kind", "foreign_prefix"), c, "Adj-RIB-Out holds %s, which was never in the Loc-RIB", rt.Prefix())
			continue
		}
		for _, sp := range rt.Paths() {
			v := zvoViewOf(sp)
			table[p] = append(table[p], &v)
			tableOrder = append(tableOrder, fmt.Sprintf("%d:%s", p, v.zvoNoID()))
		}
	}
	for p := range zvC08Pfxs {
		var loc []int
		if lr := rib.Get(zvC08Pfxs[p]); lr != nil {
			for _, lp := range lr.Paths() {
				i := which(lp)
				if i < 0 {
					r.Count("pruned_locrib_diverged", 1)
					return "locrib-diverged:" + fmt.Sprint(hist), nil, false
				}
				loc = append(loc, i)
			}
		}
		fmt.Fprintf(&canon, "L%d%v;", p, loc)
		// the Loc-RIB itself is C04/C05's subject: if it does not hold what the history put in, stop here
		cnt := 0
		for x, in := range model[p] {
			if in {
				cnt++
				found := false
				for _, y := range loc {
					found = found || x == y
				}
				if !found {
					r.Count("pruned_locrib_diverged", 1)
					return "locrib-diverged:" + fmt.Sprint(hist), nil, false
				}
			}
		}
		if cnt != len(loc) {
			r.Count("pruned_locrib_diverged", 1)
			return "locrib-diverged:" + fmt.Sprint(hist), nil, false
		}
		sel := loc
		if len(sel) > n {
			sel = sel[:n]
		}
		var exp []zvC08Exp
		for _, x := range sel {
			e, exported, why := zvC08Export(cfg, p, descs[x])
			if !exported {
				r.Count("blocked_"+why, 1)
				continue
			}
			exp = append(exp, e)
			switch {
			case descs[x].Static:
				r.Count("exported_static", 1)
			case cfg.Kind == "ebgp":
				r.Count("exported_with_prepend_and_nexthop_self", 1)
			case cfg.Kind == "rr" && !descs[x].EBGP:
				r.Count("exported_reflected", 1)
			default:
				r.Count("exported_unchanged", 1)
			}
			if cfg.Policy == "set_med" {
				r.Count("exported_policy_med", 1)
			}
		}
		if len(exp) == 2 {
			r.Count("two_paths_exported_for_one_prefix", 1)
		}
		if len(loc) > n {
			r.Count("locrib_holds_more_than_selected", 1)
		}
		if len(exp) == 0 && len(loc) > 0 {
			r.Count("locrib_route_with_empty_export_view", 1)
		}
		var peerObs []*zvoView
		ids := make([]int, 0, len(peer[p]))
		for id := range peer[p] {
			ids = append(ids, int(id))
		}
		sort.Ints(ids)
		for _, id := range ids {
			peerObs = append(peerObs, peer[p][uint32(id)])
		}
		for _, side := range []struct {
			clause string
			obs    []*zvoView
		}{{"table", table[p]}, {"client", peerObs}} {
			missing, extra := zvC08Match(exp, side.obs)
			if len(missing) == 0 && len(extra) == 0 {
				continue
			}
			ok = false
			var es, os []string
			for _, e := range exp {
				es = append(es, e.String())
			}
			for _, v := range side.obs {
				os = append(os, v.String())
			}
			what := "Adj-RIB-Out table"
			if side.clause == "client" {
				what = "client of the Adj-RIB-Out (what the peer holds)"
			}
			for _, sig := range zvC08Classify(cfg, p, descs, missing, extra, newlySelectedBlocked[p]) {
				sig["clause"], sig["addpath"] = side.clause, fmt.Sprint(cfg.AddPath > 0)
				r.Violation(sig, c, "%s of a %s session, prefix %s, after %s: Loc-RIB paths %v (first %d selected)\n  expected: %s\n  observed: %s", what, cfg.Kind, zvC08Pfxs[p], lastOp, zvC08Names(descs, loc), n,
					strings.Join(es, "\n            "), strings.Join(os, "\n            "))
			}
		}
	}
	if !ok {
		return "violating:" + fmt.Sprint(hist), nil, false
	}
	if (lastOp == "remove" && lastWhy == "exported") || (lastOp == "replace" && oldWhy == "exported") {
		r.Count("withdrawal_of_an_exportable_path", 1)
	}

	// canonical state: Loc-RIB order (above), stored paths in table order, peer view, identifier manager (ranked, see C11)
	idset := map[uint32]bool{}
	for _, vs := range table {
		for _, v := range vs {
			idset[v.PathID] = true
		}
	}
	for p := range peer {
		for id := range peer[p] {
			idset[id] = true
		}
	}
	m := a.pathIDManager
	for id := range m.ids {
		idset[id] = true
	}
	for _, id := range m.idByPath {
		idset[id] = true
	}
	ids := make([]uint32, 0, len(idset))
	for id := range idset {
		ids = append(ids, id)
	}
	sort.Slice(ids, func(i, j int) bool { return ids[i] < ids[j] })
	rank := map[uint32]int{}
	for i, id := range ids {
		rank[id] = i
	}
	var parts []string
	for p, vs := range table {
		for i, v := range vs {
			parts = append(parts, fmt.Sprintf("T%d.%d=%s#%d", p, i, v.zvoNoID(), rank[v.PathID]))
		}
	}
	for p := range peer {
		for id, v := range peer[p] {
			parts = append(parts, fmt.Sprintf("V%d=%s#%d", p, v.zvoNoID(), rank[id]))
		}
	}
	for id, cnt := range m.ids {
		parts = append(parts, fmt.Sprintf("R%d=%d", rank[id], cnt))
	}
	for h, id := range m.idByPath {
		parts = append(parts, fmt.Sprintf("H%s=%d", h[:12], rank[id]))
	}
	sort.Strings(parts)
	fmt.Fprintf(&canon, "used=%d|%s", m.used, strings.Join(parts, ","))

	// enabled Loc-RIB changes
	var en []zvC08Op
	for p := range zvC08Pfxs {
		allowed := func(x int) bool {
			return !(cfg.Small && p == 1) || x == zvC08EbgpX || x == zvC08NoAdv || x == zvC08Static
		}
		nIn, staticIn := 0, model[p][zvC08Static]
		for _, in := range model[p] {
			if in {
				nIn++
			}
		}
		for x := range descs {
			if !allowed(x) {
				continue
			}
			if model[p][x] {
				en = append(en, zvC08Op{Kind: "remove", P: p, X: x})
				if cfg.Small && p == 1 {
					continue
				}
				for y := range descs {
					// a static and a BGP path never share a prefix (Path.ECMP dereferences a nil BGPPath: C02/C03)
					if !model[p][y] && ((y == zvC08Static) == (x == zvC08Static) || nIn == 1) {
						en = append(en, zvC08Op{Kind: "replace", P: p, X: x, Y: y})
					}
				}
				continue
			}
			// adding a path twice is not in the alphabet
			if nIn == 0 || (x != zvC08Static && !staticIn) {
				en = append(en, zvC08Op{Kind: "add", P: p, X: x})
			}
		}
	}
	return canon.String(), en, true
}

func zvC08Names(ds []zvC08Desc, xs []int) []string {
	out := make([]string, len(xs))
	for i, x := range xs {
		out[i] = ds[x].Name
	}
	return out
}

func zvC08Configs(thorough bool) []zvC08Cfg {
	var cs []zvC08Cfg
	aps := []int{2, 0} // add-path configurations are the expensive ones: first
	if thorough {
		aps = []int{3, 2, 0}
	}
	for _, ap := range aps {
		for _, k := range []string{"ebgp", "rr", "rs", "ibgp"} {
			for _, pol := range []string{"accept", "reject_p1", "set_med", "prepend"} {
				cs = append(cs, zvC08Cfg{Kind: k, AddPath: ap, Policy: pol, Small: !thorough})
				if k == "rr" {
					cs = append(cs, zvC08Cfg{Kind: k, AddPath: ap, Policy: pol, Reflected: true, Small: !thorough})
				}
			}
		}
	}
	return cs
}

var zvC08Required = []string{"blocked_no_advertise", "blocked_no_export", "blocked_own", "blocked_ibgp_to_ibgp", "blocked_policy",
	"exported_static", "exported_with_prepend_and_nexthop_self", "exported_reflected", "exported_unchanged", "exported_policy_med",
	"two_paths_exported_for_one_prefix", "locrib_holds_more_than_selected", "locrib_route_with_empty_export_view", "withdrawal_of_an_exportable_path"}

func TestVerifC08(t *testing.T) {
	r := vh.Start(t, "C08")
	defer r.Finish()
	zvoTune()
	r.Rule("per configuration (session kind ebgp|rs-client|ibgp|rr-client x add-path TX off|MaxPaths 2 (thorough: also 3) x export policy accept-all|reject P1|set MED|prepend an AS; rr-client also with an already reflected iBGP path), " +
		"BFS over all Loc-RIB histories of AddPath/RemovePath/ReplacePath of {eBGP-learned, iBGP-learned, learned from this peer, NO_EXPORT, NO_ADVERTISE, static} paths on 2 prefixes " +
		"(quick: the second prefix takes 3 of the 6 paths and no ReplacePath) until the canonical state (Loc-RIB order, stored paths, peer view, pathIDManager) set closes; " +
		"oracle on every reached state: Adj-RIB-Out table and the peer view of the recording client equal the reference export view; evaluations = configurations explored")
	r.Require(zvC08Required...)
	if r.IsReplay() {
		var c zvC08Case
		r.ReplayCase(&c)
		for n := 0; n <= len(c.Hist); n++ {
			zvC08Step(r, c.Cfg, c.Hist[:n])
		}
		for _, k := range zvC08Required {
			r.Count(k, 1)
		}
		return
	}
	cs := zvC08Configs(r.Thorough())
	r.Extra("configurations_total", len(cs))
	for i, cfg := range cs {
		if !r.Mine(i) {
			continue
		}
		if r.OutOfBudget() {
			r.Cap("time budget: not all configurations explored")
			break
		}
		cfg := cfg
		b := vh.BFS[zvC08Op]{R: r, MaxStates: 2000000, Label: cfg.String(), Step: func(h []zvC08Op) (string, []zvC08Op, bool) {
			return zvC08Step(r, cfg, h)
		}}
		st, tr, closed := b.Explore()
		r.Eval(1)
		r.Nontrivial(1)
		r.Outcome(fmt.Sprintf("%s:%d:%d:%v", cfg, st, tr, closed))
	}
}
