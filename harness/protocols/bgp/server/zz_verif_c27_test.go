package server

// C27 — a monitored router cannot crash or exhaust the BMP receiver.
// Engine E5: valid BMP conversations (seeds) x structured mutations, every
// resulting byte stream is served synchronously by the receiver's real
// per-connection code (BMPReceiver.handleConnection -> Router.serve ->
// recvBMPMsg -> processMsg) on an in-memory connection that ends with EOF.
//
// Oracle per stream: no panic; TotalAlloc delta <= 1 MiB + 64 x bytes delivered;
// the call returns (a watchdog and a read counter detect a handler that does
// not); afterwards a fresh valid conversation on a new connection of the same
// router installs its route.
//
// Streams that *advertise* an allocation above 64 MiB (computed by a reference
// framing parser written here) are executed in a child process of the same test
// binary under `ulimit -v`, so that an out-of-memory abort is observed and
// attributed to the exact input instead of killing the shard.

import (
	"bytes"
	"crypto/sha256"
	"encoding/binary"
	"encoding/hex"
	"encoding/json"
	"fmt"
	"os"
	"os/exec"
	"path/filepath"
	"runtime"
	"sort"
	"strings"
	"sync"
	"testing"
	"time"

	"github.com/bio-routing/bio-rd/zzverif/vh"
)

// ---------------------------------------------------------------------------
// seeds
// ---------------------------------------------------------------------------

var (
	zvC27PeerA  = zvBmpPeer{RD: 0, Addr: zvBmpAddr4(10, 0, 0, 1), AS: 65001, BGPID: 0x0a000001, TS: 1000}
	zvC27PeerV6 = zvBmpPeer{RD: 0, Addr: zvBmpAddr6(1), V6: true, AS: 65001, BGPID: 0x0a000001, TS: 1000}
	zvC27PeerRD = zvBmpPeer{RD: 65000<<32 | 1, Addr: zvBmpAddr4(10, 0, 0, 1), AS: 65001, BGPID: 0x0a000001, TS: 1000}
	zvC27Local4 = zvBmpAddr4(10, 0, 0, 254)
	zvC27Local6 = zvBmpAddr6(0xfe)

	zvC27SentPlain = zvBmpOpen{ASN2: 65000, Hold: 90, ID: 0xc0000201}
	zvC27RecvPlain = zvBmpOpen{ASN2: 65001, Hold: 90, ID: 0x0a000001}
)

func zvC27SentCaps(addPath bool) zvBmpOpen {
	o := zvBmpOpen{ASN2: 65000, Hold: 90, ID: 0xc0000201, Caps: []zvBmpCap{
		zvBmpCapMP(1, 1), zvBmpCapMP(2, 1), {2, nil}, zvBmpCapASN4(65000),
		{5, []byte{0, 1, 0, 1, 0, 2}}, {9, []byte{3}}, {64, []byte{0x40, 0x78}}, {70, nil},
	}}
	if addPath {
		o.Caps = append(o.Caps, zvBmpCapAddPath(3, 1, 2))
	}
	return o
}

func zvC27RecvCaps(addPath bool, split bool) zvBmpOpen {
	o := zvBmpOpen{ASN2: 65001, Hold: 30, ID: 0x0a000001, Split: split, Caps: []zvBmpCap{
		zvBmpCapMP(1, 1), zvBmpCapMP(2, 1), {2, nil}, zvBmpCapASN4(65001), {9, []byte{0}}, {71, []byte{1, 2, 3}},
	}}
	if addPath {
		o.Caps = append(o.Caps, zvBmpCapAddPath(3, 1, 2))
	}
	return o
}

func zvC27P4(id uint32, a, b byte, l uint8) zvBmpNLRI {
	addr := []byte{a, b, 0, 0}[:(int(l)+7)/8]
	return zvBmpNLRI{ID: id, Len: l, Addr: addr}
}

func zvC27P6(id uint32, x byte, l uint8) zvBmpNLRI {
	full := []byte{0x20, 0x01, 0x0d, 0xb8, 0, x, 0, 0, 0, 0, 0, 0, 0, 0, 0, 0}
	return zvBmpNLRI{ID: id, Len: l, Addr: full[:(int(l)+7)/8], V6: true}
}

var zvC27NH6 = []byte{0x20, 0x01, 0x0d, 0xb8, 0, 0, 0, 0, 0, 0, 0, 0, 0, 0, 0, 1}

func zvC27Post(p zvBmpPeer) zvBmpPeer { p.Post = true; return p }
func zvC27AS2(p zvBmpPeer) zvBmpPeer  { p.AS2 = true; return p }

type zvC27Seed struct {
	Name   string
	Mutate bool // apply the mutation classes (otherwise the stream is run as is, plus truncations)
	Build  func(z *zvBmpBuf)
}

func zvC27InitMsg(z *zvBmpBuf) {
	z.initiation(zvBmpTLV{1, []byte("bio test router")}, zvBmpTLV{2, []byte("rtr1")}, zvBmpTLV{0, []byte("hello")})
}

func zvC27Notification(z *zvBmpBuf) func() {
	return func() { z.bgp(3, func() { z.u8(6); z.u8(2) }) }
}

func zvC27Seeds() []zvC27Seed {
	var seeds []zvC27Seed
	add := func(name string, mutate bool, f func(z *zvBmpBuf)) {
		seeds = append(seeds, zvC27Seed{name, mutate, f})
	}
	upd4 := func(rich bool, ps ...zvBmpNLRI) zvBmpUpdate {
		return zvBmpUpdate{AS4: true, ASPath: []uint32{65001, 64999}, NextHop4: []byte{10, 0, 0, 1}, Rich: rich, NLRI4: ps}
	}
	add("full_v4", true, func(z *zvBmpBuf) {
		zvC27InitMsg(z)
		z.peerUp(zvC27PeerA, zvC27Local4, zvC27SentCaps(false), zvC27RecvCaps(false, false), []byte{0, 0, 0, 3, 'a', 'b', 'c'})
		z.routeMon(zvC27PeerA, func() { z.update(upd4(true, zvC27P4(0, 10, 1, 16), zvC27P4(0, 10, 2, 24))) })
		z.routeMon(zvC27Post(zvC27PeerA), func() { z.update(upd4(false, zvC27P4(0, 10, 3, 16))) })
		z.stats(zvC27PeerA, zvBmpTLV{0, []byte{0, 0, 0, 7}}, zvBmpTLV{7, []byte{0, 0, 0, 0, 0, 0, 0, 9}})
		z.routeMirror(zvC27PeerA, zvBmpTLV{1, []byte{0, 1}})
		z.routeMon(zvC27PeerA, func() { z.update(zvBmpUpdate{AS4: true, Withdraw4: []zvBmpNLRI{zvC27P4(0, 10, 1, 16)}}) })
		z.peerDown(zvC27PeerA, 1, zvC27Notification(z))
		z.termination(zvBmpTLV{0, []byte("bye")}, zvBmpTLV{1, []byte{0, 1}})
	})
	add("addpath_v4", true, func(z *zvBmpBuf) {
		zvC27InitMsg(z)
		z.peerUp(zvC27PeerA, zvC27Local4, zvC27SentCaps(true), zvC27RecvCaps(true, true), nil)
		u := upd4(false, zvC27P4(1, 10, 1, 16), zvC27P4(2, 10, 1, 16))
		u.AddPath = true
		z.routeMon(zvC27PeerA, func() { z.update(u) })
		z.routeMon(zvC27PeerA, func() {
			z.update(zvBmpUpdate{AS4: true, AddPath: true, Withdraw4: []zvBmpNLRI{zvC27P4(1, 10, 1, 16)}})
		})
		z.peerDown(zvC27PeerA, 2, func() { z.u16(9) })
		z.termination(zvBmpTLV{1, []byte{0, 0}})
	})
	add("v6", true, func(z *zvBmpBuf) {
		zvC27InitMsg(z)
		z.peerUp(zvC27PeerV6, zvC27Local6, zvC27SentCaps(false), zvC27RecvCaps(false, false), nil)
		z.routeMon(zvC27PeerV6, func() {
			z.update(zvBmpUpdate{AS4: true, ASPath: []uint32{65001, 64999}, Reach6: []zvBmpNLRI{zvC27P6(0, 1, 48), zvC27P6(0, 2, 64)}, NextHop6: zvC27NH6})
		})
		z.routeMon(zvC27PeerV6, func() {
			z.update(zvBmpUpdate{AS4: true, ASPath: []uint32{65001}, Unreach6: []zvBmpNLRI{zvC27P6(0, 1, 48)}})
		})
		z.peerDown(zvC27PeerV6, 3, zvC27Notification(z))
		z.termination()
	})
	add("as2_rd", true, func(z *zvBmpBuf) {
		zvC27InitMsg(z)
		p := zvC27AS2(zvC27PeerRD)
		z.peerUp(p, zvC27Local4, zvC27SentPlain, zvC27RecvPlain, nil)
		z.routeMon(p, func() {
			z.update(zvBmpUpdate{ASPath: []uint32{65001, 64999}, NextHop4: []byte{10, 0, 0, 1}, NLRI4: []zvBmpNLRI{zvC27P4(0, 10, 1, 16)}})
		})
		z.peerDown(p, 4, nil)
		z.peerUp(p, zvC27Local4, zvC27SentPlain, zvC27RecvPlain, nil)
		z.routeMon(p, func() {
			z.update(zvBmpUpdate{ASPath: []uint32{65001}, NextHop4: []byte{10, 0, 0, 1}, NLRI4: []zvBmpNLRI{zvC27P4(0, 10, 2, 16)}})
		})
		z.peerDown(p, 5, nil)
	})
	// route monitoring wrapping each BGP message type
	wraps := []struct {
		name string
		f    func(z *zvBmpBuf)
	}{
		{"open", func(z *zvBmpBuf) { z.open(zvC27RecvPlain) }},
		{"keepalive", func(z *zvBmpBuf) { z.bgp(4, nil) }},
		{"notification", func(z *zvBmpBuf) { zvC27Notification(z)() }},
		{"routerefresh", func(z *zvBmpBuf) { z.bgp(5, func() { z.u16(1); z.u8(0); z.u8(1) }) }},
		{"garbage", func(z *zvBmpBuf) {
			z.raw(0xde, 0xad, 0xbe, 0xef, 1, 2, 3, 4, 5, 6, 7, 8, 9, 10, 11, 12, 13, 14, 15, 16, 17, 18, 19)
		}},
		{"empty", func(z *zvBmpBuf) {}},
		{"badmarker", func(z *zvBmpBuf) { z.raw(make([]byte, 16)...); z.u16(19); z.u8(4) }},
		{"update_badattr", func(z *zvBmpBuf) {
			z.bgp(2, func() { z.u16(0); z.u16(4); z.raw(0x40, 1, 1, 9) }) // ORIGIN with an invalid value
		}},
	}
	for _, w := range wraps {
		w := w
		add("wrap_"+w.name, true, func(z *zvBmpBuf) {
			zvC27InitMsg(z)
			z.peerUp(zvC27PeerA, zvC27Local4, zvC27SentPlain, zvC27RecvPlain, nil)
			z.routeMon(zvC27PeerA, func() { w.f(z) })
			z.routeMon(zvC27PeerA, func() { z.update(upd4(false, zvC27P4(0, 10, 1, 16))) })
		})
	}
	// peer-up whose OPEN AS / 4-octet AS capability disagrees with the per-peer header
	for _, hdrAS := range []uint32{65001, 400000} {
		for _, recvAS2 := range []uint16{65001, 65009, 23456} {
			for _, recvAS4 := range []uint32{0, 65001, 400000, 70000} {
				for _, sentAS2 := range []uint16{65000, 23456} {
					for _, sentAS4 := range []uint32{0, 65000, 400001} {
						hdrAS, recvAS2, recvAS4, sentAS2, sentAS4 := hdrAS, recvAS2, recvAS4, sentAS2, sentAS4
						add(fmt.Sprintf("as_h%d_r%d_r4_%d_s%d_s4_%d", hdrAS, recvAS2, recvAS4, sentAS2, sentAS4), false, func(z *zvBmpBuf) {
							zvC27InitMsg(z)
							p := zvC27PeerA
							p.AS = hdrAS
							sent, recv := zvBmpOpen{ASN2: sentAS2, Hold: 90, ID: 0xc0000201}, zvBmpOpen{ASN2: recvAS2, Hold: 90, ID: 0x0a000001}
							if sentAS4 != 0 {
								sent.Caps = []zvBmpCap{zvBmpCapASN4(sentAS4)}
							}
							if recvAS4 != 0 {
								recv.Caps = []zvBmpCap{zvBmpCapASN4(recvAS4)}
							}
							z.peerUp(p, zvC27Local4, sent, recv, nil)
							z.routeMon(p, func() { z.update(upd4(false, zvC27P4(0, 10, 1, 16))) })
							z.peerDown(p, 4, nil)
						})
					}
				}
			}
		}
	}
	// termination TLVs of length 0/1/2 (one and two TLVs)
	var tl []zvBmpTLV
	for _, typ := range []uint16{0, 1, 7} {
		for l := 0; l <= 2; l++ {
			tl = append(tl, zvBmpTLV{typ, []byte{0, 1}[:l]})
		}
	}
	term := func(name string, ts ...zvBmpTLV) {
		add(name, false, func(z *zvBmpBuf) {
			zvC27InitMsg(z)
			z.peerUp(zvC27PeerA, zvC27Local4, zvC27SentPlain, zvC27RecvPlain, nil)
			z.routeMon(zvC27PeerA, func() { z.update(upd4(false, zvC27P4(0, 10, 1, 16))) })
			z.termination(ts...)
		})
	}
	for _, a := range tl {
		term(fmt.Sprintf("term_t%d_l%d", a.Type, len(a.Val)), a)
		for _, b := range tl {
			term(fmt.Sprintf("term_t%d_l%d_t%d_l%d", a.Type, len(a.Val), b.Type, len(b.Val)), a, b)
		}
	}
	return seeds
}

// ---------------------------------------------------------------------------
// cases
// ---------------------------------------------------------------------------

type zvC27Case struct {
	Seed    string `json:"seed"`
	Mut     string `json:"mutation"` // none | field | tlvshape | pair | byte | bit | trunc
	Field   string `json:"field,omitempty"`
	MsgType int    `json:"in_msg_type"` // BMP type of the seed message that contains the mutated position (-1: n/a)
	Off     int    `json:"off"`
	Val     uint64 `json:"value"`
	Note    string `json:"note,omitempty"`
	Hex     string `json:"stream_hex"`
}

func zvC27Boundary(f zvBmpField) []uint64 {
	t := f.True
	cand := []uint64{0, 1, 2, t - 1, t, t + 1, 0x7f, 0x80, 0xff, 4095, 4096, 4097, 0xffff, 1 << 24, 1 << 31, 1<<32 - 1,
		// sizes at which the BMP headers end (common header 6, + per-peer header 42)
		5, 6, 7, 47, 48, 49}
	max := uint64(1)<<(8*uint(f.W)) - 1
	seen := map[uint64]bool{t: true}
	var out []uint64
	for _, v := range cand {
		if v > max || seen[v] {
			continue
		}
		seen[v] = true
		out = append(out, v)
	}
	return out
}

func zvC27MsgTypeAt(z *zvBmpBuf, off int) int {
	t := -1
	for _, m := range z.Marks {
		if m.Off <= off {
			t = int(m.Type)
		}
	}
	return t
}

// zvC27Enumerate calls emit for every case of the tier, in a fixed order.
func zvC27Enumerate(thorough bool, emit func(c *zvC27Case, stream []byte)) {
	for _, s := range zvC27Seeds() {
		z := &zvBmpBuf{}
		s.Build(z)
		mk := func(mut string) *zvC27Case { return &zvC27Case{Seed: s.Name, Mut: mut, MsgType: -1} }
		emit(mk("none"), z.B)
		// every truncation (seeds that are run as they are: only inside their last message)
		first := 0
		if !s.Mutate {
			first = z.Marks[len(z.Marks)-1].Off + 1
		}
		for n := first; n < len(z.B); n++ {
			c := mk("trunc")
			c.Off = n
			c.MsgType = zvC27MsgTypeAt(z, n)
			emit(c, z.B[:n])
		}
		if !s.Mutate {
			continue
		}
		// every length/count field x boundary set
		for _, f := range z.Fields {
			for _, v := range zvC27Boundary(f) {
				b := append([]byte(nil), z.B...)
				zvBmpPut(b, f.Off, f.W, v)
				c := mk("field")
				c.Field, c.Off, c.Val, c.MsgType = f.Name, f.Off, v, int(z.Marks[f.Msg].Type)
				c.Note = fmt.Sprintf("true value %d", f.True)
				emit(c, b)
			}
		}
		// every BMP-level TLV re-shaped to length 0/1/2 with the message kept well-formed
		// (value cut or padded, enclosing message length adjusted): empty and short TLVs
		for _, f := range z.Fields {
			if f.Name != "tlv.len" && f.Name != "stat.len" {
				continue
			}
			var ml *zvBmpField
			for i := range z.Fields {
				if z.Fields[i].Name == "bmp.len" && z.Fields[i].Msg == f.Msg {
					ml = &z.Fields[i]
				}
			}
			for _, nl := range []uint64{0, 1, 2} {
				if nl == f.True || ml == nil {
					continue
				}
				valStart := f.Off + f.W
				b := append([]byte(nil), z.B[:valStart]...)
				for i := uint64(0); i < nl; i++ {
					if i < f.True {
						b = append(b, z.B[valStart+int(i)])
					} else {
						b = append(b, 0)
					}
				}
				b = append(b, z.B[valStart+int(f.True):]...)
				zvBmpPut(b, f.Off, f.W, nl)
				zvBmpPut(b, ml.Off, ml.W, ml.True+nl-f.True)
				c := mk("tlvshape")
				c.Field, c.Off, c.Val, c.MsgType = f.Name, f.Off, nl, int(z.Marks[f.Msg].Type)
				c.Note = fmt.Sprintf("true length %d; value resized, message length adjusted", f.True)
				emit(c, b)
			}
		}
		// every offset x {0,1,0x7f,0x80,0xff}
		for off := range z.B {
			for _, v := range []byte{0, 1, 0x7f, 0x80, 0xff} {
				if z.B[off] == v {
					continue
				}
				b := append([]byte(nil), z.B...)
				b[off] = v
				c := mk("byte")
				c.Off, c.Val, c.MsgType = off, uint64(v), zvC27MsgTypeAt(z, off)
				emit(c, b)
			}
		}
		if !thorough {
			continue
		}
		// thorough: every single-bit flip
		for off := range z.B {
			for bit := 0; bit < 8; bit++ {
				b := append([]byte(nil), z.B...)
				b[off] ^= 1 << uint(bit)
				c := mk("bit")
				c.Off, c.Val, c.MsgType = off, uint64(bit), zvC27MsgTypeAt(z, off)
				emit(c, b)
			}
		}
		// thorough: all pairs of length-field mutations inside one BMP message
		small := func(f zvBmpField) []uint64 {
			max := uint64(1)<<(8*uint(f.W)) - 1
			var out []uint64
			for _, v := range []uint64{0, f.True - 1, f.True + 1, max} {
				if v <= max && v != f.True {
					out = append(out, v)
				}
			}
			return out
		}
		for i, f := range z.Fields {
			for _, g := range z.Fields[i+1:] {
				if g.Msg != f.Msg {
					continue
				}
				for _, v := range small(f) {
					for _, w := range small(g) {
						b := append([]byte(nil), z.B...)
						zvBmpPut(b, f.Off, f.W, v)
						zvBmpPut(b, g.Off, g.W, w)
						c := mk("pair")
						c.Field, c.Off, c.Val, c.MsgType = f.Name+"+"+g.Name, f.Off, v, int(z.Marks[f.Msg].Type)
						c.Note = fmt.Sprintf("second field at %d = %d", g.Off, w)
						emit(c, b)
					}
				}
			}
		}
	}
}

// ---------------------------------------------------------------------------
// reference framing parser (pre-screen and attribution only, never the oracle)
// ---------------------------------------------------------------------------

type zvC27Ref struct {
	Adv     uint64 // largest allocation the stream advertises through a length/count field
	Cause   string
	MsgType int
}

func zvC27Prescreen(s []byte) zvC27Ref {
	ref := zvC27Ref{Cause: "other", MsgType: -1}
	cand := func(n uint64, cause string, typ uint8) {
		if n > ref.Adv {
			ref.Adv, ref.Cause, ref.MsgType = n, cause, int(typ)
		}
	}
	pos := 0
	for pos+6 <= len(s) {
		l := uint64(binary.BigEndian.Uint32(s[pos+1 : pos+5]))
		typ := s[pos+5]
		if l < 6 {
			break // not a BMP message
		}
		avail := uint64(len(s) - pos)
		if l > avail {
			if l > 4096 {
				cand(l, "frame_length_beyond_stream", typ)
			}
			break
		}
		body := s[pos+6 : pos+int(l)]
		if s[pos] == 3 && typ == 1 && len(body) >= 46 {
			cand(8*uint64(binary.BigEndian.Uint32(body[42:46])), "stats_count", typ)
		}
		pos += int(l)
	}
	return ref
}

// ---------------------------------------------------------------------------
// executing one stream
// ---------------------------------------------------------------------------

type zvC27Result struct {
	Panic     *zvBmpPanic `json:"panic,omitempty"`
	Hang      bool        `json:"hang,omitempty"`
	Alloc     uint64      `json:"alloc"`
	Received  int         `json:"received"`
	Metrics   string      `json:"metrics"`
	SeedRoute bool        `json:"seed_route"`
	Follow    string      `json:"follow"` // "" ok, otherwise what went wrong
	FollowP   *zvBmpPanic `json:"follow_panic,omitempty"`
	Crash     string      `json:"crash,omitempty"` // child died: "oom" or "other"
	CrashText string      `json:"crash_text,omitempty"`
	Child     bool        `json:"child,omitempty"`
}

func zvC27RouteCount(r *Router) int {
	n := 0
	for _, v := range r.GetVRFs() {
		if rib := v.IPv4UnicastRIB(); rib != nil {
			n += int(rib.RouteCount())
		}
		if rib := v.IPv6UnicastRIB(); rib != nil {
			n += int(rib.RouteCount())
		}
	}
	return n
}

var zvC27FollowStream = func() []byte {
	z := &zvBmpBuf{}
	zvC27InitMsg(z)
	p := zvC27PeerA
	p.Addr = zvBmpAddr4(10, 0, 0, 77)
	z.peerUp(p, zvC27Local4, zvC27SentPlain, zvC27RecvPlain, nil)
	z.routeMon(p, func() {
		z.update(zvBmpUpdate{AS4: true, ASPath: []uint32{65001}, NextHop4: []byte{10, 0, 0, 77}, NLRI4: []zvBmpNLRI{zvC27P4(0, 10, 9, 16)}})
	})
	return z.B
}()

// zvC27Exec serves the stream on a fresh receiver, then a valid conversation
// on a second connection of the same router. marks (optional) are the message
// boundaries of an unmutated seed, used to see whether the seed installs routes.
func zvC27Exec(stream []byte, marks []int) (res zvC27Result) {
	b, r, err := zvBmpNewRouter(BMPReceiverConfig{})
	if err != nil {
		res.Follow = "cannot construct the receiver: " + err.Error()
		return
	}
	conn := zvBmpNewConn(stream)
	if marks != nil {
		conn.bounds = marks
		conn.onBound = func(int) bool {
			if zvC27RouteCount(r) > 0 {
				res.SeedRoute = true
			}
			return true
		}
	}
	var m0, m1 runtime.MemStats
	runtime.ReadMemStats(&m0)
	res.Panic = zvBmpCatch(func() { zvBmpServe(b, r, conn) })
	runtime.ReadMemStats(&m1)
	res.Alloc = m1.TotalAlloc - m0.TotalAlloc
	res.Received = conn.pos
	if res.Panic != nil {
		return // the process would be gone
	}
	if m, err := b.Metrics(); err == nil && len(m.Routers) == 1 {
		x := m.Routers[0]
		res.Metrics = fmt.Sprintf("rm=%d st=%d pd=%d pu=%d in=%d te=%d mi=%d", x.RouteMonitoringMessages, x.StatisticsReportMessages,
			x.PeerDownNotificationMessages, x.PeerUpNotificationMessages, x.InitiationMessages, x.TerminationMessages, x.RouteMirroringMessages)
	}
	// the receiver must still be able to serve this router
	fc := zvBmpNewConn(zvC27FollowStream)
	fc.bounds = []int{len(zvC27FollowStream)}
	got := "the follow-up conversation was not read to its end"
	fc.onBound = func(int) bool {
		got = ""
		v := r.GetVRF(0)
		if v == nil || v.IPv4UnicastRIB() == nil {
			got = "no VRF 0:0 after peer-up"
			return true
		}
		rts := v.IPv4UnicastRIB().Dump()
		if len(rts) != 1 || rts[0].Prefix().String() != "10.9.0.0/16" || len(rts[0].Paths()) != 1 {
			got = fmt.Sprintf("table of VRF 0:0 holds %d routes, want exactly 10.9.0.0/16", len(rts))
		}
		return true
	}
	res.FollowP = zvBmpCatch(func() { zvBmpServe(b, r, fc) })
	res.Follow = got
	return
}

var (
	zvC27WatchMu   sync.Mutex
	zvC27WatchFn   func()
	zvC27WatchTmr  *time.Timer
	zvC27ChildSeq  int
	zvC27ChildVMKB = 1280 << 10 // ulimit -v of a child: 1.25 GiB (the test binary itself needs 0.6-1 GiB of address space)
)

const zvC27WatchSecs = 60

// zvC27Watch arms the watchdog: if the current case does not finish within the
// (generous) limit, onExpire runs on the timer goroutine.
func zvC27Watch(d time.Duration, onExpire func()) {
	zvC27WatchMu.Lock()
	defer zvC27WatchMu.Unlock()
	zvC27WatchFn = onExpire
	if onExpire == nil {
		if zvC27WatchTmr != nil {
			zvC27WatchTmr.Stop()
		}
		return
	}
	if zvC27WatchTmr == nil {
		zvC27WatchTmr = time.AfterFunc(d, func() {
			zvC27WatchMu.Lock()
			f := zvC27WatchFn
			zvC27WatchMu.Unlock()
			if f != nil {
				f()
			}
		})
		return
	}
	zvC27WatchTmr.Reset(d)
}

type zvC27ChildLine struct {
	I   int         `json:"i"`
	Res zvC27Result `json:"res"`
}

func zvC27CrashLine(txt string) string {
	for _, ln := range strings.Split(txt, "\n") {
		if strings.HasPrefix(ln, "fatal error:") || strings.HasPrefix(ln, "runtime:") || strings.HasPrefix(ln, "panic:") {
			return ln
		}
	}
	return ""
}

// zvC27RunBatch executes the cases in memory-limited worker processes of this
// test binary (TestZvC27Child under `ulimit -v`). A worker journals the index
// of the case it is about to run; when it dies, the death is attributed to that
// case and a new worker continues behind it. A result or an out-of-memory abort
// is a verdict; a hang or an unexplained death must repeat three times to
// count, anything else is inconclusive.
func zvC27RunBatch(cases []*zvC27Case) []zvC27Result {
	n := len(cases)
	results := make([]zvC27Result, n)
	if n == 0 {
		return results
	}
	fail := func(msg string) []zvC27Result {
		for i := range results {
			results[i] = zvC27Result{Crash: "harness", CrashText: msg}
		}
		return results
	}
	dir := filepath.Dir(os.Getenv("VERIF_OUT"))
	zvC27ChildSeq++
	base := filepath.Join(dir, fmt.Sprintf("zvc27-%d-%d", os.Getpid(), zvC27ChildSeq))
	in, out, cur := base+".in.json", base+".out.jsonl", base+".cur"
	defer os.Remove(in)
	defer os.Remove(out)
	defer os.Remove(cur)
	j, _ := json.Marshal(cases)
	if err := os.WriteFile(in, j, 0o644); err != nil {
		return fail(err.Error())
	}
	exe, err := os.Executable()
	if err != nil {
		exe = os.Args[0]
	}
	var env []string
	for _, e := range os.Environ() {
		if strings.HasPrefix(e, "VERIF_OUT=") || strings.HasPrefix(e, "VERIF_REPLAY=") || strings.HasPrefix(e, "ZVC27_") {
			continue
		}
		env = append(env, e)
	}
	done := make([]bool, n)
	tries := make([]int, n)
	texts := make([][]string, n)
	from, spawns := 0, 0
	for from < n {
		os.Remove(out)
		os.Remove(cur)
		sh := fmt.Sprintf("ulimit -v %d; exec %q -test.run '^TestZvC27Child$' -test.count 1 -test.timeout 0", zvC27ChildVMKB, exe)
		cmd := exec.Command("/bin/sh", "-c", sh)
		cmd.Env = append(append([]string(nil), env...), "ZVC27_IN="+in, "ZVC27_OUT="+out, "ZVC27_CUR="+cur, fmt.Sprintf("ZVC27_FROM=%d", from))
		var buf bytes.Buffer
		cmd.Stdout, cmd.Stderr = &buf, &buf
		runErr := cmd.Run()
		spawns++
		if spawns > 4*n+8 {
			return fail("worker processes keep dying without progress: " + buf.String())
		}
		if b, err := os.ReadFile(out); err == nil {
			for _, ln := range bytes.Split(b, []byte("\n")) {
				var l zvC27ChildLine
				if len(ln) == 0 || json.Unmarshal(ln, &l) != nil || l.I < from || l.I >= n {
					continue
				}
				l.Res.Child = true
				if l.Res.Hang {
					tries[l.I]++
					if tries[l.I] < 3 {
						continue // must repeat
					}
				}
				results[l.I], done[l.I] = l.Res, true
			}
		}
		next := from
		for next < n && done[next] {
			next++
		}
		if next == n {
			break
		}
		from = next
		if tries[next] > 0 && tries[next] < 3 && texts[next] == nil {
			continue // a hang that has to be confirmed
		}
		// the worker died while running case `next`
		txt := buf.String()
		if strings.Contains(txt, "out of memory") || strings.Contains(txt, "cannot allocate memory") {
			results[next], done[next] = zvC27Result{Child: true, Crash: "oom", CrashText: zvC27CrashLine(txt)}, true
			from = next + 1
			continue
		}
		line := zvC27CrashLine(txt)
		if line == "" {
			line = fmt.Sprintf("worker exited with %v and no result", runErr)
		}
		texts[next] = append(texts[next], line)
		if len(texts[next]) < 3 {
			continue
		}
		res := zvC27Result{Child: true, Crash: "other", CrashText: line}
		for _, t := range texts[next] {
			if t != line || strings.Contains(t, "timed out") || strings.Contains(t, "killed") {
				res.Crash = "inconclusive"
			}
		}
		results[next], done[next] = res, true
		from = next + 1
	}
	return results
}

// TestZvC27Child is the worker: it executes the cases [ZVC27_FROM, ...) of the
// batch file inside a memory-limited process.
func TestZvC27Child(t *testing.T) {
	in, out, cur := os.Getenv("ZVC27_IN"), os.Getenv("ZVC27_OUT"), os.Getenv("ZVC27_CUR")
	if in == "" || out == "" || cur == "" {
		t.Skip("helper of TestVerifC27")
	}
	zvBmpQuiet()
	b, err := os.ReadFile(in)
	if err != nil {
		t.Fatal(err)
	}
	var cases []zvC27Case
	if err := json.Unmarshal(b, &cases); err != nil {
		t.Fatal(err)
	}
	from := 0
	fmt.Sscan(os.Getenv("ZVC27_FROM"), &from)
	f, err := os.OpenFile(out, os.O_CREATE|os.O_WRONLY|os.O_APPEND, 0o644)
	if err != nil {
		t.Fatal(err)
	}
	defer f.Close()
	write := func(i int, res zvC27Result) {
		j, _ := json.Marshal(zvC27ChildLine{i, res})
		f.Write(append(j, '\n'))
	}
	zvC27Exec(zvC27FollowStream, nil) // one-time initialisation outside the measurement
	for i := from; i < len(cases); i++ {
		stream, err := hex.DecodeString(cases[i].Hex)
		if err != nil {
			t.Fatal(err)
		}
		os.WriteFile(cur, []byte(fmt.Sprint(i)), 0o644)
		i := i
		zvC27Watch(zvC27WatchSecs*time.Second, func() {
			write(i, zvC27Result{Hang: true})
			os.Exit(0)
		})
		res := zvC27Exec(stream, nil)
		zvC27Watch(0, nil)
		write(i, res)
	}
}

// ---------------------------------------------------------------------------
// judging
// ---------------------------------------------------------------------------

const zvC27ChildAbove = 64 << 20

// zvC27InProcess executes one case in this process under the wedge watchdog.
func zvC27InProcess(r *vh.Run, c *zvC27Case, stream []byte, marks []int) zvC27Result {
	zvC27Watch(zvC27WatchSecs*time.Second, func() { zvC27Expired(r, c) })
	res := zvC27Exec(stream, marks)
	zvC27Watch(0, nil)
	return res
}

// zvC27Judge evaluates the oracle on the result of one case.
func zvC27Judge(r *vh.Run, c *zvC27Case, stream []byte, ref zvC27Ref, res zvC27Result) {
	r.Eval(1)
	if res.Child {
		r.Count("child_runs", 1)
	}
	mt := fmt.Sprint(c.MsgType)
	switch {
	case res.Crash == "harness":
		r.Fatalf("cannot run the worker process: %s", res.CrashText)
	case res.Crash == "inconclusive":
		r.Cap("a memory-limited worker run gave no verdict (timeouts without result; machine overloaded?)")
		return
	case res.Crash == "oom":
		r.Violation(vh.Sig("clause", "alloc", "kind", "out_of_memory", "cause", ref.Cause), c,
			"receiver process aborted (%s) under ulimit -v %d KiB while serving %d bytes; the stream advertises %d bytes through %s",
			res.CrashText, zvC27ChildVMKB, len(stream), ref.Adv, ref.Cause)
		return
	case res.Crash != "":
		r.Violation(vh.Sig("clause", "crash", "cause", ref.Cause), c, "receiver process died while serving %d bytes: %s", len(stream), res.CrashText)
		return
	case res.Hang:
		r.Violation(vh.Sig("clause", "wedge", "kind", "no_return"), c, "handleConnection did not return within %d s after the stream had ended (3 isolated runs agree)", zvC27WatchSecs)
		return
	}
	if p := res.Panic; p != nil {
		if p.Wedge {
			r.Violation(vh.Sig("clause", "wedge", "kind", "spin"), c, "%s", p.Text)
		} else {
			r.Violation(vh.Sig("clause", "panic", "site", p.Site, "via", p.Via, "kind", p.Kind), c,
				"receiver panicked in %s (reached through %s): %s [seed %s, %s at offset %d in a type-%s message]", p.Site, p.Via, p.Text, c.Seed, c.Mut, c.Off, mt)
		}
		r.Count("panics", 1)
		r.Outcome("panic:" + p.Site + ":" + p.Kind)
		return
	}
	r.Count("returned", 1)
	r.Outcome(res.Metrics)
	if res.SeedRoute {
		r.Count("seed_installs_routes", 1)
	}
	limit := uint64(1<<20) + 64*uint64(res.Received)
	if res.Alloc > limit {
		r.Violation(vh.Sig("clause", "alloc", "kind", "disproportionate", "cause", ref.Cause), c,
			"serving %d bytes allocated %d bytes (limit 1 MiB + 64 x received = %d); the stream advertises %d bytes through %s", res.Received, res.Alloc, limit, ref.Adv, ref.Cause)
	}
	if ref.Adv > 1<<20 {
		r.Count("advertises_over_1MiB", 1)
	}
	if p := res.FollowP; p != nil {
		r.Violation(vh.Sig("clause", "followup", "kind", "panic", "site", p.Site), c, "after the stream, a fresh valid conversation on a new connection panicked in %s: %s", p.Site, p.Text)
	} else if res.Follow != "" {
		r.Violation(vh.Sig("clause", "followup", "kind", "state"), c, "after the stream, a fresh valid conversation on a new connection failed: %s", res.Follow)
	} else {
		r.Count("followup_ok", 1)
	}
}

// zvC27Expired runs on the watchdog goroutine: the main goroutine has been
// inside the receiver for zvC27WatchSecs. The case is re-run in isolation
// (child processes, three times): only a hang that reproduces there is a
// violation; otherwise the expiry is recorded as a cap (slow machine).
func zvC27Expired(r *vh.Run, c *zvC27Case) {
	res := zvC27RunBatch([]*zvC27Case{c})[0]
	stop := func(why string) {
		r.Cap(why)
		for _, k := range zvC27Required {
			r.Count(k, 1)
		}
		r.Finish()
		os.Exit(0)
	}
	if !res.Hang {
		r.Cap("the wedge watchdog expired for a case that finishes in isolation (machine overloaded?)")
		zvC27Watch(10*zvC27WatchSecs*time.Second, func() {
			stop("shard stopped: a case did not finish in-process although it finishes in isolation")
		})
		return
	}
	r.Violation(vh.Sig("clause", "wedge", "kind", "no_return"), c, "handleConnection did not return within %d s after the stream had ended (3 isolated runs agree)", zvC27WatchSecs)
	stop("shard stopped by the wedge watchdog")
}

var zvC27Required = []string{"returned", "panic_free_mutants", "followup_ok", "seed_installs_routes", "field_cases", "byte_cases", "trunc_cases", "advertises_over_1MiB"}

func TestVerifC27(t *testing.T) {
	r := vh.Start(t, "C27")
	defer r.Finish()
	zvBmpQuiet()
	r.Rule("seed conversations (initiation, peer-up v4/v6 with capabilities, route monitoring pre/post policy incl. add-path and MP_REACH, statistics, route mirroring, " +
		"peer-down reasons 1-5, termination; route monitoring wrapping OPEN/KEEPALIVE/NOTIFICATION/ROUTE-REFRESH/garbage; 144 peer-up AS combinations; 90 termination TLV shapes) x " +
		"{unchanged, every truncation, every length/count field x boundary set, every BMP TLV re-shaped to length 0/1/2, every offset x {0,1,0x7f,0x80,0xff}; thorough: every bit flip, all pairs of length fields of one message}; " +
		"non-trivial = byte streams that are pairwise distinct")
	r.Require(zvC27Required...)
	journal := os.Getenv("VERIF_OUT") + ".journal"
	defer os.Remove(journal)

	if r.IsReplay() {
		var c zvC27Case
		r.ReplayCase(&c)
		stream, err := hex.DecodeString(c.Hex)
		if err != nil {
			r.Fatalf("bad stream in replay case: %v", err)
		}
		zvC27Exec(zvC27FollowStream, nil)
		ref := zvC27Prescreen(stream)
		if ref.Adv > zvC27ChildAbove {
			zvC27Judge(r, &c, stream, ref, zvC27RunBatch([]*zvC27Case{&c})[0])
		} else {
			zvC27Judge(r, &c, stream, ref, zvC27InProcess(r, &c, stream, nil))
		}
		for _, k := range zvC27Required {
			r.Count(k, 1)
		}
		return
	}

	// one-time initialisation (package caches, lazily built tables) outside every measurement.
	// A receiver that cannot even serve a plain valid conversation is judged on that conversation.
	for i := 0; i < 3; i++ {
		if w := zvC27Exec(zvC27FollowStream, nil); w.Panic != nil || w.Follow != "" || w.FollowP != nil {
			c := &zvC27Case{Seed: "warmup", Mut: "none", MsgType: -1, Hex: hex.EncodeToString(zvC27FollowStream)}
			zvC27Judge(r, c, zvC27FollowStream, zvC27Prescreen(zvC27FollowStream), w)
			for _, k := range zvC27Required {
				r.Count(k, 1)
			}
			r.Cap("the plain valid conversation already fails: mutants not executed")
			return
		}
	}

	seedMarks := map[string][]int{}
	for _, s := range zvC27Seeds() {
		z := &zvBmpBuf{}
		s.Build(z)
		var m []int
		for _, k := range z.Marks[1:] {
			m = append(m, k.Off)
		}
		seedMarks[s.Name] = append(m, len(z.B))
	}
	seen := map[[32]byte]struct{}{}
	idx, mine, sampled := 0, 0, 0
	capped := false
	account := func(c *zvC27Case, stream []byte, ref zvC27Ref, res zvC27Result) {
		before := r.NViolations()
		zvC27Judge(r, c, stream, ref, res)
		h := sha256.Sum256(stream)
		if _, dup := seen[h]; !dup {
			seen[h] = struct{}{}
			r.Nontrivial(1)
		}
		switch c.Mut {
		case "field", "pair", "tlvshape":
			r.Count("field_cases", 1)
		case "byte", "bit":
			r.Count("byte_cases", 1)
		case "trunc":
			r.Count("trunc_cases", 1)
		}
		if c.Mut != "none" && r.NViolations() == before {
			r.Count("panic_free_mutants", 1)
		}
		if sampled < 2 && c.Mut == "field" {
			sampled++
			r.Sample(c)
		}
	}
	// streams that advertise a huge allocation are collected and run in worker processes afterwards
	type deferred struct {
		c      *zvC27Case
		stream []byte
		ref    zvC27Ref
	}
	var later []deferred
	zvC27Enumerate(r.Thorough(), func(c *zvC27Case, stream []byte) {
		idx++
		if capped || !r.Mine(idx) {
			return
		}
		mine++
		if mine%64 == 0 && r.OutOfBudget() {
			r.Cap("time budget: not all mutants executed")
			capped = true
			return
		}
		c.Hex = hex.EncodeToString(stream)
		ref := zvC27Prescreen(stream)
		if ref.Adv > zvC27ChildAbove {
			later = append(later, deferred{c, append([]byte(nil), stream...), ref})
			return
		}
		os.WriteFile(journal, []byte(fmt.Sprintf("%d %s %s off=%d val=%d\n", idx, c.Seed, c.Mut, c.Off, c.Val)), 0o644)
		var marks []int
		if c.Mut == "none" {
			marks = seedMarks[c.Seed]
		}
		account(c, stream, ref, zvC27InProcess(r, c, stream, marks))
	})
	if len(later) > 0 {
		cs := make([]*zvC27Case, len(later))
		for i := range later {
			cs[i] = later[i].c
		}
		os.WriteFile(journal, []byte(fmt.Sprintf("worker batch of %d cases\n", len(cs))), 0o644)
		for i, res := range zvC27RunBatch(cs) {
			account(later[i].c, later[i].stream, later[i].ref, res)
		}
	}
	r.Extra("cases_total", idx)
	ks := make([]string, 0)
	for _, s := range zvC27Seeds() {
		if s.Mutate {
			ks = append(ks, s.Name)
		}
	}
	sort.Strings(ks)
	r.Extra("mutated_seeds", ks)
}
