package packet

// C16 — BGP message decoding is total and bounded.
// Engine E5 (bounded-exhaustive input enumeration): a set of valid seed messages
// (built with the repo's own encoders and by hand, covering every message type,
// every capability and every path attribute type) is put through an explicitly
// enumerated mutation space; every mutated input is decoded by packet.Decode
// under all 16 DecodeOptions combinations. Oracle per decode: it returns (a
// message or an error), it does not panic, and the bytes it allocates
// (runtime.MemStats.TotalAlloc delta) stay below zvC16Bound(len(input)).
//
// Mutation space (all of it, no sampling):
//   byte   seed x every offset x every other byte value
//   trunc  seed cut at every length, header length kept / corrected
//   field  every length/count/selector field (found by an independent walker) x
//          boundary value set x padding variant (none, or filled up to the 4096 byte
//          read buffer with 00 / ff / a repetition of the seed body, header length
//          set accordingly)
//   grow   seed followed by trailing bytes up to the 4096 byte read buffer
//   tiny   every body of 0, 1 or 2 bytes after a header of every type (header length real / type minimum / 4096)
//   pair   (thorough) every pair of fields x reduced boundary set^2 x 2 paddings
//   tiny3  (thorough) every 3 byte body after an UPDATE header announcing the minimum UPDATE length

import (
	"bytes"
	"encoding/hex"
	"fmt"
	"os"
	"runtime"
	"runtime/debug"
	"sort"
	"strings"
	"testing"
	"time"

	bnet "github.com/bio-routing/bio-rd/net"
	"github.com/bio-routing/bio-rd/protocols/bgp/types"
	"github.com/bio-routing/bio-rd/zzverif/vh"
)

// zvC16Bound is the allocation bound for one Decode call on an input of n bytes
// (DESIGN.md C16): a constant for the fixed structures, error texts and the like,
// plus 64 bytes per input byte (an NLRI of one input byte becomes a 48-byte NLRI
// struct; nothing may be sized by a declared length alone).
func zvC16Bound(n int) uint64 { return 64<<10 + 64*uint64(n) }

func zvC16Opts() []DecodeOptions {
	var o []DecodeOptions
	for i := 0; i < 16; i++ {
		o = append(o, DecodeOptions{AddPathIPv4Unicast: i&1 != 0, AddPathIPv6Unicast: i&2 != 0, Use32BitASN: i&4 != 0, ExtendedNextHop: i&8 != 0})
	}
	return o
}

func zvC16OptString(o DecodeOptions) string {
	return fmt.Sprintf("addpath4=%v addpath6=%v asn4=%v extnh=%v", o.AddPathIPv4Unicast, o.AddPathIPv6Unicast, o.Use32BitASN, o.ExtendedNextHop)
}

type zvC16Res struct {
	msg      *BGPMessage
	err      error
	panicked bool
	what     string
	where    string
}

// zvC16PanicSite extracts the innermost repo function from a stack dump taken
// inside the deferred recover.
func zvC16PanicSite(stack []byte) string {
	lines := strings.Split(string(stack), "\n")
	seenPanic := false
	for _, l := range lines {
		if strings.HasPrefix(l, "panic(") {
			seenPanic = true
			continue
		}
		if !seenPanic || strings.HasPrefix(l, "\t") {
			continue
		}
		if strings.Contains(l, "bio-rd/") && !strings.Contains(l, "zvC16") && !strings.Contains(l, "zzverif") {
			if i := strings.LastIndex(l, "("); i > 0 {
				l = l[:i]
			}
			if i := strings.LastIndex(l, "/"); i >= 0 {
				l = l[i+1:]
			}
			return l
		}
	}
	return "unknown"
}

func zvC16Norm(s string) string {
	var b strings.Builder
	prevDigit := false
	for i := 0; i < len(s); i++ {
		c := s[i]
		if c >= '0' && c <= '9' {
			if !prevDigit {
				b.WriteByte('N')
			}
			prevDigit = true
			continue
		}
		prevDigit = false
		b.WriteByte(c)
	}
	return b.String()
}

func zvC16Decode(in []byte, opt *DecodeOptions) (res zvC16Res) {
	defer func() {
		if e := recover(); e != nil {
			res.panicked = true
			res.what = fmt.Sprint(e)
			res.where = zvC16PanicSite(debug.Stack())
		}
	}()
	res.msg, res.err = Decode(bytes.NewBuffer(in), opt)
	return
}

// ---------------------------------------------------------------------------
// seeds

type zvC16Field struct {
	Off, W int
	Kind   string
}

type zvC16Seed struct {
	Name   string
	B      []byte
	Opt    DecodeOptions // options under which the seed is a valid message
	Fields []zvC16Field
}

func zvC16Hdr(typ byte, body []byte) []byte {
	b := bytes.Repeat([]byte{0xff}, 16)
	l := 19 + len(body)
	b = append(b, byte(l>>8), byte(l), typ)
	return append(b, body...)
}

func zvC16TLV(code byte, val ...byte) []byte {
	return append([]byte{code, byte(len(val))}, val...)
}

func zvC16Cat(parts ...[]byte) []byte {
	var b []byte
	for _, p := range parts {
		b = append(b, p...)
	}
	return b
}

// attribute with 1-byte or (ext) 2-byte length
func zvC16Attr(flags, typ byte, val []byte) []byte {
	if flags&0x10 != 0 {
		return zvC16Cat([]byte{flags, typ, byte(len(val) >> 8), byte(len(val))}, val)
	}
	return zvC16Cat([]byte{flags, typ, byte(len(val))}, val)
}

func zvC16Update(withdrawn, attrs, nlri []byte) []byte {
	body := zvC16Cat([]byte{byte(len(withdrawn) >> 8), byte(len(withdrawn))}, withdrawn, []byte{byte(len(attrs) >> 8), byte(len(attrs))}, attrs, nlri)
	return zvC16Hdr(2, body)
}

func zvC16Chain(pas ...*PathAttribute) *PathAttribute {
	for i := 0; i+1 < len(pas); i++ {
		pas[i].Next = pas[i+1]
	}
	return pas[0]
}

func zvC16NLRIs(pfxs ...bnet.Prefix) *NLRI {
	var first, last *NLRI
	for i := range pfxs {
		n := &NLRI{PathIdentifier: uint32(0x01020300 + i), Prefix: pfxs[i].Ptr()}
		if first == nil {
			first = n
		} else {
			last.Next = n
		}
		last = n
	}
	return first
}

func zvC16V4(a, b, c, d, l uint8) bnet.Prefix { return bnet.NewPfx(bnet.IPv4FromOctets(a, b, c, d), l) }
func zvC16V6(b1, b2, b3, b4 uint16, l uint8) bnet.Prefix {
	return bnet.NewPfx(bnet.IPv6FromBlocks(b1, b2, b3, b4, 0, 0, 0, 0), l)
}

func zvC16Seeds(r *vh.Run) []zvC16Seed {
	var seeds []zvC16Seed
	skipped := 0
	add := func(name string, b []byte, o DecodeOptions) {
		if len(b) < 19 || len(b) > 4096 {
			skipped++
			return
		}
		seeds = append(seeds, zvC16Seed{Name: name, B: b, Opt: o, Fields: zvC16Walk(b, o)})
	}
	upd := func(name string, u *BGPUpdate, asn4, ap bool) {
		var b []byte
		var err error
		if p, _ := vh.Try(func() { b, err = u.SerializeUpdate(&EncodeOptions{Use32BitASN: asn4, UseAddPath: ap}) }); p || err != nil {
			skipped++
			return
		}
		add(name, b, DecodeOptions{AddPathIPv4Unicast: ap, AddPathIPv6Unicast: ap, Use32BitASN: asn4})
	}

	// --- repo encoders --------------------------------------------------
	add("keepalive", SerializeKeepaliveMsg(), DecodeOptions{})
	for _, n := range [][2]uint8{{Cease, AdministrativeShutdown}, {OpenMessageError, BadPeerAS}, {UpdateMessageError, MalformedASPath}, {HoldTimeExpired, 0}} {
		add(fmt.Sprintf("notification-%d-%d", n[0], n[1]), SerializeNotificationMsg(&BGPNotification{ErrorCode: n[0], ErrorSubcode: n[1]}), DecodeOptions{})
	}
	allCaps := Capabilities{
		{Code: MultiProtocolCapabilityCode, Value: MultiProtocolCapability{AFI: AFIIPv4, SAFI: SAFIUnicast}},
		{Code: MultiProtocolCapabilityCode, Value: MultiProtocolCapability{AFI: AFIIPv6, SAFI: SAFIUnicast}},
		{Code: AddPathCapabilityCode, Value: AddPathCapability{{AFI: AFIIPv4, SAFI: SAFIUnicast, SendReceive: AddPathSendReceive}, {AFI: AFIIPv6, SAFI: SAFIUnicast, SendReceive: AddPathReceive}}},
		{Code: ASN4CapabilityCode, Value: ASN4Capability{ASN4: 4200000001}},
		{Code: PeerRoleCapabilityCode, Value: PeerRoleCapability{PeerRole: PeerRoleRoleCustomer}},
		{Code: ExtendedNextHopEncodingCapabilityCode, Value: ExtendedNextHopCapability{{AFI: AFIIPv4, SAFI: SAFIUnicast, NextHopAFI: AFIIPv6}, {AFI: AFIIPv4, SAFI: SAFILabeledUnicast, NextHopAFI: AFIIPv6}}},
	}
	add("open-allcaps-one-param", SerializeOpenMsg(&BGPOpen{Version: 4, ASN: ASTransASN, HoldTime: 90, BGPIdentifier: 0x0a000001,
		OptParams: []OptParam{{Type: CapabilitiesParamType, Value: allCaps}}}), DecodeOptions{})
	var perCap []OptParam
	for _, c := range allCaps {
		perCap = append(perCap, OptParam{Type: CapabilitiesParamType, Value: Capabilities{c}})
	}
	add("open-allcaps-param-each", SerializeOpenMsg(&BGPOpen{Version: 4, ASN: 65000, HoldTime: 3, BGPIdentifier: 0xc0000201, OptParams: perCap}), DecodeOptions{})
	add("open-noparams", SerializeOpenMsg(&BGPOpen{Version: 4, ASN: 1, HoldTime: 0, BGPIdentifier: 1}), DecodeOptions{})

	nh4 := bnet.IPv4FromOctets(192, 0, 2, 1)
	nh6 := bnet.IPv6FromBlocks(0x2001, 0xdb8, 0, 0, 0, 0, 0, 1)
	fullAttrs := func(asn4 bool) *PathAttribute {
		big := uint32(64999)
		if asn4 {
			big = 4200000000
		}
		return zvC16Chain(
			&PathAttribute{TypeCode: OriginAttr, Value: uint8(INCOMPLETE)},
			&PathAttribute{TypeCode: ASPathAttr, Value: &types.ASPath{{Type: types.ASSequence, ASNs: []uint32{65000, big, 3320}}, {Type: types.ASSet, ASNs: []uint32{15169, 1}}}},
			&PathAttribute{TypeCode: NextHopAttr, Value: nh4.Ptr()},
			&PathAttribute{TypeCode: MEDAttr, Value: uint32(256)},
			&PathAttribute{TypeCode: LocalPrefAttr, Value: uint32(100)},
			&PathAttribute{TypeCode: AtomicAggrAttr},
			&PathAttribute{TypeCode: AggregatorAttr, Value: types.Aggregator{ASN: 65001, Address: 0x0a0b0c0d}},
			&PathAttribute{TypeCode: CommunitiesAttr, Value: &types.Communities{0xfde80001, 0xffffff01}},
			&PathAttribute{TypeCode: OriginatorIDAttr, Value: uint32(0x0a000002)},
			&PathAttribute{TypeCode: ClusterListAttr, Value: &types.ClusterList{1, 0x0a000003}},
			&PathAttribute{TypeCode: LargeCommunitiesAttr, Value: &types.LargeCommunities{{GlobalAdministrator: 4200000000, DataPart1: 1, DataPart2: 2}}},
			&PathAttribute{TypeCode: 200, Optional: true, Transitive: true, Value: []byte{1, 2, 3}},
		)
	}
	for _, asn4 := range []bool{false, true} {
		for _, ap := range []bool{false, true} {
			upd(fmt.Sprintf("update-classic-full-asn4=%v-addpath=%v", asn4, ap), &BGPUpdate{
				WithdrawnRoutes: zvC16NLRIs(zvC16V4(10, 1, 0, 0, 16), zvC16V4(0, 0, 0, 0, 0)),
				PathAttributes:  fullAttrs(asn4),
				NLRI:            zvC16NLRIs(zvC16V4(10, 0, 0, 0, 8), zvC16V4(172, 16, 128, 0, 17), zvC16V4(192, 0, 2, 0, 24), zvC16V4(198, 51, 100, 7, 32)),
			}, asn4, ap)
		}
	}
	upd("update-withdraw-only", &BGPUpdate{WithdrawnRoutes: zvC16NLRIs(zvC16V4(10, 0, 0, 0, 8), zvC16V4(192, 0, 2, 128, 25))}, false, false)
	upd("update-eor", &BGPUpdate{}, false, false)
	mpBase := func() *PathAttribute {
		return zvC16Chain(
			&PathAttribute{TypeCode: OriginAttr, Value: uint8(IGP)},
			&PathAttribute{TypeCode: ASPathAttr, Value: &types.ASPath{{Type: types.ASSequence, ASNs: []uint32{65000}}}},
		)
	}
	for _, ap := range []bool{false, true} {
		reach := &PathAttribute{TypeCode: MultiProtocolReachNLRIAttr, Value: MultiProtocolReachNLRI{AFI: AFIIPv6, SAFI: SAFIUnicast, NextHop: nh6.Ptr(),
			NLRI: zvC16NLRIs(zvC16V6(0, 0, 0, 0, 0), zvC16V6(0x2001, 0xdb8, 0x1234, 0, 48), zvC16V6(0x2001, 0xdb8, 0, 1, 64), bnet.NewPfx(nh6, 128))}}
		reach.Next = mpBase()
		upd(fmt.Sprintf("update-mpreach6-addpath=%v", ap), &BGPUpdate{PathAttributes: reach}, true, ap)
		unreach := &PathAttribute{TypeCode: MultiProtocolUnreachNLRIAttr, Value: MultiProtocolUnreachNLRI{AFI: AFIIPv6, SAFI: SAFIUnicast,
			NLRI: zvC16NLRIs(zvC16V6(0x2001, 0xdb8, 0, 0, 32), zvC16V6(0x2001, 0xdb8, 0xffff, 0x8000, 49))}}
		upd(fmt.Sprintf("update-mpunreach6-addpath=%v", ap), &BGPUpdate{PathAttributes: unreach}, false, ap)
	}
	{
		// IPv4 NLRI with an IPv6 next hop (RFC 8950) and labeled unicast through the repo encoder
		reach := &PathAttribute{TypeCode: MultiProtocolReachNLRIAttr, Value: MultiProtocolReachNLRI{AFI: AFIIPv4, SAFI: SAFIUnicast, NextHop: nh6.Ptr(),
			NLRI: zvC16NLRIs(zvC16V4(10, 0, 0, 0, 8), zvC16V4(192, 0, 2, 0, 24))}}
		reach.Next = mpBase()
		upd("update-mpreach4-nh6", &BGPUpdate{PathAttributes: reach}, false, false)
		lab := zvC16NLRIs(zvC16V4(10, 0, 0, 0, 8), zvC16V4(192, 0, 2, 0, 24))
		lab.LabelStack = []LabelStackEntry{NewLabelStackEntry(100), NewLabelStackEntry(200)}
		lab.Next.LabelStack = []LabelStackEntry{NewLabelStackEntry(3)}
		lreach := &PathAttribute{TypeCode: MultiProtocolReachNLRIAttr, Value: MultiProtocolReachNLRI{AFI: AFIIPv4, SAFI: SAFILabeledUnicast, NextHop: nh4.Ptr(), NLRI: lab}}
		lreach.Next = mpBase()
		upd("update-mpreach4-labeled", &BGPUpdate{PathAttributes: lreach, SAFI: SAFILabeledUnicast}, false, false)
	}
	{
		// extended-length attributes
		asns := make([]uint32, 70)
		coms := make(types.Communities, 70)
		for i := range asns {
			asns[i] = uint32(4200000000 + i)
			coms[i] = uint32(0xfde80000 + i)
		}
		upd("update-extlen-aspath-communities", &BGPUpdate{PathAttributes: zvC16Chain(
			&PathAttribute{TypeCode: OriginAttr, Value: uint8(EGP)},
			&PathAttribute{TypeCode: ASPathAttr, Value: &types.ASPath{{Type: types.ASSequence, ASNs: asns}}},
			&PathAttribute{TypeCode: NextHopAttr, Value: nh4.Ptr()},
			&PathAttribute{TypeCode: CommunitiesAttr, Value: &coms},
		), NLRI: zvC16NLRIs(zvC16V4(203, 0, 113, 0, 24))}, true, false)
		lcs := make(types.LargeCommunities, 22)
		for i := range lcs {
			lcs[i] = types.LargeCommunity{GlobalAdministrator: 65000, DataPart1: uint32(i), DataPart2: 7}
		}
		upd("update-extlen-largecommunities", &BGPUpdate{PathAttributes: zvC16Chain(
			&PathAttribute{TypeCode: OriginAttr, Value: uint8(IGP)},
			&PathAttribute{TypeCode: ASPathAttr, Value: &types.ASPath{}},
			&PathAttribute{TypeCode: NextHopAttr, Value: nh4.Ptr()},
			&PathAttribute{TypeCode: LargeCommunitiesAttr, Value: &lcs},
		), NLRI: zvC16NLRIs(zvC16V4(203, 0, 113, 0, 24))}, false, false)
	}

	// --- hand-written ----------------------------------------------------
	openBody := func(params ...[]byte) []byte {
		p := zvC16Cat(params...)
		return zvC16Cat([]byte{4, 0xfd, 0xe8, 0, 90, 10, 0, 0, 1, byte(len(p))}, p)
	}
	add("hand-open-unknown-caps", zvC16Hdr(1, openBody(
		zvC16TLV(2, zvC16Cat(
			zvC16TLV(1, 0, 1, 0, 1),              // MP IPv4 unicast
			zvC16TLV(2),                          // route refresh
			zvC16TLV(64, 0, 120, 0, 1, 1, 0x80),  // graceful restart
			zvC16TLV(65, 0, 0, 0xfd, 0xe8),       // 4-octet AS
			zvC16TLV(69, 0, 1, 1, 3, 0, 2, 1, 1), // add-path, 2 tuples
			zvC16TLV(5, 0, 1, 0, 1, 0, 2),        // extended next hop
			zvC16TLV(9, 3),                       // role
			zvC16TLV(70),                         // enhanced route refresh
			zvC16TLV(73, 2, 'r', '1', 0),         // FQDN
			zvC16TLV(128),                        // old route refresh
		)...),
		zvC16TLV(2, zvC16TLV(1, 0, 2, 0, 1)...), // second parameter: MP IPv6 unicast
	)), DecodeOptions{})
	add("hand-open-auth-param", zvC16Hdr(1, openBody(zvC16TLV(1, 0, 1, 2, 3), zvC16TLV(2, zvC16TLV(65, 0, 0, 0xfd, 0xe8)...))), DecodeOptions{})
	add("hand-notification-with-data", zvC16Hdr(3, []byte{2, 2, 0xfd, 0xe8}), DecodeOptions{})

	origin := zvC16Attr(0x40, 1, []byte{0})
	aspath2 := zvC16Attr(0x40, 2, []byte{2, 2, 0xfd, 0xe8, 0x0c, 0xf8, 1, 1, 0x3b, 0x41})
	aspath4 := zvC16Attr(0x40, 2, []byte{2, 1, 0xfa, 0x56, 0xea, 0x00})
	nexthop := zvC16Attr(0x40, 3, []byte{192, 0, 2, 1})
	add("hand-update-every-attr-type", zvC16Update(
		[]byte{16, 10, 9},
		zvC16Cat(
			zvC16Attr(0x50, 1, []byte{2}), // ORIGIN with the extended-length flag
			aspath2, nexthop,
			zvC16Attr(0x80, 4, []byte{0, 0, 0, 5}),
			zvC16Attr(0x40, 5, []byte{0, 0, 0, 100}),
			zvC16Attr(0x40, 6, nil),
			zvC16Attr(0xc0, 7, []byte{0xfd, 0xe9, 10, 0, 0, 9}),
			zvC16Attr(0xc0, 8, []byte{0xff, 0xff, 0xff, 0x01, 0xfd, 0xe8, 0, 1}),
			zvC16Attr(0x80, 9, []byte{10, 0, 0, 2}),
			zvC16Attr(0x80, 10, []byte{10, 0, 0, 3, 10, 0, 0, 4}),
			zvC16Attr(0xc0, 16, []byte{0, 2, 0xfd, 0xe8, 0, 0, 0, 1}),             // extended communities
			zvC16Attr(0xc0, 17, []byte{2, 1, 0xfa, 0x56, 0xea, 0x00}),             // AS4_PATH
			zvC16Attr(0xc0, 18, []byte{0xfa, 0x56, 0xea, 0x00, 10, 0, 0, 9}),      // AS4_AGGREGATOR
			zvC16Attr(0xc0, 32, []byte{0, 0, 0xfd, 0xe8, 0, 0, 0, 1, 0, 0, 0, 2}), // large community
			zvC16Attr(0xc0, 35, []byte{0, 0, 0xfd, 0xe8}),                         // ONLY_TO_CUSTOMER
			zvC16Attr(0xe0, 128, []byte{1, 2, 3, 4, 5}),                           // unknown optional transitive partial
			zvC16Attr(0x80, 255, nil),                                             // unknown optional, empty
		),
		[]byte{24, 192, 0, 2, 0, 0, 32, 198, 51, 100, 7},
	), DecodeOptions{})
	add("hand-update-asn4-aggregator8", zvC16Update(nil,
		zvC16Cat(origin, aspath4, nexthop, zvC16Attr(0xc0, 7, []byte{0xfa, 0x56, 0xea, 0x00, 10, 0, 0, 9})),
		[]byte{8, 10}), DecodeOptions{Use32BitASN: true})
	add("hand-update-addpath-classic", zvC16Update(
		[]byte{0, 0, 0, 7, 16, 10, 9, 0, 0, 0, 8, 0},
		zvC16Cat(origin, aspath2, nexthop),
		[]byte{0, 0, 0, 1, 24, 192, 0, 2, 0, 0, 1, 2, 25, 192, 0, 2, 128},
	), DecodeOptions{AddPathIPv4Unicast: true})
	nh32 := zvC16Cat([]byte{0x20, 0x01, 0x0d, 0xb8, 0, 0, 0, 0, 0, 0, 0, 0, 0, 0, 0, 1}, []byte{0xfe, 0x80, 0, 0, 0, 0, 0, 0, 0, 0, 0, 0, 0, 0, 0, 1})
	add("hand-update-mpreach6-nh32", zvC16Update(nil,
		zvC16Cat(zvC16Attr(0x80, 14, zvC16Cat([]byte{0, 2, 1, 32}, nh32, []byte{0}, []byte{32, 0x20, 0x01, 0x0d, 0xb8, 0, 64, 0x20, 0x01, 0x0d, 0xb8, 0, 1, 0, 2, 128}, nh32[:16])), origin, aspath2),
		nil), DecodeOptions{})
	add("hand-update-mpreach6-addpath", zvC16Update(nil,
		zvC16Cat(zvC16Attr(0x90, 14, zvC16Cat([]byte{0, 2, 1, 16}, nh32[:16], []byte{0}, []byte{0, 0, 0, 9, 32, 0x20, 0x01, 0x0d, 0xb8, 0, 0, 0, 10, 0})), origin, aspath2),
		nil), DecodeOptions{AddPathIPv6Unicast: true})
	add("hand-update-mpreach4-labeled", zvC16Update(nil,
		zvC16Cat(zvC16Attr(0x80, 14, zvC16Cat([]byte{0, 1, 4, 4, 192, 0, 2, 1, 0}, []byte{72, 0, 6, 0x40, 0, 12, 0x81, 10, 0, 1}, []byte{24, 0, 0, 0x31})), origin, aspath2),
		nil), DecodeOptions{})
	add("hand-update-mpreach4-nh6", zvC16Update(nil,
		zvC16Cat(zvC16Attr(0x80, 14, zvC16Cat([]byte{0, 1, 1, 16}, nh32[:16], []byte{0}, []byte{24, 192, 0, 2, 0, 8, 10})), origin, aspath2),
		nil), DecodeOptions{ExtendedNextHop: true})
	add("hand-update-mpunreach", zvC16Update(nil,
		zvC16Cat(zvC16Attr(0x80, 15, []byte{0, 2, 1, 32, 0x20, 0x01, 0x0d, 0xb8, 0, 48, 0x20, 0x01, 0x0d, 0xb8, 0xab, 0xcd}),
			zvC16Attr(0x80, 15, []byte{0, 1, 4, 48, 0x80, 0, 1, 10, 9, 8})),
		nil), DecodeOptions{})
	// RFC 3107 withdrawal label 0x800000 (no bottom-of-stack bit); the repo decoder keeps reading labels
	add("hand-update-mpunreach-labeled-rfc3107", zvC16Update(nil, zvC16Attr(0x80, 15, []byte{0, 1, 4, 48, 0x80, 0, 0, 10, 9, 8}), nil), DecodeOptions{})
	add("hand-update-mp-eor", zvC16Update(nil, zvC16Attr(0x80, 15, []byte{0, 2, 1}), nil), DecodeOptions{})
	{
		v := make([]byte, 300)
		for i := range v {
			v[i] = byte(i*7 + 1)
		}
		add("hand-update-unknown-extlen-300", zvC16Update(nil, zvC16Cat(origin, aspath2, nexthop, zvC16Attr(0xd0, 200, v)), []byte{8, 10}), DecodeOptions{})
	}
	r.Extra("seeds", len(seeds))
	r.Extra("seeds_skipped", skipped)
	return seeds
}

// zvC16Walk is an independent RFC 4271/4760/5492 walker that locates the
// length, count and selector fields of a (valid) message. It stops quietly
// where the structure ends.
func zvC16Walk(b []byte, o DecodeOptions) []zvC16Field {
	var fs []zvC16Field
	add := func(off, w int, k string) bool {
		if off < 0 || off+w > len(b) {
			return false
		}
		fs = append(fs, zvC16Field{off, w, k})
		return true
	}
	be16 := func(p int) int { return int(b[p])<<8 | int(b[p+1]) }
	if len(b) < 19 {
		return fs
	}
	add(16, 2, "hdr_len")
	add(18, 1, "msg_type")
	nlris := func(p, end int, addPath, labeled bool) {
		for p < end {
			if addPath {
				p += 4
			}
			if p >= end || !add(p, 1, "pfx_len") {
				return
			}
			bits := int(b[p])
			p++
			if labeled {
				for p+3 <= end {
					bos := b[p+2]&1 == 1
					p += 3
					bits -= 24
					if bos {
						break
					}
				}
			}
			if bits < 0 {
				return
			}
			p += (bits + 7) / 8
		}
	}
	switch b[18] {
	case 1:
		add(19, 1, "version")
		if !add(28, 1, "optparm_len") {
			return fs
		}
		p := 29
		for p+2 <= len(b) {
			add(p, 1, "param_type")
			add(p+1, 1, "param_len")
			end := p + 2 + int(b[p+1])
			if end > len(b) {
				break
			}
			if b[p] == 2 {
				c := p + 2
				for c+2 <= end {
					add(c, 1, "cap_code")
					add(c+1, 1, "cap_len")
					cl := int(b[c+1])
					if (b[c] == 1 || b[c] == 69 || b[c] == 5) && cl >= 2 {
						add(c+2, 2, "cap_afi")
					}
					c += 2 + cl
				}
			}
			p = end
		}
	case 2:
		p := 19
		if !add(p, 2, "withdrawn_len") {
			return fs
		}
		wend := p + 2 + be16(p)
		if wend > len(b) {
			return fs
		}
		nlris(p+2, wend, o.AddPathIPv4Unicast, false)
		p = wend
		if !add(p, 2, "tpal") {
			return fs
		}
		aend := p + 2 + be16(p)
		if aend > len(b) {
			return fs
		}
		p += 2
		for p+3 <= aend {
			add(p, 1, "attr_flags")
			add(p+1, 1, "attr_type")
			typ := b[p+1]
			var l, v int
			if b[p]&0x10 != 0 {
				if !add(p+2, 2, "attr_len") {
					return fs
				}
				l, v = be16(p+2), p+4
			} else {
				add(p+2, 1, "attr_len")
				l, v = int(b[p+2]), p+3
			}
			vend := v + l
			if vend > aend {
				return fs
			}
			switch typ {
			case 2, 17:
				asn := 2
				if o.Use32BitASN || typ == 17 {
					asn = 4
				}
				q := v
				for q+2 <= vend {
					add(q, 1, "seg_type")
					add(q+1, 1, "seg_count")
					q += 2 + asn*int(b[q+1])
				}
			case 14:
				if l >= 5 {
					add(v, 2, "afi")
					add(v+2, 1, "safi")
					add(v+3, 1, "nh_len")
					afi, safi := be16(v), b[v+2]
					q := v + 4 + int(b[v+3]) + 1
					ap := (afi == 1 && safi == 1 && o.AddPathIPv4Unicast) || (afi == 2 && safi == 1 && o.AddPathIPv6Unicast)
					if q <= vend {
						nlris(q, vend, ap, safi == 4)
					}
				}
			case 15:
				if l >= 3 {
					add(v, 2, "afi")
					add(v+2, 1, "safi")
					afi, safi := be16(v), b[v+2]
					ap := (afi == 1 && safi == 1 && o.AddPathIPv4Unicast) || (afi == 2 && safi == 1 && o.AddPathIPv6Unicast)
					nlris(v+3, vend, ap, safi == 4)
				}
			}
			p = vend
		}
		nlris(aend, len(b), o.AddPathIPv4Unicast, false)
	case 3:
		add(19, 1, "err_code")
		add(20, 1, "err_subcode")
	}
	return fs
}

func zvC16Get(b []byte, f zvC16Field) int {
	v := 0
	for i := 0; i < f.W; i++ {
		v = v<<8 | int(b[f.Off+i])
	}
	return v
}

func zvC16Put(b []byte, f zvC16Field, v int) {
	for i := f.W - 1; i >= 0; i-- {
		b[f.Off+i] = byte(v)
		v >>= 8
	}
}

// zvC16Boundary lists the boundary values for a field of width w holding t, with
// rem bytes of input following the field.
func zvC16Boundary(w, t, rem int, reduced bool) []int {
	max := 1<<(8*uint(w)) - 1
	var cand []int
	if reduced {
		cand = []int{0, 1, t - 1, t + 1, rem + 1, 0xfffc, max}
	} else {
		cand = []int{0, 1, 2, 3, t - 1, t, t + 1, t + 4, rem - 1, rem, rem + 1, 0x7f, 0x80, 0xfe, 0xff, 0x100, 0x7fff, 0x8000, 4077, 4095, 4096, 4097, 0xfffc, 0xfffe, 0xffff} // 0xfffc: largest length that is a multiple of 4 and of 12
	}
	seen := map[int]bool{}
	var out []int
	for _, c := range cand {
		if c < 0 || c > max || seen[c] {
			continue
		}
		seen[c] = true
		out = append(out, c)
	}
	sort.Ints(out)
	return out
}

// zvC16Pad returns b extended to 4096 bytes (variant 1: 00, 2: ff, 3: repetition
// of the seed body) with the header length set to 4096; variant 0 returns b.
// keepHdr leaves the header length field alone (used when it is the mutated field).
func zvC16Pad(b []byte, variant int, keepHdr bool) []byte {
	if variant == 0 || len(b) >= 4096 || len(b) < 19 {
		return b
	}
	out := make([]byte, 4096)
	copy(out, b)
	for i := len(b); i < 4096; i++ {
		switch variant {
		case 1:
			out[i] = 0
		case 2:
			out[i] = 0xff
		case 3:
			if len(b) > 19 {
				out[i] = b[19+(i-len(b))%(len(b)-19)]
			} else {
				out[i] = byte(i)
			}
		}
	}
	if !keepHdr {
		out[16], out[17] = 0x10, 0x00
	}
	return out
}

// ---------------------------------------------------------------------------

type zvC16Case struct {
	Seed   string `json:"seed"`
	Kind   string `json:"mutation"`
	Detail string `json:"detail"`
	Opt    int    `json:"opt_index"`
	OptS   string `json:"options"`
	Hex    string `json:"input_hex"`
}

type zvC16Ctx struct {
	r        *vh.Run
	opts     []DecodeOptions
	ms       runtime.MemStats
	cnt      map[string]int
	outcomes map[string]struct{}
	evals    int
	nontriv  int
	maxBatch uint64
	maxOne   uint64
	lastGC   uint64
	last     uint64
	haveLast bool
	wall     map[string]time.Duration // informational only (where the time goes), never an oracle
}

func (x *zvC16Ctx) flush() {
	x.r.Eval(x.evals)
	x.r.Nontrivial(x.nontriv)
	x.evals, x.nontriv = 0, 0
	ks := make([]string, 0, len(x.cnt))
	for k := range x.cnt {
		ks = append(ks, k)
	}
	sort.Strings(ks)
	for _, k := range ks {
		x.r.Count(k, x.cnt[k])
		delete(x.cnt, k)
	}
	for k, d := range x.wall {
		x.r.Extra("wall_s_max_shard_"+k, d.Seconds())
	}
	x.r.Extra("max_alloc_bytes_16_decodes", float64(x.maxBatch))
	x.r.Extra("max_alloc_bytes_remeasured_single_decode", float64(x.maxOne))
}

func zvC16HdrValid(in []byte) bool {
	if len(in) < 19 {
		return false
	}
	for i := 0; i < 16; i++ {
		if in[i] != 0xff {
			return false
		}
	}
	l := int(in[16])<<8 | int(in[17])
	min := map[byte]int{1: 29, 2: 23, 3: 21, 4: 19}[in[18]] // RFC 4271 6.1; 0 for unknown types
	return min > 0 && l >= min && l <= 4096
}

func zvC16MsgType(in []byte) string {
	if len(in) < 19 {
		return "short"
	}
	switch in[18] {
	case 1:
		return "open"
	case 2:
		return "update"
	case 3:
		return "notification"
	case 4:
		return "keepalive"
	}
	return "other"
}

// gcMaybe is called right after a ReadMemStats into x.ms.
func (x *zvC16Ctx) gcMaybe() {
	if x.ms.TotalAlloc-x.lastGC > 192<<20 {
		runtime.GC()
		runtime.ReadMemStats(&x.ms)
		x.lastGC = x.ms.TotalAlloc
	}
}

func (x *zvC16Ctx) measure(in []byte, opt *DecodeOptions) uint64 {
	best := ^uint64(0)
	for i := 0; i < 3; i++ {
		runtime.ReadMemStats(&x.ms)
		a := x.ms.TotalAlloc
		zvC16Decode(in, opt)
		runtime.ReadMemStats(&x.ms)
		if d := x.ms.TotalAlloc - a; d < best {
			best = d
		}
		x.gcMaybe()
	}
	return best
}

func (x *zvC16Ctx) mk(seed, kind, detail string, oi int, in []byte) zvC16Case {
	return zvC16Case{Seed: seed, Kind: kind, Detail: detail, Opt: oi, OptS: zvC16OptString(x.opts[oi]), Hex: hex.EncodeToString(in)}
}

// one evaluates the oracle for one (input, option) pair; used by the
// enumeration for the functional clauses and by the replay for all clauses.
func (x *zvC16Ctx) one(seed, kind, detail string, oi int, in []byte, withAlloc bool) (ok bool) {
	res := zvC16Decode(in, &x.opts[oi])
	x.evals++
	mt := zvC16MsgType(in)
	switch {
	case res.panicked:
		x.r.Violation(vh.Sig("clause", "panic", "msg", mt, "where", res.where, "what", zvC16Norm(res.what)), x.mk(seed, kind, detail, oi, in),
			"packet.Decode panicked in %s: %s (input %d bytes, %s, %s of seed %s: %s)", res.where, res.what, len(in), zvC16OptString(x.opts[oi]), kind, seed, detail)
	case res.msg == nil && res.err == nil:
		x.r.Violation(vh.Sig("clause", "neither", "msg", mt), x.mk(seed, kind, detail, oi, in), "packet.Decode returned neither a message nor an error")
	case res.err != nil:
		x.cnt["decode_err"]++
		k := "err:" + zvC16Norm(res.err.Error())
		if _, seen := x.outcomes[k]; !seen {
			x.outcomes[k] = struct{}{}
			x.r.Outcome(k)
		}
	default:
		ok = true
		x.cnt["decode_ok"]++
		x.cnt["decode_ok_"+mt]++
		k := "ok:" + mt
		if _, seen := x.outcomes[k]; !seen {
			x.outcomes[k] = struct{}{}
			x.r.Outcome(k)
		}
	}
	if withAlloc {
		d := x.measure(in, &x.opts[oi])
		if d > x.maxOne {
			x.maxOne = d
		}
		if d > zvC16Bound(len(in)) {
			x.r.Violation(vh.Sig("clause", "alloc", "msg", mt), x.mk(seed, kind, detail, oi, in),
				"packet.Decode allocated %d bytes for a %d byte input (bound %d; %s; %s of seed %s: %s)", d, len(in), zvC16Bound(len(in)), zvC16OptString(x.opts[oi]), kind, seed, detail)
		}
	}
	return ok
}

// input runs one input through all 16 option combinations.
func (x *zvC16Ctx) input(seed, kind, detail string, in []byte) {
	if len(in) > 4096 {
		x.r.Fatalf("harness produced an input of %d bytes", len(in))
	}
	t0 := time.Now()
	defer func() { x.wall[kind] += time.Since(t0) }()
	// The window opens at the previous input's closing measurement: what the harness
	// allocates in between (the mutated copy, the description) only adds to the delta.
	if !x.haveLast {
		runtime.ReadMemStats(&x.ms)
		x.last = x.ms.TotalAlloc
	}
	a0 := x.last
	nOK := 0
	for oi := range x.opts {
		if x.one(seed, kind, detail, oi, in, false) {
			nOK++
		}
	}
	runtime.ReadMemStats(&x.ms)
	d := x.ms.TotalAlloc - a0
	x.gcMaybe()
	x.last, x.haveLast = x.ms.TotalAlloc, true
	if d > x.maxBatch {
		x.maxBatch = d
	}
	// The 16 decodes together stayed below the bound for one => each did.
	if d > zvC16Bound(len(in)) {
		x.cnt["alloc_remeasured_inputs"]++
		x.haveLast = false
		for oi := range x.opts {
			m := x.measure(in, &x.opts[oi])
			if m > x.maxOne {
				x.maxOne = m
			}
			if m > zvC16Bound(len(in)) {
				x.r.Violation(vh.Sig("clause", "alloc", "msg", zvC16MsgType(in)), x.mk(seed, kind, detail, oi, in),
					"packet.Decode allocated %d bytes for a %d byte input (bound %d; %s; %s of seed %s: %s)", m, len(in), zvC16Bound(len(in)), zvC16OptString(x.opts[oi]), kind, seed, detail)
			}
		}
	}
	x.cnt["inputs"]++
	x.cnt["mut_"+kind]++
	if zvC16HdrValid(in) {
		x.nontriv += len(x.opts)
	}
	if nOK > 0 && nOK < len(x.opts) {
		x.cnt["ok_under_some_options_only"]++
	}
}

func TestVerifC16(t *testing.T) {
	r := vh.Start(t, "C16")
	defer r.Finish()
	r.Rule("seeds (valid OPEN/UPDATE/NOTIFICATION/KEEPALIVE from the repo encoders and hand-written, every capability and attribute type) x " +
		"{every offset x every byte value; every truncation (header length kept/corrected); every length/count/selector field x boundary set x 4 paddings up to 4096 bytes; " +
		"trailing bytes up to 4096; thorough: every pair of fields x reduced boundary set^2 x 2 paddings} + every body of <= 2 bytes after a header of every type x 3 header lengths (thorough: every 3 byte UPDATE body); " +
		"each input x all 16 DecodeOptions; evaluation = one Decode call; non-trivial = the input has a valid header, so the body decoder runs")
	r.Require("decode_ok", "decode_err", "decode_ok_open", "decode_ok_update", "decode_ok_notification", "decode_ok_keepalive", "mut_byte", "mut_trunc", "mut_field", "mut_grow", "mut_tiny", "ok_under_some_options_only")
	x := &zvC16Ctx{r: r, opts: zvC16Opts(), cnt: map[string]int{}, outcomes: map[string]struct{}{}, wall: map[string]time.Duration{}}
	defer x.flush()
	// ReadMemStats waits for a running concurrent GC cycle, which costs far more
	// than the decodes themselves. The live heap is tiny, so the automatic GC is
	// switched off and gcMaybe() collects synchronously every 192 MiB of garbage
	// (has no influence on TotalAlloc).
	defer debug.SetGCPercent(debug.SetGCPercent(-1))

	if r.IsReplay() {
		var c zvC16Case
		r.ReplayCase(&c)
		in, err := hex.DecodeString(c.Hex)
		if err != nil || c.Opt < 0 || c.Opt >= len(x.opts) {
			r.Fatalf("bad replay case: %v", err)
		}
		x.one(c.Seed, c.Kind, c.Detail, c.Opt, in, true)
		for _, k := range []string{"decode_ok", "decode_err", "decode_ok_open", "decode_ok_update", "decode_ok_notification", "decode_ok_keepalive", "mut_byte", "mut_trunc", "mut_field", "mut_grow", "mut_tiny", "ok_under_some_options_only"} {
			x.cnt[k]++
		}
		return
	}

	journal := os.Getenv("VERIF_OUT") + ".journal"
	defer os.Remove(journal)
	seeds := zvC16Seeds(r)
	unit := 0
	capped := false
	mine := func(id string) bool {
		unit++
		if capped || !r.Mine(unit) {
			return false
		}
		if r.OutOfBudget() {
			r.Cap("time budget: not all work units decoded")
			capped = true
			return false
		}
		os.WriteFile(journal, []byte(id), 0o644)
		return true
	}

	// every seed must be what it claims: count how many decode under their own options
	for si := range seeds {
		s := &seeds[si]
		if !mine("seed " + s.Name) {
			continue
		}
		if res := zvC16Decode(s.B, &s.Opt); res.err == nil && res.msg != nil {
			x.cnt["seeds_valid_under_own_options"]++
		} else {
			x.cnt["seeds_rejected_under_own_options"]++
			r.Extra("seed_rejected:"+s.Name, fmt.Sprint(res.err, res.what))
		}
		x.input(s.Name, "seed", "unchanged", s.B)
		x.cnt["fields_found"] += len(s.Fields)
	}

	// byte: every offset x every other value
	for si := range seeds {
		s := &seeds[si]
		for off := range s.B {
			if !mine(fmt.Sprintf("byte %s off=%d", s.Name, off)) {
				continue
			}
			in := append([]byte(nil), s.B...)
			for v := 0; v < 256; v++ {
				if byte(v) == s.B[off] {
					continue
				}
				in[off] = byte(v)
				x.input(s.Name, "byte", fmt.Sprintf("offset %d: %#02x -> %#02x", off, s.B[off], v), in)
			}
			if si == 3 && off == 20 {
				r.Sample(x.mk(s.Name, "byte", "offset 20 -> 0xff", 0, in))
			}
		}
	}

	// trunc
	for si := range seeds {
		s := &seeds[si]
		if !mine("trunc " + s.Name) {
			continue
		}
		for n := 0; n < len(s.B); n++ {
			in := append([]byte(nil), s.B[:n]...)
			x.input(s.Name, "trunc", fmt.Sprintf("cut to %d bytes, header length kept", n), in)
			if n >= 19 {
				in[16], in[17] = byte(n>>8), byte(n)
				x.input(s.Name, "trunc", fmt.Sprintf("cut to %d bytes, header length corrected", n), in)
			}
		}
	}

	// field x boundary x padding
	for si := range seeds {
		s := &seeds[si]
		for fi, f := range s.Fields {
			if !mine(fmt.Sprintf("field %s %s@%d", s.Name, f.Kind, f.Off)) {
				continue
			}
			t := zvC16Get(s.B, f)
			for _, v := range zvC16Boundary(f.W, t, len(s.B)-f.Off-f.W, false) {
				for pad := 0; pad < 4; pad++ {
					if v == t && pad == 0 {
						continue
					}
					in := append([]byte(nil), s.B...)
					zvC16Put(in, f, v)
					in = zvC16Pad(in, pad, f.Kind == "hdr_len")
					x.input(s.Name, "field", fmt.Sprintf("%s at offset %d: %d -> %d, padding variant %d", f.Kind, f.Off, t, v, pad), in)
				}
			}
			if si == 6 && fi == 4 {
				in := append([]byte(nil), s.B...)
				zvC16Put(in, f, 0)
				r.Sample(x.mk(s.Name, "field", fmt.Sprintf("%s at offset %d -> 0", f.Kind, f.Off), 5, in))
			}
		}
	}

	// grow: trailing bytes
	for si := range seeds {
		s := &seeds[si]
		if !mine("grow " + s.Name) {
			continue
		}
		for _, total := range []int{len(s.B) + 1, len(s.B) + 2, len(s.B) + 19, 4095, 4096} {
			if total > 4096 || total <= len(s.B) {
				continue
			}
			for variant := 1; variant <= 3; variant++ {
				full := zvC16Pad(s.B, variant, true)
				in := append([]byte(nil), full[:total]...)
				x.input(s.Name, "grow", fmt.Sprintf("%d trailing bytes (variant %d), header length kept", total-len(s.B), variant), in)
				in[16], in[17] = byte(total>>8), byte(total)
				x.input(s.Name, "grow", fmt.Sprintf("%d trailing bytes (variant %d), header length = %d", total-len(s.B), variant, total), in)
			}
		}
	}

	// tiny bodies after a header of every type (0 and 5 are invalid types); the header
	// length is the real one, the minimum of the message type (RFC 4271 6.1) or 4096
	tiny := func(typ int, body []byte, hv int) []byte {
		in := zvC16Hdr(byte(typ), body)
		switch hv {
		case 1:
			min := map[int]int{1: 29, 2: 23, 3: 21}[typ]
			if min == 0 {
				min = 19
			}
			in[16], in[17] = byte(min>>8), byte(min)
		case 2:
			in[16], in[17] = 0x10, 0
		}
		return in
	}
	hvName := []string{"real", "type minimum", "4096"}
	for typ := 0; typ <= 5; typ++ {
		for b0 := -1; b0 < 256; b0++ {
			if !mine(fmt.Sprintf("tiny type=%d first=%d", typ, b0)) {
				continue
			}
			for hv := 0; hv < 3; hv++ {
				if b0 < 0 {
					x.input("-", "tiny", fmt.Sprintf("type %d, empty body, header length %s", typ, hvName[hv]), tiny(typ, nil, hv))
					continue
				}
				x.input("-", "tiny", fmt.Sprintf("type %d, body %02x, header length %s", typ, b0, hvName[hv]), tiny(typ, []byte{byte(b0)}, hv))
				for b1 := 0; b1 < 256; b1++ {
					x.input("-", "tiny", fmt.Sprintf("type %d, body %02x%02x, header length %s", typ, b0, b1, hvName[hv]), tiny(typ, []byte{byte(b0), byte(b1)}, hv))
				}
			}
		}
	}

	if !r.Thorough() {
		return
	}

	// pair: every pair of fields x reduced boundary set^2 x {no padding, zero padding}
	for si := range seeds {
		s := &seeds[si]
		for i, f1 := range s.Fields {
			if !mine(fmt.Sprintf("pair %s first=%s@%d", s.Name, f1.Kind, f1.Off)) {
				continue
			}
			t1 := zvC16Get(s.B, f1)
			for _, f2 := range s.Fields[i+1:] {
				t2 := zvC16Get(s.B, f2)
				for _, v1 := range zvC16Boundary(f1.W, t1, len(s.B)-f1.Off-f1.W, true) {
					for _, v2 := range zvC16Boundary(f2.W, t2, len(s.B)-f2.Off-f2.W, true) {
						if v1 == t1 || v2 == t2 {
							continue
						}
						for _, pad := range []int{0, 1} {
							in := append([]byte(nil), s.B...)
							zvC16Put(in, f1, v1)
							zvC16Put(in, f2, v2)
							in = zvC16Pad(in, pad, f1.Kind == "hdr_len" || f2.Kind == "hdr_len")
							x.input(s.Name, "pair", fmt.Sprintf("%s@%d: %d -> %d and %s@%d: %d -> %d, padding variant %d", f1.Kind, f1.Off, t1, v1, f2.Kind, f2.Off, t2, v2, pad), in)
						}
					}
				}
			}
		}
	}

	// tiny3: every 3 byte body after an UPDATE header that announces the minimum UPDATE length (23)
	for b0 := 0; b0 < 256; b0++ {
		for b1 := 0; b1 < 256; b1 += 16 {
			if !mine(fmt.Sprintf("tiny3 %02x %02x..", b0, b1)) {
				continue
			}
			for b1b := b1; b1b < b1+16; b1b++ {
				for b2 := 0; b2 < 256; b2++ {
					x.input("-", "tiny3", fmt.Sprintf("type 2, body %02x%02x%02x, header length type minimum", b0, b1b, b2), tiny(2, []byte{byte(b0), byte(b1b), byte(b2)}, 1))
				}
			}
		}
	}
}
