package adjRIBOut

// C11 — add-path identifiers are unique per prefix and never exhausted spuriously.
// Engine E4: explicit-state BFS over all AddPath/RemovePath histories (the calls a
// Loc-RIB makes) on a real AdjRIBOut with add-path TX and a recording client.

import (
	"fmt"
	"sort"
	"strings"
	"testing"

	bnet "github.com/bio-routing/bio-rd/net"
	"github.com/bio-routing/bio-rd/protocols/bgp/types"
	"github.com/bio-routing/bio-rd/route"
	"github.com/bio-routing/bio-rd/routingtable"
	"github.com/bio-routing/bio-rd/routingtable/filter"
	"github.com/bio-routing/bio-rd/routingtable/filter/actions"
	"github.com/bio-routing/bio-rd/zzverif/vh"
)

type zvC11Op struct {
	Kind string `json:"op"` // add | rm | rmx | blk (announcement of a path the export rules block: NO_ADVERTISE)
	P    int    `json:"pfx"`
	X    int    `json:"path"` // 0,1: attribute-identical; 2: differs outside ComputeHash; 3: differs in a hashed attribute
}

type zvC11Uni struct {
	Session string `json:"session"` // ibgp | rs | ebgp | rr
	P2      string `json:"p2_differs_in"`
	P3      string `json:"p3_differs_in"`
	NPfx    int    `json:"prefixes"`
	// Limit is the size of the identifier space (the package variable maxUint32, which the repository's own test lowers
	// too): 3 = exactly as many identifiers as there are distinct attribute sets, so allocation must never fail;
	// 1, 2 = exhaustion is reachable, allocation may fail only while that many identifiers are really in use
	Limit uint32 `json:"identifier_space,omitempty"`
	// Wrap: the allocator starts two steps before its counter wraps around (a non-initial state: the daemon has handed
	// out 2^32 identifiers before), so that identifiers are reused within short histories; such universes also contain
	// withdrawals of a path a prefix does not hold while another prefix advertises the same attributes ("rmx")
	Wrap bool `json:"allocator_near_wrap,omitempty"`
	// Export "set-med": the session's export policy rewrites an attribute, so the path that is stored, hashed and
	// identified is not the path object the Loc-RIB hands in ("" = accept unchanged)
	Export string `json:"export_policy,omitempty"`
}

type zvC11Case struct {
	U    zvC11Uni  `json:"universe"`
	Hist []zvC11Op `json:"history"`
}

var zvC11Pfxs = []*bnet.Prefix{
	bnet.NewPfx(bnet.IPv4FromOctets(10, 0, 0, 0), 8).Ptr(),
	bnet.NewPfx(bnet.IPv4FromOctets(10, 1, 0, 0), 16).Ptr(),
	bnet.NewPfx(bnet.IPv4FromOctets(20, 0, 0, 0), 8).Ptr(),
}

func zvC11Session(kind string) routingtable.SessionAttrs {
	sa := routingtable.SessionAttrs{
		RouterID:  0x0a000001,
		PeerIP:    bnet.IPv4FromOctets(10, 0, 0, 2).Ptr(),
		LocalIP:   bnet.IPv4FromOctets(10, 0, 0, 1).Ptr(),
		Type:      route.BGPPathType,
		LocalASN:  65000,
		PeerASN:   65009,
		ClusterID: 0x09090909,
		AddPathTX: true,
	}
	switch kind {
	case "ibgp":
		sa.IBGP, sa.PeerASN = true, 65000
	case "rr":
		sa.IBGP, sa.PeerASN, sa.RouteReflectorClient = true, 65000, true
	case "rs":
		sa.RouteServerClient = true
	case "ebgp":
	}
	return sa
}

// zvC11Paths builds the four Loc-RIB paths of a universe (fresh objects each time).
func zvC11Paths(u zvC11Uni) [4]*route.Path {
	mk := func() *route.Path {
		return &route.Path{
			Type: route.BGPPathType,
			BGPPath: &route.BGPPath{
				BGPPathA: &route.BGPPathA{
					NextHop:       bnet.IPv4FromOctets(10, 1, 0, 9).Ptr(),
					Source:        bnet.IPv4FromOctets(10, 1, 0, 1).Ptr(),
					LocalPref:     100,
					BGPIdentifier: 0x0a010001,
					EBGP:          true,
				},
				ASPath:      &types.ASPath{{Type: types.ASSequence, ASNs: []uint32{65101, 65102}}},
				ASPathLen:   2,
				Communities: &types.Communities{65000<<16 | 1},
			},
		}
	}
	ps := [4]*route.Path{mk(), mk(), mk(), mk()}
	switch u.P2 {
	case "otc":
		ps[2].BGPPath.BGPPathA.OnlyToCustomer = 65101
	case "unknown_attr":
		ps[2].BGPPath.UnknownAttributes = []types.UnknownPathAttribute{{Optional: true, Transitive: true, TypeCode: 200, Value: []byte{1, 2}}}
	case "aggregator":
		ps[2].BGPPath.BGPPathA.Aggregator = &types.Aggregator{ASN: 65101, Address: 1}
	case "atomic_aggregate":
		ps[2].BGPPath.BGPPathA.AtomicAggregate = true
	}
	switch u.P3 {
	case "community":
		ps[3].BGPPath.Communities = &types.Communities{65000<<16 | 2}
	case "as_path_content":
		ps[3].BGPPath.ASPath = &types.ASPath{{Type: types.ASSequence, ASNs: []uint32{65101, 65103}}}
	case "med":
		ps[3].BGPPath.BGPPathA.MED = 5
	}
	return ps
}

var zvC11Class = [4]int{0, 0, 1, 2}

// zvC11Differ names the attribute(s) in which the paths of two classes differ.
func zvC11Differ(u zvC11Uni, a, b int) string {
	if a > b {
		a, b = b, a
	}
	switch {
	case a < 0:
		return "unknown"
	case a == b:
		return "none"
	case a == 0 && b == 1:
		return u.P2
	case a == 0 && b == 2:
		return u.P3
	}
	return u.P2 + "+" + u.P3
}

// zvC11Step replays hist on a fresh AdjRIBOut in lock-step with the model and
// evaluates the oracle on the last operation.
func zvC11Step(r *vh.Run, u zvC11Uni, hist []zvC11Op) (string, []zvC11Op, bool) {
	zvoFresh()
	if u.Limit > 0 {
		defer func(o uint32) { maxUint32 = o }(maxUint32)
		maxUint32 = u.Limit
	}
	c := zvC11Case{u, hist}
	rec := &zvoRec{}
	chain := filter.NewAcceptAllFilterChain()
	if u.Export == "set-med" {
		chain = filter.Chain{filter.NewFilter("set-med", []*filter.Term{filter.NewTerm("t", nil, []actions.Action{actions.NewSetMEDAction(77), actions.NewAcceptAction()})})}
	}
	a := New(nil, zvC11Session(u.Session), chain)
	a.Register(rec)
	if u.Wrap {
		a.pathIDManager.last = ^uint32(0) - 2
	}
	paths := zvC11Paths(u)

	// model
	var present [3][3]bool                     // [pfx][class] added and not removed by the history
	var annID [3][3]uint32                     // identifier the client saw in the AddPath of (pfx,class)
	view := [3]map[uint32]*zvoView{{}, {}, {}} // what a peer holds: per prefix, identifier -> attributes
	var classView [3]*zvoView                  // attributes (identifier blanked) the session advertises for a class

	clOf := func(v *zvoView) int {
		for k, cv := range classView {
			if cv != nil && *cv == v.zvoNoID() {
				return k
			}
		}
		return -1
	}
	ok := true
	noExtend := false
	for i, o := range hist {
		last := i == len(hist)-1
		cl := 0
		if o.Kind != "blk" {
			cl = zvC11Class[o.X]
		}
		viol := func(sig map[string]string, f string, args ...any) {
			ok = false
			if last {
				r.Violation(sig, c, "["+u.Session+" session] "+f, args...)
			}
		}
		pfxS := zvC11Pfxs[o.P].String()
		if last { // coverage of the interesting situations, counted before the oracle speaks
			for k := 0; k < 3; k++ {
				if k != cl && present[o.P][k] && o.Kind == "add" && k+cl == 1 {
					r.Count("same_hash_different_attrs_on_one_prefix", 1)
				}
				if k != cl && present[o.P][k] && o.Kind == "rm" {
					r.Count("withdrawal_with_sibling_on_prefix", 1)
				}
			}
			for q := 0; q < u.NPfx; q++ {
				if q != o.P && present[q][cl] && o.Kind == "rm" {
					r.Count("release_of_shared_identifier", 1)
					break
				}
			}
		}
		switch o.Kind {
		case "add":
			var err error
			if p, what := vh.Try(func() { err = a.AddPath(zvC11Pfxs[o.P], paths[o.X]) }); p {
				viol(vh.Sig("clause", "panic", "op", "add"), "AddPath panicked: %s", what)
				break
			}
			inUse := map[uint32]bool{}
			for q := range view {
				for id := range view[q] {
					inUse[id] = true
				}
			}
			if err != nil && u.Limit > 0 && uint32(len(inUse)) >= u.Limit {
				// the identifier space really is exhausted: nothing is announced, nothing may have changed
				if last {
					r.Count("genuine_exhaustion", 1)
				}
				if calls := rec.take(); len(calls) != 0 {
					viol(vh.Sig("clause", "calls_on_failed_add"), "AddPath(%s, path %d) failed (%v) but the client was called: %v", pfxS, o.X, err, calls)
				}
				break
			}
			if err != nil {
				viol(vh.Sig("clause", "alloc_failed"), "AddPath(%s, path %d) failed with %q while %d identifiers are in use (identifier space %d)", pfxS, o.X, err.Error(), len(inUse), u.Limit)
				break
			}
			if last && u.Limit > 0 && uint32(len(inUse))+1 == u.Limit {
				r.Count("allocation_of_last_free_identifier", 1)
			}
			present[o.P][cl] = true
			calls := rec.take()
			var adds []zvoCall
			for _, k := range calls {
				if k.Op == "add" && k.Pfx == pfxS {
					adds = append(adds, k)
				}
			}
			if len(adds) != 1 || len(calls) != 1 {
				// not announced / something else happened: not this property's business (C08)
				r.Count("pruned_not_announced", 1)
				ok = false
				break
			}
			v := &adds[0].V
			if cv := classView[cl]; cv != nil && *cv != v.zvoNoID() {
				r.Count("pruned_attribute_drift", 1)
				ok = false
				break
			}
			if classView[cl] == nil {
				nv := v.zvoNoID()
				classView[cl] = &nv
			}
			annID[o.P][cl] = v.PathID
			if old, dup := view[o.P][v.PathID]; dup && old.zvoNoID() != v.zvoNoID() {
				viol(vh.Sig("clause", "unique", "differ", zvC11Differ(u, cl, clOf(old))), "prefix %s: path %d announced with identifier %d which already names a different path\n  held:      %s\n  announced: %s", pfxS, o.X, v.PathID, old, v)
				break
			}
			view[o.P][v.PathID] = v
		case "blk":
			// the Loc-RIB announces a path the export rules block. Whether the session may withdraw the paths it
			// advertises for the prefix at that point is C08's subject; here the model follows what the client is told
			// and demands that every withdrawal names an advertised path by the identifier it was announced with -
			// the state oracles below then compare the allocator with the table
			blocked := paths[0].Copy()
			blocked.BGPPath.Communities = &types.Communities{65000<<16 | 1, types.WellKnownCommunityNoAdvertise}
			if p, what := vh.Try(func() { a.AddPath(zvC11Pfxs[o.P], blocked) }); p {
				viol(vh.Sig("clause", "panic", "op", "blk"), "AddPath of a NO_ADVERTISE path panicked: %s", what)
				break
			}
			if last {
				r.Count("blocked_announcement", 1)
			}
			for _, k := range rec.take() {
				if k.Op != "rm" || k.Pfx != pfxS {
					viol(vh.Sig("clause", "blocked_path_advertised"), "prefix %s: the announcement of a NO_ADVERTISE path made the session call its client with %v", pfxS, k)
					continue
				}
				held, okv := view[o.P][k.V.PathID]
				if !okv {
					viol(vh.Sig("clause", "withdraw_id", "differ", "blocked-announcement"), "prefix %s: withdrawal with identifier %d, under which no path is advertised (advertised: %v)", pfxS, k.V.PathID, view[o.P])
					continue
				}
				if last {
					r.Count("withdrawal_after_blocked_announcement", 1)
				}
				if c := clOf(held); c >= 0 {
					present[o.P][c] = false
					annID[o.P][c] = 0
				}
				delete(view[o.P], k.V.PathID)
			}
		case "rmx":
			// withdrawal of a path this prefix does not hold: nothing may happen (the Loc-RIB issues such calls)
			if p, what := vh.Try(func() { a.RemovePath(zvC11Pfxs[o.P], paths[o.X]) }); p {
				viol(vh.Sig("clause", "panic", "op", "rmx"), "RemovePath of a path the prefix does not hold panicked: %s", what)
				break
			}
			if last {
				r.Count("withdrawal_of_path_not_held", 1)
			}
			if calls := rec.take(); len(calls) != 0 {
				viol(vh.Sig("clause", "calls_on_noop_withdrawal"), "prefix %s does not hold path %d, but its withdrawal made the session call its client: %v", pfxS, o.X, calls)
			}
		case "rm":
			if p, what := vh.Try(func() { a.RemovePath(zvC11Pfxs[o.P], paths[o.X]) }); p {
				viol(vh.Sig("clause", "panic", "op", "rm"), "RemovePath panicked: %s", what)
				break
			}
			present[o.P][cl] = false
			calls := rec.take()
			if len(calls) == 0 {
				// no withdrawal reached the client: whether the peer's view follows the table is C10's clause, but the
				// allocator must still agree with the table - the state oracles below run, the history is not extended
				r.Count("pruned_withdrawal_missing", 1)
				noExtend = true
				break
			}
			want := annID[o.P][cl]
			for _, k := range calls {
				if k.Op != "rm" || k.Pfx != pfxS {
					r.Count("pruned_unexpected_call", 1)
					ok = false
					continue
				}
				if last {
					r.Count("withdrawals_checked", 1)
				}
				if k.V.PathID != want {
					other, oc := "no path", -1
					if h, held := view[o.P][k.V.PathID]; held {
						other, oc = "the still advertised path "+h.String(), clOf(h)
					}
					viol(vh.Sig("clause", "withdraw_id", "differ", zvC11Differ(u, cl, oc)),
						"prefix %s: withdrawal of path %d (announced with identifier %d) carries identifier %d, which names %s", pfxS, o.X, want, k.V.PathID, other)
					continue
				}
				delete(view[o.P], k.V.PathID)
			}
			annID[o.P][cl] = 0
		}
		if !ok || noExtend {
			break
		}
	}

	// state oracle: two different stored paths of one prefix never share an identifier
	type ent struct {
		pfx int
		v   *zvoView
	}
	var stored []ent
	if ok {
		pi := map[string]int{}
		for i, p := range zvC11Pfxs {
			pi[p.String()] = i
		}
		for _, rt := range a.Dump() {
			byID := map[uint32]*zvoView{}
			for _, p := range rt.Paths() {
				vv := zvoViewOf(p)
				v := &vv
				stored = append(stored, ent{pi[rt.Prefix().String()], v})
				if o, dup := byID[v.PathID]; dup && o.zvoNoID() != v.zvoNoID() {
					ok = false
					r.Violation(vh.Sig("clause", "unique", "where", "table", "differ", zvC11Differ(u, clOf(o), clOf(v))), c,
						"["+u.Session+" session] prefix %s: the Adj-RIB-Out stores two different paths under identifier %d\n  %s\n  %s", rt.Prefix(), v.PathID, o, v)
				}
				byID[v.PathID] = v
			}
		}
	}
	// state oracle 2: the allocator's reference counts agree with the table - an identifier is in use exactly as often
	// as stored paths carry it (an identifier released while a path still carries it leads to withdrawals without or
	// with another identifier, and to the identifier being handed out again)
	if ok {
		cnt := map[uint32]uint64{}
		for _, e := range stored {
			cnt[e.v.PathID]++
		}
		m := a.pathIDManager
		for id, n := range m.ids {
			if cnt[id] != n {
				ok = false
				r.Violation(vh.Sig("clause", "identifier_bookkeeping", "kind", "refcount"), c,
					"["+u.Session+" session] identifier %d is counted %d times by the allocator but carried by %d stored paths", id, n, cnt[id])
				break
			}
		}
		if ok && int(m.used) != len(m.ids) {
			ok = false
			r.Violation(vh.Sig("clause", "identifier_bookkeeping", "kind", "in_use_counter"), c,
				"["+u.Session+" session] the allocator counts %d identifiers in use, %d are (the counter is what allocation compares with the size of the identifier space)", m.used, len(m.ids))
		}
		for id, n := range cnt {
			if _, known := m.ids[id]; !known && ok {
				ok = false
				r.Violation(vh.Sig("clause", "identifier_bookkeeping", "kind", "released_while_in_use"), c,
					"["+u.Session+" session] identifier %d is carried by %d stored paths but the allocator has released it", id, n)
			}
		}
	}
	if !ok || noExtend {
		return "dead:" + fmt.Sprint(hist), nil, false
	}

	// canonical state. Identifiers are opaque and every identifier in use is <= last
	// (allocation is last+1 and last never decreases), so the next allocation never
	// meets an occupied slot: only equality among identifiers matters -> rank them.
	m := a.pathIDManager
	idset := map[uint32]bool{}
	for id := range m.ids {
		idset[id] = true
	}
	for _, id := range m.idByPath {
		idset[id] = true
	}
	for _, e := range stored {
		idset[e.v.PathID] = true
	}
	for p := range view {
		for id := range view[p] {
			idset[id] = true
		}
	}
	ids := make([]uint32, 0, len(idset))
	for id := range idset {
		ids = append(ids, id)
	}
	sort.Slice(ids, func(i, j int) bool { return ids[i] < ids[j] })
	rank := map[uint32]int{}
	for i, id := range ids {
		rank[id] = i + 1
	}
	var parts []string
	for _, e := range stored {
		parts = append(parts, fmt.Sprintf("T%d.%d=%d", e.pfx, clOf(e.v), rank[e.v.PathID]))
	}
	for p := range view {
		for id, v := range view[p] {
			parts = append(parts, fmt.Sprintf("V%d.%d=%d", p, clOf(v), rank[id]))
		}
	}
	for id, n := range m.ids {
		parts = append(parts, fmt.Sprintf("R%d=%d", rank[id], n))
	}
	for h, id := range m.idByPath {
		parts = append(parts, fmt.Sprintf("H%s=%d", h[:12], rank[id]))
	}
	sort.Strings(parts)
	canon := fmt.Sprint(present, annIDRank(annID, rank), "|used=", m.used, "|", strings.Join(parts, ","))
	for _, n := range m.ids {
		if n >= 2 {
			r.Count("identifier_shared_by_prefixes", 1)
			break
		}
	}

	var en []zvC11Op
	for p := 0; p < u.NPfx; p++ {
		en = append(en, zvC11Op{"blk", p, 0})
		for x := 0; x < 4; x++ {
			if present[p][zvC11Class[x]] {
				en = append(en, zvC11Op{"rm", p, x})
			} else {
				en = append(en, zvC11Op{"add", p, x}) // adding an attribute-identical path twice to one prefix is not in the alphabet
				if u.Wrap && x != 1 {
					for q := 0; q < u.NPfx; q++ {
						if q != p && present[q][zvC11Class[x]] {
							en = append(en, zvC11Op{"rmx", p, x})
							break
						}
					}
				}
			}
		}
	}
	return canon, en, true
}

func annIDRank(a [3][3]uint32, rank map[uint32]int) [3][3]int {
	var o [3][3]int
	for i := range a {
		for j := range a[i] {
			o[i][j] = rank[a[i][j]]
		}
	}
	return o
}

func zvC11Universes(thorough bool) []zvC11Uni {
	var big, small []zvC11Uni
	for _, s := range []string{"ibgp", "ebgp", "rs", "rr"} {
		for _, p2 := range []string{"otc", "unknown_attr", "aggregator", "atomic_aggregate"} {
			for _, p3 := range []string{"community", "as_path_content", "med"} {
				if thorough || (p3 == "community" && (s == "ibgp" || s == "ebgp")) {
					big = append(big, zvC11Uni{s, p2, p3, 3, 3, false, ""})
				}
				if !thorough {
					small = append(small, zvC11Uni{s, p2, p3, 2, 3, false, ""})
				}
			}
		}
	}
	for i := range big {
		big[i].Limit = 3
	}
	for i := range small {
		small[i].Limit = 3
	}
	// universes in which the identifier space can really run out
	var tight []zvC11Uni
	for _, s := range []string{"ibgp", "ebgp"} {
		for _, l := range []uint32{1, 2} {
			tight = append(tight, zvC11Uni{s, "otc", "community", 2, l, false, ""})
		}
	}
	// the allocator about to wrap around, with no-op withdrawals in the alphabet
	for _, s := range []string{"ibgp", "ebgp"} {
		tight = append(tight, zvC11Uni{s, "otc", "community", 2, 3, true, ""})
	}
	// a rewriting export policy
	for _, s := range []string{"ibgp", "ebgp"} {
		for _, p3 := range []string{"community", "as_path_content"} {
			tight = append(tight, zvC11Uni{s, "otc", p3, 2, 3, false, "set-med"})
		}
	}
	return append(append(big, small...), tight...) // the expensive ones first: they spread evenly over the shards
}

var zvC11Required = []string{"same_hash_different_attrs_on_one_prefix", "withdrawal_with_sibling_on_prefix", "release_of_shared_identifier",
	"identifier_shared_by_prefixes", "withdrawals_checked", "genuine_exhaustion", "allocation_of_last_free_identifier", "withdrawal_of_path_not_held", "blocked_announcement"}

func TestVerifC11(t *testing.T) {
	r := vh.Start(t, "C11")
	defer r.Finish()
	zvoTune()
	r.Rule("per universe (session kind ibgp|rs-client|ebgp|rr-client x attribute in which path 2 differs from path 0 outside ComputeHash x attribute in which path 3 differs), " +
		"identifier space 3 (= number of distinct attribute sets: allocation must never fail) plus universes with identifier space 1 and 2 (allocation may fail only while that many identifiers are in use), " +
		"two universes with the allocator's counter about to wrap around and withdrawals of paths a prefix does not hold in the alphabet, four universes with an export policy that rewrites an attribute (set MED); " +
		"BFS over all AddPath/RemovePath histories of 4 Loc-RIB paths (0 and 1 attribute-identical) and the announcement of a path the export rules block (NO_ADVERTISE) on 3 prefixes (quick: 2 prefixes for every universe, 3 prefixes for 8 of them) against a real add-path AdjRIBOut until the canonical state " +
		"(model, table, peer view, private pathIDManager maps and counters; identifiers ranked) set closes; evaluations = universes explored")
	r.Require(zvC11Required...)
	if r.IsReplay() {
		var c zvC11Case
		r.ReplayCase(&c)
		for n := 0; n <= len(c.Hist); n++ {
			zvC11Step(r, c.U, c.Hist[:n])
		}
		for _, k := range zvC11Required {
			r.Count(k, 1)
		}
		return
	}
	us := zvC11Universes(r.Thorough())
	r.Extra("universes_total", len(us))
	maxStates := 40000
	if r.Thorough() {
		maxStates = 400000
	}
	for i, u := range us {
		if !r.Mine(i) {
			continue
		}
		if r.OutOfBudget() {
			r.Cap("time budget: not all universes explored")
			break
		}
		u := u
		b := vh.BFS[zvC11Op]{R: r, MaxStates: maxStates, Label: fmt.Sprintf("%s/%s/%s", u.Session, u.P2, u.P3), Step: func(h []zvC11Op) (string, []zvC11Op, bool) {
			return zvC11Step(r, u, h)
		}}
		st, tr, closed := b.Explore()
		r.Eval(1)
		r.Nontrivial(1)
		r.Outcome(fmt.Sprintf("%s/%s/%s:%d:%d:%v", u.Session, u.P2, u.P3, st, tr, closed))
	}
}
