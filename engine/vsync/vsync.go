// Package vsync replaces "sync" in instrumented packages: Mutex, RWMutex and
// WaitGroup become visible to the virtual runtime (vsched). Zero values are
// usable, like the originals.
package vsync

import (
	"fmt"
	"sync"

	"github.com/bio-routing/bio-rd/zzverif/vsched"
)

type (
	Once   = sync.Once
	Pool   = sync.Pool
	Map    = sync.Map
	Locker = sync.Locker
	Cond   = sync.Cond
)

// Mutex is a scheduler-visible mutual exclusion lock.
type Mutex struct {
	held bool
	hb   hbMutex
}

func (m *Mutex) Lock() {
	vsched.Do(vsched.KLock, fmt.Sprintf("Mutex.Lock(%p)", m), func() bool { return !m.held }, func() { m.held = true })
	m.hb.acquire()
}

func (m *Mutex) TryLock() bool {
	vsched.Yield()
	if m.held {
		return false
	}
	m.held = true
	m.hb.acquire()
	return true
}

func (m *Mutex) Unlock() {
	if vsched.Aborting() {
		return
	}
	if !m.held {
		panic("sync: unlock of unlocked mutex")
	}
	m.hb.release()
	m.held = false
}

// RWMutex models Go's writer preference: Lock is two visible operations —
// announce (from then on new RLocks are refused) and acquire.
type RWMutex struct {
	writer   bool
	readers  int
	waitingW int
	hb       hbRWMutex
}

func (m *RWMutex) Lock() {
	vsched.Do(vsched.KWLockAnnounce, fmt.Sprintf("RWMutex.Lock(%p) announce", m), func() bool { return true }, func() { m.waitingW++ })
	vsched.Do(vsched.KWLockAcquire, fmt.Sprintf("RWMutex.Lock(%p)", m), func() bool { return !m.writer && m.readers == 0 }, func() { m.writer = true; m.waitingW-- })
	m.hb.lock()
}

func (m *RWMutex) Unlock() {
	if vsched.Aborting() {
		return
	}
	if !m.writer {
		panic("sync: Unlock of unlocked RWMutex")
	}
	m.hb.unlock()
	m.writer = false
}

func (m *RWMutex) RLock() {
	vsched.Do(vsched.KRLock, fmt.Sprintf("RWMutex.RLock(%p)", m), func() bool { return !m.writer && m.waitingW == 0 }, func() { m.readers++ })
	m.hb.rlock()
}

func (m *RWMutex) RUnlock() {
	if vsched.Aborting() {
		return
	}
	if m.readers <= 0 {
		panic("sync: RUnlock of unlocked RWMutex")
	}
	m.hb.runlock()
	m.readers--
}

func (m *RWMutex) TryLock() bool {
	vsched.Yield()
	if m.writer || m.readers > 0 {
		return false
	}
	m.writer = true
	m.hb.lock()
	return true
}

func (m *RWMutex) TryRLock() bool {
	vsched.Yield()
	if m.writer || m.waitingW > 0 {
		return false
	}
	m.readers++
	m.hb.rlock()
	return true
}

// RLocker returns a Locker whose Lock/Unlock call RLock/RUnlock.
func (m *RWMutex) RLocker() sync.Locker { return (*rlocker)(m) }

type rlocker RWMutex

func (r *rlocker) Lock()   { (*RWMutex)(r).RLock() }
func (r *rlocker) Unlock() { (*RWMutex)(r).RUnlock() }

// WaitGroup is a scheduler-visible wait group.
type WaitGroup struct {
	n  int
	hb hbWaitGroup
}

func (w *WaitGroup) Add(d int) {
	if vsched.Aborting() {
		return
	}
	w.n += d
	if w.n < 0 {
		panic("sync: negative WaitGroup counter")
	}
	w.hb.add(d)
}

func (w *WaitGroup) Done() { w.Add(-1) }

func (w *WaitGroup) Wait() {
	vsched.Do(vsched.KWait, fmt.Sprintf("WaitGroup.Wait(%p)", w), func() bool { return w.n == 0 }, nil)
	w.hb.wait()
}
